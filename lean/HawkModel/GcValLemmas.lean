import HawkModel.GcVal
/-! # C07 — the accounting invariant of the leaf-value allocators (model: HawkModel/GcVal.lean) -/
namespace Hawk.Gc

/-- entries of the host's table satisfying `p` -/
def leafCount (p : Leaf → Bool) (t : List (Option Leaf)) : Nat :=
  t.countP fun x => match x with | some l => p l | none => false

def isInt : Leaf → Bool | .int => true | _ => false
def isFlt : Leaf → Bool | .flt => true | _ => false
def isStr : Leaf → Bool | .str _ => true | _ => false

theorem leafCount_append (p : Leaf → Bool) (t : List (Option Leaf)) (l : Leaf) :
    leafCount p (t ++ [some l]) = leafCount p t + (if p l then 1 else 0) := by
  unfold leafCount
  rw [List.countP_append]
  by_cases h : p l <;> simp [h]

theorem leafCount_set_none (p : Leaf → Bool) (t : List (Option Leaf)) (k : Nat) (l : Leaf)
    (h : (t[k]?).getD none = some l) :
    leafCount p (t.set k none) + (if p l then 1 else 0) = leafCount p t := by
  unfold leafCount
  induction t generalizing k with
  | nil => simp at h
  | cons a r ih =>
    cases k with
    | zero =>
      simp at h; subst h
      by_cases hp : p l <;> simp [List.countP_cons, hp]
    | succ n =>
      have := ih n (by simpa using h)
      simp only [List.set_cons_succ, List.countP_cons]
      omega

theorem sum_set (l : List Nat) (i a : Nat) (hi : i < l.length) : (l.set i a).sum + l.getD i 0 = l.sum + a := by
  induction l generalizing i with
  | nil => simp at hi
  | cons x r ih =>
    cases i with
    | zero => simp; omega
    | succ n =>
      have := ih n (by simpa using hi)
      simp only [List.set_cons_succ, List.sum_cons, List.getD_cons_succ]
      omega

/-- **cache blocks + live blocks + chunk (free-list) blocks = blocks obtained from the host**, and the slot and
table bookkeeping behind it -/
structure VInv (v : VSt) : Prop where
  blocks : v.host = v.ichunks + v.fchunks + v.slive + v.scache.sum
  ints : v.ilive + v.ifree = CHUNKSIZE * v.ichunks
  flts : v.flive + v.ffree = CHUNKSIZE * v.fchunks
  icnt : v.ilive = leafCount isInt v.tab
  fcnt : v.flive = leafCount isFlt v.tab
  scnt : v.slive = leafCount isStr v.tab
  clen : v.scache.length = STR_CACHE_NUM

theorem vinv_init : VInv {} := ⟨rfl, rfl, rfl, rfl, rfl, rfl, rfl⟩

theorem vinv_mkInt (v : VSt) (h : VInv v) : VInv (mkInt v) := by
  obtain ⟨hb, hi, hf, h1, h2, h3, h4⟩ := h
  unfold mkInt
  by_cases hz : v.ifree = 0
  · rw [if_pos hz]
    refine ⟨?_, ?_, hf, ?_, ?_, ?_, h4⟩
    · show v.host + 1 = v.ichunks + 1 + v.fchunks + v.slive + v.scache.sum; omega
    · show v.ilive + 1 + (CHUNKSIZE - 1) = CHUNKSIZE * (v.ichunks + 1); simp only [CHUNKSIZE] at *; omega
    · show v.ilive + 1 = leafCount isInt (v.tab ++ [some .int]); rw [leafCount_append]; simp [isInt]; exact h1
    · show v.flive = leafCount isFlt (v.tab ++ [some .int]); rw [leafCount_append]; simp [isFlt]; exact h2
    · show v.slive = leafCount isStr (v.tab ++ [some .int]); rw [leafCount_append]; simp [isStr]; exact h3
  · rw [if_neg hz]
    refine ⟨hb, ?_, hf, ?_, ?_, ?_, h4⟩
    · show v.ilive + 1 + (v.ifree - 1) = CHUNKSIZE * v.ichunks; omega
    · show v.ilive + 1 = leafCount isInt (v.tab ++ [some .int]); rw [leafCount_append]; simp [isInt]; exact h1
    · show v.flive = leafCount isFlt (v.tab ++ [some .int]); rw [leafCount_append]; simp [isFlt]; exact h2
    · show v.slive = leafCount isStr (v.tab ++ [some .int]); rw [leafCount_append]; simp [isStr]; exact h3

theorem vinv_mkFlt (v : VSt) (h : VInv v) : VInv (mkFlt v) := by
  obtain ⟨hb, hi, hf, h1, h2, h3, h4⟩ := h
  unfold mkFlt
  by_cases hz : v.ffree = 0
  · rw [if_pos hz]
    refine ⟨?_, hi, ?_, ?_, ?_, ?_, h4⟩
    · show v.host + 1 = v.ichunks + (v.fchunks + 1) + v.slive + v.scache.sum; omega
    · show v.flive + 1 + (CHUNKSIZE - 1) = CHUNKSIZE * (v.fchunks + 1); simp only [CHUNKSIZE] at *; omega
    · show v.ilive = leafCount isInt (v.tab ++ [some .flt]); rw [leafCount_append]; simp [isInt]; exact h1
    · show v.flive + 1 = leafCount isFlt (v.tab ++ [some .flt]); rw [leafCount_append]; simp [isFlt]; exact h2
    · show v.slive = leafCount isStr (v.tab ++ [some .flt]); rw [leafCount_append]; simp [isStr]; exact h3
  · rw [if_neg hz]
    refine ⟨hb, hi, ?_, ?_, ?_, ?_, h4⟩
    · show v.flive + 1 + (v.ffree - 1) = CHUNKSIZE * v.fchunks; omega
    · show v.ilive = leafCount isInt (v.tab ++ [some .flt]); rw [leafCount_append]; simp [isInt]; exact h1
    · show v.flive + 1 = leafCount isFlt (v.tab ++ [some .flt]); rw [leafCount_append]; simp [isFlt]; exact h2
    · show v.slive = leafCount isStr (v.tab ++ [some .flt]); rw [leafCount_append]; simp [isStr]; exact h3

theorem vinv_mkStr (v : VSt) (len : Nat) (h : VInv v) : VInv (mkStr v len) := by
  obtain ⟨hb, hi, hf, h1, h2, h3, h4⟩ := h
  unfold mkStr
  simp only
  by_cases hc : strClass len < STR_CACHE_NUM ∧ 0 < v.scache.getD (strClass len) 0
  · rw [if_pos hc]
    have hs := sum_set v.scache (strClass len) (v.scache.getD (strClass len) 0 - 1) (by rw [h4]; exact hc.1)
    refine ⟨?_, hi, hf, ?_, ?_, ?_, by simp [h4]⟩
    · show v.host = v.ichunks + v.fchunks + (v.slive + 1) + (v.scache.set _ _).sum; omega
    · show v.ilive = leafCount isInt (v.tab ++ [some (.str _)]); rw [leafCount_append]; simp [isInt]; exact h1
    · show v.flive = leafCount isFlt (v.tab ++ [some (.str _)]); rw [leafCount_append]; simp [isFlt]; exact h2
    · show v.slive + 1 = leafCount isStr (v.tab ++ [some (.str _)]); rw [leafCount_append]; simp [isStr]; exact h3
  · rw [if_neg hc]
    refine ⟨?_, hi, hf, ?_, ?_, ?_, h4⟩
    · show v.host + 1 = v.ichunks + v.fchunks + (v.slive + 1) + v.scache.sum; omega
    · show v.ilive = leafCount isInt (v.tab ++ [some (.str _)]); rw [leafCount_append]; simp [isInt]; exact h1
    · show v.flive = leafCount isFlt (v.tab ++ [some (.str _)]); rw [leafCount_append]; simp [isFlt]; exact h2
    · show v.slive + 1 = leafCount isStr (v.tab ++ [some (.str _)]); rw [leafCount_append]; simp [isStr]; exact h3

theorem vinv_rel (v : VSt) (k : Nat) (v' : VSt) (h : VInv v) (hr : rel v k = some v') : VInv v' := by
  obtain ⟨hb, hi, hf, h1, h2, h3, h4⟩ := h
  unfold rel at hr
  cases ht : (v.tab[k]?).getD none with
  | none => rw [ht] at hr; cases hr
  | some l =>
    rw [ht] at hr
    have ci := leafCount_set_none isInt v.tab k l ht
    have cf := leafCount_set_none isFlt v.tab k l ht
    have cs := leafCount_set_none isStr v.tab k l ht
    cases l with
    | int =>
      simp only [isInt, isFlt, isStr, if_true] at ci cf cs
      simp only [Option.some.injEq] at hr; subst hr
      refine ⟨hb, ?_, hf, ?_, ?_, ?_, h4⟩
      · show v.ilive - 1 + (v.ifree + 1) = CHUNKSIZE * v.ichunks; omega
      · show v.ilive - 1 = leafCount isInt (v.tab.set k none); omega
      · show v.flive = leafCount isFlt (v.tab.set k none); simp at cf; omega
      · show v.slive = leafCount isStr (v.tab.set k none); simp at cs; omega
    | flt =>
      simp only [isInt, isFlt, isStr, if_true] at ci cf cs
      simp only [Option.some.injEq] at hr; subst hr
      refine ⟨hb, hi, ?_, ?_, ?_, ?_, h4⟩
      · show v.flive - 1 + (v.ffree + 1) = CHUNKSIZE * v.fchunks; omega
      · show v.ilive = leafCount isInt (v.tab.set k none); simp at ci; omega
      · show v.flive - 1 = leafCount isFlt (v.tab.set k none); omega
      · show v.slive = leafCount isStr (v.tab.set k none); simp at cs; omega
    | str c =>
      simp only [isInt, isFlt, isStr, if_true] at ci cf cs
      simp only at hr
      by_cases hc : c < STR_CACHE_NUM ∧ v.scache.getD c 0 < STR_CACHE_CAP
      · rw [if_pos hc] at hr
        simp only [Option.some.injEq] at hr; subst hr
        have hs := sum_set v.scache c (v.scache.getD c 0 + 1) (by rw [h4]; exact hc.1)
        refine ⟨?_, hi, hf, ?_, ?_, ?_, by simp [h4]⟩
        · show v.host = v.ichunks + v.fchunks + (v.slive - 1) + (v.scache.set _ _).sum; omega
        · show v.ilive = leafCount isInt (v.tab.set k none); simp at ci; omega
        · show v.flive = leafCount isFlt (v.tab.set k none); simp at cf; omega
        · show v.slive - 1 = leafCount isStr (v.tab.set k none); omega
      · rw [if_neg hc] at hr
        simp only [Option.some.injEq] at hr; subst hr
        refine ⟨?_, hi, hf, ?_, ?_, ?_, h4⟩
        · show v.host - 1 = v.ichunks + v.fchunks + (v.slive - 1) + v.scache.sum; omega
        · show v.ilive = leafCount isInt (v.tab.set k none); simp at ci; omega
        · show v.flive = leafCount isFlt (v.tab.set k none); simp at cf; omega
        · show v.slive - 1 = leafCount isStr (v.tab.set k none); omega

theorem vinv_step (v : VSt) (op : VOp) (h : VInv v) : VInv (vstep v op) := by
  cases op with
  | int => exact vinv_mkInt v h
  | flt => exact vinv_mkFlt v h
  | str len => exact vinv_mkStr v len h
  | rel k =>
    show VInv ((rel v k).getD v)
    cases hr : rel v k with
    | none => exact h
    | some v' => exact vinv_rel v k v' h hr

theorem vinv_run (ops : List VOp) : VInv (vrun ops) := by
  unfold vrun
  suffices ∀ v, VInv v → VInv (ops.foldl vstep v) from this _ vinv_init
  induction ops with
  | nil => exact fun v h => h
  | cons op r ih => exact fun v h => ih _ (vinv_step v op h)

end Hawk.Gc
