/-!
# C12 — model of hawk's printf/sprintf formatter

Transcription of
* `lib/fmt-imp.h`  `fmt_uintmax`            → `fmtUintmax`
* `lib/fmt.c`      `hawk_fmt_intmax_to_*cstr` / `hawk_fmt_uintmax_to_*cstr` → `fmtIntmaxTo`, `fmtUintmaxTo`
* `lib/run.c`      `hawk_rtx_format` / `hawk_rtx_formatmbs` (scanner + per-conversion emitters) → `parseSpec`, `format`
* `lib/fmt.c`      `fmt_outv`, the part reached by the float conversions (flag scanner and the
                   re-composition of the specifier handed to libc `snprintf`) → `fmtcFloat`
and the reference side `CSpec` — ISO C 7.21.6.1 for `d i o u x X c s` written declaratively.

The model follows the REPAIRED code (patches/c12-format-like-c.diff):
  `%+u`/`% u` print no sign; FILLCENTER emits the prefix before the zero fill (`%#08x`); `%#X` uses `0X`;
  the byte-string twin knows `%u`; a negative `*` precision counts as omitted; an unknown or incomplete
  specifier is copied from the format string itself; (fmt.c) `0` after `-` is still a flag.

Not modelled (inputs of the model instead): value conversions `hawk_rtx_valtoint` / `valtoflt` /
`valtooocstrdup` for non-integer arguments (carried in `Arg`), libc's float digit generation (a float
conversion yields `Piece.libc spec arg`), the hawk extensions `%k %K %w %W` (`Piece.ext`), GROW buffer
management, widths/precisions ≥ 2^31 (C truncates them to `int`).
Core Lean only.
-/
namespace Hawk.Fmt

abbrev Str := List Char

/-! ## integer rendering: fmt-imp.h -/

/-- `xbasestr[d]` -/
def xdigit (upper : Bool) (d : Nat) : Char :=
  (if upper then "0123456789ABCDEFGHIJKLMNOPQRSTUVWXYZ".toList
   else "0123456789abcdefghijklmnopqrstuvwxyz".toList).getD d '?'

/-- the `do { *p++ = xbasestr[v % base]; v /= base; } while (v > 0);` loop: content of `tmp`,
least significant digit first. (`base ≥ 2` is checked by the caller; for `base < 2` the C loop would not
terminate, the model stops after one digit.) -/
def revDigits (base : Nat) (upper : Bool) (v : Nat) : Str :=
  if _h : base < 2 then [xdigit upper (v % base)]
  else if h0 : v / base > 0 then xdigit upper (v % base) :: revDigits base upper (v / base)
  else [xdigit upper (v % base)]
termination_by v
decreasing_by
  have : v ≠ 0 := by intro hv; simp [hv] at h0
  exact Nat.div_lt_self (by omega) (by omega)

/-- `base_and_flags` decoded -/
structure IFlags where
  base : Nat := 10
  notrunc : Bool := false
  nonull : Bool := false
  nozero : Bool := false
  zerolead : Bool := false
  uppercase : Bool := false
  plussign : Bool := false
  emptysign : Bool := false
  fillright : Bool := false
  fillcenter : Bool := false
deriving Repr, DecidableEq

/-- guarded writes `while (… && bp < be) *bp++ = …` : append as much of `cs` as fits below `be` -/
def put (be : Nat) (out cs : Str) : Str := out ++ cs.take (be - out.length)

/-- unguarded fill loop `while (fillsize > reslen) { *bp++ = fillchar; fillsize--; }` -/
def fill (out : Str) (fillsize reslen : Nat) (c : Char) : Str := out ++ List.replicate (fillsize - reslen) c

def optStr (c : Option Char) : Str := match c with | some c => [c] | none => []

/-- first part of `fmt_uintmax`: content of `tmp` (least significant digit first), `reslen` and `preczero`
before sign and prefix are counted -/
def digitsPart (f : IFlags) (value : Nat) (prec : Int) : Str × Nat × Nat :=
  if f.nozero ∧ value = 0 then
    -- NOZERO emits no digit, ZEROLEAD emits 1 digit
    if f.zerolead then ([], 1, 1) else ([], 0, 0)
  else
    let tmp := revDigits f.base f.uppercase value
    let reslen := tmp.length
    if prec > (reslen : Int) then (tmp, prec.toNat, prec.toNat - reslen)
    else if f.zerolead ∧ value ≠ 0 then (tmp, reslen + 1, 1)
    else (tmp, reslen, 0)

/-- `fmt_uintmax`: returns the C return value and the characters written to `buf`
(`fillchar`/`signchar` = `none` is the NUL character, `pfx = none` is a NULL prefix). -/
def fmtUintmax (size : Nat) (value : Nat) (f : IFlags) (prec : Int)
    (fillchar signchar : Option Char) (pfx : Option Str) : Int × Str :=
  if f.base < 2 ∨ f.base > 36 then (-1, []) else
  let dp := digitsPart f value prec
  let tmp := dp.1
  let preczero := dp.2.2
  let reslen := if signchar.isSome then dp.2.1 + 1 else dp.2.1
  let pflen := (pfx.getD []).length     -- `if (prefix) pflen = strlen(prefix); else pflen = 0;`
  let reslen := reslen + pflen
  let reqlen := if f.nonull then reslen else reslen + 1
  if size = 0 ∨ (f.notrunc ∧ size < reqlen) then (-(reqlen : Int), []) else
  let fillsize := if f.nonull then size else size - 1
  let be := fillsize
  let sign := optStr signchar
  let prefix_ := pfx.getD []
  let zeros := List.replicate preczero '0'
  let digits := tmp.reverse
  let out : Str :=
    match fillchar with
    | some fc =>
      if f.fillright then
        fill (put be (put be (put be (put be [] sign) prefix_) zeros) digits) fillsize reslen fc
      else if f.fillcenter then
        -- repaired order: sign, prefix, fill, precision zeros, digits
        put be (put be (fill (put be (put be [] sign) prefix_) fillsize reslen fc) zeros) digits
      else
        put be (put be (put be (put be (fill [] fillsize reslen fc) sign) prefix_) zeros) digits
    | none =>
      put be (put be (put be (put be [] sign) prefix_) zeros) digits
  ((out.length : Int), out)

/-- `hawk_fmt_intmax_to_*cstr` (value is a `hawk_intmax_t`, 128 bits here: `-value` cannot overflow for a 64-bit `hawk_int_t`) -/
def fmtIntmaxTo (size : Nat) (value : Int) (f : IFlags) (prec : Int) (fillchar : Option Char) (pfx : Option Str) : Int × Str :=
  if value < 0 then fmtUintmax size (-value).toNat f prec fillchar (some '-') pfx
  else if f.plussign then fmtUintmax size value.toNat f prec fillchar (some '+') pfx
  else if f.emptysign then fmtUintmax size value.toNat f prec fillchar (some ' ') pfx
  else fmtUintmax size value.toNat f prec fillchar none pfx

/-- `hawk_fmt_uintmax_to_*cstr` -/
def fmtUintmaxTo (size : Nat) (value : Nat) (f : IFlags) (prec : Int) (fillchar : Option Char) (pfx : Option Str) : Int × Str :=
  if f.plussign then fmtUintmax size value f prec fillchar (some '+') pfx
  else if f.emptysign then fmtUintmax size value f prec fillchar (some ' ') pfx
  else fmtUintmax size value f prec fillchar none pfx

/-! ## run.c: arguments, flags -/

/-- a sprintf argument as far as the formatter looks at it. The conversions of non-integer values are
done by `hawk_rtx_valtoint` / `hawk_rtx_valtooocstrdup` outside this model and are carried along. -/
inductive Arg where
  | int (v : Int)                    -- HAWK_VAL_INT
  | flt (trunc : Int) (text : Str)   -- HAWK_VAL_FLT: `(hawk_int_t)value`, and its CONVFMT text
  | str (s : Str) (num : Int)        -- HAWK_VAL_STR and what `hawk_rtx_valtoint` makes of it
  | chr (c : Char) (num : Int)       -- HAWK_VAL_CHAR and what `hawk_rtx_valtoint` makes of it
  | nil                              -- HAWK_VAL_NIL
deriving Repr, DecidableEq

/-- `hawk_rtx_valtoint` -/
def Arg.toInt : Arg → Int
  | .int v => v
  | .flt t _ => t
  | .str _ n => n
  | .chr _ n => n
  | .nil => 0

structure Flags where
  space : Bool := false
  hash : Bool := false
  zero : Bool := false
  plus : Bool := false
  minus : Bool := false
deriving Repr, DecidableEq

def isFlagChar (c : Char) : Bool := c == ' ' || c == '#' || c == '0' || c == '+' || c == '-'

/-- one step of the `switch (fmt[i])` in the flag loop -/
def Flags.add (f : Flags) (c : Char) : Flags :=
  if c == ' ' then { f with space := true }
  else if c == '#' then { f with hash := true }
  else if c == '0' then { f with zero := true }
  else if c == '+' then { f with plus := true }
  else if c == '-' then { f with minus := true }
  else f

/-- flag loop: returns the flags, the flag characters consumed (appended to fbu) and the rest -/
def scanFlags : Str → Flags → Flags × Str × Str
  | [], f => (f, [], [])
  | c :: r, f =>
    if isFlagChar c then
      let (f', cs, rest) := scanFlags r (f.add c)
      (f', c :: cs, rest)
    else (f, [], c :: r)

/-- `wp = wp * 10 + fmt[i] - '0'` over a digit string -/
def decVal (ds : Str) : Nat := ds.foldl (fun n c => n * 10 + (c.toNat - 48)) 0

/-- leading run of decimal digits and the rest -/
def spanDigits : Str → Str × Str
  | [] => ([], [])
  | c :: r => if c.isDigit then let (ds, rest) := spanDigits r; (c :: ds, rest) else ([], c :: r)

/-- the text `hawk_fmt_intmax_to_oocstr(tmp, len, v, 10|NOTRUNC|NONULL, -1, '\0', NULL)` leaves in fbu for a `*`
argument, including the retry with the required length -/
def starText (tmpLen : Nat) (v : Int) : Str :=
  let f : IFlags := { base := 10, notrunc := true, nonull := true }
  let r := fmtIntmaxTo tmpLen v f (-1) none none
  if r.1 ≤ -1 then
    let r2 := fmtIntmaxTo (tmpLen + max (-r.1).toNat 8192) v f (-1) none none   -- GROW_WITH_INC: len += max(-n, inc)
    r2.2.take r2.1.toNat
  else r.2.take r.1.toNat

inductive Err where
  | efmtarg   -- HAWK_EFMTARG: not enough arguments
deriving Repr, DecidableEq

/-- result of one pass through `wp_mod_main` -/
structure WP where
  val : Option Int   -- value stored into wp[wp_idx] (none: left at its initial value)
  fbu : Str          -- fbu afterwards
  rest : Str
  args : List Arg
  used : Nat         -- format characters consumed
deriving Repr

/-- `wp_mod_main:` for width (`isPrec = false`) or precision (`isPrec = true`, fbu already ends in '.') -/
def parseWP (tmpLen : Nat) (isPrec : Bool) (fbu : Str) (l : Str) (args : List Arg) : Except Err WP :=
  match l, args with
  | '*' :: _, [] => .error .efmtarg
  | '*' :: r, a :: as =>
    let v := a.toInt
    if isPrec ∧ v < 0 then
      -- repaired: negative precision = omitted; the period is dropped from fbu
      .ok { val := some (-1), fbu := fbu.dropLast, rest := r, args := as, used := 1 }
    else
      .ok { val := some v, fbu := fbu ++ starText tmpLen v, rest := r, args := as, used := 1 }
  | l, args =>
    let (ds, rest) := spanDigits l
    if ds = [] then .ok { val := none, fbu := fbu, rest := l, args := args, used := 0 }
    else .ok { val := some (decVal ds : Int), fbu := fbu ++ ds, rest := rest, args := args, used := ds.length }

/-! ## run.c: the emitters -/

structure Cfg where
  mbs : Bool := false       -- hawk_rtx_formatmbs (byte-string format) instead of hawk_rtx_format
  tmpLen : Nat := 4096      -- rtx->format.tmp.len on entry
  valMode : Bool := false   -- called from val_flt_to_str (CONVFMT/OFMT): `val` set
deriving Repr

def isIntConv (c : Char) : Bool :=
  c == 'd' || c == 'i' || c == 'x' || c == 'X' || c == 'b' || c == 'B' || c == 'o' || c == 'u'

def isFltConv (c : Char) : Bool := c == 'e' || c == 'E' || c == 'g' || c == 'G' || c == 'f'

def isExtConv (c : Char) : Bool := c == 'k' || c == 'K' || c == 'w' || c == 'W'

/-- `do { n = fmt(tmp, fmt_width, …); if (n <= -1) { GROW_WITH_INC (tmp, -n); fmt_width = -n; continue; } break; } while (1);
OUT_STR (tmp, n);` — the second call is made with exactly the required size and cannot fail
(`FmtLemmas.retryLoop_fmtUintmax`), so the model stops after it. -/
def retryLoop (call : Nat → Int × Str) (size : Nat) : Str :=
  let r := call size
  if r.1 ≤ -1 then
    let r2 := call (-r.1).toNat
    if r2.1 ≤ -1 then [] else r2.2.take r2.1.toNat
  else r.2.take r.1.toNat

/-- "justification for width greater than 0": (FILLRIGHT, FILLCENTER, fill character) -/
def fillOf (flags : Flags) (width : Nat) (precGiven : Bool) (prec : Int) : Bool × Bool × Option Char :=
  if width > 0 then
    if flags.zero then
      -- FLAG_MINUS wins if both FLAG_ZERO and FLAG_MINUS are specified
      if flags.minus then (true, false, some ' ')
      -- precision not specified (repaired: or a negative `*` precision): FLAG_ZERO can take effect
      else if !precGiven ∨ prec < 0 then (false, true, some '0')
      else (false, false, some ' ')
    else
      if flags.minus then (true, false, some ' ') else (false, false, some ' ')
  else (false, false, none)

/-- `switch (fmt[i])`: (base, UPPERCASE, ZEROLEAD, PLUSSIGN, EMPTYSIGN, fmt_uint, fmt_prefix) -/
def convOf (flags : Flags) (c : Char) (l : Int) : Nat × Bool × Bool × Bool × Bool × Bool × Option Str :=
  if c == 'B' ∨ c == 'b' then
    (2, false, false, false, false, true, if l ≠ 0 ∧ flags.hash then some ['0', 'b'] else none)
  else if c == 'X' then
    (16, true, false, false, false, true, if l ≠ 0 ∧ flags.hash then some ['0', 'X'] else none)   -- repaired: 0X
  else if c == 'x' then
    (16, false, false, false, false, true, if l ≠ 0 ∧ flags.hash then some ['0', 'x'] else none)
  else if c == 'o' then
    (8, false, flags.hash, false, false, true, none)
  else if c == 'u' then
    (10, false, false, false, false, true, none)      -- repaired: + and space do not apply
  else
    (10, false, false, flags.plus, flags.space, false, none)

/-- the integer branch of hawk_rtx_format after the argument was converted to `l` -/
def emitInt (tmpLen : Nat) (flags : Flags) (width : Nat) (precGiven : Bool) (prec : Int) (c : Char) (l : Int) : Str :=
  let fl := fillOf flags width precGiven prec
  let cv := convOf flags c l
  let f : IFlags :=
    { base := cv.1, notrunc := true, nonull := true,
      -- A zero value with a precision of zero produces no character
      nozero := decide (l = 0 ∧ precGiven = true ∧ prec = 0),
      zerolead := cv.2.2.1, uppercase := cv.2.1, plussign := cv.2.2.2.1, emptysign := cv.2.2.2.2.1,
      fillright := fl.1, fillcenter := fl.2.1 }
  let fillc := fl.2.2
  let pfx := cv.2.2.2.2.2.2
  let fmtWidth := if width > 0 then width else tmpLen
  if cv.2.2.2.2.2.1 then
    retryLoop (fun size => fmtUintmaxTo size (l % 18446744073709551616).toNat f prec fillc pfx) fmtWidth   -- (hawk_uint_t)l
  else retryLoop (fun size => fmtIntmaxTo size l f prec fillc pfx) fmtWidth

/-- `(hawk_ooch_t)v` (16-bit) resp. `(hawk_bch_t)v` (8-bit) -/
def charOfInt (mbs : Bool) (v : Int) : Char :=
  Char.ofNat (v % (if mbs then 256 else 65536)).toNat

def spaces (n : Nat) : Str := List.replicate n ' '

/-- `switch (vtype)` of the `%c` branch: the character and `ch_len` -/
def Arg.chrOf (mbs : Bool) : Arg → Char × Nat
  | .nil => ('\x00', 0)
  | .chr c _ => (c, 1)
  | .int v => (charOfInt mbs v, 1)
  | .flt t _ => (charOfInt mbs t, 1)
  | .str [] _ => if mbs then ('\x00', 0) else ('\x00', 1)   -- printf("%c", "") => produces '\0' character (hawk_rtx_format only)
  | .str (c :: _) _ => (c, 1)

/-- the `%c` branch -/
def emitChar (mbs : Bool) (flags : Flags) (width : Nat) (prec : Int) (a : Arg) : Str :=
  let ch := (a.chrOf mbs).1
  let chLen := (a.chrOf mbs).2
  let prec : Int := if prec ≤ 0 ∨ prec > (chLen : Int) then chLen else prec
  let width : Int := if prec > (width : Int) then prec else width
  let pad := spaces (width - prec).toNat
  (if !flags.minus then pad else []) ++ (if prec > 0 then [ch] else []) ++ (if flags.minus then pad else [])

/-- decimal text of an integer value (val_int_to_str) -/
def intText (v : Int) : Str :=
  if v < 0 then '-' :: (revDigits 10 false (-v).toNat).reverse else (revDigits 10 false v.toNat).reverse

/-- `switch (vtype)` of the `%s` branch: the characters `str_ptr[0 .. str_len)` -/
def Arg.strOf : Arg → Str
  | .nil => []
  | .chr c _ => [c]
  | .str s _ => s
  | .int v => intText v      -- hawk_rtx_valtooocstrdup
  | .flt _ t => t            -- hawk_rtx_valtooocstrdup through CONVFMT

/-- the `%s` branch (not the val_flt_to_str special case) -/
def emitStr (flags : Flags) (width : Nat) (precGiven : Bool) (prec : Int) (a : Arg) : Str :=
  let s := a.strOf
  let prec : Int := if !precGiven ∨ prec ≤ -1 ∨ prec > (s.length : Int) then s.length else prec
  let width : Int := if prec > (width : Int) then prec else width
  let pad := spaces (width - prec).toNat
  (if !flags.minus then pad else []) ++ s.take prec.toNat ++ (if flags.minus then pad else [])

/-! ## fmt.c: the part of `fmt_outv` that a float specifier built by run.c goes through -/

structure CState where
  dot : Bool := false
  sharp : Bool := false
  space : Bool := false
  sign : Bool := false
  leftadj : Bool := false
  zeropad : Bool := false
  width : Bool := false
  precision : Bool := false
  lenmod : Bool := false
  w : Nat := 0
  p : Nat := 0
deriving Repr, DecidableEq

/-- digit run starting with `c` (`for (n = 0;; fmtptr++) { n = n * 10 + uch - '0'; … }`) -/
def takeNum : Str → Nat → Nat × Str
  | [], n => (n, [])
  | c :: r, n => if c.isDigit then takeNum r (n * 10 + (c.toNat - 48)) else (n, c :: r)

theorem takeNum_length_le (l : Str) (n : Nat) : (takeNum l n).2.length ≤ l.length := by
  induction l generalizing n with
  | nil => simp [takeNum]
  | cons c r ih =>
    simp only [takeNum]
    split
    · exact Nat.le_trans (ih _) (Nat.le_succ _)
    · simp

/-- `reswitch:` restricted to the characters run.c can put into fbu. `none` = `invalid_format`
(or a character outside that alphabet); `some (st, conv)` = the float case was reached. -/
def fmtcScan (l : Str) (st : CState) : Option (CState × Char) :=
  match l with
  | [] => none
  | c :: r =>
    if c == '.' then
      if st.dot then none else fmtcScan r { st with dot := true }
    else if c == '#' then
      if st.width ∨ st.dot ∨ st.lenmod then none else fmtcScan r { st with sharp := true }
    else if c == ' ' then
      if st.width ∨ st.dot ∨ st.lenmod then none else fmtcScan r { st with space := true }
    else if c == '+' then
      if st.width ∨ st.dot ∨ st.lenmod then none else fmtcScan r { st with sign := true }
    else if c == '-' then
      if st.width ∨ st.dot ∨ st.lenmod then none
      else fmtcScan r { st with leftadj := true, zeropad := false }
    else if c == '0' ∧ !st.lenmod ∧ !(st.dot ∨ st.width) then
      -- repaired: still among the flags; `-` overrides but other flags may follow
      fmtcScan r (if st.leftadj then st else { st with zeropad := true })
    else if c.isDigit then
      if st.lenmod then none else
      let nr := takeNum r (c.toNat - 48)
      if st.dot then fmtcScan nr.2 { st with p := nr.1, precision := true }
      else fmtcScan nr.2 { st with w := nr.1, width := true }
    else if c == 'z' then
      if st.lenmod then none else fmtcScan r { st with lenmod := true }
    else if c == 'e' ∨ c == 'E' ∨ c == 'f' ∨ c == 'g' ∨ c == 'G' then
      if st.lenmod ∧ r = [] then some (st, c) else none
    else none
termination_by l.length
decreasing_by
  all_goals simp_wf
  all_goals first
    | omega
    | (have := takeNum_length_le r (c.toNat - 48); omega)

def decimal (n : Nat) : Str := (revDigits 10 false n).reverse

/-- "compose back the format specifier" for `dtype == LF_LD` -/
def recompose (st : CState) (conv : Char) : Str :=
  ['%'] ++ (if st.space then [' '] else []) ++ (if st.sharp then ['#'] else []) ++ (if st.sign then ['+'] else [])
    ++ (if st.leftadj then ['-'] else []) ++ (if st.zeropad then ['0'] else [])
    ++ (if st.width then decimal st.w else [])
    ++ (if st.dot then ['.'] else []) ++ (if st.precision then decimal st.p else [])
    ++ ['L', conv]

/-- what `hawk_ooecs_fcat(out, fbu, r)` does with a specifier `fbu = '%' :: body`: `some spec` = the
specifier given to libc `snprintf` with the `long double`; `none` = fmt.c rejects it and prints it raw -/
def fmtcFloat (fbu : Str) : Option Str :=
  match fbu with
  | '%' :: body => (fmtcScan body {}).map fun (st, conv) => recompose st conv
  | _ => none

/-! ## run.c: one specifier, then the whole format -/

inductive Piece where
  | text (s : Str)
  | libc (spec : Str) (arg : Arg)   -- libc snprintf(spec, (long double) valtoflt(arg))
  | ext (conv : Char) (arg : Arg)   -- %k %K %w %W : hawk extensions, not modelled
deriving Repr, DecidableEq

/-- the float branch and the `val` special case of `%s`: fbu ++ "z" ++ conv through fmt.c -/
def emitFloat (fbu : Str) (conv : Char) (a : Arg) : Piece :=
  let spec := fbu ++ ['z', conv]
  match fmtcFloat spec with
  | some s => .libc s a
  | none => .text spec

/-- state at the conversion character: what the flag loop and the two passes through `wp_mod_main` leave -/
structure Head where
  flags : Flags
  wval : Option Int      -- wp[WP_WIDTH] if one was given
  precGiven : Bool       -- wp_idx == WP_PRECISION
  pval : Option Int      -- wp[WP_PRECISION] if a value was stored after the period
  fbu : Str
  rest : Str             -- the format from the conversion character on
  args : List Arg
  used : Nat             -- characters consumed after the '%'
deriving Repr

/-- flags, width, precision: from `/* handle flags */` to just before `if (i >= fmt_len) break;` -/
def parseHead (cfg : Cfg) (l : Str) (args : List Arg) : Except Err Head :=
  let (flags, fcs, r1) := scanFlags l {}
  let fbu := '%' :: fcs
  match parseWP cfg.tmpLen false fbu r1 args with
  | .error e => .error e
  | .ok w =>
    match w.rest with
    | '.' :: r2 =>
      match parseWP cfg.tmpLen true (w.fbu ++ ['.']) r2 w.args with
      | .error e => .error e
      | .ok p => .ok { flags := flags, wval := w.val, precGiven := true, pval := p.val, fbu := p.fbu, rest := p.rest,
                       args := p.args, used := fcs.length + w.used + 1 + p.used }
    | _ => .ok { flags := flags, wval := w.val, precGiven := false, pval := none, fbu := w.fbu, rest := w.rest,
                 args := w.args, used := fcs.length + w.used }

/-- from `if (i >= fmt_len) break;` to the end of the loop body. `l` = the characters after the `%`
(the repaired code copies unknown and incomplete specifiers from the format string itself). -/
def dispatch (cfg : Cfg) (l : Str) (h : Head) : Except Err (List Piece × Nat × List Arg) :=
  match h.rest with
  | [] => .ok ([.text ('%' :: l)], l.length, h.args)    -- `if (i >= fmt_len) break;` + "flush uncompleted formatting sequence"
  | c :: _ =>
    let width0 : Int := h.wval.getD 0
    let prec : Int := if h.precGiven then h.pval.getD 0 else -1
    -- `if (wp[WP_WIDTH] < 0) { wp[WP_WIDTH] = -wp[WP_WIDTH]; flags |= FLAG_MINUS; }`
    let width : Nat := if width0 < 0 then (-width0).toNat else width0.toNat
    let flags : Flags := if width0 < 0 then { h.flags with minus := true } else h.flags
    if isIntConv c then
      match h.args with
      | [] => .error .efmtarg
      | a :: as => .ok ([.text (emitInt cfg.tmpLen flags width h.precGiven prec c a.toInt)], h.used + 1, as)
    else if isFltConv c then
      match h.args with
      | [] => .error .efmtarg
      | a :: as => .ok ([emitFloat h.fbu c a], h.used + 1, as)
    else if c == 'c' then
      match h.args with
      | [] => .error .efmtarg
      | a :: as => .ok ([.text (emitChar cfg.mbs flags width prec a)], h.used + 1, as)
    else if c == 's' ∨ isExtConv c then
      match h.args with
      | [] => .error .efmtarg
      | a :: as =>
        if cfg.valMode then .ok ([emitFloat h.fbu 'g' a], h.used + 1, as)
        else if c == 's' then .ok ([.text (emitStr flags width h.precGiven prec a)], h.used + 1, as)
        else .ok ([.ext c a], h.used + 1, as)
    else if c == '%' then .ok ([.text ['%']], h.used + 1, h.args)
    else .ok ([.text ('%' :: l.take (h.used + 1))], h.used + 1, h.args)   -- unknown: copied through

/-- One trip through the body of the `for` loop of hawk_rtx_format, entered with `fbu = "%"` and `l` = the
characters after the `%`. Result: pieces put out, number of characters of `l` consumed, arguments left. -/
def parseSpec (cfg : Cfg) (l : Str) (args : List Arg) : Except Err (List Piece × Nat × List Arg) :=
  match parseHead cfg l args with
  | .error e => .error e
  | .ok h => dispatch cfg l h

/-- the `for (i = 0; i < fmt_len; i++)` loop. `skip` = characters already consumed by the specifier in progress. -/
def formatGo (cfg : Cfg) : Str → Nat → List Arg → Except Err (List Piece)
  | [], _, _ => .ok []
  | _ :: r, skip + 1, args => formatGo cfg r skip args
  | c :: r, 0, args =>
    if c != '%' then (formatGo cfg r 0 args).map (Piece.text [c] :: ·)
    else
      match parseSpec cfg r args with
      | .error e => .error e
      | .ok (ps, k, args') => (formatGo cfg r k args').map (ps ++ ·)

/-- `hawk_rtx_format(fmt, args)` (`cfg.mbs`: `hawk_rtx_formatmbs`) -/
def format (cfg : Cfg) (fmt : Str) (args : List Arg) : Except Err (List Piece) := formatGo cfg fmt 0 args

/-- the text of a result whose pieces are all plain text -/
def piecesText : List Piece → Option Str
  | [] => some []
  | .text s :: r => (piecesText r).map (s ++ ·)
  | _ :: _ => none

/-! ## CSpec: ISO C (7.21.6.1) for d i o u x X c s, declaratively -/
namespace CSpec

/-- a conversion specification after the `*` arguments were taken (7.21.6.1p5: "A negative field width
argument is taken as a - flag followed by a positive field width. A negative precision argument is taken
as if the precision were omitted.") -/
structure Spec where
  flags : Flags
  width : Nat
  prec : Option Nat
  conv : Char
deriving Repr, DecidableEq

def resolve (flags : Flags) (width : Option Int) (prec : Option Int) (conv : Char) : Spec :=
  let w : Int := width.getD 0
  { flags := if w < 0 then { flags with minus := true } else flags
    width := w.natAbs
    prec := match prec with | some p => if p < 0 then none else some p.toNat | none => none
    conv := conv }

def base (conv : Char) : Nat := if conv == 'o' then 8 else if conv == 'x' ∨ conv == 'X' then 16 else if conv == 'b' ∨ conv == 'B' then 2 else 10

def signed (conv : Char) : Bool := conv == 'd' || conv == 'i'

/-- digits of `n` in the base of the conversion, most significant first, no leading zeros ("0" for 0) -/
def digits (conv : Char) (n : Nat) : Str :=
  let ds := Nat.toDigits (base conv) n
  if conv == 'X' then ds.map Char.toUpper else ds

def zeros (n : Nat) : Str := List.replicate n '0'

/-- magnitude that gets converted: `|v|` for the signed conversions; for the unsigned ones the argument is
`(uintmax_t)v`, i.e. `v mod 2^64` -/
def mag (conv : Char) (v : Int) : Nat := if signed conv then v.natAbs else (v % 18446744073709551616).toNat

/-- sign: `-` for a negative value of a signed conversion, else `+` with the `+` flag ("The result of a signed
conversion always begins with a plus or minus sign"), else a space with the space flag ("If the first
character of a signed conversion is not a sign … a space is prefixed to the result. If the space and +
flags both appear, the space flag is ignored"). Signed conversions only. -/
def signOf (s : Spec) (v : Int) : Str :=
  if signed s.conv then
    if v < 0 then ['-'] else if s.flags.plus then ['+'] else if s.flags.space then [' '] else []
  else []

/-- "The result of converting a zero value with a precision of zero is no characters." -/
def digitsOf (s : Spec) (m : Nat) : Str := if s.prec = some 0 ∧ m = 0 then [] else digits s.conv m

/-- "The precision specifies the minimum number of digits to appear; if the value being converted can be
represented in fewer digits, it is expanded with leading zeros. The default precision is 1."
`#` with `o`: "it increases the precision, if and only if necessary, to force the first digit of the result to
be a zero (if the value and precision are both 0, a single 0 is printed)". -/
def numOf (s : Spec) (m : Nat) : Str :=
  let ds := digitsOf s m
  let num0 := zeros (s.prec.getD 1 - ds.length) ++ ds
  if s.conv == 'o' ∧ s.flags.hash ∧ num0.head? ≠ some '0' then '0' :: num0 else num0

/-- `#`: "For x (or X) conversion, a nonzero result has 0x (or 0X) prefixed to it." (C23: likewise b, B.
No effect on d i u: ISO leaves that undefined, every libc ignores it.) -/
def prefixOf (s : Spec) (m : Nat) : Str :=
  if s.flags.hash ∧ m ≠ 0 then
    (if s.conv == 'x' then ['0', 'x'] else if s.conv == 'X' then ['0', 'X']
     else if s.conv == 'b' then ['0', 'b'] else if s.conv == 'B' then ['0', 'B'] else [])
  else []

/-- `d i o u x X` applied to the integer argument `v`: sign, prefix, digits, then the field:
* `-`: left-justified within the field, padded with spaces on the right;
* `0`: "leading zeros (following any indication of sign or base) are used to pad to the field width rather
  than performing space padding … If the 0 and - flags both appear, the 0 flag is ignored. For d, i, o, u,
  x, and X conversions, if a precision is specified, the 0 flag is ignored."
* otherwise right-justified, padded with spaces on the left. -/
def render (s : Spec) (v : Int) : Str :=
  let m := mag s.conv v
  let sign := signOf s v
  let pfx := prefixOf s m
  let num := numOf s m
  let body := sign ++ pfx ++ num
  let padN := s.width - body.length
  if s.flags.minus then body ++ spaces padN
  else if s.flags.zero ∧ s.prec = none then sign ++ pfx ++ zeros padN ++ num
  else spaces padN ++ body

/-- `%c` with an `int` argument converted to `unsigned char` resp. `%lc`: the character, padded to the
field width with spaces, on the left unless `-` (flags `+ space # 0` and a precision have no effect:
undefined in ISO C, ignored by libc) -/
def renderChar (s : Spec) (c : Char) : Str :=
  let padN := s.width - 1
  if s.flags.minus then c :: spaces padN else spaces padN ++ [c]

/-- `%s`: "Characters from the array are written up to (but not including) the terminating null
character. If the precision is specified, no more than that many bytes are written." padded like `%c` -/
def renderStr (s : Spec) (str : Str) : Str :=
  let t := match s.prec with | some p => str.take p | none => str
  let padN := s.width - t.length
  if s.flags.minus then t ++ spaces padN else spaces padN ++ t

/-- syntax of one conversion specification (7.21.6.1p4) *after* the `%`: flags, width (`*` or digits),
optional `.` precision (`*`, digits or nothing), optional length modifier out of `lm`, conversion char.
`stars` are the int arguments for `*`. Returns the spec, the length modifier characters and the rest. -/
def parse (l : Str) (stars : List Int) : Option (Spec × Str × Str) :=
  let (flags, _, r1) := scanFlags l {}
  let wres : Option (Option Int × Str × List Int) :=
    match r1, stars with
    | '*' :: r, w :: st => some (some w, r, st)
    | '*' :: _, [] => none
    | _, st => let (ds, r) := spanDigits r1; some (if ds = [] then none else some (decVal ds : Int), r, st)
  match wres with
  | none => none
  | some (w, r2, st) =>
  let pres : Option (Option Int × Str) :=
    match r2, st with
    | '.' :: '*' :: r, p :: _ => some (some p, r)
    | '.' :: '*' :: _, [] => none
    | '.' :: r, _ => let (ds, r') := spanDigits r; some (some (decVal ds : Int), r')
    | _, _ => some (none, r2)
  match pres with
  | none => none
  | some (p, r3) =>
  let lm := r3.takeWhile fun c => c == 'j' || c == 'L' || c == 'l' || c == 'h' || c == 'z' || c == 't' || c == 'q'
  match r3.drop lm.length with
  | [] => none
  | c :: rest => some (resolve flags w p c, lm, rest)

end CSpec

/-! ## a specification as written: flags, width, precision, conversion (used to state the theorems and by the driver) -/

/-- width part of a specifier as written -/
inductive WSpec where
  | none
  | lit (ds : Str)     -- decimal digits, not starting with 0 (a leading 0 is the `0` flag)
  | star (v : Int)     -- `*` with the int argument `v`
deriving Repr

/-- precision part of a specifier as written -/
inductive PSpec where
  | none
  | lit (ds : Str)     -- `.` followed by decimal digits (possibly none)
  | star (v : Int)     -- `.*` with the int argument `v`
deriving Repr

def WSpec.wf : WSpec → Prop
  | .lit ds => ds ≠ [] ∧ (∀ c ∈ ds, c.isDigit = true) ∧ ds.head? ≠ some '0'
  | _ => True

def PSpec.wf : PSpec → Prop
  | .lit ds => ∀ c ∈ ds, c.isDigit = true
  | _ => True

def WSpec.text : WSpec → Str
  | .none => [] | .lit ds => ds | .star _ => ['*']

def PSpec.text : PSpec → Str
  | .none => [] | .lit ds => '.' :: ds | .star _ => ['.', '*']

def WSpec.args : WSpec → List Arg
  | .star v => [Arg.int v] | _ => []

def PSpec.args : PSpec → List Arg
  | .star v => [Arg.int v] | _ => []

/-- the value C reads: digits as a decimal number, `*` from the argument -/
def WSpec.val : WSpec → Option Int
  | .none => Option.none | .lit ds => some (decVal ds : Int) | .star v => some v

def PSpec.val : PSpec → Option Int
  | .none => Option.none | .lit ds => some (decVal ds : Int) | .star v => some v

/-- what hawk stores in wp[WP_PRECISION] -/
def PSpec.pval : PSpec → Option Int
  | .none => Option.none
  | .lit ds => if ds = [] then Option.none else some (decVal ds : Int)
  | .star v => some (if v < 0 then -1 else v)

def WSpec.fbuText (tmpLen : Nat) : WSpec → Str
  | .none => [] | .lit ds => ds | .star v => starText tmpLen v

def PSpec.fbuText (tmpLen : Nat) : PSpec → Str
  | .none => [] | .lit ds => '.' :: ds | .star v => if v < 0 then [] else '.' :: starText tmpLen v

def PSpec.given : PSpec → Bool
  | .none => false | _ => true

/-- a character that ends the flags/width/precision part -/
def isConvEnd (c : Char) : Prop := isFlagChar c = false ∧ c.isDigit = false ∧ c ≠ '.' ∧ c ≠ '*'

/-- flags as C reads them off the flag characters -/
def flagsOf (fl : Str) : Flags := fl.foldl Flags.add {}

/-- the text of a conversion specification after the `%`: flags, width, precision, conversion character -/
def specText (fl : Str) (w : WSpec) (p : PSpec) (c : Char) : Str := fl ++ w.text ++ p.text ++ [c]

/-- how ISO C reads that specification (`*` arguments substituted) -/
def cspec (fl : Str) (w : WSpec) (p : PSpec) (c : Char) : CSpec.Spec := CSpec.resolve (flagsOf fl) w.val p.val c

/-! ## val.c: the text of a number and its delivery (`hawk_rtx_valtostr`: val_int_to_str, val_flt_to_str, str_to_str) -/

/-- the five output kinds of `hawk_rtx_valtostr` -/
inductive OutKind where
  | cpl | cplcpy | cpldup | strp | strpcat
deriving Repr, DecidableEq

/-- what the caller gets: the text found through `out` (for `strpcat`: the whole string buffer), or the failure HAWK_EINVAL
together with the length stored into `out->u.cplcpy.len` if one is stored -/
inductive VRes where
  | ok (text : Str)
  | einval (need : Option Nat)
deriving Repr, DecidableEq

/-- `while (t > 0) { rlen++; t /= 10; }` -/
def countDigits (t : Nat) : Nat :=
  if _h : t > 0 then countDigits (t / 10) + 1 else 0
termination_by t
decreasing_by exact Nat.div_lt_self (by omega) (by omega)

/-- the length pass of val_int_to_str: `rlen` -/
def intRlen (v : Int) : Nat :=
  if v = 0 then 1 else (if v < 0 then 1 else 0) + countDigits v.natAbs

/-- the fill pass of val_int_to_str over the `rlen` cells reserved for the number (blank before the pass, as
`hawk_ooecs_nccat(…, ' ', rlen)` leaves them): the digits are written from the last cell backwards, then the sign -/
def intCells (v : Int) (rlen : Nat) : Str :=
  if v = 0 then '0' :: List.replicate (rlen - 1) ' '
  else
    let body := (if v < 0 then ['-'] else []) ++ (revDigits 10 false v.natAbs).reverse
    List.replicate (rlen - body.length) ' ' ++ body

/-- val_int_to_str -/
def valIntToStr (v : Int) (kind : OutKind) (buflen : Nat) (pre : Str) : VRes :=
  let rlen := intRlen v
  match kind with
  | .cpl | .cplcpy =>
    -- `if (rlen >= out->u.cplcpy.len) { …; out->u.cplcpy.len = rlen + 1; return -1; }`
    if rlen ≥ buflen then .einval (some (rlen + 1)) else .ok (intCells v rlen)
  | .cpldup => .ok (intCells v rlen)
  | .strp => .ok (intCells v rlen)               -- the string buffer is cleared first
  | .strpcat => .ok (pre ++ intCells v rlen)     -- appended at the insertion point remembered before the buffer was extended

/-- val_flt_to_str: the format it hands to hawk_rtx_format (`HAWK_RTX_VALTOSTR_PRINT` selects OFMT) … -/
def valFltFormat (print : Bool) (convfmt ofmt : Str) : Str := if print then ofmt else convfmt

/-- … the formatting itself (`nargs_on_stack = -1`: `cfg.valMode`, the number is the only argument) … -/
def valFltPieces (tmpLen : Nat) (print : Bool) (convfmt ofmt : Str) (a : Arg) : Except Err (List Piece) :=
  format { tmpLen := tmpLen, valMode := true } (valFltFormat print convfmt ofmt) [a]

/-- … and the delivery of the resulting text `t` (of length `tmp_len`) -/
def deliverFlt (t : Str) (kind : OutKind) (buflen : Nat) (pre : Str) : VRes :=
  match kind with
  | .cpl | .cplcpy =>
    -- `if (out->u.cplcpy.len <= tmp_len) { …; out->u.cplcpy.len = tmp_len + 1; goto oops; }`
    if buflen ≤ t.length then .einval (some (t.length + 1)) else .ok t
  | .cpldup => .ok t
  | .strp => .ok t
  | .strpcat => .ok (pre ++ t)

/-- val_flt_to_str as a whole (since 65b4a33). `iv = some n`: the value is `>= HAWK_TYPE_MIN(hawk_int_t)`, `< -HAWK_TYPE_MIN(hawk_int_t)` and
`(hawk_flt_t)(hawk_int_t)v == v`, `n` being that integer: "a number whose value is an exact integer is converted as if by %d", through
val_int_to_str. Otherwise `t` is the text hawk_rtx_format made of CONVFMT (OFMT with HAWK_RTX_VALTOSTR_PRINT), delivered by `deliverFlt`. -/
def valFltToStr (iv : Option Int) (t : Str) (kind : OutKind) (buflen : Nat) (pre : Str) : VRes :=
  match iv with
  | some n => valIntToStr n kind buflen pre
  | none => deliverFlt t kind buflen pre

/-- the pieces of the text of a float: the digits of the integer, or what CONVFMT/OFMT give -/
def valFltToPieces (tmpLen : Nat) (print : Bool) (convfmt ofmt : Str) (iv : Option Int) (a : Arg) : Except Err (List Piece) :=
  match iv with
  | some n => .ok [.text (intCells n (intRlen n))]
  | none => valFltPieces tmpLen print convfmt ofmt a

/-- str_to_str (strings, characters, nil) -/
def strToStr (s : Str) (kind : OutKind) (buflen : Nat) (pre : Str) : VRes :=
  match kind with
  | .cpl => .ok s                                  -- the pointer to the characters themselves
  | .cplcpy => if s.length ≥ buflen then .einval none else .ok s
  | .cpldup => .ok s
  | .strp => .ok s
  | .strpcat => .ok (pre ++ s)

end Hawk.Fmt
