/-
  Model of the string builtins of lib/fnc.c (and their str:: twins of lib/mod-str.c, which are the
  same C functions except `str::match`, = `__fnc_match` with the start-index argument enabled):

    hawk_fnc_length, hawk_fnc_substr, index_or_rindex, fnc_split (+ the tokenisers of
    lib/misc-imp.h), hawk_fnc_tolower/toupper, __substitute (+ __substitute_oocs/_bcs), __fnc_match,
    hawk_find_*chars_in_*chars / hawk_rfind_* of lib/utl-str.c.

  Part 1 is generic in the element type `α` (hawk_ooch_t = 16-bit character, or hawk_bch_t = byte; the C
  instantiates every routine twice) and in the regular-expression matcher, which enters only through
  `Matcher α` : subject, start offset ↦ (absolute start, length) of the match the engine reports when asked
  to search `subject[start..]` (with HAWK_TRE_NOTBOL when start > 0), bundled with the interface law that
  the reported match lies inside the subject at or after the start offset.
  Part 2 is the value-type dispatch of each builtin (`switch (HAWK_RTX_GETVALTYPE(...))`) over a small
  value type, the conversions hawk_rtx_getvaloocstr / getvalbcstr, and the effect on the interpreter
  state (RSTART, RLENGTH, the by-reference target of sub/gsub, the by-reference array of split/match).

  Default configuration only: IGNORECASE = 0, STRIPRECSPC off, no '?'-quoted field mode (reported as
  `none` = not modelled).  Machine integers are modelled by `Int` (no overflow of hawk_int_t).

  The model follows the code REPAIRED by patches/ (see the notes marked REPAIR).
-/
set_option linter.unusedSectionVars false
set_option linter.unusedVariables false

namespace Hawk.StrFn

variable {α : Type} [DecidableEq α]

/-! ## Part 1 — generic routines -/

/-! ### substr (hawk_fnc_substr) -/

/-- `lindex = start - 1; if (lindex < 0) lindex = 0; if (lindex >= len) lindex = len;` -/
def substrIndex (n : Nat) (start : Int) : Nat :=
  let lindex := start - 1
  let lindex := if lindex < 0 then 0 else lindex
  let lindex := if lindex ≥ (n : Int) then (n : Int) else lindex
  lindex.toNat

/-- `if (lcount < 0) lcount = 0; … if (lcount > len - lindex) lcount = len - lindex;`
    (`none` = two-argument form, lcount = HAWK_TYPE_MAX(hawk_int_t), always clamped to the rest) -/
def substrCount (n lindex : Nat) : Option Int → Nat
  | none => n - lindex
  | some l =>
    let lcount := if l < 0 then 0 else l
    let lcount := if lcount > (n : Int) - (lindex : Int) then (n : Int) - (lindex : Int) else lcount
    lcount.toNat

def substr (s : List α) (start : Int) (len : Option Int) : List α :=
  let lindex := substrIndex s.length start
  (s.drop lindex).take (substrCount s.length lindex len)

/-! ### index / rindex (index_or_rindex, hawk_find_xchars_in_xchars, hawk_rfind_xchars_in_xchars) -/

/-- the inner `while (1)` comparison loop: does `p` occur in `s` at offset `i` -/
def occursAt (p s : List α) (i : Nat) : Bool := p.isPrefixOf (s.drop i)

/-- hawk_find_xchars_in_xchars (ignorecase = 0): offset of the first occurrence scanning upwards;
    `subsz == 0` returns the start -/
def find : List α → List α → Option Nat
  | [], p => if p.isPrefixOf [] then some 0 else none
  | c :: t, p => if p.isPrefixOf (c :: t) then some 0 else (find t p).map (· + 1)

/-- the downward loop `while (p >= str) { …; p--; }` of hawk_rfind_xchars_in_xchars from offset `k` -/
def rfindFrom (s p : List α) : Nat → Option Nat
  | 0 => if occursAt p s 0 then some 0 else none
  | k + 1 => if occursAt p s (k + 1) then some (k + 1) else rfindFrom s p k

/-- hawk_rfind_xchars_in_xchars: `subsz == 0` returns the end; `strsz < subsz` nothing; else scan down
    from `strsz - subsz` -/
def rfind (s p : List α) : Option Nat :=
  if p.length = 0 then some s.length
  else if s.length < p.length then none
  else rfindFrom s p (s.length - p.length)

/-- the boundary computation shared by index and rindex -/
def indexBoundary (rindex : Bool) (n : Nat) : Option Int → Int
  | none => if rindex then (n : Int) else 1
  | some b => if b = 0 then 1 else if b < 0 then (n : Int) + b + 1 else b

/-- index_or_rindex on one element type.
    REPAIR: the C rejected every boundary beyond the subject length (`boundary > len0`), so a forward search
    could not start at the empty suffix and index("", "") was 0 although index("abc", "") is 1; repaired to
    accept the start position len0 + 1 for the forward search (only the empty string can be found there). -/
def indexCore (rindex : Bool) (s p : List α) (start : Option Int) : Int :=
  let boundary := indexBoundary rindex s.length start
  if boundary ≤ 0 ∨ boundary > (s.length : Int) + (if rindex then 0 else 1) then 0
  else if rindex then
    match rfind (s.take boundary.toNat) p with
    | some i => (i : Int) + 1
    | none => 0
  else
    match find (s.drop (boundary.toNat - 1)) p with
    | some i => ((boundary.toNat - 1 + i : Nat) : Int) + 1
    | none => 0

/-! ### tokenisers (misc-imp.h tokenize_xchars, tokenize_xchars_by_rex) and the split loop -/

inductive DelimMode where
  | empty | spaces | nospaces | composite
deriving DecidableEq, Repr

/-- the classification loop over the delimiter characters (with its `break`s on reaching COMPOSITE) -/
def delimScan (isSp : α → Bool) : DelimMode → List α → DelimMode
  | m, [] => m
  | .composite, _ :: _ => .composite
  | .empty, d :: r => if isSp d then delimScan isSp .spaces r else delimScan isSp .nospaces r
  | .spaces, d :: r => if isSp d then delimScan isSp .spaces r else .composite
  | .nospaces, d :: r => if isSp d then .composite else delimScan isSp .nospaces r

/-- `if (delim_mode == __DELIM_SPACES && delim_len == 1 && delim[0] != ' ') delim_mode = __DELIM_NOSPACES;` -/
def delimMode (isSp : α → Bool) (blank : α) (delim : List α) : DelimMode :=
  let m := delimScan isSp .empty delim
  if m = .spaces ∧ delim.length = 1 ∧ delim ≠ [blank] then .nospaces else m

/-- result of one tokeniser call: the token and the pointer to continue from (`none` = HAWK_NULL) -/
abbrev TokRes (σ : Type) (α : Type) := List α × Option σ

/-- `if (p >= end) return HAWK_NULL;` -/
def nextOrNull (p : List α) : Option (List α) := if p = [] then none else some p

/-- __DELIM_EMPTY: every character is a token -/
def tokEmpty : List α → TokRes (List α) α
  | [] => ([], none)
  | c :: t => ([c], nextOrNull t)

/-- __DELIM_SPACES: skip spaces, take the run of non-spaces, skip spaces -/
def tokSpaces (isSp : α → Bool) (s : List α) : TokRes (List α) α :=
  let p1 := s.dropWhile isSp
  let tk := p1.takeWhile (fun c => !isSp c)
  let p2 := (p1.dropWhile (fun c => !isSp c)).dropWhile isSp
  (tk, nextOrNull p2)

/-- __DELIM_NOSPACES: scan to the first character of the delimiter set; `return ++p` steps over it
    (possibly to the very end, which yields one more, empty, token on the next call) -/
def tokNoSpaces (delim : List α) (s : List α) : TokRes (List α) α :=
  let tk := s.takeWhile (fun c => !delim.contains c)
  match s.dropWhile (fun c => !delim.contains c) with
  | [] => (tk, none)
  | _ :: t => (tk, some t)

/-- trailing spaces removed (the token ends at `ep`, the last non-space seen) -/
def trimRight (isSp : α → Bool) (l : List α) : List α := (l.reverse.dropWhile isSp).reverse

/-- __DELIM_COMPOSITE: delimited by a non-space delimiter character, surrounding spaces removed
    (not reachable from split(), where a separator longer than one character is a regular expression) -/
def tokComposite (isSp : α → Bool) (delim : List α) (s : List α) : TokRes (List α) α :=
  let p1 := s.dropWhile isSp
  let keep := fun c => isSp c || !delim.contains c
  let tk := trimRight isSp (p1.takeWhile keep)
  match p1.dropWhile keep with
  | [] => (tk, none)
  | _ :: t => (tk, some t)

/-- tokenize_xchars with a non-NULL delimiter -/
def tokChars (isSp : α → Bool) (blank : α) (delim : List α) (s : List α) : TokRes (List α) α :=
  match delimMode isSp blank delim with
  | .empty => tokEmpty s
  | .spaces => tokSpaces isSp s
  | .nospaces => tokNoSpaces delim s
  | .composite => tokComposite isSp delim s

/-- regular-expression matcher as seen by the builtins, with its interface law -/
structure Matcher (α : Type) where
  run : List α → Nat → Option (Nat × Nat)
  inside : ∀ s k p l, run s k = some (p, l) → k ≤ p ∧ p + l ≤ s.length

/-- the `while (cursub.len > 0)` loop of tokenize_xchars_by_rex (STRIPRECSPC off): first non-empty
    match at or after `cur`; an empty match moves the cursor one character on and retries -/
def rexScan (m : Matcher α) (s : List α) (cur : Nat) : Option (Nat × Nat) :=
  if cur < s.length then
    match m.run s cur with
    | none => none
    | some (p, l) => if l = 0 then rexScan m s (cur + 1) else some (p, l)
  else none
termination_by s.length - cur

/-- tokenize_xchars_by_rex: token = text up to the separator match, continue after the match;
    no (non-empty) match: the rest is the last token -/
def tokRex (m : Matcher α) (s : List α) (pos : Nat) : TokRes Nat α :=
  match rexScan m s pos with
  | none => (s.drop pos, none)
  | some (p, l) => ((s.drop pos).take (p - pos), some (p + l))

/-- the field loop of fnc_split: `while (p) { p = tokenize(...); if (nflds == 0 && !p && tok.len == 0) break; store; }` -/
def piecesLoop {σ : Type} (step : σ → TokRes σ α) (μ : σ → Nat)
    (hdec : ∀ a t b, step a = (t, some b) → μ b < μ a) (a : σ) (nflds : Nat) : List (List α) :=
  match h : step a with
  | (tk, none) => if nflds = 0 ∧ tk = [] then [] else [tk]
  | (tk, some b) => tk :: piecesLoop step μ hdec b (nflds + 1)
termination_by μ a
decreasing_by exact hdec a tk b h

theorem nextOrNull_some {p r : List α} (h : nextOrNull p = some r) : r = p := by
  unfold nextOrNull at h; split at h <;> simp_all

theorem tokEmpty_dec (a t b : List α) (h : tokEmpty a = (t, some b)) : b.length < a.length := by
  cases a with
  | nil => simp [tokEmpty] at h
  | cons c r =>
    simp only [tokEmpty, Prod.mk.injEq] at h
    have := nextOrNull_some h.2
    subst this; simp

theorem length_dropWhile_le (f : α → Bool) (l : List α) : (l.dropWhile f).length ≤ l.length := by
  induction l with
  | nil => simp
  | cons c t ih => simp only [List.dropWhile]; split <;> simp <;> omega

theorem tokSpaces_dec (isSp : α → Bool) (a t b : List α) (h : tokSpaces isSp a = (t, some b)) :
    b.length < a.length := by
  simp only [tokSpaces, Prod.mk.injEq] at h
  have hb := nextOrNull_some h.2
  subst hb
  cases a with
  | nil => simp [nextOrNull] at h
  | cons c r =>
    by_cases hc : isSp c = true
    · simp only [List.dropWhile_cons, hc, ite_true]
      have h1 := length_dropWhile_le isSp ((r.dropWhile isSp).dropWhile (fun c => !isSp c))
      have h2 := length_dropWhile_le (fun c => !isSp c) (r.dropWhile isSp)
      have h3 := length_dropWhile_le isSp r
      simp only [List.length_cons]; omega
    · have hc' : isSp c = false := by simpa using hc
      simp only [List.dropWhile_cons, hc', Bool.not_false, ite_true, Bool.false_eq_true, ite_false]
      have h1 := length_dropWhile_le isSp (r.dropWhile (fun c => !isSp c))
      have h2 := length_dropWhile_le (fun c => !isSp c) r
      simp only [List.length_cons]; omega

theorem tokNoSpaces_dec (delim a t b : List α) (h : tokNoSpaces delim a = (t, some b)) :
    b.length < a.length := by
  unfold tokNoSpaces at h
  have hl := length_dropWhile_le (fun c => !delim.contains c) a
  split at h
  · simp at h
  · rename_i x r heq
    simp only [Prod.mk.injEq, Option.some.injEq] at h
    rw [heq] at hl; rw [← h.2]; simp only [List.length_cons] at hl; omega

theorem tokComposite_dec (isSp : α → Bool) (delim a t b : List α)
    (h : tokComposite isSp delim a = (t, some b)) : b.length < a.length := by
  unfold tokComposite at h
  have hl := length_dropWhile_le (fun c => isSp c || !delim.contains c) (a.dropWhile isSp)
  have hl2 := length_dropWhile_le isSp a
  simp only at h
  split at h
  · simp at h
  · rename_i x r heq
    simp only [Prod.mk.injEq, Option.some.injEq] at h
    rw [heq] at hl; rw [← h.2]; simp only [List.length_cons] at hl; omega

theorem tokChars_dec (isSp : α → Bool) (blank : α) (delim a t b : List α)
    (h : tokChars isSp blank delim a = (t, some b)) : b.length < a.length := by
  unfold tokChars at h
  split at h
  · exact tokEmpty_dec a t b h
  · exact tokSpaces_dec isSp a t b h
  · exact tokNoSpaces_dec delim a t b h
  · exact tokComposite_dec isSp delim a t b h

/-- split() with a character separator (`fs.len <= 1`, or the NIL separator = " ") -/
def splitChars (isSp : α → Bool) (blank : α) (delim : List α) (s : List α) : List (List α) :=
  piecesLoop (tokChars isSp blank delim) List.length (tokChars_dec isSp blank delim) s 0

theorem rexScan_bounds (m : Matcher α) (s : List α) (cur p l : Nat) (h : rexScan m s cur = some (p, l)) :
    cur ≤ p ∧ p + l ≤ s.length ∧ 0 < l := by
  induction cur using rexScan.induct m s with
  | case1 cur hlt hnone =>
    rw [rexScan] at h; simp [hlt, hnone] at h
  | case2 cur hlt p' hrun ih =>
    rw [rexScan] at h; simp only [hlt, ite_true, hrun] at h
    have := ih h; omega
  | case3 cur hlt p' l' hrun hl =>
    rw [rexScan] at h; simp only [hlt, ite_true, hrun, hl, ite_false, Option.some.injEq, Prod.mk.injEq] at h
    have := m.inside s cur p' l' hrun
    omega
  | case4 cur hge =>
    rw [rexScan] at h; simp [hge] at h

theorem tokRex_dec (m : Matcher α) (s : List α) (a : Nat) (t : List α) (b : Nat)
    (h : tokRex m s a = (t, some b)) : s.length - b < s.length - a := by
  unfold tokRex at h
  split at h
  · simp at h
  · rename_i p l heq
    simp only [Prod.mk.injEq, Option.some.injEq] at h
    have := rexScan_bounds m s a p l heq
    omega

/-- split() with a regular-expression separator -/
def splitRex (m : Matcher α) (s : List α) : List (List α) :=
  piecesLoop (tokRex m s) (fun pos => s.length - pos) (tokRex_dec m s) 0 0

/-! ### tolower / toupper -/

def mapCase (f : α → α) (s : List α) : List α := s.map f

/-! ### sub / gsub (__substitute_oocs / __substitute_bcs) -/

/-- the replacement-template loop `for (i = 0; i < s1->len; i++)` with its four special cases;
    `bs` = '\\', `amp` = '&', `mat` = the matched text -/
def expand (bs amp : α) (mat : List α) : List α → List α
  | [] => []
  | [a] => if a = amp then mat else [a]
  | [a, b] =>
    if a = bs ∧ b = amp then [amp]
    else if a = amp then mat ++ expand bs amp mat [b]
    else a :: expand bs amp mat [b]
  | [a, b, c] =>
    if a = bs ∧ b = bs ∧ c = amp then bs :: mat
    else if a = bs ∧ b = amp then amp :: expand bs amp mat [c]
    else if a = amp then mat ++ expand bs amp mat [b, c]
    else a :: expand bs amp mat [b, c]
  | a :: b :: c :: d :: r =>
    if a = bs ∧ b = bs ∧ c = bs ∧ d = amp then bs :: amp :: expand bs amp mat r
    else if a = bs ∧ b = bs ∧ c = amp then bs :: (mat ++ expand bs amp mat (d :: r))
    else if a = bs ∧ b = amp then amp :: expand bs amp mat (c :: d :: r)
    else if a = amp then mat ++ expand bs amp mat (b :: c :: d :: r)
    else a :: expand bs amp mat (b :: c :: d :: r)
termination_by t => t.length

/-- `sub_count < match_limit`; `none` = HAWK_TYPE_MAX(hawk_oow_t) (gsub), never reached -/
def belowLimit (cnt : Nat) : Option Nat → Bool
  | none => true
  | some k => cnt < k

/-- the `while (cur.ptr <= s2_end)` loop.  `cur` = cur.ptr - s2->ptr, `pend` = pmat.ptr + pmat.len
    (`none` while pmat.ptr == NULL), `cnt` = sub_count, `out` = the output buffer.
    Returns (buffer, sub_count). -/
def substLoop (m : Matcher α) (bs amp : α) (s repl : List α) (limit : Option Nat)
    (cur : Nat) (pend : Option Nat) (cnt : Nat) (out : List α) : List α × Nat :=
  if hc : cur ≤ s.length then
    match hm : (if belowLimit cnt limit then m.run s cur else none) with
    | none => (out ++ s.drop cur, cnt)                        -- no more match: copy the rest, stop
    | some (p, l) =>
      if l = 0 ∧ pend = some p then
        -- empty match at the end of the previous match: skip_one_char
        substLoop m bs amp s repl limit (cur + 1) pend cnt (out ++ (s.drop cur).take 1)
      else
        let out1 := out ++ (s.drop cur).take (p - cur) ++ expand bs amp ((s.drop p).take l) repl
        if l = 0 then
          -- replaced an empty match: copy one character and step over it
          substLoop m bs amp s repl limit (p + 1) (some p) (cnt + 1) (out1 ++ (s.drop p).take 1)
        else
          substLoop m bs amp s repl limit (p + l) (some (p + l)) (cnt + 1) out1
  else (out, cnt)
termination_by s.length + 1 - cur
decreasing_by
  · omega
  · have hr : m.run s cur = some (p, l) := by
      split at hm
      · exact hm
      · simp at hm
    have := m.inside s cur p l hr
    omega
  · have hr : m.run s cur = some (p, l) := by
      split at hm
      · exact hm
      · simp at hm
    have := m.inside s cur p l hr
    omega

/-- __substitute_xxx: new text and number of substitutions; `limit` = `some 1` for sub, `none` for gsub -/
def substitute (m : Matcher α) (bs amp : α) (s repl : List α) (limit : Option Nat) : List α × Nat :=
  substLoop m bs amp s repl limit 0 none 0 []

/-! ### match (__fnc_match) -/

/-- `if (start == 0) start = 1; else if (start < 0) start = len0 + start + 1;` -/
def matchStart (n : Nat) (start : Int) : Int :=
  if start = 0 then 1 else if start < 0 then (n : Int) + start + 1 else start

/-- (RSTART, RLENGTH).  The suffix is matched as a string of its own (`str == substr`: no NOTBOL).
    REPAIR: the C computes `if (start > len0 || start <= 0) n = 0;` and then overwrites `n` by matching
    at `str0 + start - 1` regardless (out-of-bounds read); the repaired code reports "no match" when the
    start lies outside [1, len0 + 1] and matches otherwise, as the original does for in-range starts. -/
def matchCore (m : Matcher α) (s : List α) (start : Int) : Int × Int :=
  let st := matchStart s.length start
  if st > (s.length : Int) + 1 ∨ st ≤ 0 then (0, -1)
  else
    match m.run (s.drop (st.toNat - 1)) 0 with
    | none => (0, -1)
    | some (p, l) => (((st.toNat - 1 + p : Nat) : Int) + 1, (l : Int))

/-! ## Part 2 — value-type dispatch and interpreter state -/

/-- the value kinds the builtins distinguish (maps/arrays as *arguments* are not modelled) -/
inductive Val where
  | nil
  | int (i : Int)
  | flt (m : Int) (e : Nat)          -- the number m / 10^e
  | str (s : List Char)
  | mbs (b : List UInt8)
  | chr (c : Char)
  | bchr (b : UInt8)
deriving DecidableEq, Repr

/-- a compiled regular expression: hawk_tre_t run over characters or over bytes -/
structure Regex where
  c : Matcher Char
  b : Matcher UInt8

/-- everything the builtins use but this property does not define (other properties do):
    the UTF-8 codec (C15), number formatting (C12), the regex engine (C06), character classes -/
structure Env where
  enc : List Char → List UInt8        -- hawk_rtx_duputobchars, UTF-8 cmgr
  dec : List UInt8 → List Char        -- hawk_rtx_dupbtouchars(.., all = 1): never fails, '?' for junk
  fmtFlt : Int → Nat → List Char      -- CONVFMT rendering of m / 10^e
  compile : List Char → Regex         -- hawk_rtx_buildrex on a pattern that compiles
  lowerC : Char → Char
  upperC : Char → Char
  lowerB : UInt8 → UInt8
  upperB : UInt8 → UInt8
  spaceC : Char → Bool
  spaceB : UInt8 → Bool

/-- hawk_rtx_valtoint on the numeric kinds (`(hawk_int_t)r` truncates toward zero); strings as
    numeric arguments are not modelled -/
def Val.toInt : Val → Option Int
  | .nil => some 0
  | .int i => some i
  | .flt m e => some (Int.tdiv m ((10 : Int) ^ e))
  | _ => none

def intRepr (i : Int) : List Char := (toString i).toList

/-- hawk_rtx_getvaloocstr -/
def Val.toStr (E : Env) : Val → List Char
  | .nil => []
  | .int i => intRepr i
  | .flt m e => E.fmtFlt m e
  | .str s => s
  | .mbs b => E.dec b
  | .chr c => [c]
  | .bchr b => E.dec [b]

/-- hawk_rtx_getvalbcstr -/
def Val.toBcs (E : Env) : Val → List UInt8
  | .nil => []
  | .int i => E.enc (intRepr i)
  | .flt m e => E.enc (E.fmtFlt m e)
  | .str s => E.enc s
  | .mbs b => b
  | .chr c => E.enc [c]
  | .bchr b => [b]

/-- `case HAWK_VAL_BCHR: case HAWK_VAL_MBS:` versus `default:` -/
def Val.isBytes : Val → Bool
  | .mbs _ => true
  | .bchr _ => true
  | _ => false

/-- a by-reference collection variable -/
inductive Coll where
  | unset
  | map (kvs : List (List Char × Val))      -- keys in insertion order
  | array (items : List (Nat × Val))
deriving DecidableEq, Repr

/-- interpreter state as far as these builtins can touch it; `rest` stands for everything else
    (all other globals, $0, NF, every other variable) -/
structure State (σ : Type) where
  rstart : Val
  rlength : Val
  target : Val            -- the variable passed by reference as 3rd argument of sub/gsub
  coll : Coll             -- the variable passed by reference to split/splita/match
  rest : σ

variable {σ : Type}

/-- a pattern argument: regex literal /src/ (HAWK_VAL_REX) or any value, converted to a string and compiled -/
inductive Pat where
  | rex (src : List Char)
  | val (v : Val)

def Pat.regex (E : Env) : Pat → Regex
  | .rex src => E.compile src
  | .val v => E.compile (v.toStr E)

/-- hawk_fnc_length with one argument -/
def fnLength (E : Env) (v : Val) : Val :=
  match v with
  | .bchr _ => .int 1
  | .mbs b => .int b.length
  | .chr _ => .int 1
  | .str s => .int s.length
  | v => .int (v.toStr E).length

/-- an optional numeric argument: absent, or present and converted by hawk_rtx_valtoint -/
def optInt : Option Val → Option (Option Int)
  | none => some none
  | some v => v.toInt.map some

/-- hawk_fnc_substr -/
def fnSubstr (E : Env) (a0 a1 : Val) (a2 : Option Val) : Option Val :=
  match a1.toInt, optInt a2 with
  | some start, some len =>
    if a0.isBytes then some (.mbs (substr (a0.toBcs E) start len))
    else some (.str (substr (a0.toStr E) start len))
  | _, _ => none

/-- index_or_rindex.  REPAIR: the C reads a BCHR first argument through `((hawk_val_mbs_t*)a0)->val`
    (wild pointer) and tests `!str0` where `!str1` is meant; repaired to hawk_rtx_getvalbcstr(a0). -/
def fnIndex (E : Env) (rindex : Bool) (a0 a1 : Val) (a2 : Option Val) : Option Val :=
  match optInt a2 with
  | some start =>
    if a0.isBytes then some (.int (indexCore rindex (a0.toBcs E) (a1.toBcs E) start))
    else some (.int (indexCore rindex (a0.toStr E) (a1.toStr E) start))
  | none => none

/-- hawk_fnc_tolower / hawk_fnc_toupper.  REPAIR: toupper read a BCHR with HAWK_RTX_GETCHARFROMVAL
    (wrong shift: `toupper(@b'a')` gave @b'\x84'); repaired to HAWK_RTX_GETBCHRFROMVAL. -/
def fnCase (E : Env) (upper : Bool) (a0 : Val) : Val :=
  let fc := if upper then E.upperC else E.lowerC
  let fb := if upper then E.upperB else E.lowerB
  match a0 with
  | .bchr b => .bchr (fb b)
  | .mbs b => .mbs (mapCase fb b)
  | .chr c => .chr (fc c)
  | v => .str (mapCase fc (v.toStr E))

/-- the separator argument of split: absent (FS, here the default " "), regex literal, or a value -/
inductive Sep where
  | fs
  | rex (src : List Char)
  | val (v : Val)

/-- pieces of fnc_split before they are stored; `none` = the '?'-quoted field mode (not modelled) -/
def splitPieces (E : Env) (a0 : Val) (sep : Sep) : Option (List Val) :=
  -- the separator: NIL → " "; REX → regex; else its string: 5 chars starting with '?' → field mode,
  -- longer than 1 → regex, else a character set
  let sepv : Val := match sep with
    | .fs => .str [' ']
    | .rex _ => .nil
    | .val v => v
  let fsStr : List Char := match sepv with
    | .nil => [' ']
    | v => v.toStr E
  let rex : Option Regex := match sep with
    | .rex src => some (E.compile src)
    | _ => if fsStr.length > 1 then some (E.compile fsStr) else none
  let isRexLit := match sep with | .rex _ => true | _ => false
  if !isRexLit ∧ fsStr.length = 5 ∧ fsStr.head? = some '?' then none
  else if a0.isBytes then
    let s := a0.toBcs E
    match rex with
    | some r => some ((splitRex r.b s).map Val.mbs)
    | none =>
      -- `byte_str && switch_fs_to_bchr`: the separator is fetched again as a byte string
      -- (a NIL separator keeps the literal " ")
      let fsB : List UInt8 := match sepv with
        | .nil => [32]
        | v => v.toBcs E
      some ((splitChars E.spaceB 32 fsB s).map Val.mbs)
  else
    let s := a0.toStr E
    match rex with
    | some r => some ((splitRex r.c s).map Val.str)
    | none => some ((splitChars E.spaceC ' ' fsStr s).map Val.str)

def numberFrom (k : Nat) : List Val → List (Nat × Val)
  | [] => []
  | v :: r => (k, v) :: numberFrom (k + 1) r

/-- fnc_split: the collection variable receives a fresh map ("1".."n") or array (1..n); returns n -/
def fnSplit (E : Env) (useArray : Bool) (a0 : Val) (sep : Sep) (st : State σ) : Option (Val × State σ) :=
  match splitPieces E a0 sep with
  | none => none
  | some ps =>
    let items := numberFrom 1 ps
    let c : Coll := if useArray then .array items else .map (items.map fun (k, v) => (intRepr k, v))
    some (.int ps.length, { st with coll := c })

/-- __substitute with the third argument: pattern, replacement, by-reference target (`st.target`) -/
def fnSubst (E : Env) (limit : Option Nat) (pat : Pat) (a1 : Val) (st : State σ) : Val × State σ :=
  let rx := pat.regex E
  let r2 := st.target
  if r2.isBytes then
    let (out, cnt) := substitute rx.b 92 38 (r2.toBcs E) (a1.toBcs E) limit
    (.int cnt, if cnt > 0 then { st with target := .mbs out } else st)
  else
    let (out, cnt) := substitute rx.c '\\' '&' (r2.toStr E) (a1.toStr E) limit
    (.int cnt, if cnt > 0 then { st with target := .str out } else st)

/-- __substitute with two arguments: the target is the record $0 (`nargs < 3`: s2 = rtx->inrec.line, a character
    string whatever it was assigned from); on a substitution hawk_rtx_setrec(0, …) stores the new text and splits it
    again, so NF is the number of fields of the new record (default FS = " ": the blank-mode tokeniser).
    Returns (count, new $0, new NF). -/
def fnSubst0 (E : Env) (limit : Option Nat) (pat : Pat) (a1 : Val) (rec0 : List Char) : Val × List Char × Nat :=
  let rx := pat.regex E
  let (out, cnt) := substitute rx.c '\\' '&' rec0 (a1.toStr E) limit
  let new := if cnt > 0 then out else rec0
  (.int cnt, new, (splitChars E.spaceC ' ' [' '] new).length)


/-- SUBSEP (default "\x1c") -/
def subsep : List Char := [Char.ofNat 0x1c]

/-- the start argument of match as an integer: absent = 1 -/
def startArg : Option Val → Option Int
  | none => some 1
  | some v => v.toInt

/-- (RSTART, RLENGTH, matched text) of __fnc_match: bytes only for a byte STRING (`a0_type == HAWK_VAL_MBS`;
    a byte character goes through the character branch) -/
def matchTriple (E : Env) (rx : Regex) (a0 : Val) (stv : Int) : Int × Int × Val :=
  match a0 with
  | .mbs b =>
    let r := matchCore rx.b b stv
    (r.1, r.2, .mbs ((b.drop (r.1.toNat - 1)).take r.2.toNat))
  | v =>
    let s := v.toStr E
    let r := matchCore rx.c s stv
    (r.1, r.2, .str ((s.drop (r.1.toNat - 1)).take r.2.toNat))

/-- __fnc_match.  `start` only for str::match; `wantArr` = the by-reference array argument is present.
    REPAIR (array form): the C filled the array from an uninitialised `mat` when nothing matched and read
    the subject after freeing its converted copy; repaired to an empty map on no match and to freeing
    after use. Sub-match entries are not modelled (patterns without groups). -/
def fnMatch (E : Env) (a0 : Val) (pat : Pat) (start : Option Val) (wantArr : Bool) (st : State σ) :
    Option (Val × State σ) :=
  match startArg start with
  | none => none
  | some stv =>
    let t := matchTriple E (pat.regex E) a0 stv
    let c : Coll :=
      if wantArr then
        (if t.1 = 0 then .map []
         else .map [(['0'], t.2.2), (['0'] ++ subsep ++ "start".toList, .int t.1),
                    (['0'] ++ subsep ++ "length".toList, .int t.2.1)])
      else st.coll
    some (.int t.1, { st with rstart := .int t.1, rlength := .int t.2.1, coll := c })

/-! ## Part 3 — IGNORECASE variants and the str:: functions implemented in lib/mod-str.c itself

    (`str::length/substr/index/rindex/split/splita/sub/gsub/match/tolower/toupper` are the fnc.c functions above;
    here: trim, ltrim, rtrim, normspace, subchar, tocharcode, fromcharcode, frombcharcode, the is* class tests,
    tombs, frommbs and the value dispatch of tonum) -/

/-- hawk_find/rfind_xchars_in_xchars with ignorecase != 0: the inner loop compares `lower(*x)` with
    `lower(*y)`, i.e. it is the same search on the case-folded subject and pattern -/
def indexCoreIc (fold : α → α) (rindex : Bool) (s p : List α) (start : Option Int) : Int :=
  indexCore rindex (s.map fold) (p.map fold) start

/-- __DELIM_NOSPACES under IGNORECASE: `c = to_xch_upper(*p)` is compared with `to_xch_upper(*d)` -/
def tokNoSpacesIc (fold : α → α) (delim : List α) (s : List α) : TokRes (List α) α :=
  let keep := fun c => !(delim.map fold).contains (fold c)
  let tk := s.takeWhile keep
  match s.dropWhile keep with
  | [] => (tk, none)
  | _ :: t => (tk, some t)

/-- __DELIM_COMPOSITE under IGNORECASE (the space test is made on the upper-cased character) -/
def tokCompositeIc (isSp : α → Bool) (fold : α → α) (delim : List α) (s : List α) : TokRes (List α) α :=
  let p1 := s.dropWhile isSp
  let keep := fun c => isSp (fold c) || !(delim.map fold).contains (fold c)
  let tk := trimRight isSp (p1.takeWhile keep)
  match p1.dropWhile keep with
  | [] => (tk, none)
  | _ :: t => (tk, some t)

/-- tokenize_xchars with rtx->gbl.ignorecase set -/
def tokCharsIc (isSp : α → Bool) (blank : α) (fold : α → α) (delim : List α) (s : List α) : TokRes (List α) α :=
  match delimMode isSp blank delim with
  | .empty => tokEmpty s
  | .spaces => tokSpaces isSp s
  | .nospaces => tokNoSpacesIc fold delim s
  | .composite => tokCompositeIc isSp fold delim s

theorem tokNoSpacesIc_dec (fold : α → α) (delim a t b : List α) (h : tokNoSpacesIc fold delim a = (t, some b)) :
    b.length < a.length := by
  unfold tokNoSpacesIc at h
  have hl := length_dropWhile_le (fun c => !(delim.map fold).contains (fold c)) a
  simp only at h
  split at h
  · simp at h
  · rename_i x r heq
    simp only [Prod.mk.injEq, Option.some.injEq] at h
    rw [heq] at hl; rw [← h.2]; simp only [List.length_cons] at hl; omega

theorem tokCompositeIc_dec (isSp : α → Bool) (fold : α → α) (delim a t b : List α)
    (h : tokCompositeIc isSp fold delim a = (t, some b)) : b.length < a.length := by
  unfold tokCompositeIc at h
  have hl := length_dropWhile_le (fun c => isSp (fold c) || !(delim.map fold).contains (fold c)) (a.dropWhile isSp)
  have hl2 := length_dropWhile_le isSp a
  simp only at h
  split at h
  · simp at h
  · rename_i x r heq
    simp only [Prod.mk.injEq, Option.some.injEq] at h
    rw [heq] at hl; rw [← h.2]; simp only [List.length_cons] at hl; omega

theorem tokCharsIc_dec (isSp : α → Bool) (blank : α) (fold : α → α) (delim a t b : List α)
    (h : tokCharsIc isSp blank fold delim a = (t, some b)) : b.length < a.length := by
  unfold tokCharsIc at h
  split at h
  · exact tokEmpty_dec a t b h
  · exact tokSpaces_dec isSp a t b h
  · exact tokNoSpacesIc_dec fold delim a t b h
  · exact tokCompositeIc_dec isSp fold delim a t b h

/-- split() with a character separator under IGNORECASE -/
def splitCharsIc (isSp : α → Bool) (blank : α) (fold : α → α) (delim : List α) (s : List α) : List (List α) :=
  piecesLoop (tokCharsIc isSp blank fold delim) List.length (tokCharsIc_dec isSp blank fold delim) s 0

/-- fnc_split under IGNORECASE = 1: the regular expressions are the case-insensitive compilations (`E` is then the
    environment whose `compile` is hawk_rtx_buildrex(.., NULL, &icode)) and the character tokeniser folds case -/
def splitPiecesIc (E : Env) (a0 : Val) (sep : Sep) : Option (List Val) :=
  -- the separator: NIL → " "; REX → regex; else its string: 5 chars starting with '?' → field mode,
  -- longer than 1 → regex, else a character set
  let sepv : Val := match sep with
    | .fs => .str [' ']
    | .rex _ => .nil
    | .val v => v
  let fsStr : List Char := match sepv with
    | .nil => [' ']
    | v => v.toStr E
  let rex : Option Regex := match sep with
    | .rex src => some (E.compile src)
    | _ => if fsStr.length > 1 then some (E.compile fsStr) else none
  let isRexLit := match sep with | .rex _ => true | _ => false
  if !isRexLit ∧ fsStr.length = 5 ∧ fsStr.head? = some '?' then none
  else if a0.isBytes then
    let s := a0.toBcs E
    match rex with
    | some r => some ((splitRex r.b s).map Val.mbs)
    | none =>
      -- `byte_str && switch_fs_to_bchr`: the separator is fetched again as a byte string
      -- (a NIL separator keeps the literal " ")
      let fsB : List UInt8 := match sepv with
        | .nil => [32]
        | v => v.toBcs E
      some ((splitCharsIc E.spaceB 32 E.upperB fsB s).map Val.mbs)
  else
    let s := a0.toStr E
    match rex with
    | some r => some ((splitRex r.c s).map Val.str)
    | none => some ((splitCharsIc E.spaceC ' ' E.upperC fsStr s).map Val.str)


def fnSplitIc (E : Env) (useArray : Bool) (a0 : Val) (sep : Sep) (st : State σ) : Option (Val × State σ) :=
  match splitPiecesIc E a0 sep with
  | none => none
  | some ps =>
    let items := numberFrom 1 ps
    let c : Coll := if useArray then .array items else .map (items.map fun (k, v) => (intRepr k, v))
    some (.int ps.length, { st with coll := c })

/-- index_or_rindex under IGNORECASE = 1 -/
def fnIndexIc (E : Env) (rindex : Bool) (a0 a1 : Val) (a2 : Option Val) : Option Val :=
  match optInt a2 with
  | some start =>
    if a0.isBytes then some (.int (indexCoreIc E.lowerB rindex (a0.toBcs E) (a1.toBcs E) start))
    else some (.int (indexCoreIc E.lowerC rindex (a0.toStr E) (a1.toStr E) start))
  | none => none

/-- hawk_trim_xchars: the span from the first to the last non-space character, cut on the sides the flags
    name (a string of spaces only becomes empty as soon as one flag is given, which is what dropping
    leading or trailing spaces yields as well) -/
def trimChars (isSp : α → Bool) (left right : Bool) (s : List α) : List α :=
  let s1 := if left then s.dropWhile isSp else s
  if right then trimRight isSp s1 else s1

/-- the state machine of hawk_compact_xchars: `st` = state 1 (a non-space has been seen), `fbs` =
    followed_by_space; returns the characters written and the final followed_by_space -/
def compactAux (isSp : α → Bool) : Bool → Bool → List α → List α × Bool
  | _, fbs, [] => ([], fbs)
  | false, fbs, c :: r =>
    if isSp c then compactAux isSp false fbs r
    else let (o, f) := compactAux isSp true fbs r; (c :: o, f)
  | true, fbs, c :: r =>
    if isSp c then
      (if fbs then compactAux isSp true true r
       else let (o, f) := compactAux isSp true true r; (c :: o, f))
    else let (o, f) := compactAux isSp true false r; (c :: o, f)

/-- hawk_compact_xchars: leading spaces dropped, each inner run of spaces reduced to its first character,
    `return followed_by_space ? q - str - 1 : q - str` drops the one space kept for a trailing run -/
def compact (isSp : α → Bool) (s : List α) : List α :=
  let (o, f) := compactAux isSp false false s
  if f then o.dropLast else o

/-- the character at 1-based position `pos` (str::subchar, str::tocharcode) -/
def charAt (s : List α) (pos : Int) : Option α :=
  let lindex := pos - 1
  if 0 ≤ lindex ∧ lindex < (s.length : Int) then s[lindex.toNat]? else none

/-- is_class: `if (len0 <= 0) tmp = 0; else` every character must be of the class -/
def isClass (p : α → Bool) (s : List α) : Bool := !s.isEmpty && s.all p

/-- trim / ltrim / rtrim -/
def fnTrim (E : Env) (left right : Bool) (a0 : Val) : Val :=
  if a0.isBytes then .mbs (trimChars E.spaceB left right (a0.toBcs E))
  else .str (trimChars E.spaceC left right (a0.toStr E))

/-- fnc_normspace -/
def fnNormspace (E : Env) (a0 : Val) : Val :=
  if a0.isBytes then .mbs (compact E.spaceB (a0.toBcs E))
  else .str (compact E.spaceC (a0.toStr E))

/-- fnc_trim with its optional flag argument: `if (iv & TRIM_FLAG_PAC_SPACES) return fnc_normspace(...)` -/
def fnTrimFlags (E : Env) (a0 : Val) (flags : Option Val) : Option Val :=
  match optInt flags with
  | none => none
  | some none => some (fnTrim E true true a0)
  | some (some iv) => if iv % 2 = 1 then some (fnNormspace E a0) else some (fnTrim E true true a0)

/-- fnc_subchar: the character (byte character for byte values) at the position, nil outside the value -/
def fnSubchar (E : Env) (a0 a1 : Val) : Option Val :=
  match a1.toInt with
  | none => none
  | some pos =>
    if a0.isBytes then
      some (match charAt (a0.toBcs E) pos with | some b => .bchr b | none => .nil)
    else
      some (match charAt (a0.toStr E) pos with | some c => .chr c | none => .nil)

/-- fnc_tocharcode: the code of the character at the position (default 1); no return value (nil) outside -/
def fnTocharcode (E : Env) (a0 : Val) (a1 : Option Val) : Option Val :=
  match optInt a1 with
  | none => none
  | some posArg =>
    let pos := posArg.getD 1
    if a0.isBytes then
      some (match charAt (a0.toBcs E) pos with | some b => .int b.toNat | none => .nil)
    else
      some (match charAt (a0.toStr E) pos with | some c => .int c.toNat | none => .nil)

/-- a code that a 16-bit hawk_ooch_t holds as a character of its own (no surrogates; the cast of anything
    else truncates and is not modelled) -/
def validCharCode (i : Int) : Bool := (0 ≤ i ∧ i < 0xD800) ∨ (0xE000 ≤ i ∧ i < 0x10000)

def allInts : List Val → Option (List Int)
  | [] => some []
  | v :: r => match v.toInt, allInts r with
    | some i, some l => some (i :: l)
    | _, _ => none

/-- fnc_fromcharcode: one code gives a character, any other number of codes a string -/
def fnFromcharcode (codes : List Val) : Option Val :=
  match allInts codes with
  | none => none
  | some l =>
    if l.all validCharCode then
      (match l with
       | [c] => some (.chr (Char.ofNat c.toNat))
       | l => some (.str (l.map fun c => Char.ofNat c.toNat)))
    else none

/-- fnc_frombcharcode: one code gives a byte character, any other number of codes a byte string.
    REPAIR: the one-code case called hawk_rtx_makecharval (a CHARACTER value) although the function
    "creates a byte-character from a single character code"; repaired to hawk_rtx_makebchrval. -/
def fnFrombcharcode (codes : List Val) : Option Val :=
  match allInts codes with
  | none => none
  | some l =>
    if l.all (fun i => 0 ≤ i ∧ i < 256) then
      (match l with
       | [c] => some (.bchr (UInt8.ofNat c.toNat))
       | l => some (.mbs (l.map fun c => UInt8.ofNat c.toNat)))
    else none

/-- is_class with the class given as its two predicates (characters, bytes) -/
def fnIsClass (E : Env) (pc : Char → Bool) (pb : UInt8 → Bool) (a0 : Val) : Val :=
  if a0.isBytes then .int (if isClass pb (a0.toBcs E) then 1 else 0)
  else .int (if isClass pc (a0.toStr E) then 1 else 0)

/-- the optional encoding-name argument of tombs/frommbs -/
inductive EncArg where
  | absent      -- the runtime's cmgr
  | utf8        -- a name that resolves to the same cmgr
  | unknown     -- a name hawk_get_cmgr_by_name does not know (or the empty name): zero-length result
deriving DecidableEq

/-- fnc_tombs -/
def fnTombs (E : Env) (a0 : Val) (enc : EncArg) : Val :=
  if enc = .unknown then .mbs []
  else match a0 with
    | .bchr b => .mbs [b]
    | .mbs b => .mbs b
    | v => .mbs (v.toBcs E)

/-- fnc_frommbs -/
def fnFrommbs (E : Env) (a0 : Val) (enc : EncArg) : Val :=
  if enc = .unknown then .str []
  else match a0 with
    | .str s => .str s
    | v => .str (v.toStr E)

/-- value of a digit character in bases up to 16 -/
def digitVal (c : Nat) : Option Nat :=
  if 48 ≤ c ∧ c ≤ 57 then some (c - 48)
  else if 97 ≤ c ∧ c ≤ 102 then some (c - 87)
  else if 65 ≤ c ∧ c ≤ 70 then some (c - 55)
  else none

def digitsVal (base : Nat) : Nat → List Nat → Option Nat
  | acc, [] => some acc
  | acc, c :: r => match digitVal c with
    | some d => if d < base then digitsVal base (acc * base + d) r else none
    | none => none

/-- the part of hawk_xchars_to_num this property relies on: an optional sign and a non-empty run of digits
    all valid in the base, without a radix prefix (base 0 = automatic: decimal, and a leading 0 would select
    another radix, so it is excluded); everything else is the business of the number parser (property C11)
    and reported as not modelled -/
def simpleNum (base : Nat) (s : List Nat) : Option Int :=
  let (neg, ds) := match s with
    | 45 :: r => (true, r)
    | 43 :: r => (false, r)
    | r => (false, r)
  if ds.isEmpty then none
  else if base = 0 ∧ ds.head? = some 48 ∧ ds.length > 1 then none
  else if base ≠ 0 ∧ base ≠ 2 ∧ base ≠ 8 ∧ base ≠ 10 ∧ base ≠ 16 then none
  else match digitsVal (if base = 0 then 10 else base) 0 ds with
    | some n => some (if neg then -(n : Int) else (n : Int))
    | none => none

/-- fnc_tonum: a number is returned as it is (the base is then ignored), nil is 0, a string / byte string /
    character / byte character is parsed in the given base (absent = automatic) -/
def fnTonum (E : Env) (a0 : Val) (base : Option Val) : Option Val :=
  match a0 with
  | .nil => some (.int 0)
  | .int i => some (.int i)
  | .flt m e => some (.flt m e)
  | v =>
    match optInt base with
    | none => none
    | some b =>
      let bv := (b.getD 0)
      if bv < 0 then none
      else
        let txt : List Nat := if v.isBytes then (v.toBcs E).map UInt8.toNat else (v.toStr E).map Char.toNat
        (simpleNum bv.toNat txt).map Val.int

end Hawk.StrFn
