import HawkModel.DeparseStmtLemmas
import Std.Data.String.ToNat
/-!
  Second generation of the statement level: the tree read back is equivalent to the original (`canonS`), it satisfies the
  same well-formedness conditions, and its printed text does not change any more.  Renaming of variables (`__gN`, `__lN`, `__pN`).
-/
namespace Hawk.Deparse
open Hawk.Gen.Precedence Hawk.Gen.Keywords

def canonO : Option Ast → Option Ast
  | none => none
  | some a => some (canon a)

mutual
/-- statement trees up to the spelling of integer literals and folding of unary operators over them (`canon` everywhere) -/
def canonS : Stmt → Stmt
  | .null => .null
  | .blk nl body => .blk nl (canonSL body)
  | .ift c t => .ift (canon c) (canonS t)
  | .ife c t e => .ife (canon c) (canonS t) (canonS e)
  | .whl c b => .whl (canon c) (canonS b)
  | .dowhl b c => .dowhl (canonS b) (canon c)
  | .for_ i t u b => .for_ (canonO i) (canonO t) (canonO u) (canonS b)
  | .forin x b => .forin (canon x) (canonS b)
  | .brk => .brk
  | .cont => .cont
  | .ret v => .ret (canonO v)
  | .exit_ ab v => .exit_ ab (canonO v)
  | .next => .next
  | .nextfile o => .nextfile o
  | .del v => .del (canon v)
  | .reset v => .reset (canon v)
  | .prt f args out => .prt f (canonL args) (match out with | none => none | some (r, o) => some (r, canon o))
  | .expr e => .expr (canon e)
def canonSL : StmtL → StmtL
  | .nil => .nil
  | .cons s t => .cons (canonS s) (canonSL t)
end

/-- equal statement trees up to `canon` in every expression position -/
def EquivS (a b : Stmt) : Prop := canonS a = canonS b

theorem canonO_normO (v : Option Ast) : canonO (normO v) = canonO v := by
  cases v <;> simp [canonO, normO, canon_norm]

mutual
theorem canon_normS : (s : Stmt) → canonS (normS s) = canonS s
  | .null => rfl
  | .blk nl body => by simp only [normS, canonS, canon_normSL body]
  | .ift c t => by simp only [normS, canonS, canon_norm, canon_normS t]
  | .ife c t e => by simp only [normS, canonS, canon_norm, canon_normS t, canon_normS e]
  | .whl c b => by simp only [normS, canonS, canon_norm, canon_normS b]
  | .dowhl b c => by simp only [normS, canonS, canon_norm, canon_normS b]
  | .for_ i t u b => by simp only [normS, canonS, canonO_normO, canon_normS b]
  | .forin x b => by simp only [normS, canonS, canon_norm, canon_normS b]
  | .brk => rfl
  | .cont => rfl
  | .ret v => by simp only [normS, canonS, canonO_normO]
  | .exit_ ab v => by simp only [normS, canonS, canonO_normO]
  | .next => rfl
  | .nextfile o => rfl
  | .del v => by simp only [normS, canonS, canon_norm]
  | .reset v => by simp only [normS, canonS, canon_norm]
  | .prt f args out => by
    cases out with
    | none => simp only [normS, canonS, canonL_normL]
    | some p => obtain ⟨r, o⟩ := p; simp only [normS, canonS, canonL_normL, canon_norm]
  | .expr e => by simp only [normS, canonS, canon_norm]
theorem canon_normSL : (l : StmtL) → canonSL (normSL l) = canonSL l
  | .nil => rfl
  | .cons s t => by simp only [normSL, canonSL, canon_normS s, canon_normSL t]
end

/-! ### the text is stable from the second generation on -/

theorem opndP_norm_norm (a : Ast) : opndP (norm (norm a)) = opndP (norm a) := by
  simp only [opndP, norm_isAss, printP_norm_norm]

theorem ex_norm_norm (a : Ast) : ex (norm (norm a)) = ex (norm a) := by simp only [ex, printP_norm_norm]
theorem opx_norm_norm (a : Ast) : opx (norm (norm a)) = opx (norm a) := by simp only [opx, opndP_norm_norm]
theorem optEx_norm_norm (v : Option Ast) : optEx (normO (normO v)) = optEx (normO v) := by
  cases v <;> simp [optEx, normO, ex_norm_norm]

theorem argList_norm_norm : (l : AstL) → argList (normL (normL l)) = argList (normL l)
  | .nil => rfl
  | .cons a .nil => by simp only [normL, argList, opx_norm_norm]
  | .cons a (.cons b t) => by
    have ih := argList_norm_norm (.cons b t)
    simp only [normL] at ih ⊢
    simp only [argList, opx_norm_norm, ih]

theorem isBlk_normS (s : Stmt) : (normS s).isBlk = s.isBlk := by cases s <;> rfl

mutual
theorem printS_norm_norm : (s : Stmt) → (outer d : Nat) → printS outer d (normS (normS s)) = printS outer d (normS s)
  | .null, _, _ => rfl
  | .blk nl body, outer, d => by simp only [normS, printS, printSL_norm_norm body]
  | .ift c t, outer, d => by simp only [normS, printS, ex_norm_norm, isBlk_normS, printS_norm_norm t]
  | .ife c t e, outer, d => by simp only [normS, printS, ex_norm_norm, isBlk_normS, printS_norm_norm t, printS_norm_norm e]
  | .whl c b, outer, d => by simp only [normS, printS, ex_norm_norm, isBlk_normS, printS_norm_norm b]
  | .dowhl b c, outer, d => by simp only [normS, printS, ex_norm_norm, isBlk_normS, printS_norm_norm b]
  | .for_ i t u b, outer, d => by simp only [normS, printS, optEx_norm_norm, isBlk_normS, printS_norm_norm b]
  | .forin x b, outer, d => by simp only [normS, printS, ex_norm_norm, isBlk_normS, printS_norm_norm b]
  | .brk, _, _ => rfl
  | .cont, _, _ => rfl
  | .ret v, outer, d => by cases v <;> simp only [normS, normO, printS, ex_norm_norm]
  | .exit_ ab v, outer, d => by cases v <;> simp only [normS, normO, printS, ex_norm_norm]
  | .next, _, _ => rfl
  | .nextfile o, _, _ => rfl
  | .del v, outer, d => by simp only [normS, printS, ex_norm_norm]
  | .reset v, outer, d => by simp only [normS, printS, ex_norm_norm]
  | .prt f args out, outer, d => by
    cases args with
    | nil => cases out with
      | none => rfl
      | some p => obtain ⟨r, o⟩ := p; simp only [normS, normL, printS, opx_norm_norm]
    | cons a t =>
      have := argList_norm_norm (.cons a t)
      simp only [normL] at this
      cases out with
      | none => simp only [normS, normL, printS, this]
      | some p => obtain ⟨r, o⟩ := p; simp only [normS, normL, printS, this, opx_norm_norm]
  | .expr e, outer, d => by simp only [normS, printS, ex_norm_norm]
theorem printSL_norm_norm : (l : StmtL) → (outer d : Nat) → printSL outer d (normSL (normSL l)) = printSL outer d (normSL l)
  | .nil, _, _ => rfl
  | .cons s t, outer, d => by simp only [normSL, printSL, printS_norm_norm s, printSL_norm_norm t]
end

/-! ### the tree read back satisfies `WFS` again -/

theorem openIf_normS : (s : Stmt) → openIf (normS s) = openIf s
  | .ife c t e => by simp only [normS, openIf, openIf_normS e]
  | .whl c b => by simp only [normS, openIf, openIf_normS b]
  | .for_ i t u b => by simp only [normS, openIf, openIf_normS b]
  | .forin x b => by simp only [normS, openIf, openIf_normS b]
  | .ift _ _ => rfl
  | .null => rfl
  | .blk _ _ => rfl
  | .dowhl _ _ => rfl
  | .brk => rfl
  | .cont => rfl
  | .ret _ => rfl
  | .exit_ _ _ => rfl
  | .next => rfl
  | .nextfile _ => rfl
  | .del _ => rfl
  | .reset _ => rfl
  | .prt _ _ _ => rfl
  | .expr _ => rfl

theorem WFO_norm (v : Option Ast) (h : WFO v) : WFO (normO v) := by
  cases v with
  | none => trivial
  | some a => exact WFparse_norm a h

theorem isForinHead_norm (x : Ast) (h : isForinHead x = true) : isForinHead (norm x) = true := by
  obtain ⟨l, r, rfl, hv⟩ := forin_shape x h
  simp [norm, isForinHead, norm_isVar, hv]

theorem grpAlone_norm (l : AstL) (h : grpAlone l) : grpAlone (normL l) := by
  cases l with
  | nil => trivial
  | cons a t =>
    cases a with
    | grp b => simp only [grpAlone] at h; subst h; simp [normL, norm, grpAlone]
    | int v t' =>
      cases t' with
      | none => simp only [normL, norm]; split <;> trivial
      | some _ => trivial
    | unr op e => simp only [normL, norm]; split <;> simp [grpAlone]
    | _ => trivial

theorem lastNotRedir_norm : (l : AstL) → lastNotRedir l → lastNotRedir (normL l)
  | .nil, _ => trivial
  | .cons a .nil, h => by
    simp only [lastNotRedir, lastArg, normL] at h ⊢
    rw [isRedirBin_norm]; exact h
  | .cons a (.cons b t), h => by
    have ih := lastNotRedir_norm (.cons b t) (by simpa only [lastNotRedir, lastArg] using h)
    simp only [normL] at ih ⊢
    simpa only [lastNotRedir, lastArg] using ih

mutual
theorem WFS_norm : (s : Stmt) → WFS s → WFS (normS s)
  | .null, _ => trivial
  | .blk nl body, h => by simp only [WFS, normS] at h ⊢; exact WFSL_norm body h
  | .ift c t, h => by simp only [WFS, normS] at h ⊢; exact ⟨WFparse_norm c h.1, WFS_norm t h.2⟩
  | .ife c t e, h => by
    simp only [WFS, normS] at h ⊢
    exact ⟨WFparse_norm c h.1, WFS_norm t h.2.1, WFS_norm e h.2.2.1, by rw [openIf_normS]; exact h.2.2.2⟩
  | .whl c b, h => by simp only [WFS, normS] at h ⊢; exact ⟨WFparse_norm c h.1, WFS_norm b h.2⟩
  | .dowhl b c, h => by simp only [WFS, normS] at h ⊢; exact ⟨WFparse_norm c h.1, WFS_norm b h.2⟩
  | .for_ i t u b, h => by
    simp only [WFS, normS] at h ⊢
    exact ⟨WFO_norm i h.1, WFO_norm t h.2.1, WFO_norm u h.2.2.1, WFS_norm b h.2.2.2⟩
  | .forin x b, h => by
    simp only [WFS, normS] at h ⊢
    exact ⟨WFparse_norm x h.1, isForinHead_norm x h.2.1, WFS_norm b h.2.2⟩
  | .brk, _ => trivial
  | .cont, _ => trivial
  | .ret v, h => by simp only [WFS, normS] at h ⊢; exact WFO_norm v h
  | .exit_ ab v, h => by simp only [WFS, normS] at h ⊢; exact WFO_norm v h
  | .next, _ => trivial
  | .nextfile o, _ => trivial
  | .del v, h => by simp only [WFS, normS] at h ⊢; exact ⟨WFparse_norm v h.1, by rw [norm_isVar]; exact h.2⟩
  | .reset v, h => by simp only [WFS, normS] at h ⊢; obtain ⟨nm, rfl⟩ := h; exact ⟨nm, by simp [norm]⟩
  | .prt f args out, h => by
    simp only [WFS] at h
    obtain ⟨h1, h3, h4, h5⟩ := h
    simp only [WFS, normS]
    refine ⟨WFparseL_norm args h1, fun hf => normL_ne_nil args (h3 hf), grpAlone_norm args h4, ?_⟩
    cases out with
    | none => trivial
    | some p => obtain ⟨r, o⟩ := p; exact WFparse_norm o h5
  | .expr e, h => by simp only [WFS, normS] at h ⊢; exact WFparse_norm e h
theorem WFSL_norm : (l : StmtL) → WFSL l → WFSL (normSL l)
  | .nil, _ => trivial
  | .cons s t, h => by
    simp only [WFSL, normSL] at h ⊢
    exact ⟨WFS_norm s h.1, by rw [dropped_norm]; exact h.2.1, WFSL_norm t h.2.2⟩
end

mutual
theorem sz_normS : (s : Stmt) → sz (normS s) = sz s
  | .blk nl body => by simp only [normS, sz, szL_normSL body]
  | .ift c t => by simp only [normS, sz, sz_normS t]
  | .ife c t e => by simp only [normS, sz, sz_normS t, sz_normS e]
  | .whl c b => by simp only [normS, sz, sz_normS b]
  | .dowhl b c => by simp only [normS, sz, sz_normS b]
  | .for_ i t u b => by simp only [normS, sz, sz_normS b]
  | .forin x b => by simp only [normS, sz, sz_normS b]
  | .null => rfl
  | .brk => rfl
  | .cont => rfl
  | .ret _ => rfl
  | .exit_ _ _ => rfl
  | .next => rfl
  | .nextfile _ => rfl
  | .del _ => rfl
  | .reset _ => rfl
  | .prt _ _ _ => rfl
  | .expr _ => rfl
theorem szL_normSL : (l : StmtL) → szL (normSL l) = szL l
  | .nil => rfl
  | .cons s t => by simp only [normSL, szL, sz_normS s, szL_normSL t]
end

/-! ### renaming: `__g<i>`, `__l<i>`, `__p<i>` -/

/-- the name the deparser writes for variable number `i` of kind `c` (`g` global, `l` local, `p` parameter) -/
def renName (c : Char) (i : Nat) : String := "__" ++ (String.singleton c ++ toString i)

theorem renName_injective (c c' : Char) (i i' : Nat) (h : renName c i = renName c' i') : c = c' ∧ i = i' := by
  have h1 := congrArg String.toList h
  simp only [renName, String.toList_append, String.toList_singleton] at h1
  have h2 : c :: (toString i).toList = c' :: (toString i').toList := by
    have : ("__" : String).toList = ['_', '_'] := rfl
    rw [this] at h1
    simpa using h1
  injection h2 with hc hr
  refine ⟨hc, ?_⟩
  have : toString i = toString i' := String.ext hr
  exact Nat.repr_injective this

theorem lclTok_is_renName (i : Nat) : (lclTok i).s = renName 'l' i := by
  show "__l" ++ toString i = "__" ++ (String.singleton 'l' ++ toString i)
  rw [← String.append_assoc]; rfl

/-! ### the canonical names resolve back to the variables they were written for -/

/-- the names declared for `n` variables of kind `c` numbered from `b` (`@global __g22, __g23;`, `function f (__p0, __p1)`,
    `@local __l0, __l1;`) in declaration order -/
def declNames (c : Char) : Nat → Nat → List String
  | _, 0 => []
  | b, n + 1 => renName c b :: declNames c (b + 1) n

/-- position of a name in a declaration list (the parser's linear / hashed search, first match), counted from `i` -/
def findName (nm : String) : List String → Nat → Option Nat
  | [], _ => none
  | x :: r, i => if x = nm then some i else findName nm r (i + 1)

theorem findName_decl (c : Char) : ∀ (n b i j : Nat), j < n → findName (renName c (b + j)) (declNames c b n) i = some (i + j)
  | 0, _, _, _, h => absurd h (Nat.not_lt_zero _)
  | n + 1, b, i, 0, _ => by simp [declNames, findName]
  | n + 1, b, i, j + 1, h => by
    have hne : renName c b ≠ renName c (b + (j + 1)) := by
      intro e; have := (renName_injective _ _ _ _ e).2; omega
    have ih := findName_decl c n (b + 1) (i + 1) j (by omega)
    simp only [declNames, findName, hne, if_false]
    rw [show b + (j + 1) = b + 1 + j by omega, ih]
    congr 1; omega

theorem findName_other (c c' : Char) (hc : c ≠ c') (x : Nat) : ∀ (n b i : Nat), findName (renName c' x) (declNames c b n) i = none
  | 0, _, _ => rfl
  | n + 1, b, i => by
    have hne : renName c b ≠ renName c' x := by
      intro e; exact hc (renName_injective _ _ _ _ e).1
    simp only [declNames, findName, hne, if_false]
    exact findName_other c c' hc x n (b + 1) (i + 1)

/-- name resolution of parse_primary_ident: a local first, then a parameter, then a global (each answered with kind and number) -/
def resolveName (nL nP gb nG : Nat) (nm : String) : Option (Char × Nat) :=
  match findName nm (declNames 'l' 0 nL) 0 with
  | some i => some ('l', i)
  | none =>
    match findName nm (declNames 'p' 0 nP) 0 with
    | some i => some ('p', i)
    | none =>
      match findName nm (declNames 'g' gb nG) gb with
      | some i => some ('g', i)
      | none => none

theorem resolve_local (nL nP gb nG i : Nat) (h : i < nL) : resolveName nL nP gb nG (renName 'l' i) = some ('l', i) := by
  have := findName_decl 'l' nL 0 0 i h
  simp only [Nat.zero_add] at this
  simp [resolveName, this]

theorem resolve_param (nL nP gb nG i : Nat) (h : i < nP) : resolveName nL nP gb nG (renName 'p' i) = some ('p', i) := by
  have h0 := findName_other 'l' 'p' (by decide) i nL 0 0
  have := findName_decl 'p' nP 0 0 i h
  simp only [Nat.zero_add] at this
  simp [resolveName, h0, this]

theorem resolve_global (nL nP gb nG i : Nat) (h : i < nG) : resolveName nL nP gb nG (renName 'g' (gb + i)) = some ('g', gb + i) := by
  have h0 := findName_other 'l' 'g' (by decide) (gb + i) nL 0 0
  have h1 := findName_other 'p' 'g' (by decide) (gb + i) nP 0 0
  have := findName_decl 'g' nG gb gb i h
  simp [resolveName, h0, h1, this]

end Hawk.Deparse
