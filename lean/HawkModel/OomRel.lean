/-
  C10 — unwind tables with releases on the main path (second table language).

  The functions of fnc.c, val.c, run.c, rio.c, mod-*.c … that extract/unwind_wide.py translates are not
  constructors: they acquire temporaries, release them again on the main path
        tmp = dup(...); if (!tmp) return -1;  v = makeval(tmp);  free(tmp);  if (!v) return -1; …
  and only what is still held at a failure exit has to be given back there.  `Op.rel` expresses that.
  There are no deferred (store now, test later) acquisitions in this language, so the set of held
  resources at each step of a run that has not failed yet is determined by the table alone: the
  decidable check `Table.wf` executes the table once and compares every failure target with it.

  core Lean only.
-/
import HawkModel.Oom
namespace Hawk.Oom.Ft

abbrev Res := Nat

inductive Op where
  /-- `x = acquire(...); if (!x) { <label l> }` -/
  | acq (r : Res) (l : Nat)
  /-- a fallible step that acquires nothing at this level: `if (f(..) <= -1) { <label l> }` -/
  | guard (l : Nat)
  /-- `release(x);` on the main path -/
  | rel (r : Res)
  /-- a loop that fills an indexed object element by element
        for (i = 0; i < n; i++) { x[i] = acquire(...); if (!x[i]) { <label l> } }
      `r` stands for "the elements of x acquired so far".  When the step fails some elements (a prefix) are held
      already, so - unlike `acq` - the failure exit `l` has to release `r` too
      (`while (i > 0) release(x[--i]);`). -/
  | acqp (r : Res) (l : Nat)
deriving Repr, DecidableEq

def Op.hard : Op → Bool
  | .rel _ => false
  | _ => true

structure Table where
  ops : List Op
  /-- `labels[l]` = every release executed, in order, on the failure exit `l` (fall-through expanded) -/
  labels : List (List Res)
deriving Repr, DecidableEq

structure Outcome where
  ok : Bool
  /-- held when the function returned (for a failure: when the failing step was reached) -/
  held : List Res
  /-- released by the failure exit -/
  released : List Res
  /-- released on the main path before that -/
  freed : List Res
deriving Repr, DecidableEq

def exit (t : Table) (held freed : List Res) (l : Nat) : Outcome :=
  { ok := false, held := held, released := t.labels.getD l [], freed := freed }

def runFrom (t : Table) (fail : Nat → Bool) : List Op → Nat → List Res → List Res → Outcome
  | [], _, held, freed => { ok := true, held := held, released := [], freed := freed }
  | .acq r l :: rest, i, held, freed =>
      if fail i then exit t held freed l else runFrom t fail rest (i + 1) (held ++ [r]) freed
  | .guard l :: rest, i, held, freed =>
      if fail i then exit t held freed l else runFrom t fail rest (i + 1) held freed
  | .rel r :: rest, i, held, freed => runFrom t fail rest (i + 1) (held.erase r) (freed ++ [r])
  | .acqp r l :: rest, i, held, freed =>
      if fail i then exit t (held ++ [r]) freed l else runFrom t fail rest (i + 1) (held ++ [r]) freed

def run (t : Table) (fail : Nat → Bool) : Outcome := runFrom t fail t.ops 0 [] []

/-- the failure exit releases exactly `held`, each resource once -/
def labelExact (held rels : List Res) : Bool :=
  nodupB rels && rels.all (fun r => held.contains r) && held.all (fun r => rels.contains r)

def labelOK (t : Table) (held : List Res) (l : Nat) : Bool :=
  match t.labels[l]? with
  | some rels => labelExact held rels
  | none => false

def wfFrom (t : Table) : List Op → List Res → List Res → Bool
  | [], _, _ => true
  | .acq r l :: rest, held, freed =>
      !(held.contains r) && !(freed.contains r) && labelOK t held l && wfFrom t rest (held ++ [r]) freed
  | .guard l :: rest, held, freed => labelOK t held l && wfFrom t rest held freed
  | .rel r :: rest, held, freed => held.contains r && wfFrom t rest (held.erase r) (freed ++ [r])
  | .acqp r l :: rest, held, freed =>
      !(held.contains r) && !(freed.contains r) && labelOK t (held ++ [r]) l && wfFrom t rest (held ++ [r]) freed

def Table.wf (t : Table) : Bool := wfFrom t t.ops [] []

/-- a generated function table -/
structure Fn where
  name : String
  file : String
  table : Table
  /-- per step: the callee (`"prim"` = one allocator request, `""` = none) -/
  callees : List String
  resNames : List String
deriving Repr

end Hawk.Oom.Ft
