import HawkModel.Rex
/-!
# C06 — the FRONT END of TRE: `tre-parse.c` (ERE dialect, the flags `hawk_gem_buildrex` passes)

`parse cf pat` is a transcription of `tre_parse()` for `cflags = REG_EXTENDED [| REG_ICASE] [| REG_NOBOUND]`
(no `REG_NEWLINE`, `REG_NONSTDEXT`, `REG_UNGREEDY`, `REG_RIGHT_ASSOC`; `REG_LITERAL` only temporarily through
`\Q … \E`).  It produces TRE's syntax tree `Ast` node for node: node type, children, iteration `min`/`max`/`minimal`,
literal code ranges with their *position* number, character class / negated classes, assertion bits, back references,
`submatch_id` and `num_submatches`.  `harness/rex_h.c` dumps the `tre_ast_node_t` tree right after the real
`tre_parse()` in the same format (`Ast.dump`) and `vlib/props/c06.py` diffs the two on every generated pattern.

The C is an explicit-stack machine (`PARSE_RE`, `PARSE_BRANCH`, `PARSE_PIECE`, `PARSE_ATOM`, `PARSE_CATENATION`,
`PARSE_UNION`, `PARSE_POSTFIX`, `PARSE_MARK_FOR_SUBMATCH` …); here every stack symbol is one function of a mutual
recursion (`parseRE`, `parseBranch`, `parsePiece`, `parseAtom`, `catLoop`, `unionLoop`, `postfix`, `mark`) and the
`depth` counter is the nesting of `parseRE true`.  All recursion is structural on a budget that `parse` sets to
`8 * pat.length + 16`; running out of it is the distinct error `stuck` (the C `while` loop has no bound either; the
correspondence run reports any `stuck`).  Not modelled: TRE's approximate-matching syntax inside `{}` (`{+1~2}`,
`{1i<3}` …: answer `approx`), code points above 127 under REG_ICASE (treated as caseless), `(int)` truncation of
`\x{…}` values.  Reads of the terminating NUL behind the pattern (`\x` or `\Q` at the very end, `[a-` …) are modelled
as reading code 0, which is what a NUL-terminated pattern gives.  Core Lean only.
-/
namespace Hawk.Rex.Tre
open Hawk.Rex

/-- `reg_errcode_t` values `tre_parse` can return (plus two model-only answers) -/
inductive PErr where
  | badpat | ecollate | ectype | eescape | esubreg | ebrack | eparen | ebrace | badbr | erange | badrpt | espace
  | approx
  | stuck
deriving Repr, DecidableEq, Inhabited

def PErr.name : PErr → String
  | .badpat => "BADPAT" | .ecollate => "ECOLLATE" | .ectype => "ECTYPE" | .eescape => "EESCAPE"
  | .esubreg => "ESUBREG" | .ebrack => "EBRACK" | .eparen => "EPAREN" | .ebrace => "EBRACE"
  | .badbr => "BADBR" | .erange => "ERANGE" | .badrpt => "BADRPT" | .espace => "ESPACE"
  | .approx => "APPROX" | .stuck => "STUCK"

/-- `tre_literal_t` of an ordinary literal: `code_min`, `code_max` (`none` = `TRE_CHAR_MAX`), `position`,
`u.class`, `neg_classes` -/
structure Lit where
  lo : Nat
  hi : Option Nat
  pos : Nat
  cls : Option CClass
  neg : List CClass
deriving Repr, DecidableEq, Inhabited

/-- leaves: `EMPTY`, `ASSERTION` (with the `ASSERT_AT_*` bit in `code_max`), `BACKREF`, ordinary literal -/
inductive Leaf where
  | empty
  | asrt (code : Nat)
  | backref (n pos : Nat)
  | lit (l : Lit)
deriving Repr, DecidableEq, Inhabited

/-- `tre_ast_node_t`: every node carries `submatch_id` (`none` = -1) and `num_submatches` -/
inductive Ast where
  | leaf (l : Leaf) (sub : Option Nat) (nsub : Nat)
  | cat (a b : Ast) (sub : Option Nat) (nsub : Nat)
  | iter (a : Ast) (min max : Int) (minimal : Bool) (sub : Option Nat) (nsub : Nat)
  | union (a b : Ast) (sub : Option Nat) (nsub : Nat)
deriving Repr, DecidableEq, Inhabited

def Ast.sub : Ast → Option Nat
  | .leaf _ s _ | .cat _ _ s _ | .iter _ _ _ _ s _ | .union _ _ s _ => s

def Ast.nsub : Ast → Nat
  | .leaf _ _ n | .cat _ _ _ n | .iter _ _ _ _ _ n | .union _ _ _ n => n

def Ast.setSub : Ast → Option Nat → Nat → Ast
  | .leaf l _ _, s, n => .leaf l s n
  | .cat a b _ _, s, n => .cat a b s n
  | .iter a mn mx mi _ _, s, n => .iter a mn mx mi s n
  | .union a b _ _, s, n => .union a b s n

/-- `tre_ast_new_literal` -/
def mkLit (lo : Nat) (hi : Option Nat) (pos : Nat) : Ast := .leaf (.lit ⟨lo, hi, pos, none, []⟩) none 0
def mkEmpty : Ast := .leaf .empty none 0
def mkAsrt (code : Nat) : Ast := .leaf (.asrt code) none 0
/-- `tre_ast_new_catenation` / `_union` / `_iter`: `num_submatches` is the sum over the children -/
def mkCat (a b : Ast) : Ast := .cat a b none (a.nsub + b.nsub)
def mkUnion (a b : Ast) : Ast := .union a b none (a.nsub + b.nsub)
def mkIter (a : Ast) (mn mx : Int) (minimal : Bool) : Ast := .iter a mn mx minimal none a.nsub

/-- `PARSE_MARK_FOR_SUBMATCH`: a node that already is a submatch gets an `EMPTY ·` in front first -/
def mark (id : Nat) (r : Ast) : Ast :=
  let r' := match r.sub with
    | some _ => Ast.cat mkEmpty r none r.nsub
    | none => r
  r'.setSub (some id) (r'.nsub + 1)

/-- compile flags that matter to the parser -/
structure CF where
  icase : Bool := false
  nobound : Bool := false
  /-- the repaired end-of-pattern behaviour (patches/tre-parse-overread.diff): `\Q` as the very end of the pattern
  starts an empty literal; without the patch `tre_parse` reads the character BEHIND the pattern (the terminating
  NUL of a NUL-terminated pattern) and makes a literal of it -/
  eofEmpty : Bool := false
deriving Repr, DecidableEq, Inhabited

/-! ## characters (ASCII; above 127: caseless) -/
def isLowerN (c : Nat) : Bool := decide (97 ≤ c) && decide (c ≤ 122)
def isUpperN (c : Nat) : Bool := decide (65 ≤ c) && decide (c ≤ 90)
def toUpperN (c : Nat) : Nat := if isLowerN c then c - 32 else c
def toLowerN (c : Nat) : Nat := if isUpperN c then c + 32 else c

def xdigit (c : Char) : Option Nat :=
  if '0' ≤ c && c ≤ '9' then some (c.toNat - 48)
  else if 'A' ≤ c && c ≤ 'F' then some (c.toNat - 55)
  else if 'a' ≤ c && c ≤ 'f' then some (c.toNat - 87)
  else none

/-- `hawk_oochars_to_ooch_prop` -/
def cclassOf (name : List Char) : Option CClass := match String.ofList name with
  | "alpha" => some .alpha | "digit" => some .digit | "upper" => some .upper
  | "lower" => some .lower | "alnum" => some .alnum | "space" => some .space
  | "blank" => some .blank | "punct" => some .punct | "xdigit" => some .xdigit
  | "cntrl" => some .cntrl | "print" => some .print | "graph" => some .graph
  | _ => none

def _root_.Hawk.Rex.CClass.name : CClass → String
  | .alpha => "alpha" | .digit => "digit" | .upper => "upper" | .lower => "lower" | .alnum => "alnum"
  | .space => "space" | .blank => "blank" | .punct => "punct" | .xdigit => "xdigit" | .cntrl => "cntrl"
  | .print => "print" | .graph => "graph"

/-! ## bracket expressions: `tre_parse_bracket_items`, `tre_parse_bracket` -/

/-- an entry of the `items` array: `code_min`, `code_max` (`none` = TRE_CHAR_MAX), `u.class` -/
structure Item where
  lo : Nat
  hi : Option Nat
  cls : Option CClass
deriving Repr, DecidableEq, Inhabited

/-- the "opposite-case counterpoints" loop of `tre_parse_bracket_items` over `min..max` (ASCII: a maximal run of
lower-case letters inside the range gives one upper-case range and vice versa) -/
def counterpoints : Nat → Nat → Nat → List Item
  | 0, _, _ => []
  | f + 1, mn, mx =>
    if mn > mx then []
    else if isLowerN mn then
      let e := min mx 122
      ⟨mn - 32, some (e - 32), none⟩ :: counterpoints f (e + 1) mx
    else if isUpperN mn then
      let e := min mx 90
      ⟨mn + 32, some (e + 32), none⟩ :: counterpoints f (e + 1) mx
    else counterpoints f (mn + 1) mx

/-- one item at the head of `re`: `(min, max, class, rest)`; the branches in the order of the C -/
def bracketOne (first : Bool) (c0 : Char) (r0 : List Char) : Except PErr (Nat × Option Nat × Option CClass × List Char) :=
  let c1 := r0.head?
  let c2 := (r0.drop 1).head?
  let other : Unit → Except PErr (Nat × Option Nat × Option CClass × List Char) := fun _ =>
    match c1 with
    | some d1 =>
      if c0 == '\\' then .ok (d1.toNat, some d1.toNat, none, r0.drop 1)          -- HAWK: \ escapes inside []
      else if c0 == '[' && d1 == '.' then .error .ecollate
      else if c0 == '[' && d1 == '=' then .error .ecollate
      else if c0 == '[' && d1 == ':' then
        let body := r0.drop 1
        let name := body.takeWhile (· ≠ ':')
        match body.dropWhile (· ≠ ':') with
        | [] => .error .ectype
        | _ :: aft => match aft with
          | ']' :: r' => match cclassOf (name.take 63) with
            | some k => .ok (0, none, some k, r')
            | none => .error .ectype
          | _ => .error .ectype
      else if c0 == '-' && d1 != ']' && !first then .error .erange
      else .ok (c0.toNat, some c0.toNat, none, r0)
    | none =>
      -- last character of the pattern; `*(re + 1)` reads the terminator, which is not `]`
      if c0 == '-' && !first then .error .erange
      else .ok (c0.toNat, some c0.toNat, none, r0)
  match c1, c2 with
  | some '-', some b =>
    if b != ']' then
      if c0.toNat > b.toNat then .error .erange else .ok (c0.toNat, some b.toNat, none, r0.drop 2)
    else other ()
  | _, _ => other ()

/-- `tre_parse_bracket_items`: budget, first, rest of the pattern, items so far, negated classes so far -/
def bracketItems (icase negate : Bool) : Nat → Bool → List Char → List Item → List CClass →
    Except PErr (List Item × List CClass × List Char)
  | 0, _, _, _, _ => .error .stuck
  | fuel + 1, first, re, items, negs =>
    match re with
    | [] => .error .ebrack
    | c0 :: r0 =>
      if c0 == ']' && !first then .ok (items, negs, r0)
      else
        match bracketOne first c0 r0 with
        | .error e => .error e
        | .ok (lo, hi, cls, rest) =>
          match cls, negate with
          | some k, true =>
            if negs.length ≥ 64 then .error .espace
            else bracketItems icase negate fuel false rest items (negs ++ [k])
          | _, _ =>
            if items.length ≥ 2048 then .error .espace
            else
              let items := items ++ [⟨lo, hi, cls⟩]
              let items := if icase && cls.isNone then items ++ counterpoints (hi.getD lo + 1 - lo) lo (hi.getD lo) else items
              bracketItems icase negate fuel false rest items negs

/-- stable insertion by `code_min` (`hawk_qsort` with `tre_compare_items`; the order among equal `code_min` does
not influence the union built below) -/
def insertItem (x : Item) : List Item → List Item
  | [] => [x]
  | y :: l => if x.lo < y.lo then x :: y :: l else y :: insertItem x l

def sortItems (l : List Item) : List Item := l.foldl (fun acc x => insertItem x acc) []

def addNode (node : Option Ast) (n : Ast) : Option Ast := match node with
  | none => some n
  | some u => some (mkUnion u n)

/-- the union-building loop of `tre_parse_bracket` (state: node, curr_min, curr_max) -/
def bracketBuild (negate : Bool) (pos : Nat) (negs : List CClass) :
    List Item → Option Ast → Int → Int → Option Ast × Int
  | [], node, cmin, _ => (node, cmin)
  | it :: rest, node, cmin, cmax =>
    if negate then
      let mn : Int := it.lo
      let mx : Int := (it.hi.getD it.lo : Nat)
      if mn < cmax then
        let c := max (mx + 1) cmax
        bracketBuild negate pos negs rest node c c
      else
        let cm := mn - 1
        let node := if cm ≥ cmin then addNode node (.leaf (.lit ⟨cmin.toNat, some cm.toNat, pos, none, negs⟩) none 0) else node
        bracketBuild negate pos negs rest node (mx + 1) (mx + 1)
    else
      bracketBuild negate pos negs rest (addNode node (.leaf (.lit ⟨it.lo, it.hi, pos, it.cls, negs⟩) none 0)) cmin cmax

/-- `tre_parse_bracket`: `re` is the text after `[` -/
def parseBracket (icase : Bool) (pos : Nat) (re : List Char) : Except PErr (Ast × List Char) :=
  let negate := re.head? == some '^'
  let re := if negate then re.drop 1 else re
  match bracketItems icase negate (re.length + 1) true re [] [] with
  | .error e => .error e
  | .ok (items, negs, rest) =>
    let items := if negate then sortItems items else items
    let (node, cmin) := bracketBuild negate pos negs items none 0 0
    let node := if negate then addNode node (.leaf (.lit ⟨cmin.toNat, none, pos, none, negs⟩) none 0) else node
    match node with
    | some n => .ok (n, rest)
    | none => .error .espace   -- unreachable: a non-negated bracket has at least one item

/-! ## bounds: `tre_parse_int`, `tre_parse_bound` -/

def parseIntLoop : List Char → Nat → Bool → Nat × Bool × List Char
  | [], num, ov => (num, ov, [])
  | c :: r, num, ov =>
    if c.isDigit then parseIntLoop r (num * 10 + (c.toNat - 48)) (ov || decide (num > 214748363))
    else (num, ov, c :: r)

/-- `tre_parse_int`: -1 when there is no digit or the number overflowed an `int` -/
def parseInt (r : List Char) : Int × List Char := match r with
  | [] => (-1, [])
  | c :: _ =>
    if c.isDigit then
      let (n, ov, r') := parseIntLoop r 0 false
      (if ov then -1 else (n : Int), r')
    else (-1, r)

def approxChars : List Char := ['+', '-', '#', '~', ',', ' ', '<']

/-- `tre_parse_bound` after the `{`: the new node for `result` and the rest -/
def parseBound (result : Ast) (r : List Char) : Except PErr (Ast × List Char) :=
  let (mn, r1) := parseInt r
  let (mx, r2) := match r1 with
    | ',' :: t => parseInt t
    | _ => (mn, r1)
  if mx ≥ 0 && mn > mx then .error .badbr
  else match r2 with
    | [] => .error .ebrace
    | c :: t =>
      if approxChars.contains c && !t.isEmpty then .error .approx
      else if r2.length == r.length then .error .badbr
      else if c != '}' then .error .badbr
      else
        let (minimal, t) := match t with
          | '?' :: t' => (true, t')
          | _ => (false, t)
        if mn == 0 && mx == 0 then .ok (mkEmpty, t)
        else
          let (mn, mx) := if mn < 0 && mx < 0 then ((1 : Int), (1 : Int)) else (mn, mx)
          .ok (mkIter result mn mx minimal, t)

/-- `PARSE_POSTFIX` (pushes itself again after every operator) -/
def postfixOps (cf : CF) : Nat → Ast → List Char → Except PErr (Ast × List Char)
  | 0, _, _ => .error .stuck
  | fuel + 1, result, re =>
    match re with
    | [] => .ok (result, re)
    | c :: t =>
      if c == '*' || c == '+' || c == '?' then
        let (minimal, t) := match t with
          | '?' :: t' => (true, t')
          | _ => (false, t)
        postfixOps cf fuel (mkIter result (if c == '+' then 1 else 0) (if c == '?' then 1 else -1) minimal) t
      else if c == '{' && !cf.nobound then
        match parseBound result t with
        | .error e => .error e
        | .ok (res, t) => postfixOps cf fuel res t
      else .ok (result, re)

/-! ## escapes -/

/-- `tre_macros`: the single-character ones -/
def macroChar (c : Char) : Option Nat := match c with
  | 't' => some 9 | 'n' => some 10 | 'r' => some 13 | 'f' => some 12 | 'a' => some 7 | 'e' => some 27
  | _ => none

/-- `tre_macros`: the bracket ones (text after the `[`) -/
def macroBracket (c : Char) : Option (List Char) := match c with
  | 'w' => some "[:alnum:]_]".toList | 'W' => some "^[:alnum:]_]".toList
  | 's' => some "[:space:]]".toList | 'S' => some "^[:space:]]".toList
  | 'd' => some "[:digit:]]".toList | 'D' => some "^[:digit:]]".toList
  | _ => none

/-- hex digits of `\x{…}` up to the `}` -/
def hexBrace : List Char → Nat → Except PErr (Nat × List Char)
  | [], _ => .error .ebrace
  | c :: r, val =>
    if c == '}' then .ok (val, r)
    else match xdigit c with
      | some d => hexBrace r (val * 16 + d)
      | none => .error .ebrace

/-- parser state that the C keeps in `ctx`: `position`, `submatch_id`, and whether `REG_LITERAL` is
(temporarily, by `\Q`) set in `ctx->cflags` -/
structure St where
  pos : Nat
  sub : Nat
  lit : Bool
deriving Repr, DecidableEq, Inhabited

abbrev R := Except PErr (Ast × St × List Char)

/-- an ordinary character: under REG_ICASE a letter becomes `upper | lower` (same position) -/
def literalNode (cf : CF) (c : Nat) (pos : Nat) : Ast :=
  if cf.icase && (isUpperN c || isLowerN c) then mkUnion (mkLit (toUpperN c) (some (toUpperN c)) pos) (mkLit (toLowerN c) (some (toLowerN c)) pos)
  else mkLit c (some c) pos

/-- the `CHAR_BACKSLASH` case of `PARSE_ATOM` except `\Q` (which re-enters `PARSE_ATOM`); `t` is the text after `\` -/
def escapeAtom (cf : CF) (st : St) (e : Char) (t : List Char) : R :=
  match macroChar e with
  | some code => .ok (literalNode cf code st.pos, { st with pos := st.pos + 1 }, t)
  | none =>
  match macroBracket e with
  | some text => match parseBracket cf.icase st.pos text with
    | .error err => .error err
    | .ok (n, _) => .ok (n, { st with pos := st.pos + 1 }, t)
  | none =>
    if e == 'b' then .ok (mkAsrt 64, st, t)
    else if e == 'B' then .ok (mkAsrt 128, st, t)
    else if e == '<' then .ok (mkAsrt 16, st, t)
    else if e == '>' then .ok (mkAsrt 32, st, t)
    else if e == 'x' then
      match t with
      | [] => .ok (mkLit 0 (some 0) st.pos, { st with pos := st.pos + 1 }, [])   -- falls through; reads the terminator
      | '{' :: t2 => match hexBrace t2 0 with
        | .error err => .error err
        | .ok (val, rest) => .ok (mkLit val (some val) st.pos, { st with pos := st.pos + 1 }, rest)
      | a :: t2 => match xdigit a with
        | none => .ok (mkLit 0 (some 0) st.pos, { st with pos := st.pos + 1 }, t)
        | some x => match t2 with
          | b :: t3 => match xdigit b with
            | some y => .ok (mkLit (x * 16 + y) (some (x * 16 + y)) st.pos, { st with pos := st.pos + 1 }, t3)
            | none => .ok (mkLit x (some x) st.pos, { st with pos := st.pos + 1 }, t2)
          | [] => .ok (mkLit x (some x) st.pos, { st with pos := st.pos + 1 }, t2)
    else if e.isDigit then .ok (.leaf (.backref (e.toNat - 48) st.pos) none 0, { st with pos := st.pos + 1 }, t)
    else .ok (mkLit e.toNat (some e.toNat) st.pos, { st with pos := st.pos + 1 }, t)

/-! ## the stack symbols -/

mutual
  /-- `PARSE_RE` = `PARSE_BRANCH`, then `PARSE_UNION`; `grp` = `depth > 0` -/
  def parseRE (cf : CF) : Nat → Bool → St → List Char → R
    | 0, _, _, _ => .error .stuck
    | f + 1, grp, st, re =>
      match parseBranch cf f grp st re with
      | .error e => .error e
      | .ok (b, st, re) => unionLoop cf f grp b st re

  /-- `PARSE_UNION` / `PARSE_POST_UNION` (left associative); the closing `)` is eaten by the caller -/
  def unionLoop (cf : CF) : Nat → Bool → Ast → St → List Char → R
    | 0, _, _, _, _ => .error .stuck
    | f + 1, grp, acc, st, re =>
      match re with
      | [] => .ok (acc, st, re)
      | c :: t =>
        if st.lit then .ok (acc, st, re)
        else if c == '|' then
          match parseBranch cf f grp st t with
          | .error e => .error e
          | .ok (b, st, re) => unionLoop cf f grp (mkUnion acc b) st re
        else .ok (acc, st, re)

  /-- `PARSE_BRANCH` = `PARSE_PIECE`, then `PARSE_CATENATION` -/
  def parseBranch (cf : CF) : Nat → Bool → St → List Char → R
    | 0, _, _, _ => .error .stuck
    | f + 1, grp, st, re =>
      match parsePiece cf f grp st re with
      | .error e => .error e
      | .ok (p, st, re) => catLoop cf f grp p st re

  /-- `PARSE_CATENATION` / `PARSE_POST_CATENATION` (left associative) -/
  def catLoop (cf : CF) : Nat → Bool → Ast → St → List Char → R
    | 0, _, _, _, _ => .error .stuck
    | f + 1, grp, acc, st, re =>
      match re with
      | [] => .ok (acc, st, re)
      | c :: _ =>
        if !st.lit && (c == '|' || (c == ')' && grp)) then .ok (acc, st, re)
        else
          match parsePiece cf f grp st re with
          | .error e => .error e
          | .ok (p, st, re) => catLoop cf f grp (mkCat acc p) st re

  /-- `PARSE_PIECE`: `PARSE_ATOM`, then `PARSE_POSTFIX` unless REG_LITERAL was set when the piece began -/
  def parsePiece (cf : CF) : Nat → Bool → St → List Char → R
    | 0, _, _, _ => .error .stuck
    | f + 1, grp, st, re =>
      match parseAtom cf f grp st re with
      | .error e => .error e
      | .ok (a, st', re) =>
        if st.lit || st'.lit then .ok (a, st', re)
        else match postfixOps cf (re.length + 1) a re with
          | .error e => .error e
          | .ok (a, re) => .ok (a, st', re)

  /-- `PARSE_ATOM` -/
  def parseAtom (cf : CF) : Nat → Bool → St → List Char → R
    | 0, _, _, _ => .error .stuck
    | f + 1, grp, st, re =>
      match re with
      | [] => parseLiteral cf f grp st re
      | c :: t =>
        if st.lit then parseLiteral cf f grp st re
        else if c == '(' then
          match parseRE cf f true { st with sub := st.sub + 1 } t with
          | .error e => .error e
          | .ok (r, st', re') => match re' with
            | ')' :: t' => if st'.lit then .error .eparen else .ok (mark st.sub r, st', t')
            | _ => .error .eparen
        else if c == ')' then
          if grp then .ok (mkEmpty, st, re) else parseLiteral cf f grp st re
        else if c == '[' then
          match parseBracket cf.icase st.pos t with
          | .error e => .error e
          | .ok (n, rest) => .ok (n, { st with pos := st.pos + 1 }, rest)
        else if c == '\\' then
          match t with
          | [] => .error .eescape
          | e :: t' =>
            if e == 'Q' then parseAtom cf f grp { st with lit := true } t'
            else escapeAtom cf st e t'
        else if c == '.' then .ok (mkLit 0 none st.pos, { st with pos := st.pos + 1 }, t)
        else if c == '^' then .ok (mkAsrt 1, st, t)
        else if c == '$' then .ok (mkAsrt 2, st, t)
        else parseLiteral cf f grp st re

  /-- the `parse_literal:` label of `PARSE_ATOM` -/
  def parseLiteral (cf : CF) : Nat → Bool → St → List Char → R
    | 0, _, _, _ => .error .stuck
    | f + 1, grp, st, re =>
      match st.lit, re with
      | true, '\\' :: 'E' :: t => parsePiece cf f grp { st with lit := false } t
      | true, [] =>
        if cf.eofEmpty then .ok (mkEmpty, st, re)
        else .ok (mkLit 0 (some 0) st.pos, { st with pos := st.pos + 1 }, [])   -- reads the terminator
      | true, c :: t => .ok (literalNode cf c.toNat st.pos, { st with pos := st.pos + 1 }, t)
      | false, [] => .ok (mkEmpty, st, re)
      | false, c :: t =>
        if c == '*' || c == '|' || c == '+' || c == '?' || (c == '{' && !cf.nobound) then .ok (mkEmpty, st, re)
        else .ok (literalNode cf c.toNat st.pos, { st with pos := st.pos + 1 }, t)
end

/-- what `tre_parse` leaves in `ctx`: `result`, `submatch_id`, `position` -/
structure Parsed where
  ast : Ast
  nsub : Nat
  npos : Nat
deriving Repr, DecidableEq, Inhabited

/-- `tre_parse` with `nofirstsub = 0`: the whole expression is submatch 0 -/
def parse (cf : CF) (pat : List Char) : Except PErr Parsed :=
  match parseRE cf (8 * pat.length + 16) false ⟨0, 1, false⟩ pat with
  | .error e => .error e
  | .ok (r, st, _) => .ok ⟨mark 0 r, st.sub, st.pos⟩

/-! ## canonical text of a tree (the format `harness/rex_h.c` prints) -/

def subStr (s : Option Nat) (n : Nat) : String :=
  ":" ++ (match s with | some k => toString k | none => "-1") ++ ":" ++ toString n

def Leaf.dump : Leaf → String
  | .empty => "E"
  | .asrt c => "A" ++ toString c
  | .backref n p => "B" ++ toString n ++ "@" ++ toString p
  | .lit l => "L" ++ toString l.lo ++ "-" ++ (match l.hi with | some h => toString h | none => "M") ++ "@" ++ toString l.pos
      ++ (match l.cls with | some k => "c" ++ k.name | none => "")
      ++ (if l.neg.isEmpty then "" else "!" ++ ",".intercalate (l.neg.map CClass.name))

def Ast.dump : Ast → String
  | .leaf l s n => l.dump ++ subStr s n
  | .cat a b s n => "C(" ++ a.dump ++ "," ++ b.dump ++ ")" ++ subStr s n
  | .union a b s n => "U(" ++ a.dump ++ "," ++ b.dump ++ ")" ++ subStr s n
  | .iter a mn mx mi s n => "I(" ++ a.dump ++ "," ++ toString mn ++ "," ++ toString mx ++ "," ++ (if mi then "1" else "0") ++ ")" ++ subStr s n

def Parsed.dump (p : Parsed) : String := p.ast.dump ++ " nsub=" ++ toString p.nsub ++ " npos=" ++ toString p.npos


/-! ## what a tree means, and the tree as an `Re` of the specification

`AMatches` is the language TRE's automaton construction is supposed to realise for a tree: a literal leaf accepts one
character of its code range that is in its class and in none of its negated classes (`tre-match-utils.h`
`CHECK_CHAR_CLASSES`: under REG_ICASE a class also accepts a character whose lower- or upper-case form is in it),
assertion leaves are the position tests of `CHECK_ASSERTIONS`, iteration is `min..max` copies (`max = -1`: unbounded;
`min = -1`, from `{,n}`, is 0).  Back references are outside regular languages: no meaning here.  Code points are
turned into `Char` by `Char.ofNat` (exact for every valid scalar value; pattern text is ASCII in the campaign). -/

def hiChar : Option Nat → Char
  | none => Char.ofNat 0x10FFFF
  | some h => Char.ofNat h

def classHas (ic : Bool) (k : CClass) (d : Char) : Bool := k.has d || (ic && (k.has (fold d) || k.has (upper d)))

def Lit.has (ic : Bool) (l : Lit) (d : Char) : Bool :=
  inRange (Char.ofNat l.lo) (hiChar l.hi) d &&
  (match l.cls with | none => true | some k => classHas ic k d) &&
  l.neg.all (fun k => !classHas ic k d)

/-- `ASSERT_AT_*` bit → the assertion of the specification (`CHECK_ASSERTIONS` is transcribed in `Rex.lean`) -/
def asrtRe (code : Nat) : Option Re :=
  if code = 1 then some .bol else if code = 2 then some .eol
  else if code = 16 then some (.wordb .bow) else if code = 32 then some (.wordb .eow)
  else if code = 64 then some (.wordb .wb) else if code = 128 then some (.wordb .nwb) else none

/-- `AMatches ic nb ne s a i j`: tree `a` (compiled with REG_ICASE iff `ic`) matches `s[i..j)`; `nb`/`ne` = NOTBOL/NOTEOL -/
def AMatches (ic nb ne : Bool) (s : List Char) : Ast → Nat → Nat → Prop
  | .leaf .empty _ _, i, j => i = j ∧ i ≤ s.length
  | .leaf (.asrt c) _ _, i, j => match asrtRe c with
    | some r => Matches ⟨false, nb, ne⟩ s r i j
    | none => False
  | .leaf (.backref _ _) _ _, _, _ => False
  | .leaf (.lit l) _ _, i, j => j = i + 1 ∧ ∃ d, s[i]? = some d ∧ l.has ic d = true
  | .cat a b _ _, i, j => ∃ k, AMatches ic nb ne s a i k ∧ AMatches ic nb ne s b k j
  | .union a b _ _, i, j => AMatches ic nb ne s a i j ∨ AMatches ic nb ne s b i j
  | .iter a mn mx _ _ _, i, j =>
    i ≤ s.length ∧ ∃ k, mn.toNat ≤ k ∧ (∀ n', (if mx < 0 then none else some mx.toNat) = some n' → k ≤ n') ∧ IterN (AMatches ic nb ne s a) k i j

/-- a class under REG_ICASE, case-sensitively (ASCII): `upper` and `lower` become `alpha`, the others are closed under case -/
def icClose : CClass → CClass
  | .upper => .alpha
  | .lower => .alpha
  | k => k

/-- complement of the code range of a literal, as bracket items -/
def complRanges (l : Lit) : List ClsItem :=
  (if l.lo = 0 then [] else [ClsItem.range (Char.ofNat 0) (Char.ofNat (l.lo - 1))]) ++
  (match l.hi with | none => [] | some h => [ClsItem.range (Char.ofNat (h + 1)) (Char.ofNat 0x10FFFF)])

/-- a literal leaf as a bracket expression of the specification, matched case-SENSITIVELY (REG_ICASE is already
compiled into the tree: counterpoint ranges, `upper|lower` unions) -/
def litRe (ic : Bool) (l : Lit) : Re :=
  let nm (k : CClass) : ClsItem := .named (if ic then icClose k else k)
  if l.neg.isEmpty then
    match l.cls with
    | none => .cls false [.range (Char.ofNat l.lo) (hiChar l.hi)]
    | some k => .cls false [nm k]
  else .cls true (l.neg.map nm ++ complRanges l)

/-- the tree as an `Re` (to be matched with `icase := false`); `none` for a back reference -/
def toRe (ic : Bool) : Ast → Option Re
  | .leaf .empty _ _ => some .emp
  | .leaf (.asrt c) _ _ => asrtRe c
  | .leaf (.backref _ _) _ _ => none
  | .leaf (.lit l) _ _ => some (litRe ic l)
  | .cat a b _ _ => match toRe ic a, toRe ic b with
    | some x, some y => some (.cat x y)
    | _, _ => none
  | .union a b _ _ => match toRe ic a, toRe ic b with
    | some x, some y => some (.alt x y)
    | _, _ => none
  | .iter a mn mx _ _ _ => match toRe ic a with
    | some x => some (.rep x mn.toNat (if mx < 0 then none else some mx.toNat))
    | none => none

/-- code points for which the complement construction of `litRe` is exact: below the surrogate gap (`Char.ofNat` of a
surrogate is not that code) -/
def Lit.lowCodes (l : Lit) : Bool :=
  decide (l.lo < 0xD800) && (match l.hi with | none => true | some h => decide (h + 1 < 0xD800))

/-- the part of the trees for which `toRe` is PROVED to keep the meaning (`ast_denotation_partial`): no back
reference; a class leaf covers the full code range (which is how `tre_parse_bracket_items` makes them; with or
without REG_ICASE); a leaf with a negated-class list (`[^[:alpha:]x]`) has no class of its own and its code range lies
below the surrogate gap U+D800 (so that the complement ranges of `litRe` are exact). -/
def Ast.plain (ic : Bool) : Ast → Bool
  | .leaf .empty _ _ => true
  | .leaf (.asrt c) _ _ => (asrtRe c).isSome
  | .leaf (.backref _ _) _ _ => false
  | .leaf (.lit l) _ _ =>
    if l.neg.isEmpty then l.cls.isNone || (l.lo == 0 && l.hi.isNone)
    else l.cls.isNone && l.lowCodes
  | .cat a b _ _ => a.plain ic && b.plain ic
  | .union a b _ _ => a.plain ic && b.plain ic
  | .iter a _ _ _ _ _ => a.plain ic

/-- the verified leftmost-longest matcher run on a tree -/
def amatchLL (ic nb ne : Bool) (a : Ast) (s : List Char) : Option (Nat × Nat) :=
  match toRe ic a with
  | some r => matchLL ⟨false, nb, ne⟩ r s
  | none => none

/-- pattern text → `tre_parse` tree → verified matcher -/
def matchText (cf : CF) (nb ne : Bool) (pat s : List Char) : Except PErr (Option (Nat × Nat)) :=
  match parse cf pat with
  | .error e => .error e
  | .ok p => .ok (amatchLL cf.icase nb ne p.ast s)

/-- the two halves of the answer of `parse` (for statements that need decidable equality) -/
def parseOk (cf : CF) (pat : List Char) : Option Parsed := match parse cf pat with
  | .ok p => some p
  | .error _ => none

def parseErr (cf : CF) (pat : List Char) : Option PErr := match parse cf pat with
  | .ok _ => none
  | .error e => some e

end Hawk.Rex.Tre
