/-!
# Model of the write side of hawk's runtime I/O layer (`lib/rio.c`) and of its callers
(`run_print`/`run_printf` in `lib/run.c`, `fnc_close`/`fnc_fflush` in `lib/fnc.c`,
the end-of-run flush in `hawk_rtx_loop` and the teardown in `fini_rtx`).

The runtime keeps one singly linked list `rtx->rio.chain` of open streams
(`hawk_rio_arg_t`).  A stream is looked up by `(type|mask, name)` — NOT by the opening
mode — and is pushed at the head of the chain when it is opened.

The stream handler supplied by the embedding application is an adversary: a function
`ρ : Nat → Reply` from the global handler call number to the reply.  Every handler call is
recorded in `St.log` (newest event first).

The model follows the code with the three repairs of `patches/` applied:
* `hawk_rtx_closeio`: an end of a two-way pipe that is already closed is skipped;
* handler failures always leave an error number (so a failed `print` is a run error);
* `flush_io` (fflush) keeps a handler failure sticky;
* `hawk_rtx_closeio` / `hawk_rtx_nextio_write` flush before CLOSE / NEXT and report a failing flush;
* `hawk_rtx_flushallios` reports a failing flush and `hawk_rtx_loop` then fails.
-/
namespace Hawk.Rio

/-- `hawk_rio_type_t` -/
inductive RType | pipe | file | console
  deriving DecidableEq, Repr, Inhabited

/-- `IO_MASK_READ / IO_MASK_WRITE / IO_MASK_RDWR` -/
inductive Mask | rd | wr | rw
  deriving DecidableEq, Repr, Inhabited

/-- `hawk_out_type_t` (tree.h): `|`, `||`, `>`, `>>`, console -/
inductive OutKind | pipe | rwpipe | file | apfile | console
  deriving DecidableEq, Repr, Inhabited

/-- `hawk_in_type_t` (tree.h): `cmd | getline`, `cmd || getline`, `getline < file`, console -/
inductive InKind | pipe | rwpipe | file | console
  deriving DecidableEq, Repr, Inhabited

/-- `hawk_rio_rwcmode_t`: CLOSE_FULL = 0, CLOSE_READ = 1, CLOSE_WRITE = 2 -/
inductive Rwc | full | rd | wr
  deriving DecidableEq, Repr, Inhabited

/-- what the chain is searched by: `p->type == (io_type | io_mask)` and the name -/
structure Key where
  ty : RType
  mask : Mask
  name : String
  deriving DecidableEq, Repr, Inhabited

/-- `out_type_map` -/
def OutKind.ty : OutKind → RType
  | .pipe => .pipe | .rwpipe => .pipe | .file => .file | .apfile => .file | .console => .console
/-- `out_mode_map` (PIPE_WRITE=1, PIPE_RW=2, FILE_WRITE=1, FILE_APPEND=2, CONSOLE_WRITE=1) -/
def OutKind.mode : OutKind → Nat
  | .pipe => 1 | .rwpipe => 2 | .file => 1 | .apfile => 2 | .console => 1
/-- `out_mask_map` -/
def OutKind.mask : OutKind → Mask
  | .pipe => .wr | .rwpipe => .rw | .file => .wr | .apfile => .wr | .console => .wr
def OutKind.key (k : OutKind) (name : String) : Key := ⟨k.ty, k.mask, name⟩

/-- `in_type_map` -/
def InKind.ty : InKind → RType
  | .pipe => .pipe | .rwpipe => .pipe | .file => .file | .console => .console
/-- `in_mode_map` (PIPE_READ=0, PIPE_RW=2, FILE_READ=0, CONSOLE_READ=0) -/
def InKind.mode : InKind → Nat
  | .pipe => 0 | .rwpipe => 2 | .file => 0 | .console => 0
/-- `in_mask_map` -/
def InKind.mask : InKind → Mask
  | .pipe => .rd | .rwpipe => .rw | .file => .rd | .console => .rd
def InKind.key (k : InKind) (name : String) : Key := ⟨k.ty, k.mask, name⟩

/-- the fields of `hawk_rio_arg_t` the write side (and the shared chain) uses.
`sid` is the identity the handler gives the stream when it opens it (`handle`). -/
structure Strm where
  key : Key
  mode : Nat
  sid : Nat
  rwcstate : Rwc := .full
  outEof : Bool := false
  outEos : Bool := false
  inEof : Bool := false
  inEos : Bool := false
  deriving DecidableEq, Repr, Inhabited

/-- a handler reply: `accept k` = "took `min (k+1) len` characters" (so always between 1 and `len`),
`eof` = 0, `fail` = a negative value.  For commands without data only fail / not-fail
(and `eof` for NEXT and READ) matter. -/
inductive Reply | accept (k : Nat) | eof | fail
  deriving DecidableEq, Repr, Inhabited

def Reply.isFail : Reply → Bool
  | .fail => true | _ => false

/-- one handler call as seen by the handler -/
inductive Ev
  /-- OPEN; `sid = 0` when the handler refused -/
  | opn (sid : Nat) (key : Key) (mode : Nat) (ok : Bool)
  /-- WRITE / WRITE_BYTES with the offered characters -/
  | wr (sid : Nat) (key : Key) (bytes : Bool) (offered : List Char) (r : Reply)
  /-- READ -/
  | rd (sid : Nat) (key : Key) (r : Reply)
  /-- FLUSH -/
  | fl (sid : Nat) (key : Key) (ok : Bool)
  /-- CLOSE with `rwcmode`; `forced` = issued by `hawk_rtx_clearallios` (node freed whatever the reply) -/
  | cl (sid : Nat) (key : Key) (m : Rwc) (ok : Bool) (forced : Bool)
  /-- NEXT -/
  | nx (sid : Nat) (key : Key) (r : Reply)
  deriving DecidableEq, Repr, Inhabited

structure St where
  chain : List Strm := []
  /-- number of handler calls made so far = index of the next reply -/
  calls : Nat := 0
  /-- number of successful opens so far -/
  nopen : Nat := 0
  /-- handler call log, newest first -/
  log : List Ev := []
  deriving Repr, Inhabited

def St.init : St := {}

/-- record one handler call -/
def St.emit (s : St) (e : Ev) : St := { s with calls := s.calls + 1, log := e :: s.log }

/-- update the first node satisfying `p` (the C code updates the node its search loop stopped at) -/
def modifyFirst (p : Strm → Bool) (f : Strm → Strm) : List Strm → List Strm
  | [] => []
  | x :: xs => if p x then f x :: xs else x :: modifyFirst p f xs

def hasKey (k : Key) (x : Strm) : Bool := decide (x.key = k)

/-- the search loop `while (p) { if (p->type == (io_type|io_mask) && name equal) break; p = p->next; }` -/
def findKey (c : List Strm) (k : Key) : Option Strm := c.find? (hasKey k)

/-! ## `prepare_for_write_io_data` -/

inductive Prep
  | err                 -- OPEN failed: return -1
  | skip                -- `out.eos` or `out.eof` set: return 0 without calling the handler
  | ready (x : Strm)    -- go on writing to `x`
  deriving Repr

def prepareWrite (ρ : Nat → Reply) (s : St) (ok : OutKind) (name : String) : St × Prep :=
  let k := ok.key name
  match findKey s.chain k with
  | some x => (s, if x.outEos || x.outEof then .skip else .ready x)
  | none =>
    match ρ s.calls with
    | .fail => (s.emit (.opn 0 k ok.mode false), .err)
    | _ =>
      let x : Strm := { key := k, mode := ok.mode, sid := s.nopen + 1 }
      ({ s.emit (.opn x.sid k ok.mode true) with chain := x :: s.chain, nopen := s.nopen + 1 }, .ready x)

/-! ## `hawk_rtx_writeiostr` / `hawk_rtx_writeiobytes`: the re-offer loop -/

def writeLoop (ρ : Nat → Reply) (sid : Nat) (key : Key) (bytes : Bool) (rem : List Char) (s : St) : St × Int :=
  match rem with
  | [] => (s, 1)
  | c :: cs =>
    match ρ s.calls with
    | .fail => (s.emit (.wr sid key bytes (c :: cs) .fail), -1)
    | .eof =>
      let s1 := s.emit (.wr sid key bytes (c :: cs) .eof)
      ({ s1 with chain := modifyFirst (hasKey key) (fun y => { y with outEof := true }) s1.chain }, 0)
    | .accept k => writeLoop ρ sid key bytes (cs.drop k) (s.emit (.wr sid key bytes (c :: cs) (.accept k)))
termination_by rem.length
decreasing_by simp [List.length_drop]; omega

/-- returns 1 (all written), 0 (stream at its end) or -1 (handler failure) -/
def writeio (ρ : Nat → Reply) (s : St) (ok : OutKind) (name : String) (bytes : Bool) (data : List Char) : St × Int :=
  match prepareWrite ρ s ok name with
  | (s1, .err) => (s1, -1)
  | (s1, .skip) => (s1, 0)
  | (s1, .ready x) => writeLoop ρ x.sid x.key bytes data s1

/-! ## `hawk_rtx_flushio` -/

inductive FlushRes | ok | nmnf | herr
  deriving DecidableEq, Repr

/-- `p->type == (io_type|io_mask) && (name == NULL || names equal)` — like `prepare_for_write_io_data` the
lookup does not compare the opening mode (`> f` and `>> f` are one stream; /repo d9f81b4).  A consequence
mirrored by `fflushFold`: `fflush(name)` flushes a file stream twice, once for FILE and once for APFILE. -/
def flushMatch (ok : OutKind) (name : Option String) (x : Strm) : Bool :=
  decide (x.key.ty = ok.ty) && decide (x.key.mask = ok.mask) &&
  (match name with | none => true | some n => decide (x.key.name = n))

def flushLoop (ρ : Nat → Reply) (ok : OutKind) (name : Option String) : List Strm → St → Bool → St × FlushRes
  | [], s, found => (s, if found then .ok else .nmnf)
  | x :: xs, s, found =>
    if flushMatch ok name x then
      match ρ s.calls with
      | .fail => (s.emit (.fl x.sid x.key false), .herr)
      | _ => flushLoop ρ ok name xs (s.emit (.fl x.sid x.key true)) true
    else flushLoop ρ ok name xs s found

def flushio (ρ : Nat → Reply) (s : St) (ok : OutKind) (name : Option String) : St × FlushRes :=
  flushLoop ρ ok name s.chain s false

/-! ## `hawk_rtx_nextio_write` -/

/-- the NEXT request itself, once the buffered output has been flushed -/
def nextReq (ρ : Nat → Reply) (s : St) (x : Strm) : St × Int :=
  match ρ s.calls with
  | .fail => (s.emit (.nx x.sid x.key .fail), -1)
  | .eof =>
    let s1 := s.emit (.nx x.sid x.key .eof)
    ({ s1 with chain := modifyFirst (hasKey x.key) (fun y => { y with outEos := true }) s1.chain }, 0)
  | .accept k =>
    let s1 := s.emit (.nx x.sid x.key (.accept k))
    ({ s1 with chain := modifyFirst (hasKey x.key) (fun y => { y with outEof := false }) s1.chain }, 1)

/-- FLUSH comes first (the handler closes the current stream when it opens the next one): a failing
flush fails the call without switching (repair `rio-close-reports-unwritten-output`) -/
def nextioWrite (ρ : Nat → Reply) (s : St) (ok : OutKind) (name : String) : St × Int :=
  match findKey s.chain (ok.key name) with
  | none => (s, -1)   -- "should never happen": HAWK_EINTERN
  | some x =>
    if x.outEos then (s, 0)
    else match ρ s.calls with
      | .fail => (s.emit (.fl x.sid x.key false), -1)
      | _ => nextReq ρ (s.emit (.fl x.sid x.key true)) x

/-! ## `hawk_rtx_closeio` (with the repaired half-close logic) -/

/-- for node `x` and option `opt` (`some true` = "r", `some false` = "w"):
`none` = `goto skip`, `some m` = call the handler with `rwcmode = m`. -/
def closeMode (opt : Option Bool) (x : Strm) : Option Rwc :=
  match opt with
  | none => some .full
  | some true =>
    if x.key.mask = .rw then
      if x.rwcstate = .rd then none                 -- read end closed already (repair)
      else if x.rwcstate ≠ .wr then some .rd        -- write end still open: close the read end only
      else some .full
    else if x.key.mask ≠ .rd then none else some .full
  | some false =>
    if x.key.mask = .rw then
      if x.rwcstate = .wr then none                 -- write end closed already (repair)
      else if x.rwcstate ≠ .rd then some .wr
      else some .full
    else if x.key.mask ≠ .wr then none else some .full

def closeHit (name : String) (opt : Option Bool) (x : Strm) : Bool :=
  decide (x.key.name = name) && (closeMode opt x).isSome

/-- the stream has a write side: `p->type & (IO_MASK_WRITE | IO_MASK_RDWR)` -/
def Strm.hasWriteSide (x : Strm) : Bool := decide (x.key.mask = .wr) || decide (x.key.mask = .rw)

/-- FLUSH before CLOSE for a stream that has a write side (repair `rio-close-reports-unwritten-output`):
returns the state after the call and whether the flush failed -/
def preFlush (ρ : Nat → Reply) (s : St) (x : Strm) : St × Bool :=
  if x.hasWriteSide then (s.emit (.fl x.sid x.key (!(ρ s.calls).isFail)), (ρ s.calls).isFail) else (s, false)

/-- the CLOSE request for the node `x` the search stopped at; `ffail` = the preceding flush failed:
the stream is closed all the same but the result is -1 -/
def closeReq (ρ : Nat → Reply) (s : St) (name : String) (opt : Option Bool) (x : Strm) (ffail : Bool) : St × Int :=
  let m := (closeMode opt x).getD .full
  match ρ s.calls with
  | .fail => (s.emit (.cl x.sid x.key m false false), -1)
  | _ =>
    let s1 := s.emit (.cl x.sid x.key m true false)
    if x.key.mask = .rw ∧ x.rwcstate = .full ∧ m ≠ .full then
      -- one end closed: keep the node, remember which end
      ({ s1 with chain := modifyFirst (closeHit name opt) (fun y => { y with rwcstate := m }) s1.chain }, if ffail then -1 else 0)
    else
      ({ s1 with chain := s1.chain.eraseP (closeHit name opt) }, if ffail then -1 else 0)

def closeio (ρ : Nat → Reply) (s : St) (name : String) (opt : Option Bool) : St × Int :=
  match s.chain.find? (closeHit name opt) with
  | none => (s, -1)   -- HAWK_EIONMNF
  | some x =>
    let pf := preFlush ρ s x
    closeReq ρ pf.1 name opt x pf.2

/-! ## read side, as far as it shares the chain: `find_rio_in` + one `hawk_rtx_readio`
under the harness contract "every READ reply is one complete record", so the input buffer is
empty at every getline boundary and the record buffer is empty whenever the stream is at EOF. -/

/-- the `while (1)` loop of `hawk_rtx_readio` with an empty input buffer and an empty record buffer.
`eof` mirrors `p->in.eof`.  `con` = the input is the console (`in_type == HAWK_IN_CONSOLE`), the only
input made of several streams: at EOF `switch_to_next_in_stream` → `hawk_rtx_nextio_read` asks the handler
for the NEXT stream (≥1: `in.eof` cleared, go on reading; 0: `in.eos` set, return 0; <0: return -1); other
inputs return 0 at EOF.  (`hawk_rtx_nextio_read` finds the same node again and its own `in.eos` test cannot
fire: `in.eos` is tested on entry of `hawk_rtx_readio` and only set right before returning.)

A handler answering READ→0, NEXT→1, READ→0, NEXT→1, … keeps the C in this loop forever.  The model makes
that explicit: `fuel` bounds the number of times the loop body is entered and running out of fuel yields
the result `-2` = "has not returned" (no real return value of the C is -2). -/
def readLoop (ρ : Nat → Reply) (con : Bool) (sid : Nat) (key : Key) : Nat → Bool → St → St × Int
  | 0, _, s => (s, -2)
  | fuel + 1, true, s =>
    if !con then (s, 0)
    else match ρ s.calls with
      | .fail => (s.emit (.nx sid key .fail), -1)
      | .eof =>
        let s1 := s.emit (.nx sid key .eof)
        ({ s1 with chain := modifyFirst (hasKey key) (fun y => { y with inEos := true }) s1.chain }, 0)
      | .accept j =>
        let s1 := s.emit (.nx sid key (.accept j))
        readLoop ρ con sid key fuel false
          { s1 with chain := modifyFirst (hasKey key) (fun y => { y with inEof := false }) s1.chain }
  | fuel + 1, false, s =>
    match ρ s.calls with
    | .fail => (s.emit (.rd sid key .fail), -1)
    | .eof =>
      let s1 := s.emit (.rd sid key .eof)
      readLoop ρ con sid key fuel true
        { s1 with chain := modifyFirst (hasKey key) (fun y => { y with inEof := true }) s1.chain }
    | .accept j => (s.emit (.rd sid key (.accept j)), 1)

/-- the body of `hawk_rtx_readio` once the node is known -/
def readRec (ρ : Nat → Reply) (fuel : Nat) (con : Bool) (s1 : St) (x : Strm) : St × Int :=
  if x.inEos then (s1, 0)
  else readLoop ρ con x.sid x.key fuel x.inEof s1

def InKind.isConsole : InKind → Bool
  | .console => true | _ => false

/-- `find_rio_in` (open on miss, new node at the head of the chain) followed by one read -/
def readio (ρ : Nat → Reply) (fuel : Nat) (s : St) (ik : InKind) (name : String) : St × Int :=
  let k := ik.key name
  match findKey s.chain k with
  | some x => readRec ρ fuel ik.isConsole s x
  | none =>
    match ρ s.calls with
    | .fail => (s.emit (.opn 0 k ik.mode false), -1)
    | _ =>
      let x : Strm := { key := k, mode := ik.mode, sid := s.nopen + 1 }
      readRec ρ fuel ik.isConsole { s.emit (.opn x.sid k ik.mode true) with chain := x :: s.chain, nopen := s.nopen + 1 } x

/-! ## `hawk_rtx_flushallios` (return values ignored) and `hawk_rtx_clearallios` -/

def flushallLoop (ρ : Nat → Reply) : List Strm → St → St
  | [], s => s
  | x :: xs, s => flushallLoop ρ xs (s.emit (.fl x.sid x.key (!(ρ s.calls).isFail)))

def flushall (ρ : Nat → Reply) (s : St) : St := flushallLoop ρ s.chain s

/-- the return value of the repaired `hawk_rtx_flushallios`: a stream that has a write side could not be
flushed.  `c` is the call number of the FLUSH sent to the head of the list (one call per node, in chain order) -/
def flushallFails (ρ : Nat → Reply) : List Strm → Nat → Bool
  | [], _ => false
  | x :: xs, c => ((ρ c).isFail && x.hasWriteSide) || flushallFails ρ xs (c + 1)

def clearLoop (ρ : Nat → Reply) : List Strm → St → St
  | [], s => { s with chain := [] }
  | x :: xs, s => clearLoop ρ xs { s.emit (.cl x.sid x.key .full (!(ρ s.calls).isFail) true) with chain := xs }

def clearall (ρ : Nat → Reply) (s : St) : St := clearLoop ρ s.chain s

/-! ## the API level as one step function -/

inductive Op
  | write (ok : OutKind) (name : String) (bytes : Bool) (data : List Char)
  | flush (ok : OutKind) (name : Option String)
  | next (ok : OutKind) (name : String)
  | close (name : String) (opt : Option Bool)
  /-- `fuel`: see `readLoop` -/
  | read (ik : InKind) (name : String) (fuel : Nat)
  | flushall
  deriving Repr

def FlushRes.code : FlushRes → Int
  | .ok => 0 | .nmnf => -1 | .herr => -1

def step (ρ : Nat → Reply) (s : St) : Op → St × Int
  | .write ok name b d => writeio ρ s ok name b d
  | .flush ok name => let r := flushio ρ s ok name; (r.1, r.2.code)
  | .next ok name => nextioWrite ρ s ok name
  | .close name opt => closeio ρ s name opt
  | .read ik name fuel => readio ρ fuel s ik name
  | .flushall => (flushall ρ s, if flushallFails ρ s.chain s.calls then -1 else 0)

/-- run a history; the results come out in program order -/
def exec (ρ : Nat → Reply) : St → List Op → St × List Int
  | s, [] => (s, [])
  | s, o :: os =>
    let r := step ρ s o
    let r' := exec ρ r.1 os
    (r'.1, r.2 :: r'.2)

/-! ## statements: `run_print`, `run_printf`, `fnc_close`, `fnc_fflush`, getline, `nextofile` -/

structure Cfg where
  /-- `HAWK_TOLERANT`: print/printf are expressions returning 0 / -1 instead of raising a run error -/
  tolerant : Bool := false
  ofs : List Char := [' ']
  ors : List Char := ['\n']
  /-- bound on the console read loop of one getline, see `readLoop` -/
  readFuel : Nat := 64
  deriving Repr

inductive Stmt
  /-- `items = none`: `print` without arguments (writes `$0`, empty in BEGIN, then ORS) -/
  | print (ok : OutKind) (name : String) (bytes : Bool) (items : Option (List (List Char)))
  /-- `printf` with a %-free format -/
  | printf (ok : OutKind) (name : String) (bytes : Bool) (data : List Char)
  | close (name : String) (opt : Option Bool)
  | fflush0
  /-- `fflush(name)`; `none` is `fflush("")` -/
  | fflush (name : Option String)
  | getline (ik : InKind) (name : String)
  | nextofile
  deriving Repr

/-- result of a statement: a value, nothing, a run error that aborts the program, or — only when
`Cfg.readFuel` runs out in a console getline — "the C is still inside its read loop" -/
inductive SRes | val (v : Int) | unit | runerr | hang
  deriving DecidableEq, Repr

/-- the sequence of `hawk_rtx_writeio*` calls `run_print` makes: (bytes?, data) -/
def printPieces (cfg : Cfg) (bytes : Bool) : Option (List (List Char)) → List (Bool × List Char)
  | none => [(false, []), (false, cfg.ors)]
  | some items =>
    let rec go : List (List Char) → Bool → List (Bool × List Char)
      | [], _ => []
      | i :: is, first => (if first then [] else [(false, cfg.ofs)]) ++ (bytes, i) :: go is false
    go items true ++ [(false, cfg.ors)]

/-- `run_print`'s chain of writes.  Non-tolerant: the first -1 aborts (`goto oops`).
Tolerant: `xret = PRINT_IOERR` and the remaining pieces are still written.
Result: `none` = aborted, `some failed`. -/
def writePieces (ρ : Nat → Reply) (tol : Bool) (ok : OutKind) (name : String) :
    List (Bool × List Char) → St → Bool → St × Option Bool
  | [], s, failed => (s, some failed)
  | (b, d) :: ps, s, failed =>
    let r := writeio ρ s ok name b d
    if r.2 ≤ -1 then
      if tol then writePieces ρ tol ok name ps r.1 true else (r.1, none)
    else writePieces ρ tol ok name ps r.1 failed

/-- `flush_io` of fnc.c (with the sticky -1 repair): fold over FILE, APFILE, PIPE, RWPIPE -/
def fflushFold (ρ : Nat → Reply) (name : Option String) : List OutKind → St → Int → St × Int
  | [], s, n => (s, n)
  | k :: ks, s, n =>
    let r := flushio ρ s k name
    let n' : Int := match r.2 with
      | .herr => -1
      | .nmnf => if n ≠ 0 ∧ n ≠ -1 then -2 else n
      | .ok => if n ≠ -1 then 0 else n
    fflushFold ρ name ks r.1 n'

def stmt (ρ : Nat → Reply) (cfg : Cfg) (s : St) : Stmt → St × SRes
  | .print ok name bytes items =>
    match writePieces ρ cfg.tolerant ok name (printPieces cfg bytes items) s false with
    | (s1, none) => (s1, .runerr)
    | (s1, some failed) => (s1, if cfg.tolerant then .val (if failed then -1 else 0) else .unit)
  | .printf ok name bytes data =>
    let r := writeio ρ s ok name bytes data
    if r.2 ≤ -1 ∧ !cfg.tolerant then (r.1, .runerr)
    else
      let f := flushio ρ r.1 ok (some name)
      if f.2 ≠ .ok ∧ !cfg.tolerant then (f.1, .runerr)
      else (f.1, if cfg.tolerant then .val (if r.2 ≤ -1 ∨ f.2 ≠ .ok then -1 else 0) else .unit)
  | .close name opt => let r := closeio ρ s name opt; (r.1, .val r.2)
  | .fflush0 => let r := flushio ρ s .console (some ""); (r.1, .val r.2.code)
  | .fflush name =>
    let r := fflushFold ρ name [.file, .apfile, .pipe, .rwpipe] s 1
    (r.1, .val (if r.2 ≠ 0 then -1 else 0))
  | .getline ik name =>
    let r := readio ρ cfg.readFuel s ik name
    (r.1, if r.2 = -2 then .hang else .val (if r.2 ≤ -1 then -1 else r.2))
  | .nextofile => let r := nextioWrite ρ s .console ""; (r.1, if r.2 ≤ -1 then .runerr else .unit)

/-- run the statements of a BEGIN block until a run error; `true` = the block did not run to its end
(a run error, or a getline that ran out of `readFuel`) -/
def runStmts (ρ : Nat → Reply) (cfg : Cfg) : List Stmt → St → St × Bool
  | [], s => (s, false)
  | st :: rest, s =>
    let r := stmt ρ cfg s st
    if r.2 = .runerr ∨ r.2 = .hang then (r.1, true) else runStmts ρ cfg rest r.1

/-- `hawk_rtx_loop` (BEGIN block, then flush everything).  The flag is `true` when the block did not run to its
end or — repair `rio-final-flush-failure-fails-the-run` — the final flush of a stream with a write side failed -/
def loop (ρ : Nat → Reply) (cfg : Cfg) (prog : List Stmt) : St × Bool :=
  let r := runStmts ρ cfg prog St.init
  (flushall ρ r.1, r.2 || flushallFails ρ r.1.chain r.1.calls)

/-- `hawk_rtx_loop` followed by `hawk_rtx_close` -/
def runProgram (ρ : Nat → Reply) (cfg : Cfg) (prog : List Stmt) : St × Bool :=
  let r := loop ρ cfg prog
  (clearall ρ r.1, r.2)

end Hawk.Rio
