/-
  Model of the input-record machinery of hawk: lib/rec.c (hawk_rtx_setrec, split_record,
  recomp_record_fields, hawk_rtx_truncrec, hawk_rtx_clrrec), the NF case of `set_global`
  in lib/run.c, the three tokenisers of lib/misc-imp.h that split_record calls, and the
  positional-reference readers of lib/val.c (HAWK_VAL_REF_POS).

  State (`Rec`) mirrors `rtx->inrec` field by field:
    line   = inrec.line                 text of the record buffer
    linew  = inrec.linew                the copy that the '?'-quoted splitter rewrites in place
    flds   = inrec.flds[0 .. nflds)     each with `text` (string form of flds[i].val) AND the
                                        span `(off,len)` = (flds[i].ptr - buffer start, flds[i].len)
    inw                                 which buffer the spans point into (linew after a
                                        '?'-mode split, line otherwise)
    nf     = the global variable NF     (kept separately from flds.length, as in the C)
    d0     = inrec.d0                   value of $0 (nil reads as "")
  The spans are state on purpose: hawk_rtx_truncrec rebuilds the record from the spans and
  positional references read through them, not through the values.

  The model follows the code with patches/rec-field-spans.diff applied (both rebuild
  routines recompute every span from the final buffer: `relayout`).  On the unpatched code
  spans of untouched fields stay where they were and, after truncrec, point into a freed
  buffer; the check's property oracle reports that (span outside the buffers / by-reference
  read differs from by-value read).  Three further repairs are assumed:
  patches/ofmt-assign-clobbers-ofs.diff (`OFMT = x` must not replace the cached OFS: `Op.ofmt`
  is the identity), patches/fldq-wide-char.diff (the '?'-quoted splitter compares and copies
  whole characters: `tokQLoop` works on `Char`), patches/truncrec-null-line.diff (after `NF = 0`
  on an empty record sub/gsub on `$0` must still work: a statement never fails in the model
  except for a negative NF or field index).  Later repairs the model also follows:
  patches/nf-always-integer.diff (whatever is stored into NF - an unset variable, "3x", 2.7,
  the line read by `getline NF` - NF holds the integer the record was adjusted to: `Op.setnf n`),
  patches/recomp-field-table-size-wrap.diff (`maxFlds`, `growFails`: ENOMEM and a cleared record),
  patches/byref-param-unassigned-no-copyback.diff (passing `$j`/NF to an `&` parameter that the
  function only reads is a read: `Op.read`), patches/nf-assign-stale-old-value.diff (value
  lifetime only, invisible in the model).

  Zero-length tokens: in the non-regex modes the C stores a NULL pointer for an empty token.
  A zero-length span's pointer is never dereferenced (every reader copies `len` characters),
  so the model keeps the natural position and the harness prints `-` for the offset of every
  zero-length span on both sides.

  Not modelled: allocation failure (C10), number detection (`@pragma numstrdetect on`,
  outside the claim), non-ASCII space characters and non-ASCII case folding under IGNORECASE,
  a floating-point FS across a change of CONVFMT (the C picks the mode from the current string
  form and the regular expression from the one at assignment).
-/
namespace Hawk.Rec

abbrev Str := List Char

/-- hawk_is_ooch_space restricted to ASCII -/
def isSpace (c : Char) : Bool :=
  c == ' ' || c == '\t' || c == '\n' || c == '\x0b' || c == '\x0c' || c == '\r'

structure Fld where
  text : Str
  off : Nat
  len : Nat
deriving Repr, DecidableEq

structure Rec where
  line : Str := []
  linew : Str := []
  inw : Bool := false
  flds : List Fld := []
  nf : Int := 0
  d0 : Str := []
deriving Repr, DecidableEq

/-- the buffer the spans point into -/
def Rec.buf (r : Rec) : Str := if r.inw then r.linew else r.line

/-- `len` characters of `b` starting at `off` -/
def slice (b : Str) (off len : Nat) : Str := (b.drop off).take len

def spanText (b : Str) (f : Fld) : Str := slice b f.off f.len

/-- globals that the record code reads.
    * `fs`  = the value of FS; `none` when it holds nil (`FS = x` with x unset), for which
      split_record takes a blank.  Any other value (string, number, byte string, character)
      enters through its string form.
    * `ofs` = `rtx->gbl.ofs`, the text made of OFS when it was assigned (nil gives "").  It is
      what recomp_record_fields, print and - with patches/truncrec-uses-cached-ofs.diff -
      hawk_rtx_truncrec join with; the value of the OFS variable itself is not read again.
    * `strip` = STRIPRECSPC, `ic` = IGNORECASE > 0. -/
structure Env where
  fs : Option Str := some [' ']
  ofs : Str := [' ']
  strip : Bool := false
  ic : Bool := false
deriving Repr, DecidableEq

/-- "get FS" at the top of split_record -/
def Env.fsText (e : Env) : Str := e.fs.getD [' ']

inductive Err where
  | einval   -- negative value into NF
  | eposidx  -- negative positional index
  | enomem   -- the field table cannot be grown to the requested size
deriving Repr, DecidableEq

/-- regex oracle: `m ic fs line from` = the match of the regular expression compiled from the
    FS text `fs` (`rtx->gbl.fs[ic]`: the case-insensitive one when IGNORECASE is on) in `line`
    when the search starts at `from` (absolute start, length).  The C calls
    hawk_rtx_matchrexwithoocs with the whole line as context and the suffix as subject. -/
abbrev Matcher := Bool → Str → Str → Nat → Option (Nat × Nat)

/-! ## tokenisers (lib/misc-imp.h).  All positions are absolute offsets into the buffer. -/

structure Tok where
  off : Nat
  len : Nat
  next : Option Nat   -- `none` = the C function returned HAWK_NULL
deriving Repr, DecidableEq

/-- tokenize_xchars, __DELIM_SPACES (FS is a single blank): skip spaces, take non-spaces,
    skip spaces; NULL when the end is reached -/
def tokBlank (line : Str) (p : Nat) : Tok :=
  let s := line.drop p
  let s1 := s.dropWhile isSpace
  let w := s1.takeWhile (fun c => !isSpace c)
  let s3 := (s1.dropWhile (fun c => !isSpace c)).dropWhile isSpace
  { off := p + (s.length - s1.length), len := w.length,
    next := if s3.isEmpty then none else some (p + (s.length - s3.length)) }

/-- tokenize_xchars, __DELIM_NOSPACES with a one-character delimiter (also a tab or newline:
    "delim_len == 1 && delim[0] != ' '"); `q` = "is not the delimiter" -/
def tokCharP (q : Char → Bool) (line : Str) (p : Nat) : Tok :=
  let s := line.drop p
  let w := s.takeWhile q
  { off := p, len := w.length,
    next := if w.length ≥ s.length then none else some (p + w.length + 1) }

/-- ... IGNORECASE off: `c == *d` -/
def tokChar (c : Char) : Str → Nat → Tok := tokCharP (fun x => x != c)

/-- ... IGNORECASE on: `to_xch_upper(*p) == to_xch_upper(*d)` (ASCII) -/
def tokCharI (c : Char) : Str → Nat → Tok := tokCharP (fun x => x.toUpper != c.toUpper)

/-- tokenize_xchars, __DELIM_EMPTY (FS is the empty string): every character is a token -/
def tokEach (line : Str) (p : Nat) : Tok :=
  match line.drop p with
  | [] => { off := p, len := 0, next := none }
  | _ :: r => { off := p, len := 1, next := if r.isEmpty then none else some (p + 1) }

def allSpace (line : Str) (ms ml : Nat) : Bool := (slice line ms ml).all isSpace

inductive RexScan where
  | whole (real : Nat)            -- no usable match: the rest `[real, end)` is the token
  | found (real ms ml : Nat)      -- token `[real, ms)`, separator `[ms, ms+ml)`
deriving Repr, DecidableEq

/-- the `while (cursub.len > 0)` loop of tokenize_xchars_by_rex.  `sub` = substr (start of
    this call), `cur` = cursub.ptr, `real` = realsub.ptr; cursub and realsub always extend to
    the end of the line. -/
def rexScan (mt : Str → Nat → Option (Nat × Nat)) (strip : Bool) (line : Str) (sub : Nat)
    (cur real : Nat) : RexScan :=
  if cur < line.length then
    match mt line cur with
    | none => .whole real
    | some (ms, ml) =>
      if ml = 0 then rexScan mt strip line sub (cur + 1) real     -- empty match: step one char
      else if strip then
        if ms = sub then
          if allSpace line ms ml then
            -- an all-space match at the very beginning is skipped
            rexScan mt strip line sub (cur + ml) (sub + ml)
          else .found real ms ml                                   -- goto exit_loop
        else .found real ms ml                                     -- break
      else .found real ms ml                                       -- break
  else .whole real
termination_by line.length - cur
decreasing_by all_goals omega

/-- tokenize_xchars_by_rex -/
def tokRex (mt : Str → Nat → Option (Nat × Nat)) (strip : Bool) (line : Str) (p : Nat) : Tok :=
  match rexScan mt strip line p p p with
  | .whole real => { off := real, len := line.length - real, next := none }
  | .found real ms ml =>
    if !(allSpace line ms ml) then { off := real, len := ms - real, next := some (ms + ml) }
    else if strip then
      { off := real, len := ms - real, next := if ms + ml ≥ line.length then none else some (ms + ml) }
    else
      { off := real, len := ms - real, next := if ms + ml > line.length then none else some (ms + ml) }

/-- state of split_xchars_to_fields: the buffer being rewritten, `tp`, `xp`, the two flags -/
structure QSt where
  buf : Str
  tp : Nat
  xp : Nat
  esc : Bool
  quo : Bool

/-- `while (p < end && *p == c) p++` -/
def skipEq (buf : Str) (c : Char) (p : Nat) : Nat :=
  p + ((buf.drop p).takeWhile (fun x => x == c)).length

/-- the main loop of split_xchars_to_fields, branch by branch (the order of the tests is the
    C's: escaped, escape char, inside quotes, separator, left quote, ordinary) -/
def tokQLoop (fs ec lq rq : Char) (ts : Nat) (st : QSt) (p : Nat) : Str × Tok :=
  if h : p < st.buf.length then
    let c := st.buf[p]
    if st.esc then
      tokQLoop fs ec lq rq ts
        { st with buf := st.buf.set st.tp c, tp := st.tp + 1, xp := st.tp + 1, esc := false } (p + 1)
    else if c == ec then
      tokQLoop fs ec lq rq ts { st with esc := true } (p + 1)
    else if st.quo then
      if c == rq then tokQLoop fs ec lq rq ts { st with quo := false } (p + 1)
      else tokQLoop fs ec lq rq ts
        { st with buf := st.buf.set st.tp c, tp := st.tp + 1, xp := st.tp + 1 } (p + 1)
    else if c == fs then
      if isSpace fs then
        let p2 := skipEq st.buf fs (p + 1)
        (st.buf, { off := ts, len := st.xp - ts,
                   next := if p2 ≥ st.buf.length then none else some p2 })
      else (st.buf, { off := ts, len := st.xp - ts, next := some (p + 1) })
    else if c == lq then
      tokQLoop fs ec lq rq ts { st with quo := true } (p + 1)
    else if isSpace c then
      -- copied, but a trailing space does not extend the effective end `xp`
      tokQLoop fs ec lq rq ts { st with buf := st.buf.set st.tp c, tp := st.tp + 1 } (p + 1)
    else
      tokQLoop fs ec lq rq ts
        { st with buf := st.buf.set st.tp c, tp := st.tp + 1, xp := st.tp + 1 } (p + 1)
  else if st.esc then
    -- still escaped at the end: the escaper itself is appended
    (st.buf.set st.xp ec, { off := ts, len := st.xp + 1 - ts, next := none })
  else (st.buf, { off := ts, len := st.xp - ts, next := none })
termination_by st.buf.length - p
decreasing_by all_goals ((try simp only [List.length_set]); omega)

/-- split_xchars_to_fields (FS = "?" fs ec lq rq) -/
def tokQ (fs ec lq rq : Char) (buf : Str) (p : Nat) : Str × Tok :=
  let p0 := p + ((buf.drop p).takeWhile isSpace).length
  tokQLoop fs ec lq rq p0 { buf := buf, tp := p0, xp := p0, esc := false, quo := false } p0

/-! ## split_record -/

/-- one tokeniser call: buffer and position in, (possibly rewritten) buffer and token out -/
abbrev Step := Str → Nat → Str × Tok

/-- a tokeniser that only reads the buffer -/
def roStep (tok : Str → Nat → Tok) : Step := fun b p => (b, tok b p)

/-- the `while (p)` loop of split_record.  `first` = (inrec.nflds == 0).  The field value is
    created from the token at once (a copy).  The test `p < p' ∧ p' ≤ n` always holds for the
    tokenisers above (`*_ok` lemmas); it is there so that the recursion is accepted for an
    arbitrary `step`. -/
def splitLoop (step : Step) (n : Nat) (first : Bool) (buf : Str) (p : Nat) : Str × List Fld :=
  let r := step buf p
  if first && r.2.next.isNone && r.2.len == 0 then (r.1, [])   -- "there are no fields"
  else
    let f : Fld := { text := slice r.1 r.2.off r.2.len, off := r.2.off, len := r.2.len }
    match r.2.next with
    | none => (r.1, [f])
    | some p' =>
      if p < p' ∧ p' ≤ n then
        let rest := splitLoop step n false r.1 p'
        (rest.1, f :: rest.2)
      else (r.1, [f])
termination_by n - p
decreasing_by omega

inductive FsMode where
  | each                              -- FS = ""
  | blank                             -- FS = " "
  | char (c : Char)                   -- any other single character
  | quoted (fs ec lq rq : Char)       -- 5 characters starting with '?'
  | regex                             -- everything else
deriving Repr, DecidableEq

/-- the dispatch at the top of split_record (`how`) plus tokenize_xchars' delimiter mode -/
def fsMode (fs : Str) : FsMode :=
  match fs with
  | [] => .each
  | [c] => if c == ' ' then .blank else .char c
  | ['?', a, b, c, d] => .quoted a b c d
  | _ => .regex

/-- the read-only tokeniser for a non-quoted mode -/
def roTok (m : Matcher) (e : Env) : Str → Nat → Tok :=
  match fsMode e.fsText with
  | .each => tokEach
  | .blank => tokBlank
  | .char c => if e.ic then tokCharI c else tokChar c
  | .regex => tokRex (m e.ic e.fsText) e.strip
  | .quoted .. => tokBlank  -- not used

/-- split_record; expects `flds = []` (hawk_rtx_clrrec has run).  When there is no field at
    all the C returns before it stores NF. -/
def splitRecord (m : Matcher) (e : Env) (r : Rec) : Rec :=
  let n := r.line.length
  match fsMode e.fsText with
  | .quoted a b c d =>
    let res := splitLoop (tokQ a b c d) n true r.line 0
    { r with linew := res.1, inw := true, flds := res.2,
             nf := if res.2.isEmpty then r.nf else res.2.length }
  | _ =>
    let res := splitLoop (roStep (roTok m e)) n true r.line 0
    { r with inw := false, flds := res.2,
             nf := if res.2.isEmpty then r.nf else res.2.length }

/-- hawk_rtx_clrrec (the record text is replaced by the caller in both of its variants) -/
def clrrec (r : Rec) : Rec :=
  { r with d0 := [], flds := [], nf := if r.flds.length > 0 then 0 else r.nf, line := [] }

/-- hawk_rtx_setrec with idx = 0: `$0 = s`, sub/gsub on `$0`, plain getline, the main loop's
    record read -/
def setrec0 (m : Matcher) (e : Env) (r : Rec) (s : Str) : Rec :=
  let r2 := splitRecord m e { clrrec r with line := s }
  { r2 with d0 := r2.line }

/-- the texts with the separator between each two (`List.intercalate`, see `joinSep_eq_intercalate`):
    `for (i..) { if (i > 0) ncat(ofs); ncat(text i); }` -/
def joinSep (sep : Str) : List Str → Str
  | [] => []
  | [t] => t
  | t :: u :: ts => t ++ sep ++ joinSep sep (u :: ts)

/-- the texts concatenated by recomp_record_fields for 0-based field `lv`:
    `i == lv` ↦ the new string, `i >= nflds` ↦ "", otherwise the value of field i -/
def recompTexts (flds : List Fld) (lv : Nat) (str : Str) : List Str :=
  ((flds.map Fld.text) ++ List.replicate (lv + 1 - flds.length) []).set lv str

/-- the pointer-recomputing loop of the repaired code:
    `p = start; for i: if (i > 0) p += ofs_len; flds[i].ptr = p; p += flds[i].len;` -/
def relayout (ol : Nat) : Nat → List Fld → List Fld
  | _, [] => []
  | o, f :: fs => { f with off := o } :: relayout ol (o + f.len + ol) fs

/-- hawk_rtx_setrec with idx ≥ 1 (recomp_record_fields, then `$0` is recomposed) -/
def setfld (e : Env) (r : Rec) (idx : Nat) (str : Str) : Rec :=
  let lv := idx - 1
  let texts := recompTexts r.flds lv str
  let line := joinSep e.ofs texts
  let fl := relayout e.ofs.length 0 (texts.map fun t => { text := t, off := 0, len := t.length })
  { r with line := line, inw := false, flds := fl, nf := (texts.length : Int), d0 := line }

/-- hawk_rtx_truncrec for `n ≤ nflds`: the new text is built from the SPANS, joined with the
    same cached OFS text as in `setfld` -/
def truncrec (e : Env) (r : Rec) (n : Nat) : Rec :=
  let keep := r.flds.take n
  let tmp := joinSep e.ofs (keep.map (spanText r.buf))
  { r with d0 := tmp, line := tmp, inw := false, flds := relayout e.ofs.length 0 keep }

/-- `NF = n` (set_global, case HAWK_GBL_NF, reached by an assignment) -/
def setNF (e : Env) (r : Rec) (n : Int) : Except Err Rec :=
  if n < 0 then .error .einval
  else
    let k := n.toNat
    if k ≤ r.flds.length then .ok { truncrec e r k with nf := n }
    else .ok { setfld e r k [] with nf := n }

/-- the largest field table: `HAWK_SIZEOF(*inrec.flds) * max` (24-byte entries) must not wrap
    around a 64-bit size (recomp_record_fields refuses it with ENOMEM; see
    patches/recomp-field-table-size-wrap.diff).  Allocation failures below this bound are not
    modelled (C10). -/
def maxFlds : Nat := (2 ^ 64 - 1) / 24

/-- recomp_record_fields has to grow the field table to `k` entries and cannot: hawk_rtx_setrec
    then fails and its error path clears the record (hawk_rtx_clrrec) -/
def growFails (r : Rec) (k : Nat) : Bool := decide (r.flds.length < k ∧ maxFlds < k)

/-- `$idx = s` (do_assignment_positional) -/
def assignPos (m : Matcher) (e : Env) (r : Rec) (idx : Int) (s : Str) : Except Err Rec :=
  if idx < 0 then .error .eposidx
  else if idx = 0 then .ok (setrec0 m e r s)
  else .ok (setfld e r idx.toNat s)

/-! ## readers -/

/-- `$i` by value (eval_pos / POS_VAL): d0, flds[i-1].val, or "" -/
def readVal (r : Rec) (i : Nat) : Str :=
  if i = 0 then r.d0 else
  match r.flds[i - 1]? with
  | some f => f.text
  | none => []

/-- `$i` through a positional reference (val_ref_to_str): the line, the SPAN, or "" -/
def readRef (r : Rec) (i : Nat) : Str :=
  if i = 0 then r.line else
  match r.flds[i - 1]? with
  | some f => spanText r.buf f
  | none => []

/-- truth value of `$i` through a positional reference (val_ref_to_bool) -/
def readRefBool (r : Rec) (i : Nat) : Bool :=
  if i = 0 then r.line.length > 0 else
  match r.flds[i - 1]? with
  | some f => f.len > 0
  | none => false

def readNF (r : Rec) : Int := r.nf

/-! ## the whole state and one step of a history -/

structure St where
  r : Rec := {}
  e : Env := {}
deriving Repr, DecidableEq

inductive Op where
  | set0 (s : Str)                 -- $0 = s
  | setf (i : Nat) (s : Str)       -- $i = s, i ≥ 1
  | setnf (n : Int)                -- NF = n
  | rewrite (s : Str)              -- sub/gsub on $0 that substituted something; s = result
  | getline (s : Str)              -- plain getline / main-loop read that returned record s
  | ofs (x : Str)                  -- OFS = v; x = the string form of v (a string, a number, a byte string, "" for nil)
  | fs (y : Option Str)            -- FS = v; the string form of v, `none` for nil
  | strip (b : Bool)               -- STRIPRECSPC = b
  | ic (b : Bool)                  -- IGNORECASE = b
  | ofmt (x : Str)                 -- OFMT = x (must not touch the record or OFS)
  | read (j : Nat)                 -- evaluate $j (by value and by reference)
  | readnf                         -- evaluate NF
deriving Repr, DecidableEq

/-- one statement.  A negative NF is rejected and leaves the state as it was; a field number or
    NF beyond `maxFlds` fails with ENOMEM and leaves the record cleared.  `.setnf n` stands for
    every way of storing into NF (`NF = v` with v an integer, a float, a string or an unset
    variable, `++NF`, `NF += k`, `getline NF`): set_global converts the value with
    hawk_rtx_valtoint and, with patches/nf-always-integer.diff, NF holds that integer `n`. -/
def step (m : Matcher) (st : St) : Op → St
  | .set0 s => { st with r := setrec0 m st.e st.r s }
  | .setf i s =>
    if i = 0 then { st with r := setrec0 m st.e st.r s }
    else if growFails st.r i then { st with r := clrrec st.r }
    else { st with r := setfld st.e st.r i s }
  | .setnf n =>
    if 0 ≤ n ∧ growFails st.r n.toNat then { st with r := clrrec st.r }
    else match setNF st.e st.r n with
    | .ok r => { st with r := r }
    | .error _ => st
  | .rewrite s => { st with r := setrec0 m st.e st.r s }
  | .getline s => { st with r := setrec0 m st.e st.r s }
  | .ofs x => { st with e := { st.e with ofs := x } }
  | .fs y => { st with e := { st.e with fs := y } }
  | .strip b => { st with e := { st.e with strip := b } }
  | .ic b => { st with e := { st.e with ic := b } }
  | .ofmt _ => st
  | .read _ => st     -- also: passing `$j` or NF to an `&` parameter the function does not assign
  | .readnf => st

def run (m : Matcher) (ops : List Op) : St := ops.foldl (step m) {}

end Hawk.Rec
