import HawkModel.RbtLemmas
/-!
# C16 (rbt): the stateful iterator enumerates the in-order list; height bound helpers
-/
namespace Hawk.Rbt
open Color T

variable {V : Type}

/-! ## iterator -/

/-- states of the iterator that `getFirst` / `getNext` produce: `itr->pair` is a real pair and
    `_state` is 1 or 2 while a pair is held -/
def ItrOk (it : Itr V) : Prop := ∀ t p, it.pair = some (t, p) → t ≠ nil ∧ it.state ≠ 0

theorem descend_focus (dir : Bool) (t : T V) (p : Path V) (q : Pos V) (h : descend dir t p = some q) :
    q.1 ≠ nil := by
  induction t generalizing p with
  | nil => simp [descend] at h
  | node c l k v r ihl ihr =>
    rw [descend] at h
    split at h
    · split at h
      · simp at h; subst h; simp
      · exact ihr _ h
    · split at h
      · simp at h; subst h; simp
      · exact ihl _ h

theorem ascend_focus (dir : Bool) (t : T V) (p : Path V) (q : Pos V) (h : ascend dir t p = some q) :
    q.1 ≠ nil := by
  induction p generalizing t with
  | nil => simp [ascend] at h
  | cons f p ih =>
    rw [ascend] at h
    split at h
    · simp at h; subst h; simp only [Frame.plug]; split <;> simp
    · exact ih _ h

theorem resume_focus (dir : Bool) (t : T V) (p : Path V) (q : Pos V) (st : Nat)
    (h : resume dir t p = (some q, st)) : q.1 ≠ nil ∧ st ≠ 0 := by
  cases t with
  | nil => simp [resume] at h
  | node c l k v r =>
    rw [resume] at h
    split at h
    · simp only [Prod.mk.injEq] at h
      exact ⟨ascend_focus _ _ _ _ h.1, by omega⟩
    · simp only [Prod.mk.injEq] at h
      exact ⟨descend_focus _ _ _ _ h.1, by omega⟩

theorem getFirst_ok (t : T V) (dir : Bool) : ItrOk (getFirst t dir) := by
  unfold getFirst
  split
  · rename_i q hq
    intro t' p' h
    simp only [Option.some.injEq] at h
    subst h
    exact ⟨descend_focus _ _ _ _ hq, by simp⟩
  · intro t' p' h; simp at h

theorem getNext_ok (it : Itr V) : ItrOk (getNext it) := by
  unfold getNext
  split
  · intro t' p' h; simp at h
  · split
    · intro t' p' h; simp at h
    · split
      · rename_i q st hq
        intro t' p' h
        simp only [Option.some.injEq] at h
        subst h
        exact resume_focus _ _ _ _ _ hq
      · intro t' p' h; simp at h

theorem getFirst_dir (t : T V) (dir : Bool) : (getFirst t dir).dir = dir := by
  unfold getFirst; split <;> rfl

theorem getFirst_posAll (t : T V) (dir : Bool) :
    posAll dir (getFirst t dir).pair = listDir dir t := by
  cases t with
  | nil => cases dir <;> simp [getFirst, descend, posAll, listDir]
  | node c l k v r =>
    have h := descend_all dir (node c l k v r) [] (by simp)
    simp only [pathRest, List.append_nil] at h
    rw [← h]
    unfold getFirst
    split
    · rename_i q hq; rw [hq]
    · rename_i hq; rw [hq]

theorem cur_eq_head (it : Itr V) (h : ItrOk it) : it.cur = (posAll it.dir it.pair).head? := by
  obtain ⟨dir, pair, state⟩ := it
  cases pair with
  | none => simp [Itr.cur, posAll]
  | some q =>
    obtain ⟨t, p⟩ := q
    have := (h t p rfl).1
    cases t with
    | nil => exact absurd rfl this
    | node c l k v r => simp [Itr.cur, posAll, kvOf]

theorem getNext_posAll (it : Itr V) (h : ItrOk it) :
    posAll it.dir (getNext it).pair = (posAll it.dir it.pair).tail := by
  obtain ⟨dir, pair, state⟩ := it
  cases pair with
  | none => unfold getNext; split <;> simp [posAll]
  | some q =>
    obtain ⟨t, p⟩ := q
    have hs := (h t p rfl).2
    have ht := (h t p rfl).1
    simp only at hs
    have hr := resume_all dir t p
    cases t with
    | nil => exact absurd rfl ht
    | node c l k v r =>
      unfold getNext
      simp only [hs, if_false]
      split
      · rename_i q st hq
        simp only [hq] at hr
        show posAll dir (some q) = _
        rw [hr]; simp [posAll, kvOf]
      · rename_i hq
        simp only [hq] at hr
        show posAll dir none = _
        rw [hr]; simp [posAll, kvOf]

/-- `i` calls of `hawk_rbt_getnextpair` -/
def nextN : Nat → Itr V → Itr V
  | 0, it => it
  | i + 1, it => nextN i (getNext it)

/-- the `i`-th call after `getfirstpair` returns the `i`-th pair of the walk, `NULL` past the end -/
theorem nextN_cur (it : Itr V) (h : ItrOk it) (i : Nat) :
    (nextN i it).cur = (posAll it.dir it.pair)[i]? := by
  induction i generalizing it with
  | zero => simp [nextN, cur_eq_head it h, List.head?_eq_getElem?]
  | succ i ih =>
    simp only [nextN]
    rw [ih _ (getNext_ok it), getNext_dir, getNext_posAll it h]
    simp

theorem walkItr_eq (it : Itr V) (h : ItrOk it) : walkItr it = posAll it.dir it.pair := by
  generalize hn : (posAll it.dir it.pair).length = n
  induction n using Nat.strongRecOn generalizing it with
  | _ n ih =>
    rw [walkItr]
    have hc := cur_eq_head it h
    split
    · rename_i hcur
      rw [hcur] at hc
      cases hp : posAll it.dir it.pair with
      | nil => rfl
      | cons a as => rw [hp] at hc; simp at hc
    · rename_i kv hcur
      rw [hcur] at hc
      cases hp : posAll it.dir it.pair with
      | nil => rw [hp] at hc; simp at hc
      | cons a as =>
        rw [hp] at hc; simp at hc; subst hc
        have e := getNext_posAll it h
        rw [hp] at e; simp at e
        have := ih as.length (by rw [← hn, hp]; simp) (getNext it) (getNext_ok it)
          (by rw [getNext_dir, e])
        rw [this, getNext_dir, e]

theorem walk_eq (t : T V) : walk t = toList t := by
  unfold walk
  rw [walkItr_eq _ (getFirst_ok _ _), getFirst_dir, getFirst_posAll]; simp [listDir]

theorem rwalk_eq (t : T V) : rwalk t = (toList t).reverse := by
  unfold rwalk
  rw [walkItr_eq _ (getFirst_ok _ _), getFirst_dir, getFirst_posAll]; simp [listDir]

/-! ## clear -/

theorem clear_eq (t : T V) : clear t = nil := by
  generalize hn : size t = n
  induction n using Nat.strongRecOn generalizing t with
  | _ n ih =>
    cases t with
    | nil => simp [clear]
    | node c l k v r =>
      rw [clear]
      apply ih _ _ _ rfl
      rw [← hn]
      simp only [size_eq_length, toList_del_root]
      simp

/-! ## height -/

theorem pow_bh_le_size (t : T V) (h : Bal t) : 2 ^ bh t ≤ size t + 1 := by
  induction t with
  | nil => simp
  | node c l k v r ihl ihr =>
    simp only [Bal] at h
    have h1 := ihl h.1
    have h2 := ihr h.2.1
    rw [← h.2.2] at h2
    simp only [bh, size]
    cases c with
    | R => simp; omega
    | B => simp [Nat.pow_succ]; omega

theorem height_le_bh (t : T V) (hn : NoRR t) (hb : Bal t) :
    height t ≤ 2 * bh t + (if col t = R then 1 else 0) := by
  induction t with
  | nil => simp
  | node c l k v r ihl ihr =>
    simp only [NoRR] at hn
    simp only [Bal] at hb
    have h1 := ihl hn.1 hb.1
    have h2 := ihr hn.2.1 hb.2.1
    rw [← hb.2.2] at h2
    simp only [height, bh, col_node]
    cases c with
    | R =>
      have := hn.2.2 rfl
      simp [this.1, this.2] at h1 h2
      simp; omega
    | B =>
      simp
      have : (if col l = R then 1 else 0) ≤ 1 := by split <;> omega
      have : (if col r = R then 1 else 0) ≤ 1 := by split <;> omega
      omega

end Hawk.Rbt
