import HawkModel.GcLemmas
/-!
# C07 — lemmas about the generational part of the collector (round 5)

* `Counters`: what the refcount cascade, the finalisers and a whole collection do to the pressure and
  threshold counters (`collectGen_counters`);
* `collectGen_gen`: where a survivor of `gc_collect_garbage_in_generation (g)` ends up (promotion);
* `ReachG s g`: reachable from an external holder **or from an element of a container of a generation older
  than `g`** — the root set a collection of generation `g` works with; `gen_moved_reach`: everything the
  collector moves to its `reachable` list is `ReachG`; `young_collect_reach`: completeness of a collection of
  any generation (what survives from the collected lists is `ReachG`).
-/
namespace Hawk.Gc

/-! ### pressure and threshold counters -/

/-- the seven counters of `rtx->gc` -/
def St.counters (s : St) : Nat × Nat × Nat × Nat × Nat × Nat × Nat := (s.p0, s.p1, s.p2, s.p3, s.t0, s.t1, s.t2)

theorem cascade_counters (s : St) (todo : List Id) : (cascade s todo).counters = s.counters := by
  fun_induction cascade s todo <;> simp_all [St.counters]

theorem finalizePreserve_counters (s : St) (u : Id) : (finalizePreserve s u).counters = s.counters := by
  unfold finalizePreserve
  split
  · rw [cascade_counters]; rfl
  · rfl

theorem finalizeFold_counters (U : List Id) (s : St) : (U.foldl finalizePreserve s).counters = s.counters := by
  induction U generalizing s with
  | nil => rfl
  | cons u r ih => simp only [List.foldl_cons]; rw [ih, finalizePreserve_counters]

theorem refdown_counters (s : St) (o : Id) : (refdown s o).counters = s.counters := by
  unfold refdown
  split
  · rfl
  · split
    · rfl
    · split
      · rw [cascade_counters]; rfl
      · rfl

/-- `pressure[gen + 1]++; pressure[gen] = 0; pressure[0] = 0;` is all a collection does to the counters -/
theorem collectGen_counters (s : St) (g : Nat) :
    (collectGen s g).counters = (bumpPressure s g).counters := by
  unfold collectGen freeUnreachables
  have h := finalizeFold_counters
    ((markUnreachable (moveReachables (tracePhase2 s.legacy (tracePhase1 (mergeYounger s.heap g) g) g) g) g).idsWhere fun o => o.gen == g)
    { s with heap := markUnreachable (moveReachables (tracePhase2 s.legacy (tracePhase1 (mergeYounger s.heap g) g) g) g) g }
  simp only [St.counters] at h ⊢
  simp only [Prod.mk.injEq] at h
  obtain ⟨h0, h1, h2, h3, h4, h5, h6⟩ := h
  unfold bumpPressure
  split <;> simp_all

/-! ### client operations and the counters; the last reference -/

theorem link_counters {s : St} {p c : Id} {s' : St} (h : link s p c = some s') : s'.counters = s.counters := by
  unfold link at h
  split at h
  · cases h; rfl
  · cases h

theorem unlink_counters {s : St} {p c : Id} {s' : St} (h : unlink s p c = some s') : s'.counters = s.counters := by
  unfold unlink at h
  split at h
  · split at h
    · cases h; rw [cascade_counters]; rfl
    · cases h
  · cases h

theorem relink_counters {s : St} {p c d : Id} {s' : St} (h : relink s p c d = some s') : s'.counters = s.counters := by
  unfold relink at h
  split at h
  · split at h
    · split at h
      · cases h; rfl
      · split at h
        · cases hu : unlink s p c with
          | none => rw [hu] at h; cases h
          | some s1 =>
            rw [hu] at h
            have h' : link s1 p d = some s' := by simpa using h
            rw [link_counters h', unlink_counters hu]
        · cases h
    · cases h
  · cases h

theorem clear_counters {s : St} {p : Id} {s' : St} (h : clear s p = some s') : s'.counters = s.counters := by
  unfold clear at h
  split at h
  · split at h
    · cases h; rw [cascade_counters]; rfl
    · cases h
  · cases h

theorem addRoot_counters {s : St} {o : Id} {s' : St} (h : addRoot s o = some s') : s'.counters = s.counters := by
  unfold addRoot at h
  split at h
  · cases h; rfl
  · cases h

theorem take_counters {s : St} {p c : Id} {s' : St} (h : take s p c = some s') : s'.counters = s.counters := by
  unfold take at h
  split at h
  · split at h
    · exact addRoot_counters h
    · cases h
  · cases h

theorem dropRoot_counters {s : St} {o : Id} {s' : St} (h : dropRoot s o = some s') : s'.counters = s.counters := by
  unfold dropRoot at h
  split at h
  · cases h; rw [refdown_counters]; rfl
  · cases h

/-- `hawk_rtx_refdownval` on a value whose count is 1 frees it (and it stays freed through the cascade) -/
theorem refdown_last (s : St) (o : Id) (ob : Obj) (h : s.heap.get o = some ob) (h1 : ob.refs = 1) :
    (refdown s o).heap.get o = none := by
  have hlt := Heap.get_lt h
  unfold refdown
  rw [h]
  simp only [h1]
  simp only [show ¬ (1 : Nat) = 0 by omega, if_false, if_true]
  cases hc : (cascade { s with heap := s.heap.set o none } ob.children).heap.get o with
  | none => rfl
  | some o' =>
    obtain ⟨o0, ho0, _⟩ := cascade_get _ _ o o' hc
    simp only at ho0
    rw [Heap.get_set_eq _ _ _ hlt] at ho0
    cases ho0

/-- … on a value with a larger count only decrements -/
theorem refdown_other (s : St) (o : Id) (ob : Obj) (h : s.heap.get o = some ob) (h2 : 2 ≤ ob.refs) :
    (refdown s o).heap.get o = some { ob with refs := ob.refs - 1 } := by
  have hlt := Heap.get_lt h
  unfold refdown
  rw [h]
  have hz : ¬ ob.refs = 0 := by omega
  have h1 : ¬ ob.refs = 1 := by omega
  simp only [hz, h1, if_false]
  exact Heap.get_set_eq _ _ _ hlt

/-! ### where the survivors of a collection end up -/

/-- a survivor of `gc_collect_garbage_in_generation (g)` was there before; if it was in one of the collected
lists (generation `≤ g`) it is now in `newgen = min (g+1) 2`, otherwise it stays where it was -/
theorem collectGen_gen (s : St) (g : Nat) (hg : g ≤ 2) (hinv : Inv s) (i : Id) (o9 : Obj)
    (h : (collectGen s g).heap.get i = some o9) :
    ∃ o, s.heap.get i = some o ∧
      ((o.gen ≤ g ∧ o9.gen = (if g < 2 then g + 1 else g) ∧ ∃ o4, (heap4 s g).get i = some o4 ∧ o4.gen = TMP) ∨
       (g < o.gen ∧ o9.gen = o.gen)) := by
  obtain ⟨c6, _, _⟩ := heap6_spec s g hg hinv
  obtain ⟨_, _, _, _, get7, _⟩ :=
    finalize_fold ((heap6 s g).idsWhere fun o => o.gen == g) { s with heap := heap6 s g } c6
  have hm := moved_of_inv s g hg hinv
  rw [collectGen_eq s g hinv.legacy, bumpPressure_heap] at h
  simp only at h
  unfold promote at h
  rw [Heap.get_upd] at h
  cases h8 : (dropShells (state7 s g).heap g).get i with
  | none => rw [h8] at h; cases h
  | some o8 =>
    rw [h8] at h
    simp only [Option.map_some, Option.some.injEq] at h
    rw [dropShells_get] at h8
    cases h7 : (state7 s g).heap.get i with
    | none => rw [h7] at h8; cases h8
    | some o7 =>
      rw [h7] at h8
      simp only at h8
      by_cases hgen7 : o7.gen = g
      · simp [hgen7] at h8
      · simp only [hgen7, if_false, Option.some.injEq] at h8
        subst h8
        obtain ⟨o6, ho6, _, hgen6, _⟩ := get7 i o7 h7
        have ho6' : (heap6 s g).get i = some o6 := ho6
        rw [heap6_get] at ho6'
        cases h4 : (heap4 s g).get i with
        | none => rw [h4] at ho6'; cases ho6'
        | some o4 =>
          rw [h4] at ho6'
          simp only [Option.map_some, Option.some.injEq] at ho6'
          have hgen64 : o6.gen = o4.gen := by
            subst ho6'; split <;> rfl
          cases h0 : s.heap.get i with
          | none => rw [hm.getNone i h0] at h4; cases h4
          | some o =>
            refine ⟨o, rfl, ?_⟩
            obtain ⟨o4', ho4', _, _, hcase⟩ := hm.getSome i o h0
            rw [h4] at ho4'; cases ho4'
            have hle2 : o.gen ≤ 2 := by
              rcases hinv.gc i o h0 with ⟨_, _, h2⟩ | ⟨_, hz⟩ <;> omega
            rcases hcase with ⟨hgen, _⟩ | ⟨hgen, _, hle⟩ | ⟨hgen, hlt, _⟩
            · exfalso; apply hgen7; rw [hgen6, hgen64]; exact hgen
            · left
              refine ⟨hle, ?_, o4, rfl, hgen⟩
              subst h
              have : o7.gen = TMP := by rw [hgen6, hgen64]; exact hgen
              simp [this]
            · right
              refine ⟨hlt, ?_⟩
              subst h
              have h7g : o7.gen = o.gen := by rw [hgen6, hgen64]; exact hgen
              have : o7.gen ≠ TMP := by rw [h7g]; unfold TMP; omega
              rw [if_neg this]; exact h7g

/-! ### completeness of a collection of any generation -/

/-- reachable from an external holder or from an element of a container of a generation older than `g`
(the containers a collection of generation `g` does not look at), through container elements -/
inductive ReachG (s : St) (g : Nat) : Id → Prop where
  | root {r : Id} : r ∈ s.roots → ReachG s g r
  | old {p c : Id} {ob : Obj} : s.heap.get p = some ob → g < ob.gen → c ∈ ob.children → ReachG s g c
  | step {p c : Id} {ob : Obj} : ReachG s g p → s.heap.get p = some ob → c ∈ ob.children → ReachG s g c

/-- with nothing older than the collected generation, `ReachG` is `Reach` -/
theorem reachG_reach {s : St} {g : Nat} (hall : ∀ i o, s.heap.get i = some o → o.gen ≤ g) {q : Id}
    (h : ReachG s g q) : Reach s q := by
  induction h with
  | root hm => exact Reach.root hm
  | old hp hlt _ => have := hall _ _ hp; omega
  | step _ hp hc ih => exact Reach.step ih hp hc

theorem exists_of_inDegFrom_pos {h : Heap} {p : Obj → Bool} {x : Id} (hp : 0 < inDegFrom h p x) :
    ∃ i o, h.get i = some o ∧ p o = true ∧ x ∈ o.children := by
  rw [← count_edgesWhere] at hp
  exact exists_of_mem_edgesWhere (List.count_pos_iff.mp hp)

/-- a member of the collected list with a non-zero residual count (`gc_refs` after `gc_trace_refs`) has an
external holder or is an element of a container of an older generation -/
theorem resid_pos_reason (s : St) (g : Nat) (hinv : Inv s) (i : Id) (o : Obj) (hi : s.heap.get i = some o)
    (hr : resid s g i o ≠ 0) : ReachG s g i := by
  unfold resid at hr
  have h1 : inDeg (heap2 s g) i = inDegFrom (heap2 s g) (fun o => o.gen == g) i +
      inDegFrom (heap2 s g) (fun o => !(o.gen == g)) i := inDeg_split (heap2 s g) (fun o => o.gen == g) i
  rw [heap2_inDeg] at h1
  have h2 := hinv.c.ledger i o hi (hinv.unmarked hi)
  simp only [List.count_nil, Nat.add_zero] at h2
  by_cases hc : 0 < s.roots.count i
  · exact ReachG.root (List.count_pos_iff.mp hc)
  · have hpos : 0 < inDegFrom (heap2 s g) (fun o => !(o.gen == g)) i := by omega
    obtain ⟨j, oj2, hj2, hp, hm⟩ := exists_of_inDegFrom_pos hpos
    cases hj : s.heap.get j with
    | none => rw [heap2_get_none s g j hj] at hj2; cases hj2
    | some oj =>
      obtain ⟨o2, ho2, _, hch, hcase⟩ := heap2_get s g j oj hj
      rw [hj2] at ho2; cases ho2
      rcases hcase with ⟨_, hgen, _⟩ | ⟨hlt, _, _⟩
      · simp [hgen] at hp
      · exact ReachG.old hj hlt (hch ▸ hm)

/-- everything `gc_move_reachables` moves to the list `reachable` is reachable from a holder or from an older
generation (generalises `full_moved_reach` to the collection of any generation) -/
theorem gen_moved_reach (s : St) (g : Nat) (hg : g ≤ 2) (hinv : Inv s) :
    ∀ q oq, (heap4 s g).get q = some oq → oq.gen = TMP → ReachG s g q := by
  obtain ⟨_, h3none, h3some⟩ := heap3_spec s g hinv
  have hgen2 : ∀ i o, s.heap.get i = some o → o.gen ≤ 2 := by
    intro i o hi
    rcases hinv.gc i o hi with ⟨_, _, h2⟩ | ⟨_, h0⟩ <;> omega
  have h4a : ∀ i o4, (moveRoots (heap3 s g) g).get i = some o4 →
      ∃ o, s.heap.get i = some o ∧ o4.children = o.children ∧ (o4.gen = TMP → ReachG s g i) := by
    intro i o4 hi4
    rw [moveRoots_get] at hi4
    cases hi : s.heap.get i with
    | none => rw [h3none i hi] at hi4; cases hi4
    | some o =>
      obtain ⟨o3, ho3, _, hch, hcase⟩ := h3some i o hi
      rw [ho3] at hi4
      simp only [Option.map_some, Option.some.injEq] at hi4
      refine ⟨o, rfl, ?_⟩
      have hle := hgen2 i o hi
      rcases hcase with ⟨_, hgen, hr, _⟩ | ⟨hlt, hgen, _⟩
      · by_cases hz : o3.gcRefs = 0
        · have : ¬ (o3.gen = g ∧ o3.gcRefs ≠ 0) := fun h => h.2 hz
          rw [if_neg this] at hi4; subst hi4
          refine ⟨hch, fun ht => ?_⟩
          rw [hgen] at ht; unfold TMP at ht
          have := hgen2 i o hi
          omega
        · have : o3.gen = g ∧ o3.gcRefs ≠ 0 := ⟨hgen, hz⟩
          rw [if_pos this] at hi4; subst hi4
          refine ⟨hch, fun _ => ?_⟩
          rw [hr] at hz
          exact resid_pos_reason s g hinv i o hi hz
      · have : ¬ (o3.gen = g ∧ o3.gcRefs ≠ 0) := fun h => by have := h.1; omega
        rw [if_neg this] at hi4; subst hi4
        refine ⟨hch, fun ht => ?_⟩
        rw [hgen] at ht; unfold TMP at ht; omega
  unfold heap4 moveReachables
  apply moveLoop_prov (ReachG s g)
  · intro c hc
    obtain ⟨q, oq, hq, hp, hm⟩ := exists_of_mem_edgesWhere hc
    obtain ⟨o, ho, hch, hroot⟩ := h4a q oq hq
    have : oq.gen = TMP := by simpa using hp
    exact ReachG.step (hroot this) ho (hch ▸ hm)
  · intro q oq hq hgen
    obtain ⟨o, ho, hch, hroot⟩ := h4a q oq hq
    exact hroot hgen
  · intro q oq hq hR c hc
    obtain ⟨o, ho, hch, _⟩ := h4a q oq hq
    exact ReachG.step hR ho (hch ▸ hc)

/-- **completeness of a collection of generation `g`**: a container that was in one of the collected lists
(generation `≤ g`) and is still there afterwards was reachable, when the collection started, from an external
holder or from an element of a container of an older generation -/
theorem young_collect_reach (s : St) (g : Nat) (hg : g ≤ 2) (hinv : Inv s) (i : Id) (o o9 : Obj)
    (h0 : s.heap.get i = some o) (hle : o.gen ≤ g) (h : (collectGen s g).heap.get i = some o9) : ReachG s g i := by
  obtain ⟨o', ho', hcase⟩ := collectGen_gen s g hg hinv i o9 h
  rw [h0] at ho'; cases ho'
  rcases hcase with ⟨_, _, o4, ho4, hgen4⟩ | ⟨hlt, _⟩
  · exact gen_moved_reach s g hg hinv i o4 ho4 hgen4
  · omega

end Hawk.Gc
