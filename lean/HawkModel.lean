import HawkModel.Props.C05
import HawkModel.Props.C11
import HawkModel.Props.C13
import HawkModel.Props.C16
import HawkModel.Props.C16Htb
import HawkModel.Props.C19
import HawkModel.Props.C20
