import HawkModel.Arr
