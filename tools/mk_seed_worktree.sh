#!/bin/sh
# mk_seed_worktree.sh <name>  -> /tmp/seed_<name>: a configured, built git worktree of /repo HEAD for a bug-seeding sub-agent
set -e
d=/tmp/seed_$1
git -C /repo worktree remove --force $d 2>/dev/null || true
rm -rf $d; git -C /repo worktree prune
git -C /repo worktree add -q --detach $d HEAD
cd $d && ./configure 'CFLAGS= -Wno-error' 'CXXFLAGS= -Wno-error' >/dev/null 2>&1 && make -j8 >/dev/null 2>&1 && mkdir -p out && echo "ready $d"
