#!/usr/bin/env python3
"""confirm_seed.py <ID> — for every /tmp/seed_<id>/out/bugK.diff: in that worktree confirm (1) the patch applies and builds,
(2) the repository's test suite still passes (866), (3) the demo fails with the patch and passes without; then keep it as
/verif/seeded/<ID>/<ID>-sK/{patch.diff, demo.*, notes.txt, meta.json}. The demo command is taken from the demo's header
comment (the first line containing 'gcc ' or 'sh out/' or 'timeout')."""
import glob, json, os, re, shutil, subprocess, sys

pid = sys.argv[1].upper()
wt = "/tmp/seed_%s" % pid.lower()
outname = sys.argv[2] if len(sys.argv) > 2 else "out"
tag = sys.argv[3] if len(sys.argv) > 3 else ""
out = os.path.join(wt, outname)


def sh(cmd, timeout=1200):
    p = subprocess.run(cmd, shell=True, cwd=wt, stdout=subprocess.PIPE, stderr=subprocess.STDOUT, text=True, timeout=timeout)
    return p.returncode, p.stdout


def demo_cmd(path):
    if path.endswith(".sh"):
        return "timeout -s KILL 300 bash %s/%s" % (outname, os.path.basename(path))
    src = open(path).read()
    lines = [l.strip().lstrip("*#/ ").rstrip() for l in src.splitlines()[:60]]
    for i, line in enumerate(lines):
        if line.startswith("gcc "):
            cmd = line
            j = i
            while cmd.endswith("\\") and j + 1 < len(lines):
                j += 1
                cmd = cmd[:-1] + " " + lines[j]
            cmd = re.split(r";\s*echo\b", cmd)[0]
            if "&&" not in cmd and j + 1 < len(lines) and re.match(r"(timeout|out2?/|\./|sh |bash )", lines[j + 1]):
                cmd = cmd + " && " + re.split(r";\s*echo\b", lines[j + 1])[0]
            return "timeout -s KILL 600 sh -c '%s'" % cmd.replace("'", "'\\''")
    base = os.path.basename(path)[:-2]
    return ("gcc -I lib -DHAVE_CONFIG_H -DHAWK_HAVE_CFG_H -fshort-wchar %s/%s.c lib/.libs/libhawk.a -lm -ldl -lpthread -lquadmath -o %s/%s "
            "&& timeout -s KILL 300 %s/%s" % (outname, base, outname, base, outname, base))


def suite():
    rc, o = sh("make -j8 >/dev/null 2>&1; make -C t check 2>&1 | grep -E '^# (PASS|FAIL|ERROR|TOTAL)'")
    m = dict(re.findall(r"# (\w+):\s+(\d+)", o))
    return m


sh("git checkout -q -- .")
rows = []
for diff in sorted(glob.glob(os.path.join(out, "bug*.diff"))):
    k = re.search(r"bug(\d+)\.diff", diff).group(1)
    demos = sorted(glob.glob(os.path.join(out, "bug%s_demo.*" % k)))
    demos = [d for d in demos if d.endswith((".sh", ".c", ".hawk", ".py"))]
    main_demo = [d for d in demos if d.endswith(".sh")] or [d for d in demos if d.endswith(".c")] or demos
    if not main_demo:
        print("bug%s: no demo" % k); continue
    cmd = demo_cmd(main_demo[0])
    # original tree
    sh("git checkout -q -- . && make -j8 >/dev/null 2>&1")
    rc0, o0 = sh(cmd)
    # patched tree
    rca, oa = sh("git apply %s" % diff)
    if rca != 0:
        print("bug%s: patch does not apply: %s" % (k, oa)); continue
    rcb, ob = sh("make -j8 2>&1 | tail -5")
    st = suite()
    rc1, o1 = sh(cmd)
    sh("git checkout -q -- . && make -j8 >/dev/null 2>&1")
    ok = (rc0 == 0 and rc1 != 0 and st.get("FAIL") == "0" and st.get("ERROR", "0") == "0" and st.get("TOTAL") == st.get("PASS"))
    print("bug%s: demo original rc=%s, patched rc=%s, suite %s -> %s" % (k, rc0, rc1, st, "CONFIRMED" if ok else "NOT CONFIRMED"))
    if not ok:
        print("  original out:", o0[-300:].replace("\n", " | ")); print("  patched out:", o1[-300:].replace("\n", " | "))
        continue
    d = os.path.join("/verif/seeded", pid, "%s-%ss%s" % (pid, tag, k))
    os.makedirs(d, exist_ok=True)
    shutil.copy(diff, os.path.join(d, "patch.diff"))
    for dm in demos:
        shutil.copy(dm, os.path.join(d, os.path.basename(dm).replace("bug%s_" % k, "")))
    txt = os.path.join(out, "bug%s.txt" % k)
    notes = open(txt).read() if os.path.exists(txt) else ""
    open(os.path.join(d, "notes.txt"), "w").write(notes)
    first = " ".join(notes.split())[:600]
    json.dump({"property": pid, "breaks": first, "needs_to_manifest": "see notes.txt (written by the independent sub-agent that seeded the change)",
               "confirmed": {"worktree": wt, "demo_cmd": cmd, "demo_rc_original": rc0, "demo_rc_patched": rc1, "suite_with_patch": st},
               "checks": [pid]}, open(os.path.join(d, "meta.json"), "w"), indent=1)
    rows.append(d)
print("kept:", rows)
