#!/usr/bin/env python3
"""refresh_seeds.py [--write] — seeded patches were taken against the tree of their day; later `fix:` commits move lines,
and a hunk whose context is not unique can then land in a *different* branch (this happened to C02-s1 and C11-r2s1:
applied with an offset into a twin branch where the change is harmless). This tool lists every seeded patch that no
longer applies exactly and, with --write, regenerates patch.diff against the current HEAD of /repo (in a scratch
worktree-free copy: `git apply` to a temporary copy, `git diff`). Only do that for seeds run_seeded.py currently detects
— a detected seed landed where it hurts; a missed one has to be looked at by hand first."""
import json, os, shutil, subprocess, sys

V = os.path.dirname(os.path.dirname(os.path.abspath(__file__)))
write = "--write" in sys.argv
det = json.load(open(os.path.join(V, "seeded", "detect.json")))
tmp = "/var/tmp/refresh_seeds.%d" % os.getpid()
for pid in sorted(os.listdir(os.path.join(V, "seeded"))):
    d0 = os.path.join(V, "seeded", pid)
    if not os.path.isdir(d0):
        continue
    for name in sorted(os.listdir(d0)):
        patch = os.path.join(d0, name, "patch.diff")
        if not os.path.exists(patch):
            continue
        p = subprocess.run(["patch", "--dry-run", "-p1", "--fuzz=0", "-i", patch], cwd="/repo", stdout=subprocess.PIPE, stderr=subprocess.STDOUT, text=True)
        drift = [l for l in p.stdout.splitlines() if "offset" in l or "fuzz" in l or "FAILED" in l]
        if not drift:
            continue
        st = "detected" if det.get(name, {}).get("detected") else "NOT detected"
        print("%-10s %-12s %s" % (name, st, "; ".join(drift)[:160]))
        if write and det.get(name, {}).get("detected") and not any("FAILED" in l for l in drift):
            shutil.rmtree(tmp, ignore_errors=True)
            subprocess.check_call(["git", "-C", "/repo", "worktree", "add", "-q", "--detach", tmp, "HEAD"])
            try:
                subprocess.check_call(["git", "-C", tmp, "apply", patch])
                new = subprocess.check_output(["git", "-C", tmp, "diff"])
                open(patch, "wb").write(new)
            finally:
                subprocess.call(["git", "-C", "/repo", "worktree", "remove", "--force", tmp])
shutil.rmtree(tmp, ignore_errors=True)
subprocess.call(["git", "-C", "/repo", "worktree", "prune"])
