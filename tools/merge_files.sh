#!/bin/sh
# merge_files.sh <area> <file>... — copy exactly the listed files (relative to /verif) from an agent's private copy
# (/var/tmp/agents/<area>/verif). Use this instead of merge_agent.py --apply when /verif has moved on since the copy
# was refreshed: only what the agent says it changed is taken.
a=$1; shift
for f in "$@"; do
  mkdir -p "/verif/$(dirname "$f")"
  cp "/var/tmp/agents/$a/verif/$f" "/verif/$f" && echo "merged $f"
done
