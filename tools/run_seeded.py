#!/usr/bin/env python3
"""run_seeded.py [ID ...] [--inplace] — run each property's quick check against every seeded breaking change kept
under /verif/seeded/<ID>/<name>/patch.diff and report which are detected.
Default: the patch is applied to a scratch copy of /repo (HAWK_REPO=<copy>), so /repo is never touched
(needed while other work reads /repo). --inplace: git -C /repo apply / checkout as the brief describes."""
import json, os, shutil, subprocess, sys, time

V = "/verif"
ids = [a.upper() for a in sys.argv[1:] if not a.startswith("--")]
inplace = "--inplace" in sys.argv
only = [a.split("=", 1)[1] for a in sys.argv[1:] if a.startswith("--only=")]   # --only=r3 : seed names containing "r3"
tier = "thorough" if "--thorough" in sys.argv else "quick"
root = os.path.join(V, "seeded")
rows = []
# evidence files describe the unchanged tree: save them and put them back afterwards
evbak = "/var/tmp/evidence.bak.%d" % os.getpid()
shutil.copytree(os.path.join(V, "evidence"), evbak)
for pid in sorted(os.listdir(root)):
    if (ids and pid not in ids) or not os.path.isdir(os.path.join(root, pid)):
        continue
    for name in sorted(os.listdir(os.path.join(root, pid))):
        d = os.path.join(root, pid, name)
        patch = os.path.join(d, "patch.diff")
        if not os.path.exists(patch):
            continue
        if only and not any(o in name for o in only):
            continue
        t = time.time()
        env = dict(os.environ)
        if inplace:
            subprocess.check_call(["git", "-C", "/repo", "apply", patch])
            repo = "/repo"
        else:
            repo = "/var/tmp/seedrun.%d" % os.getpid()
            shutil.rmtree(repo, ignore_errors=True)
            subprocess.check_call(["cp", "-r", "/repo", repo])
            subprocess.check_call(["git", "-C", repo, "checkout", "-q", "--", "."])
            if subprocess.call(["git", "-C", repo, "apply", patch]) != 0:
                print("%-4s %-28s PATCH DOES NOT APPLY to the current tree (regenerate it: tools/refresh_seeds.py)" % (pid, name), flush=True)
                shutil.rmtree(repo, ignore_errors=True)
                rows.append((pid, name, False, [], 0.0, {}))
                continue
            env["HAWK_REPO"] = repo
        try:
            meta = json.load(open(os.path.join(d, "meta.json"))) if os.path.exists(os.path.join(d, "meta.json")) else {}
            checks = meta.get("checks", [pid])
            detected_by = []
            outs = {}
            for c in checks:
                p = subprocess.run([os.path.join(V, "check"), c, "--tier", tier], cwd=V, env=env, stdout=subprocess.PIPE, stderr=subprocess.STDOUT, text=True)
                vio = [l for l in p.stdout.splitlines() if l.startswith("VIOLATION")]
                outs[c] = (p.returncode, vio[:2])
                if p.returncode == 1 and vio:
                    detected_by.append(c)
        finally:
            if inplace:
                subprocess.check_call(["git", "-C", "/repo", "checkout", "--", "."])
            else:
                shutil.rmtree(repo, ignore_errors=True)
        rows.append((pid, name, bool(detected_by), detected_by, round(time.time() - t, 1), outs))
        print("%-4s %-28s %s  by=%s  %.0fs  %s" % (pid, name, "DETECTED" if detected_by else "MISSED  ", detected_by, time.time() - t,
                                                 "; ".join(v[1][0][:150] for v in outs.values() if v[1])), flush=True)
dp = os.path.join(V, "seeded", "detect.json")
det = json.load(open(dp)) if os.path.exists(dp) else {}
for r in rows:
    first = ""
    for v in r[5].values():
        if v[1]:
            first = v[1][0]
    det[r[1]] = dict(detected=r[2], by=r[3], how="%s tier, seed %s%s" % (tier, os.environ.get("VERIF_SEED", "1"), ", no-failing-input-found" if "no-failing-input-found" in first else ", concrete replay" if r[2] else ""))
json.dump(det, open(dp, "w"), indent=1, sort_keys=True)
shutil.rmtree(os.path.join(V, "evidence"))
shutil.move(evbak, os.path.join(V, "evidence"))
# the translators rewrote lean/HawkModel/Gen/*.lean from the seeded trees: put the committed (unchanged-tree) tables back
subprocess.call(["git", "-C", V, "checkout", "--", "lean/HawkModel/Gen"])
