#!/bin/sh
# run_all.sh [tier] — every claimed check in turn on /repo; prints one verdict line per property
cd /verif
tier=${1:-quick}
for id in $(python3 -c "import json;print(' '.join(c['property_id'] for c in json.load(open('MANIFEST.json'))['checks']))"); do
  s=$(date +%s)
  out=$(./check $id --tier $tier 2>&1)
  rc=$?
  e=$(( $(date +%s) - s ))
  echo "$id rc=$rc ${e}s $(echo "$out" | grep -c '^KNOWN-FINDING') known | $(echo "$out" | grep -E '^(OK|VIOLATION)' | head -2 | cut -c1-200)"
done
