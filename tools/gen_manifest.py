#!/usr/bin/env python3
"""Regenerates /verif/MANIFEST.json from the table below (one entry per claimed property)."""
import json, os

V = os.path.dirname(os.path.dirname(os.path.abspath(__file__)))
props = [json.loads(l) for l in open(os.path.join(V, "properties.jsonl"))]

COMMON_NOTE = ("Trusted: Lean 4.33 kernel (axioms audited per theorem on every run: only propext, Classical.choice, Quot.sound; "
               "no sorry/axiom/native_decide/bv_decide, scanned); the theorem statements as renderings of the English property; "
               "the hand-written model is tied to /repo only by the differential correspondence run (bounded by generator quality) "
               "and, where named, by translators that regenerate tables from the source on every run. ")

E = {}
E["C05"] = dict(
    text="Lean 4 theorems (Props/C05.lean, 26) about an executable transcription of the write side of lib/rio.c and its callers "
         "(stream chain, lookup on (type,name), open-on-miss, re-offer loop, eof latch, two-way-pipe half-close machine, flushall/clearall, "
         "print/printf/close/fflush/getline statements, end-of-run sequence) with the handler as a universally quantified adversary "
         "(reply per call: accept k, eof, fail): delivered-exactly-once-in-order, failure always surfaces (never success with bytes missing), "
         "open/close balance in every reachable state and after teardown, flushed at return. Tied to the code by an in-process harness with "
         "logging/scripted rio handlers; the check first evaluates clauses (a)-(d) directly on the real handler log, then diffs it with the model's. "
         "Added in the last round: a second family runs hawk's own std.c -> sio -> tio -> fio/pio handlers with a scripted write(2) (short writes, 0, EIO; exact buffer fills; files, pipes, two-way pipes, console files) judged on the bytes that reach the sink; FLUSH-before-CLOSE and the failing final flush are modelled (close_reports_flush_failure, final_flush_failure_surfaces).",
    note="Not modelled (run and judged by the sink oracle only): std.c's own handlers (sio/tio/pio buffering, real pipes), the read side beyond sharing the chain, main-rule programs (BEGIN only).",
    tech="Lean 4 proof (invariants by induction over op histories x adversarial handler) + property oracle on the real handler log + differential correspondence")
E["C16"] = dict(
    text="Lean 4 theorems (Props/C16.lean 30 + Props/C16Htb.lean 39). RBT: a functional model that reproduces rbt.c's insert/adjust and "
         "delete_pair/adjust_for_delete shape-for-shape; red-black invariant preserved by insert/upsert/update/ensert/delete/clear, hence for every "
         "history (reachable_inv); height <= 2*log2(n+1); refinement to the sorted association list incl. return classes (history_refines); "
         "forward/backward walk and the getfirst/getnext iterator enumerate in order, each pair once. HTB: bucket-list model of htb.c for an "
         "arbitrary hash function, sizer and allocator oracle: well-formedness (placement, unique keys, size = sum of chains) and dictionary "
         "refinement for every history incl. rehash and failed rehash; iteration/walk = a permutation of the dictionary, each pair once. "
         "FOR-IN: run_forin's key snapshot: the loop visits exactly the entry-time keys (prefix on break/return/exit) whatever the body does. "
         "Tied to the code by harnesses dumping tree shape/colours/parent links and bucket chains after every op, and by generated hawk programs. "
         "Added in the last round: cbsert (callback upsert) in both containers' models, theorems and histories; user styles with key/value copiers, freeers and keepers; inline values updated with shorter/equal/longer values; the map/array value API of val.c; for-in over scalars and body errors.",
    note="Not modelled: allocation failure in rbt, the custom value-copier branch of allocpair (its inverted NULL test was repaired in d035dda; "
         "outside the four predefined styles); comparator abstracted to < on Nat; for-in model language is ForIn.Stmt.",
    tech="Lean 4 proof (refinement to an ideal dictionary + invariants by induction over histories) + property oracle (C-side invariant flags, python dict) + shape-level differential correspondence")
E["C19"] = dict(
    text="Lean 4 theorems (Props/C19.lean, 30) about an executable transcription of lib/arr.c: refinement of insert/upsert/update/delete/uplete/"
         "clear/setcapa to the list-of-optional-values spec, size/tally/capacity invariant for every reachable history and allocator behaviour, "
         "termination of the growth and retry loops (accepted by Lean's termination checker) with growth_reaches_index, the capacity always one "
         "whose table size fits the 64-bit word (reachable_fits), a position no table can hold refused at once (insert_far_refused), the retry "
         "loop asking the allocator at most log2(gap)+2 times (retry_requests_logarithmic), heap order and contents preserved by "
         "pushheap/deleteheap/updateheap for every heap history, and for heaps with position back-pointers (heap_pos_offset) a refinement to the "
         "key-only heap plus the invariant that every item records the slot it is in. Tied to the working tree by a differential harness "
         "(real hawk_arr_* under ASan vs compiled Lean driver, full state dumps incl. each item's pos field; machine-word extremes with scripted "
         "allocator refusals; retry scripts) and hawk-level hawk::array / str::splita / @argv programs incl. subscripts no table can hold; the "
         "property is first evaluated on the implementation's own dumps against an ideal python list.",
    note="Not modelled: slot cells beyond size, the INLINE copier, pointer aliasing inside a sift (a slot store and its HEAP_UPDATE_POS are one model "
         "step), hawk_arr_walk/rwalk; 64-bit words and 8-byte slot pointers assumed (asserted by the harness).",
    tech="Lean 4 proof (invariant by induction over operations + refinement to a list spec, termination by measure) + property oracle + differential correspondence")
E["C20"] = dict(
    text="Lean 4 theorems (Props/C20.lean, 31) about an executable transcription of lib/xma.c (boundary tags as stored, free lists as ordered "
         "offset lists, alloc with class search and split, _realloc_merge, alloc-copy-free fallback, four-way free): the invariant WF (blocks tile "
         "the zone, prev_size consistent, aligned sizes >= minimum, no adjacent free blocks, each free list = the free blocks of its class, no "
         "duplicates) holds after init and every call for every history; live blocks aligned, in zone, pairwise disjoint; contents kept "
         "(realloc keeps min(old,new)); copy lengths within blocks; all freed => one block covering the zone in its class list; szlog2 = floor log2. "
         "Constants (ALIGN, header sizes, FIXED, XFIMAX...) are regenerated from the headers on every run (extract/xma_const.py). Tied to the code by "
         "a harness with ASan-poisoned guard bands, per-block content patterns and full chain/free-list dumps; BFS by heap state + random histories; "
         "`hawk -m N` smoke runs. "
         "Added in the last round: caller-supplied zones of any size (every residue mod 16; the last block absorbs the residue), calloc, the dump walker; reachable_zone / reachable_inside (every live block ends within the bytes given to init).",
    note="Not modelled: bit-field packing and pointer arithmetic (ASan only), statistics counters (compared against values derived from the model), "
         "callers pass only live pointers; zone < 2^63.",
    tech="Lean 4 proof (structural invariant by induction over alloc/realloc/free histories) + translator for constants + property oracle + differential correspondence")

E["C03"] = dict(
    text="Lean 4 theorems (Props/C03.lean, 31) about an executable transcription of lib/rec.c and the NF setter (record line, field values AND the "
         "(offset,length) spans that truncrec and positional references read through; split_record in blank / single-char / empty / regex (matcher "
         "parameter) / '?'-quoted modes; recomp_record_fields; truncrec; cached OFS): the coherence invariant (NF = number of fields, every span covers "
         "its value's text, $0 = line, line = fields joined by the OFS in force at the last rebuild or fields = split of the text last given) holds "
         "after every history; $i reads the value last given or its split piece, by value and by span; beyond NF reads empty; negative NF rejected "
         "with the state unchanged; split laws (join of single-char pieces rebuilds the string, blank-mode characterisation and idempotence). "
         "Tied to the code by an in-process harness that dumps inrec.line and every span after each statement; python shadow oracle and gawk agreement "
         "on the implementation's own output first, then diff with the Lean driver. "
         "Added in the last round: IGNORECASE and nil FS in the model, special variables holding nil/int/float/byte-string/char/map values, CONVFMT-dependent texts, rebuild_same_separator (every rebuild of $0 joins with the one cached OFS text whatever type OFS holds).",
    note="Not modelled: the substitution done by sub/gsub itself (property C13), numstrdetect, allocation failure; regex matching is a parameter (Sane m).",
    tech="Lean 4 proof (coherence invariant by induction over assignment histories) + property oracle + differential correspondence incl. internal spans")
E["C11"] = dict(
    text="Lean 4 theorems (Props/C11.lean, 25) about a model of the __cmp_* family that INTERPRETS tables regenerated from lib/run.c on every run "
         "(extract/cmp_table.py: the 100-entry dispatch table, each routine's shape base/mirror/alias/ensure-not-equal/reject, inverse op table, the "
         "operator tests, teq polarity; fails closed): dispatch_correct (decide over the generated table), antisymmetry, trichotomy, a<b iff b>a, "
         "<= iff < or ==, != iff not ==, == symmetric, === implies ==, cmp is a total preorder on each kind, asort/asorti return a sorted permutation "
         "for one-kind input; for every float/conversion/case-folding parameter satisfying stated laws (no NaN) and every IGNORECASE/NCMPONSTR setting. "
         "Harness: hawk_rtx_cmpval and all seven operators at language level on every ordered pair of a 154-value pool under each configuration; the laws "
         "are evaluated on the real outputs first, then every result is compared with the Lean driver. "
         "Added in the last round: asort/asorti over maps with any keys, arrays with slot 0 / gaps / deleted elements, nil and scalar sources, in-place and previous-result forms, user and failing comparators (asort_src_perm, asorti_array_subscripts, asort_user_sorted).",
    note="Number<->string conversion and case folding are parameters instantiated in the driver with the implementation's own answers; hawk_qsortx is "
         "transcribed only for its insertion-sort path (n<7), larger inputs are checked as sorted permutations (sorted_perm_unique); NaN and teq's pointer shortcut not modelled.",
    tech="Lean 4 proof over tables regenerated from the source (translator) + laws evaluated on the real code + differential correspondence")
E["C13"] = dict(
    text="Lean 4 theorems (Props/C13.lean, 53) about an executable transcription of the string builtins of lib/fnc.c and their str:: twins, generic in the "
         "element type and in the regex matcher: substr = clamped 1-based range for all Int start/len (fractions truncated), index/rindex = first/last "
         "occurrence or 0 for every start argument, split laws (single-char join rebuilds the string, count+1 pieces; blank mode), gsub = declarative "
         "replacement over the leftmost non-overlapping match sequence with count = number of matches for EVERY matcher, the &, \\&, \\\\& template laws, "
         "match sets RSTART/RLENGTH to the match it reports, tolower/toupper idempotent and length preserving, frame lemmas. Tied to the code by a harness "
         "rendering each call with every argument type; the regex engine's raw answers are passed to the driver as data (regex semantics is property C06); "
         "python property oracle + gawk/mawk second opinion on hawk's own output first, then diff with the Lean driver. "
         "Added in the last round: everything implemented in mod-str.c itself (trim/ltrim/rtrim/normspace, subchar, tocharcode/fromcharcode/frombcharcode, is* class tests, tombs/frommbs, tonum), IGNORECASE variants of index/rindex and the tokeniser, two-argument sub/gsub on $0.",
    note="Not modelled: sub-match groups of match(s,r,arr), numeric strings as numeric arguments; UTF-8 codec, CONVFMT "
         "formatting, case/space tables are environment parameters. Two recorded findings (index of empty in empty; four-backslash template run).",
    tech="Lean 4 proof (defining equations, generic in the matcher) + property oracle and reference awks + differential correspondence")
E["C15"] = dict(
    text="Lean 4 theorems (Props/C15.lean, 50) about the UTF-8 codec parametrised by the utf8_table[] rows regenerated from lib/utf8.c on every run "
         "(extract/utf8_table.py) and about tio.c's read/write staging: decode(encode c) = c for every c < 65536, encode(decode) on accepted shortest forms, "
         "decoder never reads out of bounds and is total with a deterministic verdict on arbitrary bytes, whole-string conversion both ways (length = number "
         "of characters), tio read side independent of the chunking for every well-formed BMP string (any capacity >= 3, any request size), in-bounds on "
         "arbitrary bytes, write side round trip, byte-string reads/writes are the identity. Harness: every BMP value and all 1-/2-byte sequences through the "
         "real codec with exact-size heap buffers under ASan, tio under scripted chunkings, CLI runs with every BMP scalar at three alignments to the I/O "
         "buffers and all 256 byte values; python's codec and schedule-independence as oracle first, then diff with the Lean driver. "
         "Added in the last round: the codec is a parameter satisfying two small interfaces (CodecOk, DecTotal) that utf8, utf16 and mb8 are proved to meet, so chunk independence, exactly-once writing and read safety hold for all three managers; by-name manager selection; the byte<->text conversions behind the val.c constructors (two-pass sizing never overruns).",
    note="Overlong forms and 4-byte sequences are accepted/truncated by the C decoder (table's lower column unused) and are modelled as they are; handler errors, the "
         "flush retry loop and the byte-string value paths in val.c/run.c/fmt are tied by CLI runs only.",
    tech="Lean 4 proof (round trips, bounds, chunk-independence by induction over chunk lists) over a table regenerated from the source + property oracle + differential correspondence")
E["C07"] = dict(
    text="Lean 4 theorems (Props/C07.lean, 14) about an executable model of val.c's reference counts and generational cycle collector (heap of containers "
         "with refs, gc_refs incl. the GCH_MOVED / GCH_UNREACHABLE sentinels as encoded, generation, children; refdown cascade incl. the element "
         "freeers' sentinel test; collect = merge, trace phases 1 and 2, move reachables, free unreachables, promote, pressure/threshold; teardown), "
         "for every op history: the ledger refs = holders + in-edges, no dangling child, nothing reachable is ever freed, whatever is freed is unreachable, "
         "acyclic garbage is freed at once, after a full collection everything live is reachable, the heap is empty after teardown, no stale sentinel "
         "between operations; plus legacy_breaks_ledger exhibiting the repaired defect on the unrepaired model. Tied to the code by an in-process harness "
         "dumping v_refs, gc_refs, generation and element lists after every op with a counting allocator, and by generated hawk programs under "
         "ASan+LeakSanitizer; python shadow ledger/reachability oracle first, then diff with the Lean driver. "
         "Added in the last round: the take operation (getmapvalfld/getarrvalfld holders), collection by allocation pressure alone at default thresholds, hawk::array/map constructors and hawk::call stores, and a value-flow family (inc/dec/assignment forms x targets x float/string/boxed-int results used after churning the free lists).",
    note="Not modelled: leaf values, the str/mbs/ref recycling caches and int/flt chunk lists (ASan only), order inside generation lists, allocation failure (C10).",
    tech="Lean 4 proof (ledger + reachability invariants by induction over heap-operation histories incl. the collector) + property oracle + differential correspondence")
E["C10"] = dict(
    text="PARTIAL by nature (the thousands of individual `if (!p)` branches are enumerated, not proved). Lean 4 theorems (Props/C10.lean, 22): a generic theorem "
         "unwind_balanced (for ANY acquire/goto-label/release table passing a decidable well-formedness check, under every failure pattern released = acquired, no "
         "duplicates; success owns everything; no refusal is swallowed) instantiated by `decide` on 14 constructor tables REGENERATED from the source on every run "
         "(extract/unwind.py: ecs_init/open, htb/arr/rbt open, init_token, hawk_init, hawk_open, hawk_openstdwithmmgr, init_rtx, hawk_rtx_open; fails closed); "
         "gc_calloc's collect-and-retry is bounded and ends in a block or ENOMEM; the ecs grow-or-fail logic is atomic under refusal; arr insert is atomic (from C19). "
         "Fault enumeration harness: counting/injecting allocator, fail-exactly-k and fail-from-k for every request index of an 18-program corpus through the whole "
         "open/parse/run/close life cycle (ENOMEM or identical output, no sanitizer report, zero live blocks, no foreign free), `hawk -m N` sweep; outcome per "
         "constructor phase compared with the model. "
         "Added in the last round: 23 unwind tables (xma/tio/fio/sio/pio/dir/mtx open), direct API cases for every gem/ecs/htb/rbt/arr/value wrapper under three fault patterns, life-cycle variants (openstdwithucstr, parse from memory + deparse to string, include dirs), CLI option sweeps; ecs nrcat/nccat/del/amend modelled.",
    note="Trusted: the translator's ALLOC/RELEASE/INERT name lists (printed in the evidence); HAWK_TOLERANT switched off for the enumeration (a failing print returns -1 by design with it on). "
         "Three recorded findings (EOPEN instead of ENOMEM from sio open wrappers; arr insert frees the caller's value when growth fails; setretval(make*val()) call sites).",
    tech="Lean 4 proof over unwind tables regenerated from the source (translator) + models of the retry/grow logic; fault enumeration supports, does not replace, the theorems")
E["C14"] = dict(
    text="PARTIAL (frames, not bytes). Lean 4 theorems (Props/C14.lean, 31): a generic theorem that in a finite call graph whose "
         "unguarded edges are acyclic every call stack consistent with the depth counters has length <= (sum of limits + 1)*|V|; its converse (a closed walk of unguarded edges "
         "gives unbounded stacks); the instance for the call graph REGENERATED from lib/*.c and bin/hawk.c on every run (extract/callgraph.py via clang AST: 306 nodes on cycles, "
         "683 edges, indirect calls resolved through tables/prototypes, guard idiom recognised, fails closed) checked by `decide +kernel` on a topological-numbering certificate; "
         "hawk_stack_bounded_partial for stacks avoiding the listed residual cycles, and residual_groups_known which breaks when a NEW unguarded cycle appears; CLI/library "
         "default limits positive and actually read; closed-form counter arithmetic for 21 nesting shape families with reject_iff_exceeds / within_limit_unaffected. "
         "Harness: the real bin/hawk.c with limit overrides, every (family, depth up to 10^6, limit configuration) under a fixed ulimit -s, outcome class compared with the model; "
         "any SIGSEGV outside the recorded findings is a violation. "
         "After the four repairs of the last round (else-if ladders, unbraced nesting, deparser left chains, nested container destruction) the list of known unguarded cycles is empty: the call graph has no residual group on the current tree.",
    note="Trusted: the extractor incl. 13 assumed-cut edges listed with reasons in the evidence; native frame sizes are not modelled. 3 recorded findings left (the two regex depth limits that are stored but never read, quadratic memory of deeply nested regex groups); formerly also (unguarded statement/destructor/deparser cycles, "
         "unread rex depth options, quadratic regex memory).",
    tech="Lean 4 proof over a call graph regenerated from the source (translator, decide +kernel certificate) + depth-counter model; differential classification of real runs")
E["C18"] = dict(
    text="PARTIAL (the executor of sed.c is modelled at command granularity; since round 5 the script-text compiler is modelled character by character). Lean 4 theorems (Props/C18.lean, 44) about a reference sed executor transcribed from "
         "sed.c's exec loop (cycle structure, match_address range machine, n/N/D end-of-input rules, a/i/c queues, q, y, l, branching with fuel, do_subst generic in the matcher): "
         "range_spec (the a1_matched machine = the declarative POSIX range function for every address kind and line sequence) and its end-to-end form, subst_occurrence (N-th / all "
         "matches over the leftmost non-overlapping sequence for every matcher), the t-flag law, empty-regex reuse, hold-space algebra, frame lemmas, forward scripts never run out "
         "of fuel. Three-way correspondence: hawk-sed vs the Lean model vs GNU `sed --posix` on generated scripts x inputs (with/without trailing newline, multibyte); "
         "hawk-sed != GNU sed where the model agrees with GNU = violation; model != GNU = model bug; byte-mutated scripts under ASan for the safety half. "
         "Added in the last round: the r command (modelled: readFile_effect), C escapes in regexes/replacements/y, stylised delivery (delimiters, blanks, comments, several -e/-f fragments, several input files).",
    note="Trusted: GNU sed 4.9 --posix as reference; the regex engine is a parameter (driver carries a small BRE matcher for the generator's pool). Not modelled: R/W/Q/z, k flag, I modifier. "
         "One recorded finding (N at end of input prints the pattern space, GNU default behaviour).",
    tech="Lean 4 proof about a reference executor (range automaton = spec, substitution law, hold-space algebra) + three-way differential correspondence with GNU sed")
E["C01"] = dict(
    text="PARTIAL by nature: memory safety of the unmodelled bulk of the interpreter is only sampled. Lean 4 theorems (Props/C01.lean, 14) over tables REGENERATED from the "
         "source on every run by clang-AST translators that fail closed (extract/fnc_dispatch.py, loops.py, div_sites.py, flag_sites.py): tagged_value_dispatch (each of the 46 "
         "casts of an argument value to a concrete value struct in fnc.c/mod-str.c/mod-hawk.c/misc.c/std.c/rec.c/rio.c is dominated only by the type tags that denote that struct), "
         "flag_index_range (every value set_global can store into gbl.ignorecase indexes the two-element arrays in range at all 8 uses), div_guards (every hawk_int_t / and % site in "
         "the evaluator and the constant folder is dominated by guards excluding 0 and (INT_MIN,-1)), index_bounds (regions handed to the finders by substr/index/match lie inside "
         "the subject, with C's signed/unsigned wrap modelled), halt_polled (every script- or count-controlled loop polls the halt flag each iteration; the only unpolled while(1) "
         "loops are the four format grow-and-retry loops), the repaired exponent loop is bounded by 64 iterations, failures carry a non-zero error number, model totality. "
         "Campaign: grammar-generated + template + byte/token-mutated programs (all 100 builtins/module functions) x input shapes x trait sets, in-process under ASan/UBSan/asserts "
         "with a statement heartbeat, repeated halt requests and a SIGKILL watchdog; any signal, sanitizer report, errnum 0 on failure, unanswered halt or unclean close is a violation. "
         "Added in the last round: the command-line front end as input (-v/-F/-f/operand/option combinations on the sanitized CLI), a sweep of every builtin/operator that has a byte-string twin with the patterns that decide termination, and setter histories (accepted then refused assignments to 22 special variables, through every write path).",
    note="Trusted: the extractors (shapes they do not understand fail the check); run.c/val.c casts are dispatched through function tables and are not in the table. The recorded findings (KNOWN_FINDINGS.txt) are the reference-argument half of the container-lifetime family (get_reference_indexed and the builtins storing through such a reference) "
         "and the quadratic regex compile; the indexed read/assign/delete half, the -v crash and the destructor/deparser recursion were repaired.",
    tech="Lean 4 proof over guard/dispatch/loop tables regenerated from the source (translators) + sanitizer campaign as correspondence and search")
E["C04"] = dict(
    text="Lean 4 theorems (Props/C04.lean, 30) about an executable transcription of hawk_rtx_readio's four record-separator branches and the console file chain "
         "(NEXT, FNR reset, FILENAME, NR/FNR): records_chunk_independent — for newline (CR stripping), single-character and paragraph modes, for EVERY chunking of the "
         "input into non-empty reads and from any reader state, the records equal a declarative splitter of the bytes; the (NR,FNR,FILENAME,record) sequence of any list of "
         "files equals the spec's and the end of a file ends the record (file_end_ends_record). Regex RS: the same under an explicit hypothesis Stable m (proved for literal "
         "separators), with a machine-checked counterexample for extensible patterns (records_chunk_independent_regex_partial, unstable_counterexample) = the recorded finding. "
         "Harness: custom console handler serving the same bytes under scripted chunkings (all 2^(n-1) chunkings of short inputs), the real std.c chain over temp files, getbline path; "
         "oracle: same bytes under different chunkings give the same records, python reference splitter; then diff with the model incl. in.pos/len/eof. "
         "Added in the last round: program families that abandon or interleave a stream (nextfile, getline forms from inside actions, side files with close/reopen, command pipes) under every RS mode and chunking; nextfile modelled (nextfile_drops_rest_of_file, script_chunk_independent).",
    note="Not modelled: handler error returns, sio/tio decoding below the handler (C15), the nrflt filter; hawk_rtx_readiobytes is the same text over bytes and is run, not modelled separately. "
         "One recorded finding (regex RS whose match can be extended across a read boundary).",
    tech="Lean 4 proof (chunk-independence by induction over chunk lists; regex mode partial under Stable) + schedule-independence oracle + differential correspondence")
E["C09"] = dict(
    text="PARTIAL (interleaving at API-call granularity; threads only through a ThreadSanitizer oracle with one interpreter per thread). Lean 4 theorems (Props/C09.lean, 23) about a state-machine model of the embedding API (shared read-only "
         "program + call-site cache; per-context run-time stack with stack_top, value heap with explicit reference counts, exit level, halt; open/call/loop/setgbl/getgbl/halt/close, "
         "clear/parse): noninterference (for any interleaving a context's observations equal those of its own ops run alone on a fresh interpreter; the only shared write, the "
         "call-site cache, is value-determined and idempotent), usable_after_failed_call (stack and exit level restored after EDIVBY0/ESTACK/EFUNNF/EARGTM at any depth; only exit/halt "
         "latch; loop unlatches), ownership_balanced / call_leaves_arguments / no_dangling / close_releases_all (reference counts exact on success, failure and exit paths), "
         "clear_then_parse_eq_fresh. Harness: one interpreter, 2-3 contexts, generated interleavings also run as per-context projections on fresh interpreters (observations and "
         "live-block counts must match), counting allocator + ASan; then diff with the Lean driver. "
         "Added in the last round: re-parse histories where both programs use @include/@include_once/@pragma, source pieces in every hawk_parsestd form, calls that fail half-way through their argument list, and the equivalent API entry points (callwith*/findfunwith*/execwith*/setgbl by name/openstdwith*) chosen per op.",
    note="Not modelled: awk-level by-ref copy-back, pattern-action blocks, pipes, the collector (C07), modules; true thread-level concurrency.",
    tech="Lean 4 proof (non-interference and ownership invariants over API-operation histories) + projection oracle on the real API + differential correspondence")
E["C17"] = dict(
    text="PARTIAL (expression language proved; statements, getline forms, redirections, regex/string escapes, renaming tied by correspondence only). Lean 4 theorems "
         "(Props/C17.lean, 13) about print_expr (as repaired) and a precedence-ladder parser driven by tables REGENERATED from parse.c/tree.c on every run (extract/precedence.py: token "
         "table, get_symbols ops[], the parse_expr..parse_primary ladder with each binmap, unary/inc maps, opcode enums, the *_str spelling tables; fails closed): roundtrip_exact "
         "(parse(print a) = norm a for every well-formed tree), roundtrip_twice (second generation accepted, third = second textually), every operator spelling lexes back to exactly one "
         "level's opcode, print_no_glue (adjacent printed tokens never lex differently; the cut rule agrees with the C symbol walk by kernel decide), nesting growth. "
         "Harness: full-language generated programs P -> D1 -> D2 -> D3 through `hawk -d`; acceptance, stdout, files, exit status and error class of P, D1, D2 compared on the real code "
         "(oracle), then D1 compared with the model's print(parse P) for expression programs. "
         "Added in the last round: a print/printf statement family (1..4 arguments x plain/compound/parenthesised/call in every position x every redirection kind x target forms) in which every item writes to its own file so the stream that got the text is observed; every string/char escape incl. NUL before a digit; other CLI modes.",
    note="The converse (image of parse is within WFparse) and fuel sufficiency of lexer/parser are not proved. Two recorded findings (50+-operator left chains deparse beyond the parse depth limit; "
         "folded non-finite constants print as `inf`).",
    tech="Lean 4 proof (printer/parser round trip over tables regenerated from the source) + behavioural round-trip oracle on the real deparser + differential correspondence")
E["C08"] = dict(
    text="Lean 4 theorems (Props/C08.lean, 27) about an executable transcription of eval_binop_*/eval_unary/assignment/inc-dec (run.c) and of fold_constants_for_binop and the unary "
         "folding (parse.c, incl. WHICH node field each case reads), floats abstract (any instance of the operations the C uses), over tables REGENERATED from the source on every run "
         "(extract/op_tables.py: opcode enums, binop_func[] order, assignment-op -> binop mapping, inc/dec handling; decide): fold_sound (every fold result equals the run-time result "
         "for every operator, node pair and inactive-field content), fold_error_matches, fold_total/eval_total (the partial machine division is never reached unguarded), "
         "storage_independent (any two non-aliasing placements among named/global/local/parameter/map element/array element give the same value or error and final store), "
         "byref_independent, literal_placement, inc_dec_pre/post. Two clauses are PARTIAL with machine-checked witnesses of necessity: compound_assign_partial (needs: y does not assign x; "
         "`x += (x=5)` evaluates the right side first) and fold_expr_error_partial (the folder reports division by zero also in branches never evaluated) = the two recorded findings. "
         "Harness: nine variant programs per expression tree (literal/folded, named, @global, @local, parameter, by-ref parameter, map with string/integer keys, array) run through the CLI; "
         "variant equality on the real output first, then every line compared with the model (driver emulates x87 extended floats exactly). "
         "Added in the last round: the inc/dec-versus-add-assign clause as an oracle on the implementation's own output, maps held by globals/locals/parameters, by-reference targets of every kind, nested containers, positional targets with float results.",
    note="Scalar operands and constant subscripts only; string<->number conversion, %.6g, comparison and matching are parameters; signed overflow and shift counts modelled as x86-64 computes them.",
    tech="Lean 4 proof (fold = eval, storage independence) over operator tables regenerated from the source + variant-equality oracle + differential correspondence")
E["C12"] = dict(
    text="Lean 4 theorems (Props/C12.lean, 23) about an executable transcription of the format scanner of hawk_rtx_format / hawk_rtx_formatmbs, fmt_uintmax (fmt-imp.h: digit loop, "
         "precision zeros, sign, prefix, the three fill layouts, required-length return and retry), the %c/%s emitters and fmt.c's float-spec recomposition, against a declarative ISO C "
         "specification CSpec.render: format_int_eq_C (d i o u x X with any flags in any order, literal or * width/precision incl. negatives, any 64-bit value, unbounded width/precision), "
         "format_char_eq_C, format_str_eq_C, %% , unknown/incomplete specs copied through unchanged, float_spec_passthrough (libc receives exactly the user's spec with * substituted), "
         "CONVFMT/OFMT take the same path, composition over a whole format string with arguments consumed in order, missing argument fails. Harness: hawk sprintf vs C snprintf with the "
         "equivalently typed argument on the flags x width x precision x conversion x value grid (oracle), printf through the CLI, CONVFMT/OFMT; then hawk vs the model and CSpec vs snprintf "
         "(the hand-written C spec is itself validated against glibc on every run). "
         "Added in the last round: the other consumers of number-to-string conversion (subscripts, SUBSEP keys, comparison, gsub targets, by-reference parameters, OFMT output) at text lengths straddling the fixed buffers (63..65, 126..129, 255..257, 4095..4097) and hawk_rtx_valtostr's five output kinds through the API, with whole-text-or-failure theorems for the fixed-buffer kinds.",
    note="Trusted: libc float digit generation; valtoint/valtoflt/valtostr results are carried as arguments; GROW buffer management (ASan); widths/precisions >= 2^31 outside the claim "
         "(`%.2147483648g` overflows a stack buffer in fmt.c: recorded under C01's scope in DESIGN.md).",
    tech="Lean 4 proof (hawk's integer/char/string conversions = ISO C rendering for all flags/widths/precisions/values) + snprintf oracle + differential correspondence")
E["C02"] = dict(
    text="PARTIAL by nature (equality with reference implementations is differential). Lean 4 theorems (Props/C02.lean, 47 obligations) about a hand-written Lean reference interpreter for the "
         "POSIX-compatible subset (BEGIN/END/pattern/range rules, control flow, exact-integer and string expressions, fields/NF/$0 rebuilds, blank and single-char FS, OFS/ORS/SUBSEP, arrays "
         "by reference, user functions with recursion, the string builtins, integer/string printf conversions, the four getline forms, > >> close, numeric strings; fuel with an explicit "
         "out-of-fuel error): range_automaton_spec (a range rule fires on record i iff some j<=i matches begin and no record in [j,i) matches end), the twelve driver_phases theorems (exit in "
         "BEGIN skips input and still runs END; exit in a main rule runs END; exit in END stops; status = last exit expr mod 256; next; end of input), getline_counters for every form, "
         "uninitialised = 0 and empty, number<->string round trips on canonical numerals, determinism, fuel exhaustion is reported. Two ties: hawk <-> model on typed-generator programs x "
         "multi-file inputs, and (gawk --posix AND mawk agree) <-> model, which validates the model as reference; hawk != agreed references (model = references) is a violation with program, "
         "inputs and the outputs as replay; model != references is a model bug (correspondence, no failing input). "
         "Added in the last round: the invocation (-F, -v in order, var=value operands processed when reached) in the model with theorems cmdline_before_begin / operand_assignment_when_reached; match() with RSTART/RLENGTH, regular-expression sub/gsub, printf float conversions of integers; special variables assigned from unset/number/expression values.",
    note="Trusted: gawk 5.2.1 and mawk 1.3.4 where they agree; the pairing of awk text and encoded AST in the generator. Outside the profile: inexact division, non-canonical numerals, "
         "index(s,\"\"), substr with start < 0 (references disagree). Two recorded findings (numeric-string detection of bare fields is off because hawk_clear drops the option bit; the subscript "
         "of a read-modify-write lvalue is evaluated twice).",
    tech="Lean 4 proof about a reference interpreter (range automaton, phase driver, getline counters) + two differential correspondences (hawk and gawk/mawk vs the model)")
E["C06"] = dict(
    text="PARTIAL (TRE's TNFA construction and its two matchers are NOT modelled; they are tied by bounded exhaustive correspondence only). Lean 4 theorems (Props/C06.lean, 34) about a "
         "verified SPECIFICATION matcher for EREs (chars, ., bracket classes, ^ $, concat, |, * + ? {m,n}, groups; NOTBOL; IGNORECASE): ends_sound_complete (the executable set of end positions "
         "= the denotational Matches relation), matchLL_sound_complete (returns (start,len) iff it is a match, none starts earlier, none from that start is longer; none iff no match), uniqueness, "
         "the algebraic laws (star unfolding, {m,n} expansions, groups transparent), icase_eq_fold, notbol_suffix. Harness: the real hawk_rtx_matchrex wrappers (backtracking engine, which every "
         "awk-level match uses), the parallel engine (used by hawk-sed) and glibc regexec on every ERE tree up to a size bound over {a,b} x every subject up to a length bound x IGNORECASE x NOTBOL "
         "(1.2M pairs quick, 15.8M thorough), plus ~, match(), gsub, split, regex FS at language level; a python leftmost-longest reference and engine agreement are the oracle, then the Lean "
         "matcher is compared with the reference. "
         "Added in the last round: all twelve named classes, word assertions (\\< \\> \\b \\B, with the machine-checked witness that the suffix theorem fails for them), NOTEOL, hex escapes, every {m,n} form, POSIX-invalid patterns both sides must reject, and six more API entry points per request.",
    note="Trusted: since round 5 tre-parse.c is transcribed and tied tree by tree; the older ERE text parser in the driver only gates which constructs the specification matcher covers (cross-checked by a python parser and glibc on every pair); ASCII case folding; submatch offsets not compared. One recorded finding "
         "(tre-empty-path-anchor: a nullable sub-expression is skipped along one fixed empty path whose ^/$ assertions it inherits; both engines).",
    tech="Lean 4 proof of a specification matcher (leftmost-longest soundness and completeness) + bounded-exhaustive correspondence with both TRE engines and glibc")

# ---- round 5 addenda: (old count text -> new count text, sentence appended to the claim, optional technique suffix)
R5 = {}
R5["C10"] = (("Props/C10.lean, 22", "Props/C10.lean 30 + Props/C10b.lean 11"),
    "Round 5: a second translator pass (extract/unwind_wide.py) scans every function of lib/*.c; of 207 functions with two or more acquisition sites and a failure exit, "
    "112 of 208 are established after the second increment (233 tables for 463 acyclic paths in a second table language with main-path releases and element-wise filled objects; ft_unwind_balanced, ft_failure_reported, ft_partial_fill_released, wide_*), 8 translate but are "
    "explained as not established, 88 are listed by name with the reason; a baseline file turns a function that stops satisfying the law into a violation. C10b proves the "
    "GC-then-retry bound and the ENOMEM plumbing gem -> rtx -> hawk over whole call trees. The tables exposed five defects, all repaired (c9ad707, d48d699, 6d7630a - the former "
    "finding oom:fnc-setretval-null-value -, 6437739, 98cbd82). Quick-tier site coverage of the new tables by injected failures: 65 of 100 functions.")
R5["C02"] = (("Props/C02.lean, 47 obligations", "Props/C02.lean, 69 obligations"),
    "Round 5: a standing exhaustive grid print/printf x redirection operator x shape of the last member x shape of the target x parenthesised list x member count, every written "
    "file or pipe read back inside the program and compared across hawk, gawk and mawk and the Lean interpreter (closes the round-4 miss as a class); all getline forms pairwise; output "
    "pipes, input pipes and read-back after close are inside the reference interpreter; theorems for the missing getline rows, EOF, strnum comparison with antisymmetry, output order "
    "across redirections, close/read-back specifications. The grid exposed the recorded finding print-redirection-after-low-precedence-member.")
R5["C07"] = (("Props/C07.lean, 14", "Props/C07.lean, 35"),
    "Round 5: call frames (hawk_rtx_callfun/evalcall/run_block as holder operations; call_balanced, calls_are_histories), per-generation soundness AND completeness of the collector "
    "for arbitrary object graphs (ReachG; young_collect_complete/young_collect_sound), promotion, pressure/threshold counters, teardown from any invariant state; constants and the "
    "collector's phase skeleton regenerated from val.c on every run (extract/gc_const.py, consts_match_source); oracle-only call-frame family (direct call / hawk::call x by-value/by-reference "
    "parameter orders x return/error/exit); distinct_nontrivial is now a measured count of branch signatures.")
TIE = ("Round 5: the integer arithmetic under these theorems is no longer tied by testing alone: extract/c2lean.py translates the C functions/fragments from clang's typed AST into "
       "Gen/CFuns*.lean on every run and Props/%sTie.lean proves, for all inputs on the stated no-wrap domain, that the hand-written model functions equal the translated C (%s); a semantic "
       "edit of those lines breaks a proof even when no generated case reaches it.")
R5["C20"] = (("Props/C20.lean, 31", "Props/C20.lean 31 + Props/C20Tie.lean 13"), TIE % ("C20", "szlog2, getxfi, bdec, roundReq in alloc and realloc, the wrapped-size refusal, initSize, the split test and sizes of alloc_from_freelist, both branches of _realloc_merge, the three coalescing cases of free"))
R5["C19"] = (("Props/C19.lean, 30", "Props/C19.lean 30 + Props/C19Tie.lean 15"), TIE % ("C19", "the maxCapa tests, minimum capacity, 64-alignment, the doubling loop, the halving retry step, heap parent/child choice, the delete/uplete count clamps"))
R5["C16"] = (("Props/C16.lean 30 + Props/C16Htb.lean 39", "Props/C16.lean 30 + Props/C16Htb.lean 39 + Props/C16Tie.lean 7"), TIE % ("C16", "htb initial capacity/factor/threshold, the growth rule and threshold of reorganize, the bucket index at all seven sites, the grow test"))
R5["C11"] = (("Props/C11.lean, 25", "Props/C11.lean 25 + Props/C11Tie.lean 9"), TIE % ("C11", "__cmp_ensure_not_equal for all hints, five leaf comparators, the CMP_ERROR test and sign mirror"))
R5["C08"] = (("Props/C08.lean, 27", "Props/C08.lean, 36"),
    "Round 5: the storage layer itself is inside the model: parse_block's slot layout (outer_nlcls/org_nlcls/nlcls_max) and run_block0's push and reset of block-level locals, by-reference calls over stack garbage "
    "(ExprBlock.lean); block_locals_scoped / block_placement_independent / block_frame_top / byref_block_call prove that the flat frame simulates lexically scoped locals for all programs of the model language, "
    "all non-aliasing placements and all garbage histories in the dead slots; the node-type -> evaluator table, do_assignment's switch and the block constants are regenerated from run.c/parse.c (extract/op_tables.py) and "
    "tied by theorems; a block-locals family (depth 1-3 x enclosing locals x six same-frame histories) closes the round-4 miss as a class.")
R5["C04"] = (("Props/C04.lean, 30", "Props/C04.lean 35 + Props/C04Stack.lean 10"),
    "Round 5: separator assignment and the readers' mode selection over ALL histories of RS/FS/CONVFMT/IGNORECASE assignments (mode_fixed_at_last_assignment, regex_mode_only_with_compiled_regex; the unrepaired reader modelled "
    "beside it with the crash witness) - the float-RS/FS-across-CONVFMT crash family is repaired in /repo (5492055); the layers below rio are inside the model by composing C15's tio model: chunk independence is proved bytes -> "
    "characters -> records for all partitions and codecs, single and multi-file (records_from_bytes_chunk_independent, console_from_bytes_eq_spec); buffer sizes regenerated from the headers (extract/rio_sizes.py).")
R5["C17"] = (("Props/C17.lean, 13", "Props/C17.lean, 26"),
    "Round 5: the STATEMENT language is inside the model and the proof: printS transcribes print_stmt byte for byte, parseStmt transcribes the statement parser (blocks with @local, if/else incl. dangling else and ladders, "
    "while, do-while, for in every form, for-in, jump statements, delete/@reset, print/printf with argument lists); stmt_roundtrip_partial / stmt_print_stable / stmt_roundtrip_twice_partial prove acceptance, equivalence and textual "
    "stability of the second generation for every parser-returnable statement tree (print with every redirection form included since the second increment; the top level - @global line, function headers with __pN parameters, BEGIN/pattern/END units - is modelled, proved (prog_roundtrip_partial, canonical_names_resolve) and tied unit by unit; excluded and named: getline, by-reference/variadic parameters, @pragma); keyword and redirection spellings regenerated from "
    "kwtab[] / print_outop_str[] (extract/keywords.py); every block of every deparsed program is re-read and re-printed by the model and compared with hawk's second deparse byte for byte. New recorded finding: deparse-float-precision.")
R5["C18"] = (("Props/C18.lean, 44", "Props/C18.lean, 72"),
    "Round 5: the script COMPILER of sed.c is inside the model (SedParse.lean transcribes hawk_sed_comp and every argument reader character by character; harness/sedc_h.c dumps the compiled hawk_sed_cmd_t chain of the real "
    "code - regex sources, arguments, resolved branch targets, error codes - under three chunkings of the script stream); compileText_total, parse_balanced, parse_labels_unique, parse_well_addressed, compile_targets_inside, a "
    "printer with parseScript (printCmds cs) = cs for every command incl. regex addresses and s with all flag combinations (regexes/replacements that need no escaping), the -e/-f joining rules, y as a pointwise map, the compiler never reports its internal guard error; executor-level laws for the two seeded classes: the last regex is recorded by every evaluated address and every s independent of the matcher (empty_subst_after_address), the append queue is unbounded and flushed every cycle (appends_every_cycle), per-cycle output order, s///g over the match sequence.")
R5["C06"] = (("Props/C06.lean, 34", "Props/C06.lean, 52"),
    "Round 5: TRE's front end is inside the model: RexParse.lean transcribes tre-parse.c and produces TRE's syntax tree node for node (harness/rexparse_h.c dumps the real tree after tre_parse(); ~70k patterns per quick run "
    "incl. exhaustive syntax strings, all eight reject classes); the campaign's Lean matcher now runs on that tree; theorems: tree denotation = POSIX denotation (both former exclusions - negated-class lists and classes under REG_ICASE - lifted in the second increment; back references excluded), "
    "the verified matcher on the parsed tree is leftmost-longest, submatch marking is language-neutral, a negated bracket is exactly the complement for every item list; tre_macros/ASSERT_* regenerated (extract/tre_tables.py). "
    "What remains untied is exactly tre-compile.c and the two simulations. One defect repaired (a014671).")
R5["C09"] = (("Props/C09.lean, 23", "Props/C09.lean, 46"),
    "Round 5: a second, object-level model (CtxApi.lean) over several hawk_t each with several runtimes: open/close/clear/parse, callback chains, addgbl/delgbl/addfnc/delfnc, error number per object, halt vs haltall, "
    "options, application handles with refup/refdown/refdown_nofree, setgbl/getgbl, getvaloocstr/valtostr ownership modes; 23 theorems for all interleavings (non-interference, commutation, error-per-object with the one documented "
    "leak to the hawk's error number, halt locality, callback order and exactly-once, nothing touched after close); harness/ctxapi_h.c with one owner-tagging counting allocator per hawk_t judged interleaved vs projected; a "
    "ThreadSanitizer oracle (one hawk_t per thread) for hidden shared globals; extract/c09_clear_fields.py ties 'a reset interpreter is a fresh one' to hawk_clear() field by field. Two defects repaired (123d282, 2f4375d).")
R5["C12"] = (("Props/C12.lean, 23", "Props/C12.lean, 40"),
    "Round 5: the float branch is trusted only for libc's digit generation: FmtOut.lean transcribes fmt.c's specifier buffer, re-composition, the snprintf call/retry loop and delivery with libc as a parameter constrained "
    "only by snprintf's contract (float_spec_denotes, float_spec_fits_buffer, float_out_delivers_untruncated, float_out_is_libc); the harness interposes on snprintf at link time and compares format text, argument and buffer "
    "protocol with the model on every float conversion; the two formatters' scratch buffers over sequences (scratch_* theorems, wide/byte sequences straddling the growth steps); both dispatch chains, integer switches and the flag "
    "order regenerated from run.c/fmt.c (extract/fmt_dispatch.py) with tie theorems. One defect repaired (21c63f2).")
R5["C01"] = (("Props/C01.lean, 14", "Props/C01.lean, 19"),
    "Round 5: four more regenerated tables over a shared dominating-facts walker (extract/c01_paths.py): arg_index_below_arity (74 hawk_rtx_getarg sites against the function-table arity or a dominating nargs test), "
    "subscripts_in_range (504 subscripts into fixed-length arrays: 396 classified and bounded, 108 pinned to a 49-function residue list; enum-indexed tables sized to their enums), switch_total (88 switches over enumerators), "
    "retry_measure_decreases (every retry-after-failure loop has a give-up test and a strictly decreasing step), fmt_number_scan_bounded; six new campaign families (value-type setter histories with CONVFMT between caching and use, "
    "huge counts, raw NUL/invalid UTF-8, end of input inside every token kind, twin wide/byte sequences with scratch-buffer history, far-out hawk::array subscripts, -m memory limits).")
R5["C13"] = (("Props/C13.lean, 53", "Props/C13.lean 53 + Props/C13Tie.lean 6"), TIE % ("C13", "the substr index and count clamps of fnc.c, character and byte arms, on the full int64 domain"))
R5["C15"] = (("Props/C15.lean, 50", "Props/C15.lean 50 + Props/C15Tie.lean 3"), TIE % ("C15", "the three byte expressions of hawk_uc_to_utf8; the table walk, loop structure and all of hawk_utf8_to_uc/hawk_utf8_len stay under correspondence: signed bytes, table iteration and early returns are outside the translator's subset"))
for _pid, (_cnt, _txt) in R5.items():
    if _cnt:
        assert _cnt[0] in E[_pid]["text"], (_pid, _cnt[0])
        E[_pid]["text"] = E[_pid]["text"].replace(_cnt[0], _cnt[1])
    E[_pid]["text"] += " " + _txt
for _pid in ("C20", "C19", "C16", "C11", "C13", "C15"):
    E[_pid]["tech"] += " + C-to-Lean translation of the integer arithmetic with kernel-checked equivalence to the model"

claimed = sorted(E)
checks = []
for pid in claimed:
    e = E[pid]
    checks.append({
        "property_id": pid,
        "quick_cmd": "./check %s --tier quick" % pid,
        "thorough_cmd": "./check %s --tier thorough" % pid,
        "evidence_file": "evidence/%s.json" % pid,
        "replay_cmd_template": "./check %s --replay {path}" % pid,
        "engine": "lean4-proof+correspondence",
        "level_claimed": {"category": "proof", "text": e["text"], "design_ref": "DESIGN.md section 5 (%s) and section 11" % pid},
        "level_note": COMMON_NOTE + e["note"],
        "technique": e["tech"],
    })
na = [{"property_id": p["id"], "reason": e} for p in props if p["id"] not in claimed
      for e in ["check not merged yet in this round (being built; see DESIGN.md section 10/11)"]]
m = {"version": 1,
     "setup_cmd": "cd lean && lake build HawkModel hawkdrv",
     "hooks": {"guard": "HAWK_VERIF",
               "enable": "checks compile /repo/lib/*.c themselves into a scratch libhawk.a with -DHAWK_VERIF (vlib/common.py CDEFS); no source hook has been needed",
               "baseline_off_cmd": "cd /repo && make -j16 >/dev/null && make -C t check",
               "source_commits": [], "add_only": True},
     "engines": [{"name": "lean4-proof+correspondence", "path": "check", "serves_properties": claimed,
                  "kind_free_text": "Lean 4 theorems about executable models (lean/HawkModel), tied to /repo by translators (extract/) and differential harnesses (harness/) driven by vlib/"}],
     "checks": checks,
     "not_applicable": na,
     "notes": "See DESIGN.md. KNOWN_FINDINGS.txt lists recorded findings and repaired defects (fix: commits in /repo)."}
json.dump(m, open(os.path.join(V, "MANIFEST.json"), "w"), indent=1)
print("claimed:", claimed)
