#!/usr/bin/env python3
"""seed_prompt.py <ID> <n_bugs> [hint...] -> prints the prompt for a bug-seeding sub-agent (property text only, nothing from /verif)"""
import json, sys
pid = sys.argv[1].upper(); n = int(sys.argv[2]); hint = " ".join(sys.argv[3:])
p = [json.loads(l) for l in open('/verif/properties.jsonl') if json.loads(l)['id'] == pid][0]
wt = "/tmp/seed_%s" % pid.lower()
print(f"""You are testing a verification effort by writing realistic, subtle bugs. You work ONLY in the git worktree {wt} (a checkout of the C project "hawk", an embeddable AWK interpreter with its own containers, regex engine, sed and allocator; already configured and built in place: `make -j8` rebuilds, `make -C t check` runs the test suite [866 TAP points, all passing now; ~15 s]). Do not look at or touch anything under /verif, /repo or /var/tmp/agents — your changes must be independent of any existing verification machinery.

The property you must BREAK (exact text):
"{p['id']} — {p['title']}. {p['statement']}"
Quantifier: {p['quantifier']['text']}
Code involved: {', '.join(p['anchors']['files'])}.

Produce {n} different, independent changes (each as its own patch against the worktree's HEAD) that each break this property while (a) the project still compiles, and (b) the existing test suite still passes completely (`make -j8 && make -C t check`: 866 PASS, 0 FAIL). Each change must need something SPECIFIC to manifest — a particular interleaving, a fault at a particular point, a multi-step sequence of operations, an unusual input or size relation, or two cooperating sites that each look fine alone — not something that ordinary use exposes at once. Make them look like plausible maintenance mistakes (off-by-one at a boundary, a bookkeeping update dropped in one branch, a wrong variable, an "optimisation" that is wrong in a corner, a guard weakened), not sabotage; keep each patch small (a few lines). Vary where they are: different functions / different clauses of the property. {hint}

For each change provide a demonstration: a small C program linked against the built library (compile e.g. with `gcc -I lib -DHAVE_CONFIG_H -DHAWK_HAVE_CFG_H -fshort-wchar demo.c lib/.libs/libhawk.a -lm -ldl -lpthread -lquadmath -o demo`; look at t/t-*.c and t/Makefile for how tests are built) or a hawk script run with `LD_LIBRARY_PATH=lib/.libs timeout -s KILL 20 bin/.libs/hawk --modlibdirs=lib/.libs:mod/.libs 'PROGRAM'` (hawk ignores SIGTERM inside a statement: always `timeout -s KILL`) that FAILS (wrong output / assertion / crash / hang caught by the timeout) with the change and PASSES without it. Verify everything yourself: with each patch applied alone — build, full test suite passes, demo fails; with the original tree — demo passes.

Write the results into {wt}/out/: for k in 1..{n}: `bugK.diff` (`git diff` of that change alone, applicable with `git apply` at HEAD), `bugK_demo.c` or `bugK_demo.sh` (with the exact command line in a comment at the top), `bugK.txt` (which clause of the property it breaks, what it needs in order to manifest, what you ran and what you observed with/without). Leave the worktree's tracked files restored at the end (`git checkout -- .`). Final report: one short paragraph per bug.""")
