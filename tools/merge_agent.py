#!/usr/bin/env python3
"""merge_agent.py <area> [--apply]  — list (and with --apply copy) files an agent produced in
/var/tmp/agents/<area>/verif that are new or changed relative to /verif. Shared files
(common.py, check, Driver.lean, HawkModel.lean, MANIFEST.json, KNOWN_FINDINGS.txt, DESIGN.md, guide)
are never copied: their diffs are printed for manual merging."""
import filecmp, os, shutil, subprocess, sys

area = sys.argv[1]
apply_ = "--apply" in sys.argv
W = "/var/tmp/agents/%s/verif" % area
V = "/verif"
SHARED = {"vlib/common.py", "check", "lean/Driver.lean", "lean/HawkModel.lean", "MANIFEST.json", "KNOWN_FINDINGS.txt",
          "DESIGN.md", "notes/AGENT_GUIDE.md", "lean/lakefile.toml", ".gitignore", "lean/lake-manifest.json"}
SKIP_DIRS = {".lake", "__pycache__", "replay", "evidence", "repo", ".git"}
new, changed, shared = [], [], []
for root, dirs, files in os.walk(W):
    dirs[:] = [d for d in dirs if d not in SKIP_DIRS]
    for f in files:
        p = os.path.join(root, f)
        rel = os.path.relpath(p, W)
        if rel.endswith(".pyc"):
            continue
        q = os.path.join(V, rel)
        if rel in SHARED:
            if not os.path.exists(q) or not filecmp.cmp(p, q, shallow=False):
                shared.append(rel)
        elif not os.path.exists(q):
            new.append(rel)
        elif not filecmp.cmp(p, q, shallow=False):
            changed.append(rel)
print("NEW:", *new, sep="\n  ")
print("CHANGED (non-shared, existing in /verif):", *changed, sep="\n  ")
print("SHARED differing:", *shared, sep="\n  ")
for rel in shared:
    if rel in ("lean/Driver.lean", "lean/HawkModel.lean", "vlib/common.py", "KNOWN_FINDINGS.txt"):
        print("---- diff", rel)
        subprocess.call(["diff", "-u", os.path.join(V, rel), os.path.join(W, rel)])
if apply_:
    for rel in new:
        os.makedirs(os.path.dirname(os.path.join(V, rel)) or V, exist_ok=True)
        shutil.copy2(os.path.join(W, rel), os.path.join(V, rel))
    print("copied %d new files; CHANGED files NOT copied (do by hand if intended)" % len(new))
