#!/usr/bin/env python3
"""gen_ledger.py — regenerates the machine-written part of DESIGN.md section 11 (between the markers
<!-- LEDGER:BEGIN --> and <!-- LEDGER:END -->) from evidence/*.json, KNOWN_FINDINGS.txt, seeded/*/*/meta.json and
seeded/detect.json (written by tools/run_seeded.py runs, merged over time)."""
import glob, json, os, re

V = os.path.dirname(os.path.dirname(os.path.abspath(__file__)))
man = json.load(open(os.path.join(V, "MANIFEST.json")))
claimed = [c["property_id"] for c in man["checks"]]
titles = {json.loads(l)["id"]: json.loads(l)["title"] for l in open(os.path.join(V, "properties.jsonl"))}
kf = open(os.path.join(V, "KNOWN_FINDINGS.txt")).read().splitlines()
fixed = {}
finding = {}
for l in kf:
    m = re.match(r"fixed:\s+property=(\S+)\s+(\S+)\s+(.*)", l)
    if m:
        fixed.setdefault(m.group(1), []).append((m.group(2), m.group(3)))
    m = re.match(r"finding:\s+property=(\S+)\s+sig=(\S+)\s+(.*)", l)
    if m:
        finding.setdefault(m.group(1), []).append((m.group(2), m.group(3)))
det = {}
p = os.path.join(V, "seeded", "detect.json")
if os.path.exists(p):
    det = json.load(open(p))
out = []
out.append("| id | theorems (all axiom-audited) | evaluations / distinct non-trivial (quick, seed 1) | repaired defects (`fix:` commits) | recorded findings | seeded changes detected |")
out.append("|----|----|----|----|----|----|")
tot_t = tot_f = tot_k = tot_s = tot_sd = 0
for pid in sorted(claimed):
    ev = {}
    ep = os.path.join(V, "evidence", pid + ".json")
    if os.path.exists(ep):
        ev = json.load(open(ep))
    cov = ev.get("coverage", {})
    seeds = sorted(glob.glob(os.path.join(V, "seeded", pid, "*", "patch.diff")))
    names = [os.path.basename(os.path.dirname(s)) for s in seeds]
    nd = sum(1 for n in names if det.get(n, {}).get("detected"))
    tot_t += cov.get("discharged", 0); tot_f += len(fixed.get(pid, [])); tot_k += len(finding.get(pid, [])); tot_s += len(names); tot_sd += nd
    out.append("| %s | %s/%s | %s / %s | %d | %d | %d of %d |" % (
        pid, cov.get("discharged", "?"), cov.get("obligations", "?"), cov.get("evaluations", "?"), cov.get("distinct_nontrivial", "?"),
        len(fixed.get(pid, [])), len(finding.get(pid, [])), nd, len(names)))
out.append("| **all** | **%d** | | **%d** | **%d** | **%d of %d** |" % (tot_t, tot_f, tot_k, tot_sd, tot_s))
out.append("")
out.append("Repaired defects, by property (commit in /repo, what failed):")
out.append("")
for pid in sorted(fixed):
    for h, t in fixed[pid]:
        out.append("* %s `%s` %s" % (pid, h, t))
out.append("")
out.append("Recorded findings (genuine defects not repaired because no small-and-safe patch exists or the behaviour is a maintainer decision; each has a signature implemented in its check, so any other violation of the same property still fails):")
out.append("")
for pid in sorted(finding):
    for sig, t in finding[pid]:
        out.append("* %s `%s` %s" % (pid, sig, t))
out.append("")
out.append("Seeded changes (written by independent sub-agents from the property text alone, each confirmed: builds, 866/866 tests pass, demo fails with / passes without):")
out.append("")
for pid in sorted(claimed):
    for s in sorted(glob.glob(os.path.join(V, "seeded", pid, "*", "meta.json"))):
        n = os.path.basename(os.path.dirname(s))
        meta = json.load(open(s))
        d = det.get(n, {})
        st = ("detected by %s (%s)" % (",".join(d.get("by", [])), d.get("how", "quick tier"))) if d.get("detected") else ("NOT detected" if n in det else "not run yet")
        if str(meta.get("status", "")).startswith("neutralised"):
            st = "no longer a defect — " + meta["status"][:300]
        out.append("* %s — %s — %s" % (n, st, meta.get("summary") or meta.get("breaks", "")[:260]))
text = "\n".join(out)
dp = os.path.join(V, "DESIGN.md")
s = open(dp).read()
b, e = "<!-- LEDGER:BEGIN -->", "<!-- LEDGER:END -->"
if b in s and e in s:
    s = s[:s.index(b) + len(b)] + "\n" + text + "\n" + s[s.index(e):]
    open(dp, "w").write(s)
    print("ledger updated: %d theorems, %d fixes, %d findings, %d/%d seeded" % (tot_t, tot_f, tot_k, tot_sd, tot_s))
else:
    print(text)
