#!/usr/bin/env python3
"""coverage.py [--tier quick|thorough] [ID ...] — which implementation lines does each check's campaign execute?

Runs every claimed check (or the listed ones) with HAWK_VERIF_COV set: the implementation and the harnesses are then
built with gcov instrumentation (separate build-cache key), and after each check the counters are read with
`gcov --json-format` and reset, so the figures are per property. For each property the report covers the files the
property is anchored in (properties.jsonl anchors.files): executed / executable lines per file, and every function in
them that the campaign never entered or entered but left >=8 lines unexecuted. Output: coverage/<ID>.json (machine
readable) and notes/COVERAGE.md (summary). This measures the *reach of the correspondence tie*: a change on a line no
campaign executes can only be caught by a translator or by a proof obligation, never by the differential run.
It is a measuring tool for the builders; no check depends on it."""
import glob, gzip, json, os, subprocess, sys

V = os.path.dirname(os.path.dirname(os.path.abspath(__file__)))
sys.path.insert(0, V)
COVDIR = "/var/tmp/hawkverif-cov"
os.environ["HAWK_VERIF_COV"] = COVDIR
from vlib import common as C  # noqa: E402  (must see HAWK_VERIF_COV)

tier = "quick"
ids = []
a = sys.argv[1:]
i = 0
while i < len(a):
    if a[i] == "--tier":
        tier = a[i + 1]; i += 2
    else:
        ids.append(a[i].upper()); i += 1
props = {json.loads(l)["id"]: json.loads(l) for l in open(os.path.join(V, "properties.jsonl"))}
man = json.load(open(os.path.join(V, "MANIFEST.json")))
claimed = [c["property_id"] for c in man["checks"]]
ids = ids or claimed
os.makedirs(COVDIR, exist_ok=True)
os.makedirs(os.path.join(V, "coverage"), exist_ok=True)
builddir = os.path.join(C.CACHE, C.repo_hash("san"))


def reset():
    for f in glob.glob(builddir + "/*.gcda"):
        os.unlink(f)
    for d in glob.glob(COVDIR + "/harness-*"):
        subprocess.call(["rm", "-rf", d])


def gcov_dir(d):
    """-> {source path: {"lines": {n: count}, "functions": {name: (start, end, count)}}} for all .gcda in d"""
    res = {}
    gcdas = sorted(glob.glob(d + "/*.gcda"))
    if not gcdas:
        return res
    outs = []
    for g in gcdas:      # one at a time: a counter file cut short by a SIGKILLed process must not hide the others
        p = subprocess.run(["gcov", "--json-format", "--stdout", g], cwd=d, stdout=subprocess.PIPE, stderr=subprocess.DEVNULL)
        outs.append(p.stdout.decode(errors="replace"))
    for chunk in "\n".join(outs).split("\n"):
        chunk = chunk.strip()
        if not chunk.startswith("{"):
            continue
        try:
            j = json.loads(chunk)
        except ValueError:
            continue
        for f in j.get("files", []):
            path = os.path.normpath(os.path.join(j.get("current_working_directory", d), f["file"]))
            e = res.setdefault(path, dict(lines={}, functions={}))
            for ln in f.get("lines", []):
                n = ln["line_number"]
                e["lines"][n] = e["lines"].get(n, 0) + ln["count"]
            for fn in f.get("functions", []):
                old = e["functions"].get(fn["name"])
                cnt = fn["execution_count"] + (old[2] if old else 0)
                e["functions"][fn["name"]] = (fn["start_line"], fn["end_line"], cnt)
    return res


def merge(a_, b_):
    for path, e in b_.items():
        t = a_.setdefault(path, dict(lines={}, functions={}))
        for n, c in e["lines"].items():
            t["lines"][n] = t["lines"].get(n, 0) + c
        for k, v in e["functions"].items():
            o = t["functions"].get(k)
            t["functions"][k] = (v[0], v[1], v[2] + (o[2] if o else 0))
    return a_


summary = []
allcov = {}
for pid in ids:
    reset()
    env = dict(os.environ, HAWK_VERIF_COV=COVDIR)
    evp = os.path.join(V, "evidence", pid + ".json")
    bak = open(evp).read() if os.path.exists(evp) else None
    p = subprocess.run([os.path.join(V, "check"), pid, "--tier", tier], cwd=V, env=env, stdout=subprocess.PIPE, stderr=subprocess.STDOUT, text=True)
    if bak is not None:
        open(evp, "w").write(bak)          # evidence describes the ordinary (uninstrumented) run
    verdict = [l for l in p.stdout.splitlines() if l.startswith(("OK", "VIOLATION"))][:1]
    cov = gcov_dir(builddir)
    for d in glob.glob(COVDIR + "/harness-" + pid):
        merge(cov, gcov_dir(d))
    merge(allcov, cov)
    files = {}
    for anchor in props[pid]["anchors"]["files"]:
        full = os.path.normpath(os.path.join(C.REPO, anchor))
        e = cov.get(full)
        if not e:
            files[anchor] = dict(executable=0, executed=0, note="no counters (file not built into any instrumented object of this check)")
            continue
        ex = len(e["lines"]); hit = sum(1 for c in e["lines"].values() if c > 0)
        never, partial = [], []
        for name, (s, t, cnt) in sorted(e["functions"].items(), key=lambda kv: kv[1][0]):
            ls = [n for n in e["lines"] if s <= n <= t]
            miss = [n for n in ls if e["lines"][n] == 0]
            if cnt == 0:
                never.append(dict(function=name, line=s, lines=len(ls)))
            elif len(miss) >= 8:
                partial.append(dict(function=name, line=s, lines=len(ls), unexecuted=len(miss)))
        files[anchor] = dict(executable=ex, executed=hit, never_entered=never, partly=partial)
    json.dump(dict(property=pid, tier=tier, verdict=verdict, files=files), open(os.path.join(V, "coverage", pid + ".json"), "w"), indent=1)
    tot = sum(f["executable"] for f in files.values()); hit = sum(f["executed"] for f in files.values())
    summary.append((pid, verdict, files, tot, hit))
    print("%s %s: %d/%d executable lines of its anchored files executed" % (pid, verdict[0][:40] if verdict else "?", hit, tot), flush=True)
reset()
if len(ids) == len(claimed):
    # union over every check: what no campaign at all executes, per implementation file
    un = {}
    for path, e in sorted(allcov.items()):
        if not path.startswith(C.REPO + "/") or not e["lines"]:
            continue
        rel = path[len(C.REPO) + 1:]
        never = [dict(function=k, line=v[0], lines=len([n for n in e["lines"] if v[0] <= n <= v[1]]))
                 for k, v in sorted(e["functions"].items(), key=lambda kv: kv[1][0]) if v[2] == 0]
        un[rel] = dict(executable=len(e["lines"]), executed=sum(1 for c in e["lines"].values() if c > 0), never_entered=never,
                       unexecuted_lines=sorted(n for n, c in e["lines"].items() if c == 0))
    json.dump(dict(tier=tier, files=un), open(os.path.join(V, "coverage", "ALL.json"), "w"), indent=0)

# summary markdown over everything in coverage/*.json (so partial reruns keep the other rows)
rows = []
for f in sorted(glob.glob(os.path.join(V, "coverage", "C*.json"))):
    rows.append(json.load(open(f)))
out = ["# Reach of the differential campaigns (generated by tools/coverage.py)", "",
       "Lines of each property's anchored files executed by its own check (gcov, instrumented sanitizer build, seed 1).",
       "A change on a line no campaign executes can be caught only by a translator or a proof obligation.", "",
       "| id | tier | file | executed / executable lines | functions never entered | functions entered with >= 8 lines unexecuted |", "|--|--|--|--|--|--|"]
for r in rows:
    for fn, e in r["files"].items():
        if not e.get("executable"):
            out.append("| %s | %s | %s | %s | | |" % (r["property"], r["tier"], fn, e.get("note", "0/0")))
            continue
        out.append("| %s | %s | %s | %d / %d (%.0f%%) | %d | %d |" % (r["property"], r["tier"], fn, e["executed"], e["executable"],
                                                              100.0 * e["executed"] / max(1, e["executable"]), len(e["never_entered"]), len(e["partly"])))
ap = os.path.join(V, "coverage", "ALL.json")
if os.path.exists(ap):
    un = json.load(open(ap))
    out += ["", "## Union over all twenty checks (%s tier)" % un["tier"], "",
            "| file | executed / executable lines | functions no campaign enters |", "|--|--|--|"]
    for rel, e in sorted(un["files"].items()):
        names = ", ".join(x["function"] for x in e["never_entered"])
        out.append("| %s | %d / %d (%.0f%%) | %s |" % (rel, e["executed"], e["executable"], 100.0 * e["executed"] / max(1, e["executable"]),
                                                  names if len(names) < 900 else names[:900] + " …"))
open(os.path.join(V, "notes", "COVERAGE.md"), "w").write("\n".join(out) + "\n")
print("wrote notes/COVERAGE.md")
