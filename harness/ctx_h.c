/* C09 correspondence harness: one hawk interpreter (hawk_openstdwithmmgr with a counting,
 * owner-tagging memory manager), up to 4 runtime contexts (hawk_rtx_openstdwithbcstr with
 * per-context console input/output files in the scratch directory given as argv[1]), driven by
 * the line protocol of lean/HawkModel/Drv/Ctx.lean.  After every op it prints the observation
 * (return value text and type, reference count of every value that crosses the API, error
 * number, new console output, contents of the two per-context named output files) followed by
 * the internal state that must not leak between calls (exit_level, stack_top/stack_base
 * relative to the globals, the rio chain, NR) and, after " # ", allocator accounting that the
 * Lean model does not predict (live blocks owned by the context, cross-context frees, live
 * handles); the python check compares that part between interleaved and sequential runs.
 *
 * Lines:  new | fin | prog.. fun.. a.. begin.. end.. endprog (echoed as "-": program for the Lean side)
 *         incdirs <dir>|- | parse <awk-file>.. (one or more source pieces) | parsebad <file>.. | clear | open c | close c | call c fname args.. | loop c | exec c
 *         calls c fname text.. (string-array call) | setgbl c n arg | getgbl c n | halt c | mkstr c h text | mkmap c h | drop c h | show c h
 *         args:  n (nil)   s:text (temporary string, dropped after the call)   h:K (handle K)
 */
#include <hawk-std.h>
#include <hawk-prv.h>
#include <stdio.h>
#include <stdlib.h>
#include <string.h>
#include <unistd.h>
#include <signal.h>
#include <sanitizer/common_interface_defs.h>

#define MAXC 4
#define MAXH 8
#define MAXA 8

/* ---------------- counting allocator with owner tags ---------------- */
typedef struct { long owner; unsigned long magic; } hdr_t;
#define MAGIC 0xC09C09C09C09UL
static long cur_owner = -1;          /* -1 = interpreter level */
static long live_by_owner[MAXC + 1]; /* index owner+1 */
static long live_total, xfree_cnt, badfree_cnt;

static void* m_alloc (hawk_mmgr_t* m, hawk_oow_t n)
{
	hdr_t* h = (hdr_t*)malloc(sizeof(hdr_t) + n);
	if (!h) return NULL;
	h->owner = cur_owner; h->magic = MAGIC;
	live_by_owner[cur_owner + 1]++; live_total++;
	return h + 1;
}
static void m_free (hawk_mmgr_t* m, void* p)
{
	hdr_t* h;
	if (!p) return;
	h = (hdr_t*)p - 1;
	if (h->magic != MAGIC) { badfree_cnt++; return; }
	if (h->owner >= 0 && cur_owner >= 0 && h->owner != cur_owner) xfree_cnt++;
	live_by_owner[h->owner + 1]--; live_total--;
	h->magic = 0;
	free(h);
}
static void* m_realloc (hawk_mmgr_t* m, void* p, hawk_oow_t n)
{
	hdr_t* h;
	if (!p) return m_alloc(m, n);
	h = (hdr_t*)p - 1;
	if (h->magic != MAGIC) { badfree_cnt++; return NULL; }
	if (h->owner >= 0 && cur_owner >= 0 && h->owner != cur_owner) xfree_cnt++;
	h = (hdr_t*)realloc(h, sizeof(hdr_t) + n);
	if (!h) return NULL;
	return h + 1;
}
static hawk_mmgr_t mmgr = { m_alloc, m_realloc, m_free, NULL };

/* ---------------- state ---------------- */
static const char* scratch;
static hawk_t* hawk;
static int parsed;
static struct cx
{
	hawk_rtx_t* rtx;
	hawk_val_t* h[MAXH];
	char in[512], out[512], dir[512];
	hawk_bch_t* icf[2]; hawk_bch_t* ocf[2];
	hawk_uch_t* wi; hawk_uch_t* wo;
	long conoff;
} cx[MAXC];

static unsigned long line_hash;
static unsigned long hash_line (const char* l)
{
	unsigned long h = 5381; for (; *l && *l != '\n'; l++) h = h * 33 + (unsigned char)*l; return h;
}

/* runtime callback set: hawk_rtx_close() must call `close` exactly once unless the set was killed */
static int ecb_closed[MAXC], ecb_gblset[MAXC];
static void ecb_close (hawk_rtx_t* rtx, void* ctx) { ecb_closed[(long)ctx]++; }
static void ecb_gbl (hawk_rtx_t* rtx, hawk_oow_t idx, hawk_val_t* val, void* ctx) { ecb_gblset[(long)ctx]++; }
static hawk_rtx_ecb_t ecbs[MAXC], ecbs2[MAXC];

static void on_death (void) { fflush(stdout); }
static void on_alarm (int sig) { printf("HANG\n"); fflush(stdout); _exit(3); }

static const char* errname (int e)
{
	static char buf[32];
	switch (e)
	{
		case HAWK_ENOERR: return "ENOERR"; case HAWK_EPERM: return "EPERM"; case HAWK_ESTACK: return "ESTACK";
		case HAWK_EDIVBY0: return "EDIVBY0"; case HAWK_EARGTM: return "EARGTM"; case HAWK_EFUNNF: return "EFUNNF";
		case HAWK_ENOTIDXACC: return "ENOTIDXACC"; case HAWK_ENONSCARET: return "ENONSCARET";
		case HAWK_ENONSCATOVAR: return "ENONSCATOVAR"; case HAWK_ENONSCATOSCALAR: return "ENONSCATOSCALAR";
		case HAWK_ENONSCATONONSCA: return "ENONSCATONONSCA"; case HAWK_ESCALARTONONSCA: return "ESCALARTONONSCA";
		case HAWK_ENONSCATOIDX: return "ENONSCATOIDX"; case HAWK_EIONMNF: return "EIONMNF"; case HAWK_ENOENT: return "ENOENT"; case HAWK_ENOTREF: return "ENOTREF"; case HAWK_ENONSCATOPOS: return "ENONSCATOPOS"; case HAWK_EINVAL: return "EINVAL"; case HAWK_ENOMEM: return "ENOMEM";
		default: snprintf(buf, sizeof(buf), "E%d", e); return buf;
	}
}

static int cmpstr (const void* a, const void* b) { return strcmp(*(char* const*)a, *(char* const*)b); }

/* canonical text of a value: nil | i:N | s:TEXT | m:k=v,k=v (sorted) | ref | other:T ; NULL pointer -> NULL */
static void valtext (hawk_rtx_t* rtx, hawk_val_t* v, char* out, size_t cap)
{
	int t;
	if (!v) { snprintf(out, cap, "NULL"); return; }
	t = HAWK_RTX_GETVALTYPE(rtx, v);
	if (t == HAWK_VAL_NIL) { snprintf(out, cap, "nil"); return; }
	if (t == HAWK_VAL_MAP)
	{
		char* items[256]; int n = 0, i; size_t len;
		hawk_val_map_itr_t itr;
		hawk_val_map_itr_t* p = hawk_rtx_getfirstmapvalitr(rtx, v, &itr);
		while (p && n < 256)
		{
			const hawk_oocs_t* k = HAWK_VAL_MAP_ITR_KEY(p);
			hawk_oow_t kbl = 0;
			hawk_bch_t* kb = hawk_rtx_duputobchars(rtx, k->ptr, k->len, &kbl);
			hawk_bch_t* vb = hawk_rtx_valtobcstrdup(rtx, (hawk_val_t*)HAWK_VAL_MAP_ITR_VAL(p), NULL);
			char* it = (char*)malloc(kbl + strlen(vb? vb: "?") + 4);
			sprintf(it, "%.*s=%s", (int)kbl, kb? kb: "?", vb? vb: "?");
			if (kb) hawk_rtx_freemem(rtx, kb);
			if (vb) hawk_rtx_freemem(rtx, vb);
			items[n++] = it;
			p = hawk_rtx_getnextmapvalitr(rtx, v, &itr);
		}
		qsort(items, n, sizeof(items[0]), cmpstr);
		len = snprintf(out, cap, "m:");
		for (i = 0; i < n; i++) { if (len < cap) len += snprintf(out + len, cap - len, "%s%s", i? ",": "", items[i]); free(items[i]); }
		return;
	}
	if (t == HAWK_VAL_INT || t == HAWK_VAL_STR)
	{
		hawk_bch_t* s = hawk_rtx_valtobcstrdup(rtx, v, NULL);
		snprintf(out, cap, "%s%s", t == HAWK_VAL_INT? "i:": "s:", s? s: "?");
		if (s) hawk_rtx_freemem(rtx, s);
		return;
	}
	if (t == HAWK_VAL_REF) { snprintf(out, cap, "ref"); return; }
	snprintf(out, cap, "other:%d", t);
}

/* reference count as the embedding application sees it: statics and quick ints have none (printed 0) */
static long refs (hawk_val_t* v)
{
	if (!v || !HAWK_VTR_IS_POINTER(v) || v->v_static) return 0;
	return (long)v->v_refs;
}

static void filetext (const char* path, long from, char* out, size_t cap, long* newoff)
{
	FILE* f = fopen(path, "rb"); size_t n = 0; int c;
	if (!f) { snprintf(out, cap, "-"); return; }
	fseek(f, 0, SEEK_END); if (newoff) *newoff = ftell(f);
	fseek(f, from, SEEK_SET);
	while ((c = fgetc(f)) != EOF && n + 2 < cap) out[n++] = (c == '\n')? '|': (c == ' ')? '_': (char)c;
	out[n] = 0;
	fclose(f);
}

static void state_tail (int c, int with_con)
{
	struct cx* x = &cx[c]; hawk_rtx_t* rtx = x->rtx;
	char con[4096], f0[4096], f1[4096], p[600];
	hawk_rio_arg_t* r; long ng = (long)rtx->hawk->tree.ngbls;
	hawk_int_t nr = 0;
	printf(" err=%s xl=%d top=%ld base=%ld rio=", errname((int)hawk_rtx_geterrnum(rtx)), rtx->exit_level,
	       (long)rtx->stack_top - ng, (long)rtx->stack_base);
	{
		/* named output streams in chain order (console excluded), by their last path character pair */
		int first = 1;
		for (r = rtx->rio.chain; r; r = r->next)
		{
			hawk_bch_t* nm;
			if (!r->name || !r->name[0]) continue; /* the console streams have an empty name */
			nm = hawk_rtx_duputobcstr(rtx, r->name, NULL);
			printf("%s%s", first? "": ",", nm? (strrchr(nm, '/')? strrchr(nm, '/') + 1: nm): "?");
			first = 0;
			if (nm) hawk_rtx_freemem(rtx, nm);
		}
		if (first) printf("-");
	}
	hawk_rtx_valtoint(rtx, hawk_rtx_getgbl(rtx, HAWK_GBL_NR), &nr);
	printf(" nr=%ld", (long)nr);
	if (with_con)
	{
		filetext(x->out, x->conoff, con, sizeof(con), &x->conoff);
		snprintf(p, sizeof(p), "%s/f0", x->dir); filetext(p, 0, f0, sizeof(f0), NULL);
		snprintf(p, sizeof(p), "%s/f1", x->dir); filetext(p, 0, f1, sizeof(f1), NULL);
		printf(" con=%s f0=%s f1=%s", con[0]? con: "-", f0, f1);
	}
}

static void acct_tail (int c)
{
	int i, nh = 0;
	for (i = 0; i < MAXH; i++) if (cx[c].h[i]) nh++;
	printf(" # lb=%ld xfree=%ld badfree=%ld nh=%d\n", live_by_owner[c + 1], xfree_cnt, badfree_cnt, nh);
}

static int gblid (int n)
{
	char nm[16]; snprintf(nm, sizeof(nm), "g%d", n);
	return hawk_findgblwithbcstr(hawk, nm, 0);
}

static void funs_and_gbls (void)
{
	/* names of the functions and user globals the interpreter currently knows, sorted */
	char* items[256]; int n = 0, i;
	hawk_htb_itr_t itr; hawk_htb_pair_t* p;
	for (p = hawk_htb_getfirstpair(hawk->tree.funs, &itr); p && n < 256; p = hawk_htb_getnextpair(hawk->tree.funs, &itr))
	{
		hawk_oow_t bl = 0;
		hawk_bch_t* b = hawk_duputobchars(hawk, (const hawk_uch_t*)HAWK_HTB_KPTR(p), HAWK_HTB_KLEN(p), &bl);
		items[n++] = strndup(b? b: "?", b? bl: 1); if (b) hawk_freemem(hawk, b);
	}
	qsort(items, n, sizeof(items[0]), cmpstr);
	printf(" funs=");
	for (i = 0; i < n; i++) { printf("%s%s", i? ",": "", items[i]); free(items[i]); }
	if (!n) printf("-");
	printf(" ug=%ld", (long)hawk->tree.ngbls - (long)hawk->tree.ngbls_base);
}

static void teardown (void)
{
	int c, i;
	for (c = 0; c < MAXC; c++)
	{
		if (!cx[c].rtx) continue;
		cur_owner = c;
		for (i = 0; i < MAXH; i++) if (cx[c].h[i]) { hawk_rtx_refdownval(cx[c].rtx, cx[c].h[i]); cx[c].h[i] = NULL; }
		hawk_rtx_close(cx[c].rtx); cx[c].rtx = NULL;
		if (cx[c].wi) { cur_owner = -1; hawk_freemem(hawk, cx[c].wi); hawk_freemem(hawk, cx[c].wo); cx[c].wi = cx[c].wo = NULL; }
	}
	cur_owner = -1;
	if (hawk) { hawk_close(hawk); hawk = NULL; }
	parsed = 0;
}

static hawk_val_t* mkarg (int c, const char* tok, int* temp)
{
	hawk_rtx_t* rtx = cx[c].rtx; hawk_val_t* v;
	*temp = 0;
	if (tok[0] == 'n' && !tok[1]) return hawk_val_nil;
	if (tok[0] == 'h' && tok[1] == ':') { int k = atoi(tok + 2); return (k >= 0 && k < MAXH && cx[c].h[k])? cx[c].h[k]: hawk_val_nil; }
	v = hawk_rtx_makestrvalwithbcstr(rtx, (tok[0] == 's' && tok[1] == ':')? tok + 2: tok);
	hawk_rtx_refupval(rtx, v); *temp = 1;
	return v;
}

int main (int argc, char** argv)
{
	static char line[1 << 16];
	char* tok[64]; int nt; unsigned long nlines = 0;
	signal(SIGALRM, on_alarm);
	__sanitizer_set_death_callback(on_death); /* what the earlier ops printed must survive a sanitizer abort */
	scratch = argc > 1? argv[1]: "/tmp";
	while (fgets(line, sizeof(line), stdin))
	{
		char* s; int c = -1;
		nt = 0;
		line_hash = hash_line(line);
		for (s = strtok(line, " \n"); s && nt < 64; s = strtok(NULL, " \n")) tok[nt++] = s;
		if (nt == 0) { printf("-\n"); continue; }
		/* what the earlier ops printed must survive an abort in this one (the sanitizer death callback does
		 * not cover every way out): flush before the interpreter-level ops and every few lines */
		if (tok[0][0] == 'p' || tok[0][0] == 'o' || (tok[0][0] == 'c' && tok[0][1] == 'l') || tok[0][0] == 'f' || (++nlines & 7) == 0) fflush(stdout);
		alarm(20);
		if (!strcmp(tok[0], "new"))
		{
			hawk_errnum_t en; hawk_oow_t lim = 512;
			teardown();
			live_total = 0; xfree_cnt = badfree_cnt = 0; memset(live_by_owner, 0, sizeof(live_by_owner));
			hawk = hawk_openstdwithmmgr(&mmgr, 0, NULL, &en);
			if (!hawk) { printf("FATAL hawk_openstd failed\n"); return 2; }
			hawk_setopt(hawk, HAWK_OPT_RTX_STACK_LIMIT, &lim);
			printf("new ok\n");
			continue;
		}
		if (!strcmp(tok[0], "fin"))
		{
			/* close whatever is still open, destroy the interpreter: nothing may be left */
			teardown();
			printf("end live=%ld xfree=%ld badfree=%ld\n", live_total, xfree_cnt, badfree_cnt);
			fflush(stdout);
			continue;
		}
		if (!strcmp(tok[0], "prog") || !strcmp(tok[0], "fun") || !strcmp(tok[0], "a") || !strcmp(tok[0], "begin") ||
		    !strcmp(tok[0], "end") || !strcmp(tok[0], "endprog")) { printf("-\n"); continue; }
		if (!hawk) { printf("no-interp\n"); continue; }
		if (!strcmp(tok[0], "incdirs") && nt >= 2)
		{
			/* HAWK_OPT_INCLUDEDIRS: where @include looks for relative names. "-" clears it */
			hawk_ooch_t* w = NULL; const hawk_ooch_t* back = NULL; int r1, r2;
			cur_owner = -1;
			if (strcmp(tok[1], "-")) w = hawk_dupbtoucstr(hawk, tok[1], NULL, 0);
			r1 = hawk_setopt(hawk, HAWK_OPT_INCLUDEDIRS, w);
			r2 = hawk_getopt(hawk, HAWK_OPT_INCLUDEDIRS, &back);
			printf("incdirs %s\n", (r1 >= 0 && r2 >= 0 && ((w == NULL) == (back == NULL)))? "ok": "FAILED");
			if (w) hawk_freemem(hawk, w);
			continue;
		}
		if ((!strcmp(tok[0], "parse") || !strcmp(tok[0], "parsebad")) && nt >= 2)
		{
			/* the source may come in several pieces (like several -f files): one in[] entry per path */
			hawk_parsestd_t in[17]; int n, c2, open_ctx = 0, np = nt - 1, k;
			for (c2 = 0; c2 < MAXC; c2++) if (cx[c2].rtx) open_ctx = 1;
			if (open_ctx) { printf("parse refused\n"); continue; }
			if (np > 16) np = 16;
			memset(in, 0, sizeof(in));
			{
				/* every piece is handed over in one of the source forms of hawk_parsestd(): a byte-string path,
				 * a wide-string path, or the text itself as a byte string / a wide string */
				static char* txt[16]; static hawk_uch_t* wtxt[16]; static hawk_uch_t* wpath[16];
				for (k = 0; k < np; k++)
				{
					/* the form depends on the piece's content only (its size), not on where the scratch files live */
					int form; FILE* f; long fsz = 0;
					if ((f = fopen(tok[1 + k], "rb")) != NULL) { fseek(f, 0, SEEK_END); fsz = ftell(f); fclose(f); }
					form = (int)((fsz + k) & 3);
					txt[k] = NULL; wtxt[k] = NULL; wpath[k] = NULL;
					if (form >= 2 && (f = fopen(tok[1 + k], "rb")) != NULL)
					{
						long sz; fseek(f, 0, SEEK_END); sz = ftell(f); fseek(f, 0, SEEK_SET);
						txt[k] = (char*)malloc(sz + 1); sz = (long)fread(txt[k], 1, sz, f); txt[k][sz] = 0; fclose(f);
						if (form == 2) { in[k].type = HAWK_PARSESTD_BCS; in[k].u.bcs.ptr = txt[k]; in[k].u.bcs.len = sz; }
						else
						{
							hawk_oow_t wl = 0;
							wtxt[k] = hawk_dupbtoucstr(hawk, txt[k], &wl, 0);
							in[k].type = HAWK_PARSESTD_UCS; in[k].u.ucs.ptr = wtxt[k]; in[k].u.ucs.len = wl;
						}
					}
					else if (form == 1)
					{
						wpath[k] = hawk_dupbtoucstr(hawk, tok[1 + k], NULL, 0);
						in[k].type = HAWK_PARSESTD_FILEU; in[k].u.fileu.path = wpath[k];
					}
					else { in[k].type = HAWK_PARSESTD_FILEB; in[k].u.fileb.path = tok[1 + k]; }
				}
				in[np].type = HAWK_PARSESTD_NULL;
				cur_owner = -1;
				n = hawk_parsestd(hawk, in, NULL);
				for (k = 0; k < np; k++)
				{
					if (txt[k]) free(txt[k]);
					if (wtxt[k]) hawk_freemem(hawk, wtxt[k]);
					if (wpath[k]) hawk_freemem(hawk, wpath[k]);
				}
			}
			parsed = (n >= 0);
			if (n >= 0) printf("parse ok"); else printf("parse err");
			funs_and_gbls();
			printf(" # live=%ld\n", live_total);
			continue;
		}
		if (!strcmp(tok[0], "clear"))
		{
			int c2, open_ctx = 0;
			for (c2 = 0; c2 < MAXC; c2++) if (cx[c2].rtx) open_ctx = 1;
			if (open_ctx) { printf("clear refused\n"); continue; }
			cur_owner = -1;
			hawk_clear(hawk); parsed = 0;
			printf("clear ok"); funs_and_gbls(); printf(" # live=%ld\n", live_total);
			continue;
		}
		if (nt < 2) { printf("bad-op\n"); continue; }
		c = atoi(tok[1]);
		if (c < 0 || c >= MAXC) { printf("bad-op\n"); continue; }
		cur_owner = c;
		if (!strcmp(tok[0], "open"))
		{
			struct cx* x = &cx[c]; FILE* f; int j, id;
			if (x->rtx) { printf("open already\n"); cur_owner = -1; continue; }
			snprintf(x->dir, sizeof(x->dir), "%s/c%d", scratch, c);
			snprintf(x->in, sizeof(x->in), "%s/c%d.in", scratch, c);
			snprintf(x->out, sizeof(x->out), "%s/c%d.out", scratch, c);
			{ char cmd[1200]; snprintf(cmd, sizeof(cmd), "rm -rf '%s' && mkdir -p '%s'", x->dir, x->dir); if (system(cmd) != 0) { printf("FATAL scratch\n"); return 2; } }
			f = fopen(x->in, "w"); for (j = 1; j <= 3; j++) fprintf(f, "c%dr%d\n", c, j); fclose(f);
			f = fopen(x->out, "w"); fclose(f);
			x->conoff = 0;
			x->icf[0] = x->in; x->icf[1] = NULL; x->ocf[0] = x->out; x->ocf[1] = NULL;
			if (c & 1)
			{
				/* the wide-string flavour of the standard context */
				static hawk_uch_t* wi[MAXC][2]; static hawk_uch_t* wo[MAXC][2]; hawk_uch_t* wid;
				cur_owner = -1; /* these strings belong to the application */
				wi[c][0] = hawk_dupbtoucstr(hawk, x->in, NULL, 0); wi[c][1] = NULL;
				wo[c][0] = hawk_dupbtoucstr(hawk, x->out, NULL, 0); wo[c][1] = NULL;
				wid = hawk_dupbtoucstr(hawk, "ctx", NULL, 0);
				cur_owner = c;
				x->rtx = hawk_rtx_openstdwithucstr(hawk, 0, wid, wi[c], wo[c], NULL);
				cur_owner = -1; hawk_freemem(hawk, wid); cur_owner = c;
				x->wi = wi[c][0]; x->wo = wo[c][0];
			}
			else { x->rtx = hawk_rtx_openstdwithbcstr(hawk, 0, "ctx", x->icf, x->ocf, NULL); x->wi = x->wo = NULL; }
			if (!x->rtx) { printf("open err=%s # lb=%ld\n", errname((int)hawk_geterrnum(hawk)), live_by_owner[c + 1]); cur_owner = -1; continue; }
			id = hawk_findgblwithbcstr(hawk, "DIR", 0);
			if (id >= 0)
			{
				hawk_val_t* v = hawk_rtx_makestrvalwithbcstr(x->rtx, x->dir);
				hawk_rtx_refupval(x->rtx, v); hawk_rtx_setgbl(x->rtx, id, v); hawk_rtx_refdownval(x->rtx, v);
			}
			{
				/* names the embedding application hands to the context: the values are made and owned inside */
				hawk_uch_t* w = hawk_rtx_dupbtoucstr(x->rtx, "script.awk", NULL, 0);
				int r = 0;
				if (c & 1) r |= hawk_rtx_setscriptnamewithuchars(x->rtx, w, 10); else r |= hawk_rtx_setscriptnamewithbchars(x->rtx, "script.awk", 10);
				r |= hawk_rtx_setfilenamewithbchars(x->rtx, x->in, strlen(x->in));
				r |= hawk_rtx_setofilenamewithbchars(x->rtx, x->out, strlen(x->out));
				hawk_rtx_freemem(x->rtx, w);
				if (r) { printf("open NAMES-FAILED\n"); cur_owner = -1; continue; }
				memset(&ecbs[c], 0, sizeof(ecbs[c])); memset(&ecbs2[c], 0, sizeof(ecbs2[c]));
				ecbs[c].close = ecb_close; ecbs[c].gblset = ecb_gbl; ecbs[c].ctx = (void*)(long)c;
				ecbs2[c].close = ecb_close; ecbs2[c].ctx = (void*)(long)c;
				ecb_closed[c] = 0; ecb_gblset[c] = 0;
				hawk_rtx_pushecb(x->rtx, &ecbs[c]); hawk_rtx_pushecb(x->rtx, &ecbs2[c]);
				if (c >= 2) hawk_rtx_killecb(x->rtx, &ecbs2[c]); /* a killed set must not be called */
			}
			printf("open ok"); state_tail(c, 0); acct_tail(c);
			cur_owner = -1; continue;
		}
		if (!cx[c].rtx) { printf("%s closed\n", tok[0]); cur_owner = -1; continue; }
		{
			struct cx* x = &cx[c]; hawk_rtx_t* rtx = x->rtx; char vt[8192];
			if (!strcmp(tok[0], "close"))
			{
				int i;
				for (i = 0; i < MAXH; i++) if (x->h[i]) { hawk_rtx_refdownval(rtx, x->h[i]); x->h[i] = NULL; }
				hawk_rtx_close(rtx); x->rtx = NULL;
				if (x->wi) { cur_owner = -1; hawk_freemem(hawk, x->wi); hawk_freemem(hawk, x->wo); x->wi = x->wo = NULL; cur_owner = c; }
				printf("close %s # lb=%ld xfree=%ld badfree=%ld nh=0\n", (ecb_closed[c] == ((c >= 2)? 1: 2))? "ok": "ECB-MISCOUNT",
				       live_by_owner[c + 1], xfree_cnt, badfree_cnt);
			}
			else if (!strcmp(tok[0], "call") && nt >= 3)
			{
				/* the argument array lives on the heap for exactly the duration of the call (as Hawk::call does) */
				int na = nt - 3, i, temp[MAXA], hnd[MAXA]; hawk_val_t** a; hawk_val_t* r;
				if (na > MAXA) na = MAXA;
				a = (hawk_val_t**)malloc(sizeof(hawk_val_t*) * (na + 1));
				for (i = 0; i < na; i++)
				{
					a[i] = mkarg(c, tok[3 + i], &temp[i]);
					hnd[i] = (tok[3 + i][0] == 'h' && tok[3 + i][1] == ':')? atoi(tok[3 + i] + 2): -1;
				}
				switch (line_hash & 3)
				{
					/* the four ways to call a function by name with values: they must be indistinguishable */
					case 0: r = hawk_rtx_callwithbcstr(rtx, tok[2], a, na); break;
					case 1:
					{
						hawk_uch_t* w = hawk_rtx_dupbtoucstr(rtx, tok[2], NULL, 0);
						r = hawk_rtx_callwithucstr(rtx, w, a, na);
						hawk_rtx_freemem(rtx, w); break;
					}
					case 2:
					{
						hawk_fun_t* fn = hawk_rtx_findfunwithbcstr(rtx, tok[2]);
						r = fn? hawk_rtx_callfun(rtx, fn, a, na): NULL; break;
					}
					default:
					{
						hawk_uch_t* w = hawk_rtx_dupbtoucstr(rtx, tok[2], NULL, 0);
						hawk_fun_t* fn = hawk_rtx_findfunwithucstr(rtx, w);
						hawk_rtx_freemem(rtx, w);
						r = fn? hawk_rtx_callfun(rtx, fn, a, na): NULL; break;
					}
				}
				valtext(rtx, r, vt, sizeof(vt));
				printf("call ret=%s rc=%ld", vt, refs(r));
				printf(" args=");
				for (i = 0; i < na; i++) { valtext(rtx, a[i], vt, sizeof(vt)); printf("%s%s/%ld", i? ";": "", vt, refs(a[i])); }
				if (!na) printf("-");
				if (r) hawk_rtx_refdownval(rtx, r);
				for (i = 0; i < na; i++)
				{
					/* the slot content is what the caller owns after the call */
					if (temp[i]) hawk_rtx_refdownval(rtx, a[i]);
					else if (hnd[i] >= 0 && hnd[i] < MAXH && x->h[hnd[i]]) x->h[hnd[i]] = a[i];
				}
				free(a);
				state_tail(c, 1); acct_tail(c);
			}
			else if (!strcmp(tok[0], "calls") && nt >= 3)
			{
				/* call with plain C strings: the API makes the argument values and releases them itself */
				int na = nt - 3, i; hawk_val_t* r; const hawk_bch_t* ba[MAXA]; hawk_uch_t* wa[MAXA]; hawk_uch_t* wn;
				if (na > MAXA) na = MAXA;
				for (i = 0; i < na; i++) { ba[i] = (tok[3 + i][0] == 's' && tok[3 + i][1] == ':')? tok[3 + i] + 2: tok[3 + i]; wa[i] = hawk_rtx_dupbtoucstr(rtx, ba[i], NULL, 0); }
				wn = hawk_rtx_dupbtoucstr(rtx, tok[2], NULL, 0);
				switch (line_hash & 3)
				{
					case 0: r = hawk_rtx_callwithbcstrarr(rtx, tok[2], ba, na); break;
					case 1: r = hawk_rtx_callwithucstrarr(rtx, wn, (const hawk_uch_t**)wa, na); break;
					case 2: r = hawk_rtx_callwithoobcstrarr(rtx, wn, ba, na); break;
					default: r = hawk_rtx_callwithooucstrarr(rtx, wn, (const hawk_uch_t**)wa, na); break;
				}
				hawk_rtx_freemem(rtx, wn);
				for (i = 0; i < na; i++) hawk_rtx_freemem(rtx, wa[i]);
				valtext(rtx, r, vt, sizeof(vt));
				printf("calls ret=%s rc=%ld args=-", vt, refs(r));
				if (r) hawk_rtx_refdownval(rtx, r);
				state_tail(c, 1); acct_tail(c);
			}
			else if (!strcmp(tok[0], "loop") || !strcmp(tok[0], "exec"))
			{
				hawk_val_t* r = (tok[0][0] == 'l')? hawk_rtx_loop(rtx):
				                (line_hash & 1)? hawk_rtx_execwithucstrarr(rtx, NULL, 0): hawk_rtx_execwithbcstrarr(rtx, NULL, 0);
				valtext(rtx, r, vt, sizeof(vt));
				printf("%s ret=%s rc=%ld args=-", tok[0], vt, refs(r));
				if (r) hawk_rtx_refdownval(rtx, r);
				state_tail(c, 1); acct_tail(c);
			}
			else if (!strcmp(tok[0], "setgbl") && nt >= 4)
			{
				int id = gblid(atoi(tok[2])), temp, n; hawk_val_t* v;
				if (id < 0) { printf("setgbl nogbl\n"); cur_owner = -1; continue; }
				if (tok[3][0] == 's' && tok[3][1] == ':' && (line_hash & 1))
				{
					/* by name with a C string: the value is made, assigned and released inside */
					char nm[16]; hawk_uch_t* wn; hawk_uch_t* wv;
					snprintf(nm, sizeof(nm), "g%d", atoi(tok[2]));
					wn = hawk_rtx_dupbtoucstr(rtx, nm, NULL, 0); wv = hawk_rtx_dupbtoucstr(rtx, tok[3] + 2, NULL, 0);
					n = hawk_rtx_setgbltostrbyname(rtx, wn, wv);
					hawk_rtx_freemem(rtx, wn); hawk_rtx_freemem(rtx, wv);
				}
				else
				{
					v = mkarg(c, tok[3], &temp);
					n = hawk_rtx_setgbl(rtx, id, v);
					if (temp) hawk_rtx_refdownval(rtx, v);
				}
				v = hawk_rtx_getgbl(rtx, id); valtext(rtx, v, vt, sizeof(vt));
				printf("setgbl r=%d g=%s/%ld", n, vt, refs(v));
				state_tail(c, 0); acct_tail(c);
			}
			else if (!strcmp(tok[0], "getgbl") && nt >= 3)
			{
				int id = gblid(atoi(tok[2])); hawk_val_t* v;
				if (id < 0) { printf("getgbl nogbl\n"); cur_owner = -1; continue; }
				v = hawk_rtx_getgbl(rtx, id); valtext(rtx, v, vt, sizeof(vt));
				printf("getgbl g=%s/%ld", vt, refs(v));
				state_tail(c, 0); acct_tail(c);
			}
			else if (!strcmp(tok[0], "halt"))
			{
				hawk_rtx_halt(rtx);
				printf("halt %s", hawk_rtx_ishalt(rtx)? "ok": "NOT-HALTED"); state_tail(c, 0); acct_tail(c);
			}
			else if (!strcmp(tok[0], "mkstr") && nt >= 4)
			{
				int k = atoi(tok[2]);
				if (k < 0 || k >= MAXH) { printf("bad-op\n"); cur_owner = -1; continue; }
				if (x->h[k]) hawk_rtx_refdownval(rtx, x->h[k]);
				x->h[k] = hawk_rtx_makestrvalwithbcstr(rtx, tok[3]); hawk_rtx_refupval(rtx, x->h[k]);
				printf("mkstr ok"); acct_tail(c);
			}
			else if (!strcmp(tok[0], "mkmap") && nt >= 3)
			{
				int k = atoi(tok[2]);
				if (k < 0 || k >= MAXH) { printf("bad-op\n"); cur_owner = -1; continue; }
				if (x->h[k]) hawk_rtx_refdownval(rtx, x->h[k]);
				x->h[k] = hawk_rtx_makemapval(rtx); hawk_rtx_refupval(rtx, x->h[k]);
				printf("mkmap ok"); acct_tail(c);
			}
			else if (!strcmp(tok[0], "drop") && nt >= 3)
			{
				int k = atoi(tok[2]);
				if (k < 0 || k >= MAXH) { printf("bad-op\n"); cur_owner = -1; continue; }
				if (x->h[k]) { hawk_rtx_refdownval(rtx, x->h[k]); x->h[k] = NULL; }
				printf("drop ok"); acct_tail(c);
			}
			else if (!strcmp(tok[0], "show") && nt >= 3)
			{
				int k = atoi(tok[2]);
				if (k < 0 || k >= MAXH) { printf("bad-op\n"); cur_owner = -1; continue; }
				if (!x->h[k]) printf("show none");
				else { valtext(rtx, x->h[k], vt, sizeof(vt)); printf("show %s/%ld", vt, refs(x->h[k])); }
				acct_tail(c);
			}
			else printf("bad-op\n");
		}
		cur_owner = -1;
		fflush(stdout);
	}
	alarm(0);
	teardown();
	return 0;
}
