/* C03 harness: runs record/field/NF histories against the REAL hawk runtime, in process.
 *
 * One hawk program (PROG below) is parsed once.  It is an interpreter loop: the builtin
 * nextop() (registered here with hawk_addfnc) hands it the next protocol line read from
 * stdin, the program performs the corresponding hawk statement ($0 = s, $i = v, NF = n (also from a
 * string, a float, an unset variable, ++NF, --NF, NF++, NF += k, getline NF), f($j)/f(NF) with f(&x) only reading x,
 * sub/gsub, OFS/FS/OFMT/STRIPRECSPC assignment, plain getline, `next` to let the main loop
 * read the next record, reads of $j) and then calls dump(), which prints
 *   - what the program itself read: NF, $0, every $i by value and through a positional
 *     reference (hawk::call("substr", $i, 1) hands the builtin a HAWK_VAL_REF_POS value)
 *   - the internal state through hawk-prv.h: the NF global, inrec.nflds, inrec.line, inrec.d0,
 *     every field's (buffer, ptr - buffer start, len, value), every field read through
 *     val_ref_to_str / val_ref_to_bool (a HAWK_VAL_REF_POS value built here), the OFS variable
 *     and the cached rtx->gbl.ofs.
 * A fresh runtime is used for every history ("new").  The console is replaced by a queue
 * filled by the getline/next ops.  Output is one line per input line, same format as
 * `hawkdrv rec`.
 */
#include "hawk-prv.h"
#include <hawk-std.h>
#include <stdio.h>
#include <stdlib.h>
#include <string.h>

static const char* PROG =
"function rep(extra,   i, v, r) {\n"
"  v = \"\"; r = \"\";\n"
"  for (i = 1; i <= NF + 1; i++) { v = v \"[\" esc($i) \"]\"; r = r \"[\" (spanok(i)? esc(hawk::call(\"substr\", $i, 1)): \"DANGLING\") \"]\"; }\n"
"  dump(NF, $0, v, r, extra);\n"
"}\n"
"function idf(&x) { return x \"!\"; }\n"
"function doop(op,   c, x, y, j, k) {\n"
"  if (op == \"setnfv\") { k = argw(1); if (k == \"s\") NF = arg(2); else if (k == \"f\") NF = argf(2); else NF = neverset; return \"\"; }\n"
"  if (op == \"ofsv\") { OFS = argv(2, argw(1)); return \"\"; }\n"
"  if (op == \"fsv\") { FS = argv(2, argw(1)); return \"\"; }\n"
"  if (op == \"ic\") { IGNORECASE = argn(1); return \"\"; }\n"
"  if (op == \"convfmt\") { CONVFMT = arg(1); return \"\"; }\n"
"  if (op == \"setfnum\") { $(argn(1)) = argf(2); return \"\"; }\n"
"  if (op == \"mapto\") { amap[1] = 1; k = argw(1); if (k == \"ofs\") OFS = amap; else if (k == \"fs\") FS = amap; else NF = amap; return \"\"; }\n"
"  if (op == \"fsbad\") { FS = arg(1); return \"\"; }\n"
"  if (op == \"getlinef\") { c = (getline $(argn(1))); return \" c=\" c; }\n"
"  if (op == \"apiself0\") { apiself0(); return \"\"; }\n"
"  if (op == \"subf\") { c = sub(arg(2), arg(3), $(argn(1))); return \" c=\" c; }\n"
"  if (op == \"gsubf\") { c = gsub(arg(2), arg(3), $(argn(1))); return \" c=\" c; }\n"
"  if (op == \"incnf\") { ++NF; return \"\"; }\n"
"  if (op == \"decnf\") { --NF; return \"\"; }\n"
"  if (op == \"postinc\") { c = NF++; return \" c=\" c; }\n"
"  if (op == \"addnf\") { NF += argn(1); return \"\"; }\n"
"  if (op == \"getlinenf\") { c = (getline NF); return \" c=\" c; }\n"
"  if (op == \"refcall\") { y = idf($(argn(1))); return \" y=\" esc(y); }\n"
"  if (op == \"refcallnf\") { y = idf(NF); return \" y=\" esc(y); }\n"
"  if (op == \"set0\") { $0 = arg(1); return \"\"; }\n"
"  if (op == \"self0\") { $0 = $0; return \"\"; }\n"
"  if (op == \"setf\") { $(argn(1)) = arg(2); return \"\"; }\n"
"  if (op == \"setnf\") { NF = argn(1); return \"\"; }\n"
"  if (op == \"sub\") { c = sub(arg(1), arg(2)); return \" c=\" c; }\n"
"  if (op == \"gsub\") { c = gsub(arg(1), arg(2)); return \" c=\" c; }\n"
"  if (op == \"ofs\") { OFS = arg(1); return \"\"; }\n"
"  if (op == \"fs\") { FS = arg(1); return \"\"; }\n"
"  if (op == \"ofmt\") { OFMT = arg(1); return \"\"; }\n"
"  if (op == \"strip\") { STRIPRECSPC = argn(1); return \"\"; }\n"
"  if (op == \"getline\") { c = (getline); return \" c=\" c; }\n"
"  if (op == \"read\") { j = argn(1); x = $(j); if (!spanok(j)) return \" x=\" esc(x) \" y=DANGLING\"; y = hawk::call(\"substr\", $(j), 1); return \" x=\" esc(x) \" y=\" esc(y); }\n"
"  if (op == \"readnf\") { x = NF; return \" x=\" x; }\n"
"  return \" bad-op\";\n"
"}\n"
"BEGIN { while ((op = nextop()) != \"\") { if (op == \"next\") break; e = doop(op); snap(); rep(e); } if (op != \"next\") exit; }\n"
"{ snap(); rep(\"\"); while ((op = nextop()) != \"\") { if (op == \"next\") next; e = doop(op); snap(); rep(e); } exit; }\n";

/* ---------------- protocol state ---------------- */
static char linebuf[1 << 16];
static char* W[8];
static int NW;
static int saw_new, saw_eof;

/* console queue (UTF-8 decoded to hawk_ooch_t) */
static hawk_ooch_t cq[1 << 16];
static size_t cq_len, cq_pos;

static char snapbuf[1 << 17];

static int hexv (int c) { return (c >= '0' && c <= '9')? c - '0': (c >= 'a' && c <= 'f')? c - 'a' + 10: (c >= 'A' && c <= 'F')? c - 'A' + 10: 0; }

static size_t unhex (const char* h, unsigned char* out)
{
	size_t n = 0;
	if (!h || strcmp(h, "-") == 0) return 0;
	while (h[0] && h[1]) { out[n++] = (unsigned char)(hexv(h[0]) * 16 + hexv(h[1])); h += 2; }
	return n;
}

static int read_words (void)
{
	char* p;
	if (!fgets(linebuf, sizeof(linebuf), stdin)) return 0;
	NW = 0;
	for (p = strtok(linebuf, " \r\n"); p && NW < 8; p = strtok(NULL, " \r\n")) W[NW++] = p;
	return 1;
}

/* ---------------- escaping (same as the Lean driver) ---------------- */
static char* esc_into (char* o, const hawk_ooch_t* p, size_t n)
{
	static const char* hd = "0123456789ABCDEF";
	size_t i;
	for (i = 0; i < n; i++)
	{
		unsigned long c = (unsigned long)p[i];
		if ((c >= '0' && c <= '9') || (c >= 'a' && c <= 'z') || (c >= 'A' && c <= 'Z')) *o++ = (char)c;
		else if (c < 256) { *o++ = '%'; *o++ = hd[c / 16]; *o++ = hd[c % 16]; }
		else { *o++ = '%'; *o++ = 'u'; *o++ = hd[(c >> 12) & 15]; *o++ = hd[(c >> 8) & 15]; *o++ = hd[(c >> 4) & 15]; *o++ = hd[c & 15]; }
	}
	*o = '\0';
	return o;
}

static char* esc_val (hawk_rtx_t* rtx, char* o, hawk_val_t* v)
{
	hawk_oow_t len;
	hawk_ooch_t* s = hawk_rtx_valtooocstrdup(rtx, v, &len);
	if (!s) { strcpy(o, "<ERR>"); return o + 5; }
	o = esc_into(o, s, len);
	hawk_rtx_freemem (rtx, s);
	return o;
}

/* ---------------- internal state ---------------- */
static int in_buf (hawk_ooecs_t* b, const hawk_ooch_t* p, hawk_oow_t len)
{
	const hawk_ooch_t* s = HAWK_OOECS_PTR(b);
	return s && p >= s && p + len <= s + HAWK_OOECS_CAPA(b);
}

/* NF global, nflds, line, d0, fields -- the part that reads must not change */
static char* core_state (hawk_rtx_t* rtx, char* o)
{
	hawk_oow_t i, n = rtx->inrec.nflds;
	o += sprintf(o, "nf=");
	o = esc_val(rtx, o, hawk_rtx_getgbl(rtx, HAWK_GBL_NF));
	o += sprintf(o, " n=%lu L=", (unsigned long)n);
	o = esc_into(o, HAWK_OOECS_PTR(&rtx->inrec.line), HAWK_OOECS_LEN(&rtx->inrec.line));
	o += sprintf(o, " D=");
	if (HAWK_RTX_GETVALTYPE(rtx, rtx->inrec.d0) != HAWK_VAL_NIL) o = esc_val(rtx, o, rtx->inrec.d0);
	o += sprintf(o, " F=");
	for (i = 0; i < n; i++)
	{
		const hawk_ooch_t* p = rtx->inrec.flds[i].ptr;
		hawk_oow_t len = rtx->inrec.flds[i].len;
		if (i > 0) *o++ = '|';
		if (len == 0) *o++ = '-';
		else if (in_buf(&rtx->inrec.line, p, len)) o += sprintf(o, "l%ld", (long)(p - HAWK_OOECS_PTR(&rtx->inrec.line)));
		else if (in_buf(&rtx->inrec.linew, p, len)) o += sprintf(o, "w%ld", (long)(p - HAWK_OOECS_PTR(&rtx->inrec.linew)));
		else *o++ = 'X';
		o += sprintf(o, ":%lu:", (unsigned long)len);
		o = esc_val(rtx, o, rtx->inrec.flds[i].val);
	}
	*o = '\0';
	return o;
}

static int span_ok (hawk_rtx_t* rtx, hawk_oow_t idx)
{
	const hawk_ooch_t* p;
	hawk_oow_t len;
	if (idx == 0 || idx > rtx->inrec.nflds) return 1;
	p = rtx->inrec.flds[idx - 1].ptr; len = rtx->inrec.flds[idx - 1].len;
	return len == 0 || in_buf(&rtx->inrec.line, p, len) || in_buf(&rtx->inrec.linew, p, len);
}

static char* full_state (hawk_rtx_t* rtx, char* o)
{
	hawk_oow_t i, n;
	char bits[4096];
	o = core_state(rtx, o);
	n = rtx->inrec.nflds;
	o += sprintf(o, " R=");
	for (i = 0; i <= n + 1; i++)
	{
		hawk_val_ref_t refv;
		if (i > 0) *o++ = '|';
		if (!span_ok(rtx, i)) { o += sprintf(o, "DANGLING"); bits[i] = '?'; continue; }
		HAWK_RTX_INIT_REF_VAL (&refv, HAWK_VAL_REF_POS, (hawk_val_t**)i, 9);
		o = esc_val(rtx, o, (hawk_val_t*)&refv);             /* val_ref_to_str */
		bits[i] = hawk_rtx_valtobool(rtx, (hawk_val_t*)&refv)? '1': '0'; /* val_ref_to_bool */
	}
	bits[n + 2] = '\0';
	/* the separator in force: the text kept in rtx->gbl.ofs (print joins with it) */
	o += sprintf(o, " B=%s ofs=", bits);
	o = esc_into(o, rtx->gbl.ofs.ptr, rtx->gbl.ofs.len);
	*o = '\0';
	return o;
}

/* the language-level part computed in C (used only when a statement failed) */
static char* lang_state (hawk_rtx_t* rtx, char* o)
{
	hawk_int_t nf = 0, i;
	hawk_rtx_valtoint (rtx, hawk_rtx_getgbl(rtx, HAWK_GBL_NF), &nf);
	o += sprintf(o, " Z=");
	if (HAWK_RTX_GETVALTYPE(rtx, rtx->inrec.d0) != HAWK_VAL_NIL) o = esc_val(rtx, o, rtx->inrec.d0);
	o += sprintf(o, " v=");
	for (i = 1; i <= nf + 1; i++)
	{
		*o++ = '[';
		if ((hawk_oow_t)i <= rtx->inrec.nflds) o = esc_val(rtx, o, rtx->inrec.flds[i - 1].val);
		*o++ = ']';
	}
	o += sprintf(o, " r=");
	for (i = 1; i <= nf + 1; i++)
	{
		hawk_val_ref_t refv;
		*o++ = '[';
		if (!span_ok(rtx, (hawk_oow_t)i)) o += sprintf(o, "DANGLING");
		else
		{
			HAWK_RTX_INIT_REF_VAL (&refv, HAWK_VAL_REF_POS, (hawk_val_t**)(hawk_oow_t)i, 9);
			o = esc_val(rtx, o, (hawk_val_t*)&refv);
		}
		*o++ = ']';
	}
	*o = '\0';
	return o;
}

/* ---------------- builtins ---------------- */
static void push_console (const char* hex)
{
	static unsigned char tmp[1 << 15];
	size_t n = unhex(hex, tmp);
	hawk_oow_t bl, ul;
	tmp[n++] = '\n';
	if (cq_pos >= cq_len) cq_pos = cq_len = 0;
	bl = n; ul = (sizeof(cq) / sizeof(cq[0])) - cq_len;
	hawk_conv_bchars_to_uchars_with_cmgr ((const hawk_bch_t*)tmp, &bl, &cq[cq_len], &ul, hawk_get_cmgr_by_id(HAWK_CMGR_UTF8), 1);
	cq_len += ul;
}

static int fnc_nextop (hawk_rtx_t* rtx, const hawk_fnc_info_t* fi)
{
	hawk_val_t* v;
	if (!read_words()) { saw_eof = 1; NW = 0; }
	else if (NW == 1 && strcmp(W[0], "new") == 0) { saw_new = 1; NW = 0; }
	if (NW == 0) v = hawk_rtx_makestrvalwithbchars(rtx, "", 0);
	else
	{
		if ((strcmp(W[0], "getline") == 0 || strcmp(W[0], "next") == 0 || strcmp(W[0], "getlinenf") == 0) && NW >= 2) push_console (W[1]);
		if (strcmp(W[0], "getlinef") == 0 && NW >= 3) push_console (W[2]);
		v = hawk_rtx_makestrvalwithbchars(rtx, W[0], strlen(W[0]));
	}
	if (!v) return -1;
	hawk_rtx_setretval (rtx, v);
	return 0;
}

static int get_k (hawk_rtx_t* rtx)
{
	hawk_int_t k = 0;
	hawk_rtx_valtoint (rtx, hawk_rtx_getarg(rtx, 0), &k);
	return (int)k;
}

static int fnc_arg (hawk_rtx_t* rtx, const hawk_fnc_info_t* fi)
{
	static unsigned char tmp[1 << 15];
	int k = get_k(rtx);
	size_t n = (k >= 0 && k < NW)? unhex(W[k], tmp): 0;
	hawk_val_t* v = hawk_rtx_makestrvalwithbchars(rtx, (const hawk_bch_t*)tmp, n);
	if (!v) return -1;
	hawk_rtx_setretval (rtx, v);
	return 0;
}

static int fnc_argn (hawk_rtx_t* rtx, const hawk_fnc_info_t* fi)
{
	int k = get_k(rtx);
	hawk_val_t* v = hawk_rtx_makeintval(rtx, (k >= 0 && k < NW)? (hawk_int_t)strtoll(W[k], NULL, 10): 0);
	if (!v) return -1;
	hawk_rtx_setretval (rtx, v);
	return 0;
}

/* argw(k): the k-th word as it is; argf(k): the k-th word (hex text) as a floating-point value */
static int fnc_argw (hawk_rtx_t* rtx, const hawk_fnc_info_t* fi)
{
	int k = get_k(rtx);
	const char* w = (k >= 0 && k < NW)? W[k]: "";
	hawk_val_t* v = hawk_rtx_makestrvalwithbchars(rtx, w, strlen(w));
	if (!v) return -1;
	hawk_rtx_setretval (rtx, v);
	return 0;
}

static int fnc_argf (hawk_rtx_t* rtx, const hawk_fnc_info_t* fi)
{
	static unsigned char tmp[1 << 10];
	int k = get_k(rtx);
	size_t n = (k >= 0 && k < NW && strlen(W[k]) < sizeof(tmp))? unhex(W[k], tmp): 0;
	hawk_val_t* v;
	tmp[n] = '\0';
	v = hawk_rtx_makefltval(rtx, (hawk_flt_t)strtod((char*)tmp, NULL));
	if (!v) return -1;
	hawk_rtx_setretval (rtx, v);
	return 0;
}

/* argv(k, kind): the k-th word (hex text) as a value of the given kind:
 * n nil, i integer, f floating-point, b byte string, c character, anything else a string */
static int fnc_argv (hawk_rtx_t* rtx, const hawk_fnc_info_t* fi)
{
	static unsigned char tmp[1 << 12];
	int k = get_k(rtx);
	size_t n = (k >= 0 && k < NW && strlen(W[k]) < sizeof(tmp))? unhex(W[k], tmp): 0;
	hawk_oow_t kl;
	hawk_bch_t* kind = hawk_rtx_valtobcstrdup(rtx, hawk_rtx_getarg(rtx, 1), &kl);
	hawk_val_t* v;
	tmp[n] = '\0';
	if (!kind) return -1;
	switch (kind[0])
	{
		case 'n': v = hawk_val_nil; break;
		case 'i': v = hawk_rtx_makeintval(rtx, (hawk_int_t)strtoll((char*)tmp, NULL, 10)); break;
		case 'f': v = hawk_rtx_makefltval(rtx, (hawk_flt_t)strtod((char*)tmp, NULL)); break;
		case 'b': v = hawk_rtx_makembsvalwithbchars(rtx, (const hawk_bch_t*)tmp, n); break;
		case 'c': v = hawk_rtx_makecharval(rtx, (hawk_ooch_t)tmp[0]); break;
		default:  v = hawk_rtx_makestrvalwithbchars(rtx, (const hawk_bch_t*)tmp, n); break;
	}
	hawk_rtx_freemem (rtx, kind);
	if (!v) return -1;
	hawk_rtx_setretval (rtx, v);
	return 0;
}

/* apiself0(): hawk_rtx_setrec(rtx, 0, <inrec.line itself>) - the embedding API's way to have the record
 * re-split in place (the branch that keeps the line and only clears the fields) */
static int fnc_apiself0 (hawk_rtx_t* rtx, const hawk_fnc_info_t* fi)
{
	if (hawk_rtx_setrec(rtx, 0, HAWK_OOECS_OOCS(&rtx->inrec.line), 0) <= -1) return -1;
	hawk_rtx_setretval (rtx, hawk_rtx_makeintval(rtx, 0));
	return 0;
}

static int fnc_esc (hawk_rtx_t* rtx, const hawk_fnc_info_t* fi)
{
	static char out[1 << 16];
	hawk_val_t* v;
	esc_val (rtx, out, hawk_rtx_getarg(rtx, 0));
	v = hawk_rtx_makestrvalwithbchars(rtx, out, strlen(out));
	if (!v) return -1;
	hawk_rtx_setretval (rtx, v);
	return 0;
}

/* spanok(i): does the span of field i lie inside one of the record buffers?  (a span that
 * does not is reported as DANGLING instead of being read, so that the run can go on) */
static int fnc_spanok (hawk_rtx_t* rtx, const hawk_fnc_info_t* fi)
{
	int k = get_k(rtx);
	hawk_rtx_setretval (rtx, hawk_rtx_makeintval(rtx, k < 0 || span_ok(rtx, (hawk_oow_t)k)));
	return 0;
}

static int fnc_snap (hawk_rtx_t* rtx, const hawk_fnc_info_t* fi)
{
	core_state (rtx, snapbuf);
	hawk_rtx_setretval (rtx, hawk_rtx_makeintval(rtx, 0));
	return 0;
}

/* dump(NF, $0, v, r, extra) */
static int fnc_dump (hawk_rtx_t* rtx, const hawk_fnc_info_t* fi)
{
	static char out[1 << 18], now[1 << 17];
	char* o = out;
	hawk_oow_t len;
	hawk_bch_t* s;
	int impure;

	core_state (rtx, now);
	impure = strcmp(now, snapbuf) != 0;

	o = full_state(rtx, o);
	o += sprintf(o, " Z=");
	o = esc_val(rtx, o, hawk_rtx_getarg(rtx, 1));
	s = hawk_rtx_valtobcstrdup(rtx, hawk_rtx_getarg(rtx, 2), &len);
	o += sprintf(o, " v=%s", s? s: "<ERR>"); if (s) hawk_rtx_freemem (rtx, s);
	s = hawk_rtx_valtobcstrdup(rtx, hawk_rtx_getarg(rtx, 3), &len);
	o += sprintf(o, " r=%s", s? s: "<ERR>"); if (s) hawk_rtx_freemem (rtx, s);
	s = hawk_rtx_valtobcstrdup(rtx, hawk_rtx_getarg(rtx, 4), &len);
	o += sprintf(o, "%s", s? s: "<ERR>"); if (s) hawk_rtx_freemem (rtx, s);
	/* the NF the program read must be the NF global printed by core_state */
	{
		char a[256], * e = a;
		e = esc_val(rtx, e, hawk_rtx_getarg(rtx, 0));
		if (strncmp(out + 3, a, strlen(a)) != 0 || out[3 + strlen(a)] != ' ') o += sprintf(o, " NFREAD=%s", a);
	}
	if (impure) o += sprintf(o, " IMPURE(before-reads: %s)", snapbuf);
	puts (out);
	hawk_rtx_setretval (rtx, hawk_rtx_makeintval(rtx, 0));
	return 0;
}

/* ---------------- console ---------------- */
static hawk_ooi_t my_console (hawk_rtx_t* rtx, hawk_rio_cmd_t cmd, hawk_rio_arg_t* riod, void* data, hawk_oow_t size)
{
	switch (cmd)
	{
		case HAWK_RIO_CMD_OPEN:
			return (riod->mode == HAWK_RIO_CONSOLE_READ)? 1: -1;
		case HAWK_RIO_CMD_CLOSE:
			return 0;
		case HAWK_RIO_CMD_READ:
		{
			size_t n = cq_len - cq_pos;
			if (n > size) n = size;
			memcpy (data, &cq[cq_pos], n * sizeof(hawk_ooch_t));
			cq_pos += n;
			return (hawk_ooi_t)n;
		}
		case HAWK_RIO_CMD_NEXT:
			return 0;
		default:
			return -1;
	}
}

static void add_fnc (hawk_t* hawk, const char* name, int min, int max, hawk_fnc_impl_t impl)
{
	hawk_fnc_mspec_t spec;
	memset (&spec, 0, sizeof(spec));
	spec.arg.min = min; spec.arg.max = max; spec.arg.spec = NULL;
	spec.impl = impl;
	if (!hawk_addfncwithbcstr(hawk, name, &spec)) { fprintf (stderr, "cannot add %s\n", name); exit (3); }
}

int main (void)
{
	hawk_t* hawk;
	hawk_parsestd_t psin[2];
	int have_new = 0;

	setvbuf (stdout, NULL, _IOLBF, 1 << 16); /* line-buffered: a sanitizer abort must not lose earlier lines */
	hawk = hawk_openstd(0, HAWK_NULL);
	if (!hawk) { fprintf (stderr, "cannot open hawk\n"); return 3; }
	add_fnc (hawk, "nextop", 0, 0, fnc_nextop);
	add_fnc (hawk, "arg", 1, 1, fnc_arg);
	add_fnc (hawk, "argn", 1, 1, fnc_argn);
	add_fnc (hawk, "argw", 1, 1, fnc_argw);
	add_fnc (hawk, "argf", 1, 1, fnc_argf);
	add_fnc (hawk, "argv", 2, 2, fnc_argv);
	add_fnc (hawk, "apiself0", 0, 0, fnc_apiself0);
	add_fnc (hawk, "esc", 1, 1, fnc_esc);
	add_fnc (hawk, "snap", 0, 0, fnc_snap);
	add_fnc (hawk, "spanok", 1, 1, fnc_spanok);
	add_fnc (hawk, "dump", 5, 5, fnc_dump);

	memset (psin, 0, sizeof(psin));
	psin[0].type = HAWK_PARSESTD_BCS;
	psin[0].u.bcs.ptr = (hawk_bch_t*)PROG;
	psin[0].u.bcs.len = strlen(PROG);
	psin[1].type = HAWK_PARSESTD_NULL;
	if (hawk_parsestd(hawk, psin, HAWK_NULL) <= -1)
	{
		hawk_logbfmt (hawk, HAWK_LOG_STDERR, "ERROR(parse): %js\n", hawk_geterrmsg(hawk));
		return 3;
	}

	/* first line must be "new" */
	while (!have_new)
	{
		if (!read_words()) return 0;
		if (NW == 1 && strcmp(W[0], "new") == 0) have_new = 1; else puts ("SKIP");
	}

	while (have_new)
	{
		hawk_rtx_t* rtx;
		hawk_rio_cbs_t rio;
		hawk_val_t* retv;
		int failed = 0;

		puts ("ok");
		have_new = 0; saw_new = 0; saw_eof = 0; cq_len = cq_pos = 0; snapbuf[0] = '\0';

		rtx = hawk_rtx_openstd(hawk, 0, HAWK_T("rec_h"), HAWK_NULL, HAWK_NULL, HAWK_NULL);
		if (!rtx) { fprintf (stderr, "cannot open rtx\n"); return 3; }
		hawk_rtx_getrio (rtx, &rio);
		rio.console = my_console;
		hawk_rtx_setrio (rtx, &rio);

		retv = hawk_rtx_loop(rtx);
		if (retv) hawk_rtx_refdownval (rtx, retv);
		else
		{
			static char out[1 << 18];
			char* o = out;
			hawk_errnum_t en = hawk_rtx_geterrnum(rtx);
			failed = 1;
			if (en == HAWK_EINVAL) o += sprintf(o, "ERR einval ");
			else if (en == HAWK_EPOSIDX) o += sprintf(o, "ERR eposidx ");
			else if (en == HAWK_ENOMEM) o += sprintf(o, "ERR enomem ");
			else if (en == HAWK_ESCALARTONONSCA) o += sprintf(o, "ERR enonsca ");
			else if (en >= HAWK_EREXBADPAT && en <= HAWK_EREXBRACE) o += sprintf(o, "ERR erex ");
			else o += sprintf(o, "ERR e%d ", (int)en);
			o = full_state(rtx, o);
			o = lang_state(rtx, o);
			puts (out);
		}
		hawk_rtx_close (rtx);

		if (saw_new) { have_new = 1; continue; }
		if (saw_eof) break;
		/* the program stopped before the history was over */
		for (;;)
		{
			if (!read_words()) { saw_eof = 1; break; }
			if (NW == 1 && strcmp(W[0], "new") == 0) { have_new = 1; break; }
			puts (failed? "SKIP": "DESYNC");
		}
	}

	hawk_close (hawk);
	fflush (stdout);
	return 0;
}
