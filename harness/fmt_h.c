/* C12 harness: hawk's sprintf (through the real builtin -> hawk_rtx_format / hawk_rtx_formatmbs)
 * next to libc snprintf with the equivalently typed argument.
 *
 * stdin, one case per line, TAB separated:
 *   S <fmthex> <cfmthex|-> <cval|-> <arg>...     sprintf(fmt, args...) with a character-string format
 *   B <fmthex> <cfmthex|-> <cval|-> <arg>...     same with a byte-string format (@b"...") -> hawk_rtx_formatmbs
 *   R <spechex> <fltvalue>                       libc only: snprintf(spec, (long double)value)  (spec contains 'L')
 *   G <name> <fmthex>                            set global CONVFMT/OFMT through a hawk function (returns old value)
 *   V <arg>                                      number -> string through CONVFMT: returns (arg "")
 *   K <kind> <p|-> <buflen> <prehex> <arg>       hawk_rtx_valtostr() with each output kind and its relatives (see below)
 *   T                                            internal state: rtx->format.tmp.len and rtx->formatmbs.tmp.len  -> T=<n> <n>
 * <arg>  : i:<dec> | f:<text>[:...] | s:<hex>[:...] | m:<hex>[:...] | c:<code> | y:<code> (byte char) | n:
 *          (anything after a second ':' is an annotation for the Lean driver and ignored here)
 * <cval> : d:<dec> (intmax_t)  u:<dec> (uintmax_t)  c:<code> (int)  s:<hex> (char*)  f:<text> (long double)  0: (no value argument)
 *          the '*' arguments of the C call are the leading i: arguments, as int.
 * stdout, one line per case:  H=<units|!ERR<num>> C=<units|NA>[ F=<call>|<call>...]
 *   F= (only when hawk called libc while formatting): every snprintf call hawk made for this case, in order, as
 *   <format text in hex>;<size argument>;<return value>;<the long double argument as %La in hex>;<h|s: heap or stack buffer>
 *   (the harness is linked with -Wl,--wrap=snprintf: __wrap_snprintf below sees exactly what fmt.c hands to libc)
 *   units = code units in hex joined by '.', empty string = "-"
 */
#include <hawk-std.h>
#include <hawk-prv.h>
#include <stdio.h>
#include <stdlib.h>
#include <string.h>
#include <stdint.h>
#include <inttypes.h>
#include <locale.h>
#include <unistd.h>

#include <stdarg.h>
/* link-time interposition on snprintf: log what hawk hands to libc while `fmtlog_on` is set */
static int fmtlog_on = 0;
static char fmtlog[8192];
static size_t fmtlog_len = 0;
static int fmtlog_calls = 0;
int __wrap_snprintf (char* buf, size_t size, const char* fmt, ...)
{
	va_list ap; int n;
	va_start (ap, fmt);
	if (fmtlog_on)
	{
		va_list ap2; long double ld = 0; size_t k;
		int onstack = ((char*)buf >= (char*)&ap - 65536 && (char*)buf <= (char*)&ap + 65536);
		va_copy (ap2, ap);
		if (strchr(fmt, 'L')) ld = va_arg(ap2, long double);
		va_end (ap2);
		n = vsnprintf(buf, size, fmt, ap);
		fmtlog_calls++;
		if (fmtlog_len + 2 * strlen(fmt) + 200 < sizeof(fmtlog))
		{
			if (fmtlog_len) fmtlog[fmtlog_len++] = '|';
			for (k = 0; fmt[k]; k++) fmtlog_len += sprintf(&fmtlog[fmtlog_len], "%02x", (unsigned char)fmt[k]);
			fmtlog_len += sprintf(&fmtlog[fmtlog_len], ";%lu;%d;", (unsigned long)size, n);
			{ char t[64]; int m = sprintf(t, "%La", ld), j; for (j = 0; j < m; j++) fmtlog_len += sprintf(&fmtlog[fmtlog_len], "%02x", (unsigned char)t[j]); }
			fmtlog_len += sprintf(&fmtlog[fmtlog_len], ";%c", onstack? 's': 'h');
		}
	}
	else n = vsnprintf(buf, size, fmt, ap);
	va_end (ap);
	return n;
}

static const hawk_bch_t* src =
	"function f0(f){return sprintf(f)}\n"
	"function f1(f,a){return sprintf(f,a)}\n"
	"function f2(f,a,b){return sprintf(f,a,b)}\n"
	"function f3(f,a,b,c){return sprintf(f,a,b,c)}\n"
	"function f4(f,a,b,c,d){return sprintf(f,a,b,c,d)}\n"
	"function setconvfmt(f){o=CONVFMT; CONVFMT=f; return o}\n"
	"function setofmt(f){o=OFMT; OFMT=f; return o}\n"
	"function tostr(v){return (v \"\")}\n";

static hawk_t* hawk;
static hawk_rtx_t* rtx;

static int hexval (int c) { return (c >= '0' && c <= '9')? c - '0': (c >= 'a' && c <= 'f')? c - 'a' + 10: (c >= 'A' && c <= 'F')? c - 'A' + 10: -1; }

/* hex -> code units (each unit 2 hex digits = one byte; "u" prefix: 4 hex digits per unit) */
static size_t unhex (const char* s, unsigned int* out, size_t cap)
{
	size_t n = 0;
	int wide = 0;
	if (*s == 'u') { wide = 1; s++; }
	while (*s && *s != ':' && n < cap)
	{
		unsigned int v = 0; int k, nd = wide? 4: 2;
		for (k = 0; k < nd; k++) { int h = hexval((unsigned char)*s); if (h < 0) return n; v = v * 16 + h; s++; }
		out[n++] = v;
	}
	return n;
}

static void put_units_oo (const hawk_ooch_t* p, size_t n)
{
	size_t i;
	if (n == 0) { fputs("-", stdout); return; }
	for (i = 0; i < n; i++) printf("%s%x", i? ".": "", (unsigned int)p[i]);
}
static void put_units_b (const unsigned char* p, size_t n)
{
	size_t i;
	if (n == 0) { fputs("-", stdout); return; }
	for (i = 0; i < n; i++) printf("%s%x", i? ".": "", (unsigned int)p[i]);
}

#define MAXU 70000
static unsigned int ubuf[MAXU];

static hawk_val_t* mkarg (const char* a)
{
	switch (a[0])
	{
		case 'i': return hawk_rtx_makeintval(rtx, (hawk_int_t)strtoll(a + 2, NULL, 10));
		case 'f': return hawk_rtx_makefltval(rtx, (hawk_flt_t)strtold(a + 2, NULL));
		case 'c': return hawk_rtx_makecharval(rtx, (hawk_ooch_t)strtoul(a + 2, NULL, 10));
		case 'y': return hawk_rtx_makebchrval(rtx, (hawk_bch_t)strtoul(a + 2, NULL, 10));
		case 'n': return hawk_rtx_makenilval(rtx);
		case 's':
		{
			size_t n = unhex(a + 2, ubuf, MAXU), i;
			hawk_ooch_t* t = malloc((n + 1) * sizeof(*t));
			hawk_val_t* v;
			for (i = 0; i < n; i++) t[i] = (hawk_ooch_t)ubuf[i];
			v = hawk_rtx_makestrvalwithoochars(rtx, t, n);
			free (t);
			return v;
		}
		case 'm':
		{
			size_t n = unhex(a + 2, ubuf, MAXU), i;
			hawk_bch_t* t = malloc(n + 1);
			hawk_val_t* v;
			for (i = 0; i < n; i++) t[i] = (hawk_bch_t)ubuf[i];
			v = hawk_rtx_makembsvalwithbchars(rtx, t, n);
			free (t);
			return v;
		}
	}
	return NULL;
}

static void put_val (hawk_val_t* r)
{
	if (!r) { printf("!ERR%d", (int)hawk_rtx_geterrnum(rtx)); return; }
	switch (HAWK_RTX_GETVALTYPE(rtx, r))
	{
		case HAWK_VAL_STR:
			put_units_oo (((hawk_val_str_t*)r)->val.ptr, ((hawk_val_str_t*)r)->val.len);
			break;
		case HAWK_VAL_MBS:
			put_units_b ((const unsigned char*)((hawk_val_mbs_t*)r)->val.ptr, ((hawk_val_mbs_t*)r)->val.len);
			break;
		default:
			printf("!TYPE%d", (int)HAWK_RTX_GETVALTYPE(rtx, r));
			break;
	}
}

static char* cbuf = NULL;
static size_t cbuf_len = 0;

static void c_side (const char* cfmt, const char* cval, char** argv, int nargs)
{
	int st[2] = {0, 0}, ns = 0, n = -1, k;
	const char* p;
	for (p = cfmt; *p; p++) if (*p == '*') ns++;
	if (ns > 2 || ns > nargs) { fputs("NA", stdout); return; }
	for (k = 0; k < ns; k++)
	{
		if (argv[k][0] != 'i') { fputs("NA", stdout); return; }
		st[k] = (int)strtoll(argv[k] + 2, NULL, 10);
	}
	for (k = 0; k < 2; k++)
	{
		size_t cap = cbuf_len;
#define CALL(v) (ns == 0? snprintf(cbuf, cap, cfmt, v): ns == 1? snprintf(cbuf, cap, cfmt, st[0], v): snprintf(cbuf, cap, cfmt, st[0], st[1], v))
		switch (cval[0])
		{
			case 'd': { intmax_t v = (intmax_t)strtoll(cval + 2, NULL, 10); n = CALL(v); break; }
			case 'u': { uintmax_t v = (uintmax_t)strtoull(cval + 2, NULL, 10); n = CALL(v); break; }
			case 'c': { int v = (int)strtol(cval + 2, NULL, 10); n = CALL(v); break; }
			case 'f': { long double v = strtold(cval + 2, NULL); n = CALL(v); break; }
			case 's':
			{
				size_t m = unhex(cval + 2, ubuf, MAXU), i;
				char* t = malloc(m + 1);
				for (i = 0; i < m; i++) t[i] = (char)ubuf[i];
				t[m] = '\0';
				n = CALL(t);
				free (t);
				break;
			}
			case '0':
				n = (ns == 0? snprintf(cbuf, cap, cfmt): ns == 1? snprintf(cbuf, cap, cfmt, st[0]): snprintf(cbuf, cap, cfmt, st[0], st[1]));
				break;
			default: fputs("NA", stdout); return;
		}
		if (n < 0) { fputs("NA", stdout); return; }
		if ((size_t)n < cbuf_len) break;
		cbuf_len = (size_t)n + 16; cbuf = realloc(cbuf, cbuf_len);
	}
	put_units_b ((const unsigned char*)cbuf, (size_t)n);
}

static char* split_tab (char** s)
{
	char* p = *s, * q;
	if (!p) return NULL;
	q = strchr(p, '\t');
	if (q) { *q = '\0'; *s = q + 1; } else *s = NULL;
	return p;
}

static char* hex_to_cstr (const char* h)
{
	size_t n = unhex(h, ubuf, MAXU), i;
	char* t = malloc(n + 1);
	for (i = 0; i < n; i++) t[i] = (char)ubuf[i];
	t[n] = '\0';
	return t;
}

int main (int argc, char** argv)
{
	hawk_parsestd_t psin[2];
	char* line = NULL; size_t lcap = 0; ssize_t ll;

	setlocale (LC_ALL, "");
	if (argc > 1 && strcmp(argv[1], "-l") == 0) setvbuf (stdout, NULL, _IOLBF, 0); /* line buffered: a crash is attributed to the right input line */
	cbuf_len = 4096; cbuf = malloc(cbuf_len);

	hawk = hawk_openstd(0, HAWK_NULL);
	if (!hawk) { fprintf(stderr, "cannot open hawk\n"); return 3; }
	memset (&psin, 0, sizeof(psin));
	psin[0].type = HAWK_PARSESTD_BCS;
	psin[0].u.bcs.ptr = (hawk_bch_t*)src;
	psin[0].u.bcs.len = strlen(src);
	psin[1].type = HAWK_PARSESTD_NULL;
	if (hawk_parsestd(hawk, psin, HAWK_NULL) <= -1) { fprintf(stderr, "parse failed\n"); return 3; }
	rtx = hawk_rtx_openstd(hawk, 0, HAWK_T("fmt_h"), HAWK_NULL, HAWK_NULL, HAWK_NULL);
	if (!rtx) { fprintf(stderr, "rtx open failed\n"); return 3; }

	while ((ll = getline(&line, &lcap, stdin)) > 0)
	{
		char* s = line, * mode, * a[8];
		int na = 0;
		alarm (20); /* watchdog per input line: one format call that takes this long counts as a hang (SIGALRM ends the process) */
		if (line[ll - 1] == '\n') line[--ll] = '\0';
		mode = split_tab(&s);
		if (!mode || !*mode) { puts("bad-line"); continue; }

		if (mode[0] == 'R')
		{
			char* spechex = split_tab(&s), * val = split_tab(&s), * spec;
			long double v; int n;
			if (!spechex || !val) { puts("bad-line"); continue; }
			spec = hex_to_cstr(spechex);
			v = strtold(val, NULL);
			n = snprintf(cbuf, cbuf_len, spec, v);
			if (n >= 0 && (size_t)n >= cbuf_len) { cbuf_len = n + 16; cbuf = realloc(cbuf, cbuf_len); n = snprintf(cbuf, cbuf_len, spec, v); }
			fputs ("C=", stdout);
			if (n < 0) fputs("NA", stdout); else put_units_b((const unsigned char*)cbuf, n);
			putchar ('\n');
			free (spec);
			continue;
		}
		if (mode[0] == 'T')
		{
			/* internal state: sizes of the scratch buffers of the two formatters */
			printf ("T=%lu %lu\n", (unsigned long)rtx->format.tmp.len, (unsigned long)rtx->formatmbs.tmp.len);
			continue;
		}
		if (mode[0] == 'K')
		{
			/* K <kind> <p|-> <buflen> <prehex> <arg>: hawk_rtx_valtostr() and its relatives, called directly.
			 * kind: cpl cplcpy cpldup strp strpcat (the five output kinds; p = HAWK_RTX_VALTOSTR_PRINT, i.e. OFMT),
			 *       oodup bdup getoo getb (hawk_rtx_valtooocstrdup / valtobcstrdup / getvaloocstr / getvalbcstr)
			 * buflen: cells of the caller's buffer for cpl/cplcpy (allocated exactly, so ASan sees an overflow);
			 * prehex: what the string buffer holds before the call, for strp/strpcat.
			 * -> K=<rc> e=<errnum> len=<out length> z=<1: NUL at ptr[len]> text=<units> */
			char* kind = split_tab(&s), * pf = split_tab(&s), * bl = split_tab(&s), * pre = split_tab(&s), * at = split_tab(&s);
			hawk_val_t* v;
			hawk_rtx_valtostr_out_t out;
			int rc = 0, type = -1, z = 0;
			hawk_oow_t len = 0, buflen, i;
			hawk_ooch_t* obuf = HAWK_NULL;
			hawk_ooecs_t ecs;
			int ecs_inited = 0;
			if (!kind || !pf || !bl || !pre || !at) { puts("bad-line"); continue; }
			v = mkarg(at);
			if (!v) { puts("bad-arg"); continue; }
			hawk_rtx_refupval (rtx, v);
			buflen = (hawk_oow_t)strtoul(bl, NULL, 10);
			hawk_rtx_seterrnum (rtx, HAWK_NULL, HAWK_ENOERR);
			if (strcmp(kind, "cpl") == 0) type = HAWK_RTX_VALTOSTR_CPL;
			else if (strcmp(kind, "cplcpy") == 0) type = HAWK_RTX_VALTOSTR_CPLCPY;
			else if (strcmp(kind, "cpldup") == 0) type = HAWK_RTX_VALTOSTR_CPLDUP;
			else if (strcmp(kind, "strp") == 0) type = HAWK_RTX_VALTOSTR_STRP;
			else if (strcmp(kind, "strpcat") == 0) type = HAWK_RTX_VALTOSTR_STRPCAT;
			if (type >= 0)
			{
				const hawk_ooch_t* rp = HAWK_NULL;
				out.type = type | (pf[0] == 'p'? HAWK_RTX_VALTOSTR_PRINT: 0);
				if (type == HAWK_RTX_VALTOSTR_CPL || type == HAWK_RTX_VALTOSTR_CPLCPY)
				{
					obuf = malloc((buflen? buflen: 1) * sizeof(*obuf));
					for (i = 0; i < buflen; i++) obuf[i] = 0x7f;
					out.u.cplcpy.ptr = obuf; out.u.cplcpy.len = buflen;
				}
				else if (type == HAWK_RTX_VALTOSTR_STRP || type == HAWK_RTX_VALTOSTR_STRPCAT)
				{
					size_t n = unhex(pre, ubuf, MAXU);
					hawk_ooecs_init (&ecs, hawk_rtx_getgem(rtx), 16); ecs_inited = 1;
					for (i = 0; i < n; i++) hawk_ooecs_ccat (&ecs, (hawk_ooch_t)ubuf[i]);
					out.u.strp = &ecs;
				}
				rc = hawk_rtx_valtostr(rtx, v, &out);
				if (type == HAWK_RTX_VALTOSTR_STRP || type == HAWK_RTX_VALTOSTR_STRPCAT)
				{
					rp = HAWK_OOECS_PTR(&ecs); len = HAWK_OOECS_LEN(&ecs); z = (rp[len] == 0);
				}
				else
				{
					len = out.u.cpl.len;
					if (rc >= 0) { rp = out.u.cpl.ptr; z = (rp[len] == 0); }
				}
				printf ("K=%d e=%d len=%lu z=%d text=", rc, (rc <= -1)? (int)hawk_rtx_geterrnum(rtx): 0, (unsigned long)len, z);
				if (rp && (rc >= 0 || ecs_inited)) put_units_oo (rp, len); else fputs("NA", stdout);
				putchar ('\n');
				if (type == HAWK_RTX_VALTOSTR_CPLDUP && rc >= 0) hawk_rtx_freemem (rtx, out.u.cpldup.ptr);
				if (obuf) free (obuf);
				if (ecs_inited) hawk_ooecs_fini (&ecs);
			}
			else if (strcmp(kind, "oodup") == 0 || strcmp(kind, "getoo") == 0)
			{
				hawk_ooch_t* p = (kind[0] == 'o')? hawk_rtx_valtooocstrdup(rtx, v, &len): hawk_rtx_getvaloocstr(rtx, v, &len);
				printf ("K=%d e=%d len=%lu z=%d text=", p? 0: -1, p? 0: (int)hawk_rtx_geterrnum(rtx), (unsigned long)len, (p && p[len] == 0));
				if (p) put_units_oo (p, len); else fputs("NA", stdout);
				putchar ('\n');
				if (p) { if (kind[0] == 'o') hawk_rtx_freemem (rtx, p); else hawk_rtx_freevaloocstr (rtx, v, p); }
			}
			else if (strcmp(kind, "bdup") == 0 || strcmp(kind, "getb") == 0)
			{
				hawk_bch_t* p = (kind[0] == 'b')? hawk_rtx_valtobcstrdup(rtx, v, &len): hawk_rtx_getvalbcstr(rtx, v, &len);
				printf ("K=%d e=%d len=%lu z=%d text=", p? 0: -1, p? 0: (int)hawk_rtx_geterrnum(rtx), (unsigned long)len, (p && p[len] == 0));
				if (p) put_units_b ((const unsigned char*)p, len); else fputs("NA", stdout);
				putchar ('\n');
				if (p) { if (kind[0] == 'b') hawk_rtx_freemem (rtx, p); else hawk_rtx_freevalbcstr (rtx, v, p); }
			}
			else puts ("bad-line");
			hawk_rtx_refdownval (rtx, v);
			continue;
		}
		if (mode[0] == 'G' || mode[0] == 'V')
		{
			hawk_val_t* args[1], * r;
			char* name = NULL, * x;
			if (mode[0] == 'G') name = split_tab(&s);
			x = split_tab(&s);
			if (!x || (mode[0] == 'G' && !name)) { puts("bad-line"); continue; }
			if (mode[0] == 'G')
			{
				char* f = hex_to_cstr(x);
				args[0] = hawk_rtx_makestrvalwithbcstr(rtx, f);
				free (f);
			}
			else args[0] = mkarg(x);
			if (!args[0]) { puts("bad-arg"); continue; }
			hawk_rtx_refupval (rtx, args[0]);
			r = hawk_rtx_callwithbcstr(rtx, mode[0] == 'V'? "tostr": (strcmp(name, "OFMT") == 0? "setofmt": "setconvfmt"), args, 1);
			fputs ("H=", stdout); put_val (r); putchar ('\n');
			if (r) hawk_rtx_refdownval (rtx, r);
			hawk_rtx_refdownval (rtx, args[0]);
			continue;
		}
		if (mode[0] == 'S' || mode[0] == 'B')
		{
			char* fmthex = split_tab(&s), * cfmthex = split_tab(&s), * cval = split_tab(&s), * t;
			hawk_val_t* args[6], * r;
			static const char* fn[] = { "f0", "f1", "f2", "f3", "f4" };
			int i, bad = 0;
			if (!fmthex || !cfmthex || !cval) { puts("bad-line"); continue; }
			while (na < 4 && (t = split_tab(&s)) != NULL) a[na++] = t;
			{
				size_t n = unhex(fmthex, ubuf, MAXU), k;
				if (mode[0] == 'S')
				{
					hawk_ooch_t* f = malloc((n + 1) * sizeof(*f));
					for (k = 0; k < n; k++) f[k] = (hawk_ooch_t)ubuf[k];
					args[0] = hawk_rtx_makestrvalwithoochars(rtx, f, n);
					free (f);
				}
				else
				{
					hawk_bch_t* f = malloc(n + 1);
					for (k = 0; k < n; k++) f[k] = (hawk_bch_t)ubuf[k];
					args[0] = hawk_rtx_makembsvalwithbchars(rtx, f, n);
					free (f);
				}
			}
			for (i = 0; i < na; i++) { args[i + 1] = mkarg(a[i]); if (!args[i + 1]) bad = 1; }
			if (bad || !args[0]) { puts("bad-arg"); continue; }
			for (i = 0; i <= na; i++) hawk_rtx_refupval (rtx, args[i]);
			fmtlog_len = 0; fmtlog_calls = 0; fmtlog_on = 1;
			r = hawk_rtx_callwithbcstr(rtx, fn[na], args, na + 1);
			fmtlog_on = 0;
			fputs ("H=", stdout); put_val (r);
			if (r) hawk_rtx_refdownval (rtx, r);
			for (i = 0; i <= na; i++) hawk_rtx_refdownval (rtx, args[i]);
			fputs (" C=", stdout);
			if (strcmp(cfmthex, "-") == 0) fputs("NA", stdout);
			else
			{
				char* cf = hex_to_cstr(cfmthex);
				c_side (cf, cval, a, na);
				free (cf);
			}
			if (fmtlog_calls > 0) { fmtlog[fmtlog_len] = '\0'; printf (" F=%s", fmtlog); }
			putchar ('\n');
			continue;
		}
		puts ("bad-line");
	}
	fflush (stdout);
	hawk_rtx_close (rtx);
	hawk_close (hawk);
	return 0;
}
