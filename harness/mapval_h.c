/* C16 (language-level containers through the embedding API of lib/val.c): drives the REAL
 * hawk_rtx_makemapval / hawk_rtx_setmapvalfld / hawk_rtx_getmapvalfld / hawk_rtx_getfirstmapvalitr /
 * hawk_rtx_getnextmapvalitr (the map a hawk program sees: a red-black tree with the default comparator)
 * and hawk_rtx_makearrval / hawk_rtx_setarrvalfld / hawk_rtx_getarrvalfld (hawk::array()), with the
 * line protocol `mv ...` of lean/HawkModel/Drv/Htb.lean, whose answers come from HawkModel.ForIn.Val —
 * the container model the for-in theorems and the generated programs use.
 *
 *   mv new | mv set K V | mv get K | mv del K | mv clear | mv iter          (map; keys are the decimal strings of K)
 *   mv anew | mv aset I V | mv aget I | mv aiter                           (array; aiter scans the slots as run_forin does)
 * A watchdog turns a call that never returns into a "HANG" line. */
#include <hawk-std.h>
#include <stdio.h>
#include <stdlib.h>
#include <string.h>
#include <signal.h>
#include <unistd.h>

static hawk_t* hawk; static hawk_rtx_t* rtx; static hawk_val_t* map; static hawk_val_t* arr;
static void on_alarm (int sig) { printf("HANG\n"); fflush(stdout); _exit(3); }

static int open_all (void)
{
	hawk_parsestd_t psin[2]; hawk_errnum_t en;
	static const hawk_bch_t* src = "BEGIN { }";
	hawk = hawk_openstd(0, &en);
	if (!hawk) return -1;
	memset (&psin, 0, sizeof(psin));
	psin[0].type = HAWK_PARSESTD_BCS; psin[0].u.bcs.ptr = (hawk_bch_t*)src; psin[0].u.bcs.len = strlen(src);
	psin[1].type = HAWK_PARSESTD_NULL;
	if (hawk_parsestd(hawk, psin, HAWK_NULL) <= -1) return -1;
	rtx = hawk_rtx_open(hawk, 0, HAWK_NULL);
	return rtx ? 0 : -1;
}

static void mkkey (unsigned long k, hawk_ooch_t* buf, hawk_oow_t* len)
{
	char tmp[32]; int n = snprintf(tmp, sizeof(tmp), "%lu", k), i;
	for (i = 0; i < n; i++) buf[i] = (hawk_ooch_t)tmp[i];
	buf[n] = 0; *len = n;
}

static long ival (const hawk_val_t* v)
{
	hawk_int_t l = -1;
	if (!v || hawk_rtx_valtoint(rtx, v, &l) <= -1) return -1;
	return (long)l;
}

int main (int argc, char** argv)
{
	char line[256], op[32]; unsigned long x, y; hawk_ooch_t kb[32]; hawk_oow_t kl;
	int wd = argc > 1 ? atoi(argv[1]) : 10;
	if (open_all() <= -1) { printf("open-failed\n"); return 2; }
	signal(SIGALRM, on_alarm);
	while (fgets(line, sizeof(line), stdin))
	{
		alarm(wd);
		if (sscanf(line, "mv %31s", op) != 1) { printf("bad-op\n"); continue; }
		if (!strcmp(op, "new"))
		{
			if (map) hawk_rtx_refdownval(rtx, map);
			map = hawk_rtx_makemapval(rtx);
			if (map) hawk_rtx_refupval(rtx, map);
			printf(map ? "ok\n" : "NULL\n");
		}
		else if (!strcmp(op, "anew"))
		{
			if (arr) hawk_rtx_refdownval(rtx, arr);
			arr = hawk_rtx_makearrval(rtx, -1);
			if (arr) hawk_rtx_refupval(rtx, arr);
			printf(arr ? "ok\n" : "NULL\n");
		}
		else if (!strcmp(op, "set") && map && sscanf(line, "mv %*s %lu %lu", &x, &y) == 2)
		{
			hawk_val_t* v = hawk_rtx_makeintval(rtx, (hawk_int_t)y);
			mkkey(x, kb, &kl);
			printf(hawk_rtx_setmapvalfld(rtx, map, kb, kl, v) ? "ok" : "NULL");
			printf(" n=%lu\n", (unsigned long)HAWK_MAP_SIZE(((hawk_val_map_t*)map)->map));
		}
		else if (!strcmp(op, "get") && map && sscanf(line, "mv %*s %lu", &x) == 1)
		{
			hawk_val_t* v; mkkey(x, kb, &kl);
			v = hawk_rtx_getmapvalfld(rtx, map, kb, kl);
			if (v) printf("%ld\n", ival(v)); else printf("-\n");
		}
		else if (!strcmp(op, "del") && map && sscanf(line, "mv %*s %lu", &x) == 1)
		{
			mkkey(x, kb, &kl);
			printf(hawk_map_delete(((hawk_val_map_t*)map)->map, kb, kl) == 0 ? "ok" : "ENOENT");
			printf(" n=%lu\n", (unsigned long)HAWK_MAP_SIZE(((hawk_val_map_t*)map)->map));
		}
		else if (!strcmp(op, "clear") && map)
		{
			hawk_map_clear(((hawk_val_map_t*)map)->map);
			printf("ok n=%lu\n", (unsigned long)HAWK_MAP_SIZE(((hawk_val_map_t*)map)->map));
		}
		else if (!strcmp(op, "iter") && map)
		{
			hawk_val_map_itr_t itr, * p; unsigned long n = 0, i;
			for (p = hawk_rtx_getfirstmapvalitr(rtx, map, &itr); p; p = hawk_rtx_getnextmapvalitr(rtx, map, &itr))
			{
				const hawk_oocs_t* k = HAWK_VAL_MAP_ITR_KEY(p);
				printf("%s", n ? "," : "");
				for (i = 0; i < k->len; i++) putchar((int)k->ptr[i]);
				printf("=%ld", ival(HAWK_VAL_MAP_ITR_VAL(p)));
				if (++n > 100000) { printf(",RUNAWAY"); break; }
			}
			printf(" n=%lu\n", n);
		}
		else if (!strcmp(op, "aset") && arr && sscanf(line, "mv %*s %lu %lu", &x, &y) == 2)
		{
			hawk_val_t* v = hawk_rtx_makeintval(rtx, (hawk_int_t)y);
			printf(hawk_rtx_setarrvalfld(rtx, arr, (hawk_ooi_t)x, v) ? "ok\n" : "NULL\n");
		}
		else if (!strcmp(op, "aget") && arr && sscanf(line, "mv %*s %lu", &x) == 1)
		{
			hawk_val_t* v = hawk_rtx_getarrvalfld(rtx, arr, (hawk_ooi_t)x);
			if (v) printf("%ld\n", ival(v)); else printf("-\n");
		}
		else if (!strcmp(op, "aiter") && arr)
		{
			hawk_arr_t* a = ((hawk_val_arr_t*)arr)->arr; hawk_oow_t i; unsigned long n = 0;
			for (i = 0; i < HAWK_ARR_SIZE(a); i++)
			{
				if (!HAWK_ARR_SLOT(a, i)) continue;
				printf("%s%lu=%ld", n ? "," : "", (unsigned long)i, ival(hawk_rtx_getarrvalfld(rtx, arr, (hawk_ooi_t)i))); n++;
			}
			printf(" n=%lu\n", n);
		}
		else printf("bad-op\n");
		fflush(stdout);
	}
	alarm(0);
	if (map) hawk_rtx_refdownval(rtx, map);
	if (arr) hawk_rtx_refdownval(rtx, arr);
	hawk_rtx_close(rtx); hawk_close(hawk);
	return 0;
}
