/* C20 correspondence harness: drives the REAL lib/xma.c (textually included from the
 * working tree, so its statics, private structs and macros are visible) with the line
 * protocol of lean/HawkModel/Drv/Xma.lean.
 *
 *   init Z        hawk_xma_init(xma, mmgr, NULL, Z)   zone obtained through our mmgr (the `hawk -m` path)
 *   initx Z       hawk_xma_init(xma, mmgr, zone, Z)   externally supplied, 16-byte aligned zone of exactly Z bytes
 *   initx Z       ... Z may be ANY size (also not a multiple of 16): the buffer handed over has exactly Z bytes, the byte
 *                 after it is poisoned (ASan partial granule) and the guard bands carry a pattern that is verified
 *                 when the zone is released ("!GUARD" on the next init line / at exit)
 *   alloc N       p = hawk_xma_alloc(N); the result goes into the next handle slot (also when NULL)
 *   calloc N      p = hawk_xma_calloc(N); as alloc; the N bytes must read zero (" !NONZERO")
 *   dump          hawk_xma_dump() into a collector: "r=dump blocks=<block lines> alloc=<bytes> avail=<bytes>"
 *   realloc I N   slot[I] = hawk_xma_realloc(slot[I], N) (slot empty -> realloc(NULL,N)); NULL keeps the old block
 *   free I        hawk_xma_free(slot[I]) (empty slot -> "r=skip")
 *
 * The zone lives inside a larger malloc() block; the bands before and after it are
 * ASan-poisoned, so that any access of xma.c outside [start,end) aborts the run.
 * Every handle owns a byte pattern written over the *requested* length after alloc/realloc and
 * verified before realloc/free, after realloc (over min(old,new)) and for all handles every
 * 8th op and at `init` (-> " CORRUPT h=<i>" appended to the line).
 *
 * After every op one line:
 *   r=<user offset|NULL|ok|skip|0|-1> B=(off,size,free,prev_size)... F=<class>:[off,off..];... S=<alloc>,<avail>,<nused>,<nfree>
 * B is the walk from xma->start via next_mblk; F lists every non-empty xfree[] chain following
 * free_next (and cross-checking free_prev: "!LINK" on a broken back link); S are the
 * HAWK_XMA_ENABLE_STAT counters (the Lean driver derives them from its chain). */
#include "xma.c"
#include <stdio.h>
#include <stdlib.h>
#include <string.h>
#include <stdint.h>
#include <stdarg.h>

#if defined(__has_feature)
#  if __has_feature(address_sanitizer)
#    define HAVE_ASAN 1
#  endif
#endif
#if defined(__SANITIZE_ADDRESS__)
#  define HAVE_ASAN 1
#endif
#if defined(HAVE_ASAN)
void __asan_poison_memory_region(void const volatile* addr, size_t size);
void __asan_unpoison_memory_region(void const volatile* addr, size_t size);
void __sanitizer_set_death_callback(void (*cb)(void));
#  define POISON(a,n) __asan_poison_memory_region((a),(n))
#  define UNPOISON(a,n) __asan_unpoison_memory_region((a),(n))
#else
#  define POISON(a,n) ((void)0)
#  define UNPOISON(a,n) ((void)0)
#endif

#define GUARD 4096

static unsigned char* raw; static size_t rawsize;   /* guard + zone + guard */
static unsigned char* zone; static size_t zonesize;

static int guard_broken;
static void zone_release (void)
{
	if (raw)
	{
		size_t i;
		UNPOISON(raw, rawsize);
		for (i = 0; i < GUARD; i++) if (raw[i] != 0xEE) guard_broken = 1;
		for (i = GUARD + zonesize; i < rawsize; i++) if (raw[i] != 0xEE) guard_broken = 1;
		free(raw); raw = NULL; zone = NULL;
	}
}
static unsigned char* zone_make (size_t z)
{
	size_t zr = (z + 15) & ~(size_t)15;
	zone_release();
	rawsize = GUARD + zr + GUARD;
	raw = (unsigned char*)aligned_alloc(16, rawsize);
	if (!raw) return NULL;
	memset(raw, 0xEE, rawsize);
	zone = raw + GUARD; zonesize = z;
	POISON(raw, GUARD);
	/* poison from the first byte after the zone (asan handles the partial granule: "first k bytes addressable") */
	POISON(zone + z, rawsize - GUARD - z);
	return zone;
}

static void* m_alloc (hawk_mmgr_t* m, hawk_oow_t n) { return zone_make(n); }
static void* m_realloc (hawk_mmgr_t* m, void* p, hawk_oow_t n) { return NULL; }
static void m_free (hawk_mmgr_t* m, void* p) { if (p == zone) zone_release(); }
static hawk_mmgr_t mmgr = { m_alloc, m_realloc, m_free, NULL };

static hawk_xma_t xma; static int inited;

#define MAXH (1 << 20)
static void* hp[MAXH]; static size_t hn[MAXH]; static size_t nh;

static unsigned char pat (size_t h) { return (unsigned char)(h * 37 + 11); }
static void fill (size_t h) { if (hp[h]) memset(hp[h], pat(h), hn[h]); }
static int verify (size_t h, size_t n)
{
	size_t i; unsigned char* p = (unsigned char*)hp[h], c = pat(h);
	if (!p) return 1;
	for (i = 0; i < n; i++) if (p[i] != c) return 0;
	return 1;
}
static long corrupt = -1;
static void verify_all (void)
{
	size_t h;
	for (h = 0; h < nh; h++) if (hp[h] && !verify(h, hn[h]) && corrupt < 0) corrupt = (long)h;
}


/* ---- invariant flags computed on the real heap, independently of the Lean model ----
 * first failing rule is reported as " !INV:<code>" (nothing is printed when all hold):
 *  tile   walk from start does not end exactly at end         prev   prev_size != size of the predecessor (0 first)
 *  size   size not a multiple of ALIGN or < MINALLOCSIZE      adj    two adjacent free blocks
 *  flist  a free-list entry is not a free block of the walk, is listed twice, sits in the wrong class, has a broken
 *         back link, or a free block is in no list              live   live handles and allocated blocks do not correspond
 *         one to one, or a block is smaller than requested     stat   debug counters differ from the walk
 *  one    no live handle but more than one block */
static size_t* ioff; static unsigned char* iflag; static size_t icap;
static int cmp_sz (const void* a, const void* b) { size_t x = *(const size_t*)a, y = *(const size_t*)b; return (x > y) - (x < y); }
static long find_blk (size_t n, size_t off)
{
	size_t lo = 0, hi = n;
	while (lo < hi) { size_t mid = (lo + hi) / 2; if (ioff[mid] < off) lo = mid + 1; else hi = mid; }
	return (lo < n && ioff[lo] == off) ? (long)lo : -1;
}
static const char* check_inv (void)
{
	hawk_uint8_t* p; size_t n = 0, i, nfree = 0, nused = 0, asum = 0, fsum = 0, prevsz = 0, inlist = 0, h, nlive = 0; int prevfree = 0;
	if (!inited) return NULL;
	for (p = xma.start; p < xma.end; )
	{
		hawk_xma_mblk_t* b = (hawk_xma_mblk_t*)p;
		if ((size_t)(xma.end - p) < MBLKHDRSIZE + (size_t)b->size) return "tile";
		if (n >= icap) { icap = icap ? icap * 2 : 1024; ioff = (size_t*)realloc(ioff, icap * sizeof(size_t)); iflag = (unsigned char*)realloc(iflag, icap); }
		ioff[n] = (size_t)(p - xma.start); iflag[n] = b->free ? 1 : 0;
		if (b->prev_size != prevsz) return "prev";
		/* every header at a multiple of ALIGN: all blocks but the last of the zone have aligned sizes */
		if (((size_t)(p - xma.start)) % ALIGN != 0 || b->size < MINALLOCSIZE) return "size";
		if (prevfree && b->free) return "adj";
		if (b->free) { nfree++; fsum += b->size; } else { nused++; asum += b->size; }
		prevsz = b->size; prevfree = b->free; n++;
		p += MBLKHDRSIZE + b->size;
		if (n > (1u << 22)) return "tile";
	}
	if (p != xma.end) return "tile";
	for (i = 0; i < HAWK_COUNTOF(xma.xfree); i++)
	{
		hawk_xma_fblk_t* f, * pv = NULL; size_t k = 0;
		for (f = xma.xfree[i]; f; pv = f, f = f->free_next)
		{
			long bi;
			if ((hawk_uint8_t*)f < xma.start || (hawk_uint8_t*)f + HAWK_SIZEOF(*f) > xma.end) return "flist";
			bi = find_blk(n, (size_t)((hawk_uint8_t*)f - xma.start));
			if (bi < 0 || iflag[bi] != 1) return "flist";   /* not a free block, or already seen */
			iflag[bi] = 2;
			if (getxfi(&xma, f->size) != i) return "flist";
			if (f->free_prev != pv) return "flist";
			inlist++;
			if (++k > n) return "flist";
		}
	}
	if (inlist != nfree) return "flist";
	for (h = 0; h < nh; h++)
	{
		long bi; hawk_xma_mblk_t* b;
		if (!hp[h]) continue;
		nlive++;
		if ((hawk_uint8_t*)hp[h] < xma.start + MBLKHDRSIZE || (hawk_uint8_t*)hp[h] > xma.end) return "live";
		if (((size_t)((hawk_uint8_t*)hp[h] - xma.start)) % ALIGN != 0) return "live";
		bi = find_blk(n, (size_t)((hawk_uint8_t*)hp[h] - xma.start) - MBLKHDRSIZE);
		if (bi < 0 || iflag[bi] != 0) return "live";      /* not an allocated block, or two handles share it */
		iflag[bi] = 3;
		b = (hawk_xma_mblk_t*)USR_TO_SYS(hp[h]);
		if (b->size < hn[h]) return "live";
	}
	if (nlive != nused) return "live";
#if defined(HAWK_XMA_ENABLE_STAT)
	if (xma.stat.alloc != asum || xma.stat.avail != fsum || xma.stat.nused != nused || xma.stat.nfree != nfree ||
	    xma.stat.total != (hawk_oow_t)(xma.end - xma.start)) return "stat";
#endif
	if (nlive == 0 && n != 1) return "one";
	return NULL;
}

static char* dbuf; static size_t dlen, dcap; static size_t limit;
static void dprintf_ (const char* fmt, ...)
{
	va_list ap; int n;
	if (dcap - dlen < 128) { dcap = dcap ? dcap * 2 : (1 << 16); dbuf = (char*)realloc(dbuf, dcap); }
	va_start(ap, fmt); n = vsnprintf(dbuf + dlen, dcap - dlen, fmt, ap); va_end(ap);
	dlen += n;
}
#define printf dprintf_
static size_t dump_ (void)
{
	hawk_uint8_t* p; size_t cnt = 0, i; int first = 1;
	if (!inited) { printf(" B= F= S=0,0,0,0"); return 0; }
	printf(" B=");
	for (p = xma.start; p < xma.end; )
	{
		hawk_xma_mblk_t* b = (hawk_xma_mblk_t*)p;
		hawk_uint8_t* nx;
		printf("(%lu,%lu,%u,%lu)", (unsigned long)(p - xma.start), (unsigned long)b->size, (unsigned)b->free, (unsigned long)b->prev_size);
		if ((size_t)(xma.end - p) < MBLKHDRSIZE + (size_t)b->size) { printf("!WALK"); break; }
		nx = p + MBLKHDRSIZE + b->size;
		if (nx < xma.end && (size_t)(xma.end - nx) < MBLKHDRSIZE) { printf("!WALK"); break; }
		p = nx;
		if (++cnt > (1u << 22)) { printf("!LOOP"); break; }
	}
	printf(" F=");
	for (i = 0; i < HAWK_COUNTOF(xma.xfree); i++)
	{
		hawk_xma_fblk_t* f, * pv = NULL; size_t k = 0;
		if (!xma.xfree[i]) continue;
		printf("%s%lu:[", first ? "" : ";", (unsigned long)i); first = 0;
		for (f = xma.xfree[i]; f; pv = f, f = f->free_next)
		{
			if ((hawk_uint8_t*)f < xma.start || (hawk_uint8_t*)f + HAWK_SIZEOF(*f) > xma.end) { printf("!PTR"); break; }
			printf("%s%lu", k ? "," : "", (unsigned long)((hawk_uint8_t*)f - xma.start));
			if (f->free_prev != pv) printf("!LINK");
			if (++k > (1u << 22)) { printf("!LOOP"); break; }
		}
		printf("]");
	}
#if defined(HAWK_XMA_ENABLE_STAT)
	printf(" S=%lu,%lu,%lu,%lu", (unsigned long)xma.stat.alloc, (unsigned long)xma.stat.avail, (unsigned long)xma.stat.nused, (unsigned long)xma.stat.nfree);
#else
	printf(" S=-");
#endif
	return cnt;
}
#undef printf
static void dump (void)
{
	size_t n;
	dlen = 0; if (dbuf) dbuf[0] = 0;
	n = dump_();
	if (limit > 0 && n > limit)
	{
		unsigned long long h = 14695981039346656037ULL; size_t i;
		for (i = 0; i < dlen; i++) { h ^= (unsigned char)dbuf[i]; h *= 1099511628211ULL; }
		printf(" n=%lu H=%llu", (unsigned long)n, h);
	}
	else fwrite(dbuf, 1, dlen, stdout);
}

static void on_death (void) { fflush(stdout); }

static int nonzero;
static unsigned long dsum_blocks, dsum_alloc, dsum_avail;
static void collect_dump (void* ctx, const hawk_bch_t* fmt, ...)
{
	char buf[512]; va_list ap; unsigned long v; unsigned int f;
	va_start(ap, fmt); vsnprintf(buf, sizeof(buf), fmt, ap); va_end(ap);
	if (sscanf(buf, " %lu %u 0x", &v, &f) == 2 && buf[0] == ' ') dsum_blocks++;
	else if (sscanf(buf, "Allocated blocks: %lu", &v) == 1) dsum_alloc = v;
	else if (sscanf(buf, "Available blocks: %lu", &v) == 1) dsum_avail = v;
}

int main (int argc, char** argv)
{
	char line[256], op[32]; unsigned long long x, y; unsigned long opno = 0;
	static char obuf[1 << 16];
	setvbuf(stdout, obuf, _IOFBF, sizeof(obuf));
#if defined(HAVE_ASAN)
	__sanitizer_set_death_callback(on_death);
#endif
	if (argc > 1 && !strcmp(argv[1], "const"))
	{
		hawk_xma_t* xp = &xma;
		printf("ALIGN=%lu HDR=%lu MINALLOC=%lu FBLKMIN=%lu FIXED=%lu XFIMAX=%lu NCLS=%lu BITS=%lu SIZEBITS=%lu\n",
			(unsigned long)ALIGN, (unsigned long)MBLKHDRSIZE, (unsigned long)MINALLOCSIZE, (unsigned long)FBLKMINSIZE,
			(unsigned long)FIXED, (unsigned long)XFIMAX(xp), (unsigned long)HAWK_COUNTOF(xma.xfree),
			(unsigned long)(HAWK_SIZEOF_OOW_T * 8), (unsigned long)HAWK_XMA_SIZE_BITS);
		return 0;
	}
	while (fgets(line, sizeof(line), stdin))
	{
		corrupt = -1; opno++;
		if (sscanf(line, "%31s", op) != 1) { printf("bad-op\n"); continue; }
		if (!strcmp(op, "limit") && sscanf(line, "%*s %llu", &x) == 1) { limit = (size_t)x; printf("ok\n"); continue; }
		if ((!strcmp(op, "init") || !strcmp(op, "initx")) && sscanf(line, "%*s %llu", &x) == 1)
		{
			int r;
			if (inited) { verify_all(); hawk_xma_fini(&xma); inited = 0; }
			zone_release();
			nh = 0;
			if (op[4] == 'x')
			{
				void* z = zone_make((size_t)x);
				r = hawk_xma_init(&xma, &mmgr, z, (hawk_oow_t)x);
			}
			else r = hawk_xma_init(&xma, &mmgr, HAWK_NULL, (hawk_oow_t)x);
			inited = (r >= 0);
			if (guard_broken) { printf("!GUARD"); guard_broken = 0; }
			if (inited && xma.start != zone) printf("!ZONE");
			if (inited && (size_t)(xma.end - xma.start) > zonesize) printf("!ZONEEND");
			printf("r=%d", r);
			if (inited) printf(" z=%lu", (unsigned long)(xma.end - xma.start));
		}
		else if (!inited) { printf("bad-op\n"); continue; }
		else if (!strcmp(op, "dump"))
		{
			dsum_blocks = 0; dsum_alloc = dsum_avail = 0;
			hawk_xma_dump(&xma, collect_dump, HAWK_NULL);
			printf("r=dump blocks=%lu alloc=%lu avail=%lu", dsum_blocks, dsum_alloc, dsum_avail);
		}
		else if ((!strcmp(op, "alloc") || !strcmp(op, "calloc")) && sscanf(line, "%*s %llu", &x) == 1)
		{
			void* p;
			if (nh >= MAXH) { printf("bad-op\n"); continue; }
			if (op[0] == 'c')
			{
				p = hawk_xma_calloc(&xma, (hawk_oow_t)x);
				if (p && x <= (unsigned long long)(xma.end - xma.start))
				{
					size_t i; for (i = 0; i < (size_t)x; i++) if (((unsigned char*)p)[i] != 0) { nonzero = 1; break; }
				}
			}
			else p = hawk_xma_alloc(&xma, (hawk_oow_t)x);
			hp[nh] = p; hn[nh] = (size_t)x; nh++;
			if (p && x > (unsigned long long)(xma.end - xma.start)) { printf("!OVERSIZE"); hn[nh - 1] = 0; }
			fill(nh - 1);
			if (p) printf("r=%lu", (unsigned long)((hawk_uint8_t*)p - xma.start)); else printf("r=NULL");
		}
		else if (!strcmp(op, "realloc") && sscanf(line, "%*s %llu %llu", &x, &y) == 2)
		{
			void* p; size_t keep;
			if (x >= nh) { printf("bad-op\n"); continue; }
			if (hp[x] && !verify(x, hn[x])) corrupt = (long)x;
			p = hawk_xma_realloc(&xma, hp[x], (hawk_oow_t)y);
			if (p)
			{
				keep = hp[x] ? (hn[x] < (size_t)y ? hn[x] : (size_t)y) : 0;
				if (keep > (size_t)(xma.end - xma.start)) keep = 0;
				hp[x] = p;
				if (!verify(x, keep)) corrupt = (long)x;
				hn[x] = (size_t)y;
				if (y > (unsigned long long)(xma.end - xma.start)) { printf("!OVERSIZE"); hn[x] = 0; }
				fill(x);
				printf("r=%lu", (unsigned long)((hawk_uint8_t*)p - xma.start));
			}
			else
			{
				if (hp[x] && !verify(x, hn[x])) corrupt = (long)x;
				printf("r=NULL");
			}
		}
		else if (!strcmp(op, "free") && sscanf(line, "%*s %llu", &x) == 1)
		{
			if (x >= nh) { printf("bad-op\n"); continue; }
			if (!hp[x]) printf("r=skip");
			else
			{
				if (!verify(x, hn[x])) corrupt = (long)x;
				hawk_xma_free(&xma, hp[x]);
				hp[x] = NULL;
				printf("r=ok");
			}
		}
		else { printf("bad-op\n"); continue; }
		if ((opno & 7) == 0) verify_all();
		dump();
		if (nonzero) { printf(" !NONZERO"); nonzero = 0; }
		{ const char* iv = check_inv(); if (iv) printf(" !INV:%s", iv); }
		if (corrupt >= 0) printf(" CORRUPT h=%ld", corrupt);
		printf("\n");
	}
	if (inited) { verify_all(); if (corrupt >= 0) printf("CORRUPT h=%ld\n", corrupt); hawk_xma_fini(&xma); }
	zone_release();
	if (guard_broken) printf("!GUARD\n");
	fflush(stdout);
	return 0;
}
