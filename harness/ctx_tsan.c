/* C09 (round 5) thread-level oracle: several threads, each owning ITS OWN hawk_t and runtimes (nothing of hawk is
 * shared between threads, which is the documented way to use the library from several threads), run under
 * ThreadSanitizer.  Any data race reported is a hidden shared mutable global inside libhawk (static buffer, lazily
 * initialised table, counter).  Each thread also checks the results of its calls, so a race that corrupts a value
 * shows up as MISMATCH even when the sanitizer misses it.
 *
 *   ctx_tsan <nthreads> <iterations> <seed>   ->  "OK threads=N iters=M calls=K" | "MISMATCH ..." (exit 3)
 */
#include <hawk-std.h>
#include <stdio.h>
#include <stdlib.h>
#include <string.h>
#include <pthread.h>

static const char* PROGS[] = {
	/* strings, regex, printf family, number conversion */
	"@global g0; function f(x) { g0 = toupper(x) \"-\" length(x) \"-\" index(x, \"b\") \"-\" substr(x, 2, 2); return g0; }"
	"function re(x) { if (x ~ /^[a-c]+[0-9]*$/) return \"m:\" gensub(/[0-9]+/, \"#\", \"g\", x); return \"n:\" x; }"
	"function fmt(x) { return sprintf(\"%05d|%s|%x|%c|%.2f|%e\", x, x, x, 65 + x % 26, x / 3.0, x * 1000.5); }"
	"function num(x) { return (x \"\" + 0) \":\" (\"0x1f\" + 0) \":\" int(x / 7) \":\" (x * 1.5) \":\" 12345678901 + x; }"
	"function boom(x) { return 1 / ZZ; }"
	"BEGIN { g0 = \"begin\"; } END { g0 = g0 \".end\"; }",
	/* maps, split, sub/gsub, match, string modules */
	"@global g0; function f(x,  a, n, i, s) { n = split(x, a, /[,;]/); s = \"\"; for (i = 1; i <= n; i++) s = s \"[\" a[i] \"]\"; delete a; return n s; }"
	"function re(x,  t) { t = x; gsub(/a+/, \"<&>\", t); sub(/b/, \"B\", t); if (match(t, /<[a]+>/)) t = t \"@\" RSTART \",\" RLENGTH; return t; }"
	"function fmt(x) { return str::toupper(sprintf(\"%s:%d\", x, length(x))) str::tolower(\"ABC\") str::index(x, \"a\") ; }"
	"function num(x,  m, k, s) { m[x] = 1; m[x + 1] = 2; m[\"k\" x] = 3; s = 0; for (k in m) s += m[k]; return s \":\" ((x in m)? \"in\": \"out\") \":\" length(m); }"
	"function boom(x) { return nosuchfunction(x); }"
	"BEGIN { g0 = \"b\"; }",
	/* math and sys modules, rand, time, hawk:: */
	"@global g0; function f(x) { return math::sqrt(x * x) \":\" math::floor(x / 2.0) \":\" math::exp(x % 3) \":\" math::log10(100) \":\" math::round(x / 3.0); }"
	"function re(x) { srand(x); return (rand() < 1) \":\" (sys::getpid() > 0) \":\" (sys::gettime() > 1000) \":\" (systime() > 1000); }"
	"function fmt(x) { return sprintf(\"%d %i %o %X %5.1f %-4s|\", x, x, x, x, x / 4.0, \"ab\") strftime(\"%Y\", 86400 * 366, 1); }"
	"function num(x) { return hawk::typename(x) \":\" hawk::typename(\"a\") \":\" hawk::typename(1.5) \":\" (x % 3) \":\" (x ** 2); }"
	"function boom(x) { exit x; }"
	"END { g0 = \"e\"; }",
};
#define NPROGS 3
static const char* BAD = "function f(x { return x; }";

struct targ { int id; int iters; unsigned seed; long calls; int bad; char msg[512]; };

static int expect (struct targ* t, hawk_rtx_t* rtx, hawk_val_t* v, const char* want, const char* what)
{
	hawk_bch_t* s;
	if (!v) { snprintf(t->msg, sizeof(t->msg), "%s: NULL (%d)", what, (int)hawk_rtx_geterrnum(rtx)); return -1; }
	s = hawk_rtx_valtobcstrdup(rtx, v, NULL);
	if (!s) { snprintf(t->msg, sizeof(t->msg), "%s: conversion failed", what); return -1; }
	if (want && strcmp(s, want)) { snprintf(t->msg, sizeof(t->msg), "%s: got '%s' want '%s'", what, s, want); hawk_rtx_freemem(rtx, s); return -1; }
	hawk_rtx_freemem(rtx, s);
	return 0;
}

/* every thread computes the expected text once, single-threaded order is not needed: a second runtime of the same
 * interpreter must give the same answer as the first (and as the previous iteration) */
static void* worker (void* a)
{
	struct targ* t = (struct targ*)a; int it;
	char first[NPROGS][4][512]; int have[NPROGS][4];
	static const char* fn[] = { "f", "re", "fmt", "num" };
	memset(have, 0, sizeof(have));
	for (it = 0; it < t->iters && !t->bad; it++)
	{
		hawk_t* hawk; hawk_parsestd_t in[2]; int p = (t->id + it) % NPROGS, k, r;
		hawk_rtx_t* rtx[2];
		static const hawk_bch_t* icf[] = { "/dev/null", NULL }; static const hawk_bch_t* ocf[] = { "/dev/null", NULL };
		hawk = hawk_openstd(0, NULL);
		if (!hawk) { t->bad = 1; snprintf(t->msg, sizeof(t->msg), "hawk_openstd failed"); break; }
		/* a failing parse first: error message formatting, then hawk_clear and a good program */
		memset(in, 0, sizeof(in));
		in[0].type = HAWK_PARSESTD_BCS; in[0].u.bcs.ptr = (hawk_bch_t*)BAD; in[0].u.bcs.len = strlen(BAD); in[1].type = HAWK_PARSESTD_NULL;
		if (hawk_parsestd(hawk, in, NULL) >= 0) { t->bad = 1; snprintf(t->msg, sizeof(t->msg), "bad program parsed"); hawk_close(hawk); break; }
		(void)hawk_geterrbmsg(hawk); (void)hawk_geterrumsg(hawk); (void)hawk_geterrstr(hawk);
		hawk_clear(hawk);
		in[0].u.bcs.ptr = (hawk_bch_t*)PROGS[p]; in[0].u.bcs.len = strlen(PROGS[p]);
		if (hawk_parsestd(hawk, in, NULL) <= -1)
		{
			t->bad = 1; snprintf(t->msg, sizeof(t->msg), "parse of program %d failed: %s", p, hawk_geterrbmsg(hawk)); hawk_close(hawk); break;
		}
		for (r = 0; r < 2; r++)
		{
			rtx[r] = hawk_rtx_openstdwithbcstr(hawk, 0, "tsan", icf, ocf, NULL);
			if (!rtx[r]) { t->bad = 1; snprintf(t->msg, sizeof(t->msg), "rtx open failed"); break; }
		}
		if (t->bad) { hawk_close(hawk); break; }
		for (k = 0; k < 4 && !t->bad; k++)
		{
			char arg[64]; const hawk_bch_t* av[1]; hawk_val_t* v;
			if (k == 0) snprintf(arg, sizeof(arg), p == 1? "ab%d,c;d%d": (p == 2? "%d": "abc%d"), 10 + t->id, t->id); else
			if (k == 1) snprintf(arg, sizeof(arg), p == 2? "%d": "aab%dbc", 7 + t->id); else
			snprintf(arg, sizeof(arg), "%d", 40 + t->id * 3);
			av[0] = arg;
			for (r = 0; r < 2 && !t->bad; r++)
			{
				v = hawk_rtx_callwithbcstrarr(rtx[r], fn[k], av, 1); t->calls++;
				if (!v) { t->bad = 1; snprintf(t->msg, sizeof(t->msg), "call %s(%s) prog %d failed: %s", fn[k], arg, p, hawk_rtx_geterrbmsg(rtx[r])); break; }
				if (!have[p][k])
				{
					hawk_bch_t* s = hawk_rtx_valtobcstrdup(rtx[r], v, NULL);
					snprintf(first[p][k], sizeof(first[p][k]), "%s", s? s: "?"); if (s) hawk_rtx_freemem(rtx[r], s);
					have[p][k] = 1;
				}
				else if (k != 1 || p != 2) /* the time-dependent function only has to succeed */
				{
					if (expect(t, rtx[r], v, first[p][k], fn[k]) <= -1) t->bad = 1;
				}
				hawk_rtx_refdownval(rtx[r], v);
			}
		}
		if (!t->bad)
		{
			/* error paths, value API, globals, loop, halt */
			const hawk_bch_t* av[1]; hawk_val_t* v; hawk_val_t* s; int g0;
			av[0] = "3";
			v = hawk_rtx_callwithbcstrarr(rtx[0], "boom", av, 1); t->calls++;
			if (v) hawk_rtx_refdownval(rtx[0], v); else { (void)hawk_rtx_geterrbmsg(rtx[0]); (void)hawk_rtx_geterrumsg(rtx[0]); }
			v = hawk_rtx_callwithbcstrarr(rtx[1], "nosuch", av, 1); t->calls++;
			if (v) { t->bad = 1; snprintf(t->msg, sizeof(t->msg), "unknown function returned a value"); hawk_rtx_refdownval(rtx[1], v); }
			g0 = hawk_findgblwithbcstr(hawk, "g0", 0);
			s = hawk_rtx_makestrvalwithbcstr(rtx[1], "from-app");
			if (s && g0 >= 0)
			{
				hawk_rtx_refupval(rtx[1], s);
				if (hawk_rtx_setgbl(rtx[1], g0, s) <= -1) { t->bad = 1; snprintf(t->msg, sizeof(t->msg), "setgbl failed"); }
				hawk_rtx_refdownval(rtx[1], s);
				if (!t->bad && expect(t, rtx[1], hawk_rtx_getgbl(rtx[1], g0), "from-app", "getgbl") <= -1) t->bad = 1;
			}
			v = hawk_rtx_loop(rtx[1]); t->calls++;
			if (v) hawk_rtx_refdownval(rtx[1], v);
			v = hawk_rtx_makeintval(rtx[1], 1234567890123L + t->id);
			if (v) { hawk_int_t iv = 0; hawk_rtx_refupval(rtx[1], v); hawk_rtx_valtoint(rtx[1], v, &iv); if (iv != 1234567890123L + t->id) { t->bad = 1; snprintf(t->msg, sizeof(t->msg), "int value changed"); } hawk_rtx_refdownval(rtx[1], v); }
			v = hawk_rtx_makefltval(rtx[1], 2.5 + t->id);
			if (v) { hawk_rtx_refupval(rtx[1], v); (void)expect(t, rtx[1], v, NULL, "flt"); hawk_rtx_refdownval(rtx[1], v); }
			hawk_rtx_halt(rtx[0]);
			if (it & 1) hawk_haltall(hawk);
			v = hawk_rtx_callwithbcstrarr(rtx[0], "f", av, 1); t->calls++;
			if (v) hawk_rtx_refdownval(rtx[0], v);
		}
		hawk_rtx_close(rtx[0]); hawk_rtx_close(rtx[1]);
		hawk_close(hawk);
	}
	return NULL;
}

int main (int argc, char** argv)
{
	int n = argc > 1? atoi(argv[1]): 4, iters = argc > 2? atoi(argv[2]): 10, i, bad = 0; long calls = 0;
	pthread_t th[32]; struct targ ta[32];
	if (n < 1) n = 1; if (n > 32) n = 32;
	for (i = 0; i < n; i++) { memset(&ta[i], 0, sizeof(ta[i])); ta[i].id = i; ta[i].iters = iters; ta[i].seed = argc > 3? atoi(argv[3]) + i: i; pthread_create(&th[i], NULL, worker, &ta[i]); }
	for (i = 0; i < n; i++) { pthread_join(th[i], NULL); calls += ta[i].calls; if (ta[i].bad) { bad = 1; printf("MISMATCH thread=%d %s\n", i, ta[i].msg); } }
	if (bad) return 3;
	printf("OK threads=%d iters=%d calls=%ld\n", n, iters, calls);
	return 0;
}
