/* C14 harness: the REAL command-line tool (bin/hawk.c is #included unchanged) with two hooks.
 *
 * 1. every hawk_setopt(HAWK_OPT_DEPTH_*) the CLI performs can be overridden from the environment, because the
 *    CLI has no option to set the depth limits ("TODO: get depth from command line" in bin/hawk.c):
 *       C14_INCL C14_BLOCK_PARSE C14_BLOCK_RUN C14_EXPR_PARSE C14_EXPR_RUN C14_REX_BUILD C14_REX_MATCH = number
 *       C14_STACK_LIMIT = number   (HAWK_OPT_RTX_STACK_LIMIT, applied right after the CLI's own depth settings)
 *    Without these variables it behaves exactly like bin/hawk.
 * 2. when C14_SHOW is set, two marker lines go to stderr:
 *       C14-LIMITS incl=.. block_parse=.. ...   the effective values read back with hawk_getopt
 *       C14-PARSED                              printed when the CLI opens the run-time context, which it does only
 *                                               after the source has been parsed successfully: an error reported
 *                                               before this marker is a parse-time error
 * Usage and output are otherwise those of the hawk CLI.
 *
 * 3. API mode (an embedding application that keeps ONE runtime context and calls into it repeatedly):
 *       depth_h --c14-api <source file> <function>:<integer argument> ...
 *    opens hawk with hawk_openstd(), sets the five depth options and the stack limit from the C14_* variables
 *    (a missing variable = 0), parses the file, opens one rtx and performs the calls in order with
 *    hawk_rtx_callwithbcstrarr(), printing one line per call:
 *       call <i> <function> ok <value>        or        call <i> <function> err <number> <message>
 *    An error in one call does not end the sequence: the next call runs on the same rtx.
 */
#include <hawk.h>
#include <hawk-std.h>
#include <stdlib.h>
#include <stdio.h>

static int c14_setopt (hawk_t* hawk, hawk_opt_t id, const void* value);
static hawk_rtx_t* c14_rtx_open (hawk_t* hawk, hawk_oow_t xtnsize, const hawk_bch_t* id, hawk_bch_t* icf[], hawk_bch_t* ocf[], hawk_cmgr_t* cmgr);

#define hawk_setopt c14_setopt
#define hawk_rtx_openstdwithbcstr c14_rtx_open
#define main c14_cli_main
#include "../bin/hawk.c"
#undef main
#undef hawk_setopt
#undef hawk_rtx_openstdwithbcstr

static hawk_rtx_t* c14_rtx_open (hawk_t* hawk, hawk_oow_t xtnsize, const hawk_bch_t* id, hawk_bch_t* icf[], hawk_bch_t* ocf[], hawk_cmgr_t* cmgr)
{
	if (getenv("C14_SHOW")) { fprintf (stderr, "C14-PARSED\n"); fflush (stderr); }
	return hawk_rtx_openstdwithbcstr(hawk, xtnsize, id, icf, ocf, cmgr);
}

static const char* c14_envname (hawk_opt_t id)
{
	switch (id)
	{
		case HAWK_OPT_DEPTH_INCLUDE:     return "C14_INCL";
		case HAWK_OPT_DEPTH_BLOCK_PARSE: return "C14_BLOCK_PARSE";
		case HAWK_OPT_DEPTH_BLOCK_RUN:   return "C14_BLOCK_RUN";
		case HAWK_OPT_DEPTH_EXPR_PARSE:  return "C14_EXPR_PARSE";
		case HAWK_OPT_DEPTH_EXPR_RUN:    return "C14_EXPR_RUN";
		case HAWK_OPT_DEPTH_REX_BUILD:   return "C14_REX_BUILD";
		case HAWK_OPT_DEPTH_REX_MATCH:   return "C14_REX_MATCH";
		default: return HAWK_NULL;
	}
}

static int c14_setopt (hawk_t* hawk, hawk_opt_t id, const void* value)
{
	const char* en = c14_envname(id);
	int n;

	if (en && getenv(en))
	{
		hawk_oow_t v = (hawk_oow_t)strtoull(getenv(en), NULL, 10);
		n = hawk_setopt(hawk, id, &v);
	}
	else n = hawk_setopt(hawk, id, value);

	if (id == HAWK_OPT_DEPTH_INCLUDE)
	{
		/* the last depth option the CLI sets: apply the ones it does not set itself, then show */
		static const hawk_opt_t extra[] = { HAWK_OPT_DEPTH_REX_BUILD, HAWK_OPT_DEPTH_REX_MATCH };
		hawk_oow_t v;
		int i;
		for (i = 0; i < 2; i++)
		{
			const char* e2 = c14_envname(extra[i]);
			if (getenv(e2)) { v = (hawk_oow_t)strtoull(getenv(e2), NULL, 10); hawk_setopt (hawk, extra[i], &v); }
		}
		if (getenv("C14_STACK_LIMIT")) { v = (hawk_oow_t)strtoull(getenv("C14_STACK_LIMIT"), NULL, 10); hawk_setopt (hawk, HAWK_OPT_RTX_STACK_LIMIT, &v); }
		if (getenv("C14_SHOW"))
		{
			hawk_oow_t a[8];
			hawk_getopt (hawk, HAWK_OPT_DEPTH_INCLUDE, &a[0]);
			hawk_getopt (hawk, HAWK_OPT_DEPTH_BLOCK_PARSE, &a[1]);
			hawk_getopt (hawk, HAWK_OPT_DEPTH_BLOCK_RUN, &a[2]);
			hawk_getopt (hawk, HAWK_OPT_DEPTH_EXPR_PARSE, &a[3]);
			hawk_getopt (hawk, HAWK_OPT_DEPTH_EXPR_RUN, &a[4]);
			hawk_getopt (hawk, HAWK_OPT_DEPTH_REX_BUILD, &a[5]);
			hawk_getopt (hawk, HAWK_OPT_DEPTH_REX_MATCH, &a[6]);
			hawk_getopt (hawk, HAWK_OPT_RTX_STACK_LIMIT, &a[7]);
			fprintf (stderr, "C14-LIMITS incl=%lu block_parse=%lu block_run=%lu expr_parse=%lu expr_run=%lu rex_build=%lu rex_match=%lu stack=%lu\n",
				(unsigned long)a[0], (unsigned long)a[1], (unsigned long)a[2], (unsigned long)a[3],
				(unsigned long)a[4], (unsigned long)a[5], (unsigned long)a[6], (unsigned long)a[7]);
			fflush (stderr);
		}
	}
	return n;
}

static int c14_api_main (int argc, char* argv[])
{
	static const struct { hawk_opt_t id; const char* env; } opts[] =
	{
		{ HAWK_OPT_DEPTH_INCLUDE, "C14_INCL" }, { HAWK_OPT_DEPTH_BLOCK_PARSE, "C14_BLOCK_PARSE" },
		{ HAWK_OPT_DEPTH_BLOCK_RUN, "C14_BLOCK_RUN" }, { HAWK_OPT_DEPTH_EXPR_PARSE, "C14_EXPR_PARSE" },
		{ HAWK_OPT_DEPTH_EXPR_RUN, "C14_EXPR_RUN" }
	};
	hawk_t* hawk;
	hawk_rtx_t* rtx;
	hawk_parsestd_t psin[2];
	hawk_oow_t v;
	int i;

	if (argc < 3) { fprintf (stderr, "usage: %s --c14-api file fn:arg ...\n", argv[0]); return 2; }
	hawk = hawk_openstd(0, HAWK_NULL);
	if (!hawk) { printf ("open failed\n"); return 1; }
	for (i = 0; i < 5; i++)
	{
		v = getenv(opts[i].env)? (hawk_oow_t)strtoull(getenv(opts[i].env), NULL, 10): 0;
		hawk_setopt (hawk, opts[i].id, &v);
	}
	if (getenv("C14_STACK_LIMIT")) { v = (hawk_oow_t)strtoull(getenv("C14_STACK_LIMIT"), NULL, 10); hawk_setopt (hawk, HAWK_OPT_RTX_STACK_LIMIT, &v); }

	memset (psin, 0, sizeof(psin));
	psin[0].type = HAWK_PARSESTD_FILEB;
	psin[0].u.fileb.path = argv[2];
	psin[1].type = HAWK_PARSESTD_NULL;
	if (hawk_parsestd(hawk, psin, HAWK_NULL) <= -1)
	{
		printf ("parse err %d %s\n", (int)hawk_geterrnum(hawk), hawk_geterrbmsg(hawk));
		hawk_close (hawk);
		return 1;
	}
	rtx = hawk_rtx_openstdwithbcstr(hawk, 0, "c14api", HAWK_NULL, HAWK_NULL, HAWK_NULL);
	if (!rtx)
	{
		printf ("rtx err %d %s\n", (int)hawk_geterrnum(hawk), hawk_geterrbmsg(hawk));
		hawk_close (hawk);
		return 1;
	}
	for (i = 3; i < argc; i++)
	{
		char fn[128];
		const char* colon = strchr(argv[i], ':');
		const hawk_bch_t* args[1];
		hawk_val_t* r;
		size_t n = colon? (size_t)(colon - argv[i]): strlen(argv[i]);

		if (n >= sizeof(fn)) n = sizeof(fn) - 1;
		memcpy (fn, argv[i], n); fn[n] = 0;
		args[0] = colon? colon + 1: "0";
		r = hawk_rtx_callwithbcstrarr(rtx, fn, args, 1);
		if (r)
		{
			hawk_oow_t len;
			hawk_bch_t* str = hawk_rtx_valtobcstrdup(rtx, r, &len);
			printf ("call %d %s ok %s\n", i - 2, fn, str? str: "?");
			if (str) hawk_rtx_freemem (rtx, str);
			hawk_rtx_refdownval (rtx, r);
		}
		else
		{
			printf ("call %d %s err %d %s\n", i - 2, fn, (int)hawk_rtx_geterrnum(rtx), hawk_rtx_geterrbmsg(rtx));
		}
		fflush (stdout);
	}
	hawk_rtx_close (rtx);
	hawk_close (hawk);
	return 0;
}

int main (int argc, char* argv[])
{
	if (argc >= 2 && strcmp(argv[1], "--c14-api") == 0) return c14_api_main(argc, argv);
	return c14_cli_main(argc, argv);
}
