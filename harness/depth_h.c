/* C14 harness: the REAL command-line tool (bin/hawk.c is #included unchanged) with two hooks.
 *
 * 1. every hawk_setopt(HAWK_OPT_DEPTH_*) the CLI performs can be overridden from the environment, because the
 *    CLI has no option to set the depth limits ("TODO: get depth from command line" in bin/hawk.c):
 *       C14_INCL C14_BLOCK_PARSE C14_BLOCK_RUN C14_EXPR_PARSE C14_EXPR_RUN C14_REX_BUILD C14_REX_MATCH = number
 *       C14_STACK_LIMIT = number   (HAWK_OPT_RTX_STACK_LIMIT, applied right after the CLI's own depth settings)
 *    Without these variables it behaves exactly like bin/hawk.
 * 2. when C14_SHOW is set, two marker lines go to stderr:
 *       C14-LIMITS incl=.. block_parse=.. ...   the effective values read back with hawk_getopt
 *       C14-PARSED                              printed when the CLI opens the run-time context, which it does only
 *                                               after the source has been parsed successfully: an error reported
 *                                               before this marker is a parse-time error
 * Usage and output are otherwise those of the hawk CLI.
 */
#include <hawk.h>
#include <hawk-std.h>
#include <stdlib.h>
#include <stdio.h>

static int c14_setopt (hawk_t* hawk, hawk_opt_t id, const void* value);
static hawk_rtx_t* c14_rtx_open (hawk_t* hawk, hawk_oow_t xtnsize, const hawk_bch_t* id, hawk_bch_t* icf[], hawk_bch_t* ocf[], hawk_cmgr_t* cmgr);

#define hawk_setopt c14_setopt
#define hawk_rtx_openstdwithbcstr c14_rtx_open
#include "../bin/hawk.c"
#undef hawk_setopt
#undef hawk_rtx_openstdwithbcstr

static hawk_rtx_t* c14_rtx_open (hawk_t* hawk, hawk_oow_t xtnsize, const hawk_bch_t* id, hawk_bch_t* icf[], hawk_bch_t* ocf[], hawk_cmgr_t* cmgr)
{
	if (getenv("C14_SHOW")) { fprintf (stderr, "C14-PARSED\n"); fflush (stderr); }
	return hawk_rtx_openstdwithbcstr(hawk, xtnsize, id, icf, ocf, cmgr);
}

static const char* c14_envname (hawk_opt_t id)
{
	switch (id)
	{
		case HAWK_OPT_DEPTH_INCLUDE:     return "C14_INCL";
		case HAWK_OPT_DEPTH_BLOCK_PARSE: return "C14_BLOCK_PARSE";
		case HAWK_OPT_DEPTH_BLOCK_RUN:   return "C14_BLOCK_RUN";
		case HAWK_OPT_DEPTH_EXPR_PARSE:  return "C14_EXPR_PARSE";
		case HAWK_OPT_DEPTH_EXPR_RUN:    return "C14_EXPR_RUN";
		case HAWK_OPT_DEPTH_REX_BUILD:   return "C14_REX_BUILD";
		case HAWK_OPT_DEPTH_REX_MATCH:   return "C14_REX_MATCH";
		default: return HAWK_NULL;
	}
}

static int c14_setopt (hawk_t* hawk, hawk_opt_t id, const void* value)
{
	const char* en = c14_envname(id);
	int n;

	if (en && getenv(en))
	{
		hawk_oow_t v = (hawk_oow_t)strtoull(getenv(en), NULL, 10);
		n = hawk_setopt(hawk, id, &v);
	}
	else n = hawk_setopt(hawk, id, value);

	if (id == HAWK_OPT_DEPTH_INCLUDE)
	{
		/* the last depth option the CLI sets: apply the ones it does not set itself, then show */
		static const hawk_opt_t extra[] = { HAWK_OPT_DEPTH_REX_BUILD, HAWK_OPT_DEPTH_REX_MATCH };
		hawk_oow_t v;
		int i;
		for (i = 0; i < 2; i++)
		{
			const char* e2 = c14_envname(extra[i]);
			if (getenv(e2)) { v = (hawk_oow_t)strtoull(getenv(e2), NULL, 10); hawk_setopt (hawk, extra[i], &v); }
		}
		if (getenv("C14_STACK_LIMIT")) { v = (hawk_oow_t)strtoull(getenv("C14_STACK_LIMIT"), NULL, 10); hawk_setopt (hawk, HAWK_OPT_RTX_STACK_LIMIT, &v); }
		if (getenv("C14_SHOW"))
		{
			hawk_oow_t a[8];
			hawk_getopt (hawk, HAWK_OPT_DEPTH_INCLUDE, &a[0]);
			hawk_getopt (hawk, HAWK_OPT_DEPTH_BLOCK_PARSE, &a[1]);
			hawk_getopt (hawk, HAWK_OPT_DEPTH_BLOCK_RUN, &a[2]);
			hawk_getopt (hawk, HAWK_OPT_DEPTH_EXPR_PARSE, &a[3]);
			hawk_getopt (hawk, HAWK_OPT_DEPTH_EXPR_RUN, &a[4]);
			hawk_getopt (hawk, HAWK_OPT_DEPTH_REX_BUILD, &a[5]);
			hawk_getopt (hawk, HAWK_OPT_DEPTH_REX_MATCH, &a[6]);
			hawk_getopt (hawk, HAWK_OPT_RTX_STACK_LIMIT, &a[7]);
			fprintf (stderr, "C14-LIMITS incl=%lu block_parse=%lu block_run=%lu expr_parse=%lu expr_run=%lu rex_build=%lu rex_match=%lu stack=%lu\n",
				(unsigned long)a[0], (unsigned long)a[1], (unsigned long)a[2], (unsigned long)a[3],
				(unsigned long)a[4], (unsigned long)a[5], (unsigned long)a[6], (unsigned long)a[7]);
			fflush (stderr);
		}
	}
	return n;
}
