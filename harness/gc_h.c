/* C07 correspondence harness: drives the REAL reference counting and cycle collector of lib/val.c
 * (hawk_rtx_makemapval/makearrval, hawk_rtx_setmapvalfld/setarrvalfld, map/array element deletion
 * and clearing, hawk_rtx_refupval/refdownval, hawk_rtx_gc, gc_calloc_val's collection by pressure,
 * hawk_rtx_close = fini_rtx) through the public API, with the line protocol of
 * lean/HawkModel/Drv/Gc.lean.
 *
 * After every operation it dumps the REAL internal state read through hawk-prv.h:
 *   pressure[0..3], threshold[0..2], and for every container chained in rtx->gc.g[0..2]:
 *   id:v_refs:gc_refs:generation:h<holders>:[ids of the container elements that are containers]
 * (elements are read by iterating the real map / array), plus the ids that disappeared from the
 * lists in this step.  gc_refs is printed as M (GCH_MOVED), U (GCH_UNREACHABLE), M-k, or a number.
 * `h` is the number of references the harness itself holds (the model's external holders).
 *
 * The runtime is created with a counting hawk_mmgr_t: `close` drops every holder, calls
 * hawk_rtx_close and reports the number of host blocks the runtime did not give back
 * (live blocks now - live blocks before hawk_rtx_open), plus what is left after hawk_close.
 * Use-after-free / double free are left to AddressSanitizer (the harness never dereferences an
 * object that is no longer chained in a generation list).
 * A watchdog turns a call that never returns into a "HANG" line. */
#include <hawk-std.h>
#include <hawk-prv.h>
#include <stdio.h>
#include <stdlib.h>
#include <string.h>
#include <signal.h>
#include <unistd.h>
#include <stdint.h>

/* ---- counting allocator ---- */
static long live_blocks = 0;
static void* m_alloc (hawk_mmgr_t* m, hawk_oow_t n) { void* p = malloc(n); if (p) live_blocks++; return p; }
static void* m_realloc (hawk_mmgr_t* m, void* p, hawk_oow_t n) { void* q = realloc(p, n); if (q && !p) live_blocks++; return q; }
static void m_free (hawk_mmgr_t* m, void* p) { if (p) live_blocks--; free(p); }
static hawk_mmgr_t mmgr = { m_alloc, m_realloc, m_free, NULL };

/* ---- object table ---- */
#define MAXOBJ 4096
#define MAXSLOT 256
typedef struct { hawk_val_t* ptr; int live; int is_arr; int holders; long nextkey; int nslots; long key[MAXSLOT]; int child[MAXSLOT]; } ent_t;
static ent_t* tab; static int ntab;
static int pend[MAXOBJ]; static int npend; /* freed objects already noticed (address reused by a new object) */

static hawk_t* hawk; static hawk_rtx_t* rtx; static long baseline;
static int exited; /* a called function executed `exit`: hawk_rtx_callfun refuses further calls */

/* ---- leaf values held by the host (v-ops; model: lean/HawkModel/GcVal.lean) ---- */
#define MAXLEAF 8192
static hawk_val_t* vtab[MAXLEAF]; static int nvtab; static long rtx_base;

static void vdump (void)
{
	unsigned long ic = 0, ifr = 0, rc = 0, rfr = 0; hawk_val_chunk_t* c; hawk_val_int_t* pi; hawk_val_flt_t* pf; int i;
	for (c = rtx->vmgr.ichunk; c; c = c->next) ic++;
	for (c = rtx->vmgr.rchunk; c; c = c->next) rc++;
	for (pi = rtx->vmgr.ifree; pi; pi = (hawk_val_int_t*)pi->nde) ifr++;
	for (pf = rtx->vmgr.rfree; pf; pf = (hawk_val_flt_t*)pf->nde) rfr++;
	printf(" blk=%ld ic=%lu if=%lu rc=%lu rf=%lu sc=", live_blocks - rtx_base, ic, ifr, rc, rfr);
	for (i = 0; i < HAWK_COUNTOF(rtx->str_cache_count); i++) printf("%s%lu", i ? "," : "", (unsigned long)rtx->str_cache_count[i]);
	printf("\n");
}

static void on_alarm (int sig) { printf("HANG\n"); fflush(stdout); _exit(3); }

static int gen_of (hawk_val_t* v)
{
	int g; hawk_gch_t* gch;
	for (g = 0; g < HAWK_COUNTOF(rtx->gc.g); g++)
		for (gch = rtx->gc.g[g].gc_next; gch != &rtx->gc.g[g]; gch = gch->gc_next)
			if (hawk_gch_to_val(gch) == v) return g;
	return -1;
}

static int id_of (hawk_val_t* v)
{
	int i;
	for (i = 0; i < ntab; i++) if (tab[i].live && tab[i].ptr == v) return i;
	return -1;
}

static void show_gc (hawk_uintptr_t r)
{
	intptr_t s = (intptr_t)r;
	if (s == -1) printf("M"); else if (s == -2) printf("U"); else if (s < 0) printf("M-%ld", (long)(-1 - s)); else printf("%ld", (long)s);
}

static int cmp_int (const void* a, const void* b) { return *(const int*)a - *(const int*)b; }

static void dump_children (hawk_val_t* v)
{
	static int ch[65536]; int n = 0, i;
	/* the elements are read with the embedding API (map iteration, hawk_rtx_getarrvalfld), not by reaching into the container */
	if (v->v_type == HAWK_VAL_MAP)
	{
		hawk_val_map_itr_t itr, * it;
		for (it = hawk_rtx_getfirstmapvalitr(rtx, v, &itr); it; it = hawk_rtx_getnextmapvalitr(rtx, v, &itr))
		{
			hawk_val_t* iv = (hawk_val_t*)HAWK_VAL_MAP_ITR_VAL(it);
			int id = id_of(iv);
			if (id >= 0) ch[n++] = id;
			else if (gen_of(iv) >= 0) ch[n++] = 888888; /* chained container the harness does not know */
			/* anything else is a leaf (or dangling: not dereferenced here, ASan reports it elsewhere) */
		}
	}
	else
	{
		hawk_arr_t* arr = ((hawk_val_arr_t*)v)->arr; hawk_oow_t k;
		for (k = 0; k < HAWK_ARR_SIZE(arr); k++)
		{
			hawk_val_t* iv = hawk_rtx_getarrvalfld(rtx, v, (hawk_ooi_t)k); int id;
			if (!iv) continue;
			id = id_of(iv);
			if (id >= 0) ch[n++] = id;
			else if (gen_of(iv) >= 0) ch[n++] = 888888;
		}
	}
	qsort (ch, n, sizeof(int), cmp_int);
	printf("[");
	for (i = 0; i < n; i++) printf("%s%d", i ? "," : "", ch[i]);
	printf("]");
}

/* prints " f=0 p=.. t=.. | objs | freed=[..]" and updates liveness from the real lists */
static void dump (void)
{
	int i, first = 1, g; hawk_gch_t* gch; int freed[MAXOBJ]; int nfreed = 0; int unknown = 0;
	for (i = 0; i < npend; i++) freed[nfreed++] = pend[i];
	npend = 0;
	for (i = 0; i < ntab; i++)
	{
		if (!tab[i].live) continue;
		if (gen_of(tab[i].ptr) < 0) { tab[i].live = 0; tab[i].holders = 0; freed[nfreed++] = i; }
	}
	for (g = 0; g < HAWK_COUNTOF(rtx->gc.g); g++)
		for (gch = rtx->gc.g[g].gc_next; gch != &rtx->gc.g[g]; gch = gch->gc_next)
			if (id_of(hawk_gch_to_val(gch)) < 0) unknown++;
	printf(" f=0 p=%lu,%lu,%lu,%lu t=%lu,%lu,%lu |",
		(unsigned long)rtx->gc.pressure[0], (unsigned long)rtx->gc.pressure[1], (unsigned long)rtx->gc.pressure[2], (unsigned long)rtx->gc.pressure[3],
		(unsigned long)rtx->gc.threshold[0], (unsigned long)rtx->gc.threshold[1], (unsigned long)rtx->gc.threshold[2]);
	for (i = 0; i < ntab; i++)
	{
		hawk_val_t* v;
		if (!tab[i].live) continue;
		v = tab[i].ptr;
		printf(" %d:%lu:", i, (unsigned long)v->v_refs);
		show_gc (hawk_val_to_gch(v)->gc_refs);
		printf(":%d:h%d:", gen_of(v), tab[i].holders);
		dump_children (v);
		first = 0;
	}
	if (first) printf(" ");
	if (unknown) printf(" ?unknown=%d", unknown);
	qsort (freed, nfreed, sizeof(int), cmp_int);
	printf(" | freed=[");
	for (i = 0; i < nfreed; i++) printf("%s%d", i ? "," : "", freed[i]);
	printf("]\n");
}

static void close_all (int report)
{
	long leak_rtx, leak_hawk;
	if (rtx)
	{
		int i;
		{ int k; for (k = 0; k < nvtab; k++) if (vtab[k]) { hawk_rtx_refdownval (rtx, vtab[k]); vtab[k] = HAWK_NULL; } nvtab = 0; }
		if (report)
		{
			/* every external holder lets go, most recent object first */
			for (i = ntab - 1; i >= 0; i--)
			{
				while (tab[i].live && tab[i].holders > 0)
				{
					tab[i].holders--;
					if (tab[i].holders == 0 && tab[i].ptr->v_refs == 1) tab[i].live = 0; /* about to be freed by this call */
					hawk_rtx_refdownval (rtx, tab[i].ptr);
					/* an object freed as a consequence must not be touched again */
					{ int j; for (j = 0; j < ntab; j++) if (tab[j].live && gen_of(tab[j].ptr) < 0) { tab[j].live = 0; tab[j].holders = 0; } }
				}
			}
		}
		hawk_rtx_close (rtx); rtx = NULL;
	}
	leak_rtx = live_blocks - baseline;
	if (hawk) { hawk_close (hawk); hawk = NULL; }
	leak_hawk = live_blocks;
	if (report)
	{
		printf("r=closed leak=%ld", leak_rtx);
		if (leak_hawk != leak_rtx) printf(" hawk_close_left=%ld", leak_hawk - leak_rtx);
		printf("\n");
	}
	ntab = 0; npend = 0;
}

static int open_all (void)
{
	hawk_parsestd_t psin[2]; hawk_errnum_t en;
	/* the functions the host calls with hawk_rtx_callwithbcstr (`call` op; model: lean/HawkModel/GcCall.lean) */
	static const hawk_bch_t* src =
		"function keep (a, b, k) { return a; }\n"
		"function drop2(a, b, k) { return 0; }\n"
		"function dropr(a, &b, k) { return 0; }\n"
		"function store(a, b, k) { a[k] = b; return 0; }\n"
		"function wrap (a, b, k) { @local t; t[\"k0\"] = a; t[\"k1\"] = b; return t; }\n"
		"function cyc  (a, b, k) { @local t; t[\"k0\"] = a; t[\"k1\"] = t; return 0; }\n"
		"function fail (a, b, k) { @local t, z; t[\"k0\"] = a; t[\"k1\"] = t; z = 0; return 1 / z; }\n"
		"function quit (a, b, k) { @local t; t[\"k0\"] = a; t[\"k1\"] = t; exit 3; }\n"
		"BEGIN { }";
	live_blocks = 0;
	hawk = hawk_openstdwithmmgr(&mmgr, 0, HAWK_NULL, &en);
	if (!hawk) return -1;
	memset (&psin, 0, sizeof(psin));
	psin[0].type = HAWK_PARSESTD_BCS; psin[0].u.bcs.ptr = (hawk_bch_t*)src; psin[0].u.bcs.len = strlen(src);
	psin[1].type = HAWK_PARSESTD_NULL;
	if (hawk_parsestd(hawk, psin, HAWK_NULL) <= -1) return -1;
	baseline = live_blocks;
	/* plain hawk_rtx_open: no ARGV/ENVIRON maps, the generation lists start empty */
	rtx = hawk_rtx_open(hawk, 0, HAWK_NULL);
	if (!rtx) return -1;
	ntab = 0; exited = 0; nvtab = 0; rtx_base = live_blocks;
	return 0;
}

static void mkkey (long k, hawk_ooch_t* buf, hawk_oow_t* len)
{
	char tmp[32]; int n = snprintf(tmp, sizeof(tmp), "k%ld", k), i;
	for (i = 0; i < n; i++) buf[i] = (hawk_ooch_t)tmp[i];
	buf[n] = 0; *len = n;
}

static int set_slot (ent_t* p, long key, hawk_val_t* v)
{
	if (p->is_arr) return hawk_rtx_setarrvalfld(rtx, p->ptr, key, v) ? 0 : -1;
	else { hawk_ooch_t kb[32]; hawk_oow_t kl; mkkey (key, kb, &kl); return hawk_rtx_setmapvalfld(rtx, p->ptr, kb, kl, v) ? 0 : -1; }
}

static void del_slot (ent_t* p, long key)
{
	if (p->is_arr) hawk_arr_uplete (((hawk_val_arr_t*)p->ptr)->arr, key, 1);
	else { hawk_ooch_t kb[32]; hawk_oow_t kl; mkkey (key, kb, &kl); hawk_map_delete (((hawk_val_map_t*)p->ptr)->map, kb, kl); }
}

/* Container elements that are containers go to the smallest index/key not in use, starting at 0, so that
 * the first and the small slots of an array (index 0 included) and re-used slots are exercised.  The two leaf
 * elements of an array sit at indices 3 and 5 (gaps at 4 and below until filled). */
#define ARR_LEAF1 3
#define ARR_LEAF2 5
static long free_key (ent_t* p)
{
	long k; int i;
	for (k = 0; ; k++)
	{
		if (p->is_arr && (k == ARR_LEAF1 || k == ARR_LEAF2)) continue;
		for (i = 0; i < p->nslots; i++) if (p->key[i] == k) break;
		if (i >= p->nslots) return k;
	}
}

static int find_slot (ent_t* p, int child)
{
	int i;
	for (i = p->nslots - 1; i >= 0; i--) if (p->child[i] == child) return i;
	return -1;
}

static void forget_slot (ent_t* p, int si)
{
	memmove (&p->key[si], &p->key[si + 1], sizeof(p->key[0]) * (p->nslots - si - 1));
	memmove (&p->child[si], &p->child[si + 1], sizeof(p->child[0]) * (p->nslots - si - 1));
	p->nslots--;
}

#define LIVE(i) ((i) >= 0 && (i) < ntab && tab[i].live)

int main (int argc, char** argv)
{
	char line[256]; int wd = argc > 1 ? atoi(argv[1]) : 10;
	tab = calloc(MAXOBJ, sizeof(ent_t));
	signal (SIGALRM, on_alarm);
	while (fgets(line, sizeof(line), stdin))
	{
		char op[32] = ""; char a1[32] = ""; long x = 0, y = 0, z = 0; int n;
		alarm (wd);
		n = sscanf(line, "%31s", op);
		if (n < 1) { printf("bad-op\n"); continue; }
		if (!strcmp(op, "new"))
		{
			close_all (0);
			if (open_all() <= -1) { printf("open-failed\n"); fflush(stdout); return 2; }
			printf("r=new"); dump ();
		}
		else if (!rtx) { printf("bad-op\n"); }
		else if (!strcmp(op, "alloc") && sscanf(line, "%*s %31s", a1) == 1)
		{
			hawk_val_t* v; ent_t* e; int is_arr = (a1[0] == 'a'); int with_data = (a1[0] == 'd'); int i;
			if (with_data)
			{
				/* hawk_rtx_makemapvalwithdata: the map comes with its two leaf elements */
				static hawk_ooch_t k1[] = { 'k', '-', '1', 0 }, k2[] = { 'k', '-', '2', 0 };
				static hawk_int_t iv = 123456789012345L;
				static hawk_ooch_t k3[] = { 'k', '-', '3', 0 }, k4[] = { 'k', '-', '4', 0 }, sv[] = { 'o', 'o', 'c', 's', 0 };
				static hawk_flt_t fv = 2.5; static hawk_oocs_t ocs = { sv, 4 };
				hawk_val_map_data_t md[4];
				memset (md, 0, sizeof(md));
				md[0].key.ptr = k1; md[0].key.len = 3; md[0].type = HAWK_VAL_MAP_DATA_BCSTR; md[0].vptr = "leaf-value-of-some-length";
				md[1].key.ptr = k2; md[1].key.len = 3; md[1].type = HAWK_VAL_MAP_DATA_INT; md[1].type_size = sizeof(iv); md[1].vptr = &iv;
				md[2].key.ptr = k3; md[2].key.len = 3; md[2].type = HAWK_VAL_MAP_DATA_FLT; md[2].vptr = &fv;
				md[3].key.ptr = k4; md[3].key.len = 3; md[3].type = HAWK_VAL_MAP_DATA_OOCS; md[3].vptr = &ocs;
				v = hawk_rtx_makemapvalwithdata(rtx, md, 4);
			}
			else v = is_arr ? hawk_rtx_makearrval(rtx, -1) : hawk_rtx_makemapval(rtx);
			if (!v || ntab >= MAXOBJ) { printf("alloc-failed\n"); fflush(stdout); return 2; }
			hawk_rtx_refupval (rtx, v);
			/* objects freed by a collection inside the allocation may have had this address */
			for (i = 0; i < ntab; i++) if (tab[i].live && tab[i].ptr == v) { tab[i].live = 0; tab[i].holders = 0; pend[npend++] = i; }
			e = &tab[ntab]; memset (e, 0, sizeof(*e));
			e->ptr = v; e->live = 1; e->is_arr = is_arr; e->holders = 1; e->nextkey = 0; e->nslots = 0;
			/* leaf elements as in `x[1] = "leaf"`: a heap string and a small integer */
			if (!with_data)
			{
				hawk_val_t* s = hawk_rtx_makestrvalwithbcstr(rtx, "leaf-value-of-some-length");
				hawk_val_t* iv = hawk_rtx_makeintval(rtx, 123456789012345L);
				if (!s || !iv || set_slot(e, is_arr ? ARR_LEAF1 : -1, s) <= -1 || set_slot(e, is_arr ? ARR_LEAF2 : -2, iv) <= -1) { printf("alloc-failed\n"); fflush(stdout); return 2; }
			}
			ntab++;
			printf("r=%d", ntab - 1);
			dump ();
		}
		else if (!strcmp(op, "link") && sscanf(line, "%*s %ld %ld", &x, &y) == 2)
		{
			if (!LIVE(x) || !LIVE(y) || tab[x].nslots >= MAXSLOT) { printf("r=ERR"); dump (); }
			else
			{
				ent_t* p = &tab[x]; long k = free_key(p);
				if (set_slot(p, k, tab[y].ptr) <= -1) { printf("link-failed\n"); fflush(stdout); return 2; }
				p->key[p->nslots] = k; p->child[p->nslots] = (int)y; p->nslots++;
				printf("r=ok"); dump ();
			}
		}
		else if (!strcmp(op, "unlink") && sscanf(line, "%*s %ld %ld", &x, &y) == 2)
		{
			int si;
			if (!LIVE(x) || (si = find_slot(&tab[x], (int)y)) < 0) { printf("r=ERR"); dump (); }
			else
			{
				ent_t* p = &tab[x]; long k = p->key[si];
				forget_slot (p, si);
				del_slot (p, k);
				printf("r=ok"); dump ();
			}
		}
		else if (!strcmp(op, "relink") && sscanf(line, "%*s %ld %ld %ld", &x, &y, &z) == 3)
		{
			int si;
			if (!LIVE(x) || (si = find_slot(&tab[x], (int)y)) < 0 || !LIVE(z) || (y != z && tab[z].holders <= 0)) { printf("r=ERR"); dump (); }
			else
			{
				ent_t* p = &tab[x];
				if (set_slot(p, p->key[si], tab[z].ptr) <= -1) { printf("link-failed\n"); fflush(stdout); return 2; }
				p->child[si] = (int)z;
				printf("r=ok"); dump ();
			}
		}
		else if (!strcmp(op, "clear") && sscanf(line, "%*s %ld", &x) == 1)
		{
			if (!LIVE(x) || tab[x].holders <= 0) { printf("r=ERR"); dump (); }
			else
			{
				ent_t* p = &tab[x];
				p->nslots = 0;
				if (p->is_arr) hawk_arr_clear (((hawk_val_arr_t*)p->ptr)->arr);
				else hawk_map_clear (((hawk_val_map_t*)p->ptr)->map);
				printf("r=ok"); dump ();
			}
		}
		else if (!strcmp(op, "take") && sscanf(line, "%*s %ld %ld", &x, &y) == 2)
		{
			/* an embedding host fetches an element with the API (borrowed pointer) and takes its own reference */
			int si;
			if (!LIVE(x) || (si = find_slot(&tab[x], (int)y)) < 0) { printf("r=ERR"); dump (); }
			else
			{
				ent_t* p = &tab[x]; hawk_val_t* got;
				if (p->is_arr) got = hawk_rtx_getarrvalfld(rtx, p->ptr, (hawk_ooi_t)p->key[si]);
				else { hawk_ooch_t kb[32]; hawk_oow_t kl; mkkey (p->key[si], kb, &kl); got = hawk_rtx_getmapvalfld(rtx, p->ptr, kb, kl); }
				if (!LIVE(y) || got != tab[y].ptr) { printf("take-mismatch\n"); }
				else { hawk_rtx_refupval (rtx, got); tab[y].holders++; printf("r=ok"); dump (); }
			}
		}
		else if (!strcmp(op, "root") && sscanf(line, "%*s %ld", &x) == 1)
		{
			if (!LIVE(x)) { printf("r=ERR"); dump (); }
			else { hawk_rtx_refupval (rtx, tab[x].ptr); tab[x].holders++; printf("r=ok"); dump (); }
		}
		else if (!strcmp(op, "drop") && sscanf(line, "%*s %ld", &x) == 1)
		{
			if (!LIVE(x) || tab[x].holders <= 0) { printf("r=ERR"); dump (); }
			else { tab[x].holders--; hawk_rtx_refdownval (rtx, tab[x].ptr); printf("r=ok"); dump (); }
		}
		else if (!strcmp(op, "call") && sscanf(line, "%*s %31s %ld %ld", a1, &x, &y) == 3)
		{
			/* the host calls a hawk function (hawk_rtx_callwithbcstr -> hawk_rtx_callfun -> hawk_rtx_evalcall -> run_block):
			 * the frame holds the arguments, the locals and the return value while the body runs; the body ends by
			 * return, by a run-time error (fail) or by exit (quit) */
			static const char* fns[] = { "keep", "drop2", "store", "wrap", "cyc", "fail", "quit", "dropr" };
			int fi = -1, q;
			for (q = 0; q < 8; q++) if (!strcmp(a1, fns[q])) fi = q;
			if (fi < 0) { printf("bad-op\n"); }
			else if (!LIVE(x) || !LIVE(y) || exited || ntab >= MAXOBJ || tab[x].nslots >= MAXSLOT) { printf("r=ERR"); dump (); }
			else
			{
				hawk_val_t* args[3]; hawk_val_t* rv; ent_t* p = &tab[x]; long k = free_key(p); int i, newid = -1;
				args[0] = tab[x].ptr; args[1] = tab[y].ptr;
				if (p->is_arr) args[2] = hawk_rtx_makeintval(rtx, k);
				else { char kb[32]; snprintf(kb, sizeof(kb), "k%ld", k); args[2] = hawk_rtx_makestrvalwithbcstr(rtx, kb); }
				if (!args[2]) { printf("alloc-failed\n"); fflush(stdout); return 2; }
				hawk_rtx_refupval (rtx, args[2]);
				rv = hawk_rtx_callwithbcstr(rtx, a1, args, 3);
				hawk_rtx_refdownval (rtx, args[2]);
				/* containers freed by a collection inside the call are noticed before anything new is registered */
				for (i = 0; i < ntab; i++) if (tab[i].live && tab[i].ptr != rv && gen_of(tab[i].ptr) < 0) { tab[i].live = 0; tab[i].holders = 0; pend[npend++] = i; }
				if (fi == 0)
				{
					if (rv != tab[x].ptr) { printf("call-mismatch keep\n"); fflush(stdout); return 2; }
					tab[x].holders++; /* the reference hawk_rtx_callfun hands out is kept */
				}
				else if (fi == 3)
				{
					ent_t* e;
					if (!rv || HAWK_RTX_GETVALTYPE(rtx, rv) != HAWK_VAL_MAP) { printf("call-mismatch wrap\n"); fflush(stdout); return 2; }
					for (i = 0; i < ntab; i++) if (tab[i].live && tab[i].ptr == rv) { tab[i].live = 0; tab[i].holders = 0; pend[npend++] = i; }
					e = &tab[ntab]; memset (e, 0, sizeof(*e));
					e->ptr = rv; e->live = 1; e->is_arr = 0; e->holders = 1; e->nslots = 2;
					e->key[0] = 0; e->child[0] = (int)x; e->key[1] = 1; e->child[1] = (int)y;
					newid = ntab++;
				}
				else
				{
					if (fi == 5 && rv) { printf("call-mismatch fail returned a value\n"); fflush(stdout); return 2; }
					if (rv) hawk_rtx_refdownval (rtx, rv);
					if (fi == 2) { p->key[p->nslots] = k; p->child[p->nslots] = (int)y; p->nslots++; }
					if (fi >= 4 && fi <= 6)
					{
						/* the local container the body left behind as cyclic garbage: the one chained container not in the table */
						int g; hawk_gch_t* gch; hawk_val_t* nv = HAWK_NULL; int cnt = 0;
						for (g = 0; g < HAWK_COUNTOF(rtx->gc.g); g++)
							for (gch = rtx->gc.g[g].gc_next; gch != &rtx->gc.g[g]; gch = gch->gc_next)
								if (id_of(hawk_gch_to_val(gch)) < 0) { nv = hawk_gch_to_val(gch); cnt++; }
						if (cnt == 1)
						{
							ent_t* e = &tab[ntab]; memset (e, 0, sizeof(*e));
							e->ptr = nv; e->live = 1; e->is_arr = 0; e->holders = 0; e->nslots = 2;
							e->key[0] = 0; e->child[0] = (int)x; e->key[1] = 1; e->child[1] = ntab;
							newid = ntab++;
						}
						else
						{
							/* released already (it must not be: it refers to itself) or more than one: reserve the id, the dump shows it */
							ent_t* e = &tab[ntab]; memset (e, 0, sizeof(*e));
							pend[npend++] = ntab; ntab++;
						}
						if (fi == 6) exited = 1;
					}
				}
				if (fi == 3) printf("r=%d", newid); else printf("r=ok");
				dump ();
			}
		}
		else if (!strcmp(op, "vint") || !strcmp(op, "vflt") || (!strcmp(op, "vstr") && sscanf(line, "%*s %ld", &x) == 1))
		{
			hawk_val_t* v;
			if (nvtab >= MAXLEAF) { printf("bad-op\n"); }
			else
			{
				if (op[1] == 'i') v = hawk_rtx_makeintval(rtx, ((hawk_int_t)1 << 62) + nvtab);
				else if (op[1] == 'f') v = hawk_rtx_makefltval(rtx, (hawk_flt_t)nvtab + 0.5);
				else
				{
					static char sb[4096]; long n = x < 1 ? 1 : (x > 4000 ? 4000 : x);
					memset (sb, 'x', n);
					v = hawk_rtx_makestrvalwithbchars(rtx, sb, (hawk_oow_t)n);
				}
				if (!v) { printf("alloc-failed\n"); fflush(stdout); return 2; }
				hawk_rtx_refupval (rtx, v);
				vtab[nvtab++] = v;
				printf("r=%d", nvtab - 1); vdump ();
			}
		}
		else if (!strcmp(op, "vrel") && sscanf(line, "%*s %ld", &x) == 1)
		{
			if (x < 0 || x >= nvtab || !vtab[x]) { printf("r=ERR"); vdump (); }
			else { hawk_rtx_refdownval (rtx, vtab[x]); vtab[x] = HAWK_NULL; printf("r=ok"); vdump (); }
		}
		else if (!strcmp(op, "gc") && sscanf(line, "%*s %ld", &x) == 1)
		{
			int g = hawk_rtx_gc(rtx, (int)x);
			printf("r=%d", g); dump ();
		}
		else if (!strcmp(op, "thr") && sscanf(line, "%*s %ld %ld", &x, &y) == 2)
		{
			/* hawk::gc_set_threshold is only reachable from a running program (checked at the CLI level);
			 * here the field is written directly with the builtin's clamping */
			long g = x < 0 ? 0 : (x >= 3 ? 2 : x);
			if (y >= 0) rtx->gc.threshold[g] = (hawk_oow_t)y;
			printf("r=%lu", (unsigned long)rtx->gc.threshold[g]); dump ();
		}
		else if (!strcmp(op, "close"))
		{
			close_all (1);
		}
		else printf("bad-op\n");
		fflush (stdout);
	}
	alarm (0);
	close_all (0);
	free (tab);
	return 0;
}
