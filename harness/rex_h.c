/* C06 correspondence harness: regular expressions through the REAL hawk code paths.
 *
 * Patterns are compiled with hawk_rtx_buildrex() (-> hawk_gem_buildrex(): HAWK_TRE_EXTENDED,
 * + HAWK_TRE_IGNORECASE for the icode, NOBOUND off because the default trait has REXBOUND) and
 * executed
 *   bt : hawk_rtx_matchrexwithucs()  - the wrapper every awk-level user (~, match, split, sub/gsub,
 *        FS/RS) goes through; it always passes HAWK_TRE_BACKTRACKING and derives HAWK_TRE_NOTBOL
 *        from `str->ptr != substr->ptr` (we reproduce that by matching a suffix of a longer buffer)
 *   bb : hawk_rtx_matchrexwithbcs()  - same wrapper for byte strings (STR_BYTE reader)
 *   pa : hawk_tre_execuchars() with eflags = NOTBOL only -> tre_match() dispatches to the parallel matcher
 *   gl : glibc regcomp(REG_EXTENDED[|REG_ICASE]) / regexec([REG_NOTBOL]) - second opinion on the *specification*
 * Each result is "start,len", "-" (no match) or "E<n>" (error).
 *
 * Protocol (one request per line, one answer line per request).  <flags>: bit 0 = IGNORECASE, bit 1 = do not ask
 * glibc (its regcomp needs exponential time on nested repeats of zero-width operands, and it lacks some of TRE's
 * escapes; answers are then "N"), bit 2 = an A request answers for eflags 0..3 instead of 0..1.
 * <eflags>: bit 0 = NOTBOL, bit 1 = NOTEOL (NOTEOL: bt/bb go through hawk_tre_exec*chars with HAWK_TRE_BACKTRACKING
 * because the interpreter's wrappers cannot pass it).
 *   M <flags> <eflags> <pattern>\t<subject>
 *        -> "bt=R bb=R pa=R gl=R nz=R np=R px=R pb=R vu=R vb=R" (see run_extra for the last six)
 *           or  "CERR tre=<0|1> gl=<0|1>" when a compile step fails
 *   A <flags> <maxlen> <alphabet> <pattern>
 *        every subject over <alphabet> of length 0..maxlen (length ascending, then lexicographic in
 *        alphabet order) x notbol in {0,1}  ->  "bt=R;R;... bb=... pa=... gl=..."  (same CERR line)
 * A watchdog turns a call that never returns into the line "HANG"; an A request whose calls all return but which
 * has used more than 3 s of CPU (exponential backtracking on nested nullable repeats) is answered "SLOW". */
#include <hawk-std.h>
#include <hawk-tre.h>
#include "hawk-prv.h"
#include <stdio.h>
#include <stdlib.h>
#include <string.h>
#include <signal.h>
#include <unistd.h>
#include <regex.h>
#include <time.h>

static void on_alarm (int sig) { printf("HANG\n"); fflush(stdout); _exit(3); }

static hawk_t* hawk;
static hawk_rtx_t* rtx;
static int no_glibc, all_eflags;
static double slow_s = 3.0;

#define MAXS 4096
static char obuf[10][1 << 20]; static size_t olen[10];

static void put (int k, int first, int found, long so, long len)
{
	char* p = obuf[k] + olen[k];
	size_t room = sizeof(obuf[k]) - olen[k];
	if (room < 64) return;
	if (found == 1) olen[k] += snprintf(p, room, "%s%ld,%ld", first ? "" : ";", so, len);
	else if (found == 0) olen[k] += snprintf(p, room, "%s-", first ? "" : ";");
	else olen[k] += snprintf(p, room, "%sE%d", first ? "" : ";", -found);
}

static void put_tre (int k, int first, int x, hawk_tre_match_t* m)
{
	if (x >= 0) put(k, first, 1, (long)m[0].rm_so, (long)(m[0].rm_eo - m[0].rm_so));
	else put(k, first, hawk_rtx_geterrnum(rtx) == HAWK_EREXNOMAT ? 0 : -(int)hawk_rtx_geterrnum(rtx) - 1000, 0, 0);
}

/* the other entry points of the library and of the interpreter, M requests only (columns 4..9):
 *   nz / np : hawk_tre_comp() (NUL-terminated pattern) + hawk_tre_exec() (NUL-terminated subject: the `len < 0`
 *             branches of both matchers), backtracking / parallel
 *   px      : hawk_tre_execx() (explicit length), parallel      pb : hawk_tre_execbchars(), parallel
 *   vu / vb : hawk_rtx_matchvalwithucs()/..bcs() with the pattern as a STRING value (dynamic regex: the value is
 *             compiled on the fly with rtx->gbl.ignorecase) - what `s ~ "re"` and match(s, "re") reach */
static void run_extra (hawk_tre_t* code, hawk_tre_t* zt, hawk_val_t* sval, hawk_uch_t* ubuf, hawk_bch_t* bbuf, size_t n, int eflags, int icase)
{
	hawk_tre_match_t m[10]; int x; int ef = ((eflags & 1) ? HAWK_TRE_NOTBOL : 0) | ((eflags & 2) ? HAWK_TRE_NOTEOL : 0);
	hawk_ucs_t us, usub, um; hawk_bcs_t bs, bsub, bm;
	if (zt)
	{
		memset(m, 0, sizeof(m)); x = hawk_tre_exec(zt, ubuf + 1, m, 10, ef | HAWK_TRE_BACKTRACKING, hawk_rtx_getgem(rtx)); put_tre(4, 1, x, m);
		memset(m, 0, sizeof(m)); x = hawk_tre_exec(zt, ubuf + 1, m, 10, ef, hawk_rtx_getgem(rtx)); put_tre(5, 1, x, m);
	}
	else { put(4, 1, -2998, 0, 0); put(5, 1, -2998, 0, 0); }
	memset(m, 0, sizeof(m)); x = hawk_tre_execx(code, ubuf + 1, n, m, 10, ef, hawk_rtx_getgem(rtx)); put_tre(6, 1, x, m);
	memset(m, 0, sizeof(m)); x = hawk_tre_execbchars(code, bbuf + 1, n, m, 10, ef, hawk_rtx_getgem(rtx)); put_tre(7, 1, x, m);
	if (sval && !(eflags & 2))
	{
		rtx->gbl.ignorecase = icase;
		usub.ptr = ubuf + 1; usub.len = n; if (eflags & 1) { us.ptr = ubuf; us.len = n + 1; } else us = usub;
		um.ptr = NULL; um.len = 0;
		x = hawk_rtx_matchvalwithucs(rtx, sval, &us, &usub, &um, HAWK_NULL);
		if (x >= 1) put(8, 1, 1, (long)(um.ptr - usub.ptr), (long)um.len); else put(8, 1, x == 0 ? 0 : -(int)hawk_rtx_geterrnum(rtx) - 1000, 0, 0);
		bsub.ptr = bbuf + 1; bsub.len = n; if (eflags & 1) { bs.ptr = bbuf; bs.len = n + 1; } else bs = bsub;
		bm.ptr = NULL; bm.len = 0;
		x = hawk_rtx_matchvalwithbcs(rtx, sval, &bs, &bsub, &bm, HAWK_NULL);
		if (x >= 1) put(9, 1, 1, (long)(bm.ptr - bsub.ptr), (long)bm.len); else put(9, 1, x == 0 ? 0 : -(int)hawk_rtx_geterrnum(rtx) - 1000, 0, 0);
		rtx->gbl.ignorecase = 0;
	}
	else
	{	/* the wrappers have no way to pass NOTEOL */
		olen[8] += snprintf(obuf[8] + olen[8], sizeof(obuf[8]) - olen[8], "N");
		olen[9] += snprintf(obuf[9] + olen[9], sizeof(obuf[9]) - olen[9], "N");
	}
}

static hawk_uch_t ubuf[MAXS + 2]; static hawk_bch_t bbuf[MAXS + 2];

/* run the four engines on one (subject, eflags); eflags: bit 0 = NOTBOL, bit 1 = NOTEOL */
static void run1 (hawk_tre_t* code, regex_t* gre, const char* subj, size_t n, int eflags, int first)
{
	int notbol = eflags & 1, noteol = eflags & 2;
	int ef = (notbol ? HAWK_TRE_NOTBOL : 0) | (noteol ? HAWK_TRE_NOTEOL : 0);
	hawk_ucs_t us, usub, um; hawk_bcs_t bs, bsub, bm;
	hawk_tre_match_t m[10]; regmatch_t gm[1];
	size_t i; int x;

	ubuf[0] = 'x'; bbuf[0] = 'x'; /* a character in front of the subject: only reachable if the wrapper looked before `substr` */
	for (i = 0; i < n; i++) { ubuf[i + 1] = (unsigned char)subj[i]; bbuf[i + 1] = subj[i]; }
	ubuf[n + 1] = 0; bbuf[n + 1] = 0;

	/* bt: wrapper, wide */
	usub.ptr = ubuf + 1; usub.len = n;
	if (notbol) { us.ptr = ubuf; us.len = n + 1; } else us = usub;
	um.ptr = NULL; um.len = 0;
	if (noteol)
	{	/* the wrapper cannot pass NOTEOL: same matcher through the library call */
		memset(m, 0, sizeof(m));
		x = hawk_tre_execuchars(code, ubuf + 1, n, m, 10, ef | HAWK_TRE_BACKTRACKING, hawk_rtx_getgem(rtx)); put_tre(0, first, x, m);
		memset(m, 0, sizeof(m));
		x = hawk_tre_execbchars(code, bbuf + 1, n, m, 10, ef | HAWK_TRE_BACKTRACKING, hawk_rtx_getgem(rtx)); put_tre(1, first, x, m);
		goto parallel;
	}
	x = hawk_rtx_matchrexwithucs(rtx, code, &us, &usub, &um, HAWK_NULL);
	if (x >= 1) put(0, first, 1, (long)(um.ptr - usub.ptr), (long)um.len); else put(0, first, x == 0 ? 0 : -(int)hawk_rtx_geterrnum(rtx) - 1000, 0, 0);

	/* bb: wrapper, bytes */
	bsub.ptr = bbuf + 1; bsub.len = n;
	if (notbol) { bs.ptr = bbuf; bs.len = n + 1; } else bs = bsub;
	bm.ptr = NULL; bm.len = 0;
	x = hawk_rtx_matchrexwithbcs(rtx, code, &bs, &bsub, &bm, HAWK_NULL);
	if (x >= 1) put(1, first, 1, (long)(bm.ptr - bsub.ptr), (long)bm.len); else put(1, first, x == 0 ? 0 : -(int)hawk_rtx_geterrnum(rtx) - 1000, 0, 0);

parallel:
	/* pa: direct call without HAWK_TRE_BACKTRACKING */
	memset(m, 0, sizeof(m));
	x = hawk_tre_execuchars(code, ubuf + 1, n, m, 10, ef, hawk_rtx_getgem(rtx));
	put_tre(2, first, x, m);

	/* gl: glibc */
	if (gre)
	{
		x = regexec(gre, (const char*)bbuf + 1, 1, gm, (notbol ? REG_NOTBOL : 0) | (noteol ? REG_NOTEOL : 0));
		if (x == 0) put(3, first, 1, (long)gm[0].rm_so, (long)(gm[0].rm_eo - gm[0].rm_so));
		else put(3, first, x == REG_NOMATCH ? 0 : -x - 2000, 0, 0);
	}
	else if (no_glibc) { olen[3] += snprintf(obuf[3] + olen[3], sizeof(obuf[3]) - olen[3], "%sN", first ? "" : ";"); }
	else put(3, first, -2999, 0, 0);
}

static void flush4 (int extra)
{
	if (extra) printf("bt=%s bb=%s pa=%s gl=%s nz=%s np=%s px=%s pb=%s vu=%s vb=%s\n", obuf[0], obuf[1], obuf[2], obuf[3], obuf[4], obuf[5], obuf[6], obuf[7], obuf[8], obuf[9]);
	else printf("bt=%s bb=%s pa=%s gl=%s\n", obuf[0], obuf[1], obuf[2], obuf[3]);
}

int main (int argc, char** argv)
{
	static char line[MAXS * 2 + 64];
	int wd = argc > 1 ? atoi(argv[1]) : 20;
	hawk_parsestd_t psin[2];
	static hawk_ooch_t prog[] = { 'B','E','G','I','N','{','}', 0 };

	signal(SIGALRM, on_alarm);
	hawk = hawk_openstd(0, HAWK_NULL);
	if (!hawk) { printf("FATAL open\n"); return 2; }
	memset(psin, 0, sizeof(psin));
	psin[0].type = HAWK_PARSESTD_OOCS; psin[0].u.oocs.ptr = prog; psin[0].u.oocs.len = 7;
	psin[1].type = HAWK_PARSESTD_NULL;
	if (hawk_parsestd(hawk, psin, HAWK_NULL) <= -1) { printf("FATAL parse\n"); return 2; }
	rtx = hawk_rtx_openstd(hawk, 0, HAWK_T("rex_h"), HAWK_NULL, HAWK_NULL, HAWK_NULL);
	if (!rtx) { printf("FATAL rtx\n"); return 2; }

	while (fgets(line, sizeof(line), stdin))
	{
		size_t L = strlen(line);
		int icase, a2; char mode; char* p; char* pat; size_t plen, i;
		static hawk_ooch_t upat[MAXS + 1];
		hawk_tre_t* code = HAWK_NULL; hawk_tre_t* icode = HAWK_NULL; hawk_tre_t* use;
		regex_t gre; int gok, tok;
		char alpha[64];

		while (L > 0 && (line[L - 1] == '\n' || line[L - 1] == '\r')) line[--L] = 0;
		{ int q; for (q = 0; q < 10; q++) { olen[q] = 0; obuf[q][0] = 0; } }
		alarm(wd);
		mode = line[0];
		if ((mode != 'M' && mode != 'A') || line[1] != ' ') { printf("bad-op\n"); continue; }
		p = line + 2;
		icase = (int)strtol(p, &p, 10); if (*p != ' ') { printf("bad-op\n"); continue; } p++;
		no_glibc = (icase >> 1) & 1; all_eflags = (icase >> 2) & 1; icase &= 1;
		a2 = (int)strtol(p, &p, 10); if (*p != ' ') { printf("bad-op\n"); continue; } p++;
		alpha[0] = 0;
		if (mode == 'A')
		{
			size_t k = 0;
			while (*p && *p != ' ' && k < sizeof(alpha) - 1) alpha[k++] = *p++;
			alpha[k] = 0;
			if (*p != ' ') { printf("bad-op\n"); continue; } p++;
		}
		pat = p;
		if (mode == 'M')
		{
			char* t = strchr(p, '\t');
			if (!t) { printf("bad-op\n"); continue; }
			*t = 0; p = t + 1; /* p = subject */
		}
		plen = strlen(pat);
		if (plen > MAXS) { printf("bad-op\n"); continue; }
		for (i = 0; i < plen; i++) upat[i] = (unsigned char)pat[i];
		upat[plen] = 0;

		/* compile exactly as the interpreter does (run.c: hawk_rtx_buildrex -> gem.c: hawk_gem_buildrex) */
		tok = icase ? hawk_rtx_buildrex(rtx, upat, plen, HAWK_NULL, &icode) : hawk_rtx_buildrex(rtx, upat, plen, &code, HAWK_NULL);
		gok = no_glibc ? -1 : regcomp(&gre, pat, REG_EXTENDED | (icase ? REG_ICASE : 0));
		if (tok <= -1)
		{
			printf("CERR tre=0 gl=%d\n", gok == 0);
			if (gok == 0) regfree(&gre);
			continue;
		}
		use = icase ? icode : code;

		if (mode == 'M')
		{
			hawk_tre_t* zt; hawk_val_t* sval;
			run1(use, gok == 0 ? &gre : NULL, p, strlen(p), a2, 1);
			zt = hawk_tre_open(hawk_rtx_getgem(rtx), 0);
			if (zt && hawk_tre_comp(zt, upat, HAWK_NULL, HAWK_TRE_EXTENDED | (icase ? HAWK_TRE_IGNORECASE : 0)) <= -1) { hawk_tre_close(zt); zt = HAWK_NULL; }
			sval = hawk_rtx_makestrvalwithoochars(rtx, upat, plen);
			if (sval) hawk_rtx_refupval(rtx, sval);
			run_extra(use, zt, sval, ubuf, bbuf, strlen(p), a2, icase);
			if (sval) hawk_rtx_refdownval(rtx, sval);
			if (zt) hawk_tre_close(zt);
			flush4(1);
		}
		else
		{
			/* enumerate subjects: length ascending, lexicographic in alphabet order */
			size_t na = strlen(alpha); int maxlen = a2, len, first = 1, slow = 0;
			char subj[64]; int idx[64];
			clock_t t0 = clock();
			if (maxlen > 60) maxlen = 60;
			for (len = 0; len <= maxlen && !slow; len++)
			{
				int j;
				if (len > 0 && na == 0) break;
				for (j = 0; j < len; j++) idx[j] = 0;
				for (;;)
				{
					for (j = 0; j < len; j++) subj[j] = alpha[idx[j]];
					subj[len] = 0;
					run1(use, gok == 0 ? &gre : NULL, subj, (size_t)len, 0, first); first = 0;
					run1(use, gok == 0 ? &gre : NULL, subj, (size_t)len, 1, 0);
					if (all_eflags)
					{
						run1(use, gok == 0 ? &gre : NULL, subj, (size_t)len, 2, 0);
						run1(use, gok == 0 ? &gre : NULL, subj, (size_t)len, 3, 0);
					}
					/* a pattern on which the matchers need exponential time (every single call still returns):
					 * give up on the line after `slow_s` seconds of CPU; a call that never returns is a HANG */
					if ((double)(clock() - t0) / CLOCKS_PER_SEC > slow_s) { slow = 1; break; }
					/* next */
					j = len - 1;
					while (j >= 0 && idx[j] == (int)na - 1) { idx[j] = 0; j--; }
					if (j < 0) break;
					idx[j]++;
				}
			}
			if (slow) printf("SLOW\n"); else flush4(0);
		}
		hawk_rtx_freerex(rtx, code, icode);
		if (gok == 0) regfree(&gre);
	}
	alarm(0);
	hawk_rtx_close(rtx);
	hawk_close(hawk);
	return 0;
}
