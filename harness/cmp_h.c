/* C11 correspondence harness: the REAL hawk comparison code (run.c __cmp_* family through
 * hawk_rtx_cmpval, and the eight comparison operators evaluated at language level through
 * hawk_rtx_callfun) driven by the line protocol of lean/HawkModel/Drv/Cmp.lean.
 *
 *   fold                      print the case-folding tables (units, bytes) the comparison routines use
 *   cfg <ic> <nc> <ss> <fm>   open a fresh hawk+rtx: IGNORECASE=<ic>, traits NCMPONSTR=<nc>,
 *                             STRIPSTRSPC=<ss>, FLEXMAP=<fm> (set with hawk_setopt before parsing)
 *   desc <spec>               print the canonical descriptor of the value: its kind, payload, v_nstr
 *                             and the results of every number<->string conversion the __cmp_*
 *                             routines may apply to it (these conversions are PARAMETERS of the
 *                             Lean model; the driver is instantiated with what is printed here)
 *   cmp <specA> <specB>       r=<rc>,<n>  of hawk_rtx_cmpval   o=<lt le eq ne ge gt teq tne> | ERR
 *   asort <v|k> <m|a|n> spec..  the real asort/asorti (see do_asort)
 *   asortx <fn> <m|a|n|k> [<key>=<spec> | -<key>]..   build the global X (map: key = hex4 units; array: key = slot number;
 *                             n = nil; k = keep X and G as the previous call left them), remove the `-<key>` elements with
 *                             `delete`, call the hawk function <fn> (a1..a8, u1..u5: see the source text below), print
 *                             pre=<X> preG=<G> rv=<n|ERR> X=<X> G=<G>  (see do_asortx)
 *
 * value specs: N | C<code> | B<byte> | I<int> | F<strtold text> | S<hex4 units> (plain string)
 *   | T<hex4 units> (hawk_rtx_makenstrvalwithoochars: numeric-string flag as hawk assigns it)
 *   | M<hex2 bytes> (byte string) | Uf | Ug (function values) | P<n> (map, n pairs) | A<n> (array)
 * floats are printed exactly as <mantissa>:<exp2> (odd mantissa), never through printf %g. */
#include <hawk-std.h>
#include <hawk-prv.h>
#include <hawk-chr.h>
#include <stdio.h>
#include <stdlib.h>
#include <string.h>
#include <math.h>
#include <float.h>

_Static_assert(sizeof(hawk_flt_t) <= sizeof(long double), "hawk_flt_t wider than long double: exact float dump unsupported");
_Static_assert(sizeof(hawk_uch_t) == 2, "harness assumes 16-bit hawk_uch_t (hex4 units)");

static hawk_t* hawk;
static hawk_rtx_t* rtx;
static hawk_fun_t* fun_t, * fun_q, * fun_f, * fun_g, * fun_s1, * fun_s2;
static int cur_ss, gid_G, gid_X;

static const char* src =
	"function t(a,b) { return (a<b) (a<=b) (a==b) (a!=b) (a>=b) (a>b) (a===b) (a!==b); }\n"
	"function q(a,b) { return (a===b) (a!==b); }\n"
	"function f(a) { return a; }\n"
	"function g(a) { return a; }\n"
	"function s1(x) { return asort(x, G); }\n"
	"function s2(x) { return asorti(x, G); }\n"
	/* asortx: sources and destinations are the globals X and G */
	"function a1() { return asort(X, G); }\n"
	"function a2() { return asorti(X, G); }\n"
	"function a3() { return asort(X); }\n"
	"function a4() { return asorti(X); }\n"
	"function a5() { return asort(X, X); }\n"
	"function a6() { return asorti(X, X); }\n"
	"function a7() { return asort(G, G); }\n"
	"function a8() { return asorti(G, G); }\n"
	"function ucmp(a, b) { return (a < b)? -1: ((a > b)? 1: 0); }\n"
	"function urev(a, b) { return (a < b)? 1: ((a > b)? -1: 0); }\n"
	"function uzero(a, b) { return 0; }\n"
	"function uerr(a, b) { if (a == 13 || b == 13) return 1 % ZERO; return (a < b)? -1: ((a > b)? 1: 0); }\n"
	"function one(a) { return 0; }\n"
	"function u6() { return asort(X, G, uerr); }\n"
	"function u7() { return asort(X, G, 5); }\n"
	"function u8() { return asort(X, G, one); }\n"
	"function u1() { return asort(X, G, ucmp); }\n"
	"function u2() { return asorti(X, G, ucmp); }\n"
	"function u3() { return asort(X, G, urev); }\n"
	"function u4() { return asort(X, G, uzero); }\n"
	"function u5() { return asort(X, X, ucmp); }\n"
	"function dl(k) { delete X[k]; }\n";

static void die (const char* m) { printf("HARNESS-ERROR %s\n", m); fflush(stdout); exit(4); }

static void close_all (void)
{
	if (rtx) { hawk_rtx_close(rtx); rtx = HAWK_NULL; }
	if (hawk) { hawk_close(hawk); hawk = HAWK_NULL; }
}

static void open_cfg (int ic, int nc, int ss, int fm)
{
	hawk_parsestd_t psin[2];
	int trait;
	hawk_val_t* v;

	close_all();
	hawk = hawk_openstd(0, HAWK_NULL);
	if (!hawk) die("hawk_openstd");
	hawk_getopt(hawk, HAWK_OPT_TRAIT, &trait);
	trait &= ~(HAWK_NCMPONSTR | HAWK_STRIPSTRSPC | HAWK_FLEXMAP);
	if (nc) trait |= HAWK_NCMPONSTR;
	if (ss) trait |= HAWK_STRIPSTRSPC;
	if (fm) trait |= HAWK_FLEXMAP;
	trait |= HAWK_BLANKCONCAT;
	if (hawk_setopt(hawk, HAWK_OPT_TRAIT, &trait) <= -1) die("hawk_setopt");

	gid_G = hawk_addgblwithbcstr(hawk, "G");
	gid_X = hawk_addgblwithbcstr(hawk, "X");
	if (gid_G <= -1 || gid_X <= -1) die("addgbl G/X");

	memset(psin, 0, sizeof(psin));
	psin[0].type = HAWK_PARSESTD_BCS;
	psin[0].u.bcs.ptr = (hawk_bch_t*)src;
	psin[0].u.bcs.len = strlen(src);
	psin[1].type = HAWK_PARSESTD_NULL;
	if (hawk_parsestd(hawk, psin, HAWK_NULL) <= -1) { printf("HARNESS-ERROR hawk_parsestd: %s\n", hawk_geterrbmsg(hawk)); fflush(stdout); exit(4); }
	rtx = hawk_rtx_openstd(hawk, 0, HAWK_T("cmp_h"), HAWK_NULL, HAWK_NULL, HAWK_NULL);
	if (!rtx) die("hawk_rtx_openstd");
	fun_t = hawk_rtx_findfunwithbcstr(rtx, "t");
	fun_q = hawk_rtx_findfunwithbcstr(rtx, "q");
	fun_f = hawk_rtx_findfunwithbcstr(rtx, "f");
	fun_g = hawk_rtx_findfunwithbcstr(rtx, "g");
	fun_s1 = hawk_rtx_findfunwithbcstr(rtx, "s1");
	fun_s2 = hawk_rtx_findfunwithbcstr(rtx, "s2");
	if (!fun_t || !fun_q || !fun_f || !fun_g || !fun_s1 || !fun_s2) die("findfun");
	v = hawk_rtx_makeintval(rtx, ic);
	hawk_rtx_refupval(rtx, v);
	if (hawk_rtx_setgbl(rtx, HAWK_GBL_IGNORECASE, v) <= -1) die("setgbl IGNORECASE");
	hawk_rtx_refdownval(rtx, v);
	cur_ss = HAWK_RTX_IS_STRIPSTRSPC_ON(rtx)? 1: 0;
	printf("cfg ic=%d nc=%d ss=%d fm=%d igc=%d mant=%d\n", ic, nc, cur_ss, fm, (int)rtx->gbl.ignorecase, (int)LDBL_MANT_DIG);
}

static int hexv (int c) { return (c >= '0' && c <= '9')? c - '0': (c >= 'a' && c <= 'f')? c - 'a' + 10: (c >= 'A' && c <= 'F')? c - 'A' + 10: -1; }

/* returns a value with one reference taken */
static hawk_val_t* mkval (const char* s)
{
	hawk_val_t* v = HAWK_NULL;
	switch (s[0])
	{
		case 'N': v = hawk_rtx_makenilval(rtx); break;
		case 'C': v = hawk_rtx_makecharval(rtx, (hawk_ooch_t)strtoul(s + 1, NULL, 10)); break;
		case 'B': v = hawk_rtx_makebchrval(rtx, (hawk_bch_t)strtoul(s + 1, NULL, 10)); break;
		case 'I': v = hawk_rtx_makeintval(rtx, (hawk_int_t)strtoll(s + 1, NULL, 10)); break;
		case 'F': v = hawk_rtx_makefltval(rtx, (hawk_flt_t)strtold(s + 1, NULL)); break;
		case 'S': case 'T':
		{
			size_t n = strlen(s + 1) / 4, i;
			hawk_uch_t* u = malloc((n + 1) * sizeof(*u));
			for (i = 0; i < n; i++) u[i] = (hawk_uch_t)((hexv(s[1 + 4 * i]) << 12) | (hexv(s[2 + 4 * i]) << 8) | (hexv(s[3 + 4 * i]) << 4) | hexv(s[4 + 4 * i]));
			v = (s[0] == 'S')? hawk_rtx_makestrvalwithuchars(rtx, u, n): hawk_rtx_makenstrvalwithuchars(rtx, u, n);
			free(u);
			break;
		}
		case 'M':
		{
			size_t n = strlen(s + 1) / 2, i;
			hawk_bch_t* b = malloc(n + 1);
			for (i = 0; i < n; i++) b[i] = (hawk_bch_t)((hexv(s[1 + 2 * i]) << 4) | hexv(s[2 + 2 * i]));
			v = hawk_rtx_makembsvalwithbchars(rtx, b, n);
			free(b);
			break;
		}
		case 'U': v = hawk_rtx_makefunval(rtx, s[1] == 'f'? fun_f: fun_g); break;
		case 'P':
		{
			long n = strtol(s + 1, NULL, 10), i;
			v = hawk_rtx_makemapval(rtx);
			if (v) for (i = 0; i < n; i++) { hawk_ooch_t k[2]; k[0] = (hawk_ooch_t)('a' + i); k[1] = 0; hawk_rtx_setmapvalfld(rtx, v, k, 1, hawk_rtx_makeintval(rtx, i)); }
			break;
		}
		case 'A':
		{
			long n = strtol(s + 1, NULL, 10), i;
			v = hawk_rtx_makearrval(rtx, -1);
			if (v) for (i = 0; i < n; i++) hawk_rtx_setarrvalfld(rtx, v, i + 1, hawk_rtx_makeintval(rtx, i));
			break;
		}
		default: break;
	}
	if (!v) die("mkval");
	hawk_rtx_refupval(rtx, v);
	return v;
}

static void putflt (hawk_flt_t x)
{
	long double v = x;
	if (isnan(v)) printf("nan");
	else if (isinf(v)) printf(v > 0? "inf": "-inf");
	else if (v == 0) printf("0:0");
	else
	{
		int e; long double m = frexpl(fabsl(v), &e);
		unsigned long long mm = (unsigned long long)ldexpl(m, 64); e -= 64;
		while (!(mm & 1)) { mm >>= 1; e++; }
		printf("%s%llu:%d", v < 0? "-": "", mm, e);
	}
}

static void putu (const hawk_uch_t* p, hawk_oow_t n) { hawk_oow_t i; for (i = 0; i < n; i++) printf("%04x", (unsigned)(hawk_uchu_t)p[i]); }
static void putb (const hawk_bch_t* p, hawk_oow_t n) { hawk_oow_t i; for (i = 0; i < n; i++) printf("%02x", (unsigned)(hawk_bchu_t)p[i]); }

static void put_numstrs (hawk_val_t* v)
{
	hawk_oow_t ol, bl;
	hawk_ooch_t* os = hawk_rtx_getvaloocstr(rtx, v, &ol);
	hawk_bch_t* bs = hawk_rtx_getvalbcstr(rtx, v, &bl);
	if (!os || !bs) die("getvalstr");
	printf(";os="); putu(os, ol); printf(";bs="); putb(bs, bl);
	hawk_rtx_freevaloocstr(rtx, v, os); hawk_rtx_freevalbcstr(rtx, v, bs);
}

static void desc (const char* spec)
{
	hawk_val_t* v = mkval(spec);
	switch (HAWK_RTX_GETVALTYPE(rtx, v))
	{
		case HAWK_VAL_NIL: printf("N"); break;
		case HAWK_VAL_CHAR: printf("C%u", (unsigned)(hawk_oochu_t)HAWK_RTX_GETCHARFROMVAL(rtx, v)); break;
		case HAWK_VAL_BCHR: printf("B%u", (unsigned)(hawk_bchu_t)HAWK_RTX_GETBCHRFROMVAL(rtx, v)); break;
		case HAWK_VAL_INT: printf("I%lld", (long long)HAWK_RTX_GETINTFROMVAL(rtx, v)); put_numstrs(v); break;
		case HAWK_VAL_FLT: printf("F"); putflt(((hawk_val_flt_t*)v)->val); put_numstrs(v); break;
		case HAWK_VAL_STR:
		{
			hawk_val_str_t* s = (hawk_val_str_t*)v;
			hawk_int_t l = 0; hawk_flt_t r = 0; int k; const hawk_ooch_t* end; hawk_bch_t* enc; hawk_oow_t enclen;
			printf("S%d;", (int)s->v_nstr); putu(s->val.ptr, s->val.len);
			/* as in __cmp_int_str */
			k = hawk_oochars_to_num(HAWK_OOCHARS_TO_NUM_MAKE_OPTION(1, 0, cur_ss, 0), s->val.ptr, s->val.len, &l, &r);
			printf(";num=%d:%lld:", k, k == 0? (long long)l: 0LL); putflt(k > 0? r: 0);
			/* as in __cmp_flt_str and __cmp_str_str */
			r = hawk_oochars_to_flt(s->val.ptr, s->val.len, &end, cur_ss);
			printf(";ff=%d:", end == s->val.ptr + s->val.len); putflt(r);
			/* as in __cmp_str_str */
			l = hawk_oochars_to_int(s->val.ptr, s->val.len, HAWK_OOCHARS_TO_INT_MAKE_OPTION(cur_ss, cur_ss, 0), HAWK_NULL, HAWK_NULL);
			printf(";ti=%lld", (long long)l);
			/* as in __cmp_str_mbs */
			enc = hawk_rtx_duputobchars(rtx, s->val.ptr, s->val.len, &enclen);
			if (!enc) die("duputobchars");
			printf(";enc="); putb(enc, enclen); hawk_rtx_freemem(rtx, enc);
			break;
		}
		case HAWK_VAL_MBS:
		{
			hawk_val_mbs_t* s = (hawk_val_mbs_t*)v;
			hawk_int_t l = 0; hawk_flt_t r = 0; int k; const hawk_bch_t* end;
			printf("M%d;", (int)s->v_nstr); putb(s->val.ptr, s->val.len);
			k = hawk_bchars_to_num(HAWK_OOCHARS_TO_NUM_MAKE_OPTION(1, 0, cur_ss, 0), s->val.ptr, s->val.len, &l, &r);
			printf(";num=%d:%lld:", k, k == 0? (long long)l: 0LL); putflt(k > 0? r: 0);
			r = hawk_bchars_to_flt(s->val.ptr, s->val.len, &end, cur_ss);
			printf(";ff=%d:", end == s->val.ptr + s->val.len); putflt(r);
			break;
		}
		case HAWK_VAL_FUN: printf("U%d", ((hawk_val_fun_t*)v)->fun == fun_f? 1: 2); break;
		case HAWK_VAL_MAP: printf("P%lu", (unsigned long)HAWK_MAP_SIZE(((hawk_val_map_t*)v)->map)); break;
		case HAWK_VAL_ARR: printf("A%lu", (unsigned long)HAWK_ARR_SIZE(((hawk_val_arr_t*)v)->arr)); break;
		default: printf("?"); break;
	}
	printf("\n");
	hawk_rtx_refdownval(rtx, v);
}

static void cmp (const char* sa, const char* sb)
{
	hawk_val_t* a = mkval(sa), * b = mkval(sb), * args[2], * r;
	int n = 0, rc;

	rc = hawk_rtx_cmpval(rtx, a, b, &n);
	if (rc <= -1) printf("r=-1,x"); else printf("r=0,%d", n);
	args[0] = a; args[1] = b;
	{
		/* o = the six relational operators and ===, !== in one expression (one failing operator fails them all);
		 * q = === and !== alone (they never fail, also on functions, maps and arrays) */
		hawk_fun_t* fs[2]; const char* tag[2]; int k;
		fs[0] = fun_t; fs[1] = fun_q; tag[0] = " o="; tag[1] = " q=";
		for (k = 0; k < 2; k++)
		{
			r = hawk_rtx_callfun(rtx, fs[k], args, 2);
			if (!r) printf("%sERR", tag[k]);
			else
			{
				hawk_oow_t len; hawk_bch_t* s;
				hawk_rtx_refupval(rtx, r);
				s = hawk_rtx_valtobcstrdup(rtx, r, &len);
				if (!s) die("valtobcstrdup");
				printf("%s%.*s", tag[k], (int)len, s);
				hawk_rtx_freemem(rtx, s);
				hawk_rtx_refdownval(rtx, r);
			}
		}
		printf("\n");
	}
	hawk_rtx_refdownval(rtx, a);
	hawk_rtx_refdownval(rtx, b);
}

/* the case folding the comparison routines apply: hawk_to_uch_lower on every 16-bit unit and
 * hawk_to_bch_lower on every byte exactly as hawk_comp_bchars does it (signed hawk_bch_t in, hawk_bchu_t out) */
static void fold (void)
{
	unsigned u; int first = 1;
	printf("fold ");
	for (u = 0; u < 65536; u++)
	{
		hawk_uchu_t l = hawk_to_uch_lower((hawk_uch_t)u);
		if (l != u) { printf("%s%u:%u", first? "": ",", u, (unsigned)l); first = 0; }
	}
	if (first) printf("-");
	printf(" ");
	first = 1;
	for (u = 0; u < 256; u++)
	{
		hawk_bch_t ch = (hawk_bch_t)u;
		hawk_bchu_t l = hawk_to_bch_lower(ch);
		if (l != u) { printf("%s%u:%u", first? "": ",", u, (unsigned)l); first = 0; }
	}
	if (first) printf("-");
	printf("\n");
}

/* asort <v|k> <m|a|n> spec...: run the real asort (v) / asorti (k) on a map (m), a hawk::array-style
 * array (a) or a nil source (n) holding the given values; destination is the global G, which is NOT
 * reset between calls (a stale destination is observable).  Prints the order in which asort meets the
 * source elements (in=) and the order of the destination (out=) as indices into the spec list. */
static void do_asort (int keys, char mode, char** specs, int n)
{
	hawk_val_t** vals = calloc(n + 1, sizeof(*vals));
	char* used = calloc(n + 1, 1);
	hawk_val_t* src, * r, * G, * args[1];
	hawk_ooch_t kb[32]; char tmp[32];
	int i, j, k, first;
	hawk_int_t rv;

	for (i = 0; i < n; i++) vals[i] = mkval(specs[i]);
	if (mode == 'm')
	{
		src = hawk_rtx_makemapval(rtx);
		if (!src) die("makemapval");
		hawk_rtx_refupval(rtx, src);
		for (i = 0; i < n; i++)
		{
			if (keys)
			{
				if (HAWK_RTX_GETVALTYPE(rtx, vals[i]) != HAWK_VAL_STR) die("asort k m needs string specs");
				if (!hawk_rtx_setmapvalfld(rtx, src, ((hawk_val_str_t*)vals[i])->val.ptr, ((hawk_val_str_t*)vals[i])->val.len, hawk_rtx_makeintval(rtx, i))) die("setmapvalfld");
			}
			else
			{
				int l = snprintf(tmp, sizeof(tmp), "%d", i + 1);
				for (k = 0; k < l; k++) kb[k] = tmp[k];
				if (!hawk_rtx_setmapvalfld(rtx, src, kb, l, vals[i])) die("setmapvalfld");
			}
		}
	}
	else if (mode == 'a')
	{
		src = hawk_rtx_makearrval(rtx, -1);
		if (!src) die("makearrval");
		hawk_rtx_refupval(rtx, src);
		for (i = 0; i < n; i++) if (!hawk_rtx_setarrvalfld(rtx, src, i + 1, vals[i])) die("setarrvalfld");
	}
	else { src = hawk_rtx_makenilval(rtx); hawk_rtx_refupval(rtx, src); }

	printf("in=");
	first = 1;
	if (mode == 'm')
	{
		hawk_val_map_itr_t itr;
		if (hawk_rtx_getfirstmapvalitr(rtx, src, &itr))
		{
			do
			{
				hawk_val_t* e = (hawk_val_t*)HAWK_VAL_MAP_ITR_VAL(&itr);
				j = -1;
				if (keys) j = (int)HAWK_RTX_GETINTFROMVAL(rtx, e);
				else for (k = 0; k < n; k++) if (!used[k] && vals[k] == e) { j = k; used[k] = 1; break; }
				printf("%s%d", first? "": ",", j); first = 0;
			}
			while (hawk_rtx_getnextmapvalitr(rtx, src, &itr));
		}
	}
	else if (mode == 'a') for (i = 0; i < n; i++) { printf("%s%d", first? "": ",", i); first = 0; }

	args[0] = src;
	r = hawk_rtx_callfun(rtx, keys? fun_s2: fun_s1, args, 1);
	if (!r) { printf(" ERR\n"); goto done; }
	hawk_rtx_refupval(rtx, r);
	if (hawk_rtx_valtoint(rtx, r, &rv) <= -1) rv = -999;
	hawk_rtx_refdownval(rtx, r);
	printf(" rv=%lld out=", (long long)rv);
	G = hawk_rtx_getgbl(rtx, gid_G);
	memset(used, 0, n + 1);
	first = 1;
	for (i = 1; ; i++)
	{
		hawk_val_t* e = HAWK_NULL;
		if (HAWK_RTX_GETVALTYPE(rtx, G) == HAWK_VAL_MAP)
		{
			int l = snprintf(tmp, sizeof(tmp), "%d", i);
			for (k = 0; k < l; k++) kb[k] = tmp[k];
			e = hawk_rtx_getmapvalfld(rtx, G, kb, l);
		}
		else if (HAWK_RTX_GETVALTYPE(rtx, G) == HAWK_VAL_ARR) e = hawk_rtx_getarrvalfld(rtx, G, i);
		if (!e) break;
		j = -1;
		if (!keys) { for (k = 0; k < n; k++) if (!used[k] && vals[k] == e) { j = k; used[k] = 1; break; } }
		else if (mode == 'a') { if (HAWK_RTX_GETVALTYPE(rtx, e) == HAWK_VAL_INT) j = (int)HAWK_RTX_GETINTFROMVAL(rtx, e) - 1; }
		else if (HAWK_RTX_GETVALTYPE(rtx, e) == HAWK_VAL_STR)
		{
			hawk_val_str_t* es = (hawk_val_str_t*)e;
			for (k = 0; k < n; k++)
			{
				hawk_val_str_t* ks = (hawk_val_str_t*)vals[k];
				if (!used[k] && es->v_nstr == 0 && ks->val.len == es->val.len && !memcmp(ks->val.ptr, es->val.ptr, es->val.len * sizeof(hawk_ooch_t))) { j = k; used[k] = 1; break; }
			}
		}
		printf("%s%d", first? "": ",", j); first = 0;
	}
	printf(" dst=%s\n", HAWK_RTX_GETVALTYPE(rtx, G) == HAWK_VAL_MAP? "map": HAWK_RTX_GETVALTYPE(rtx, G) == HAWK_VAL_ARR? "arr": HAWK_RTX_GETVALTYPE(rtx, G) == HAWK_VAL_NIL? "nil": "other");
done:
	hawk_rtx_refdownval(rtx, src);
	for (i = 0; i < n; i++) hawk_rtx_refdownval(rtx, vals[i]);
	free(vals); free(used);
}

/* ---- asortx: asort/asorti on arbitrary sources (maps with any string keys, arrays with any occupied slots incl. 0 and
 * gaps, elements removed with `delete`, nil), every destination form (separate variable, the same variable, in place,
 * the previous result sorted again), default and user comparators.  Values are reported as TOKENS (a value spec that
 * rebuilds an equal value), containers as m{<keyhex4>:<token>,..} in traversal order / a{<slot>:<token>,..} / nil. */
static void puttok (hawk_val_t* v)
{
	switch (HAWK_RTX_GETVALTYPE(rtx, v))
	{
		case HAWK_VAL_NIL: printf("N"); break;
		case HAWK_VAL_CHAR: printf("C%u", (unsigned)(hawk_oochu_t)HAWK_RTX_GETCHARFROMVAL(rtx, v)); break;
		case HAWK_VAL_BCHR: printf("B%u", (unsigned)(hawk_bchu_t)HAWK_RTX_GETBCHRFROMVAL(rtx, v)); break;
		case HAWK_VAL_INT: printf("I%lld", (long long)HAWK_RTX_GETINTFROMVAL(rtx, v)); break;
		case HAWK_VAL_FLT: printf("F%La", (long double)((hawk_val_flt_t*)v)->val); break;
		case HAWK_VAL_STR: printf("%c", ((hawk_val_str_t*)v)->v_nstr? 'T': 'S'); putu(((hawk_val_str_t*)v)->val.ptr, ((hawk_val_str_t*)v)->val.len); break;
		case HAWK_VAL_MBS: printf("M"); putb(((hawk_val_mbs_t*)v)->val.ptr, ((hawk_val_mbs_t*)v)->val.len); break;
		default: printf("?"); break;
	}
}

static void dumpc (hawk_val_t* c)
{
	int first = 1;
	switch (HAWK_RTX_GETVALTYPE(rtx, c))
	{
		case HAWK_VAL_NIL: printf("nil"); break;
		case HAWK_VAL_MAP:
		{
			hawk_val_map_itr_t itr;
			printf("m{");
			if (hawk_rtx_getfirstmapvalitr(rtx, c, &itr))
			{
				do
				{
					const hawk_oocs_t* k = HAWK_VAL_MAP_ITR_KEY(&itr);
					if (!first) printf(",");
					first = 0;
					putu(k->ptr, k->len); printf(":"); puttok((hawk_val_t*)HAWK_VAL_MAP_ITR_VAL(&itr));
				}
				while (hawk_rtx_getnextmapvalitr(rtx, c, &itr));
			}
			printf("}");
			break;
		}
		case HAWK_VAL_ARR:
		{
			hawk_arr_t* arr = ((hawk_val_arr_t*)c)->arr;
			hawk_oow_t j;
			printf("a{");
			for (j = 0; j < HAWK_ARR_SIZE(arr); j++)
			{
				if (!HAWK_ARR_SLOT(arr, j)) continue;
				if (!first) printf(",");
				first = 0;
				printf("%lu:", (unsigned long)j); puttok((hawk_val_t*)HAWK_ARR_DPTR(arr, j));
			}
			printf("}");
			break;
		}
		default: printf("other:"); puttok(c); break;
	}
}

static hawk_oow_t hex4 (const char* s, size_t n, hawk_uch_t* u)
{
	size_t i;
	for (i = 0; i < n / 4; i++) u[i] = (hawk_uch_t)((hexv(s[4 * i]) << 12) | (hexv(s[1 + 4 * i]) << 8) | (hexv(s[2 + 4 * i]) << 4) | hexv(s[3 + 4 * i]));
	return n / 4;
}

static void do_asortx (const char* fn, char mode, char** items, int n)
{
	hawk_fun_t* f = hawk_rtx_findfunwithbcstr(rtx, fn);
	hawk_val_t* x = HAWK_NULL, * r;
	static hawk_uch_t kb[4096];
	int i;

	if (!f) { printf("bad-op no such function\n"); return; }
	if (mode == 'm') x = hawk_rtx_makemapval(rtx);
	else if (mode == 'a') x = hawk_rtx_makearrval(rtx, -1);
	else if (mode == 'n') x = hawk_rtx_makenilval(rtx);
	else if (mode == 's') x = hawk_rtx_makeintval(rtx, 5);       /* a source that is neither nil nor a container */
	if (mode != 'k')
	{
		if (!x) die("asortx container");
		hawk_rtx_refupval(rtx, x);
		for (i = 0; i < n; i++)
		{
			char* eq = strchr(items[i], '=');
			hawk_val_t* v;
			if (items[i][0] == '-' || !eq) continue;
			v = mkval(eq + 1);
			if (mode == 'm')
			{
				hawk_oow_t kl = hex4(items[i], eq - items[i], kb);
				if (!hawk_rtx_setmapvalfld(rtx, x, kb, kl, v)) die("asortx setmapvalfld");
			}
			else if (mode == 'a')
			{
				if (!hawk_rtx_setarrvalfld(rtx, x, strtol(items[i], NULL, 10), v)) die("asortx setarrvalfld");
			}
			hawk_rtx_refdownval(rtx, v);
		}
		if (hawk_rtx_setgbl(rtx, gid_X, x) <= -1) { printf("ERR setgbl X\n"); hawk_rtx_refdownval(rtx, x); return; }
		hawk_rtx_refdownval(rtx, x);
		/* elements removed the way a script removes them */
		for (i = 0; i < n; i++)
		{
			hawk_val_t* k, * args[1], * rr;
			if (items[i][0] != '-') continue;
			if (mode == 'm') { hawk_oow_t kl = hex4(items[i] + 1, strlen(items[i] + 1), kb); k = hawk_rtx_makestrvalwithuchars(rtx, kb, kl); }
			else k = hawk_rtx_makeintval(rtx, strtol(items[i] + 1, NULL, 10));
			if (!k) die("asortx key");
			hawk_rtx_refupval(rtx, k);
			args[0] = k;
			rr = hawk_rtx_callfun(rtx, hawk_rtx_findfunwithbcstr(rtx, "dl"), args, 1);
			if (rr) { hawk_rtx_refupval(rtx, rr); hawk_rtx_refdownval(rtx, rr); }
			hawk_rtx_refdownval(rtx, k);
		}
	}
	printf("pre="); dumpc(hawk_rtx_getgbl(rtx, gid_X));
	printf(" preG="); dumpc(hawk_rtx_getgbl(rtx, gid_G));
	r = hawk_rtx_callfun(rtx, f, HAWK_NULL, 0);
	if (!r) printf(" rv=ERR");
	else
	{
		hawk_int_t rv;
		hawk_rtx_refupval(rtx, r);
		if (hawk_rtx_valtoint(rtx, r, &rv) <= -1) rv = -999;
		hawk_rtx_refdownval(rtx, r);
		printf(" rv=%lld", (long long)rv);
	}
	printf(" X="); dumpc(hawk_rtx_getgbl(rtx, gid_X));
	printf(" G="); dumpc(hawk_rtx_getgbl(rtx, gid_G));
	printf("\n");
}

int main (void)
{
	static char line[1 << 20];
	while (fgets(line, sizeof(line), stdin))
	{
		static char* w[4100]; int nw = 0; char* p = strtok(line, " \t\r\n");
		while (p && nw < 4100) { w[nw++] = p; p = strtok(NULL, " \t\r\n"); }
		if (nw == 0) { printf("bad-op\n"); continue; }
		if (!strcmp(w[0], "fold") && nw == 1) fold();
		else if (!strcmp(w[0], "cfg") && nw == 5) open_cfg(atoi(w[1]), atoi(w[2]), atoi(w[3]), atoi(w[4]));
		else if (!rtx) printf("bad-op no-cfg\n");
		else if (!strcmp(w[0], "desc") && nw == 2) desc(w[1]);
		else if (!strcmp(w[0], "cmp") && nw == 3) cmp(w[1], w[2]);
		else if (!strcmp(w[0], "asortx") && nw >= 3 && strchr("manks", w[2][0])) do_asortx(w[1], w[2][0], w + 3, nw - 3);
		else if (!strcmp(w[0], "asort") && nw >= 3 && (w[1][0] == 'v' || w[1][0] == 'k') && (w[2][0] == 'm' || w[2][0] == 'a' || w[2][0] == 'n')) do_asort(w[1][0] == 'k', w[2][0], w + 3, nw - 3);
		else printf("bad-op\n");
	}
	close_all();
	fflush(stdout);
	return 0;
}
