/* C06 submatch survey harness: for every "pattern<TAB>subject" line the submatch vectors (rm_so-rm_eo of groups 0..nsub, at most 10)
 * of TRE's backtracking matcher (bt), TRE's parallel matcher (pa) and glibc regexec (gl):  "bt=0-2,1-2 pa=0-2,1-2 gl=0-2,0-2";
 * "-" = no match; "CERR"/"GERR" when hawk_tre_compx / regcomp rejects the pattern.  Used by submatch_survey() in
 * vlib/props/c06.py: the two engines must agree; the distance to glibc (POSIX subexpression rules) is measured only. */
#include <hawk-std.h>
#include <hawk-tre.h>
#include "hawk-prv.h"
#include <stdio.h>
#include <string.h>
#include <regex.h>
static void show_tre(const char* tag, int x, hawk_tre_match_t* m, int n) {
	int i; printf("%s=", tag);
	if (x < 0) { printf("-"); return; }
	for (i = 0; i < n; i++) printf("%s%d-%d", i ? "," : "", (int)m[i].rm_so, (int)m[i].rm_eo);
}
int main(void) {
	static char line[8192]; hawk_t* hawk = hawk_openstd(0, HAWK_NULL); hawk_gem_t* gem = hawk_getgem(hawk);
	while (fgets(line, sizeof(line), stdin)) {
		size_t L = strlen(line); char* t; hawk_ooch_t up[4096], us[4096]; size_t pl, sl, i; hawk_tre_t* tre; regex_t gre; int nsub;
		hawk_tre_match_t m[10]; regmatch_t gm[10]; int x;
		while (L && (line[L-1] == '\n')) line[--L] = 0;
		t = strchr(line, '\t'); if (!t) { printf("bad\n"); continue; } *t++ = 0;
		pl = strlen(line); sl = strlen(t);
		for (i = 0; i < pl; i++) up[i] = (unsigned char)line[i]; for (i = 0; i < sl; i++) us[i] = (unsigned char)t[i];
		tre = hawk_tre_open(gem, 0);
		if (hawk_tre_compx(tre, up, pl, HAWK_NULL, HAWK_TRE_EXTENDED) <= -1) { printf("CERR\n"); hawk_tre_close(tre); continue; }
		if (regcomp(&gre, line, REG_EXTENDED) != 0) { printf("GERR\n"); hawk_tre_close(tre); continue; }
		nsub = (int)gre.re_nsub + 1; if (nsub > 10) nsub = 10;
		memset(m, 0xff, sizeof(m)); x = hawk_tre_execuchars(tre, us, sl, m, 10, HAWK_TRE_BACKTRACKING, gem); show_tre("bt", x, m, nsub); printf(" ");
		memset(m, 0xff, sizeof(m)); x = hawk_tre_execuchars(tre, us, sl, m, 10, 0, gem); show_tre("pa", x, m, nsub); printf(" gl=");
		if (regexec(&gre, t, 10, gm, 0) != 0) printf("-"); else for (i = 0; i < (size_t)nsub; i++) printf("%s%d-%d", i ? "," : "", (int)gm[i].rm_so, (int)gm[i].rm_eo);
		printf("\n");
		regfree(&gre); hawk_tre_close(tre);
	}
	return 0;
}
