/* C10 fault-injection harness: allocation-failure enumeration over the full life cycle
 *   hawk_openstdwithmmgr -> hawk_parsestd -> hawk_rtx_openstdwithbcstr -> exec -> hawk_rtx_close -> hawk_close
 * of the REAL code (linked with the freshly built sanitized libhawk.a).
 *
 * The only memory source given to hawk is a counting + injecting hawk_mmgr_t:
 *   mode none : never refuse (reference run; prints the request count per phase)
 *   mode one  : refuse exactly the k-th request (requests = alloc + realloc calls, 0-based)
 *   mode from : refuse every request from the k-th on
 *   mode every: refuse every k-th request (k = period >= 2): failures interleaved with successes, so that retry
 *               loops and second-chance paths see a refusal again after a grant
 *   environment OOMH_VARIANT (bits): 1 = open the runtime context through hawk_rtx_openstdwithucstr,
 *               2 = parse from memory (HAWK_PARSESTD_BCS) and deparse into a string; a directory `incdir` beside
 *               prog.hawk is set as HAWK_OPT_INCLUDEDIRS
 *   api <case|all> <mode> : direct enumeration of wrappers/containers/value constructors (harness/oom_api.h)
 * Every outstanding block is tracked (pointer -> serial,size); a free/realloc of a pointer that is
 * not outstanding is counted (badfree) and NOT forwarded.
 *
 * usage: oom_h sweep <workdir> <mode> <k_lo> <k_hi> <stride> [<dense_below> [<offset>]]
 *              (k in [k_lo,k_hi) with k < dense_below or (k - offset) % stride == 0)
 *        oom_h sweepl <workdir> <mode> <file>        (one k per line)
 *        oom_h ref   <workdir>
 *        oom_h ctor  <which> <mode> <k_lo> <k_hi>    (direct constructor probe, see below)
 *        oom_h ecs                                    (ecs line protocol on stdin)
 * <workdir> contains prog.hawk, data.txt (console input), optional inc.hawk; `ref` writes <workdir>/ref.out.
 * Each k runs in a forked child (cwd = private sub-directory) so that a sanitizer abort or a
 * signal ends only that case; the parent prints exactly one line per k:
 *   k=<k> mode=<m> pcs=<call chain of the first refused request> phase=<open|parse|rtxopen|exec|close|done>
 *         hit=<0|1> outcome=<class> errnum=<n> live=<n> badfree=<n> nreq=<n> failphase=<phase of the first refusal>
 *         [top=<fn>] [leak=<serial:size,...>] reqs=<request counter at the start of each phase> msg=<error message>
 * outcome classes: NOHIT (injection index never reached; run must equal the reference),
 *   ENOMEM (the phase in progress failed with HAWK_ENOMEM), OK_SAME (all phases succeeded, console
 *   output identical to the reference), SOFTERR (all phases succeeded, the output differs and contains a
 *   line starting with SOFTERR: the script itself observed getline/close returning -1, the documented way
 *   AWK reports an I/O-statement failure), OK_DIFF, ERR<errnum> (failed with another error number),
 *   ASAN:<kind>, UBSAN, SIG<n>, TIMEOUT, EXIT<n>.
 *
 * ctor probe (direct model correspondence for the extracted unwind tables), in-process, no fork:
 *   ctor <hawk_init|hawk_open|hawk_openstdwithmmgr> <none|one|from> <k_lo> <k_hi>
 *       calls the constructor with request k refused (one) / all requests from k on refused (from) and
 *       prints rc, the number of requests the call made, and the live blocks after the failed call
 *       or, on success, after the matching destructor (both must be 0).
 * ecs : line protocol of `hawkdrv oom` (new/ncat/ncpy/setcapa/setlen/clear with a scripted allocator)
 *       against the real hawk_becs_* functions.
 */
#define _GNU_SOURCE 1
#include <hawk.h>
#include <hawk-std.h>
#include <hawk-ecs.h>
#include <stdio.h>
#include <stdlib.h>
#include <string.h>
#include <signal.h>
#include <unistd.h>
#include <stdint.h>
#include <errno.h>
#include <fcntl.h>
#include <ftw.h>
#include <sys/mman.h>
#include <sys/stat.h>
#include <sys/wait.h>
#include <execinfo.h>
#include <link.h>

/* ------------------------------------------------------------------ injecting allocator */
enum { M_NONE, M_ONE, M_FROM, M_EVERY };
static int inj_mode = M_NONE;
static long inj_k = -1;
static long trace_at = -1; /* OOMH_TRACEAT=<serial>: print a stack trace when this request is made */
static int opt_tolerant, opt_keeperr, opt_showerr, opt_showout;
static int opt_variant; /* OOMH_VARIANT bits: 1 = open the rtx through the wide-string API, 2 = parse from memory and deparse to a string */

struct shared_t
{
	volatile int phase;     /* index into phase_names */
	volatile int hit;       /* an injected refusal happened */
	volatile long nreq;     /* requests so far */
	volatile long live;
	volatile long badfree;
	volatile int first_fail_phase;
	volatile long cur_k;    /* api mode: the k being tried (for the crash report) */
	void* pcs[32];          /* return addresses at the first refused request; symbolised by the parent (cached) */
	int npcs;
};
static struct shared_t* sh;

#define TBL_BITS 16
#define TBL_SIZE (1u << TBL_BITS)
struct blk_t { void* p; long serial; size_t size; };
static struct blk_t tbl[TBL_SIZE]; /* open addressing, tombstone = (void*)1 */
static long tbl_used;

extern void __sanitizer_print_stack_trace (void);
/* coverage builds (tools/coverage.py): the forked cases leave through _exit(), which skips the gcov writer */
extern void __gcov_dump (void) __attribute__((weak));
static void leave (int code) { if (__gcov_dump) __gcov_dump(); _exit(code); }
static int load_base_set;

/* the call chain of the first refused request is reported as return addresses relative to the load base of
 * this executable (`pcs=`); vlib/props/c10.py turns them into function names with one batched addr2line run.
 * (Symbolising here would make every fork copy the symbolizer's tables.) */
static uintptr_t load_base;
static int phdr_cb (struct dl_phdr_info* info, size_t size, void* data)
{
	if (!load_base_set) { load_base = (uintptr_t)info->dlpi_addr; load_base_set = 1; }
	return 1; /* first object = the executable */
}
static void pcs_text (char* out, size_t cap)
{
	int i; size_t len = 0;
	out[0] = '\0';
	for (i = 0; i < sh->npcs && len < cap - 20; i++)
		len += snprintf(out + len, cap - len, "%s%lx", i ? "," : "", (unsigned long)((uintptr_t)sh->pcs[i] - load_base));
	if (!out[0]) snprintf(out, cap, "-");
}

static unsigned hptr (void* p) { uintptr_t x = (uintptr_t)p; x ^= x >> 17; x *= 0x9E3779B97F4A7C15ull; return (unsigned)(x >> (64 - TBL_BITS)); }
static struct blk_t* tbl_find (void* p)
{
	unsigned i = hptr(p), n;
	for (n = 0; n < TBL_SIZE; n++, i = (i + 1) & (TBL_SIZE - 1))
	{
		if (tbl[i].p == p) return &tbl[i];
		if (tbl[i].p == NULL) return NULL;
	}
	return NULL;
}
static void tbl_add (void* p, long serial, size_t size)
{
	unsigned i = hptr(p), n;
	if (tbl_used >= TBL_SIZE - 16) { fprintf(stderr, "oom_h: block table full\n"); leave(90); }
	for (n = 0; n < TBL_SIZE; n++, i = (i + 1) & (TBL_SIZE - 1))
	{
		if (tbl[i].p == NULL || tbl[i].p == (void*)1) { tbl[i].p = p; tbl[i].serial = serial; tbl[i].size = size; tbl_used++; sh->live++; return; }
	}
}
static void tbl_del (struct blk_t* b) { b->p = (void*)1; tbl_used--; sh->live--; }

static int refuse (void)
{
	long me = sh->nreq++;
	if (me == trace_at) { fprintf(stderr, "---- request #%ld made at:\n", me); __sanitizer_print_stack_trace(); }
	if ((inj_mode == M_ONE && me == inj_k) || (inj_mode == M_FROM && me >= inj_k) ||
	    (inj_mode == M_EVERY && inj_k >= 2 && (me % inj_k) == inj_k - 1))
	{
		if (!sh->hit) { sh->hit = 1; sh->first_fail_phase = sh->phase; sh->npcs = backtrace((void**)sh->pcs, 32); }
		return 1;
	}
	return 0;
}

static void* i_alloc (hawk_mmgr_t* m, hawk_oow_t n)
{
	void* p;
	long serial = sh->nreq;
	if (refuse()) return NULL;
	p = malloc(n ? n : 1);
	if (p) tbl_add(p, serial, n);
	return p;
}
static void* i_realloc (hawk_mmgr_t* m, void* q, hawk_oow_t n)
{
	void* p; struct blk_t* b = NULL;
	long serial = sh->nreq;
	if (q)
	{
		b = tbl_find(q);
		if (!b) { sh->badfree++; refuse(); return NULL; }
	}
	if (refuse()) return NULL;
	p = realloc(q, n ? n : 1);
	if (p)
	{
		if (b) tbl_del(b);
		tbl_add(p, serial, n);
	}
	return p;
}
static void i_free (hawk_mmgr_t* m, void* q)
{
	struct blk_t* b;
	if (!q) return;
	b = tbl_find(q);
	if (!b)
	{
		sh->badfree++;
		fprintf(stderr, "oom_h: free of a pointer that is not outstanding: %p\n", q);
		__sanitizer_print_stack_trace();
		return;
	}
	tbl_del(b);
	free(q);
}
static hawk_mmgr_t inj_mmgr = { i_alloc, i_realloc, i_free, NULL };

static int mode_of (const char* m) { return !strcmp(m, "one") ? M_ONE : !strcmp(m, "from") ? M_FROM : !strcmp(m, "every") ? M_EVERY : M_NONE; }
static const char* mode_name (int m) { return m == M_ONE ? "one" : m == M_FROM ? "from" : m == M_EVERY ? "every" : "none"; }

/* ------------------------------------------------------------------ life cycle */
static const char* phase_names[] = { "open", "parse", "rtxopen", "exec", "close", "done" };
enum { PH_OPEN, PH_PARSE, PH_RTXOPEN, PH_EXEC, PH_CLOSE, PH_DONE };

struct result_t
{
	int failed_phase; /* -1: none */
	int errnum;
	long reqs_at[6];   /* request counter when each phase began */
};

static int same_file (const char* a, const char* b)
{
	FILE* fa = fopen(a, "rb"), * fb = fopen(b, "rb");
	int same = 1;
	if (!fa || !fb) { if (fa) fclose(fa); if (fb) fclose(fb); return 0; }
	for (;;)
	{
		int ca = fgetc(fa), cb = fgetc(fb);
		if (ca != cb) { same = 0; break; }
		if (ca == EOF) break;
	}
	fclose(fa); fclose(fb);
	return same;
}

static int has_softerr (const char* a)
{
	FILE* f = fopen(a, "r"); char ln[512]; int hit = 0;
	if (!f) return 0;
	while (fgets(ln, sizeof(ln), f)) if (!strncmp(ln, "SOFTERR", 7)) { hit = 1; break; }
	fclose(f);
	return hit;
}

static char errmsg_buf[160];
static void keep_msg (const hawk_bch_t* m)
{
	size_t i;
	for (i = 0; m && m[i] && i < sizeof(errmsg_buf) - 1; i++) errmsg_buf[i] = (m[i] == ' ' || m[i] == '\n' || m[i] == '\t') ? '_' : m[i];
	errmsg_buf[i] = '\0';
}

static void life_cycle (struct result_t* r)
{
	hawk_t* hawk = HAWK_NULL;
	hawk_rtx_t* rtx = HAWK_NULL;
	hawk_val_t* retv = HAWK_NULL;
	hawk_errnum_t errnum = HAWK_ENOERR;
	hawk_parsestd_t psin[2];
	hawk_bch_t* icf[2];
	hawk_bch_t* ocf[2];

	r->failed_phase = -1; r->errnum = 0;

	sh->phase = PH_OPEN; r->reqs_at[PH_OPEN] = sh->nreq;
	hawk = hawk_openstdwithmmgr(&inj_mmgr, 0, hawk_get_cmgr_by_id(HAWK_CMGR_UTF8), &errnum);
	if (!hawk) { r->failed_phase = PH_OPEN; r->errnum = errnum; goto done; }
	if (!opt_tolerant)
	{
		/* HAWK_TOLERANT (part of HAWK_MODERN) turns a failing print/printf into the value -1 instead of a
		 * failing run by design; the property is evaluated with that trait off so that an allocation failure
		 * inside an output statement must surface as an error of the call in progress */
		int trait;
		hawk_getopt(hawk, HAWK_OPT_TRAIT, &trait);
		trait &= ~HAWK_TOLERANT;
		hawk_setopt(hawk, HAWK_OPT_TRAIT, &trait);
	}

	sh->phase = PH_PARSE; r->reqs_at[PH_PARSE] = sh->nreq;
	{
		struct stat stb;
		if (stat("incdir", &stb) == 0)
		{
			/* @include "x" is also looked up in the include directories (hawk_stdgetfileindirs) */
			static const hawk_ooch_t incdir[] = { 'i','n','c','d','i','r',0 };
			if (hawk_setopt(hawk, HAWK_OPT_INCLUDEDIRS, incdir) <= -1) { r->failed_phase = PH_PARSE; r->errnum = hawk_geterrnum(hawk); keep_msg(hawk_geterrbmsg(hawk)); goto close_all; }
		}
	}
	memset(psin, 0, sizeof(psin));
	if (opt_variant & 2)
	{
		/* source from memory, deparsed source into a string owned by the caller */
		static char srcbuf[1 << 16]; hawk_parsestd_t psout; size_t n = 0; FILE* f = fopen("prog.hawk", "r");
		if (f) { n = fread(srcbuf, 1, sizeof(srcbuf) - 1, f); fclose(f); }
		psin[0].type = HAWK_PARSESTD_BCS; psin[0].u.bcs.ptr = srcbuf; psin[0].u.bcs.len = n;
		psin[1].type = HAWK_PARSESTD_NULL;
		memset(&psout, 0, sizeof(psout)); psout.type = HAWK_PARSESTD_OOCS;
		if (hawk_parsestd(hawk, psin, &psout) <= -1) { r->failed_phase = PH_PARSE; r->errnum = hawk_geterrnum(hawk); keep_msg(hawk_geterrbmsg(hawk)); goto close_all; }
		if (psout.u.oocs.ptr) hawk_freemem(hawk, psout.u.oocs.ptr);
	}
	else
	{
		psin[0].type = HAWK_PARSESTD_FILEB;
		psin[0].u.fileb.path = "prog.hawk";
		psin[0].u.fileb.cmgr = HAWK_NULL;
		psin[1].type = HAWK_PARSESTD_NULL;
		if (hawk_parsestd(hawk, psin, HAWK_NULL) <= -1) { r->failed_phase = PH_PARSE; r->errnum = hawk_geterrnum(hawk); keep_msg(hawk_geterrbmsg(hawk)); goto close_all; }
	}

	sh->phase = PH_RTXOPEN; r->reqs_at[PH_RTXOPEN] = sh->nreq;
	if (opt_variant & 1)
	{
		static hawk_uch_t uid[] = { 'o','o','m','h',0 }, uin[] = { 'd','a','t','a','.','t','x','t',0 }, uout[] = { 'c','o','n','s','o','l','e','.','o','u','t',0 };
		hawk_uch_t* uicf[2]; hawk_uch_t* uocf[2];
		uicf[0] = uin; uicf[1] = HAWK_NULL; uocf[0] = uout; uocf[1] = HAWK_NULL;
		rtx = hawk_rtx_openstdwithucstr(hawk, 0, uid, uicf, uocf, HAWK_NULL);
	}
	else
	{
		icf[0] = "data.txt"; icf[1] = HAWK_NULL;
		ocf[0] = "console.out"; ocf[1] = HAWK_NULL;
		rtx = hawk_rtx_openstdwithbcstr(hawk, 0, "oomh", icf, ocf, HAWK_NULL);
	}
	if (!rtx) { r->failed_phase = PH_RTXOPEN; r->errnum = hawk_geterrnum(hawk); keep_msg(hawk_geterrbmsg(hawk)); goto close_all; }

	sh->phase = PH_EXEC; r->reqs_at[PH_EXEC] = sh->nreq;
	retv = hawk_rtx_execwithbcstrarr(rtx, HAWK_NULL, 0);
	if (!retv) { r->failed_phase = PH_EXEC; r->errnum = hawk_rtx_geterrnum(rtx); keep_msg(hawk_rtx_geterrbmsg(rtx)); }
	else hawk_rtx_refdownval(rtx, retv);

close_all:
	sh->phase = PH_CLOSE; r->reqs_at[PH_CLOSE] = sh->nreq;
	if (rtx) hawk_rtx_close(rtx);
	if (hawk) hawk_close(hawk);
done:
	sh->phase = PH_DONE; r->reqs_at[PH_DONE] = sh->nreq;
}

static void leak_list (char* buf, size_t cap)
{
	unsigned i; size_t len = 0; int n = 0;
	buf[0] = '\0';
	for (i = 0; i < TBL_SIZE && n < 6; i++)
	{
		if (tbl[i].p && tbl[i].p != (void*)1)
		{
			len += snprintf(buf + len, cap - len, "%s%ld:%lu", n ? "," : "", tbl[i].serial, (unsigned long)tbl[i].size);
			n++;
		}
	}
}

/* child body: returns the line (without k/mode prefix) through the pipe fd */
static void child_run (int out_fd, const char* workdir, int is_ref)
{
	struct result_t r;
	char line[2048], leaks[256];
	const char* outcome; char ocbuf[32];
	int same;

	alarm(30);
	life_cycle(&r);
	same = is_ref ? 1 : same_file("console.out", "../ref.out");
	if (opt_showout)
	{
		FILE* f = fopen("console.out", "r"); int c;
		fprintf(stderr, "---- console output:\n");
		if (f) { while ((c = fgetc(f)) != EOF) fputc(c, stderr); fclose(f); }
		fprintf(stderr, "---- end\n");
	}
	if (r.failed_phase >= 0)
	{
		if (r.errnum == HAWK_ENOMEM) outcome = "ENOMEM";
		else { snprintf(ocbuf, sizeof(ocbuf), "ERR%d", r.errnum); outcome = ocbuf; }
	}
	else if (!sh->hit) outcome = same ? "NOHIT" : "NOHIT_DIFF";
	else outcome = same ? "OK_SAME" : has_softerr("console.out") ? "SOFTERR" : "OK_DIFF";
	leak_list(leaks, sizeof(leaks));
	snprintf(line, sizeof(line), "phase=%s hit=%d outcome=%s errnum=%d live=%ld badfree=%ld nreq=%ld failphase=%s%s%s reqs=%ld,%ld,%ld,%ld,%ld,%ld msg=%s\n",
		phase_names[r.failed_phase >= 0 ? r.failed_phase : PH_DONE], sh->hit, outcome, r.errnum, (long)sh->live, (long)sh->badfree, (long)sh->nreq,
		sh->hit ? phase_names[sh->first_fail_phase] : "-",
		leaks[0] ? " leak=" : "", leaks,
		r.reqs_at[0], r.reqs_at[1], r.reqs_at[2], r.reqs_at[3], r.reqs_at[4], r.reqs_at[5], errmsg_buf[0] ? errmsg_buf : "-");
	if (write(out_fd, line, strlen(line)) < 0) leave(91);
}

static int rm_cb (const char* p, const struct stat* sb, int flag, struct FTW* f) { remove(p); return 0; }

/* first hawk frame of a sanitizer report: "#N 0x... in <fn> <file>:<line>" skipping allocator/harness/libc frames */
static void top_frame (const char* errfile, char* kind, size_t kcap, char* top, size_t tcap)
{
	FILE* f = fopen(errfile, "r");
	char ln[1024];
	kind[0] = top[0] = '\0';
	if (!f) return;
	while (fgets(ln, sizeof(ln), f))
	{
		char* p;
		if (!kind[0] && (p = strstr(ln, "ERROR: AddressSanitizer: ")))
		{
			p += strlen("ERROR: AddressSanitizer: ");
			snprintf(kind, kcap, "%.*s", (int)strcspn(p, " \n"), p);
		}
		if (!kind[0] && (p = strstr(ln, "runtime error: ")))
		{
			snprintf(kind, kcap, "ubsan");
		}
		if (!top[0] && (p = strstr(ln, " in ")) && strstr(ln, "    #"))
		{
			char fn[128]; const char* q = p + 4;
			snprintf(fn, sizeof(fn), "%.*s", (int)strcspn(q, " \n"), q);
			if (strncmp(fn, "hawk_", 5) == 0 || strstr(ln, "/lib/") )
			{
				/* skip pure allocator wrappers so that the frame names the caller that misuses the block */
				if (strcmp(fn, "hawk_gem_freemem") && strcmp(fn, "hawk_gem_allocmem") && strcmp(fn, "hawk_gem_reallocmem") &&
				    strcmp(fn, "hawk_gem_callocmem") && strncmp(fn, "__", 2) && strcmp(fn, "free") && strcmp(fn, "malloc") &&
				    strncmp(fn, "i_", 2) && strcmp(fn, "hawk_rtx_freemem") && strcmp(fn, "hawk_freemem"))
					snprintf(top, tcap, "%s", fn);
			}
		}
	}
	fclose(f);
}

static int run_case (const char* workdir, int mode, long k, int is_ref)
{
	int pfd[2]; pid_t pid; int st; char sub[512], errfile[600]; char line[2048], site[512]; ssize_t n; size_t len = 0;
	const char* mname = mode_name(mode);

	memset((void*)sh, 0, sizeof(*sh));
	snprintf(sub, sizeof(sub), "%s/w.%d", workdir, (int)getpid());
	snprintf(errfile, sizeof(errfile), "%s/stderr.txt", sub);
	nftw(sub, rm_cb, 16, FTW_DEPTH | FTW_PHYS);
	if (mkdir(sub, 0700) < 0) { perror("mkdir"); return -1; }
	if (pipe(pfd) < 0) return -1;
	fflush(stdout);
	pid = fork();
	if (pid == 0)
	{
		int efd;
		close(pfd[0]);
		if (chdir(sub) < 0) leave(92);
		if (symlink("../prog.hawk", "prog.hawk") < 0 || symlink("../data.txt", "data.txt") < 0) leave(93);
		symlink("../inc.hawk", "inc.hawk"); symlink("../incdir", "incdir");
		efd = open("stderr.txt", O_WRONLY | O_CREAT | O_TRUNC, 0600);
		if (efd >= 0) { dup2(efd, 2); close(efd); }
		{ int nfd = open("/dev/null", O_RDWR); if (nfd >= 0) { dup2(nfd, 0); dup2(nfd, 1); close(nfd); } }
		inj_mode = mode; inj_k = k;
		child_run(pfd[1], workdir, is_ref);
		if (is_ref)
		{
			/* a program that fails before it prints anything (corpus family e*: the unconstrained run ends in a
			 * non-memory error) has no console file: its reference output is empty */
			if (rename("console.out", "../ref.out") < 0) { int fd = open("../ref.out", O_WRONLY | O_CREAT | O_TRUNC, 0600); if (fd < 0) leave(94); close(fd); }
		}
		leave(0);
	}
	close(pfd[1]);
	while ((n = read(pfd[0], line + len, sizeof(line) - 1 - len)) > 0) len += n;
	line[len] = '\0';
	close(pfd[0]);
	waitpid(pid, &st, 0);
	if (sh->hit) pcs_text(site, sizeof(site)); else strcpy(site, "-");
	if (WIFEXITED(st) && WEXITSTATUS(st) == 0 && len > 0)
	{
		printf("k=%ld mode=%s pcs=%s %s", k, mname, site, line);
	}
	else
	{
		char kind[64], top[128], oc[128];
		top_frame(errfile, kind, sizeof(kind), top, sizeof(top));
		if (WIFSIGNALED(st)) snprintf(oc, sizeof(oc), WTERMSIG(st) == SIGALRM ? "TIMEOUT" : "SIG%d", WTERMSIG(st));
		else if (WEXITSTATUS(st) == 66 || (kind[0] && strcmp(kind, "ubsan"))) snprintf(oc, sizeof(oc), "ASAN:%s", kind[0] ? kind : "?");
		else if (WEXITSTATUS(st) == 67 || !strcmp(kind, "ubsan")) snprintf(oc, sizeof(oc), "UBSAN");
		else snprintf(oc, sizeof(oc), "EXIT%d", WEXITSTATUS(st));
		printf("k=%ld mode=%s phase=%s hit=%d outcome=%s errnum=-1 live=%ld badfree=%ld nreq=%ld failphase=%s top=%s pcs=%s\n",
			k, mname, phase_names[sh->phase], sh->hit, oc, (long)sh->live, (long)sh->badfree, (long)sh->nreq,
			sh->hit ? phase_names[sh->first_fail_phase] : "-", top[0] ? top : "?", site);
		if (opt_keeperr)
		{
			FILE* f = fopen(errfile, "r"); char ln[1024]; int c = 0;
			if (f) { while (fgets(ln, sizeof(ln), f) && c++ < 60) printf("  | %s", ln); fclose(f); }
		}
	}
	if (opt_showerr && !(WIFEXITED(st) && WEXITSTATUS(st) == 0))
	{
		FILE* f = fopen(errfile, "r"); char ln[1024]; int c = 0;
		if (f) { while (fgets(ln, sizeof(ln), f) && c++ < 80) fprintf(stderr, "%s", ln); fclose(f); }
	}
	else if (opt_showerr)
	{
		FILE* f = fopen(errfile, "r"); char ln[1024]; int c = 0;
		if (f) { while (fgets(ln, sizeof(ln), f) && c++ < 200) fprintf(stderr, "%s", ln); fclose(f); }
	}
	nftw(sub, rm_cb, 16, FTW_DEPTH | FTW_PHYS);
	return 0;
}

/* ------------------------------------------------------------------ direct API cases */
#include "oom_api.h"

static int api_run (const char* which, int mode, long kmax)
{
	size_t ci; int ran = 0;
	for (ci = 0; ci < sizeof(api_cases) / sizeof(api_cases[0]); ci++)
	{
		struct api_case_t* c = &api_cases[ci]; pid_t pid; int st;
		if (strcmp(which, "all") && strcmp(which, c->name)) continue;
		ran++;
		fflush(stdout);
		memset((void*)sh, 0, sizeof(*sh));
		pid = fork();
		if (pid == 0)
		{
			static hawk_gem_t gem; struct api_ctx a; long k; hawk_errnum_t en;
			alarm(120);
			memset(&gem, 0, sizeof(gem)); gem.mmgr = &inj_mmgr; gem.cmgr = hawk_get_cmgr_by_id(HAWK_CMGR_UTF8);
			memset(&a, 0, sizeof(a)); a.gem = &gem;
			inj_mode = M_NONE;
			if (c->need_rtx)
			{
				hawk_parsestd_t psin[2]; static const char src[] = "function addup(a, b) { x[a] = b; return length(a) + b; } BEGIN { y = 1 }";
				a.hawk = hawk_openstdwithmmgr(&inj_mmgr, 0, gem.cmgr, &en);
				if (!a.hawk) leave(95);
				memset(psin, 0, sizeof(psin)); psin[0].type = HAWK_PARSESTD_BCS; psin[0].u.bcs.ptr = (hawk_bch_t*)src; psin[0].u.bcs.len = sizeof(src) - 1; psin[1].type = HAWK_PARSESTD_NULL;
				if (hawk_parsestd(a.hawk, psin, HAWK_NULL) <= -1) leave(95);
				a.rtx = hawk_rtx_openstdwithbcstr(a.hawk, 0, "api", HAWK_NULL, HAWK_NULL, HAWK_NULL);
				if (!a.rtx) leave(95);
			}
			for (k = (mode == M_EVERY ? 2 : 0); k < kmax; k++)
			{
				long live0 = sh->live; int rc;
				sh->nreq = 0; sh->hit = 0; a.errnum = 0; api_msg[0] = '\0';
				inj_mode = mode; inj_k = k; sh->cur_k = k;
				rc = c->fn(&a);
				inj_mode = M_NONE;
				printf("api=%s scope=%s mode=%s k=%ld rc=%s errnum=%d live=%ld badfree=%ld hit=%d nreq=%ld%s%s\n", c->name, c->need_rtx ? "rtx" : "gem", mode_name(mode), k,
					rc == 0 ? "ok" : rc == -1 ? "fail" : "BROKEN", a.errnum, (long)(sh->live - live0), (long)sh->badfree, sh->hit, (long)sh->nreq,
					api_msg[0] ? " msg=" : "", api_msg);
				fflush(stdout);
				if (mode == M_NONE || (!sh->hit && mode != M_EVERY)) break;
				if (mode == M_EVERY && k >= 48) break;
			}
			/* the objects the cases worked on must still close cleanly */
			if (a.rtx) hawk_rtx_close(a.rtx);
			if (a.hawk) hawk_close(a.hawk);
			printf("api=%s mode=%s k=end rc=closed errnum=0 live=%ld badfree=%ld hit=0 nreq=0\n", c->name, mode_name(mode), (long)sh->live, (long)sh->badfree);
			fflush(stdout);
			leave(0);
		}
		waitpid(pid, &st, 0);
		if (!(WIFEXITED(st) && WEXITSTATUS(st) == 0))
			printf("api=%s mode=%s k=%ld rc=CRASH errnum=-1 live=0 badfree=0 hit=%d nreq=%ld status=%s%d\n", c->name, mode_name(mode), (long)sh->cur_k, sh->hit, (long)sh->nreq,
				WIFSIGNALED(st) ? "sig" : "exit", WIFSIGNALED(st) ? WTERMSIG(st) : WEXITSTATUS(st));
	}
	return ran ? 0 : 2;
}

/* ------------------------------------------------------------------ direct constructor probes */
static int ctor_probe (const char* which, int mode, long k)
{
	static struct shared_t local;
	static hawk_prm_t prm; static int have_prm;
	int rc = 0; long live_end;
	const char* mname = mode_name(mode);
	sh = &local;
	if (!have_prm)
	{
		/* take the primitives of a standard interpreter */
		hawk_t* tmp = hawk_openstd(0, HAWK_NULL);
		if (!tmp) return 2;
		hawk_getprm(tmp, &prm);
		hawk_close(tmp);
		have_prm = 1;
	}
	memset(&local, 0, sizeof(local));
	inj_mode = mode; inj_k = k;
	if (!strcmp(which, "hawk_init"))
	{
		/* hawk_t is opaque in the public header: over-allocate */
		void* mem = calloc(1, 1 << 16);
		rc = hawk_init((hawk_t*)mem, &inj_mmgr, hawk_get_cmgr_by_id(HAWK_CMGR_UTF8), &prm);
		if (rc > -1) { inj_mode = M_NONE; hawk_fini((hawk_t*)mem); }
		free(mem);
	}
	else if (!strcmp(which, "hawk_open"))
	{
		hawk_errnum_t e = HAWK_ENOERR;
		hawk_t* h = hawk_open(&inj_mmgr, 0, hawk_get_cmgr_by_id(HAWK_CMGR_UTF8), &prm, &e);
		if (!h) rc = -1;
		else { inj_mode = M_NONE; hawk_close(h); }
	}
	else if (!strcmp(which, "hawk_openstdwithmmgr"))
	{
		hawk_errnum_t e = HAWK_ENOERR;
		hawk_t* h = hawk_openstdwithmmgr(&inj_mmgr, 0, hawk_get_cmgr_by_id(HAWK_CMGR_UTF8), &e);
		if (!h) rc = -1;
		else { inj_mode = M_NONE; hawk_close(h); }
	}
	else return 2;
	live_end = sh->live;
	/* nreq = requests made by the constructor call itself (the destructor makes none) */
	printf("ctor=%s mode=%s k=%ld rc=%s nreq=%ld live=%ld badfree=%ld\n",
		which, mname, k, rc <= -1 ? "fail" : "ok", (long)sh->nreq, live_end, (long)sh->badfree);
	return 0;
}

/* ------------------------------------------------------------------ ecs line protocol (model correspondence) */
static const char* orc = "";
static void* e_alloc (hawk_mmgr_t* m, hawk_oow_t n) { if (*orc) { char c = *orc++; if (c == 'f') return NULL; } return malloc(n ? n : 1); }
static void* e_realloc (hawk_mmgr_t* m, void* p, hawk_oow_t n) { if (*orc) { char c = *orc++; if (c == 'f') return NULL; } return realloc(p, n ? n : 1); }
static void e_free (hawk_mmgr_t* m, void* p) { free(p); }
static hawk_mmgr_t e_mmgr = { e_alloc, e_realloc, e_free, NULL };

static void ecs_dump (hawk_becs_t* b, hawk_oow_t ret)
{
	hawk_oow_t i;
	if (ret == (hawk_oow_t)-1) printf("ret=ENOMEM"); else printf("ret=%lu", (unsigned long)ret);
	printf(" len=%lu capa=%lu ptr=%d s=", (unsigned long)HAWK_BECS_LEN(b), (unsigned long)HAWK_BECS_CAPA(b), HAWK_BECS_PTR(b) ? 1 : 0);
	for (i = 0; i < HAWK_BECS_LEN(b); i++) putchar(HAWK_BECS_CHAR(b, i) == ' ' ? '_' : HAWK_BECS_CHAR(b, i));
	/* the terminator the C code maintains must be in place */
	if (HAWK_BECS_PTR(b) && HAWK_BECS_CHAR(b, HAWK_BECS_LEN(b)) != '\0') printf(" NOT-TERMINATED");
	putchar('\n');
}

static int ecs_main (void)
{
	static hawk_gem_t gem; static hawk_becs_t b; int inited = 0; unsigned long ctr = 0;
	char line[4096], op[32], a1[64], a2[4000];
	memset(&gem, 0, sizeof(gem)); gem.mmgr = &e_mmgr; gem.cmgr = hawk_get_cmgr_by_id(HAWK_CMGR_UTF8);
	while (fgets(line, sizeof(line), stdin))
	{
		int n = sscanf(line, "%31s %63s %3999s", op, a1, a2);
		if (n < 1) { printf("bad-op\n"); continue; }
		orc = (n >= 3 && strcmp(a2, "-")) ? a2 : "";
		if (!strcmp(op, "new") && n >= 3)
		{
			if (inited) hawk_becs_fini(&b);
			if (hawk_becs_init(&b, &gem, strtoul(a1, NULL, 10)) <= -1) { memset(&b, 0, sizeof(b)); b.gem = &gem; ecs_dump(&b, (hawk_oow_t)-1); }
			else ecs_dump(&b, 0);
			inited = 1;
		}
		else if (!inited) printf("bad-op\n");
		else if ((!strcmp(op, "ncat") || !strcmp(op, "ncpy")) && n >= 3)
		{
			unsigned long len = strtoul(a1, NULL, 10), i; hawk_oow_t r;
			char* buf = malloc(len + 1);
			for (i = 0; i < len; i++) buf[i] = 'a' + (ctr + i) % 26;
			ctr += len;
			r = !strcmp(op, "ncat") ? hawk_becs_ncat(&b, buf, len) : hawk_becs_ncpy(&b, buf, len);
			free(buf);
			ecs_dump(&b, r);
		}
		else if (!strcmp(op, "nrcat") && n >= 3)
		{
			unsigned long len = strtoul(a1, NULL, 10), i; hawk_oow_t r;
			char* buf = malloc(len + 1);
			for (i = 0; i < len; i++) buf[i] = 'a' + (ctr + i) % 26;
			ctr += len;
			r = hawk_becs_nrcat(&b, buf, len);
			free(buf);
			ecs_dump(&b, r);
		}
		else if (!strcmp(op, "nccat") && n >= 3) ecs_dump(&b, hawk_becs_nccat(&b, 'z', strtoul(a1, NULL, 10)));
		else if (!strcmp(op, "del") && n >= 3) { orc = ""; ecs_dump(&b, hawk_becs_del(&b, strtoul(a1, NULL, 10), strtoul(a2, NULL, 10))); }
		else if (!strcmp(op, "amend"))
		{
			/* amend <pos> <len> <n> <orc> */
			unsigned long pos, alen, len, i; char o4[4000]; hawk_oow_t r; char* buf;
			if (sscanf(line, "%*s %lu %lu %lu %3999s", &pos, &alen, &len, o4) != 4) { printf("bad-op\n"); continue; }
			orc = strcmp(o4, "-") ? o4 : "";
			buf = malloc(len + 1);
			for (i = 0; i < len; i++) buf[i] = 'a' + (ctr + i) % 26;
			buf[len] = '\0'; ctr += len;
			r = hawk_becs_amend(&b, pos, alen, buf);
			free(buf);
			ecs_dump(&b, r);
		}
		else if (!strcmp(op, "setcapa") && n >= 3) ecs_dump(&b, hawk_becs_setcapa(&b, strtoul(a1, NULL, 10)));
		else if (!strcmp(op, "setlen") && n >= 3) ecs_dump(&b, hawk_becs_setlen(&b, strtoul(a1, NULL, 10)));
		else if (!strcmp(op, "clear")) { hawk_becs_clear(&b); ecs_dump(&b, 0); }
		else printf("bad-op\n");
		orc = "";
	}
	if (inited) hawk_becs_fini(&b);
	return 0;
}

int main (int argc, char* argv[])
{
	const char* t = getenv("OOMH_TRACEAT");
	if (t) trace_at = atol(t);
	opt_tolerant = !!getenv("OOMH_TOLERANT"); opt_keeperr = !!getenv("OOMH_KEEPERR"); opt_showerr = !!getenv("OOMH_SHOWERR"); opt_showout = !!getenv("OOMH_SHOWOUT");
	if (getenv("OOMH_VARIANT")) opt_variant = atoi(getenv("OOMH_VARIANT"));
	/* ENVIRON is built from the process environment with one allocation group per variable:
	 * make the request numbering independent of the caller's environment */
	clearenv();
	setenv("OOMH", "1", 1); setenv("LC_ALL", "C.UTF-8", 1);
	setvbuf(stdout, NULL, _IOLBF, 0);
	if (argc >= 2 && !strcmp(argv[1], "ecs")) return ecs_main();
	if (argc >= 4 && !strcmp(argv[1], "api"))
	{
		/* api <case|all> <none|one|from|every> [<kmax>] */
		sh = mmap(NULL, sizeof(*sh), PROT_READ | PROT_WRITE, MAP_SHARED | MAP_ANONYMOUS, -1, 0);
		if (sh == MAP_FAILED) { perror("mmap"); return 2; }
		return api_run(argv[2], mode_of(argv[3]), argc >= 5 ? atol(argv[4]) : 100000);
	}
	if (argc >= 6 && !strcmp(argv[1], "ctor"))
	{
		/* ctor <which> <none|one|from> <k_lo> <k_hi> */
		int mode = mode_of(argv[3]);
		long lo = atol(argv[4]), hi = atol(argv[5]), k;
		for (k = lo; k < hi; k++) { int x = ctor_probe(argv[2], mode, k); if (x) return x; }
		return 0;
	}
	sh = mmap(NULL, sizeof(*sh), PROT_READ | PROT_WRITE, MAP_SHARED | MAP_ANONYMOUS, -1, 0);
	if (sh == MAP_FAILED) { perror("mmap"); return 2; }
	{ void* w[4]; (void)backtrace(w, 4); } /* make libgcc's unwinder resident before forking */
	dl_iterate_phdr(phdr_cb, NULL);
	if (argc >= 3 && !strcmp(argv[1], "ref")) return run_case(argv[2], M_NONE, -1, 1) < 0 ? 2 : 0;
	if (argc >= 7 && !strcmp(argv[1], "sweep"))
	{
		int mode = mode_of(argv[3]);
		long lo = atol(argv[4]), hi = atol(argv[5]), stride = atol(argv[6]), dense = argc >= 8 ? atol(argv[7]) : 0, k;
		long off = argc >= 9 ? atol(argv[8]) : 0;
		if (stride < 1) stride = 1;
		for (k = lo; k < hi; k++)
		{
			if (k >= dense && ((k - off) % stride) != 0) continue;
			if (run_case(argv[2], mode, k, 0) < 0) return 2;
		}
		return 0;
	}
	if (argc >= 5 && !strcmp(argv[1], "sweepl"))
	{
		/* sweepl <workdir> <one|from> <file with one k per line> */
		int mode = mode_of(argv[3]);
		FILE* f = fopen(argv[4], "r"); char ln[64];
		if (!f) { perror(argv[4]); return 2; }
		while (fgets(ln, sizeof(ln), f)) if (ln[0] >= '0' && ln[0] <= '9') { if (run_case(argv[2], mode, atol(ln), 0) < 0) return 2; }
		fclose(f);
		return 0;
	}
	fprintf(stderr, "usage: oom_h ref <workdir> | sweep <workdir> <one|from> <k_lo> <k_hi> <stride> [<dense_below> [<offset>]] | ctor <fn> <none|one|from> <k_lo> <k_hi> | ecs\n");
	return 2;
}
