/* C09 (round 5) API-ownership harness: SEVERAL hawk_t objects (each with its own counting, owner-tagging
 * memory manager) and several hawk_rtx_t per hawk_t, driven interleaved in one thread by the line protocol of
 * lean/HawkModel/Drv/CtxApi.lean.  After every op it prints the op's result followed by " | " and the observable
 * state of EVERY live object (error number per object, parsed program, haltall, callback chains, added globals and
 * functions, option, extension area, per runtime: error number, exit level, run-depth limit copied at open, callback
 * chain, global g0, extension area, every application handle with its reference count, outstanding strings) and,
 * after " # ", per-hawk allocator accounting that the Lean model does not predict (live blocks, allocation and free
 * counts, frees through a foreign manager, frees of unknown blocks); the python check evaluates the property on it.
 *
 * ops:  hopen H | hclose H | hclear H | hparse H P | hpushecb H E | hpopecb H | haddgbl H N | hdelgbl H N |
 *       haddfnc H N | hdelfnc H N | hseterr H n | hhaltall H | hsetopt H n | hxtn H n
 *       ropen H R | rclose H R | rpushecb H R E | rpopecb H R | rcall H R F A | rloop H R | rhalt H R |
 *       rmk H R K s|i|n TEXT | rup H R K | rdown H R K | rdownnf H R K | rsetgbl H R K | rgetgbl H R K |
 *       rgetstr H R K | rfreestr H R | rtostr H R K cpl|cpy2|cpy16|dup | rseterr H R n | rxtn H R n
 */
#include <hawk-std.h>
#include <hawk-prv.h>
#include <stdio.h>
#include <stdlib.h>
#include <string.h>
#include <unistd.h>
#include <signal.h>
#include <sanitizer/common_interface_defs.h>

#define NH 3
#define NR 3
#define NK 4
#define NS 3
#define NE 4

/* ---------------- counting allocator, one per hawk_t ---------------- */
typedef struct { long owner; unsigned long magic; } hdr_t;
#define MAGIC 0xC09A91C09A91UL
typedef struct { hawk_mmgr_t m; long idx; long live, allocs, frees, foreign, bad; } cmm_t;
static cmm_t mm[NH];

static void* m_alloc (hawk_mmgr_t* m, hawk_oow_t n)
{
	cmm_t* c = (cmm_t*)m->ctx; hdr_t* h = (hdr_t*)malloc(sizeof(hdr_t) + n);
	if (!h) return NULL;
	h->owner = c->idx; h->magic = MAGIC; c->live++; c->allocs++;
	return h + 1;
}
static void m_free (hawk_mmgr_t* m, void* p)
{
	cmm_t* c = (cmm_t*)m->ctx; hdr_t* h;
	if (!p) return;
	h = (hdr_t*)p - 1;
	if (h->magic != MAGIC) { c->bad++; return; }
	if (h->owner != c->idx) { c->foreign++; mm[h->owner].live--; mm[h->owner].frees++; }
	else { c->live--; c->frees++; }
	h->magic = 0; free(h);
}
static void* m_realloc (hawk_mmgr_t* m, void* p, hawk_oow_t n)
{
	cmm_t* c = (cmm_t*)m->ctx; hdr_t* h;
	if (!p) return m_alloc(m, n);
	h = (hdr_t*)p - 1;
	if (h->magic != MAGIC) { c->bad++; return NULL; }
	if (h->owner != c->idx) c->foreign++;
	h = (hdr_t*)realloc(h, sizeof(hdr_t) + n);
	return h? (void*)(h + 1): NULL;
}

/* ---------------- state ---------------- */
typedef struct { int v; } xtn_t;
struct rx
{
	hawk_rtx_t* rtx;
	hawk_val_t* h[NK]; int floating[NK];
	hawk_ooch_t* str[NS]; hawk_val_t* strv[NS]; int nstr;
	hawk_rtx_ecb_t ecb[NE]; int ecbin[NE];
};
static struct hk
{
	hawk_t* hawk; int prog; int base_ngbls;
	hawk_ecb_t ecb[NE]; int ecbin[NE];
	struct rx r[NR];
} hk[NH];

static char logbuf[1024]; static size_t loglen;
static void logev (const char* what, int a, int b, long e)
{
	if (b >= 0) loglen += snprintf(logbuf + loglen, sizeof(logbuf) - loglen, "%s%s%d.%d:%ld", loglen? ",": "", what, a, b, e);
	else loglen += snprintf(logbuf + loglen, sizeof(logbuf) - loglen, "%s%s%d:%ld", loglen? ",": "", what, a, e);
}
static int hidx (hawk_t* h) { int i; for (i = 0; i < NH; i++) if (hk[i].hawk == h) return i; return -1; }
static void ridx (hawk_rtx_t* r, int* hi, int* ri)
{
	int i, j; *hi = *ri = -1;
	for (i = 0; i < NH; i++) for (j = 0; j < NR; j++) if (hk[i].r[j].rtx == r) { *hi = i; *ri = j; }
}
static void h_close_cb (hawk_t* h, void* ctx) { logev("hclose", hidx(h), -1, (long)ctx); }
static void h_clear_cb (hawk_t* h, void* ctx) { logev("hclear", hidx(h), -1, (long)ctx); }
static void r_close_cb (hawk_rtx_t* r, void* ctx) { int a, b; ridx(r, &a, &b); logev("rclose", a, b, (long)ctx); }
static void r_gblset_cb (hawk_rtx_t* r, hawk_oow_t idx, hawk_val_t* v, void* ctx) { int a, b; ridx(r, &a, &b); logev("gblset", a, b, (long)ctx); }

static void on_death (void) { fflush(stdout); }
static void on_alarm (int sig) { printf("HANG\n"); fflush(stdout); _exit(3); }

static const char* errname (int e)
{
	static char buf[4][32]; static int k;
	switch (e)
	{
		case HAWK_ENOERR: return "ENOERR"; case HAWK_EPERM: return "EPERM"; case HAWK_ENOENT: return "ENOENT";
		case HAWK_EEXIST: return "EEXIST"; case HAWK_EINVAL: return "EINVAL"; case HAWK_EDIVBY0: return "EDIVBY0";
		case HAWK_EDUPGBL: return "EDUPGBL"; case HAWK_EFUNNF: return "EFUNNF"; case HAWK_EARGTM: return "EARGTM";
		case HAWK_ENOMEM: return "ENOMEM"; case HAWK_EFNCRED: return "EFNCRED"; case HAWK_EFUNRED: return "EFUNRED";
		default: k = (k + 1) & 3; snprintf(buf[k], sizeof(buf[k]), "E%d", e); return buf[k];
	}
}
static const int errtab[] = { HAWK_ENOERR, HAWK_EPERM, HAWK_ENOENT, HAWK_EEXIST, HAWK_EINVAL };

static const char* PROGS[] = {
	/* 0 */ "@global g0; function getg(x) { return g0; } function setg(x) { g0 = x; return x; } function boom(x) { return 1 / ZZ0; } function quit(x) { exit x; } function two(x) { g0 = x; g0 = g0 \"+\"; return g0; } BEGIN { g0 = \"b0\"; } END { g0 = g0 \"e\"; }",
	/* 1 */ "@global g0; function getg(x) { return g0; } function setg(x) { g0 = x; return x; } function boom(x) { return 1 / ZZ0; } function quit(x) { exit x; } function two(x) { g0 = x; g0 = g0 \"*\"; return g0; } BEGIN { g0 = \"b1\"; }",
	/* 2 */ "@global g0; function getg(x) { return g0; } function setg(x) { g0 = x; return x; } function boom(x) { return 1 / ZZ0; } function quit(x) { exit x; } function two(x) { g0 = x; g0 = g0 \"+\"; return g0; } function hf(x) { return hf0(x); } BEGIN { g0 = \"b2\"; }",
	/* 3 */ "@global g0; function getg( { return g0; }",
	/* 4 */ "@global g0, ga; function getg(x) { return g0; } function setg(x) { g0 = x; return x; } function boom(x) { return 1 / ZZ0; } function quit(x) { exit x; } function two(x) { ga = x; g0 = ga \"/\"; return g0; } END { g0 = \"e4\"; }",
};
#define NPROGS 5

/* the host function hf0(x): uses hawk_rtx_getarg / hawk_rtx_setretval; the value it makes is handed over to the context */
static int fnc_hf0 (hawk_rtx_t* rtx, const hawk_fnc_info_t* fi)
{
	hawk_val_t* a0 = hawk_rtx_getarg(rtx, 0); hawk_val_t* r; char buf[256];
	hawk_bch_t* s = hawk_rtx_valtobcstrdup(rtx, a0, NULL);
	if (!s) return -1;
	snprintf(buf, sizeof(buf), "%s!", s); hawk_rtx_freemem(rtx, s);
	r = hawk_rtx_makestrvalwithbcstr(rtx, buf);
	if (!r) return -1;
	hawk_rtx_setretval(rtx, r);
	return 0;
}

static void valtext (hawk_rtx_t* rtx, hawk_val_t* v, char* out, size_t cap)
{
	int t; hawk_bch_t* s;
	if (!v) { snprintf(out, cap, "NULL"); return; }
	t = HAWK_RTX_GETVALTYPE(rtx, v);
	if (t == HAWK_VAL_NIL) { snprintf(out, cap, "nil"); return; }
	if (t != HAWK_VAL_INT && t != HAWK_VAL_STR) { snprintf(out, cap, "other:%d", t); return; }
	s = hawk_rtx_valtobcstrdup(rtx, v, NULL);
	snprintf(out, cap, "%s%s", t == HAWK_VAL_INT? "i:": "s:", s? s: "?");
	if (s) hawk_rtx_freemem(rtx, s);
}
static long refs (hawk_val_t* v)
{
	if (!v || !HAWK_VTR_IS_POINTER(v) || v->v_static) return 0;
	return (long)v->v_refs;
}

/* index of the global named g0 without going through any API function (no allocation, no error number side effect) */
static int find_g0 (hawk_t* h)
{
	hawk_oow_t n = HAWK_ARR_SIZE(h->parse.gbls), q;
	for (q = h->tree.ngbls_base; q < n; q++)
	{
		hawk_ooch_t* p;
		if (!HAWK_ARR_SLOT(h->parse.gbls, q) || HAWK_ARR_DLEN(h->parse.gbls, q) != 2) continue;
		p = (hawk_ooch_t*)HAWK_ARR_DPTR(h->parse.gbls, q);
		if (p[0] == 'g' && p[1] == '0') return (int)q;
	}
	return -1;
}
static long snap[NH][5];
static void snapshot (void) { int i; for (i = 0; i < NH; i++) { snap[i][0] = mm[i].live; snap[i][1] = mm[i].allocs; snap[i][2] = mm[i].frees; snap[i][3] = mm[i].foreign; snap[i][4] = mm[i].bad; } }

static void dump_all (void)
{
	int i, j, k; char vt[512];
	hawk_errnum_t he[NH], re[NH][NR];
	snapshot(); /* what the op itself did to the allocators; the dump below allocates for its own conversions */
	/* the dump's own lookups (a miss in a hash table sets ENOENT) must not disturb the error numbers it reports */
	for (i = 0; i < NH; i++) if (hk[i].hawk) { he[i] = hawk_geterrnum(hk[i].hawk); for (j = 0; j < NR; j++) if (hk[i].r[j].rtx) re[i][j] = hawk_rtx_geterrnum(hk[i].r[j].rtx); }
	printf(" |");
	for (i = 0; i < NH; i++)
	{
		struct hk* H = &hk[i]; hawk_t* h = H->hawk; hawk_ecb_t* e; hawk_oow_t opt = 0; int first;
		if (!h) continue;
		printf(" H%d[e=%s p=", i, errname((int)hawk_geterrnum(h)));
		if (H->prog >= 0) printf("%d", H->prog); else printf("-");
		printf(" ha=%d ecb=", h->haltall);
		first = 1;
		for (e = h->ecb; e != (hawk_ecb_t*)h; e = e->next)
		{
			/* only the application's callback sets are shown (hawk_openstd pushes its own) */
			if (e >= &H->ecb[0] && e < &H->ecb[NE]) { printf("%s%d", first? "": ",", (int)(e - &H->ecb[0])); first = 0; }
		}
		if (first) printf("-");
		printf(" g=");
		{
			hawk_oow_t n = HAWK_ARR_SIZE(h->parse.gbls), q; first = 1;
			for (q = H->base_ngbls; q < h->tree.ngbls_base && q < n; q++)
			{
				hawk_oow_t len, z; hawk_ooch_t* p;
				printf("%s", first? "": ","); first = 0;
				if (!HAWK_ARR_SLOT(h->parse.gbls, q) || HAWK_ARR_DLEN(h->parse.gbls, q) == 0) { printf("_"); continue; }
				len = HAWK_ARR_DLEN(h->parse.gbls, q); p = (hawk_ooch_t*)HAWK_ARR_DPTR(h->parse.gbls, q);
				for (z = 0; z < len; z++) putchar((char)p[z]);
			}
			if (first) printf("-");
		}
		printf(" f=");
		{
			static const char* fn[] = { "hf0", "hf1" }; first = 1;
			for (k = 0; k < 2; k++)
			{
				hawk_ooch_t w[8]; hawk_oocs_t cs; int z;
				for (z = 0; fn[k][z]; z++) w[z] = fn[k][z]; w[z] = 0; cs.ptr = w; cs.len = z;
				if (hawk_htb_search(h->fnc.user, cs.ptr, cs.len)) { printf("%s%s", first? "": ",", fn[k]); first = 0; }
			}
			if (first) printf("-");
		}
		hawk_getopt(h, HAWK_OPT_DEPTH_BLOCK_RUN, &opt);
		printf(" o=%ld x=%d]", (long)opt, ((xtn_t*)hawk_getxtn(h))->v);
		for (j = 0; j < NR; j++)
		{
			struct rx* R = &H->r[j]; hawk_rtx_t* r = R->rtx; hawk_rtx_ecb_t* re; int g0;
			if (!r) continue;
			printf(" R%d.%d[e=%s xl=%d ecb=", i, j, errname((int)hawk_rtx_geterrnum(r)), r->exit_level);
			first = 1;
			for (re = r->ecb; re != (hawk_rtx_ecb_t*)r; re = re->next)
				if (re >= &R->ecb[0] && re < &R->ecb[NE]) { printf("%s%d", first? "": ",", (int)(re - &R->ecb[0])); first = 0; }
			if (first) printf("-");
			g0 = find_g0(h);
			if (g0 >= 0 && (hawk_oow_t)g0 < r->stack_top) { hawk_val_t* gv = hawk_rtx_getgbl(r, g0); valtext(r, gv, vt, sizeof(vt)); printf(" g0=%s/%ld", vt, refs(gv)); }
			else printf(" g0=-");
			printf(" x=%d h=", ((xtn_t*)hawk_rtx_getxtn(r))->v);
			for (k = 0; k < NK; k++)
			{
				if (!R->h[k]) printf("%s-", k? ",": "");
				else { valtext(r, R->h[k], vt, sizeof(vt)); printf("%s%s/%ld%s", k? ",": "", vt, refs(R->h[k]), R->floating[k]? "f": ""); }
			}
			printf(" s=%d]", R->nstr);
		}
	}
	for (i = 0; i < NH; i++) if (hk[i].hawk) { hk[i].hawk->_gem.errnum = he[i]; for (j = 0; j < NR; j++) if (hk[i].r[j].rtx) hk[i].r[j].rtx->_gem.errnum = re[i][j]; }
	printf(" log=%s", loglen? logbuf: "-");
	printf(" #");
	for (i = 0; i < NH; i++)
	{
		printf(" m%d=%ld/%ld/%ld/%ld/%ld", i, snap[i][0], snap[i][1], snap[i][2], snap[i][3], snap[i][4]);
		/* the dump's own conversions must be balanced too */
		if (mm[i].live != snap[i][0]) printf("!DUMPLEAK");
		mm[i].allocs = snap[i][1]; mm[i].frees = snap[i][2];
	}
	printf("\n");
}

static int any_rtx (struct hk* H) { int j; for (j = 0; j < NR; j++) if (H->r[j].rtx) return 1; return 0; }

static int nheld[NH][NR][NK]; /* references the application holds through a handle */
/* release what the application still holds of a runtime (the contract says: before hawk_rtx_close) */
static int release_app (int H, int Rr)
{
	struct rx* R = &hk[H].r[Rr]; int k, n = 0; hawk_rtx_t* r = R->rtx; int* held = nheld[H][Rr];
	while (R->nstr > 0) { R->nstr--; hawk_rtx_freevaloocstr(r, R->strv[R->nstr], R->str[R->nstr]); n++; }
	for (k = 0; k < NK; k++)
	{
		if (!R->h[k]) continue;
		if (R->floating[k]) { hawk_rtx_refupval(r, R->h[k]); hawk_rtx_refdownval(r, R->h[k]); n++; }
		else while (held[k] > 0) { hawk_rtx_refdownval(r, R->h[k]); held[k]--; n++; }
		R->h[k] = NULL; R->floating[k] = 0; held[k] = 0;
	}
	return n;
}

int main (int argc, char** argv)
{
	static char line[4096]; char* tok[16]; int nt, i; unsigned long nlines = 0, lh = 0; /* lh: which of two equivalent entry points a line uses depends on its own text only */
	signal(SIGALRM, on_alarm);
	__sanitizer_set_death_callback(on_death);
	for (i = 0; i < NH; i++) { mm[i].m.alloc = m_alloc; mm[i].m.realloc = m_realloc; mm[i].m.free = m_free; mm[i].m.ctx = &mm[i]; mm[i].idx = i; hk[i].prog = -1; }
	while (fgets(line, sizeof(line), stdin))
	{
		char* s; int H, Rr = -1; struct hk* hp; const char* op;
		nt = 0; loglen = 0; logbuf[0] = 0;
		{ const char* q; lh = 5381; for (q = line; *q && *q != '\n'; q++) lh = lh * 33 + (unsigned char)*q; lh ^= lh >> 7; }
		for (s = strtok(line, " \n"); s && nt < 16; s = strtok(NULL, " \n")) tok[nt++] = s;
		if (nt == 0) { printf("-\n"); continue; }
		if ((++nlines & 7) == 0) fflush(stdout);
		alarm(20);
		op = tok[0];
		if (!strcmp(op, "reset"))
		{
			int j;
			for (i = 0; i < NH; i++)
			{
				for (j = 0; j < NR; j++) if (hk[i].r[j].rtx)
				{
					struct rx* R = &hk[i].r[j];
					release_app(i, j); hawk_rtx_close(R->rtx); R->rtx = NULL;
				}
				if (hk[i].hawk) { hawk_close(hk[i].hawk); hk[i].hawk = NULL; }
				hk[i].prog = -1; memset(hk[i].ecbin, 0, sizeof(hk[i].ecbin));
			}
			loglen = 0; logbuf[0] = 0;
			printf("reset #");
			for (i = 0; i < NH; i++) { printf(" m%d=%ld/%ld/%ld/%ld/%ld", i, mm[i].live, mm[i].allocs, mm[i].frees, mm[i].foreign, mm[i].bad); mm[i].live = mm[i].allocs = mm[i].frees = mm[i].foreign = mm[i].bad = 0; }
			printf("\n"); fflush(stdout);
			continue;
		}
		if (nt < 2) { printf("bad-op\n"); continue; }
		H = atoi(tok[1]);
		if (H < 0 || H >= NH) { printf("bad-op\n"); continue; }
		hp = &hk[H];
		fflush(stdout);
		if (!strcmp(op, "hopen"))
		{
			hawk_errnum_t en;
			if (hp->hawk) { printf("exists"); dump_all(); continue; }
			hp->hawk = hawk_openstdwithmmgr(&mm[H].m, sizeof(xtn_t), NULL, &en);
			if (!hp->hawk) { printf("FATAL hawk_openstd failed\n"); return 2; }
			((xtn_t*)hawk_getxtn(hp->hawk))->v = 0;
			hp->prog = -1; hp->base_ngbls = (int)hp->hawk->tree.ngbls_base;
			memset(hp->ecbin, 0, sizeof(hp->ecbin)); memset(hp->r, 0, sizeof(hp->r));
			printf("ok"); dump_all(); continue;
		}
		if (!hp->hawk) { printf("nohawk"); dump_all(); continue; }
		if (op[0] == 'h')
		{
			hawk_t* h = hp->hawk;
			if (!strcmp(op, "hclose"))
			{
				if (any_rtx(hp)) printf("busy");
				else { hawk_close(h); hp->hawk = NULL; hp->prog = -1; printf("ok"); }
			}
			else if (!strcmp(op, "hclear"))
			{
				if (any_rtx(hp)) printf("busy");
				else { hawk_clear(h); hp->prog = -1; printf("ok"); }
			}
			else if (!strcmp(op, "hparse") && nt >= 3)
			{
				int p = atoi(tok[2]); hawk_parsestd_t in[2]; int n;
				if (any_rtx(hp)) printf("busy");
				else if (p < 0 || p >= NPROGS) printf("bad-op");
				else
				{
					memset(in, 0, sizeof(in));
					in[0].type = HAWK_PARSESTD_BCS; in[0].u.bcs.ptr = (hawk_bch_t*)PROGS[p]; in[0].u.bcs.len = strlen(PROGS[p]);
					in[1].type = HAWK_PARSESTD_NULL;
					n = hawk_parsestd(h, in, NULL);
					if (n >= 0) { hp->prog = p; printf("ok"); }
					else { hp->prog = -1; printf("fail:%s", errname((int)hawk_geterrnum(h))); }
				}
			}
			else if (!strcmp(op, "hpushecb") && nt >= 3)
			{
				int e = atoi(tok[2]);
				if (e < 0 || e >= NE) printf("bad-op");
				else if (hp->ecbin[e]) printf("dup");
				else
				{
					memset(&hp->ecb[e], 0, sizeof(hp->ecb[e]));
					hp->ecb[e].close = h_close_cb; hp->ecb[e].clear = h_clear_cb; hp->ecb[e].ctx = (void*)(long)e;
					hawk_pushecb(h, &hp->ecb[e]); hp->ecbin[e] = 1; printf("ok");
				}
			}
			else if (!strcmp(op, "hpopecb"))
			{
				/* only the application's own sets are popped: the one hawk_openstd pushed stays */
				hawk_ecb_t* top = h->ecb;
				if (top >= &hp->ecb[0] && top < &hp->ecb[NE]) { hawk_ecb_t* e = hawk_popecb(h); hp->ecbin[e - &hp->ecb[0]] = 0; printf("popped:%d", (int)(e - &hp->ecb[0])); }
				else printf("empty");
			}
			else if ((!strcmp(op, "haddgbl") || !strcmp(op, "hdelgbl")) && any_rtx(hp)) printf("busy"); /* the global table is fixed once a runtime exists */
			else if (!strcmp(op, "haddgbl") && nt >= 3)
			{
				int n;
				if (lh & 1) n = hawk_addgblwithbcstr(h, tok[2]);
				else { hawk_uch_t w[32]; int z; for (z = 0; tok[2][z] && z < 31; z++) w[z] = tok[2][z]; w[z] = 0; n = hawk_addgblwithucstr(h, w); }
				if (n >= 0) printf("id:%d", n - hp->base_ngbls); else printf("fail:%s", errname((int)hawk_geterrnum(h)));
			}
			else if (!strcmp(op, "hdelgbl") && nt >= 3)
			{
				int n;
				if (lh & 1) n = hawk_delgblwithbcstr(h, tok[2]);
				else { hawk_uch_t w[32]; int z; for (z = 0; tok[2][z] && z < 31; z++) w[z] = tok[2][z]; w[z] = 0; n = hawk_delgblwithucstr(h, w); }
				if (n >= 0) printf("ok"); else printf("fail:%s", errname((int)hawk_geterrnum(h)));
			}
			else if (!strcmp(op, "haddfnc") && nt >= 3)
			{
				hawk_fnc_mspec_t spec; hawk_fnc_t* f;
				memset(&spec, 0, sizeof(spec)); spec.arg.min = 1; spec.arg.max = 1; spec.impl = fnc_hf0;
				f = hawk_addfncwithbcstr(h, tok[2], &spec);
				if (f) printf("ok"); else printf("fail:%s", errname((int)hawk_geterrnum(h)));
			}
			else if (!strcmp(op, "hdelfnc") && nt >= 3)
			{
				int n = hawk_delfncwithbcstr(h, tok[2]);
				if (n >= 0) printf("ok"); else printf("fail:%s", errname((int)hawk_geterrnum(h)));
			}
			else if (!strcmp(op, "hseterr") && nt >= 3) { hawk_seterrnum(h, NULL, errtab[atoi(tok[2]) % 5]); printf("ok"); }
			else if (!strcmp(op, "hhaltall")) { hawk_haltall(h); printf("ok"); }
			else if (!strcmp(op, "hsetopt") && nt >= 3) { hawk_oow_t v = atoi(tok[2]); printf(hawk_setopt(h, HAWK_OPT_DEPTH_BLOCK_RUN, &v) >= 0? "ok": "fail"); }
			else if (!strcmp(op, "hxtn") && nt >= 3) { ((xtn_t*)hawk_getxtn(h))->v = atoi(tok[2]); printf("ok"); }
			else printf("bad-op");
			dump_all(); continue;
		}
		if (nt < 3) { printf("bad-op\n"); continue; }
		Rr = atoi(tok[2]);
		if (Rr < 0 || Rr >= NR) { printf("bad-op\n"); continue; }
		{
			struct rx* R = &hp->r[Rr]; hawk_rtx_t* r = R->rtx; hawk_t* h = hp->hawk; char vt[512]; int* held = nheld[H][Rr];
			if (!strcmp(op, "ropen"))
			{
				static const hawk_bch_t* icf[] = { "/dev/null", NULL }; static const hawk_bch_t* ocf[] = { "/dev/null", NULL };
				if (r) { printf("exists"); dump_all(); continue; }
				memset(R, 0, sizeof(*R)); memset(held, 0, sizeof(nheld[H][Rr]));
				R->rtx = hawk_rtx_openstdwithbcstr(h, sizeof(xtn_t), "ctxapi", icf, ocf, NULL);
				if (!R->rtx) printf("fail:%s", errname((int)hawk_geterrnum(h)));
				else { ((xtn_t*)hawk_rtx_getxtn(R->rtx))->v = 0; printf("ok"); }
				dump_all(); continue;
			}
			if (!r) { printf("nortx"); dump_all(); continue; }
			if (!strcmp(op, "rclose"))
			{
				int n = release_app(H, Rr);
				hawk_rtx_close(r); R->rtx = NULL;
				printf("ok dropped=%d", n);
			}
			else if (!strcmp(op, "rpushecb") && nt >= 4)
			{
				int e = atoi(tok[3]);
				if (e < 0 || e >= NE) printf("bad-op");
				else if (R->ecbin[e]) printf("dup");
				else
				{
					memset(&R->ecb[e], 0, sizeof(R->ecb[e]));
					R->ecb[e].close = r_close_cb; R->ecb[e].gblset = r_gblset_cb; R->ecb[e].ctx = (void*)(long)e;
					hawk_rtx_pushecb(r, &R->ecb[e]); R->ecbin[e] = 1; printf("ok");
				}
			}
			else if (!strcmp(op, "rpopecb"))
			{
				hawk_rtx_ecb_t* top = r->ecb;
				if (top >= &R->ecb[0] && top < &R->ecb[NE]) { hawk_rtx_ecb_t* e = hawk_rtx_popecb(r); R->ecbin[e - &R->ecb[0]] = 0; printf("popped:%d", (int)(e - &R->ecb[0])); }
				else printf("empty");
			}
			else if (!strcmp(op, "rcall") && nt >= 5)
			{
				const hawk_bch_t* a[1]; hawk_val_t* v;
				a[0] = tok[4];
				if (lh & 1) v = hawk_rtx_callwithbcstrarr(r, tok[3], a, 1);
				else
				{
					hawk_uch_t wn[32], wa[64]; const hawk_uch_t* wap[1]; int z;
					for (z = 0; tok[3][z] && z < 31; z++) wn[z] = tok[3][z]; wn[z] = 0;
					for (z = 0; tok[4][z] && z < 63; z++) wa[z] = tok[4][z]; wa[z] = 0;
					wap[0] = wa;
					v = hawk_rtx_callwithucstrarr(r, wn, wap, 1);
				}
				if (v) { valtext(r, v, vt, sizeof(vt)); printf("ret=%s/%ld", vt, refs(v)); hawk_rtx_refdownval(r, v); }
				else printf("fail:%s", errname((int)hawk_rtx_geterrnum(r)));
			}
			else if (!strcmp(op, "rloop"))
			{
				hawk_val_t* v = hawk_rtx_loop(r);
				if (v) { valtext(r, v, vt, sizeof(vt)); printf("ret=%s/%ld", vt, refs(v)); hawk_rtx_refdownval(r, v); }
				else printf("fail:%s", errname((int)hawk_rtx_geterrnum(r)));
			}
			else if (!strcmp(op, "rhalt")) { hawk_rtx_halt(r); printf("ok"); }
			else if (!strcmp(op, "rmk") && nt >= 6)
			{
				int k = atoi(tok[3]);
				if (k < 0 || k >= NK) printf("bad-op");
				else if (R->h[k]) printf("inuse");
				else
				{
					hawk_val_t* v;
					if (tok[4][0] == 's') v = (lh & 1)? hawk_rtx_makestrvalwithbcstr(r, tok[5]): hawk_rtx_makestrvalwithbchars(r, tok[5], strlen(tok[5]));
					else if (tok[4][0] == 'i') v = hawk_rtx_makeintval(r, atol(tok[5]));
					else v = hawk_rtx_makenilval(r);
					if (!v) printf("fail:%s", errname((int)hawk_rtx_geterrnum(r)));
					else { hawk_rtx_refupval(r, v); R->h[k] = v; R->floating[k] = 0; held[k] = 1; printf("ok"); }
				}
			}
			else if ((!strcmp(op, "rup") || !strcmp(op, "rdown") || !strcmp(op, "rdownnf") || !strcmp(op, "rsetgbl") || !strcmp(op, "rgetgbl") || !strcmp(op, "rgetstr") || !strcmp(op, "rtostr")) && nt >= 4)
			{
				int k = atoi(tok[3]); hawk_val_t* v;
				if (k < 0 || k >= NK) { printf("bad-op\n"); continue; }
				v = R->h[k];
				if (!strcmp(op, "rgetgbl"))
				{
					int g0 = find_g0(h);
					if (v) printf("inuse");
					else if (g0 < 0) printf("nogbl");
					else { v = hawk_rtx_getgbl(r, g0); hawk_rtx_refupval(r, v); R->h[k] = v; R->floating[k] = 0; held[k] = 1; printf("ok"); }
				}
				else if (!v) printf("empty");
				else if (!strcmp(op, "rup")) { hawk_rtx_refupval(r, v); if (R->floating[k]) { R->floating[k] = 0; held[k] = 1; } else held[k]++; printf("ok"); }
				else if (R->nstr > 0 && (!strcmp(op, "rdown") || !strcmp(op, "rdownnf"))) printf("strs");
				else if (!strcmp(op, "rdown"))
				{
					if (R->floating[k]) printf("floating");
					else { hawk_rtx_refdownval(r, v); if (--held[k] == 0) R->h[k] = NULL; printf("ok"); }
				}
				else if (!strcmp(op, "rdownnf"))
				{
					if (R->floating[k]) printf("floating");
					else
					{
						/* the last reference of a counted value may be given up without freeing; otherwise it is a plain refdown */
						hawk_rtx_refdownval_nofree(r, v);
						if (--held[k] == 0) { if (HAWK_VTR_IS_POINTER(v) && !v->v_static && v->v_refs == 0) R->floating[k] = 1; else R->h[k] = NULL; }
						printf("ok");
					}
				}
				else if (!strcmp(op, "rsetgbl"))
				{
					int g0 = find_g0(h);
					if (g0 < 0) printf("nogbl");
					else
					{
						int n = hawk_rtx_setgbl(r, g0, v);
						if (n >= 0) { if (R->floating[k]) { R->h[k] = NULL; R->floating[k] = 0; } printf("ok"); }
						else printf("fail:%s", errname((int)hawk_rtx_geterrnum(r)));
					}
				}
				else if (!strcmp(op, "rgetstr"))
				{
					if (R->nstr >= NS) printf("full");
					else if (R->floating[k]) printf("floating");
					else
					{
						hawk_oow_t len = 0; hawk_ooch_t* p = hawk_rtx_getvaloocstr(r, v, &len); const char* own; hawk_oow_t z;
						if (!p) printf("fail:%s", errname((int)hawk_rtx_geterrnum(r)));
						else
						{
							if (HAWK_RTX_GETVALTYPE(r, v) == HAWK_VAL_STR && p == ((hawk_val_str_t*)v)->val.ptr) own = "borrowed";
							else if ((hawk_ctos_b_t*)p >= &r->ctos.b[0] && (hawk_ctos_b_t*)p < &r->ctos.b[HAWK_COUNTOF(r->ctos.b)]) own = "slot";
							else own = "heap";
							printf("%s:", own); for (z = 0; z < len; z++) putchar((char)p[z]);
							R->str[R->nstr] = p; R->strv[R->nstr] = v; R->nstr++;
						}
					}
				}
				else /* rtostr */
				{
					hawk_rtx_valtostr_out_t out; hawk_ooch_t buf[16]; const char* m = nt >= 5? tok[4]: "dup"; int n; hawk_oow_t z;
					if (R->floating[k]) printf("floating");
					else if (!strcmp(m, "cpl"))
					{
						/* CPL: a string value lends its own characters, anything else is written to the caller's buffer */
						out.type = HAWK_RTX_VALTOSTR_CPL; out.u.cpl.ptr = buf; out.u.cpl.len = 16; n = hawk_rtx_valtostr(r, v, &out);
						if (n < 0) printf("fail:%s", errname((int)hawk_rtx_geterrnum(r)));
						else
						{
							printf("%s:", out.u.cpl.ptr == buf? "caller": "borrowed"); for (z = 0; z < out.u.cpl.len; z++) putchar((char)out.u.cpl.ptr[z]);
						}
					}
					else if (!strcmp(m, "dup"))
					{
						out.type = HAWK_RTX_VALTOSTR_CPLDUP; n = hawk_rtx_valtostr(r, v, &out);
						if (n < 0) printf("fail:%s", errname((int)hawk_rtx_geterrnum(r)));
						else { printf("heap:"); for (z = 0; z < out.u.cpldup.len; z++) putchar((char)out.u.cpldup.ptr[z]); hawk_rtx_freemem(r, out.u.cpldup.ptr); }
					}
					else
					{
						out.type = HAWK_RTX_VALTOSTR_CPLCPY; out.u.cplcpy.ptr = buf; out.u.cplcpy.len = !strcmp(m, "cpy2")? 2: 16;
						n = hawk_rtx_valtostr(r, v, &out);
						if (n < 0) printf("fail:%s", errname((int)hawk_rtx_geterrnum(r)));
						else { printf("caller:"); for (z = 0; z < out.u.cplcpy.len; z++) putchar((char)buf[z]); }
					}
				}
			}
			else if (!strcmp(op, "rfreestr"))
			{
				if (R->nstr == 0) printf("empty");
				else { R->nstr--; hawk_rtx_freevaloocstr(r, R->strv[R->nstr], R->str[R->nstr]); printf("ok"); }
			}
			else if (!strcmp(op, "rseterr") && nt >= 4) { hawk_rtx_seterrnum(r, NULL, errtab[atoi(tok[3]) % 5]); printf("ok"); }
			else if (!strcmp(op, "rxtn") && nt >= 4) { ((xtn_t*)hawk_rtx_getxtn(r))->v = atoi(tok[3]); printf("ok"); }
			else printf("bad-op");
			dump_all();
		}
	}
	alarm(0);
	fflush(stdout);
	return 0;
}
