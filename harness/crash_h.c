/* C01 campaign harness: runs hawk programs IN-PROCESS through the embedding API, the way bin/hawk.c does
 *   hawk_openstdwithmmgr -> hawk_setopt(traits, depths) -> hawk_parsestd(string source) -> hawk_rtx_openstd
 *   -> hawk_rtx_execwithbcstrarr (= hawk_rtx_loop unless @pragma entry) -> hawk_rtx_close -> hawk_close
 * linked against the freshly built ASan/UBSan libhawk.a (asserts on: HAWK_BUILD_DEBUG).
 *
 * usage: crash_h <casefile> <soft_ms> <hard_ms> <scratchdir>
 * casefile = sequence of   CASE <id> <traits> <flags> <srclen> <inlen>\n<src bytes>\n<input bytes>\n
 *   traits: m modern(default)  c classic  f flexmap off  t tolerant off  x misc (striprecspc, ncmponstr, crlf, multilinestr on; strictnaming, blankconcat off)
 *   flags : o = report console output (hex, first 4096 bytes)   d = parse with a deparse output (string)   - = nothing
 * One line per case on stdout:
 *   RESULT <id> <CLASS> stage=<parse|open|run|done> errnum=<n> msglen=<n> stmts=<n> halted=<0|1> ic=<gbl.ignorecase> leak=<blocks> msg=<hex|-> out=<hex|->
 *   CLASS: OK | PARSE_ERR | OPEN_ERR | RUN_ERR | HALTED | SKIP
 *          | VIOL_ERRNUM0 | VIOL_NOMSG           (failure without error number / message)
 *          | CRASH sig=<n>|exit=<n> phase=<..>   (worker died: signal, sanitizer report (exit 66/67), assert abort)
 *          | WEDGE phase=<..> stmts_at_halt=<n> stmts_now=<m>   (halt requested, not answered within hard_ms)
 * (before the SIGKILL the worker is asked by SIGUSR2 to print its stack: the site of the wedge)
 * and after a CRASH or WEDGE a line  STDERR <id> <hex of the worker's stderr for that case (sanitizer report)>.
 *
 * Process structure: the parent forks a worker that runs the cases in order and stamps a shared page (case index,
 * phase, statement-callback heartbeat).  The parent polls: when a case exceeds soft_ms it sends SIGUSR1 — the worker's
 * handler calls hawk_rtx_halt(), exactly what bin/hawk.c does on SIGINT/SIGTERM; if the case is still running hard_ms
 * later the halt request went unanswered: SIGKILL, WEDGE, new worker from the next case.  A crash loses only that case.
 *
 * Safety of the host: pipes are served only for a fixed allow-list of commands, files only for plain relative names
 * inside the per-worker scratch directory (cwd) and /dev/null; sources mentioning sys::, ffi::, sed:: or system are
 * skipped.  Memory: a counting allocator refuses requests beyond a per-case budget (exercises ENOMEM paths).
 */
#include <hawk-std.h>
#include <hawk-prv.h>
#include <stdio.h>
#include <stdlib.h>
#include <string.h>
#include <signal.h>
#include <unistd.h>
#include <errno.h>
#include <time.h>
#include <malloc.h>
#include <dirent.h>
#include <fcntl.h>
#include <sys/mman.h>
#include <sys/wait.h>
#include <sys/stat.h>
#include <sys/resource.h>

struct shared_t
{
	volatile long case_idx;      /* index of the case being run */
	volatile long case_seq;      /* incremented at every case start */
	volatile long long start_ns; /* monotonic time of the case start */
	volatile long stmts;         /* statement-callback heartbeat */
	volatile long stmts_at_halt;
	volatile int phase;          /* 0 idle 1 parse 2 open 3 run 4 close-rtx 5 close-hawk */
	volatile int halt_req;       /* parent has sent SIGUSR1 for this case */
	volatile int halt_seen;      /* worker's handler ran */
	volatile int done;           /* worker finished all cases */
};
static struct shared_t* sh;

struct kase_t { char id[64]; char traits[16]; char flags[16]; size_t srclen, inlen; char* src; char* in; };
static struct kase_t* cases; static size_t ncases;

static const char* phase_name[] = { "idle", "parse", "open", "run", "close-rtx", "close-hawk" };

static long long now_ns (void) { struct timespec ts; clock_gettime(CLOCK_MONOTONIC, &ts); return (long long)ts.tv_sec * 1000000000LL + ts.tv_nsec; }

/* ------------------------------------------------------------------ counting allocator */
static size_t mem_used, mem_budget = (size_t)16 << 20, mem_blocks;
static void* m_alloc (hawk_mmgr_t* m, hawk_oow_t n)
{
	void* p;
	if (n > mem_budget || mem_used + n > mem_budget) return NULL;
	p = malloc(n); if (p) { mem_used += malloc_usable_size(p); mem_blocks++; } return p;
}
static void* m_realloc (hawk_mmgr_t* m, void* p, hawk_oow_t n)
{
	size_t old = p? malloc_usable_size(p): 0; void* q;
	if (n > mem_budget || mem_used - old + n > mem_budget) return NULL;
	q = realloc(p, n); if (q) { mem_used = mem_used - old + malloc_usable_size(q); if (!p) mem_blocks++; } return q;
}
static void m_free (hawk_mmgr_t* m, void* p) { if (p) { mem_used -= malloc_usable_size(p); mem_blocks--; free(p); } }
static hawk_mmgr_t mmgr = { m_alloc, m_realloc, m_free, NULL };

/* ------------------------------------------------------------------ rio wrappers */
static hawk_rio_cbs_t std_rio;
static void name_to_bcs (const hawk_ooch_t* s, char* buf, size_t n)
{
	size_t i = 0; if (s) for (; s[i] && i + 1 < n; i++) buf[i] = (s[i] < 128)? (char)s[i]: '?'; buf[i] = 0;
	if (s && s[i]) buf[0] = 0; /* too long: refuse */
}
static const char* ok_cmds[] = { "cat", "echo a b c", "echo -1", "true", "false", "sort", "printf 'x y\\nz\\n'", NULL };
static hawk_ooi_t my_pipe (hawk_rtx_t* rtx, hawk_rio_cmd_t cmd, hawk_rio_arg_t* arg, void* data, hawk_oow_t count)
{
	if (cmd == HAWK_RIO_CMD_OPEN)
	{
		char nm[128]; int i, ok = 0; name_to_bcs(arg->name, nm, sizeof(nm));
		for (i = 0; ok_cmds[i]; i++) if (!strcmp(nm, ok_cmds[i])) ok = 1;
		if (!ok) { hawk_rtx_seterrnum (rtx, HAWK_NULL, HAWK_EACCES); return -1; }
	}
	return std_rio.pipe(rtx, cmd, arg, data, count);
}
static hawk_ooi_t my_file (hawk_rtx_t* rtx, hawk_rio_cmd_t cmd, hawk_rio_arg_t* arg, void* data, hawk_oow_t count)
{
	if (cmd == HAWK_RIO_CMD_OPEN)
	{
		char nm[64]; int ok; size_t i; name_to_bcs(arg->name, nm, sizeof(nm));
		ok = nm[0] && nm[0] != '.' && nm[0] != '-';
		for (i = 0; nm[i]; i++) if (nm[i] == '/' || nm[i] == '?' || (unsigned char)nm[i] < 32) ok = 0;
		if (!strcmp(nm, "/dev/null")) ok = 1;
		if (!ok) { hawk_rtx_seterrnum (rtx, HAWK_NULL, HAWK_EACCES); return -1; }
	}
	return std_rio.file(rtx, cmd, arg, data, count);
}

/* ------------------------------------------------------------------ worker */
static hawk_rtx_t* volatile cur_rtx;
static void on_usr1 (int sig) { if (!sh->halt_seen) { sh->halt_seen = 1; sh->stmts_at_halt = sh->stmts; } if (cur_rtx) hawk_rtx_halt (cur_rtx); }
#if defined(__SANITIZE_ADDRESS__)
void __sanitizer_print_stack_trace (void);
#endif
/* the parent asks where an unanswered halt request is stuck just before it kills the worker: the stack goes to the stderr capture */
static void on_usr2 (int sig)
{
	static const char m[] = "WEDGE-STACK\n"; if (write(2, m, sizeof(m) - 1) < 0) { }
#if defined(__SANITIZE_ADDRESS__)
	__sanitizer_print_stack_trace ();
#endif
}
static void on_stmt (hawk_rtx_t* rtx, hawk_nde_t* nde, void* ctx) { sh->stmts++; }
static hawk_rtx_ecb_t ecb = { NULL, on_stmt, NULL, NULL, NULL };

static int unsafe_source (const char* s, size_t n)
{
	static const char* bad[] = { "sys::", "ffi::", "sed::", "system", "sys ::", "sys:", NULL }; int i;
	for (i = 0; bad[i]; i++) if (n >= strlen(bad[i]) && memmem(s, n, bad[i], strlen(bad[i]))) return 1;
	return 0;
}

static void clean_scratch (void)
{
	DIR* d = opendir("."); struct dirent* e; if (!d) return;
	while ((e = readdir(d))) if (e->d_name[0] != '.' && strcmp(e->d_name, "in") && strcmp(e->d_name, "out") && strcmp(e->d_name, "err")) unlink(e->d_name);
	closedir(d);
}

static FILE* proto; /* protocol stream of the worker (stdout itself is /dev/null there so that piped commands cannot write into the protocol) */
static void hexout (FILE* f, const char* p, size_t n) { size_t i; if (!n) { fputc('-', f); return; } for (i = 0; i < n; i++) fprintf(f, "%02x", (unsigned char)p[i]); }

static char last_msg[96];
static int msg_len (const hawk_bch_t* m) { size_t n = m? strlen(m): 0; if (n >= sizeof(last_msg)) n = sizeof(last_msg) - 1; if (m) memcpy(last_msg, m, n); last_msg[n] = 0; return m? (int)strlen(m): 0; }

static void run_case (struct kase_t* k)
{
	hawk_t* hawk = NULL; hawk_rtx_t* rtx = NULL; hawk_val_t* retv;
	hawk_parsestd_t psin[2], psout; hawk_errnum_t en = HAWK_ENOERR; int traits, ml = 0, parse_rc; long deparsed = -1;
	const char* cls = "OK"; const char* stage = "parse"; int errnum = 0, ic = 0;
	last_msg[0] = 0;
	hawk_bch_t* icf[2]; hawk_bch_t* ocf[2]; FILE* f; size_t blocks0;

	if (unsafe_source(k->src, k->srclen)) { fprintf(proto, "RESULT %s SKIP stage=none errnum=0 msglen=0 stmts=0 halted=0 ic=0 leak=0 out=-\n", k->id); fflush(proto); return; }
	clean_scratch();
	f = fopen("in", "wb"); if (f) { fwrite(k->in, 1, k->inlen, f); fclose(f); }
	f = fopen("out", "wb"); if (f) fclose(f);
	mem_used = 0; blocks0 = mem_blocks;

	sh->phase = 1;
	hawk = hawk_openstdwithmmgr(&mmgr, 0, hawk_get_cmgr_by_id(HAWK_CMGR_UTF8), &en);
	if (!hawk) { cls = (en == HAWK_ENOERR)? "VIOL_ERRNUM0": "OPEN_ERR"; errnum = en; stage = "hawk_open"; goto report; }
	switch (k->traits[0])
	{
		case 'c': traits = HAWK_CLASSIC; break;
		case 'f': traits = HAWK_MODERN & ~HAWK_FLEXMAP; break;
		case 't': traits = HAWK_MODERN & ~HAWK_TOLERANT; break;
		case 'x': traits = (HAWK_MODERN | HAWK_STRIPRECSPC | HAWK_NCMPONSTR | HAWK_CRLF | HAWK_MULTILINESTR) & ~(HAWK_STRICTNAMING | HAWK_BLANKCONCAT); break;
		default:  traits = HAWK_MODERN; break;
	}
	hawk_setopt (hawk, HAWK_OPT_TRAIT, &traits);
	{ hawk_oow_t tmp; tmp = 50; hawk_setopt (hawk, HAWK_OPT_DEPTH_BLOCK_PARSE, &tmp); hawk_setopt (hawk, HAWK_OPT_DEPTH_EXPR_PARSE, &tmp);
	  tmp = 500; hawk_setopt (hawk, HAWK_OPT_DEPTH_BLOCK_RUN, &tmp); hawk_setopt (hawk, HAWK_OPT_DEPTH_EXPR_RUN, &tmp);
	  tmp = 64; hawk_setopt (hawk, HAWK_OPT_DEPTH_INCLUDE, &tmp); }

	memset (psin, 0, sizeof(psin));
	psin[0].type = HAWK_PARSESTD_BCS; psin[0].u.bcs.ptr = k->src; psin[0].u.bcs.len = k->srclen;
	psin[1].type = HAWK_PARSESTD_NULL;
	memset (&psout, 0, sizeof(psout)); psout.type = HAWK_PARSESTD_OOCS;
	parse_rc = hawk_parsestd(hawk, psin, (strchr(k->flags, 'd')? &psout: HAWK_NULL)); /* 'd': also deparse into a string, as `hawk -d` does into a file */
	if (parse_rc >= 0 && strchr(k->flags, 'd') && psout.u.oocs.ptr) { deparsed = (long)psout.u.oocs.len; hawk_freemem (hawk, psout.u.oocs.ptr); }
	if (parse_rc <= -1)
	{
		errnum = hawk_geterrnum(hawk); ml = msg_len(hawk_geterrbmsg(hawk));
		cls = (errnum == HAWK_ENOERR)? "VIOL_ERRNUM0": (ml == 0)? "VIOL_NOMSG": "PARSE_ERR";
		goto report;
	}

	sh->phase = 2; stage = "open";
	icf[0] = "in"; icf[1] = NULL; ocf[0] = "out"; ocf[1] = NULL;
	rtx = hawk_rtx_openstdwithbcstr(hawk, 0, "crash_h", icf, ocf, hawk_get_cmgr_by_id(HAWK_CMGR_UTF8));
	if (!rtx)
	{
		errnum = hawk_geterrnum(hawk); ml = msg_len(hawk_geterrbmsg(hawk));
		cls = (errnum == HAWK_ENOERR)? "VIOL_ERRNUM0": (ml == 0)? "VIOL_NOMSG": "OPEN_ERR";
		goto report;
	}
	hawk_rtx_getrio (rtx, &std_rio);
	{ hawk_rio_cbs_t r = std_rio; r.pipe = my_pipe; r.file = my_file; hawk_rtx_setrio (rtx, &r); }
	hawk_rtx_pushecb (rtx, &ecb);

	sh->phase = 3; stage = "run";
	cur_rtx = rtx;
	if (sh->halt_req && !sh->halt_seen) { /* the request arrived before the runtime existed */ }
	if (sh->halt_seen) hawk_rtx_halt (rtx);
	retv = hawk_rtx_execwithbcstrarr(rtx, (const hawk_bch_t**)icf, 1);
	cur_rtx = NULL;
	if (retv) { hawk_rtx_refdownval (rtx, retv); cls = sh->halt_seen? "HALTED": "OK"; stage = "done"; }
	else
	{
		errnum = hawk_rtx_geterrnum(rtx); ml = msg_len(hawk_rtx_geterrbmsg(rtx));
		if (sh->halt_seen) cls = "HALTED";   /* a halted run may legitimately end either way */
		else cls = (errnum == HAWK_ENOERR)? "VIOL_ERRNUM0": (ml == 0)? "VIOL_NOMSG": "RUN_ERR";
	}
	ic = ((hawk_rtx_t*)rtx)->gbl.ignorecase;

report:
	sh->phase = 4;
	if (rtx) hawk_rtx_close (rtx);
	sh->phase = 5;
	if (hawk) hawk_close (hawk);
	sh->phase = 0;
	fprintf(proto, "RESULT %s %s stage=%s errnum=%d msglen=%d stmts=%ld halted=%d ic=%d leak=%ld msg=", k->id, cls, stage, errnum, ml,
	       (long)sh->stmts, (int)sh->halt_seen, ic, (long)(mem_blocks - blocks0));
	hexout(proto, last_msg, ml? strlen(last_msg): 0);
	fputs(" out=", proto);
	if (strchr(k->flags, 'o'))
	{
		char buf[4096]; size_t n = 0; f = fopen("out", "rb"); if (f) { n = fread(buf, 1, sizeof(buf), f); fclose(f); }
		hexout(proto, buf, n);
	}
	else fputc('-', proto);
	fputc('\n', proto); fflush(proto);
}

static void worker (size_t from, const char* scratch)
{
	size_t i; struct sigaction sa; int fd; struct rlimit rl;
	if (chdir(scratch) != 0) _exit(90);
	fd = open("err", O_WRONLY | O_CREAT | O_TRUNC, 0600); if (fd >= 0) { dup2(fd, 2); close(fd); }
	fd = open("/dev/null", O_RDONLY); if (fd >= 0) { dup2(fd, 0); close(fd); }
	fd = dup(1); if (fd < 0) _exit(91); fcntl(fd, F_SETFD, FD_CLOEXEC); proto = fdopen(fd, "w"); if (!proto) _exit(91);
	fd = open("/dev/null", O_WRONLY); if (fd >= 0) { dup2(fd, 1); close(fd); }
	rl.rlim_cur = rl.rlim_max = (rlim_t)64 << 20; setrlimit(RLIMIT_FSIZE, &rl);   /* runaway output */
	rl.rlim_cur = rl.rlim_max = 0; setrlimit(RLIMIT_CORE, &rl);
	signal(SIGXFSZ, SIG_IGN); signal(SIGPIPE, SIG_IGN);
	memset(&sa, 0, sizeof(sa)); sa.sa_handler = on_usr1; sigemptyset(&sa.sa_mask); sa.sa_flags = 0; /* like bin/hawk.c: a blocking read/write is interrupted (EINTR) */ sigaction(SIGUSR1, &sa, NULL);
	sa.sa_handler = on_usr2; sigaction(SIGUSR2, &sa, NULL);
	for (i = from; i < ncases; i++)
	{
		if (ftruncate(2, 0) == 0) lseek(2, 0, SEEK_SET);
		sh->stmts = 0; sh->stmts_at_halt = 0; sh->halt_req = 0; sh->halt_seen = 0; sh->phase = 0;
		sh->case_idx = (long)i; sh->start_ns = now_ns(); sh->case_seq++;
		run_case(&cases[i]);
	}
	sh->done = 1;
	fflush(proto);
#if defined(HAWK_VERIF_COVERAGE)
	{ extern void __gcov_dump (void); __gcov_dump(); } /* tools/coverage.py: _exit() skips the counter flush */
#endif
	_exit(0);
}

static int load_cases (const char* path)
{
	FILE* f = fopen(path, "rb"); char line[512]; size_t cap = 0;
	if (!f) return -1;
	while (fgets(line, sizeof(line), f))
	{
		struct kase_t k; memset(&k, 0, sizeof(k));
		if (line[0] == '\n') continue;
		if (sscanf(line, "CASE %63s %15s %15s %zu %zu", k.id, k.traits, k.flags, &k.srclen, &k.inlen) != 5) { fprintf(stderr, "bad case header: %s", line); return -1; }
		k.src = malloc(k.srclen + 1); k.in = malloc(k.inlen + 1);
		if (fread(k.src, 1, k.srclen, f) != k.srclen) return -1; k.src[k.srclen] = 0; fgetc(f);
		if (fread(k.in, 1, k.inlen, f) != k.inlen) return -1; k.in[k.inlen] = 0; fgetc(f);
		if (ncases == cap) { cap = cap? cap * 2: 256; cases = realloc(cases, cap * sizeof(*cases)); }
		cases[ncases++] = k;
	}
	fclose(f); return 0;
}

int main (int argc, char** argv)
{
	long soft_ms, hard_ms; size_t next = 0; const char* scratch; char errpath[512];
	if (argc < 5) { fprintf(stderr, "usage: crash_h casefile soft_ms hard_ms scratchdir\n"); return 2; }
	soft_ms = atol(argv[2]); hard_ms = atol(argv[3]); scratch = argv[4];
	if (load_cases(argv[1]) != 0) { fprintf(stderr, "cannot load cases\n"); return 2; }
	mkdir(scratch, 0700);
	snprintf(errpath, sizeof(errpath), "%s/err", scratch);
	sh = mmap(NULL, sizeof(*sh), PROT_READ | PROT_WRITE, MAP_SHARED | MAP_ANONYMOUS, -1, 0);
	if (sh == MAP_FAILED) return 2;
	setvbuf(stdout, NULL, _IOLBF, 0);

	while (next < ncases)
	{
		pid_t pid; int status = 0, ended = 0; long long last_sig = 0;
		memset((void*)sh, 0, sizeof(*sh)); sh->case_idx = (long)next; sh->start_ns = now_ns();
		fflush(stdout);
		pid = fork();
		if (pid < 0) return 2;
		if (pid == 0) worker(next, scratch);
		for (;;)
		{
			struct timespec ts = { 0, 5 * 1000000 }; long long el; pid_t w;
			w = waitpid(pid, &status, WNOHANG);
			if (w == pid) { ended = 1; break; }
			nanosleep(&ts, NULL);
			el = (now_ns() - sh->start_ns) / 1000000;
			/* ask to halt, and keep asking (a user would press ^C again): hawk_rtx_loop() clears a request made before it starts */
			if (sh->phase != 0 && el > soft_ms && now_ns() - last_sig > 50 * 1000000LL) { sh->halt_req = 1; last_sig = now_ns(); kill(pid, SIGUSR1); }
			if (sh->phase != 0 && el > soft_ms + hard_ms)
			{
				long ci = sh->case_idx; int ph = sh->phase; long s0 = sh->stmts_at_halt, s1 = sh->stmts;
				struct timespec t3 = { 0, 400 * 1000000 }; FILE* f; char buf[16384]; size_t n = 0;
				kill(pid, SIGUSR2); nanosleep(&t3, NULL);
				kill(pid, SIGKILL); waitpid(pid, &status, 0);
				printf("RESULT %s WEDGE phase=%s stmts_at_halt=%ld stmts_now=%ld halt_seen=%d\n", cases[ci].id, phase_name[ph], s0, s1, (int)sh->halt_seen);
				f = fopen(errpath, "rb"); if (f) { n = fread(buf, 1, sizeof(buf), f); fclose(f); }
				printf("STDERR %s ", cases[ci].id); hexout(stdout, buf, n); printf("\n");
				next = (size_t)ci + 1; ended = 2; break;
			}
		}
		if (ended == 1)
		{
			if (sh->done && WIFEXITED(status) && WEXITSTATUS(status) == 0) { next = ncases; break; }
			else
			{
				long ci = sh->case_idx; int ph = sh->phase; FILE* f; char buf[16384]; size_t n = 0;
				if (WIFSIGNALED(status)) printf("RESULT %s CRASH sig=%d phase=%s stmts=%ld\n", cases[ci].id, WTERMSIG(status), phase_name[ph], (long)sh->stmts);
				else printf("RESULT %s CRASH exit=%d phase=%s stmts=%ld\n", cases[ci].id, WEXITSTATUS(status), phase_name[ph], (long)sh->stmts);
				f = fopen(errpath, "rb"); if (f) { n = fread(buf, 1, sizeof(buf), f); fclose(f); }
				printf("STDERR %s ", cases[ci].id); hexout(stdout, buf, n); printf("\n");
				next = (size_t)ci + 1;
			}
		}
	}
	fflush(stdout);
	return 0;
}
