/* C13 harness: the real hawk interpreter (same set-up as bin/hawk.c: UTF-8 cmgr, default traits) plus four
 * observation functions callable from the generated hawk program:
 *
 *   out(s)                 write s and a newline to stdout and flush (so everything before a crash survives)
 *   tv(x)                  canonical rendering of a value read from its INTERNAL representation:
 *                          nil | int:<dec> | flt:<%.6g> | str:<hex.hex..> | mbs:<hex..> | char:<hex> | bchar:<hex>
 *                          | map{<keyhex>=<tv>,...} (keys ordered by (length, code units)) | array{<idx>=<tv>,...}
 *   rawmatch(pat, subj, k) the matcher exactly as __substitute_* / tokenize_*_by_rex call it:
 *                          hawk_rtx_buildrex(pat) + hawk_rtx_matchrexwith{oocs,bcs}(rex, subj, subj+k) (NOTBOL when k>0);
 *                          byte matcher when subj is a byte string/byte char.  Returns "p,l" (absolute start, length) or "-".
 *   rawtable(pat, subj, mode)  all raw match results one builtin call can consult (see fnc_rawtable)
 *   gsig()                 "=" when every built-in global other than RSTART/RLENGTH/NF still renders as it did at the
 *                          first call, else "!<name-index>"
 *
 * usage: strfn_h <script.hawk>
 */
#include <hawk-std.h>
#include "hawk-prv.h"
#include <stdio.h>
#include <string.h>
#include <stdlib.h>
#include <locale.h>

typedef struct { char* p; size_t n, cap; } sb_t;
static void sb_put (sb_t* b, const char* s, size_t l)
{
	if (b->n + l + 1 > b->cap) { b->cap = (b->n + l + 1) * 2 + 64; b->p = realloc(b->p, b->cap); }
	memcpy (b->p + b->n, s, l); b->n += l; b->p[b->n] = 0;
}
static void sb_puts (sb_t* b, const char* s) { sb_put (b, s, strlen(s)); }
static void sb_hex_u (sb_t* b, const hawk_ooch_t* p, hawk_oow_t n)
{
	char t[16]; hawk_oow_t i;
	for (i = 0; i < n; i++) { snprintf (t, sizeof t, "%s%x", i ? "." : "", (unsigned)(hawk_oochu_t)p[i]); sb_puts (b, t); }
}
static void sb_hex_b (sb_t* b, const hawk_bch_t* p, hawk_oow_t n)
{
	char t[16]; hawk_oow_t i;
	for (i = 0; i < n; i++) { snprintf (t, sizeof t, "%s%x", i ? "." : "", (unsigned)(unsigned char)p[i]); sb_puts (b, t); }
}

struct kv { const hawk_oocs_t* k; const hawk_val_t* v; };
static int kvcmp (const void* a, const void* b)
{
	const struct kv* x = a; const struct kv* y = b; hawk_oow_t i;
	if (x->k->len != y->k->len) return x->k->len < y->k->len ? -1 : 1;
	for (i = 0; i < x->k->len; i++)
		if (x->k->ptr[i] != y->k->ptr[i]) return (hawk_oochu_t)x->k->ptr[i] < (hawk_oochu_t)y->k->ptr[i] ? -1 : 1;
	return 0;
}

static void render (hawk_rtx_t* rtx, hawk_val_t* v, sb_t* b, int depth)
{
	char t[64];
	switch (HAWK_RTX_GETVALTYPE(rtx, v))
	{
		case HAWK_VAL_NIL: sb_puts (b, "nil"); break;
		case HAWK_VAL_INT: snprintf (t, sizeof t, "int:%lld", (long long)HAWK_RTX_GETINTFROMVAL(rtx, v)); sb_puts (b, t); break;
		case HAWK_VAL_FLT: snprintf (t, sizeof t, "flt:%.6g", (double)((hawk_val_flt_t*)v)->val); sb_puts (b, t); break;
		case HAWK_VAL_CHAR: snprintf (t, sizeof t, "char:%x", (unsigned)(hawk_oochu_t)HAWK_RTX_GETCHARFROMVAL(rtx, v)); sb_puts (b, t); break;
		case HAWK_VAL_BCHR: snprintf (t, sizeof t, "bchar:%x", (unsigned)(unsigned char)HAWK_RTX_GETBCHRFROMVAL(rtx, v)); sb_puts (b, t); break;
		case HAWK_VAL_STR: sb_puts (b, "str:"); sb_hex_u (b, ((hawk_val_str_t*)v)->val.ptr, ((hawk_val_str_t*)v)->val.len); break;
		case HAWK_VAL_MBS: sb_puts (b, "mbs:"); sb_hex_b (b, ((hawk_val_mbs_t*)v)->val.ptr, ((hawk_val_mbs_t*)v)->val.len); break;
		case HAWK_VAL_MAP:
		{
			hawk_val_map_itr_t itr; struct kv* a; size_t n = 0, cap = 16, i;
			a = malloc(cap * sizeof *a);
			if (hawk_rtx_getfirstmapvalitr(rtx, v, &itr))
			{
				do
				{
					if (n >= cap) { cap *= 2; a = realloc(a, cap * sizeof *a); }
					a[n].k = HAWK_VAL_MAP_ITR_KEY(&itr); a[n].v = HAWK_VAL_MAP_ITR_VAL(&itr); n++;
				}
				while (hawk_rtx_getnextmapvalitr(rtx, v, &itr));
			}
			qsort (a, n, sizeof *a, kvcmp);
			sb_puts (b, "map{");
			for (i = 0; i < n; i++)
			{
				if (i) sb_puts (b, ",");
				sb_hex_u (b, a[i].k->ptr, a[i].k->len); sb_puts (b, "=");
				if (depth < 2) render (rtx, (hawk_val_t*)a[i].v, b, depth + 1); else sb_puts (b, "...");
			}
			sb_puts (b, "}");
			free (a);
			break;
		}
		case HAWK_VAL_ARR:
		{
			hawk_arr_t* arr = ((hawk_val_arr_t*)v)->arr; hawk_oow_t i; int first = 1;
			sb_puts (b, "array{");
			for (i = 0; i < HAWK_ARR_SIZE(arr); i++)
			{
				if (!HAWK_ARR_SLOT(arr, i)) continue;
				snprintf (t, sizeof t, "%s%lu=", first ? "" : ",", (unsigned long)i); sb_puts (b, t); first = 0;
				if (depth < 2) render (rtx, (hawk_val_t*)HAWK_ARR_DPTR(arr, i), b, depth + 1); else sb_puts (b, "...");
			}
			sb_puts (b, "}");
			break;
		}
		default: snprintf (t, sizeof t, "other%d", (int)HAWK_RTX_GETVALTYPE(rtx, v)); sb_puts (b, t); break;
	}
}

static int ret_bcstr (hawk_rtx_t* rtx, const char* s)
{
	hawk_val_t* r = hawk_rtx_makestrvalwithbcstr(rtx, s);
	if (!r) return -1;
	hawk_rtx_setretval (rtx, r);
	return 0;
}

static int fnc_tv (hawk_rtx_t* rtx, const hawk_fnc_info_t* fi)
{
	sb_t b = { 0, 0, 0 }; int x;
	sb_puts (&b, "");
	render (rtx, hawk_rtx_getarg(rtx, 0), &b, 0);
	x = ret_bcstr(rtx, b.p);
	free (b.p);
	return x;
}

static int fnc_out (hawk_rtx_t* rtx, const hawk_fnc_info_t* fi)
{
	hawk_bch_t* s; hawk_oow_t n;
	s = hawk_rtx_valtobcstrdup(rtx, hawk_rtx_getarg(rtx, 0), &n);
	if (!s) return -1;
	fwrite (s, 1, n, stdout); fputc ('\n', stdout); fflush (stdout);
	hawk_rtx_freemem (rtx, s);
	hawk_rtx_setretval (rtx, hawk_rtx_makeintval(rtx, 0));
	return 0;
}

static int fnc_rawmatch (hawk_rtx_t* rtx, const hawk_fnc_info_t* fi)
{
	hawk_val_t* a0 = hawk_rtx_getarg(rtx, 0), * a1 = hawk_rtx_getarg(rtx, 1);
	hawk_int_t k; hawk_oocs_t pat; hawk_tre_t* rex = HAWK_NULL; char t[64]; int n;
	hawk_val_type_t vt = HAWK_RTX_GETVALTYPE(rtx, a1);

	if (hawk_rtx_valtoint(rtx, hawk_rtx_getarg(rtx, 2), &k) <= -1) return -1;
	pat.ptr = hawk_rtx_getvaloocstr(rtx, a0, &pat.len);
	if (!pat.ptr) return -1;
	n = hawk_rtx_buildrex(rtx, pat.ptr, pat.len, &rex, HAWK_NULL);
	hawk_rtx_freevaloocstr (rtx, a0, pat.ptr);
	if (n <= -1) return ret_bcstr(rtx, "E");

	if (vt == HAWK_VAL_MBS || vt == HAWK_VAL_BCHR)
	{
		hawk_bcs_t s, cur, mat;
		s.ptr = hawk_rtx_getvalbcstr(rtx, a1, &s.len);
		if (!s.ptr) { hawk_rtx_freerex (rtx, rex, HAWK_NULL); return -1; }
		if (k < 0 || (hawk_oow_t)k > s.len) strcpy (t, "-");
		else
		{
			cur.ptr = s.ptr + k; cur.len = s.len - k;
			n = hawk_rtx_matchrexwithbcs(rtx, rex, &s, &cur, &mat, HAWK_NULL);
			if (n <= -1) strcpy (t, "E");
			else if (n == 0) strcpy (t, "-");
			else snprintf (t, sizeof t, "%ld,%lu", (long)(mat.ptr - s.ptr), (unsigned long)mat.len);
		}
		hawk_rtx_freevalbcstr (rtx, a1, s.ptr);
	}
	else
	{
		hawk_oocs_t s, cur, mat;
		s.ptr = hawk_rtx_getvaloocstr(rtx, a1, &s.len);
		if (!s.ptr) { hawk_rtx_freerex (rtx, rex, HAWK_NULL); return -1; }
		if (k < 0 || (hawk_oow_t)k > s.len) strcpy (t, "-");
		else
		{
			cur.ptr = s.ptr + k; cur.len = s.len - k;
			n = hawk_rtx_matchrexwithoocs(rtx, rex, &s, &cur, &mat, HAWK_NULL);
			if (n <= -1) strcpy (t, "E");
			else if (n == 0) strcpy (t, "-");
			else snprintf (t, sizeof t, "%ld,%lu", (long)(mat.ptr - s.ptr), (unsigned long)mat.len);
		}
		hawk_rtx_freevaloocstr (rtx, a1, s.ptr);
	}
	hawk_rtx_freerex (rtx, rex, HAWK_NULL);
	hawk_rtx_seterrnum (rtx, HAWK_NULL, HAWK_ENOERR);
	return ret_bcstr(rtx, t);
}

/* rawtable(pat, subj, mode): the whole matcher table one builtin call can consult, as text
 *   mode 0 (sub/gsub/split): subject converted as those builtins do (bytes iff MBS/BCHR); one entry per start offset k in 0..n
 *   mode 1 (match):          subject converted as __fnc_match does (bytes iff MBS); one entry per suffix, matched as a
 *                            string of its own (str == substr, no NOTBOL), k = 0
 * entry = <c|b>:<pattern hex>:<subject hex>:<k>=<p>,<l> | ...=-     */
#define FREEREX(rtx,rex) do { if ((rtx)->gbl.ignorecase) hawk_rtx_freerex (rtx, HAWK_NULL, rex); else hawk_rtx_freerex (rtx, rex, HAWK_NULL); } while (0)

static int fnc_rawtable (hawk_rtx_t* rtx, const hawk_fnc_info_t* fi)
{
	hawk_val_t* a0 = hawk_rtx_getarg(rtx, 0), * a1 = hawk_rtx_getarg(rtx, 1);
	hawk_int_t mode; hawk_oocs_t pat; hawk_tre_t* rex = HAWK_NULL; char t[64]; int n, x, bytes;
	hawk_val_type_t vt = HAWK_RTX_GETVALTYPE(rtx, a1);
	sb_t b = { 0, 0, 0 }, ph = { 0, 0, 0 };
	hawk_oow_t k;

	if (hawk_rtx_valtoint(rtx, hawk_rtx_getarg(rtx, 2), &mode) <= -1) return -1;
	pat.ptr = hawk_rtx_getvaloocstr(rtx, a0, &pat.len);
	if (!pat.ptr) return -1;
	sb_puts (&ph, ""); sb_hex_u (&ph, pat.ptr, pat.len);
	/* the same compilation the builtins use: the case-insensitive one while IGNORECASE is set */
	n = rtx->gbl.ignorecase? hawk_rtx_buildrex(rtx, pat.ptr, pat.len, HAWK_NULL, &rex): hawk_rtx_buildrex(rtx, pat.ptr, pat.len, &rex, HAWK_NULL);
	hawk_rtx_freevaloocstr (rtx, a0, pat.ptr);
	if (n <= -1) { free (ph.p); hawk_rtx_seterrnum (rtx, HAWK_NULL, HAWK_ENOERR); return ret_bcstr(rtx, "E"); }
	sb_puts (&b, "");
	bytes = (mode == 0) ? (vt == HAWK_VAL_MBS || vt == HAWK_VAL_BCHR) : (vt == HAWK_VAL_MBS);
	if (bytes)
	{
		hawk_bcs_t s, cur, mat, whole;
		s.ptr = hawk_rtx_getvalbcstr(rtx, a1, &s.len);
		if (!s.ptr) { FREEREX (rtx, rex); return -1; }
		for (k = 0; k <= s.len; k++)
		{
			if (mode == 0) { whole = s; cur.ptr = s.ptr + k; cur.len = s.len - k; }
			else { whole.ptr = s.ptr + k; whole.len = s.len - k; cur = whole; }
			n = hawk_rtx_matchrexwithbcs(rtx, rex, &whole, &cur, &mat, HAWK_NULL);
			sb_puts (&b, k ? " b:" : "b:"); sb_puts (&b, ph.p); sb_puts (&b, ":");
			sb_hex_b (&b, whole.ptr, whole.len);
			if (n <= -1) snprintf (t, sizeof t, ":%lu=E", (unsigned long)(mode == 0 ? k : 0));
			else if (n == 0) snprintf (t, sizeof t, ":%lu=-", (unsigned long)(mode == 0 ? k : 0));
			else snprintf (t, sizeof t, ":%lu=%ld,%lu", (unsigned long)(mode == 0 ? k : 0), (long)(mat.ptr - whole.ptr), (unsigned long)mat.len);
			sb_puts (&b, t);
		}
		hawk_rtx_freevalbcstr (rtx, a1, s.ptr);
	}
	else
	{
		hawk_oocs_t s, cur, mat, whole;
		s.ptr = hawk_rtx_getvaloocstr(rtx, a1, &s.len);
		if (!s.ptr) { FREEREX (rtx, rex); return -1; }
		for (k = 0; k <= s.len; k++)
		{
			if (mode == 0) { whole = s; cur.ptr = s.ptr + k; cur.len = s.len - k; }
			else { whole.ptr = s.ptr + k; whole.len = s.len - k; cur = whole; }
			n = hawk_rtx_matchrexwithoocs(rtx, rex, &whole, &cur, &mat, HAWK_NULL);
			sb_puts (&b, k ? " c:" : "c:"); sb_puts (&b, ph.p); sb_puts (&b, ":");
			sb_hex_u (&b, whole.ptr, whole.len);
			if (n <= -1) snprintf (t, sizeof t, ":%lu=E", (unsigned long)(mode == 0 ? k : 0));
			else if (n == 0) snprintf (t, sizeof t, ":%lu=-", (unsigned long)(mode == 0 ? k : 0));
			else snprintf (t, sizeof t, ":%lu=%ld,%lu", (unsigned long)(mode == 0 ? k : 0), (long)(mat.ptr - whole.ptr), (unsigned long)mat.len);
			sb_puts (&b, t);
		}
		hawk_rtx_freevaloocstr (rtx, a1, s.ptr);
	}
	FREEREX (rtx, rex);
	hawk_rtx_seterrnum (rtx, HAWK_NULL, HAWK_ENOERR);
	x = ret_bcstr(rtx, b.p);
	free (b.p); free (ph.p);
	return x;
}

static char* gsnap[HAWK_MAX_GBL_ID + 1];
static int gsnap_set = 0;

static int fnc_gsig (hawk_rtx_t* rtx, const hawk_fnc_info_t* fi)
{
	int id; char t[32]; strcpy (t, "=");
	for (id = HAWK_MIN_GBL_ID; id <= HAWK_MAX_GBL_ID; id++)
	{
		sb_t b = { 0, 0, 0 };
		if (id == HAWK_GBL_RSTART || id == HAWK_GBL_RLENGTH || id == HAWK_GBL_NF) continue;
		sb_puts (&b, "");
		render (rtx, hawk_rtx_getgbl(rtx, id), &b, 0);
		if (!gsnap_set) gsnap[id] = b.p;
		else
		{
			if (strcmp(gsnap[id], b.p) != 0 && t[0] == '=') snprintf (t, sizeof t, "!%d", id);
			free (b.p);
		}
	}
	gsnap_set = 1;
	return ret_bcstr(rtx, t);
}

static int addfn (hawk_t* hawk, const char* name, hawk_oow_t min, hawk_oow_t max, hawk_fnc_impl_t impl)
{
	hawk_fnc_mspec_t spec;
	memset (&spec, 0, sizeof spec);
	spec.arg.min = min; spec.arg.max = max; spec.arg.spec = HAWK_NULL; spec.impl = impl; spec.trait = 0;
	return hawk_addfncwithbcstr(hawk, name, &spec) ? 0 : -1;
}

int main (int argc, char* argv[])
{
	hawk_t* hawk; hawk_rtx_t* rtx; hawk_val_t* retv; hawk_parsestd_t psin[2]; int ret = 3;

	setlocale (LC_ALL, "");
	if (argc < 2) { fprintf (stderr, "usage: %s script\n", argv[0]); return 2; }
	hawk = hawk_openstdwithmmgr(hawk_get_sys_mmgr(), 0, hawk_get_cmgr_by_id(HAWK_CMGR_UTF8), HAWK_NULL);
	if (!hawk) { fprintf (stderr, "cannot open hawk\n"); return 3; }
	{
		hawk_oow_t tmp = 50;
		hawk_setopt (hawk, HAWK_OPT_DEPTH_BLOCK_PARSE, &tmp);
		hawk_setopt (hawk, HAWK_OPT_DEPTH_EXPR_PARSE, &tmp);
		tmp = 500;
		hawk_setopt (hawk, HAWK_OPT_DEPTH_BLOCK_RUN, &tmp);
		hawk_setopt (hawk, HAWK_OPT_DEPTH_EXPR_RUN, &tmp);
	}
	if (addfn(hawk, "tv", 1, 1, fnc_tv) <= -1 || addfn(hawk, "out", 1, 1, fnc_out) <= -1 ||
	    addfn(hawk, "rawmatch", 3, 3, fnc_rawmatch) <= -1 || addfn(hawk, "rawtable", 3, 3, fnc_rawtable) <= -1 || addfn(hawk, "gsig", 0, 0, fnc_gsig) <= -1)
	{
		fprintf (stderr, "cannot add functions\n"); return 3;
	}

	memset (psin, 0, sizeof psin);
	psin[0].type = HAWK_PARSESTD_FILEB;
	psin[0].u.fileb.path = argv[1];
	psin[1].type = HAWK_PARSESTD_NULL;
	if (hawk_parsestd(hawk, psin, HAWK_NULL) <= -1)
	{
		hawk_logbfmt (hawk, HAWK_LOG_STDERR, "ERROR(parse): %js\n", hawk_geterrmsg(hawk));
		printf ("PARSE-ERROR\n");
		ret = 4; goto done;
	}
	rtx = hawk_rtx_openstd(hawk, 0, HAWK_T("strfn_h"), HAWK_NULL, HAWK_NULL, HAWK_NULL);
	if (!rtx) { fprintf (stderr, "cannot open rtx\n"); ret = 3; goto done; }
	retv = hawk_rtx_loop(rtx);
	if (!retv)
	{
		hawk_logbfmt (hawk, HAWK_LOG_STDERR, "ERROR(run): %js\n", hawk_rtx_geterrmsg(rtx));
		printf ("RUN-ERROR\n");
		ret = 5;
	}
	else { hawk_rtx_refdownval (rtx, retv); ret = 0; }
	fflush (stdout);
	hawk_rtx_close (rtx);
done:
	hawk_close (hawk);
	return ret;
}
