/* C05 correspondence harness: runs generated hawk programs IN-PROCESS against the real interpreter
 * (libhawk.a built from the working tree) with runtime I/O handlers that (1) log every call
 * (OPEN/WRITE/WRITEB/FLUSH/CLOSE/NEXT/READ with stream identity, key, offered data) and
 * (2) answer from a reply script indexed by the global handler call number:
 *     A = accept everything, a<k> = accept min(k,len), e = 0 (end of stream), f = -1 (failure);
 *     past the end of the script every call is answered 'A'.
 * Input protocol (same lines go to `hawkdrv rio`):
 *     case <tol 0|1> <ors> <script tokens separated by ','  or '-'>
 *     p  <outkind> <name|-> <s|b> <item,item,...|->      print   (s: string items, b: @b"" byte-string items; '-' = no args)
 *     pf <outkind> <name|-> <s|b> <payload|->            printf  (format without %)
 *     c  <name> [r|w]                                    close()
 *     ff                                                 fflush()
 *     ffn <name|->                                       fflush(name)   ('-' = "")
 *     g  <inkind> <name|->                               getline
 *     no                                                 nextofile
 *     end
 * outkind: file apfile pipe rwpipe console ; inkind: file pipe rwpipe console. '$' in ors/payload = newline.
 * Output: one `S <i> [chain dump]` line before each statement (and one after the last), `H ...` per
 * handler call, `R <v>` per statement value, `L ok|err` for hawk_rtx_loop, `Z [..]` around hawk_rtx_close.
 * The chain dump walks the REAL rtx->rio.chain (type, mask, mode, name, rwcstate, out.eof/eos, in.eof/eos). */
#include <hawk-prv.h>
#include <hawk-std.h>
#include <stdio.h>
#include <stdarg.h>
#include <stdlib.h>
#include <string.h>
#include <signal.h>
#include <unistd.h>
#include <stdint.h>

#define MAXTOK 256
static char script[MAXTOK][16]; static int nscript; static long callno; static long serial; static long readno;
static hawk_rtx_t* cur_rtx;

static void on_alarm (int sig) { printf("HANG\n"); fflush(stdout); _exit(3); }

static const char* tyname (int t) { switch (t & 0xFF) { case HAWK_RIO_PIPE: return "pipe"; case HAWK_RIO_FILE: return "file"; case HAWK_RIO_CONSOLE: return "console"; default: return "?"; } }
static const char* maskname (int t) { switch (t & 0xFF00) { case 0x100: return "rd"; case 0x200: return "wr"; case 0x400: return "rw"; default: return "?"; } }

static void put_name (const hawk_ooch_t* s)
{
	if (!s || !*s) { putchar('-'); return; }
	for (; *s; s++) putchar((*s == '\n') ? '$' : (*s >= 32 && *s < 127) ? (char)*s : '?');
}

static void dump_chain (const char* tag, long i)
{
	hawk_rio_arg_t* p; int first = 1;
	if (i >= 0) printf("%s %ld [", tag, i); else printf("%s [", tag);
	for (p = cur_rtx->rio.chain; p; p = p->next)
	{
		printf("%s%ld:%s/%s/%d/", first ? "" : " ", (long)(intptr_t)p->handle, tyname(p->type), maskname(p->type), (int)p->mode);
		put_name(p->name);
		printf("/%d/%d%d%d%d", (int)p->rwcstate, !!p->out.eof, !!p->out.eos, !!p->in.eof, !!p->in.eos);
		first = 0;
	}
	printf("]\n");
}

static const char* next_reply (void)
{
	const char* r = (callno < nscript) ? script[callno] : "A";
	callno++;
	return r;
}

static hawk_ooi_t handler (hawk_rtx_t* rtx, hawk_rio_cmd_t cmd, hawk_rio_arg_t* p, void* data, hawk_oow_t size)
{
	long cn = callno;
	const char* r;
	/* a case makes a few hundred handler calls at most. an interpreter that goes on calling the handler
	 * (e.g. NEXT answered 'ok' for ever) is reported as a hang at once instead of after gigabytes of log */
	if (callno > 5000) { printf("HANG\n"); fflush(stdout); _exit(3); }
	r = next_reply();
	hawk_ooi_t ret = 0;
	hawk_oow_t i;

	switch (cmd)
	{
		case HAWK_RIO_CMD_OPEN:
			if (r[0] == 'f') ret = -1;
			else { ret = 1; p->handle = (void*)(intptr_t)(++serial); }
			printf("H %ld OPEN ", cn);
			if (ret >= 0) printf("%ld", serial); else printf("-");
			printf(" %s %s %d ", tyname(p->type), maskname(p->type), (int)p->mode); put_name(p->name);
			printf(" -> %s\n", ret < 0 ? "fail" : "ok");
			return ret;

		case HAWK_RIO_CMD_WRITE:
		case HAWK_RIO_CMD_WRITE_BYTES:
			if (r[0] == 'f') ret = -1;
			else if (r[0] == 'e') ret = 0;
			else if (r[0] == 'a') { long k = atol(r + 1); if (k < 1) k = 1; ret = ((hawk_oow_t)k < size) ? k : (hawk_ooi_t)size; }
			else ret = (hawk_ooi_t)size;
			printf("H %ld %s %ld %s %s ", cn, cmd == HAWK_RIO_CMD_WRITE ? "WRITE" : "WRITEB", (long)(intptr_t)p->handle, tyname(p->type), maskname(p->type)); put_name(p->name);
			printf(" ");
			if (size == 0) putchar('-');
			for (i = 0; i < size; i++)
			{
				int c = (cmd == HAWK_RIO_CMD_WRITE) ? (int)((hawk_ooch_t*)data)[i] : (int)((hawk_bch_t*)data)[i];
				putchar(c == '\n' ? '$' : (c >= 32 && c < 127) ? c : '?');
			}
			if (ret < 0) printf(" -> fail\n"); else if (ret == 0) printf(" -> eof\n"); else printf(" -> %ld\n", (long)ret);
			return ret;

		case HAWK_RIO_CMD_READ:
		case HAWK_RIO_CMD_READ_BYTES:
			if (r[0] == 'f') ret = -1;
			else if (r[0] == 'e') ret = 0;
			else
			{
				/* exactly one complete line per call, so the read buffer is empty at every getline boundary */
				char tmp[32]; int n = snprintf(tmp, sizeof(tmp), "r%ld\n", ++readno);
				for (i = 0; i < (hawk_oow_t)n; i++)
				{
					if (cmd == HAWK_RIO_CMD_READ) ((hawk_ooch_t*)data)[i] = tmp[i]; else ((hawk_bch_t*)data)[i] = tmp[i];
				}
				ret = n;
			}
			printf("H %ld READ %ld %s %s ", cn, (long)(intptr_t)p->handle, tyname(p->type), maskname(p->type)); put_name(p->name);
			printf(" -> %s\n", ret < 0 ? "fail" : ret == 0 ? "eof" : "ok");
			return ret;

		case HAWK_RIO_CMD_FLUSH:
			ret = (r[0] == 'f') ? -1 : 0;
			printf("H %ld FLUSH %ld %s %s ", cn, (long)(intptr_t)p->handle, tyname(p->type), maskname(p->type)); put_name(p->name);
			printf(" -> %s\n", ret < 0 ? "fail" : "ok");
			return ret;

		case HAWK_RIO_CMD_CLOSE:
			ret = (r[0] == 'f') ? -1 : 0;
			printf("H %ld CLOSE %ld %s %s ", cn, (long)(intptr_t)p->handle, tyname(p->type), maskname(p->type)); put_name(p->name);
			printf(" %d -> %s\n", (int)p->rwcmode, ret < 0 ? "fail" : "ok");
			return ret;

		case HAWK_RIO_CMD_NEXT:
			ret = (r[0] == 'f') ? -1 : (r[0] == 'e') ? 0 : 1;
			printf("H %ld NEXT %ld %s %s ", cn, (long)(intptr_t)p->handle, tyname(p->type), maskname(p->type)); put_name(p->name);
			printf(" -> %s\n", ret < 0 ? "fail" : ret == 0 ? "eof" : "ok");
			return ret;
	}
	printf("H %ld UNKNOWN %d\n", cn, (int)cmd);
	return -1;
}

/* M(i): statement marker + chain dump ; R(v): statement value */
static int fnc_M (hawk_rtx_t* rtx, const hawk_fnc_info_t* fi)
{
	hawk_int_t v = 0;
	hawk_rtx_valtoint(rtx, hawk_rtx_getarg(rtx, 0), &v);
	dump_chain("S", (long)v);
	hawk_rtx_setretval(rtx, hawk_rtx_makeintval(rtx, 0));
	return 0;
}
static int fnc_R (hawk_rtx_t* rtx, const hawk_fnc_info_t* fi)
{
	hawk_int_t v = 0;
	hawk_rtx_valtoint(rtx, hawk_rtx_getarg(rtx, 0), &v);
	printf("R %ld\n", (long)v);
	hawk_rtx_setretval(rtx, hawk_rtx_makeintval(rtx, 0));
	return 0;
}

/* ---------------------------------------------------------------- program construction */
static char prog[1 << 16]; static size_t plen; static int nstmt; static int tolerant;
static void padd (const char* fmt, ...)
{
	va_list ap; va_start(ap, fmt);
	plen += vsnprintf(prog + plen, sizeof(prog) - plen, fmt, ap);
	va_end(ap);
	if (plen > sizeof(prog) - 256) plen = sizeof(prog) - 256;
}
static void padd_str (const char* s, int bytes) /* hawk string literal; '$' -> \n ; "-" -> empty */
{
	padd(bytes ? "@b\"" : "\"");
	if (strcmp(s, "-") != 0) for (; *s; s++) { if (*s == '$') padd("\\n"); else padd("%c", *s); }
	padd("\"");
}
static const char* redir (const char* kind)
{
	if (!strcmp(kind, "file")) return ">"; if (!strcmp(kind, "apfile")) return ">>";
	if (!strcmp(kind, "pipe")) return "|"; if (!strcmp(kind, "rwpipe")) return "||";
	return NULL;
}

static void add_print (int isprintf, char* kind, char* name, char* mode, char* items)
{
	int bytes = (mode[0] == 'b');
	const char* rd = redir(kind);
	padd("M(%d); ", nstmt++);
	if (tolerant) padd("R((");
	padd(isprintf ? "printf " : "print ");
	if (isprintf) padd_str(items, bytes);
	else if (strcmp(items, "-") == 0)
	{
		/* "(print)" does not parse as an expression; "print $0" makes the same two writes ($0 is empty in BEGIN) */
		if (tolerant && !rd) padd("$0");
	}
	else
	{
		char* save; char* it; int first = 1; char tmp[4096];
		snprintf(tmp, sizeof(tmp), "%s", items);
		/* an item written as '_' is the empty string */
		for (it = strtok_r(tmp, ",", &save); it; it = strtok_r(NULL, ",", &save))
		{
			if (!first) padd(", ");
			padd_str(strcmp(it, "_") ? it : "-", bytes);
			first = 0;
		}
	}
	if (rd) { padd(" %s ", rd); padd_str(name, 0); }
	if (tolerant) padd("))");
	padd("; ");
}

static int run_case (void)
{
	hawk_t* hawk; hawk_rtx_t* rtx; hawk_val_t* rv; hawk_errnum_t en; int trait;
	hawk_parsestd_t in[2]; hawk_fnc_mspec_t spec; hawk_rio_cbs_t cbs;

	printf("# %s\n", prog);
	hawk = hawk_openstd(0, &en);
	if (!hawk) { printf("X openstd failed\n"); return -1; }
	hawk_getopt(hawk, HAWK_OPT_TRAIT, &trait);
	trait |= HAWK_RIO | HAWK_RWPIPE | HAWK_NEXTOFILE;
	if (tolerant) trait |= HAWK_TOLERANT; else trait &= ~HAWK_TOLERANT;
	hawk_setopt(hawk, HAWK_OPT_TRAIT, &trait);

	memset(&spec, 0, sizeof(spec));
	spec.arg.min = 1; spec.arg.max = 1; spec.impl = fnc_M;
	if (!hawk_addfncwithbcstr(hawk, "M", &spec)) { printf("X addfnc failed\n"); hawk_close(hawk); return -1; }
	spec.impl = fnc_R;
	if (!hawk_addfncwithbcstr(hawk, "R", &spec)) { printf("X addfnc failed\n"); hawk_close(hawk); return -1; }

	memset(in, 0, sizeof(in));
	in[0].type = HAWK_PARSESTD_BCS; in[0].u.bcs.ptr = prog; in[0].u.bcs.len = strlen(prog);
	in[1].type = HAWK_PARSESTD_NULL;
	if (hawk_parsestd(hawk, in, HAWK_NULL) <= -1)
	{
		printf("X parse failed: %d\n", (int)hawk_geterrnum(hawk));
		hawk_close(hawk); return -1;
	}
	rtx = hawk_rtx_openstdwithbcstr(hawk, 0, "rio_h", HAWK_NULL, HAWK_NULL, HAWK_NULL);
	if (!rtx) { printf("X rtx open failed\n"); hawk_close(hawk); return -1; }
	cbs.pipe = handler; cbs.file = handler; cbs.console = handler;
	hawk_rtx_setrio(rtx, &cbs);
	cur_rtx = rtx;

	rv = hawk_rtx_loop(rtx);
	if (rv) { printf("L ok\n"); hawk_rtx_refdownval(rtx, rv); }
	else printf("L err\n");
	dump_chain("Z", -1);
	hawk_rtx_close(rtx);
	printf("Z done\n");
	hawk_close(hawk);
	return 0;
}

int main (int argc, char** argv)
{
	static char line[1 << 16];
	int wd = (argc > 1) ? atoi(argv[1]) : 20;
	signal(SIGALRM, on_alarm);
	setvbuf(stdout, NULL, _IOFBF, 1 << 16);
	while (fgets(line, sizeof(line), stdin))
	{
		char* w[8]; int nw = 0; char* save; char* t;
		for (t = strtok_r(line, " \t\r\n", &save); t && nw < 8; t = strtok_r(NULL, " \t\r\n", &save)) w[nw++] = t;
		if (nw == 0 || w[0][0] == '#') continue;
		if (!strcmp(w[0], "case") && nw >= 4)
		{
			char* s2; char* tk;
			tolerant = atoi(w[1]); nscript = 0; callno = 0; serial = 0; readno = 0; plen = 0; nstmt = 0; prog[0] = 0;
			if (strcmp(w[3], "-") != 0)
				for (tk = strtok_r(w[3], ",", &s2); tk && nscript < MAXTOK; tk = strtok_r(NULL, ",", &s2)) snprintf(script[nscript++], 16, "%s", tk);
			padd("BEGIN { ORS = "); padd_str(w[2], 0); padd("; ");
			printf("C %d\n", tolerant);
		}
		else if (!strcmp(w[0], "p") && nw >= 5) add_print(0, w[1], w[2], w[3], w[4]);
		else if (!strcmp(w[0], "pf") && nw >= 5) add_print(1, w[1], w[2], w[3], w[4]);
		else if (!strcmp(w[0], "c") && nw >= 2)
		{
			padd("M(%d); R(close(", nstmt++); padd_str(w[1], 0);
			if (nw >= 3) { padd(", "); padd_str(w[2], 0); }
			padd(")); ");
		}
		else if (!strcmp(w[0], "ff")) padd("M(%d); R(fflush()); ", nstmt++);
		else if (!strcmp(w[0], "ffn") && nw >= 2) { padd("M(%d); R(fflush(", nstmt++); padd_str(w[1], 0); padd(")); "); }
		else if (!strcmp(w[0], "g") && nw >= 3)
		{
			padd("M(%d); R((", nstmt++);
			if (!strcmp(w[1], "file")) { padd("getline x < "); padd_str(w[2], 0); }
			else if (!strcmp(w[1], "pipe")) { padd_str(w[2], 0); padd(" | getline x"); }
			else if (!strcmp(w[1], "rwpipe")) { padd_str(w[2], 0); padd(" || getline x"); }
			else padd("getline x");
			padd(")); ");
		}
		else if (!strcmp(w[0], "no")) padd("M(%d); nextofile; ", nstmt++);
		else if (!strcmp(w[0], "end"))
		{
			padd("M(%d); }", nstmt);
			alarm(wd);
			run_case();
			alarm(0);
			fflush(stdout);
		}
		else printf("X bad line %s\n", w[0]);
	}
	return 0;
}
