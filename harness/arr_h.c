/* C19 correspondence harness: drives the real hawk_arr_* (from /repo working tree, linked
 * from the freshly built libhawk.a) with the line protocol of lean/HawkModel/Drv/Arr.lean.
 * Payloads are small integers stored as the data pointer (SIMPLE copier), so the
 * "same pointer and length" branch of hawk_arr_update is the model's `c = v` branch.
 * The allocator is scripted per op: 's' = succeed, 'f' = refuse, exhausted = succeed.
 * A watchdog (alarm + SIGKILL-grade _exit) turns a call that never returns into a
 * "HANG" line so that non-termination is an observable disagreement. */
#include <hawk-arr.h>
#include <stdio.h>
#include <stdlib.h>
#include <string.h>
#include <signal.h>
#include <unistd.h>
#include <stdint.h>

static const char* orc = "";
static void* m_alloc (hawk_mmgr_t* m, hawk_oow_t n) { if (*orc) { char c = *orc++; if (c == 'f') return NULL; } return malloc(n); }
static void* m_realloc (hawk_mmgr_t* m, void* p, hawk_oow_t n) { if (*orc) { char c = *orc++; if (c == 'f') return NULL; } return realloc(p, n); }
static void m_free (hawk_mmgr_t* m, void* p) { free(p); }
static hawk_mmgr_t mmgr = { m_alloc, m_realloc, m_free, NULL };

static char evbuf[1 << 20]; static size_t evlen;
static void ev (char k, void* p) { evlen += snprintf(evbuf + evlen, sizeof(evbuf) - evlen, "%s%c%lu", evlen ? "," : "", k, (unsigned long)(uintptr_t)p - 1); if (evlen > sizeof(evbuf) - 64) evlen = sizeof(evbuf) - 64; }
static void freeer (hawk_arr_t* a, void* d, hawk_oow_t l) { ev('F', d); }
static void keeper (hawk_arr_t* a, void* d, hawk_oow_t l) { ev('K', d); }
static int comper (hawk_arr_t* a, const void* d1, hawk_oow_t l1, const void* d2, hawk_oow_t l2)
{ uintptr_t x = (uintptr_t)d1, y = (uintptr_t)d2; return (x > y) - (x < y); }
static hawk_arr_style_t style = { HAWK_ARR_COPIER_SIMPLE, freeer, comper, keeper, HAWK_NULL };

/* third array: a heap whose items carry a position back-pointer (hawk_arr_setheapposoffset): the datum is a pointer
 * to a struct pitem and arr.c's HEAP_UPDATE_POS writes the slot index into its pos field after every slot store.
 * New items start with a poison pos so that a store without the update is visible. */
struct pitem { unsigned long key; hawk_oow_t pos; };
#define POISON 777777UL
static struct pitem* mkitem (unsigned long k) { struct pitem* it = malloc(sizeof(*it)); it->key = k; it->pos = POISON; return it; }
static void pfreeer (hawk_arr_t* a, void* d, hawk_oow_t l) { ev('F', (void*)(uintptr_t)(((struct pitem*)d)->key + 1)); free(d); }
static int pcomper (hawk_arr_t* a, const void* d1, hawk_oow_t l1, const void* d2, hawk_oow_t l2)
{ unsigned long x = ((const struct pitem*)d1)->key, y = ((const struct pitem*)d2)->key; return (x > y) - (x < y); }
static hawk_arr_style_t pstyle = { HAWK_ARR_COPIER_SIMPLE, pfreeer, pcomper, HAWK_NULL, HAWK_NULL };

static void dumpp (hawk_arr_t* p)
{
	hawk_oow_t i; int ord = 1, posok = 1;
	printf("p=[");
	for (i = 0; i < p->size; i++)
	{
		struct pitem* it = p->slot[i] ? (struct pitem*)p->slot[i]->val.ptr : NULL;
		if (!it) { printf("%s?:?", i ? ", " : ""); posok = 0; continue; }
		printf("%s%lu:%lu", i ? ", " : "", it->key, (unsigned long)it->pos);
		if (it->pos != i) posok = 0;
		if (i > 0 && p->slot[(i - 1) / 2] && it->key > ((struct pitem*)p->slot[(i - 1) / 2]->val.ptr)->key) ord = 0;
	}
	printf("] ord=%s posok=%s", ord ? "true" : "false", posok ? "true" : "false");
}

static long cur_line;
static void on_alarm (int sig) { printf("HANG\n"); fflush(stdout); _exit(3); }

/* values are stored +1 so that 0 is distinguishable from a null data pointer */
#define ENC(v) ((void*)(uintptr_t)((v) + 1))

static void dump (hawk_arr_t* a)
{
	hawk_oow_t i, gap = 0; int first = 1;
	printf("s=%lu t=%lu c=%lu [", (unsigned long)a->size, (unsigned long)a->tally, (unsigned long)a->capa);
	for (i = 0; i < a->size; i++)
	{
		if (!a->slot[i]) { gap++; continue; }
		if (gap) { printf("%s_x%lu", first ? "" : ",", (unsigned long)gap); first = 0; gap = 0; }
		printf("%s%lu", first ? "" : ",", (unsigned long)(uintptr_t)a->slot[i]->val.ptr - 1); first = 0;
	}
	if (gap) printf("%s_x%lu", first ? "" : ",", (unsigned long)gap);
	printf("]\n");
}

static const char* errname (hawk_gem_t* g)
{
	switch (g->errnum) { case HAWK_ENOMEM: return "ENOMEM"; case HAWK_EINVAL: return "EINVAL"; case HAWK_EBUFFULL: return "EBUFFULL"; default: return "E?"; }
}

static void dumph (hawk_arr_t* h)
{
	hawk_oow_t i; int ord = 1;
	printf("h=[");
	for (i = 0; i < h->size; i++) printf("%s%lu", i ? ", " : "", h->slot[i] ? (unsigned long)(uintptr_t)h->slot[i]->val.ptr - 1 : 999999999UL);
	for (i = 1; i < h->size; i++) if ((uintptr_t)h->slot[i]->val.ptr > (uintptr_t)h->slot[(i - 1) / 2]->val.ptr) ord = 0;
	printf("] ord=%s", ord ? "true" : "false");
}

int main (int argc, char** argv)
{
	static hawk_gem_t gem; hawk_arr_t* a = NULL; hawk_arr_t* h = NULL; hawk_arr_t* p = NULL;
	char line[512], op[32], o[256]; unsigned long x, y;
	int wd = argc > 1 ? atoi(argv[1]) : 10;
	memset(&gem, 0, sizeof(gem)); gem.mmgr = &mmgr;
	signal(SIGALRM, on_alarm);
	while (fgets(line, sizeof(line), stdin))
	{
		hawk_oow_t r;
		cur_line++; evlen = 0; evbuf[0] = 0; orc = ""; o[0] = 0;
		alarm(wd);
		if (sscanf(line, "%31s", op) != 1) { printf("bad-op\n"); continue; }
		if (!strcmp(op, "new"))
		{
			if (a) hawk_arr_close(a); if (h) hawk_arr_close(h); if (p) hawk_arr_close(p);
			a = hawk_arr_open(&gem, 0, 0); hawk_arr_setstyle(a, &style);
			h = hawk_arr_open(&gem, 0, 0); hawk_arr_setstyle(h, &style);
			p = hawk_arr_open(&gem, 0, 0); hawk_arr_setstyle(p, &pstyle);
			hawk_arr_setheapposoffset(p, (hawk_oow_t)&((struct pitem*)0)->pos);
			if (hawk_arr_getheapposoffset(p) != (hawk_oow_t)&((struct pitem*)0)->pos) printf("offset-not-kept ");
			/* the model's maxCapa is (2^64-1)/8: 64-bit words and 8-byte slot pointers */
			if (sizeof(hawk_oow_t) != 8 || sizeof(void*) != 8) printf("word-size-not-modelled ");
			printf("ok\n");
		}
		else if (!a) printf("bad-op\n");
		else if ((!strcmp(op, "insert") || !strcmp(op, "upsert") || !strcmp(op, "update")) && sscanf(line, "%*s %lu %lu %255s", &x, &y, o) == 3)
		{
			orc = o;
			if (op[0] == 'i') r = hawk_arr_insert(a, x, ENC(y), 0);
			else if (op[1] == 'p' && op[2] == 's') r = hawk_arr_upsert(a, x, ENC(y), 0);
			else r = hawk_arr_update(a, x, ENC(y), 0);
			orc = "";
			if (r == HAWK_ARR_NIL) printf("r=%s e=%s ", errname(&gem), evbuf); else printf("r=%lu e=%s ", (unsigned long)r, evbuf);
			dump(a);
		}
		else if ((!strcmp(op, "delete") || !strcmp(op, "uplete")) && sscanf(line, "%*s %lu %lu", &x, &y) == 2)
		{
			r = (op[0] == 'd') ? hawk_arr_delete(a, x, y) : hawk_arr_uplete(a, x, y);
			printf("r=%lu e=%s ", (unsigned long)r, evbuf); dump(a);
		}
		else if (!strcmp(op, "clear")) { hawk_arr_clear(a); printf("r=0 e=%s ", evbuf); dump(a); }
		else if (!strcmp(op, "setcapa") && sscanf(line, "%*s %lu %255s", &x, o) == 2)
		{
			hawk_arr_t* p; orc = o; p = hawk_arr_setcapa(a, x); orc = "";
			printf("r=%s e=%s ", p ? "ok" : "NULL", evbuf); dump(a);
		}
		else if (!strcmp(op, "hpush") && sscanf(line, "%*s %lu", &x) == 1)
		{
			hawk_arr_pushheap(h, ENC(x), 0); dumph(h); printf("\n");
		}
		else if (!strcmp(op, "hdel") && sscanf(line, "%*s %lu", &x) == 1)
		{
			if (x < h->size) { hawk_arr_deleteheap(h, x); dumph(h); printf(" f=%s\n", evbuf[0] ? evbuf + 1 : "0"); }
			else { dumph(h); printf(" f=0\n"); }
		}
		else if (!strcmp(op, "hupd") && sscanf(line, "%*s %lu %lu", &x, &y) == 2)
		{
			if (x < h->size) { hawk_arr_updateheap(h, x, ENC(y), 0); dumph(h); printf(" f=%s\n", evbuf[0] == 'F' ? evbuf + 1 : "-"); }
			else { dumph(h); printf(" f=-\n"); }
		}
		else if (!strcmp(op, "ppush") && sscanf(line, "%*s %lu", &x) == 1)
		{
			struct pitem* it = mkitem(x);
			if (hawk_arr_pushheap(p, it, 0) == HAWK_ARR_NIL) free(it);
			dumpp(p); printf("\n");
		}
		else if ((!strcmp(op, "pdel") && sscanf(line, "%*s %lu", &x) == 1) || !strcmp(op, "ppop"))
		{
			if (op[1] == 'p') x = 0;
			if (x < p->size)
			{
				if (op[1] == 'p') hawk_arr_popheap(p); else hawk_arr_deleteheap(p, x);
				dumpp(p); printf(" f=%s\n", evbuf[0] ? evbuf + 1 : "-");
			}
			else { dumpp(p); printf(" f=-\n"); }
		}
		else if (!strcmp(op, "pupd") && sscanf(line, "%*s %lu %lu", &x, &y) == 2)
		{
			if (x < p->size)
			{
				struct pitem* it = mkitem(y);
				int same = (((struct pitem*)p->slot[x]->val.ptr)->key == y); /* equal keys: updateheap leaves the old item in place */
				hawk_arr_updateheap(p, x, it, 0);
				if (same) free(it);
				dumpp(p); printf(" f=%s\n", evbuf[0] == 'F' ? evbuf + 1 : "-");
			}
			else { dumpp(p); printf(" f=-\n"); }
		}
		else if (!strcmp(op, "spush") && sscanf(line, "%*s %lu %255s", &y, o) == 2)
		{
			orc = o; r = hawk_arr_pushstack(a, ENC(y), 0); orc = "";
			if (r == HAWK_ARR_NIL) printf("r=%s e=%s ", errname(&gem), evbuf); else printf("r=%lu e=%s ", (unsigned long)r, evbuf);
			dump(a);
		}
		else if (!strcmp(op, "spop"))
		{
			if (a->size > 0) hawk_arr_popstack(a);
			printf("r=0 e=%s ", evbuf); dump(a);
		}
		else printf("bad-op\n");
		fflush(stdout);
	}
	alarm(0);
	if (a) hawk_arr_close(a); if (h) hawk_arr_close(h); if (p) hawk_arr_close(p);
	return 0;
}
