/* C10: direct fault enumeration of the allocating wrappers and containers that hawk programs do not reach
 * (gem dup/conv wrappers, ecs variants, htb/rbt/arr growth and the callback inserters, value constructors).
 * Included by oom_h.c (uses its injecting allocator).  One case = one function:
 *    return  0  the call sequence succeeded and released everything it made
 *           -1  an API call reported failure (the case has cleaned up); a->errnum = error number it left
 *            2  the real code broke the property (api_msg says how): wrong content, inconsistent container, ...
 * The driver calls each case with request k refused (one) / all requests from k on refused (from), k = 0,1,2,...
 * until a call completes without reaching the injection point, and prints one line per (case, mode, k):
 *    api=<case> mode=<m> k=<k> rc=<ok|fail|BROKEN> errnum=<n> live=<blocks left over> badfree=<n> hit=<0|1> [msg=...]
 * Each case runs in its own forked child, so that a sanitizer report ends only that case. */

struct api_ctx
{
	hawk_gem_t* gem;   /* a bare gem over the injecting allocator */
	hawk_t* hawk;
	hawk_rtx_t* rtx;
	int errnum;
};
static char api_msg[256];
#define BROKEN(...) do { snprintf(api_msg, sizeof(api_msg), __VA_ARGS__); return 2; } while (0)
#define GFAIL(a) do { (a)->errnum = (a)->gem->errnum; return -1; } while (0)
#define RFAIL(a) do { (a)->errnum = hawk_rtx_geterrnum((a)->rtx); return -1; } while (0)

static const hawk_uch_t U_HELLO[] = { 'h','e','l','l','o',' ',0x00e9,0x4e16,'!',0 };
static const hawk_uch_t U_TWO[] = { 't','w','o',0 };
static const hawk_bch_t B_HELLO[] = "hello \xc3\xa9\xe4\xb8\x96!";

static hawk_oow_t ulen (const hawk_uch_t* s) { hawk_oow_t n = 0; while (s[n]) n++; return n; }

/* ---- gem: plain duplicators */
static int c_gem_dup (struct api_ctx* a)
{
	hawk_oow_t n; hawk_uch_t* u; hawk_bch_t* b; hawk_ucs_t us; hawk_bcs_t bs;
	const hawk_uch_t* ua[3] = { U_HELLO, U_TWO, HAWK_NULL }; const hawk_bch_t* ba[3] = { "one", "three", HAWK_NULL };
	hawk_ucs_t usa[3]; hawk_bcs_t bsa[3];
	u = hawk_gem_dupucstr(a->gem, U_HELLO, &n); if (!u) GFAIL(a); if (n != 9 || memcmp(u, U_HELLO, 10 * sizeof(*u))) BROKEN("dupucstr content"); hawk_gem_freemem(a->gem, u);
	b = hawk_gem_dupbcstr(a->gem, B_HELLO, &n); if (!b) GFAIL(a); if (n != strlen(B_HELLO) || strcmp(b, B_HELLO)) BROKEN("dupbcstr content"); hawk_gem_freemem(a->gem, b);
	u = hawk_gem_dupuchars(a->gem, U_HELLO, 4); if (!u) GFAIL(a); if (u[4] != 0 || u[3] != 'l') BROKEN("dupuchars content"); hawk_gem_freemem(a->gem, u);
	b = hawk_gem_dupbchars(a->gem, B_HELLO, 4); if (!b) GFAIL(a); if (strcmp(b, "hell")) BROKEN("dupbchars content"); hawk_gem_freemem(a->gem, b);
	us.ptr = (hawk_uch_t*)U_TWO; us.len = 3; u = hawk_gem_dupucs(a->gem, &us); if (!u) GFAIL(a); if (u[3] != 0 || u[0] != 't') BROKEN("dupucs content"); hawk_gem_freemem(a->gem, u);
	bs.ptr = (hawk_bch_t*)"seven"; bs.len = 5; b = hawk_gem_dupbcs(a->gem, &bs); if (!b) GFAIL(a); if (strcmp(b, "seven")) BROKEN("dupbcs content"); hawk_gem_freemem(a->gem, b);
	u = hawk_gem_dupucstrarr(a->gem, ua, &n); if (!u) GFAIL(a); if (n != 12 || u[9] != 't' || u[12] != 0) BROKEN("dupucstrarr content"); hawk_gem_freemem(a->gem, u);
	b = hawk_gem_dupbcstrarr(a->gem, ba, &n); if (!b) GFAIL(a); if (n != 8 || strcmp(b, "onethree")) BROKEN("dupbcstrarr content"); hawk_gem_freemem(a->gem, b);
	usa[0].ptr = (hawk_uch_t*)U_TWO; usa[0].len = 3; usa[1].ptr = (hawk_uch_t*)U_HELLO; usa[1].len = 5; usa[2].ptr = HAWK_NULL; usa[2].len = 0;
	u = hawk_gem_dupucsarr(a->gem, usa, &n); if (!u) GFAIL(a); if (n != 8 || u[3] != 'h' || u[8] != 0) BROKEN("dupucsarr content"); hawk_gem_freemem(a->gem, u);
	bsa[0].ptr = (hawk_bch_t*)"ab"; bsa[0].len = 2; bsa[1].ptr = (hawk_bch_t*)"cde"; bsa[1].len = 3; bsa[2].ptr = HAWK_NULL; bsa[2].len = 0;
	b = hawk_gem_dupbcsarr(a->gem, bsa, &n); if (!b) GFAIL(a); if (n != 5 || strcmp(b, "abcde")) BROKEN("dupbcsarr content"); hawk_gem_freemem(a->gem, b);
	return 0;
}

/* ---- gem: converting duplicators */
static int c_gem_conv (struct api_ctx* a)
{
	hawk_oow_t n; hawk_uch_t* u; hawk_bch_t* b;
	const hawk_uch_t* ua[3] = { U_HELLO, U_TWO, HAWK_NULL }; const hawk_bch_t* ba[3] = { B_HELLO, "x", HAWK_NULL };
	u = hawk_gem_dupbtoucstr(a->gem, B_HELLO, &n, 1); if (!u) GFAIL(a); if (n != 9 || memcmp(u, U_HELLO, 10 * sizeof(*u))) BROKEN("dupbtoucstr content"); hawk_gem_freemem(a->gem, u);
	b = hawk_gem_duputobcstr(a->gem, U_HELLO, &n); if (!b) GFAIL(a); if (strcmp(b, B_HELLO)) BROKEN("duputobcstr content"); hawk_gem_freemem(a->gem, b);
	u = hawk_gem_dupbtouchars(a->gem, B_HELLO, 8, &n, 1); if (!u) GFAIL(a); if (n != 7 || u[6] != 0x00e9 || u[7] != 0) BROKEN("dupbtouchars content n=%lu", (unsigned long)n); hawk_gem_freemem(a->gem, u);
	b = hawk_gem_duputobchars(a->gem, U_HELLO, 7, &n); if (!b) GFAIL(a); if (n != 8 || strncmp(b, B_HELLO, 8) || b[8]) BROKEN("duputobchars content"); hawk_gem_freemem(a->gem, b);
	u = hawk_gem_dupb2touchars(a->gem, "ab", 2, B_HELLO, strlen(B_HELLO), &n, 1); if (!u) GFAIL(a); if (n != 11 || u[0] != 'a' || u[2] != 'h' || u[11] != 0) BROKEN("dupb2touchars content"); hawk_gem_freemem(a->gem, u);
	b = hawk_gem_dupu2tobchars(a->gem, U_TWO, 3, U_HELLO, 9, &n); if (!b) GFAIL(a); if (strncmp(b, "two", 3) || strcmp(b + 3, B_HELLO)) BROKEN("dupu2tobchars content"); hawk_gem_freemem(a->gem, b);
	u = hawk_gem_dupbtoucharswithcmgr(a->gem, B_HELLO, strlen(B_HELLO), &n, a->gem->cmgr, 1); if (!u) GFAIL(a); if (n != 9) BROKEN("dupbtoucharswithcmgr length"); hawk_gem_freemem(a->gem, u);
	b = hawk_gem_duputobcharswithcmgr(a->gem, U_HELLO, 9, &n, a->gem->cmgr); if (!b) GFAIL(a); if (n != strlen(B_HELLO)) BROKEN("duputobcharswithcmgr length"); hawk_gem_freemem(a->gem, b);
	u = hawk_gem_dupbcstrarrtoucstr(a->gem, ba, &n, 1); if (!u) GFAIL(a); if (n != 10 || u[9] != 'x') BROKEN("dupbcstrarrtoucstr content"); hawk_gem_freemem(a->gem, u);
	b = hawk_gem_dupucstrarrtobcstr(a->gem, ua, &n); if (!b) GFAIL(a); if (strncmp(b, B_HELLO, strlen(B_HELLO)) || strcmp(b + strlen(B_HELLO), "two")) BROKEN("dupucstrarrtobcstr content"); hawk_gem_freemem(a->gem, b);
	return 0;
}

/* ---- gem: formatting into caller buffers (must not keep anything) and regular expressions */
static int c_gem_fmt_rex (struct api_ctx* a)
{
	hawk_uch_t ub[64]; hawk_bch_t bb[64]; hawk_tre_t* r1 = HAWK_NULL, * r2 = HAWK_NULL;
	static const hawk_uch_t ufmt[] = { '%','d','-','%','h','s','-','%','l','s',0 };
	static const hawk_uch_t pat[] = { 'a','(','b','|','c',')','+','[','x','-','z',']','{','2',',','3','}','$',0 };
	if (hawk_gem_fmttoucstr(a->gem, ub, 64, ufmt, 42, "by", U_TWO) == (hawk_oow_t)-1) GFAIL(a);
	if (ub[0] != '4' || ub[3] != 'b' || ub[6] != 't') BROKEN("fmttoucstr content");
	if (hawk_gem_fmttobcstr(a->gem, bb, 64, "%d-%hs-%ls", 42, "by", U_TWO) == (hawk_oow_t)-1) GFAIL(a);
	if (strcmp(bb, "42-by-two")) BROKEN("fmttobcstr content %s", bb);
	if (hawk_gem_buildrex(a->gem, pat, 18, 0, &r1, &r2) <= -1) GFAIL(a);
	hawk_gem_freerex(a->gem, r1, r2);
	return 0;
}

/* ---- ecs variants, byte and wide: a failed operation must leave the string as it was
 *      (nccat appends character by character: a failure may leave a proper prefix of the run appended) */
static int c_becs (struct api_ctx* a)
{
	hawk_becs_t* s, * t; hawk_bch_t save[256]; hawk_oow_t slen, scapa, r; hawk_bch_t* y;
	static const hawk_bch_t w1[] = "abcdef", w2[] = "XY", w3[] = "0123456789012345678901234567890123456789", f1[] = "%d:%d";
	s = hawk_becs_open(a->gem, 16, 4); if (!s) GFAIL(a);
	t = hawk_becs_open(a->gem, 0, 0); if (!t) { int e = a->gem->errnum; hawk_becs_close(s); a->errnum = e; return -1; }
	#define SNAP() do { slen = s->val.len; scapa = s->capa; if (slen) memcpy(save, s->val.ptr, (slen < 256 ? slen : 256)); } while (0)
	#define SAME() (s->val.len == slen && s->capa == scapa && (!slen || !memcmp(save, s->val.ptr, (slen < 256 ? slen : 256))))
	#define STEP(call, what) do { SNAP(); r = (call); if (r == (hawk_oow_t)-1) { int same = SAME(); int e = a->gem->errnum; hawk_becs_close(s); hawk_becs_close(t); if (!same) BROKEN("becs " what " failed and changed the string"); a->errnum = e; return -1; } } while (0)
	#define BAD(what) do { hawk_becs_close(s); hawk_becs_close(t); BROKEN(what); } while (0)
	STEP(hawk_becs_ncat(s, w1, 6), "ncat");
	STEP(hawk_becs_nrcat(s, w2, 2), "nrcat");
	if (s->val.len != 8 || s->val.ptr[6] != 'Y' || s->val.ptr[7] != 'X') BAD("becs nrcat content");
	STEP(hawk_becs_amend(s, 1, 2, w3), "amend grow");
	if (s->val.len != 46 || s->val.ptr[0] != 'a' || s->val.ptr[1] != '0' || s->val.ptr[41] != 'd') BAD("becs amend content");
	STEP(hawk_becs_amend(s, 0, 30, w2), "amend shrink");
	STEP(hawk_becs_del(s, 2, 5), "del");
	STEP(hawk_becs_fcat(s, f1, 12, 345), "fcat");
	STEP(hawk_becs_fmt(s, f1, 6, 7), "fmt");
	if (s->val.len != 3 || strcmp(s->val.ptr, "6:7")) BAD("becs fmt content");
	STEP(hawk_becs_setlen(s, 40), "setlen");
	STEP(hawk_becs_ccat(s, 'q'), "ccat");
	STEP(hawk_becs_ncatuchars(s, U_HELLO, 9, a->gem->cmgr), "ncatuchars");
	if (s->val.len != 41 + strlen(B_HELLO) || strcmp(s->val.ptr + 41, B_HELLO)) BAD("becs ncatuchars content");
	SNAP(); r = hawk_becs_nccat(s, 'z', 70);
	if (r == (hawk_oow_t)-1)
	{
		int ok = s->val.len >= slen && s->val.len < slen + 70 && !memcmp(save, s->val.ptr, slen); int e = a->gem->errnum;
		hawk_becs_close(s); hawk_becs_close(t); if (!ok) BROKEN("becs nccat failed and damaged the string"); a->errnum = e; return -1;
	}
	hawk_becs_swap(s, t); hawk_becs_swap(s, t);
	slen = s->val.len;
	y = hawk_becs_yieldptr(s, 8);
	if (!y) { int e = a->gem->errnum; int same = (s->val.len == slen); hawk_becs_close(s); hawk_becs_close(t); if (!same) BROKEN("becs yieldptr failed and changed the string"); a->errnum = e; return -1; }
	if (s->val.len != 0 || s->capa != 8 || y[40] != 'q') { hawk_gem_freemem(a->gem, y); BAD("becs yield content"); }
	hawk_gem_freemem(a->gem, y);
	STEP(hawk_becs_cpy(s, w1), "cpy"); SNAP(); if (hawk_becs_cat(t, w2) == (hawk_oow_t)-1) { int e = a->gem->errnum; hawk_becs_close(s); hawk_becs_close(t); a->errnum = e; return -1; }
	hawk_becs_clear(s);
	hawk_becs_close(s); hawk_becs_close(t);
	#undef SNAP
	#undef SAME
	#undef STEP
	#undef BAD
	return 0;
}

static int c_uecs (struct api_ctx* a)
{
	hawk_uecs_t* s; hawk_uch_t w3[41]; hawk_oow_t i, r; static const hawk_uch_t f1[] = { '%','d',':','%','d',0 }, w1[] = { 'a','b','c','d','e','f',0 }, w2[] = { 'X','Y',0 };
	hawk_uch_t save[256]; hawk_oow_t slen, scapa;
	for (i = 0; i < 40; i++) w3[i] = '0' + i % 10; w3[40] = 0;
	s = hawk_uecs_open(a->gem, 0, 2); if (!s) GFAIL(a);
	#define SNAP() do { slen = s->val.len; scapa = s->capa; if (slen) memcpy(save, s->val.ptr, (slen < 256 ? slen : 256) * sizeof(hawk_uch_t)); } while (0)
	#define SAME() (s->val.len == slen && s->capa == scapa && (!slen || !memcmp(save, s->val.ptr, (slen < 256 ? slen : 256) * sizeof(hawk_uch_t))))
	#define STEP(call, what) do { SNAP(); r = (call); if (r == (hawk_oow_t)-1) { int same = SAME(); int e = a->gem->errnum; hawk_uecs_close(s); if (!same) BROKEN("uecs " what " failed and changed the string"); a->errnum = e; return -1; } } while (0)
	STEP(hawk_uecs_ncat(s, w1, 6), "ncat");
	STEP(hawk_uecs_nrcat(s, w2, 2), "nrcat");
	STEP(hawk_uecs_amend(s, 1, 2, w3), "amend grow");
	if (s->val.len != 46 || s->val.ptr[1] != '0' || s->val.ptr[41] != 'd') { hawk_uecs_close(s); BROKEN("uecs amend content"); }
	STEP(hawk_uecs_amend(s, 0, 30, w2), "amend shrink");
	STEP(hawk_uecs_del(s, 2, 5), "del");
	STEP(hawk_uecs_fcat(s, f1, 12, 345), "fcat");
	STEP(hawk_uecs_fmt(s, f1, 6, 7), "fmt");
	if (s->val.len != 3 || s->val.ptr[0] != '6' || s->val.ptr[2] != '7') { hawk_uecs_close(s); BROKEN("uecs fmt content"); }
	STEP(hawk_uecs_setlen(s, 40), "setlen");
	STEP(hawk_uecs_ncatbchars(s, B_HELLO, strlen(B_HELLO), a->gem->cmgr, 1), "ncatbchars");
	if (s->val.len != 49 || s->val.ptr[46] != 0x00e9) { hawk_uecs_close(s); BROKEN("uecs ncatbchars content"); }
	{ hawk_uch_t* y = hawk_uecs_yieldptr(s, 0); if (!y) { int e = a->gem->errnum; hawk_uecs_close(s); a->errnum = e; return -1; } hawk_gem_freemem(a->gem, y); }
	hawk_uecs_close(s);
	#undef SNAP
	#undef SAME
	#undef STEP
	return 0;
}

/* ---- htb: growth (reorganize), update, callback insert, iteration; a failed insert must not lose or corrupt entries */
static hawk_htb_pair_t* htb_cbs (hawk_htb_t* h, hawk_htb_pair_t* pair, void* kptr, hawk_oow_t klen, void* ctx)
{
	if (pair) return pair;
	return hawk_htb_allocpair(h, kptr, klen, ctx, 4);
}
static hawk_htb_walk_t htb_count (hawk_htb_t* h, hawk_htb_pair_t* p, void* ctx) { (*(int*)ctx)++; return HAWK_HTB_WALK_FORWARD; }
static int htb_verify (hawk_htb_t* h, int n, const char* when)
{
	int i, cnt = 0; hawk_htb_itr_t itr; hawk_htb_pair_t* p; char key[16];
	if ((int)HAWK_HTB_SIZE(h) != n) { snprintf(api_msg, sizeof(api_msg), "htb size %d, expected %d %s", (int)HAWK_HTB_SIZE(h), n, when); return 0; }
	for (i = 0; i < n; i++)
	{
		int kl = snprintf(key, sizeof(key), "key%03d", i);
		p = hawk_htb_search(h, key, kl);
		if (!p || HAWK_HTB_VLEN(p) < 3 || memcmp(HAWK_HTB_VPTR(p), "v", 1)) { snprintf(api_msg, sizeof(api_msg), "htb key %s lost or damaged %s", key, when); return 0; }
	}
	hawk_htb_walk(h, htb_count, &cnt);
	if (cnt != n) { snprintf(api_msg, sizeof(api_msg), "htb walk sees %d of %d %s", cnt, n, when); return 0; }
	cnt = 0; hawk_init_htb_itr(&itr);
	for (p = hawk_htb_getfirstpair(h, &itr); p; p = hawk_htb_getnextpair(h, &itr)) cnt++;
	if (cnt != n) { snprintf(api_msg, sizeof(api_msg), "htb iteration sees %d of %d %s", cnt, n, when); return 0; }
	return 1;
}
static int c_htb (struct api_ctx* a)
{
	hawk_htb_t* h; int i, n = 0; char key[16], val[32];
	h = hawk_htb_open(a->gem, 0, 2, 70, 1, 1); if (!h) GFAIL(a);
	hawk_htb_setstyle(h, hawk_get_htb_style(HAWK_HTB_STYLE_INLINE_COPIERS));
	for (i = 0; i < 40; i++)
	{
		int kl = snprintf(key, sizeof(key), "key%03d", i), vl = snprintf(val, sizeof(val), "v%03d", i);
		hawk_htb_pair_t* p = (i % 3 == 0) ? hawk_htb_insert(h, key, kl, val, vl) : (i % 3 == 1) ? hawk_htb_upsert(h, key, kl, val, vl) : hawk_htb_cbsert(h, key, kl, htb_cbs, val);
		if (!p) { int e = a->gem->errnum, ok = htb_verify(h, n, "after a failed insert"); hawk_htb_close(h); if (!ok) return 2; a->errnum = e; return -1; }
		n++;
	}
	for (i = 0; i < 40; i += 4)
	{
		/* replace values: same length (in place) and longer (reallocated pair) */
		int kl = snprintf(key, sizeof(key), "key%03d", i), vl = snprintf(val, sizeof(val), (i % 8) ? "v%03d-longer-value" : "v%03d", i + 500);
		if (!hawk_htb_update(h, key, kl, val, vl) || !hawk_htb_upsert(h, key, kl, val, vl)) { int e = a->gem->errnum, ok = htb_verify(h, n, "after a failed update"); hawk_htb_close(h); if (!ok) return 2; a->errnum = e; return -1; }
	}
	if (!htb_verify(h, n, "at the end")) { hawk_htb_close(h); return 2; }
	for (i = 0; i < 40; i += 2) { int kl = snprintf(key, sizeof(key), "key%03d", i); if (hawk_htb_delete(h, key, kl) <= -1) { hawk_htb_close(h); BROKEN("htb delete of a present key failed"); } }
	hawk_htb_clear(h);
	hawk_htb_close(h);
	return 0;
}

/* ---- rbt: same for the tree */
static hawk_rbt_pair_t* rbt_cbs (hawk_rbt_t* t, hawk_rbt_pair_t* pair, void* kptr, hawk_oow_t klen, void* ctx)
{
	if (pair) return pair;
	return hawk_rbt_allocpair(t, kptr, klen, ctx, 4);
}
static hawk_rbt_walk_t rbt_count (hawk_rbt_t* t, hawk_rbt_pair_t* p, void* ctx) { (*(int*)ctx)++; return HAWK_RBT_WALK_FORWARD; }
static int rbt_verify (hawk_rbt_t* t, int n, const char* when)
{
	int i, cnt = 0; char key[16];
	if ((int)HAWK_RBT_SIZE(t) != n) { snprintf(api_msg, sizeof(api_msg), "rbt size %d, expected %d %s", (int)HAWK_RBT_SIZE(t), n, when); return 0; }
	for (i = 0; i < n; i++)
	{
		int kl = snprintf(key, sizeof(key), "key%03d", i);
		if (!hawk_rbt_search(t, key, kl)) { snprintf(api_msg, sizeof(api_msg), "rbt key %s lost %s", key, when); return 0; }
	}
	hawk_rbt_walk(t, rbt_count, &cnt); if (cnt != n) { snprintf(api_msg, sizeof(api_msg), "rbt walk sees %d of %d %s", cnt, n, when); return 0; }
	cnt = 0; hawk_rbt_rwalk(t, rbt_count, &cnt); if (cnt != n) { snprintf(api_msg, sizeof(api_msg), "rbt rwalk sees %d of %d %s", cnt, n, when); return 0; }
	return 1;
}
static int c_rbt (struct api_ctx* a)
{
	hawk_rbt_t* t; int i, n = 0; char key[16], val[24];
	t = hawk_rbt_open(a->gem, 0, 1, 1); if (!t) GFAIL(a);
	hawk_rbt_setstyle(t, hawk_get_rbt_style(HAWK_RBT_STYLE_INLINE_COPIERS));
	for (i = 0; i < 30; i++)
	{
		int kl = snprintf(key, sizeof(key), "key%03d", i), vl = snprintf(val, sizeof(val), "v%03d", i);
		hawk_rbt_pair_t* p = (i % 3 == 0) ? hawk_rbt_insert(t, key, kl, val, vl) : (i % 3 == 1) ? hawk_rbt_upsert(t, key, kl, val, vl) : hawk_rbt_cbsert(t, key, kl, rbt_cbs, val);
		if (!p) { int e = a->gem->errnum, ok = rbt_verify(t, n, "after a failed insert"); hawk_rbt_close(t); if (!ok) return 2; a->errnum = e; return -1; }
		n++;
	}
	for (i = 0; i < 30; i += 3)
	{
		int kl = snprintf(key, sizeof(key), "key%03d", i), vl = snprintf(val, sizeof(val), (i % 2) ? "v%03d-longer-value" : "v%03d", i + 500);
		if (!hawk_rbt_update(t, key, kl, val, vl) || !hawk_rbt_upsert(t, key, kl, val, vl)) { int e = a->gem->errnum, ok = rbt_verify(t, n, "after a failed update"); hawk_rbt_close(t); if (!ok) return 2; a->errnum = e; return -1; }
	}
	if (!rbt_verify(t, n, "at the end")) { hawk_rbt_close(t); return 2; }
	for (i = 0; i < 30; i += 2) { int kl = snprintf(key, sizeof(key), "key%03d", i); if (hawk_rbt_delete(t, key, kl) <= -1) { hawk_rbt_close(t); BROKEN("rbt delete of a present key failed"); } }
	hawk_rbt_close(t);
	return 0;
}

/* ---- arr: growth with retry, far insert, update, stack and heap disciplines, walks */
static hawk_arr_walk_t arr_count (hawk_arr_t* r, hawk_oow_t idx, void* ctx) { (*(int*)ctx)++; return HAWK_ARR_WALK_FORWARD; }
static hawk_arr_walk_t arr_rcount (hawk_arr_t* r, hawk_oow_t idx, void* ctx) { (*(int*)ctx)++; return HAWK_ARR_WALK_BACKWARD; }
static int arr_heap_cmp (hawk_arr_t* r, const void* d1, hawk_oow_t l1, const void* d2, hawk_oow_t l2) { int x = *(const int*)d1, y = *(const int*)d2; return (x > y) - (x < y); }
static int c_arr (struct api_ctx* a)
{
	static hawk_arr_style_t hstyle = { HAWK_ARR_COPIER_INLINE, HAWK_ARR_FREEER_DEFAULT, arr_heap_cmp, HAWK_ARR_KEEPER_DEFAULT, HAWK_ARR_SIZER_DEFAULT };
	hawk_arr_t* r, * hp; int i, cnt; hawk_oow_t tally;
	r = hawk_arr_open(a->gem, 0, 2); if (!r) GFAIL(a);
	hawk_arr_setstyle(r, hawk_get_arr_style(HAWK_ARR_STYLE_INLINE_COPIER));
	#define AFAIL(what) do { int e = a->gem->errnum; int ok = (HAWK_ARR_TALLY(r) == tally); cnt = 0; hawk_arr_walk(r, arr_count, &cnt); ok = ok && (hawk_oow_t)cnt == tally; hawk_arr_close(r); if (!ok) BROKEN("arr " what " failed and changed the element count"); a->errnum = e; return -1; } while (0)
	for (i = 0; i < 20; i++) { tally = HAWK_ARR_TALLY(r); if (hawk_arr_insert(r, HAWK_ARR_SIZE(r), "elem", 4) == HAWK_ARR_NIL) AFAIL("append"); }
	tally = HAWK_ARR_TALLY(r); if (hawk_arr_insert(r, 3, "mid", 3) == HAWK_ARR_NIL) AFAIL("middle insert");
	tally = HAWK_ARR_TALLY(r); if (hawk_arr_upsert(r, 700, "far", 3) == HAWK_ARR_NIL) AFAIL("far upsert");
	tally = HAWK_ARR_TALLY(r); if (hawk_arr_update(r, 5, "updated-longer", 14) == HAWK_ARR_NIL) AFAIL("update");
	tally = HAWK_ARR_TALLY(r); if (hawk_arr_update(r, 5, "updated-longer", 14) == HAWK_ARR_NIL) AFAIL("update same");
	tally = HAWK_ARR_TALLY(r); if (hawk_arr_pushstack(r, "top", 3) == HAWK_ARR_NIL) AFAIL("pushstack");
	hawk_arr_popstack(r);
	cnt = 0; hawk_arr_walk(r, arr_count, &cnt); if ((hawk_oow_t)cnt != HAWK_ARR_TALLY(r)) { hawk_arr_close(r); BROKEN("arr walk count %d tally %d", cnt, (int)HAWK_ARR_TALLY(r)); }
	cnt = 0; hawk_arr_rwalk(r, arr_rcount, &cnt); if ((hawk_oow_t)cnt != HAWK_ARR_TALLY(r)) { hawk_arr_close(r); BROKEN("arr rwalk count %d tally %d", cnt, (int)HAWK_ARR_TALLY(r)); }
	hawk_arr_delete(r, 2, 4); hawk_arr_uplete(r, 0, 2);
	tally = HAWK_ARR_TALLY(r); if (!hawk_arr_setcapa(r, 1024)) AFAIL("setcapa");
	hawk_arr_close(r);
	#undef AFAIL
	hp = hawk_arr_open(a->gem, 0, 1); if (!hp) GFAIL(a);
	hawk_arr_setstyle(hp, &hstyle);
	for (i = 0; i < 24; i++)
	{
		int v = (i * 37) % 50; hawk_oow_t before = HAWK_ARR_SIZE(hp);
		if (hawk_arr_pushheap(hp, &v, sizeof(v)) == HAWK_ARR_NIL) { int e = a->gem->errnum; int ok = HAWK_ARR_SIZE(hp) == before; hawk_arr_close(hp); if (!ok) BROKEN("failed pushheap changed the heap size"); a->errnum = e; return -1; }
	}
	for (i = 0; i < 6; i++)
	{
		int v = 100 - i; hawk_oow_t before = HAWK_ARR_SIZE(hp);
		if (hawk_arr_updateheap(hp, i * 3, &v, sizeof(v)) == HAWK_ARR_NIL) { int e = a->gem->errnum; int ok = HAWK_ARR_SIZE(hp) == before; hawk_arr_close(hp); if (!ok) BROKEN("failed updateheap changed the heap size"); a->errnum = e; return -1; }
	}
	{
		int prev = 1 << 30;
		while (HAWK_ARR_SIZE(hp) > 0)
		{
			int top = *(int*)HAWK_ARR_DPTR(hp, 0);
			if (top > prev) { hawk_arr_close(hp); BROKEN("heap order broken: %d after %d", top, prev); }
			prev = top; hawk_arr_popheap(hp);
		}
	}
	hawk_arr_close(hp);
	return 0;
}

/* ---- containers with CUSTOM copiers and freeers (the copies are separate blocks from the same allocator):
 *      a copier that fails must fail the insertion, one that succeeds must not; every copy is released at the end */
static void* hc_copy (hawk_htb_t* h, void* d, hawk_oow_t l) { return hawk_gem_dupbchars(h->gem, (const hawk_bch_t*)d, l); }
static void hc_free (hawk_htb_t* h, void* d, hawk_oow_t l) { hawk_gem_freemem(h->gem, d); }
static void* rc_copy (hawk_rbt_t* t, void* d, hawk_oow_t l) { return hawk_gem_dupbchars(t->gem, (const hawk_bch_t*)d, l); }
static void rc_free (hawk_rbt_t* t, void* d, hawk_oow_t l) { hawk_gem_freemem(t->gem, d); }
static void* ac_copy (hawk_arr_t* r, void* d, hawk_oow_t l) { return hawk_gem_dupbchars(r->gem, (const hawk_bch_t*)d, l); }
static void ac_free (hawk_arr_t* r, void* d, hawk_oow_t l) { hawk_gem_freemem(r->gem, d); }
static int c_custom_copiers (struct api_ctx* a)
{
	static hawk_htb_style_t hs = { { hc_copy, hc_copy }, { hc_free, hc_free }, HAWK_HTB_COMPER_DEFAULT, HAWK_HTB_KEEPER_DEFAULT, HAWK_HTB_SIZER_DEFAULT, HAWK_HTB_HASHER_DEFAULT };
	static hawk_rbt_style_t rs = { { rc_copy, rc_copy }, { rc_free, rc_free }, HAWK_RBT_COMPER_DEFAULT, HAWK_RBT_KEEPER_DEFAULT };
	static hawk_arr_style_t as = { ac_copy, ac_free, HAWK_ARR_COMPER_DEFAULT, HAWK_ARR_KEEPER_DEFAULT, HAWK_ARR_SIZER_DEFAULT };
	hawk_htb_t* h; hawk_rbt_t* t; hawk_arr_t* r; int i; char key[16], val[24];
	h = hawk_htb_open(a->gem, 0, 4, 70, 1, 1); if (!h) GFAIL(a);
	hawk_htb_setstyle(h, &hs);
	for (i = 0; i < 8; i++)
	{
		int kl = snprintf(key, sizeof(key), "key%03d", i), vl = snprintf(val, sizeof(val), "v%03d", i); hawk_htb_pair_t* p;
		p = hawk_htb_upsert(h, key, kl, val, vl);
		if (!p) { int e = a->gem->errnum, ok = htb_verify(h, i, "after a failed insert (custom copiers)"); hawk_htb_close(h); if (!ok) return 2; a->errnum = e; return -1; }
		if (!HAWK_HTB_VPTR(p) || memcmp(HAWK_HTB_VPTR(p), val, vl)) { hawk_htb_close(h); BROKEN("htb pair inserted without its value copy"); }
	}
	if (!hawk_htb_upsert(h, "key003", 6, "v-replaced", 10)) { int e = a->gem->errnum; hawk_htb_close(h); a->errnum = e; return -1; }
	hawk_htb_close(h);
	t = hawk_rbt_open(a->gem, 0, 1, 1); if (!t) GFAIL(a);
	hawk_rbt_setstyle(t, &rs);
	for (i = 0; i < 8; i++)
	{
		int kl = snprintf(key, sizeof(key), "key%03d", i), vl = snprintf(val, sizeof(val), "v%03d", i); hawk_rbt_pair_t* p;
		p = hawk_rbt_upsert(t, key, kl, val, vl);
		if (!p) { int e = a->gem->errnum, ok = rbt_verify(t, i, "after a failed insert (custom copiers)"); hawk_rbt_close(t); if (!ok) return 2; a->errnum = e; return -1; }
		if (!HAWK_RBT_VPTR(p) || memcmp(HAWK_RBT_VPTR(p), val, vl)) { hawk_rbt_close(t); BROKEN("rbt pair inserted without its value copy"); }
	}
	if (!hawk_rbt_upsert(t, "key003", 6, "v-replaced", 10)) { int e = a->gem->errnum; hawk_rbt_close(t); a->errnum = e; return -1; }
	hawk_rbt_close(t);
	r = hawk_arr_open(a->gem, 0, 2); if (!r) GFAIL(a);
	hawk_arr_setstyle(r, &as);
	for (i = 0; i < 8; i++)
	{
		int vl = snprintf(val, sizeof(val), "elem%03d", i);
		if (hawk_arr_insert(r, HAWK_ARR_SIZE(r), val, vl) == HAWK_ARR_NIL) { int e = a->gem->errnum; int ok = (int)HAWK_ARR_SIZE(r) == i; hawk_arr_close(r); if (!ok) BROKEN("failed arr insert changed the size (custom copier)"); a->errnum = e; return -1; }
		if (memcmp(HAWK_ARR_DPTR(r, i), val, vl)) { hawk_arr_close(r); BROKEN("arr element is not its copy"); }
	}
	if (hawk_arr_update(r, 2, "replaced", 8) == HAWK_ARR_NIL) { int e = a->gem->errnum; hawk_arr_close(r); a->errnum = e; return -1; }
	hawk_arr_close(r);
	return 0;
}

/* ---- value constructors and conversions of an open runtime context */
static int c_val_make (struct api_ctx* a)
{
	hawk_rtx_t* x = a->rtx; hawk_val_t* v; hawk_val_map_data_t md[5]; hawk_int_t i1 = 77; hawk_flt_t f1 = 2.5;
	static const hawk_uch_t k1[] = { 'i','n','t',0 }, k2[] = { 'f','l','t',0 }, k3[] = { 's','t','r',0 }, k4[] = { 'm','b','s',0 }, k5[] = { 'w','c','s',0 };
	#define USE(expr) do { v = (expr); if (!v) RFAIL(a); hawk_rtx_refupval(x, v); hawk_rtx_refdownval(x, v); } while (0)
	USE(hawk_rtx_makestrvalwithbchars(x, B_HELLO, strlen(B_HELLO)));
	USE(hawk_rtx_makestrvalwithbchars2(x, "ab", 2, B_HELLO, strlen(B_HELLO)));
	USE(hawk_rtx_makestrvalwithuchars2(x, U_TWO, 3, U_HELLO, 9));
	USE(hawk_rtx_makenumorstrvalwithbchars(x, "12345678901234", 14));
	USE(hawk_rtx_makenumorstrvalwithbchars(x, "12x", 3));
	USE(hawk_rtx_makenstrvalwithbchars(x, "3.25", 4));
	USE(hawk_rtx_makenstrvalwithuchars(x, U_TWO, 3));
	USE(hawk_rtx_makembsvalwithbchars(x, "bytes", 5));
	USE(hawk_rtx_makembsvalwithuchars(x, U_HELLO, 9));
	USE(hawk_rtx_makembsvalwithuchars2(x, U_TWO, 3, U_HELLO, 9));
	USE(hawk_rtx_makembsvalwithbchars2(x, "ab", 2, "cde", 3));
	USE(hawk_rtx_makenumormbsvalwithuchars(x, U_TWO, 3));
	USE(hawk_rtx_makenumormbsvalwithbchars(x, "99999999999", 11));
	USE(hawk_rtx_makeintval(x, ((hawk_int_t)1 << 40) + 3));
	USE(hawk_rtx_makefltval(x, 1.5e30));
	memset(md, 0, sizeof(md));
	md[0].key.ptr = (hawk_ooch_t*)k1; md[0].key.len = 3; md[0].type = HAWK_VAL_MAP_DATA_INT; md[0].vptr = &i1;
	md[1].key.ptr = (hawk_ooch_t*)k2; md[1].key.len = 3; md[1].type = HAWK_VAL_MAP_DATA_FLT; md[1].vptr = &f1;
	md[2].key.ptr = (hawk_ooch_t*)k3; md[2].key.len = 3; md[2].type = HAWK_VAL_MAP_DATA_OOCSTR; md[2].vptr = (void*)U_HELLO;
	md[3].key.ptr = (hawk_ooch_t*)k4; md[3].key.len = 3; md[3].type = HAWK_VAL_MAP_DATA_BCSTR; md[3].vptr = (void*)B_HELLO;
	md[4].key.ptr = (hawk_ooch_t*)k5; md[4].key.len = 3; md[4].type = HAWK_VAL_MAP_DATA_UCSTR; md[4].vptr = (void*)U_TWO;
	v = hawk_rtx_makemapvalwithdata(x, md, 5); if (!v) RFAIL(a);
	hawk_rtx_refupval(x, v);
	if (!hawk_rtx_getmapvalfld(x, v, k3, 3)) { hawk_rtx_refdownval(x, v); BROKEN("makemapvalwithdata lost a field"); }
	hawk_rtx_refdownval(x, v);
	v = hawk_rtx_makearrval(x, 4); if (!v) RFAIL(a);
	hawk_rtx_refupval(x, v);
	{ hawk_val_t* e = hawk_rtx_makestrvalwithbchars(x, "el", 2); if (!e) { int en = hawk_rtx_geterrnum(x); hawk_rtx_refdownval(x, v); a->errnum = en; return -1; }
	  if (!hawk_rtx_setarrvalfld(x, v, 900, e)) { int en = hawk_rtx_geterrnum(x); hawk_rtx_refupval(x, e); hawk_rtx_refdownval(x, e); hawk_rtx_refdownval(x, v); a->errnum = en; return -1; }
	  if (hawk_rtx_getarrvalfld(x, v, 900) != e) { hawk_rtx_refdownval(x, v); BROKEN("setarrvalfld lost the element"); } }
	hawk_rtx_refdownval(x, v);
	#undef USE
	return 0;
}

static int c_val_conv (struct api_ctx* a)
{
	hawk_rtx_t* x = a->rtx; hawk_val_t* vals[5]; int i, n = 0, rc = 0; hawk_oow_t len; hawk_int_t l; hawk_flt_t r;
	memset(vals, 0, sizeof(vals));
	#define MK(expr) do { vals[n] = (expr); if (!vals[n]) { rc = -1; goto done; } hawk_rtx_refupval(x, vals[n]); n++; } while (0)
	MK(hawk_rtx_makeintval(x, ((hawk_int_t)1 << 45) + 9));
	MK(hawk_rtx_makefltval(x, 123456.789));
	MK(hawk_rtx_makestrvalwithbchars(x, "  42.5e1xyz", 11));
	MK(hawk_rtx_makembsvalwithbchars(x, B_HELLO, strlen(B_HELLO)));
	MK(hawk_rtx_makestrvalwithuchars(x, U_HELLO, 9));
	for (i = 0; i < n; i++)
	{
		hawk_bch_t* b; hawk_uch_t* u; hawk_rtx_valtostr_out_t out;
		b = hawk_rtx_valtobcstrdup(x, vals[i], &len); if (!b) { rc = -1; goto done; } hawk_rtx_freemem(x, b);
		u = hawk_rtx_valtoucstrdup(x, vals[i], &len); if (!u) { rc = -1; goto done; } hawk_rtx_freemem(x, u);
		b = hawk_rtx_getvalbcstr(x, vals[i], &len); if (!b) { rc = -1; goto done; } hawk_rtx_freevalbcstr(x, vals[i], b);
		u = hawk_rtx_getvaloocstr(x, vals[i], &len); if (!u) { rc = -1; goto done; } hawk_rtx_freevaloocstr(x, vals[i], u);
		out.type = HAWK_RTX_VALTOSTR_CPLDUP;
		if (hawk_rtx_valtostr(x, vals[i], &out) <= -1) { rc = -1; goto done; } hawk_rtx_freemem(x, out.u.cpldup.ptr);
		if (hawk_rtx_valtonum(x, vals[i], &l, &r) <= -1) { rc = -1; goto done; }
		(void)hawk_rtx_valtobool(x, vals[i]);
		if (hawk_rtx_hashval(x, vals[i]) <= -1 && hawk_rtx_geterrnum(x) == HAWK_ENOMEM) { rc = -1; goto done; }
	}
done:
	if (rc) a->errnum = hawk_rtx_geterrnum(x);
	for (i = 0; i < n; i++) hawk_rtx_refdownval(x, vals[i]);
	#undef MK
	return rc;
}

/* ---- embedder's path: call a function by name with arguments made from strings, twice */
static int c_rtx_call (struct api_ctx* a)
{
	hawk_rtx_t* x = a->rtx; hawk_val_t* rv; const hawk_bch_t* args[2] = { "alpha", "41" }; hawk_int_t l; hawk_flt_t r; int n;
	rv = hawk_rtx_callwithbcstrarr(x, "addup", args, 2); if (!rv) RFAIL(a);
	n = hawk_rtx_valtonum(x, rv, &l, &r); hawk_rtx_refdownval(x, rv);
	if (n <= -1) RFAIL(a);
	if (l != 46) BROKEN("addup returned %ld", (long)l);
	rv = hawk_rtx_callwithbcstrarr(x, "addup", args, 2); if (!rv) RFAIL(a);
	hawk_rtx_refdownval(x, rv);
	{
		/* the three other array-of-strings entry points (each fills a value array element by element) */
		static const hawk_uch_t uname[] = { 'a','d','d','u','p',0 };
		static const hawk_uch_t ua1[] = { 'a','l','p','h','a',0 }, ua2[] = { '4','1',0 };
		const hawk_uch_t* uargs[2] = { ua1, ua2 };
		rv = hawk_rtx_callwithucstrarr(x, uname, uargs, 2); if (!rv) RFAIL(a);
		n = hawk_rtx_valtonum(x, rv, &l, &r); hawk_rtx_refdownval(x, rv);
		if (n <= -1) RFAIL(a);
		if (l != 46) BROKEN("addup (ucstrarr) returned %ld", (long)l);
		rv = hawk_rtx_callwithooucstrarr(x, HAWK_T("addup"), uargs, 2); if (!rv) RFAIL(a);
		hawk_rtx_refdownval(x, rv);
		rv = hawk_rtx_callwithoobcstrarr(x, HAWK_T("addup"), args, 2); if (!rv) RFAIL(a);
		hawk_rtx_refdownval(x, rv);
	}
	return 0;
}

/* ---- path name expansion, wide and byte variant (three private buffers each: found by the unwind table of hawk_gem_uglob) */
#include <hawk-glob.h>
static int glob_count_u (const hawk_ucs_t* path, void* ctx) { (*(int*)ctx)++; return 0; }
static int glob_count_b (const hawk_bcs_t* path, void* ctx) { (*(int*)ctx)++; return 0; }
static int c_glob (struct api_ctx* a)
{
	static const hawk_uch_t upat[] = { '/','e','t','c','/','h','o','s','t','*',0 };
	static const hawk_uch_t unone[] = { '/','n','o','n','e','x','i','s','t','e','n','t','-','*',0 };
	int nu = 0, nb = 0, nn = 0;
	if (hawk_gem_uglob(a->gem, upat, glob_count_u, &nu, 0) <= -1) GFAIL(a);
	if (hawk_gem_bglob(a->gem, "/etc/host*", glob_count_b, &nb, 0) <= -1) GFAIL(a);
	if (nu != nb || nu < 1) BROKEN("uglob found %d names, bglob %d", nu, nb);
	if (hawk_gem_uglob(a->gem, unone, glob_count_u, &nn, 0) <= -1) GFAIL(a);
	if (nn != 0) BROKEN("uglob found a name for a pattern that matches nothing");
	{
		/* two wild segments: the emulated recursion keeps a stack and a free list of frames */
		static const hawk_uch_t upat2[] = { '/','e','t','c','/','*','.','d','/','*','.','c','o','n','f',0 };
		static int expect = -1;
		int n2u = 0, n2b = 0;
		if (expect < 0)
		{
			/* the unconstrained answer, taken once with the system allocator out of the picture (refusals only count in a->gem) */
			hawk_gem_t g0 = *a->gem; g0.mmgr = hawk_get_sys_mmgr();
			int e = 0;
			if (hawk_gem_bglob(&g0, "/etc/*.d/*.conf", glob_count_b, &e, 0) <= -1) e = -2;
			expect = e;
		}
		if (hawk_gem_uglob(a->gem, upat2, glob_count_u, &n2u, 0) <= -1) GFAIL(a);
		if (hawk_gem_bglob(a->gem, "/etc/*.d/*.conf", glob_count_b, &n2b, 0) <= -1) GFAIL(a);
		if (expect >= 0 && (n2u != expect || n2b != expect)) BROKEN("two-level pattern: uglob %d names, bglob %d, unconstrained %d", n2u, n2b, expect);
	}
	return 0;
}

struct api_case_t { const char* name; int (*fn)(struct api_ctx*); int need_rtx; };
static struct api_case_t api_cases[] =
{
	{ "gem_dup", c_gem_dup, 0 }, { "gem_conv", c_gem_conv, 0 }, { "gem_fmt_rex", c_gem_fmt_rex, 0 },
	{ "becs", c_becs, 0 }, { "uecs", c_uecs, 0 }, { "htb", c_htb, 0 }, { "rbt", c_rbt, 0 }, { "arr", c_arr, 0 }, { "custom_copiers", c_custom_copiers, 0 }, { "glob", c_glob, 0 },
	{ "val_make", c_val_make, 1 }, { "val_conv", c_val_conv, 1 }, { "rtx_call", c_rtx_call, 1 }
};
