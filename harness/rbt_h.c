/* C16 (red-black tree half) correspondence harness: drives the real hawk_rbt_* (from the
 * repo working tree, linked from the freshly built sanitized libhawk.a) with the line
 * protocol of lean/HawkModel/Drv/Rbt.lean.
 *
 * Keys are integers 0..1023; key k is passed as the k-th byte string (1..10 bytes over {1,2})
 * in lexicographic order, so that the default comparator hawk_rbt_dflcomp (memcmp over the
 * common prefix, then the shorter key first) orders them like the integers and both of its
 * length branches are used (many keys are proper prefixes of others).  Values are integers
 * 0..255 passed as 1 + v%3 bytes all equal to v (so that INLINE value copiers hit the "same
 * length: memcpy in place" and the "shorter / longer: re-allocate the pair and re-link it"
 * branches of change_pair_val; the dump decodes the value from the stored bytes AND the stored
 * length, a stale length or stale tail bytes print as -1).  `new S` selects
 * hawk_get_rbt_style(S) for S = 0..3; S = 4 is a user style (key copied by a callback and
 * released by a key freeer, value pointer kept, value freeer / keeper counted, own comparator)
 * whose callback counts are printed as ` ev=K<key frees>V<value frees>P<keeper calls>`.
 * `cbsert k v m` drives hawk_rbt_cbsert with a callback of kind m: 0 = re-allocate with value
 * v, 1 = keep the existing pair, 2 = fail (NULL), 3 = re-allocate with old+v, 4 = change the
 * existing pair in place when the copier allows it (else re-allocate); all kinds allocate a
 * new pair for an absent key except 2.
 *
 * After every mutating op the whole tree is dumped in preorder through the real node
 * fields: (<colour><key>=<val>^<key of ->parent or -> <left> <right>), nil = '.', together
 * with size, height and C-side invariant flags, so that a broken red-black invariant in the
 * real code is visible by itself (inv=BAD:...) and not only as a disagreement with the model. */
#include <hawk-rbt.h>
#include <stdio.h>
#include <stdlib.h>
#include <string.h>
#include <signal.h>
#include <unistd.h>
#include <stdint.h>

static void* m_alloc (hawk_mmgr_t* m, hawk_oow_t n) { return malloc(n); }
static void* m_realloc (hawk_mmgr_t* m, void* p, hawk_oow_t n) { return realloc(p, n); }
static void m_free (hawk_mmgr_t* m, void* p) { free(p); }
static hawk_mmgr_t mmgr = { m_alloc, m_realloc, m_free, NULL };

#define NKEY 1024
#define NVAL 256
#define KMAX 10
static struct { unsigned char b[KMAX]; unsigned char len; } ktab[NKEY];
static unsigned char vtab[NVAL][3];
#define KP(k) ((void*)ktab[k].b)
#define KL(k) ((hawk_oow_t)ktab[k].len)
#define VLEN_OF(v) (1 + (v) % 3)

/* the first NKEY strings over {1,2} of length 1..KMAX in lexicographic (= preorder) order */
static int nkt;
static void gen_keys (unsigned char* cur, int len)
{
	int c;
	if (nkt >= NKEY) return;
	if (len > 0) { memcpy(ktab[nkt].b, cur, len); ktab[nkt].len = len; nkt++; }
	if (len >= KMAX) return;
	for (c = 1; c <= 2; c++) { cur[len] = c; gen_keys(cur, len + 1); }
}
static int lexcmp (const unsigned char* a, size_t al, const unsigned char* b, size_t bl)
{
	size_t m = al < bl ? al : bl; int n = memcmp(a, b, m);
	if (n) return n < 0 ? -1 : 1;
	return (al > bl) - (al < bl);
}

/* user style (S = 4) */
static long ev_kfree, ev_vfree, ev_keep;
static void* u_kcopy (hawk_rbt_t* t, void* p, hawk_oow_t n) { void* q = malloc(n ? n : 1); if (q) memcpy(q, p, n); return q; }
static void u_kfree (hawk_rbt_t* t, void* p, hawk_oow_t n) { ev_kfree++; free(p); }
static void u_vfree (hawk_rbt_t* t, void* p, hawk_oow_t n) { ev_vfree++; }
static void u_keep (hawk_rbt_t* t, void* p, hawk_oow_t n) { ev_keep++; }
static int u_comp (const hawk_rbt_t* t, const void* a, hawk_oow_t al, const void* b, hawk_oow_t bl) { return lexcmp(a, al, b, bl); }
static hawk_rbt_style_t ustyle = { { u_kcopy, HAWK_RBT_COPIER_SIMPLE }, { u_kfree, u_vfree }, u_comp, u_keep };

static void on_alarm (int sig) { printf("HANG\n"); fflush(stdout); _exit(3); }

#define IS_NIL(t,p) ((p) == &(t)->xnil)

static char obuf[1 << 22]; static size_t olen;
#define OUT(...) do { olen += snprintf(obuf + olen, sizeof(obuf) - olen, __VA_ARGS__); if (olen > sizeof(obuf) - 256) olen = sizeof(obuf) - 256; } while (0)

static long keyof (hawk_rbt_pair_t* p)
{
	unsigned char* k = (unsigned char*)HAWK_RBT_KPTR(p);
	size_t n = HAWK_RBT_KLEN(p); long lo = 0, hi = NKEY - 1;
	if (!k || n < 1 || n > KMAX) return -1;
	while (lo <= hi)
	{
		long mid = (lo + hi) / 2; int c = lexcmp(k, n, ktab[mid].b, ktab[mid].len);
		if (c == 0) return mid;
		if (c < 0) hi = mid - 1; else lo = mid + 1;
	}
	return -1;
}

/* value as number, or -1 when the stored bytes/length are not a valid encoding */
static long valof (hawk_rbt_pair_t* p)
{
	unsigned char* v = (unsigned char*)HAWK_RBT_VPTR(p);
	hawk_oow_t i, n = HAWK_RBT_VLEN(p);
	if (!v || n < 1 || n > 3) return -1;
	for (i = 1; i < n; i++) if (v[i] != v[0]) return -1;
	if (n != (hawk_oow_t)VLEN_OF(v[0])) return -1;
	return v[0];
}

/* invariant bits */
#define F_ROOTRED 1
#define F_REDRED  2
#define F_BH      4
#define F_ORDER   8
#define F_PARENT  16
#define F_SIZE    32
#define F_NIL     64
#define F_HEIGHT  128
static unsigned flags; static long cnt; static long lastkey;

/* returns black height (nil = 0); *h = height */
static long walkchk (hawk_rbt_t* t, hawk_rbt_pair_t* p, hawk_rbt_pair_t* par, long* h, long depth)
{
	long bl, br, hl, hr;
	if (IS_NIL(t, p)) { *h = 0; OUT("."); return 0; }
	if (depth > 200) { flags |= F_HEIGHT; *h = 0; OUT("!deep"); return 0; }
	cnt++;
	if (p->parent != par) flags |= F_PARENT;
	OUT("(%c%ld=%ld^", p->color == HAWK_RBT_RED ? 'R' : 'B', keyof(p), valof(p));
	if (p->parent == HAWK_NULL) OUT("-"); else if (IS_NIL(t, p->parent)) OUT("nil"); else OUT("%ld", keyof(p->parent));
	OUT(" ");
	if (p->color == HAWK_RBT_RED && (p->child[0]->color == HAWK_RBT_RED || p->child[1]->color == HAWK_RBT_RED)) flags |= F_REDRED;
	bl = walkchk(t, p->child[0], p, &hl, depth + 1);
	if (keyof(p) <= lastkey) flags |= F_ORDER;
	lastkey = keyof(p);
	OUT(" ");
	br = walkchk(t, p->child[1], p, &hr, depth + 1);
	OUT(")");
	if (bl != br) flags |= F_BH;
	*h = 1 + (hl > hr ? hl : hr);
	return bl + (p->color == HAWK_RBT_BLACK);
}

static void dump (hawk_rbt_t* t)
{
	long h; char fl[128];
	flags = 0; cnt = 0; lastkey = -1;
	/* the tree text is produced into obuf first, then printed after the header */
	olen = 0; obuf[0] = 0;
	walkchk(t, t->root, HAWK_NULL, &h, 0);
	if (t->root->color != HAWK_RBT_BLACK) flags |= F_ROOTRED;
	if ((hawk_oow_t)cnt != t->size || hawk_rbt_getsize(t) != t->size) flags |= F_SIZE;
	if (t->xnil.color != HAWK_RBT_BLACK || t->xnil.child[0] != &t->xnil || t->xnil.child[1] != &t->xnil) flags |= F_NIL;
	/* height bound: 2^((h+1)/2) <= n+1  (equivalent to h <= 2*log2(n+1)) */
	if ((h + 1) / 2 >= 62 || (1L << ((h + 1) / 2)) > cnt + 1) flags |= F_HEIGHT;
	fl[0] = 0;
	if (flags)
	{
		strcpy(fl, "BAD:");
		if (flags & F_ROOTRED) strcat(fl, "rootred,");
		if (flags & F_REDRED) strcat(fl, "redred,");
		if (flags & F_BH) strcat(fl, "bh,");
		if (flags & F_ORDER) strcat(fl, "order,");
		if (flags & F_PARENT) strcat(fl, "parent,");
		if (flags & F_SIZE) strcat(fl, "size,");
		if (flags & F_NIL) strcat(fl, "nil,");
		if (flags & F_HEIGHT) strcat(fl, "height,");
		fl[strlen(fl) - 1] = 0;
	}
	else strcpy(fl, "ok");
	printf("n=%lu h=%ld inv=%s t=%s", (unsigned long)t->size, h, fl, obuf);
	/* callbacks of the user style seen during this call */
	if (t->style == &ustyle) printf(" ev=K%ldV%ldP%ld", ev_kfree, ev_vfree, ev_keep);
	printf("\n");
}

static const char* errname (hawk_gem_t* g)
{
	switch (g->errnum) { case HAWK_ENOMEM: return "ENOMEM"; case HAWK_EEXIST: return "EEXIST"; case HAWK_ENOENT: return "ENOENT"; case HAWK_ENOERR: return "ENOERR"; default: return "E?"; }
}

static char wbuf[1 << 20]; static size_t wlen; static long wstop;
static hawk_rbt_walk_t walker (hawk_rbt_t* t, hawk_rbt_pair_t* p, void* ctx)
{
	wlen += snprintf(wbuf + wlen, sizeof(wbuf) - wlen, "%s%ld:%ld", wlen ? "," : "", keyof(p), valof(p));
	if (wlen > sizeof(wbuf) - 64) wlen = sizeof(wbuf) - 64;
	if (wstop > 0 && --wstop == 0) return HAWK_RBT_WALK_STOP;
	return HAWK_RBT_WALK_FORWARD;
}

/* hawk_rbt_cbsert callbacks */
struct cbctx { int kind; unsigned long v; int called; };
static hawk_rbt_pair_t* cbserter (hawk_rbt_t* t, hawk_rbt_pair_t* pair, void* kptr, hawk_oow_t klen, void* ctx)
{
	struct cbctx* c = (struct cbctx*)ctx; unsigned long nv = c->v; hawk_rbt_pair_t* np;
	c->called++;
	if (c->kind == 2) return HAWK_NULL;                                  /* failure */
	if (!pair) return hawk_rbt_allocpair(t, kptr, klen, vtab[nv], VLEN_OF(nv));
	if (c->kind == 1) return pair;                                       /* keep the existing pair */
	if (c->kind == 3) { long ov = valof(pair); nv = ((ov < 0 ? 0 : (unsigned long)ov) + c->v) % NVAL; }
	if (c->kind == 4)
	{
		/* change the existing pair itself when the value copier allows it */
		if (t->style->copier[HAWK_RBT_VAL] == HAWK_RBT_COPIER_SIMPLE)
		{
			HAWK_RBT_VPTR(pair) = vtab[nv]; HAWK_RBT_VLEN(pair) = VLEN_OF(nv);
			return pair;
		}
		if (HAWK_RBT_VLEN(pair) == (hawk_oow_t)VLEN_OF(nv))
		{
			memcpy(HAWK_RBT_VPTR(pair), vtab[nv], VLEN_OF(nv));
			return pair;
		}
	}
	/* re-allocate: build the new pair, destroy the old one, hand back the new one */
	np = hawk_rbt_allocpair(t, kptr, klen, vtab[nv], VLEN_OF(nv));
	if (!np) return HAWK_NULL;
	hawk_rbt_freepair(t, pair);
	return np;
}

int main (int argc, char** argv)
{
	static hawk_gem_t gem; hawk_rbt_t* t = NULL;
	char line[256], op[32]; unsigned long x, y, z; int i;
	int wd = argc > 1 ? atoi(argv[1]) : 10;
	unsigned char kb[KMAX];
	memset(&gem, 0, sizeof(gem)); gem.mmgr = &mmgr;
	gen_keys(kb, 0);
	if (nkt != NKEY) { printf("key-table\n"); return 5; }
	for (i = 1; i < NKEY; i++) if (lexcmp(ktab[i - 1].b, ktab[i - 1].len, ktab[i].b, ktab[i].len) >= 0) { printf("key-table\n"); return 5; }
	for (i = 0; i < NVAL; i++) { vtab[i][0] = vtab[i][1] = vtab[i][2] = i; }
	signal(SIGALRM, on_alarm);
	while (fgets(line, sizeof(line), stdin))
	{
		alarm(wd);
		ev_kfree = ev_vfree = ev_keep = 0;
		if (sscanf(line, "%31s", op) != 1) { printf("bad-op\n"); continue; }
		if (!strcmp(op, "new") && sscanf(line, "%*s %lu", &x) == 1 && x < 5)
		{
			const hawk_rbt_style_t* st = (x == 4) ? &ustyle : hawk_get_rbt_style((hawk_rbt_style_kind_t)x);
			if (t) hawk_rbt_close(t);
			t = hawk_rbt_open(&gem, 0, 1, 1);
			if (!t) { printf("open-failed\n"); return 4; }
			hawk_rbt_setstyle(t, st);
			printf(hawk_rbt_getstyle(t) == st && hawk_rbt_getsize(t) == 0 ? "ok\n" : "ok?style\n");
		}
		else if (!t) printf("bad-op\n");
		else if ((!strcmp(op, "insert") || !strcmp(op, "upsert") || !strcmp(op, "update") || !strcmp(op, "ensert")) &&
		         sscanf(line, "%*s %lu %lu", &x, &y) == 2 && x < NKEY && y < NVAL)
		{
			hawk_rbt_pair_t* p;
			gem.errnum = HAWK_ENOERR;
			if (op[0] == 'i') p = hawk_rbt_insert(t, KP(x), KL(x), vtab[y], VLEN_OF(y));
			else if (op[0] == 'e') p = hawk_rbt_ensert(t, KP(x), KL(x), vtab[y], VLEN_OF(y));
			else if (op[2] == 's') p = hawk_rbt_upsert(t, KP(x), KL(x), vtab[y], VLEN_OF(y));
			else p = hawk_rbt_update(t, KP(x), KL(x), vtab[y], VLEN_OF(y));
			if (p) printf("r=%ld:%ld ", keyof(p), valof(p)); else printf("r=%s ", errname(&gem));
			dump(t);
		}
		else if (!strcmp(op, "cbsert") && sscanf(line, "%*s %lu %lu %lu", &x, &y, &z) == 3 && x < NKEY && y < NVAL && z < 5)
		{
			hawk_rbt_pair_t* p; struct cbctx c;
			c.kind = (int)z; c.v = y; c.called = 0;
			gem.errnum = HAWK_ENOERR;
			p = hawk_rbt_cbsert(t, KP(x), KL(x), cbserter, &c);
			if (p) printf("r=%ld:%ld ", keyof(p), valof(p)); else printf("r=%s ", c.called == 1 ? "CBFAIL" : "CB?calls");
			if (p && c.called != 1) printf("cb?calls ");
			dump(t);
		}
		else if (!strcmp(op, "delete") && sscanf(line, "%*s %lu", &x) == 1 && x < NKEY)
		{
			int r;
			gem.errnum = HAWK_ENOERR;
			r = hawk_rbt_delete(t, KP(x), KL(x));
			if (r == 0) printf("r=0 "); else printf("r=%s ", errname(&gem));
			dump(t);
		}
		else if (!strcmp(op, "search") && sscanf(line, "%*s %lu", &x) == 1 && x < NKEY)
		{
			hawk_rbt_pair_t* p;
			gem.errnum = HAWK_ENOERR;
			p = hawk_rbt_search(t, KP(x), KL(x));
			if (p) printf("r=%ld:%ld\n", keyof(p), valof(p)); else printf("r=%s\n", errname(&gem));
		}
		else if (!strcmp(op, "clear")) { hawk_rbt_clear(t); printf("r=ok "); dump(t); }
		else if (!strcmp(op, "walk") || !strcmp(op, "rwalk"))
		{
			/* optional argument: stop after that many pairs (walker returns HAWK_RBT_WALK_STOP) */
			x = 0; sscanf(line, "%*s %lu", &x);
			wlen = 0; wbuf[0] = 0; wstop = (long)x;
			if (op[0] == 'w') hawk_rbt_walk(t, walker, NULL); else hawk_rbt_rwalk(t, walker, NULL);
			printf("w=%s\n", wbuf);
		}
		else if (!strcmp(op, "iter") && sscanf(line, "%*s %lu %lu", &x, &y) == 2 && x < 2)
		{
			/* explicit stateful iterator: direction x, getfirstpair + at most y further getnextpair calls;
			 * prints the visited pairs and whether the iterator reported the end */
			hawk_rbt_itr_t itr; hawk_rbt_pair_t* p; unsigned long n = 0;
			wlen = 0; wbuf[0] = 0; wstop = 0;
			hawk_init_rbt_itr(&itr, (int)x);
			p = hawk_rbt_getfirstpair(t, &itr);
			while (p)
			{
				walker(t, p, NULL);
				if (p != itr.pair) { wlen += snprintf(wbuf + wlen, sizeof(wbuf) - wlen, "!itrpair"); }
				if (n++ >= y) break;
				p = hawk_rbt_getnextpair(t, &itr);
			}
			printf("w=%s end=%d\n", wbuf, p == NULL);
		}
		else if (!strcmp(op, "zip") && sscanf(line, "%*s %lu", &y) == 1)
		{
			/* two live iterators of opposite directions advanced in lockstep (getfirstpair + at most y
			 * getnextpair calls each), then the first one is re-initialised half-way for the other direction
			 * and the second one restarted without re-initialisation */
			hawk_rbt_itr_t a, b; hawk_rbt_pair_t* pa, * pb; unsigned long n = 0;
			static char abuf[1 << 16], bbuf[1 << 16]; size_t al = 0, bl = 0;
			abuf[0] = bbuf[0] = 0;
			hawk_init_rbt_itr(&a, 0); hawk_init_rbt_itr(&b, 1);
			pa = hawk_rbt_getfirstpair(t, &a); pb = hawk_rbt_getfirstpair(t, &b);
			while (pa || pb)
			{
				if (pa && al < sizeof(abuf) - 64) al += snprintf(abuf + al, sizeof(abuf) - al, "%s%ld:%ld", al ? "," : "", keyof(pa), valof(pa));
				if (pb && bl < sizeof(bbuf) - 64) bl += snprintf(bbuf + bl, sizeof(bbuf) - bl, "%s%ld:%ld", bl ? "," : "", keyof(pb), valof(pb));
				if (n++ >= y) break;
				if (pa) pa = hawk_rbt_getnextpair(t, &a);
				if (pb) pb = hawk_rbt_getnextpair(t, &b);
			}
			printf("w=%s|%s|", abuf, bbuf);
			hawk_init_rbt_itr(&a, 1);
			pa = hawk_rbt_getfirstpair(t, &a);
			if (pa) { printf("%ld:%ld", keyof(pa), valof(pa)); pa = hawk_rbt_getnextpair(t, &a); if (pa) printf(",%ld:%ld", keyof(pa), valof(pa)); }
			/* and the second one, wherever it stopped, is restarted by hawk_rbt_getfirstpair alone */
			printf("|");
			pb = hawk_rbt_getfirstpair(t, &b);
			if (pb) { printf("%ld:%ld", keyof(pb), valof(pb)); pb = hawk_rbt_getnextpair(t, &b); if (pb) printf(",%ld:%ld", keyof(pb), valof(pb)); }
			printf("\n");
		}
		else printf("bad-op\n");
		fflush(stdout);
	}
	alarm(0);
	if (t) hawk_rbt_close(t);
	return 0;
}
