/* C16 (red-black tree half) correspondence harness: drives the real hawk_rbt_* (from the
 * repo working tree, linked from the freshly built sanitized libhawk.a) with the line
 * protocol of lean/HawkModel/Drv/Rbt.lean.
 *
 * Keys are integers 0..1023 passed as 2 big-endian bytes (so the default comparator
 * hawk_rbt_dflcomp = memcmp orders them numerically); values are integers 0..255 passed as
 * 1 + v%3 bytes all equal to v (so that INLINE value copiers hit both the "same length:
 * memcpy in place" and the "different length: re-allocate the pair and re-link it"
 * branches of change_pair_val).  `new S` selects hawk_get_rbt_style(S), S = 0..3.
 *
 * After every mutating op the whole tree is dumped in preorder through the real node
 * fields: (<colour><key>=<val>^<key of ->parent or -> <left> <right>), nil = '.', together
 * with size, height and C-side invariant flags, so that a broken red-black invariant in the
 * real code is visible by itself (inv=BAD:...) and not only as a disagreement with the model. */
#include <hawk-rbt.h>
#include <stdio.h>
#include <stdlib.h>
#include <string.h>
#include <signal.h>
#include <unistd.h>
#include <stdint.h>

static void* m_alloc (hawk_mmgr_t* m, hawk_oow_t n) { return malloc(n); }
static void* m_realloc (hawk_mmgr_t* m, void* p, hawk_oow_t n) { return realloc(p, n); }
static void m_free (hawk_mmgr_t* m, void* p) { free(p); }
static hawk_mmgr_t mmgr = { m_alloc, m_realloc, m_free, NULL };

#define NKEY 1024
#define NVAL 256
static unsigned char ktab[NKEY][2];
static unsigned char vtab[NVAL][3];
#define KLEN 2
#define VLEN_OF(v) (1 + (v) % 3)

static void on_alarm (int sig) { printf("HANG\n"); fflush(stdout); _exit(3); }

#define IS_NIL(t,p) ((p) == &(t)->xnil)

static char obuf[1 << 22]; static size_t olen;
#define OUT(...) do { olen += snprintf(obuf + olen, sizeof(obuf) - olen, __VA_ARGS__); if (olen > sizeof(obuf) - 256) olen = sizeof(obuf) - 256; } while (0)

static long keyof (hawk_rbt_pair_t* p)
{
	unsigned char* k = (unsigned char*)HAWK_RBT_KPTR(p);
	if (HAWK_RBT_KLEN(p) != KLEN || !k) return -1;
	return ((long)k[0] << 8) | k[1];
}

/* value as number, or -1 when the stored bytes/length are not a valid encoding */
static long valof (hawk_rbt_pair_t* p)
{
	unsigned char* v = (unsigned char*)HAWK_RBT_VPTR(p);
	hawk_oow_t i, n = HAWK_RBT_VLEN(p);
	if (!v || n < 1 || n > 3) return -1;
	for (i = 1; i < n; i++) if (v[i] != v[0]) return -1;
	if (n != (hawk_oow_t)VLEN_OF(v[0])) return -1;
	return v[0];
}

/* invariant bits */
#define F_ROOTRED 1
#define F_REDRED  2
#define F_BH      4
#define F_ORDER   8
#define F_PARENT  16
#define F_SIZE    32
#define F_NIL     64
#define F_HEIGHT  128
static unsigned flags; static long cnt; static long lastkey;

/* returns black height (nil = 0); *h = height */
static long walkchk (hawk_rbt_t* t, hawk_rbt_pair_t* p, hawk_rbt_pair_t* par, long* h, long depth)
{
	long bl, br, hl, hr;
	if (IS_NIL(t, p)) { *h = 0; OUT("."); return 0; }
	if (depth > 200) { flags |= F_HEIGHT; *h = 0; OUT("!deep"); return 0; }
	cnt++;
	if (p->parent != par) flags |= F_PARENT;
	OUT("(%c%ld=%ld^", p->color == HAWK_RBT_RED ? 'R' : 'B', keyof(p), valof(p));
	if (p->parent == HAWK_NULL) OUT("-"); else if (IS_NIL(t, p->parent)) OUT("nil"); else OUT("%ld", keyof(p->parent));
	OUT(" ");
	if (p->color == HAWK_RBT_RED && (p->child[0]->color == HAWK_RBT_RED || p->child[1]->color == HAWK_RBT_RED)) flags |= F_REDRED;
	bl = walkchk(t, p->child[0], p, &hl, depth + 1);
	if (keyof(p) <= lastkey) flags |= F_ORDER;
	lastkey = keyof(p);
	OUT(" ");
	br = walkchk(t, p->child[1], p, &hr, depth + 1);
	OUT(")");
	if (bl != br) flags |= F_BH;
	*h = 1 + (hl > hr ? hl : hr);
	return bl + (p->color == HAWK_RBT_BLACK);
}

static void dump (hawk_rbt_t* t)
{
	long h; char fl[128];
	flags = 0; cnt = 0; lastkey = -1;
	/* the tree text is produced into obuf first, then printed after the header */
	olen = 0; obuf[0] = 0;
	walkchk(t, t->root, HAWK_NULL, &h, 0);
	if (t->root->color != HAWK_RBT_BLACK) flags |= F_ROOTRED;
	if ((hawk_oow_t)cnt != t->size || hawk_rbt_getsize(t) != t->size) flags |= F_SIZE;
	if (t->xnil.color != HAWK_RBT_BLACK || t->xnil.child[0] != &t->xnil || t->xnil.child[1] != &t->xnil) flags |= F_NIL;
	/* height bound: 2^((h+1)/2) <= n+1  (equivalent to h <= 2*log2(n+1)) */
	if ((h + 1) / 2 >= 62 || (1L << ((h + 1) / 2)) > cnt + 1) flags |= F_HEIGHT;
	fl[0] = 0;
	if (flags)
	{
		strcpy(fl, "BAD:");
		if (flags & F_ROOTRED) strcat(fl, "rootred,");
		if (flags & F_REDRED) strcat(fl, "redred,");
		if (flags & F_BH) strcat(fl, "bh,");
		if (flags & F_ORDER) strcat(fl, "order,");
		if (flags & F_PARENT) strcat(fl, "parent,");
		if (flags & F_SIZE) strcat(fl, "size,");
		if (flags & F_NIL) strcat(fl, "nil,");
		if (flags & F_HEIGHT) strcat(fl, "height,");
		fl[strlen(fl) - 1] = 0;
	}
	else strcpy(fl, "ok");
	printf("n=%lu h=%ld inv=%s t=%s\n", (unsigned long)t->size, h, fl, obuf);
}

static const char* errname (hawk_gem_t* g)
{
	switch (g->errnum) { case HAWK_ENOMEM: return "ENOMEM"; case HAWK_EEXIST: return "EEXIST"; case HAWK_ENOENT: return "ENOENT"; case HAWK_ENOERR: return "ENOERR"; default: return "E?"; }
}

static char wbuf[1 << 20]; static size_t wlen; static long wstop;
static hawk_rbt_walk_t walker (hawk_rbt_t* t, hawk_rbt_pair_t* p, void* ctx)
{
	wlen += snprintf(wbuf + wlen, sizeof(wbuf) - wlen, "%s%ld:%ld", wlen ? "," : "", keyof(p), valof(p));
	if (wlen > sizeof(wbuf) - 64) wlen = sizeof(wbuf) - 64;
	if (wstop > 0 && --wstop == 0) return HAWK_RBT_WALK_STOP;
	return HAWK_RBT_WALK_FORWARD;
}

int main (int argc, char** argv)
{
	static hawk_gem_t gem; hawk_rbt_t* t = NULL;
	char line[256], op[32]; unsigned long x, y; int i;
	int wd = argc > 1 ? atoi(argv[1]) : 10;
	memset(&gem, 0, sizeof(gem)); gem.mmgr = &mmgr;
	for (i = 0; i < NKEY; i++) { ktab[i][0] = i >> 8; ktab[i][1] = i & 255; }
	for (i = 0; i < NVAL; i++) { vtab[i][0] = vtab[i][1] = vtab[i][2] = i; }
	signal(SIGALRM, on_alarm);
	while (fgets(line, sizeof(line), stdin))
	{
		alarm(wd);
		if (sscanf(line, "%31s", op) != 1) { printf("bad-op\n"); continue; }
		if (!strcmp(op, "new") && sscanf(line, "%*s %lu", &x) == 1 && x < 4)
		{
			if (t) hawk_rbt_close(t);
			t = hawk_rbt_open(&gem, 0, 1, 1);
			if (!t) { printf("open-failed\n"); return 4; }
			hawk_rbt_setstyle(t, hawk_get_rbt_style((hawk_rbt_style_kind_t)x));
			printf("ok\n");
		}
		else if (!t) printf("bad-op\n");
		else if ((!strcmp(op, "insert") || !strcmp(op, "upsert") || !strcmp(op, "update") || !strcmp(op, "ensert")) &&
		         sscanf(line, "%*s %lu %lu", &x, &y) == 2 && x < NKEY && y < NVAL)
		{
			hawk_rbt_pair_t* p;
			gem.errnum = HAWK_ENOERR;
			if (op[0] == 'i') p = hawk_rbt_insert(t, ktab[x], KLEN, vtab[y], VLEN_OF(y));
			else if (op[0] == 'e') p = hawk_rbt_ensert(t, ktab[x], KLEN, vtab[y], VLEN_OF(y));
			else if (op[2] == 's') p = hawk_rbt_upsert(t, ktab[x], KLEN, vtab[y], VLEN_OF(y));
			else p = hawk_rbt_update(t, ktab[x], KLEN, vtab[y], VLEN_OF(y));
			if (p) printf("r=%ld:%ld ", keyof(p), valof(p)); else printf("r=%s ", errname(&gem));
			dump(t);
		}
		else if (!strcmp(op, "delete") && sscanf(line, "%*s %lu", &x) == 1 && x < NKEY)
		{
			int r;
			gem.errnum = HAWK_ENOERR;
			r = hawk_rbt_delete(t, ktab[x], KLEN);
			if (r == 0) printf("r=0 "); else printf("r=%s ", errname(&gem));
			dump(t);
		}
		else if (!strcmp(op, "search") && sscanf(line, "%*s %lu", &x) == 1 && x < NKEY)
		{
			hawk_rbt_pair_t* p;
			gem.errnum = HAWK_ENOERR;
			p = hawk_rbt_search(t, ktab[x], KLEN);
			if (p) printf("r=%ld:%ld\n", keyof(p), valof(p)); else printf("r=%s\n", errname(&gem));
		}
		else if (!strcmp(op, "clear")) { hawk_rbt_clear(t); printf("r=ok "); dump(t); }
		else if (!strcmp(op, "walk") || !strcmp(op, "rwalk"))
		{
			/* optional argument: stop after that many pairs (walker returns HAWK_RBT_WALK_STOP) */
			x = 0; sscanf(line, "%*s %lu", &x);
			wlen = 0; wbuf[0] = 0; wstop = (long)x;
			if (op[0] == 'w') hawk_rbt_walk(t, walker, NULL); else hawk_rbt_rwalk(t, walker, NULL);
			printf("w=%s\n", wbuf);
		}
		else if (!strcmp(op, "iter") && sscanf(line, "%*s %lu %lu", &x, &y) == 2 && x < 2)
		{
			/* explicit stateful iterator: direction x, getfirstpair + at most y further getnextpair calls;
			 * prints the visited pairs and whether the iterator reported the end */
			hawk_rbt_itr_t itr; hawk_rbt_pair_t* p; unsigned long n = 0;
			wlen = 0; wbuf[0] = 0; wstop = 0;
			hawk_init_rbt_itr(&itr, (int)x);
			p = hawk_rbt_getfirstpair(t, &itr);
			while (p)
			{
				walker(t, p, NULL);
				if (p != itr.pair) { wlen += snprintf(wbuf + wlen, sizeof(wbuf) - wlen, "!itrpair"); }
				if (n++ >= y) break;
				p = hawk_rbt_getnextpair(t, &itr);
			}
			printf("w=%s end=%d\n", wbuf, p == NULL);
		}
		else printf("bad-op\n");
		fflush(stdout);
	}
	alarm(0);
	if (t) hawk_rbt_close(t);
	return 0;
}
