/* C04 harness: runs the REAL hawk in process on the cases of the line protocol described in
 * lean/HawkModel/Drv/ReadIo.lean and prints the same canonical lines.
 *
 *   KIND MODE FILE*
 *   KIND  C  custom console handler that serves the files under the given chunking (READ returns one chunk per call,
 *            0 at the end of each file, NEXT opens the next file and sets FILENAME)
 *         F  the std.c console chain over real temporary files in <scratch> (argv[1]); pos/len are printed but the
 *            check ignores them for this kind (sio decides the chunking)
 *         X  all 2^(n-1) chunkings of the single file, one output line per chunking, through the custom handler
 *         B  like C, Y like X, but the records are read as bytes: hawk_rtx_readiobytes through
 *            BEGIN { while ((getbline x) > 0) print NR, FNR, FILENAME, "[" x "]" }  (handler command READ_BYTES)
 *   program:  BEGIN { RS = ...; ORS = "\001" } { print NR, FNR, FILENAME, "[" $0 "]" }
 *   after every record the console-read `hawk_rio_arg_t.in.{pos,len,eof}` is dumped (internal state, not only output)
 */
#include <hawk-std.h>
#include <hawk-utl.h>
#include <stdio.h>
#include <stdlib.h>
#include <string.h>
#include <signal.h>
#include <unistd.h>

#define MAXFILES 16
#define MAXDATA  (1 << 17)
#define MAXOUT   (1 << 20)

typedef struct
{
	hawk_ooch_t name[64];
	size_t namelen;
	hawk_ooch_t* data;
	size_t len;
	size_t* cuts;
	size_t ncuts;
} file_t;

static file_t files[MAXFILES];
static int nfiles;
static int cur;          /* index of the open file */
static size_t off;       /* offset into it */
static size_t reads;     /* READ calls */
static size_t cutidx;    /* first cut not yet passed */

static char outbuf[MAXOUT];
static size_t outlen;

static hawk_rio_arg_t* in_arg;
static hawk_rio_impl_t std_console;
static char final_state[128];
static const char* scratch = "/tmp";

static void out_append (const char* s, size_t n)
{
	if (outlen + n >= MAXOUT) n = MAXOUT - outlen - 1;
	memcpy (&outbuf[outlen], s, n);
	outlen += n;
}

static void snap (char* buf, size_t size, hawk_rio_arg_t* a)
{
	/* pos may have wrapped below zero (size_t); any value >= len behaves alike: canonical form min(pos,len) */
	size_t pos = a->in.pos, len = a->in.len;
	if (pos > len) pos = len;
	snprintf (buf, size, "%zu:%zu:%d", pos, len, a->in.eof? 1: 0);
}

static hawk_ooi_t console_write (hawk_rtx_t* rtx, hawk_rio_cmd_t cmd, hawk_rio_arg_t* riod, void* data, hawk_oow_t size)
{
	switch (cmd)
	{
		case HAWK_RIO_CMD_OPEN: return 1;
		case HAWK_RIO_CMD_CLOSE: return 0;
		case HAWK_RIO_CMD_FLUSH: return 0;
		case HAWK_RIO_CMD_NEXT: return 0;
		case HAWK_RIO_CMD_WRITE:
		case HAWK_RIO_CMD_WRITE_BYTES:
		{
			hawk_oow_t i;
			for (i = 0; i < size; i++)
			{
				char ch = (cmd == HAWK_RIO_CMD_WRITE)? (char)((hawk_ooch_t*)data)[i]: ((char*)data)[i];
				out_append (&ch, 1);
				if (ch == '\001')
				{
					/* end of one print statement: dump the state of the input side */
					char tmp[96];
					if (in_arg) snap (tmp, sizeof(tmp), in_arg); else strcpy (tmp, "?:?:?");
					out_append (tmp, strlen(tmp));
					out_append ("\002", 1);
				}
			}
			return size;
		}
		default: break;
	}
	return -1;
}

static int set_filename (hawk_rtx_t* rtx, file_t* f)
{
	if (f->namelen == 0) return 0;
	return hawk_rtx_setfilenamewithoochars(rtx, f->name, f->namelen);
}

static hawk_ooi_t console_custom (hawk_rtx_t* rtx, hawk_rio_cmd_t cmd, hawk_rio_arg_t* riod, void* data, hawk_oow_t size)
{
	if (riod->mode == HAWK_RIO_CONSOLE_WRITE) return console_write(rtx, cmd, riod, data, size);

	switch (cmd)
	{
		case HAWK_RIO_CMD_OPEN:
			in_arg = riod;
			cur = 0; off = 0; cutidx = 0;
			if (nfiles <= 0) return 0;
			if (set_filename(rtx, &files[0]) <= -1) return -1;
			return 1;

		case HAWK_RIO_CMD_CLOSE:
		{
			char tmp[96];
			snap (tmp, sizeof(tmp), riod);
			snprintf (final_state, sizeof(final_state), "e%d:%s", riod->in.eos? 1: 0, tmp);
			in_arg = HAWK_NULL;
			return 0;
		}

		case HAWK_RIO_CMD_READ:
		case HAWK_RIO_CMD_READ_BYTES:
		{
			file_t* f = &files[cur];
			size_t n, nextcut;
			reads++;
			if (off >= f->len) return 0; /* end of this file */
			while (cutidx < f->ncuts && f->cuts[cutidx] <= off) cutidx++;
			nextcut = (cutidx < f->ncuts)? f->cuts[cutidx]: f->len;
			if (nextcut > f->len) nextcut = f->len;
			n = nextcut - off;
			if (n > size) n = size;
			if (cmd == HAWK_RIO_CMD_READ) memcpy (data, &f->data[off], n * sizeof(hawk_ooch_t));
			else
			{
				size_t k;
				for (k = 0; k < n; k++) ((hawk_bch_t*)data)[k] = (hawk_bch_t)f->data[off + k];
			}
			off += n;
			return n;
		}

		case HAWK_RIO_CMD_NEXT:
			if (cur + 1 >= nfiles) return 0;
			cur++; off = 0; cutidx = 0;
			if (set_filename(rtx, &files[cur]) <= -1) return -1;
			return 1;

		default: break;
	}
	return -1;
}

/* std.c chain for reading, capture for writing */
static hawk_ooi_t console_std (hawk_rtx_t* rtx, hawk_rio_cmd_t cmd, hawk_rio_arg_t* riod, void* data, hawk_oow_t size)
{
	if (riod->mode == HAWK_RIO_CONSOLE_WRITE) return console_write(rtx, cmd, riod, data, size);
	if (cmd == HAWK_RIO_CMD_OPEN) in_arg = riod;
	if (cmd == HAWK_RIO_CMD_CLOSE)
	{
		char tmp[96];
		snap (tmp, sizeof(tmp), riod);
		snprintf (final_state, sizeof(final_state), "e%d:%s", riod->in.eos? 1: 0, tmp);
		in_arg = HAWK_NULL;
	}
	return std_console(rtx, cmd, riod, data, size);
}

/* ------------------------------------------------------------------ */

static int hexval (int c)
{
	if (c >= '0' && c <= '9') return c - '0';
	if (c >= 'a' && c <= 'f') return c - 'a' + 10;
	if (c >= 'A' && c <= 'F') return c - 'A' + 10;
	return -1;
}

static hawk_t* cached_hawk;
static char cached_key[512];

static hawk_t* get_hawk (const char* mode, int bytes)
{
	/* mode: D | S<hh> | P0 | P1 | R<hex>:<ast> */
	char prog[2048];
	char rs[1024];
	hawk_t* hawk;
	hawk_parsestd_t psin[2];
	static hawk_ooch_t wprog[2048];
	size_t i, n;
	int crlf = 0;

	char key[512];

	snprintf (key, sizeof(key), "%c%s", bytes? 'B': 'C', mode);
	if (cached_hawk && strcmp(cached_key, key) == 0) return cached_hawk;
	if (cached_hawk) { hawk_close (cached_hawk); cached_hawk = HAWK_NULL; }

	rs[0] = '\0';
	if (mode[0] == 'D') { /* RS untouched */ }
	else if (mode[0] == 'P') { strcpy (rs, "RS = \"\"; "); crlf = (mode[1] == '1'); }
	else if (mode[0] == 'S' || mode[0] == 'R')
	{
		const char* h = mode + 1;
		char* q = rs;
		q += sprintf(q, "RS = \"");
		while (hexval(h[0]) >= 0 && hexval(h[1]) >= 0)
		{
			q += sprintf(q, "\\%03o", hexval(h[0]) * 16 + hexval(h[1]));
			h += 2;
		}
		q += sprintf(q, "\"; ");
	}
	else return HAWK_NULL;

	if (bytes)
		snprintf (prog, sizeof(prog), "BEGIN { %sORS = \"\\001\"; while ((getbline x) > 0) print NR, FNR, FILENAME, \"[\" x \"]\" }", rs);
	else
		snprintf (prog, sizeof(prog), "BEGIN { %sORS = \"\\001\" } { print NR, FNR, FILENAME, \"[\" $0 \"]\" }", rs);

	hawk = hawk_openstd(0, HAWK_NULL);
	if (!hawk) return HAWK_NULL;
	if (crlf)
	{
		int trait;
		hawk_getopt (hawk, HAWK_OPT_TRAIT, &trait);
		trait |= HAWK_CRLF;
		hawk_setopt (hawk, HAWK_OPT_TRAIT, &trait);
	}

	n = strlen(prog);
	for (i = 0; i < n; i++) wprog[i] = (unsigned char)prog[i];
	wprog[n] = 0;
	psin[0].type = HAWK_PARSESTD_OOCS;
	psin[0].u.oocs.ptr = wprog;
	psin[0].u.oocs.len = n;
	psin[1].type = HAWK_PARSESTD_NULL;
	if (hawk_parsestd(hawk, psin, HAWK_NULL) <= -1)
	{
		fprintf (stderr, "parse error: %s\n", prog);
		hawk_close (hawk);
		return HAWK_NULL;
	}
	cached_hawk = hawk;
	snprintf (cached_key, sizeof(cached_key), "%s", key);
	return hawk;
}

static int parse_file (char* w, file_t* f)
{
	/* name=hex/cuts */
	char* eq = strchr(w, '=');
	char* sl;
	size_t i, n;
	if (!eq) return -1;
	*eq = '\0';
	sl = strchr(eq + 1, '/');
	if (!sl) return -1;
	*sl = '\0';
	n = strlen(w);
	if (n >= 63) return -1;
	for (i = 0; i < n; i++) f->name[i] = (unsigned char)w[i];
	f->name[n] = 0;
	f->namelen = n;
	n = strlen(eq + 1) / 2;
	if (n > MAXDATA) return -1;
	if (!f->data) f->data = malloc(MAXDATA * sizeof(hawk_ooch_t));
	if (!f->cuts) f->cuts = malloc(MAXDATA * sizeof(size_t));
	for (i = 0; i < n; i++) f->data[i] = hexval(eq[1 + 2 * i]) * 16 + hexval(eq[2 + 2 * i]);
	f->len = n;
	f->ncuts = 0;
	{
		char* p = sl + 1;
		while (*p)
		{
			char* e;
			unsigned long v = strtoul(p, &e, 10);
			if (e == p) break;
			if (f->ncuts < MAXDATA) f->cuts[f->ncuts++] = v;
			p = (*e == ',')? e + 1: e;
		}
	}
	return 0;
}

static void print_result (const char* prefix, int err, const char* errmsg)
{
	/* outbuf: pieces "NR FNR FILENAME [rec]\001pos:len:eof\002" */
	size_t i = 0;
	fputs (prefix, stdout);
	while (i < outlen)
	{
		size_t e = i, s2;
		char* p;
		int sp = 0;
		size_t k, recstart, recend;
		while (e < outlen && outbuf[e] != '\001') e++;
		if (e >= outlen) { printf ("garbage "); break; }
		s2 = e + 1;
		while (s2 < outlen && outbuf[s2] != '\002') s2++;
		/* fields */
		putchar ('r');
		k = i;
		while (k < e && sp < 3)
		{
			if (outbuf[k] == ' ') { sp++; putchar (':'); }
			else putchar (outbuf[k]);
			k++;
		}
		/* outbuf[k] == '[' ... outbuf[e-1] == ']' */
		recstart = k + 1; recend = (e > 0)? e - 1: 0;
		if (k >= e || outbuf[k] != '[' || outbuf[e - 1] != ']') printf ("??");
		else for (k = recstart; k < recend; k++) printf ("%02x", (unsigned char)outbuf[k]);
		putchar (':');
		p = &outbuf[e + 1];
		fwrite (p, 1, (s2 > e + 1)? s2 - e - 1: 0, stdout);
		putchar (' ');
		i = s2 + 1;
	}
	if (err) printf ("ERR %s", errmsg);
	else fputs (final_state, stdout);
	putchar ('\n');
}

static char errbuf[512];

static int run_once (hawk_t* hawk, int kind)
{
	hawk_rtx_t* rtx;
	hawk_rio_cbs_t rio;
	hawk_val_t* rv;
	hawk_ooch_t* icf[MAXFILES + 1];
	static hawk_ooch_t paths[MAXFILES][256];
	int i, ret = 0;

	outlen = 0; in_arg = HAWK_NULL; reads = 0;
	strcpy (final_state, "e?");

	if (kind == 'F')
	{
		for (i = 0; i < nfiles; i++)
		{
			char path[256];
			FILE* fp;
			size_t k;
			/* the file name seen by the program must be the model's name: the cwd is the scratch directory */
			for (k = 0; k < files[i].namelen; k++) path[k] = (char)files[i].name[k];
			path[files[i].namelen] = '\0';
			fp = fopen(path, "wb");
			if (!fp) { snprintf (errbuf, sizeof(errbuf), "cannot write %s", path); return -1; }
			for (k = 0; k < files[i].len; k++) fputc ((int)files[i].data[k], fp);
			fclose (fp);
			for (k = 0; k <= files[i].namelen; k++) paths[i][k] = files[i].name[k];
			icf[i] = paths[i];
		}
		icf[nfiles] = HAWK_NULL;
		rtx = hawk_rtx_openstd(hawk, 0, HAWK_T("readio_h"), icf, HAWK_NULL, HAWK_NULL);
	}
	else
	{
		rtx = hawk_rtx_openstd(hawk, 0, HAWK_T("readio_h"), HAWK_NULL, HAWK_NULL, HAWK_NULL);
	}
	if (!rtx) { snprintf (errbuf, sizeof(errbuf), "rtx open failed"); return -1; }

	hawk_rtx_getrio (rtx, &rio);
	std_console = rio.console;
	rio.console = (kind == 'F')? console_std: console_custom;
	hawk_rtx_setrio (rtx, &rio);

	rv = hawk_rtx_loop(rtx);
	if (!rv)
	{
		const hawk_ooch_t* m = hawk_rtx_geterrmsg(rtx);
		size_t k;
		for (k = 0; m[k] && k < sizeof(errbuf) - 1; k++) errbuf[k] = (char)m[k];
		errbuf[k] = '\0';
		ret = -1;
	}
	else hawk_rtx_refdownval (rtx, rv);
	hawk_rtx_close (rtx);
	return ret;
}

static void on_alarm (int sig)
{
	static const char msg[] = "HANG\n";
	fflush (stdout);
	if (write(1, msg, sizeof(msg) - 1)) {}
	_exit (3);
}

int main (int argc, char* argv[])
{
	static char line[4 * MAXDATA];
	int wd = 20;

	if (argc >= 2) scratch = argv[1];
	if (argc >= 3) wd = atoi(argv[2]);
	if (chdir(scratch) != 0) { perror ("chdir"); return 2; }
	signal (SIGALRM, on_alarm);

	while (fgets(line, sizeof(line), stdin))
	{
		char* words[MAXFILES + 3];
		int nw = 0, i, kind;
		char* p = strtok(line, " \r\n");
		hawk_t* hawk;

		while (p && nw < MAXFILES + 2) { words[nw++] = p; p = strtok(HAWK_NULL, " \r\n"); }
		if (nw < 2) { puts ("bad-case"); continue; }
		kind = words[0][0];
		hawk = get_hawk(words[1], kind == 'B' || kind == 'Y');
		if (!hawk) { puts ("bad-case"); continue; }
		nfiles = 0;
		for (i = 2; i < nw; i++)
		{
			if (parse_file(words[i], &files[nfiles]) <= -1) { nfiles = -1; break; }
			nfiles++;
		}
		if (nfiles < 0) { puts ("bad-case"); continue; }

		alarm (wd);
		if (kind == 'X' || kind == 'Y')
		{
			size_t n, mask, total;
			if (nfiles != 1 || files[0].len > 20) { puts ("bad-case"); continue; }
			n = files[0].len;
			total = (n >= 1)? ((size_t)1 << (n - 1)): 1;
			for (mask = 0; mask < total; mask++)
			{
				size_t k;
				char prefix[32];
				int r;
				files[0].ncuts = 0;
				for (k = 0; k + 1 < n; k++) if (mask & ((size_t)1 << k)) files[0].cuts[files[0].ncuts++] = k + 1;
				r = run_once(hawk, 'C');
				snprintf (prefix, sizeof(prefix), "m%zu ", mask);
				print_result (prefix, r <= -1, errbuf);
			}
		}
		else if (kind == 'C' || kind == 'F' || kind == 'B')
		{
			int r = run_once(hawk, kind);
			print_result ("", r <= -1, errbuf);
		}
		else puts ("bad-case");
		alarm (0);
	}
	if (cached_hawk) hawk_close (cached_hawk);
	fflush (stdout);
	return 0;
}
