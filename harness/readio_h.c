/* C04 harness: runs the REAL hawk in process on the cases of the line protocol described in
 * lean/HawkModel/Drv/ReadIo.lean and prints the same canonical lines.
 *
 *   KIND MODE FILE*
 *   FILE  name=<hex of the file's BYTES (UTF-8)>/<cut positions>
 *   KIND  layer exercised
 *         C  rio.c record reader over a custom console handler that serves CHARACTERS (the file decoded from UTF-8) under the
 *            given chunking in characters (READ returns one chunk per call, 0 at the end of each file, NEXT opens the
 *            next file and sets FILENAME).  X = all 2^(n-1) character chunkings of the single file, one line per chunking.
 *         B  like C, Y like X, but the handler serves raw BYTES and the records are read as bytes: hawk_rtx_readiobytes
 *            through BEGIN { while ((getbline x) > 0) print NR, FNR, FILENAME, "[" x "]" }  (handler command READ_BYTES)
 *         F  std.c console chain + sio/tio (UTF-8 decoding, 2048-byte read buffer) over real temporary files in <scratch>
 *            (argv[1]); G = the same read with getbline.  in.pos/len are compared too: the model computes what tio hands to rio.
 *         P  std.c console + sio/tio reading standard input, which is a real pipe fed by a writer thread with the BYTES of
 *            the single file under the given chunking in bytes: every read(2) returns exactly one chunk (the writer
 *            waits until the pipe is empty); Q = the same read with getbline; Z = all 2^(n-1) byte chunkings (like X).
 *   MODE  <rs mode>[@<program>]   programs (k a small number; PR(x) = print NR, FNR, FILENAME, "[" x "]";
 *            SP = print 0, ++sn, "side", "[" y "]"; the side stream is the FILE named `side`, served by a chunking custom
 *            FILE handler in the custom kinds and by std.c's file handler over a real file in the std kinds):
 *            (none) { PR($0) }
 *            N<k>   { PR($0); if (FNR == k) nextfile }                       the stream is abandoned in mid-buffer
 *            G<k>   { PR($0); if (NR % k == 0 && (getline) > 0) PR($0) }     a second caller of hawk_rtx_readio
 *            V<k>   { PR($0); if (NR % k == 0 && (getline v) > 0) PR(v) }
 *            M<k>   { PR($0); if (NR % 2 == 0 && (getline) > 0) PR($0); if (FNR >= k) nextfile }
 *            S<k>   { PR($0); if (NR % k == 0 && (getline y < "side") > 0) SP } END { while ((getline y < "side") > 0) SP }
 *            C<k>   { PR($0); if ((getline y < "side") > 0) SP; if (NR % k == 0) { close("side"); sn = 0 } }   R<k>: close("side", "r")
 *            K<k>   like S, the side stream is the command pipe "cat side" (std kinds only);  L<k> like S with `getline < "side"` into $0
 *            byte kinds: (none), S<k>, C<k> with getbline inside BEGIN's while ((getbline x) > 0) loop
 *            F      { s = NF ":" split($0, q); for (i = 1; i <= NF; i++) s = s "|" $i "=" q[i]; PR(s) }   fields by FS (no model)
 *   MODE  H<op>;<op>;...[!<regex trees for the model>]   a history of assignments in BEGIN instead of `RS = ...`:
 *            c<hex>  CONVFMT = "<text>"      g0 | g1  IGNORECASE = 0 | 1      R  RS = RS      F  FS = FS
 *            r<val>  RS = <val>              f<val>   FS = <val>
 *            val: n (an unset variable) | s<hex> "string" | b<hex> @b"bytes" | k<hex> 'c' | i<hex of the literal> integer
 *                 | d<hex of the literal>[~<hex fmt>-<hex text>]* floating-point literal (the table is for the model)
 *   FILE  `%a` = an ARGV entry `vv=1` (assignment, no file), `%e` = an empty ARGV entry, name `-` = standard input fed through
 *            the pipe (std kinds only)
 *   program:  BEGIN { RS = ...; ORS = "\001" } { print NR, FNR, FILENAME, "[" $0 "]" }
 *   after every record the console-read `hawk_rio_arg_t.in.{pos,len,eof}` is dumped (internal state, not only output)
 */
#include <hawk-std.h>
#include <hawk-utl.h>
#include <stdio.h>
#include <stdlib.h>
#include <string.h>
#include <signal.h>
#include <unistd.h>
#include <pthread.h>
#include <errno.h>
#include <sys/ioctl.h>
#include <fcntl.h>

#define MAXFILES 16
#define MAXDATA  (1 << 17)
#define MAXOUT   (1 << 20)

typedef struct
{
	hawk_ooch_t name[64];
	size_t namelen;
	hawk_ooch_t* data;    /* what the custom handler serves: decoded characters (C, X) or the bytes one by one (B, Y) */
	size_t len;
	unsigned char* bytes; /* the file as it is */
	size_t nbytes;
	size_t* cuts;
	size_t ncuts;
	int special;          /* 'a' assignment entry, 'e' empty entry, 0 a file */
} file_t;

static file_t files[MAXFILES];
static int nfiles;
static int cons_idx[MAXFILES]; /* the console's files: not `side`, not special */
static int ncons;
static int side_idx;          /* the file named `side`, or -1 */
static size_t soff, scutidx;  /* position in it */
static int cur;          /* index of the open file */
static size_t off;       /* offset into it */
static size_t reads;     /* READ calls */
static size_t cutidx;    /* first cut not yet passed */

static char outbuf[MAXOUT];
static size_t outlen;

static hawk_rio_arg_t* in_arg;
static hawk_rio_impl_t std_console;
static char final_state[128];
static const char* scratch = "/tmp";

static void out_append (const char* s, size_t n)
{
	if (outlen + n >= MAXOUT) n = MAXOUT - outlen - 1;
	memcpy (&outbuf[outlen], s, n);
	outlen += n;
}

static void snap (char* buf, size_t size, hawk_rio_arg_t* a)
{
	/* pos may have wrapped below zero (size_t); any value >= len behaves alike: canonical form min(pos,len) */
	size_t pos = a->in.pos, len = a->in.len;
	if (pos > len) pos = len;
	snprintf (buf, size, "%zu:%zu:%d", pos, len, a->in.eof? 1: 0);
}

static hawk_ooi_t console_write (hawk_rtx_t* rtx, hawk_rio_cmd_t cmd, hawk_rio_arg_t* riod, void* data, hawk_oow_t size)
{
	switch (cmd)
	{
		case HAWK_RIO_CMD_OPEN: return 1;
		case HAWK_RIO_CMD_CLOSE: return 0;
		case HAWK_RIO_CMD_FLUSH: return 0;
		case HAWK_RIO_CMD_NEXT: return 0;
		case HAWK_RIO_CMD_WRITE:
		case HAWK_RIO_CMD_WRITE_BYTES:
		{
			hawk_oow_t i;
			for (i = 0; i < size; i++)
			{
				char ch;
				if (cmd == HAWK_RIO_CMD_WRITE)
				{
					/* characters leave as UTF-8 */
					unsigned int c = (unsigned int)((hawk_ooch_t*)data)[i] & 0xFFFFu;
					if (c >= 0x800)
					{
						char u[3];
						u[0] = (char)(0xE0 | (c >> 12)); u[1] = (char)(0x80 | ((c >> 6) & 0x3F)); u[2] = (char)(0x80 | (c & 0x3F));
						out_append (u, 3);
						continue;
					}
					else if (c >= 0x80)
					{
						char u[2];
						u[0] = (char)(0xC0 | (c >> 6)); u[1] = (char)(0x80 | (c & 0x3F));
						out_append (u, 2);
						continue;
					}
					ch = (char)c;
				}
				else ch = ((char*)data)[i];
				out_append (&ch, 1);
				if (ch == '\001')
				{
					/* end of one print statement: dump the state of the input side */
					char tmp[96];
					if (in_arg) snap (tmp, sizeof(tmp), in_arg); else strcpy (tmp, "?:?:?");
					out_append (tmp, strlen(tmp));
					out_append ("\002", 1);
				}
			}
			return size;
		}
		default: break;
	}
	return -1;
}

static int set_filename (hawk_rtx_t* rtx, file_t* f)
{
	if (f->namelen == 0) return 0;
	return hawk_rtx_setfilenamewithoochars(rtx, f->name, f->namelen);
}

static hawk_ooi_t console_custom (hawk_rtx_t* rtx, hawk_rio_cmd_t cmd, hawk_rio_arg_t* riod, void* data, hawk_oow_t size)
{
	if (riod->mode == HAWK_RIO_CONSOLE_WRITE) return console_write(rtx, cmd, riod, data, size);

	switch (cmd)
	{
		case HAWK_RIO_CMD_OPEN:
			in_arg = riod;
			cur = 0; off = 0; cutidx = 0;
			if (ncons <= 0) return 0;
			if (set_filename(rtx, &files[cons_idx[0]]) <= -1) return -1;
			return 1;

		case HAWK_RIO_CMD_CLOSE:
		{
			char tmp[96];
			snap (tmp, sizeof(tmp), riod);
			snprintf (final_state, sizeof(final_state), "e%d:%s", riod->in.eos? 1: 0, tmp);
			in_arg = HAWK_NULL;
			return 0;
		}

		case HAWK_RIO_CMD_READ:
		case HAWK_RIO_CMD_READ_BYTES:
		{
			file_t* f = &files[cons_idx[cur]];
			size_t n, nextcut;
			reads++;
			if (off >= f->len) return 0; /* end of this file */
			while (cutidx < f->ncuts && f->cuts[cutidx] <= off) cutidx++;
			nextcut = (cutidx < f->ncuts)? f->cuts[cutidx]: f->len;
			if (nextcut > f->len) nextcut = f->len;
			n = nextcut - off;
			if (n > size) n = size;
			if (cmd == HAWK_RIO_CMD_READ) memcpy (data, &f->data[off], n * sizeof(hawk_ooch_t));
			else
			{
				size_t k;
				for (k = 0; k < n; k++) ((hawk_bch_t*)data)[k] = (hawk_bch_t)f->data[off + k];
			}
			off += n;
			return n;
		}

		case HAWK_RIO_CMD_NEXT:
			if (cur + 1 >= ncons) return 0;
			cur++; off = 0; cutidx = 0;
			if (set_filename(rtx, &files[cons_idx[cur]]) <= -1) return -1;
			return 1;

		default: break;
	}
	return -1;
}

/* `getline y < "side"` in the custom kinds: the side file in its own chunks */
static hawk_ooi_t file_custom (hawk_rtx_t* rtx, hawk_rio_cmd_t cmd, hawk_rio_arg_t* riod, void* data, hawk_oow_t size)
{
	switch (cmd)
	{
		case HAWK_RIO_CMD_OPEN:
			if (side_idx < 0 || riod->mode != HAWK_RIO_FILE_READ) return -1;
			if (hawk_comp_oocstr_bcstr(riod->name, "side", 0) != 0) return -1;
			soff = 0; scutidx = 0;
			return 1;

		case HAWK_RIO_CMD_CLOSE:
			return 0;

		case HAWK_RIO_CMD_READ:
		case HAWK_RIO_CMD_READ_BYTES:
		{
			file_t* f = &files[side_idx];
			size_t n, nextcut;
			if (soff >= f->len) return 0;
			while (scutidx < f->ncuts && f->cuts[scutidx] <= soff) scutidx++;
			nextcut = (scutidx < f->ncuts)? f->cuts[scutidx]: f->len;
			if (nextcut > f->len) nextcut = f->len;
			n = nextcut - soff;
			if (n > size) n = size;
			if (cmd == HAWK_RIO_CMD_READ) memcpy (data, &f->data[soff], n * sizeof(hawk_ooch_t));
			else
			{
				size_t k;
				for (k = 0; k < n; k++) ((hawk_bch_t*)data)[k] = (hawk_bch_t)f->data[soff + k];
			}
			soff += n;
			return n;
		}

		default: break;
	}
	return -1;
}

/* std.c chain for reading, capture for writing */
static hawk_ooi_t console_std (hawk_rtx_t* rtx, hawk_rio_cmd_t cmd, hawk_rio_arg_t* riod, void* data, hawk_oow_t size)
{
	if (riod->mode == HAWK_RIO_CONSOLE_WRITE) return console_write(rtx, cmd, riod, data, size);
	if (cmd == HAWK_RIO_CMD_OPEN) in_arg = riod;
	if (cmd == HAWK_RIO_CMD_CLOSE)
	{
		char tmp[96];
		snap (tmp, sizeof(tmp), riod);
		snprintf (final_state, sizeof(final_state), "e%d:%s", riod->in.eos? 1: 0, tmp);
		in_arg = HAWK_NULL;
	}
	return std_console(rtx, cmd, riod, data, size);
}

/* ------------------------------------------------------------------ */

static int hexval (int c)
{
	if (c >= '0' && c <= '9') return c - '0';
	if (c >= 'a' && c <= 'f') return c - 'a' + 10;
	if (c >= 'A' && c <= 'F') return c - 'A' + 10;
	return -1;
}

static hawk_t* cached_hawk;
static char cached_key[2048];

/* decode one UTF-8 sequence (1..3 bytes; anything else is taken as a single byte) */
static size_t utf8_dec (const unsigned char* p, size_t n, unsigned int* c)
{
	if (n >= 2 && (p[0] & 0xE0) == 0xC0 && (p[1] & 0xC0) == 0x80) { *c = ((p[0] & 0x1Fu) << 6) | (p[1] & 0x3Fu); return 2; }
	if (n >= 3 && (p[0] & 0xF0) == 0xE0 && (p[1] & 0xC0) == 0x80 && (p[2] & 0xC0) == 0x80)
	{
		*c = ((p[0] & 0x0Fu) << 12) | ((p[1] & 0x3Fu) << 6) | (p[2] & 0x3Fu);
		return 3;
	}
	*c = p[0];
	return 1;
}

static hawk_ooch_t wprog[4096];
static size_t wlen;

static void wput (const char* a)
{
	while (*a && wlen < HAWK_COUNTOF(wprog) - 1) wprog[wlen++] = (unsigned char)*a++;
}

/* a string literal from the hex of its UTF-8 bytes; *h is advanced past the hex */
static void wput_str (const char** h)
{
	unsigned char rsb[256];
	size_t nb = 0, k = 0;
	while (hexval((*h)[0]) >= 0 && hexval((*h)[1]) >= 0 && nb < sizeof(rsb))
	{
		rsb[nb++] = (unsigned char)(hexval((*h)[0]) * 16 + hexval((*h)[1]));
		*h += 2;
	}
	wput ("\"");
	while (k < nb)
	{
		unsigned int c;
		k += utf8_dec(&rsb[k], nb - k, &c);
		if (c < 0x80)
		{
			char esc[8];
			snprintf (esc, sizeof(esc), "\\%03o", c);
			wput (esc);
		}
		else if (wlen < HAWK_COUNTOF(wprog) - 1) wprog[wlen++] = (hawk_ooch_t)c; /* the character itself */
	}
	wput ("\"");
}

/* a byte string literal @b"\xHH..." (the caller has written @b) */
static void wput_bstr (const char** h)
{
	wput ("\"");
	while (hexval((*h)[0]) >= 0 && hexval((*h)[1]) >= 0)
	{
		char esc[8];
		snprintf (esc, sizeof(esc), "\\x%c%c", (*h)[0], (*h)[1]);
		wput (esc);
		*h += 2;
	}
	wput ("\"");
}

/* a character literal 'c' */
static void wput_chr (const char** h)
{
	unsigned char rsb[8];
	size_t nb = 0;
	unsigned int c = 0;
	while (hexval((*h)[0]) >= 0 && hexval((*h)[1]) >= 0 && nb < sizeof(rsb))
	{
		rsb[nb++] = (unsigned char)(hexval((*h)[0]) * 16 + hexval((*h)[1]));
		*h += 2;
	}
	if (nb > 0) utf8_dec (rsb, nb, &c);
	wput ("'");
	if (c < 0x80)
	{
		char esc[8];
		snprintf (esc, sizeof(esc), "\\%03o", c);
		wput (esc);
	}
	else if (wlen < HAWK_COUNTOF(wprog) - 1) wprog[wlen++] = (hawk_ooch_t)c;
	wput ("'");
}

static hawk_t* get_hawk (const char* modeprog, int bytes)
{
	/* mode: D | S<hex of one character> | P0 | P1 | R<hex of the RS text>:<ast> */
	hawk_t* hawk;
	hawk_parsestd_t psin[2];
	int crlf = 0;
	char key[2048];
	char mode[2048];
	const char* prog = "";
	int k = 1;
	char tmp[1024];
	const char* at = strchr(modeprog, '@');

	snprintf (mode, sizeof(mode), "%s", modeprog);
	if (at) { mode[at - modeprog] = '\0'; prog = at + 1; if (prog[0] && prog[1]) k = atoi(prog + 1); if (k <= 0) k = 1; }
	snprintf (key, sizeof(key), "%c%s", bytes? 'B': 'C', modeprog);
	if (cached_hawk && strcmp(cached_key, key) == 0) return cached_hawk;
	if (cached_hawk) { hawk_close (cached_hawk); cached_hawk = HAWK_NULL; }

	wlen = 0;
	wput ("BEGIN { ");
	if (mode[0] == 'D') { /* RS untouched */ }
	else if (mode[0] == 'P') { wput ("RS = \"\"; "); crlf = (mode[1] == '1'); }
	else if (mode[0] == 'S' || mode[0] == 'R')
	{
		unsigned char rsb[256];
		size_t nb = 0, k = 0;
		const char* h = mode + 1;
		while (hexval(h[0]) >= 0 && hexval(h[1]) >= 0 && nb < sizeof(rsb))
		{
			rsb[nb++] = (unsigned char)(hexval(h[0]) * 16 + hexval(h[1]));
			h += 2;
		}
		wput ("RS = \"");
		while (k < nb)
		{
			unsigned int c;
			k += utf8_dec(&rsb[k], nb - k, &c);
			if (c < 0x80)
			{
				char esc[8];
				snprintf (esc, sizeof(esc), "\\%03o", c);
				wput (esc);
			}
			else if (wlen < HAWK_COUNTOF(wprog) - 1) wprog[wlen++] = (hawk_ooch_t)c; /* the character itself */
		}
		wput ("\"; ");
	}
	else if (mode[0] == 'H')
	{
		/* a history of assignments to RS, FS, CONVFMT, IGNORECASE: ops joined by `;`, see vlib/props/c04.py (hist_word);
		 * what follows `!` (the regex trees for the model) is not for the real code */
		const char* h = mode + 1;
		while (*h && *h != '!')
		{
			const char* var = HAWK_NULL;
			if (*h == ';') { h++; continue; }
			if (*h == 'c') { var = "CONVFMT"; h++; wput ("CONVFMT = "); wput_str (&h); wput ("; "); continue; }
			if (*h == 'g') { wput ("IGNORECASE = "); wput ((h[1] == '1')? "1": "0"); wput ("; "); h += 2; continue; }
			if (*h == 'R') { wput ("RS = RS; "); h++; continue; }
			if (*h == 'F') { wput ("FS = FS; "); h++; continue; }
			if (*h == 'r') var = "RS";
			else if (*h == 'f') var = "FS";
			else return HAWK_NULL;
			h++;
			wput (var); wput (" = ");
			switch (*h++)
			{
				case 'n': wput ("uu"); break;                                   /* a variable never assigned */
				case 's': wput_str (&h); break;
				case 'b': wput ("@b"); wput_bstr (&h); break;
				case 'k': wput_chr (&h); break;
				case 'i':
				case 'd':
				{
					/* the literal as it is written; a float carries `~<fmt>-<text>` entries for the model */
					while (hexval(h[0]) >= 0 && hexval(h[1]) >= 0)
					{
						if (wlen < HAWK_COUNTOF(wprog) - 1) wprog[wlen++] = (hawk_ooch_t)(hexval(h[0]) * 16 + hexval(h[1]));
						h += 2;
					}
					while (*h && *h != ';' && *h != '!') h++;
					break;
				}
				default: return HAWK_NULL;
			}
			wput ("; ");
		}
	}
	else return HAWK_NULL;

#define PR(x) "print NR, FNR, FILENAME, \"[\" " x " \"]\""
#define SP "print 0, ++sn, \"side\", \"[\" y \"]\""
	wput ("ORS = \"\\001\"; ");
	if (bytes)
	{
		switch (prog[0])
		{
			case '\0': wput ("while ((getbline x) > 0) " PR("x") " }"); break;
			case 'S':
				snprintf (tmp, sizeof(tmp), "while ((getbline x) > 0) { " PR("x") "; if (NR %% %d == 0 && (getbline y < \"side\") > 0) " SP " } "
					"while ((getbline y < \"side\") > 0) " SP " }", k);
				wput (tmp); break;
			case 'C':
				snprintf (tmp, sizeof(tmp), "while ((getbline x) > 0) { " PR("x") "; if ((getbline y < \"side\") > 0) " SP "; "
					"if (NR %% %d == 0) { close(\"side\"); sn = 0 } } }", k);
				wput (tmp); break;
			default: return HAWK_NULL;
		}
	}
	else
	{
		wput ("} ");
		switch (prog[0])
		{
			case '\0': wput ("{ " PR("$0") " }"); break;
			case 'F': /* the fields of split_record and of split() with FS, in one text */
				wput ("{ s = NF \":\" split($0, q); for (i = 1; i <= NF; i++) s = s \"|\" $i \"=\" q[i]; " PR("s") " }"); break;
			case 'N': snprintf (tmp, sizeof(tmp), "{ " PR("$0") "; if (FNR == %d) nextfile }", k); wput (tmp); break;
			case 'G': snprintf (tmp, sizeof(tmp), "{ " PR("$0") "; if (NR %% %d == 0 && (getline) > 0) " PR("$0") " }", k); wput (tmp); break;
			case 'V': snprintf (tmp, sizeof(tmp), "{ " PR("$0") "; if (NR %% %d == 0 && (getline v) > 0) " PR("v") " }", k); wput (tmp); break;
			case 'M': snprintf (tmp, sizeof(tmp), "{ " PR("$0") "; if (NR %% 2 == 0 && (getline) > 0) " PR("$0") "; if (FNR >= %d) nextfile }", k); wput (tmp); break;
			case 'S':
				snprintf (tmp, sizeof(tmp), "{ " PR("$0") "; if (NR %% %d == 0 && (getline y < \"side\") > 0) " SP " } "
					"END { while ((getline y < \"side\") > 0) " SP " }", k);
				wput (tmp); break;
			case 'L': /* getline < "side" without a variable: $0 is replaced, NR is not touched */
				snprintf (tmp, sizeof(tmp), "{ " PR("$0") "; if (NR %% %d == 0 && (getline < \"side\") > 0) print 0, ++sn, \"side\", \"[\" $0 \"]\" } "
					"END { while ((getline < \"side\") > 0) print 0, ++sn, \"side\", \"[\" $0 \"]\" }", k);
				wput (tmp); break;
			case 'K':
				snprintf (tmp, sizeof(tmp), "{ " PR("$0") "; if (NR %% %d == 0 && (\"cat side\" | getline y) > 0) " SP " } "
					"END { while ((\"cat side\" | getline y) > 0) " SP " }", k);
				wput (tmp); break;
			case 'C':
			case 'R':
				snprintf (tmp, sizeof(tmp), "{ " PR("$0") "; if ((getline y < \"side\") > 0) " SP "; if (NR %% %d == 0) { close(\"side\"%s); sn = 0 } }",
					k, (prog[0] == 'R')? ", \"r\"": "");
				wput (tmp); break;
			default: return HAWK_NULL;
		}
	}
	wprog[wlen] = 0;

	hawk = hawk_openstd(0, HAWK_NULL);
	if (!hawk) return HAWK_NULL;
	if (crlf)
	{
		int trait;
		hawk_getopt (hawk, HAWK_OPT_TRAIT, &trait);
		trait |= HAWK_CRLF;
		hawk_setopt (hawk, HAWK_OPT_TRAIT, &trait);
	}

	psin[0].type = HAWK_PARSESTD_OOCS;
	psin[0].u.oocs.ptr = wprog;
	psin[0].u.oocs.len = wlen;
	psin[1].type = HAWK_PARSESTD_NULL;
	if (hawk_parsestd(hawk, psin, HAWK_NULL) <= -1)
	{
		{
			const hawk_ooch_t* m = hawk_geterrmsg(hawk);
			size_t q;
			fprintf (stderr, "parse error for mode %s: ", modeprog);
			for (q = 0; m[q]; q++) fputc ((int)m[q], stderr);
			fputc ('\n', stderr);
		}
		hawk_close (hawk);
		return HAWK_NULL;
	}
	cached_hawk = hawk;
	snprintf (cached_key, sizeof(cached_key), "%s", key);
	return hawk;
}

static int parse_file (char* w, file_t* f, int raw)
{
	/* name=hex/cuts */
	char* eq = strchr(w, '=');
	char* sl;
	size_t i, n;
	if (!eq) return -1;
	*eq = '\0';
	sl = strchr(eq + 1, '/');
	if (!sl) return -1;
	*sl = '\0';
	n = strlen(w);
	if (n >= 63) return -1;
	for (i = 0; i < n; i++) f->name[i] = (unsigned char)w[i];
	f->name[n] = 0;
	f->namelen = n;
	n = strlen(eq + 1) / 2;
	if (n > MAXDATA) return -1;
	if (!f->data) f->data = malloc(MAXDATA * sizeof(hawk_ooch_t));
	if (!f->bytes) f->bytes = malloc(MAXDATA);
	if (!f->cuts) f->cuts = malloc(MAXDATA * sizeof(size_t));
	for (i = 0; i < n; i++) f->bytes[i] = (unsigned char)(hexval(eq[1 + 2 * i]) * 16 + hexval(eq[2 + 2 * i]));
	f->nbytes = n;
	if (raw)
	{
		for (i = 0; i < n; i++) f->data[i] = f->bytes[i];
		f->len = n;
	}
	else
	{
		size_t k = 0;
		f->len = 0;
		while (k < n)
		{
			unsigned int c;
			k += utf8_dec(&f->bytes[k], n - k, &c);
			f->data[f->len++] = (hawk_ooch_t)c;
		}
	}
	f->ncuts = 0;
	{
		char* p = sl + 1;
		while (*p)
		{
			char* e;
			unsigned long v = strtoul(p, &e, 10);
			if (e == p) break;
			if (f->ncuts < MAXDATA) f->cuts[f->ncuts++] = v;
			p = (*e == ',')? e + 1: e;
		}
	}
	return 0;
}

static void print_result (const char* prefix, int err, const char* errmsg)
{
	/* outbuf: pieces "NR FNR FILENAME [rec]\001pos:len:eof\002" */
	size_t i = 0;
	fputs (prefix, stdout);
	while (i < outlen)
	{
		size_t e = i, s2;
		char* p;
		int sp = 0;
		size_t k, recstart, recend;
		while (e < outlen && outbuf[e] != '\001') e++;
		if (e >= outlen) { printf ("garbage "); break; }
		s2 = e + 1;
		while (s2 < outlen && outbuf[s2] != '\002') s2++;
		/* fields */
		putchar ('r');
		k = i;
		while (k < e && sp < 3)
		{
			if (outbuf[k] == ' ') { sp++; putchar (':'); }
			else putchar (outbuf[k]);
			k++;
		}
		/* outbuf[k] == '[' ... outbuf[e-1] == ']' */
		recstart = k + 1; recend = (e > 0)? e - 1: 0;
		if (k >= e || outbuf[k] != '[' || outbuf[e - 1] != ']') printf ("??");
		else for (k = recstart; k < recend; k++) printf ("%02x", (unsigned char)outbuf[k]);
		putchar (':');
		p = &outbuf[e + 1];
		fwrite (p, 1, (s2 > e + 1)? s2 - e - 1: 0, stdout);
		putchar (' ');
		i = s2 + 1;
	}
	if (err) printf ("ERR %s", errmsg);
	else fputs (final_state, stdout);
	putchar ('\n');
}

static char errbuf[512];

/* writer side of the pipe of kinds P, Q, Z: one write(2) per chunk, the next one only when the pipe is empty again,
 * so that every read(2) of the reader returns exactly one chunk (or its first part if its buffer is smaller) */
typedef struct { int wfd; int rfd; file_t* f; } feeder_t;

static void* feeder_main (void* arg)
{
	feeder_t* fd = (feeder_t*)arg;
	file_t* f = fd->f;
	size_t o = 0, ci = 0;
	while (o < f->nbytes)
	{
		size_t next, done = 0;
		int avail = 1;
		while (ci < f->ncuts && f->cuts[ci] <= o) ci++;
		next = (ci < f->ncuts && f->cuts[ci] < f->nbytes)? f->cuts[ci]: f->nbytes;
		while (ioctl(fd->rfd, FIONREAD, &avail) == 0 && avail > 0) usleep (20);
		while (done < next - o)
		{
			ssize_t w = write(fd->wfd, &f->bytes[o + done], next - o - done);
			if (w <= 0) { if (w < 0 && errno == EINTR) continue; goto out; }
			done += (size_t)w;
		}
		o = next;
	}
out:
	close (fd->wfd);
	return HAWK_NULL;
}

static int run_once (hawk_t* hawk, int kind)
{
	hawk_rtx_t* rtx;
	hawk_rio_cbs_t rio;
	hawk_val_t* rv;
	hawk_ooch_t* icf[MAXFILES + 1];
	static hawk_ooch_t paths[MAXFILES][256];
	int i, ret = 0;
	int piped = (kind == 'P' || kind == 'Q');
	int saved0 = -1, feeding = 0;
	pthread_t th;
	feeder_t feeder;

	outlen = 0; in_arg = HAWK_NULL; reads = 0;
	strcpy (final_state, "e?");

	if (kind == 'F' || kind == 'G' || piped)
	{
		/* std kinds: real files in the scratch directory (the cwd), `-` and the P kinds through the pipe on fd 0 */
		int nicf = 0, pipe_idx = -1;
		static hawk_ooch_t assign[] = { 'v', 'v', '=', '1', 0 };
		static hawk_ooch_t empty[] = { 0 };
		for (i = 0; i < nfiles; i++)
		{
			char path[256];
			FILE* fp;
			size_t k;
			if (files[i].special == 'a') { if (!piped) icf[nicf++] = assign; continue; }
			if (files[i].special == 'e') { if (!piped) icf[nicf++] = empty; continue; }
			if (piped && i == cons_idx[0]) { pipe_idx = i; continue; }       /* P, Q, Z: the single console stream is standard input */
			if (files[i].namelen == 1 && files[i].name[0] == '-' && pipe_idx < 0)
			{
				pipe_idx = i;
			}
			else
			{
				/* the file name seen by the program must be the model's name */
				for (k = 0; k < files[i].namelen; k++) path[k] = (char)files[i].name[k];
				path[files[i].namelen] = '\0';
				fp = fopen(path, "wb");
				if (!fp) { snprintf (errbuf, sizeof(errbuf), "cannot write %s", path); return -1; }
				if (files[i].nbytes > 0 && fwrite(files[i].bytes, 1, files[i].nbytes, fp) != files[i].nbytes) { fclose (fp); return -1; }
				fclose (fp);
			}
			if (i == side_idx) continue;
			for (k = 0; k <= files[i].namelen; k++) paths[i][k] = files[i].name[k];
			icf[nicf++] = paths[i];
		}
		icf[nicf] = HAWK_NULL;
		if (pipe_idx >= 0)
		{
			int pfd[2];
			if (pipe(pfd) != 0) { snprintf (errbuf, sizeof(errbuf), "pipe failed"); return -1; }
			saved0 = dup(0);
			dup2 (pfd[0], 0);
			close (pfd[0]);
			feeder.wfd = pfd[1]; feeder.rfd = 0; feeder.f = &files[pipe_idx];
			if (pthread_create(&th, HAWK_NULL, feeder_main, &feeder) != 0)
			{
				close (pfd[1]); dup2 (saved0, 0); close (saved0);
				snprintf (errbuf, sizeof(errbuf), "thread failed");
				return -1;
			}
			feeding = 1;
		}
		/* no input file named (P kinds): the std console reads standard input */
		rtx = hawk_rtx_openstd(hawk, 0, HAWK_T("readio_h"), (piped? HAWK_NULL: icf), HAWK_NULL, HAWK_NULL);
	}
	else
	{
		rtx = hawk_rtx_openstd(hawk, 0, HAWK_T("readio_h"), HAWK_NULL, HAWK_NULL, HAWK_NULL);
	}
	if (!rtx) { snprintf (errbuf, sizeof(errbuf), "rtx open failed"); ret = -1; goto done; }

	hawk_rtx_getrio (rtx, &rio);
	std_console = rio.console;
	rio.console = (kind == 'F' || kind == 'G' || piped)? console_std: console_custom;
	if (rio.console == console_custom) rio.file = file_custom;
	hawk_rtx_setrio (rtx, &rio);

	rv = hawk_rtx_loop(rtx);
	if (!rv)
	{
		const hawk_ooch_t* m = hawk_rtx_geterrmsg(rtx);
		size_t k;
		for (k = 0; m[k] && k < sizeof(errbuf) - 1; k++) errbuf[k] = (char)m[k];
		errbuf[k] = '\0';
		ret = -1;
	}
	else hawk_rtx_refdownval (rtx, rv);
	hawk_rtx_close (rtx);

done:
	if (feeding)
	{
		/* the reader is gone: unblock the writer if it still has something to say, then restore fd 0 */
		int nul = open("/dev/null", 0);
		if (nul >= 0) { dup2 (nul, 0); close (nul); }
		pthread_join (th, HAWK_NULL);
		dup2 (saved0, 0);
		close (saved0);
	}
	return ret;
}

static void on_alarm (int sig)
{
	static const char msg[] = "HANG\n";
	fflush (stdout);
	if (write(1, msg, sizeof(msg) - 1)) {}
	_exit (3);
}

int main (int argc, char* argv[])
{
	static char line[4 * MAXDATA];
	int wd = 20;
	FILE* in;

	if (argc >= 2) scratch = argv[1];
	if (argc >= 3) wd = atoi(argv[2]);
	if (chdir(scratch) != 0) { perror ("chdir"); return 2; }
	signal (SIGALRM, on_alarm);
	signal (SIGPIPE, SIG_IGN);
	/* fd 0 is lent to the std console for the pipe kinds: the cases are read from a copy of it */
	in = fdopen(dup(0), "r");
	if (!in) { perror ("fdopen"); return 2; }

	while (fgets(line, sizeof(line), in))
	{
		char* words[MAXFILES + 3];
		int nw = 0, i, kind, raw = 0;
		char* p = strtok(line, " \r\n");
		hawk_t* hawk;

		while (p && nw < MAXFILES + 2) { words[nw++] = p; p = strtok(HAWK_NULL, " \r\n"); }
		if (nw < 2) { puts ("bad-case"); continue; }
		kind = words[0][0];
		if (kind == 'U') kind = 'Z';      /* U, T: Z, F on byte strings that are not UTF-8 (no model line exists for them) */
		if (kind == 'T') kind = 'F';
		{
			int bytes = (kind == 'B' || kind == 'Y' || kind == 'G' || kind == 'Q');
			raw = bytes; /* the custom handler serves the bytes one by one */
			hawk = get_hawk(words[1], bytes);
		}
		if (!hawk) { puts ("bad-case"); continue; }
		nfiles = 0; ncons = 0; side_idx = -1;
		for (i = 2; i < nw; i++)
		{
			files[nfiles].special = 0;
			if (words[i][0] == '%')
			{
				files[nfiles].special = words[i][1];
				files[nfiles].namelen = 0; files[nfiles].len = 0; files[nfiles].nbytes = 0; files[nfiles].ncuts = 0;
			}
			else
			{
				if (parse_file(words[i], &files[nfiles], raw) <= -1) { nfiles = -1; break; }
				if (files[nfiles].namelen == 4 && files[nfiles].name[0] == 's' && files[nfiles].name[1] == 'i' &&
				    files[nfiles].name[2] == 'd' && files[nfiles].name[3] == 'e') side_idx = nfiles;
				else cons_idx[ncons++] = nfiles;
			}
			nfiles++;
		}
		if (nfiles < 0) { puts ("bad-case"); continue; }

		alarm (wd);
		if (kind == 'X' || kind == 'Y' || kind == 'Z')
		{
			size_t n, mask, total;
			/* the chunkings of the FIRST file are enumerated; further files (and `side`) keep their given cuts */
			if (nfiles < 1 || ncons < 1 || cons_idx[0] != 0 || files[0].len > 20 || files[0].nbytes > 20) { puts ("bad-case"); continue; }
			n = (kind == 'Z')? files[0].nbytes: files[0].len;
			total = (n >= 1)? ((size_t)1 << (n - 1)): 1;
			for (mask = 0; mask < total; mask++)
			{
				size_t k;
				char prefix[32];
				int r;
				files[0].ncuts = 0;
				for (k = 0; k + 1 < n; k++) if (mask & ((size_t)1 << k)) files[0].cuts[files[0].ncuts++] = k + 1;
				r = run_once(hawk, (kind == 'Z')? 'P': 'C');
				snprintf (prefix, sizeof(prefix), "m%zu ", mask);
				print_result (prefix, r <= -1, errbuf);
			}
		}
		else if (kind == 'C' || kind == 'F' || kind == 'B' || kind == 'G' || kind == 'P' || kind == 'Q')
		{
			int r = run_once(hawk, kind);
			print_result ("", r <= -1, errbuf);
		}
		else puts ("bad-case");
		alarm (0);
	}
	if (cached_hawk) hawk_close (cached_hawk);
	fflush (stdout);
	return 0;
}
