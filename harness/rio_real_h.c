/* C05 "real layer" harness: the same generated programs as harness/rio_h.c, but run with hawk's OWN runtime
 * I/O handlers (lib/std.c hawk_rio_file / hawk_rio_pipe / hawk_rio_console -> sio.c -> tio.c -> fio.c / pio.c),
 * i.e. the byte-level layer under rio.c that rio_h.c replaces.  The write schedule is controlled at the very
 * bottom: the program is linked with -Wl,--wrap=write, so every write(2) hawk issues on a stream's descriptor
 * comes here and is answered from the case's script, indexed by the number of the tracked write call:
 *     A = write everything, a<k> = short write of min(k,len) bytes, z = return 0 (nothing taken, "try later"),
 *     f = fail with EIO; past the end of the script: A.
 * Sinks: `> n` / `>> n` -> <dir>/f.n ; `| n` -> sh -c "cat >> <dir>/p.n" ; `|| n` -> sh -c "cat #n" (the echo is
 * never read) ; console -> <dir>/con.1 then (nextofile) <dir>/con.2.
 * Input protocol (stdin), one case:
 *     case <tol 0|1> <ors> <script|->
 *     p  <outkind> <name|-> <s|b> <item,item,..|->     item `@<len>.<seed>` = generated text of that length (G(), in b mode the byte string GB())
 *     pf <outkind> <name|-> <s|b> <payload|->
 *     c  <outkind> <name> [r|w]        close(<mapped name>[, opt])
 *     ff | ffn <outkind> <name> | ffn - | no
 *     e  <name> <item>                 print item || "cat #name" (ORS newline); fflush; read one record of the echo back: `V <len> <text>` and its getline value
 *     end
 * Output: `S <i>` before each statement, `W <n> <sink> <len> <bytes> -> <ret>` per tracked write(2), `R <v>` per
 * statement value, `L ok|err <errnum>` when hawk_rtx_loop returns, `E` (everything after it happens inside
 * hawk_rtx_close), `Z done`, then one `F <sink> ok|MISMATCH ...` per sink file: its content compared with the
 * bytes the descriptor accepted (for `|` this is what `cat` delivered after the child was reaped). */
#include <hawk-prv.h>
#include <hawk-std.h>
#include <hawk-sio.h>
#include <hawk-pio.h>
#include <stdio.h>
#include <stdarg.h>
#include <stdlib.h>
#include <string.h>
#include <signal.h>
#include <unistd.h>
#include <stdint.h>
#include <errno.h>
#include <sys/stat.h>
#include <dirent.h>
#include <fcntl.h>

#define MAXTOK 512
static char script[MAXTOK][16]; static int nscript; static long wcallno;
static hawk_rtx_t* cur_rtx; static int tracking;
static const char* dir; static size_t dirlen;

static void on_alarm (int sig) { printf("HANG\n"); fflush(stdout); _exit(3); }

/* ---------------------------------------------------------------- per-sink record of accepted bytes */
#define MAXSINK 16
static struct { char name[64]; char* buf; size_t len, capa; } sink[MAXSINK]; static int nsink;
static int sink_of (const char* name)
{
	int i;
	for (i = 0; i < nsink; i++) if (!strcmp(sink[i].name, name)) return i;
	if (nsink >= MAXSINK) return -1;
	snprintf(sink[nsink].name, sizeof(sink[nsink].name), "%s", name);
	sink[nsink].buf = NULL; sink[nsink].len = sink[nsink].capa = 0;
	return nsink++;
}
static void sink_add (int i, const char* p, size_t n)
{
	if (i < 0) return;
	if (sink[i].len + n + 1 > sink[i].capa) { sink[i].capa = (sink[i].len + n + 1) * 2; sink[i].buf = realloc(sink[i].buf, sink[i].capa); }
	memcpy(sink[i].buf + sink[i].len, p, n); sink[i].len += n;
}

static void put_bytes (const char* p, size_t n)
{
	size_t i;
	if (n == 0) putchar('-');
	for (i = 0; i < n; i++) { int c = (unsigned char)p[i]; putchar(c == '\n' ? '$' : (c > 32 && c < 127) ? c : (c == ' ') ? '_' : '?'); }
}

/* which stream does descriptor fd belong to?  files/console: by path under <dir>; pipes: the chain node whose
 * pio write handle it is ("p.<name>" for `cat >> <dir>/p.<name>`, "rw.<name>" for `cat #<name>`) */
static int classify_fd (int fd, char* out, size_t outsz)
{
	char lnk[64], path[512]; ssize_t n;
	if (fd <= 2) return 0;
	snprintf(lnk, sizeof(lnk), "/proc/self/fd/%d", fd);
	n = readlink(lnk, path, sizeof(path) - 1);
	if (n <= 0) return 0;
	path[n] = 0;
	if (!strncmp(path, dir, dirlen) && path[dirlen] == '/') { snprintf(out, outsz, "%s", path + dirlen + 1); return 1; }
	if (!strncmp(path, "pipe:", 5) && cur_rtx)
	{
		hawk_rio_arg_t* p;
		for (p = cur_rtx->rio.chain; p; p = p->next)
		{
			if ((p->type & 0xFF) != HAWK_RIO_PIPE || !p->handle) continue;
			if ((int)hawk_pio_gethnd((hawk_pio_t*)p->handle, HAWK_PIO_IN) == fd)
			{
				char nm[256]; size_t i, l = 0; const hawk_ooch_t* s = p->name; const char* q;
				for (i = 0; s[i] && l < sizeof(nm) - 1; i++) nm[l++] = (char)s[i];
				nm[l] = 0;
				if ((q = strstr(nm, "/p."))) snprintf(out, outsz, "%s", q + 1);
				else if ((q = strchr(nm, '#'))) snprintf(out, outsz, "rw.%s", q + 1);
				else snprintf(out, outsz, "pipe.?");
				return 1;
			}
		}
	}
	return 0;
}

ssize_t __real_write (int fd, const void* buf, size_t count);
ssize_t __wrap_write (int fd, const void* buf, size_t count)
{
	char sname[128]; const char* r; ssize_t ret; long cn; int si;
	if (!tracking || count == 0 || !classify_fd(fd, sname, sizeof(sname))) return __real_write(fd, buf, count);
	if (wcallno > 20000) { printf("HANG\n"); fflush(stdout); _exit(3); } /* e.g. a sink answering 'z' retried for ever */
	cn = wcallno++;
	r = (cn < nscript) ? script[cn] : "A";
	si = sink_of(sname);
	if (r[0] == 'f') { ret = -1; }
	else if (r[0] == 'z') ret = 0;
	else
	{
		size_t want = count;
		if (r[0] == 'a') { long k = atol(r + 1); if (k < 1) k = 1; if ((size_t)k < want) want = (size_t)k; }
		ret = __real_write(fd, buf, want);
		if (ret > 0) sink_add(si, buf, (size_t)ret);
	}
	printf("W %ld %s %lu ", cn, sname, (unsigned long)count); put_bytes(buf, count);
	if (ret < 0 && r[0] != 'f') printf(" -> syserr%d\n", errno); else if (ret < 0) printf(" -> fail\n"); else printf(" -> %ld\n", (long)ret);
	if (r[0] == 'f') errno = EIO;
	return ret;
}

/* ---------------------------------------------------------------- intrinsic functions */
static int fnc_M (hawk_rtx_t* rtx, const hawk_fnc_info_t* fi)
{
	hawk_int_t v = 0;
	hawk_rtx_valtoint(rtx, hawk_rtx_getarg(rtx, 0), &v);
	printf("S %ld\n", (long)v);
	hawk_rtx_setretval(rtx, hawk_rtx_makeintval(rtx, 0));
	return 0;
}
static int fnc_R (hawk_rtx_t* rtx, const hawk_fnc_info_t* fi)
{
	hawk_int_t v = 0;
	hawk_rtx_valtoint(rtx, hawk_rtx_getarg(rtx, 0), &v);
	printf("R %ld\n", (long)v);
	hawk_rtx_setretval(rtx, hawk_rtx_makeintval(rtx, 0));
	return 0;
}
/* V(str): print a string value (the record a getline read) */
static int fnc_V (hawk_rtx_t* rtx, const hawk_fnc_info_t* fi)
{
	hawk_oow_t len = 0, i; hawk_ooch_t* p = hawk_rtx_getvaloocstr(rtx, hawk_rtx_getarg(rtx, 0), &len);
	printf("V %lu ", (unsigned long)len);
	if (len == 0 || !p) putchar('-');
	else for (i = 0; i < len; i++) { int c = (int)p[i]; putchar(c == '\n' ? '$' : (c > 32 && c < 127) ? c : (c == ' ') ? '_' : '?'); }
	putchar('\n');
	if (p) hawk_rtx_freevaloocstr(rtx, hawk_rtx_getarg(rtx, 0), p);
	hawk_rtx_setretval(rtx, hawk_rtx_makeintval(rtx, 0));
	return 0;
}
/* G(len, seed): text of `len` lower-case letters, c[i] = 'a' + (i*7 + i/26 + seed) % 26 */
static int fnc_G (hawk_rtx_t* rtx, const hawk_fnc_info_t* fi)
{
	hawk_int_t len = 0, seed = 0; char* b; hawk_int_t i; hawk_val_t* v;
	hawk_rtx_valtoint(rtx, hawk_rtx_getarg(rtx, 0), &len);
	hawk_rtx_valtoint(rtx, hawk_rtx_getarg(rtx, 1), &seed);
	if (len < 0) len = 0; if (len > 100000) len = 100000;
	b = malloc((size_t)len + 1);
	for (i = 0; i < len; i++) b[i] = (char)('a' + (i * 7 + i / 26 + seed) % 26);
	b[len] = 0;
	/* GB(): the same text as a byte string (goes through hawk_rtx_writeiobytes -> hawk_tio_writebchars) */
	v = (fi->name.len == 2)? hawk_rtx_makembsvalwithbchars(rtx, b, (hawk_oow_t)len): hawk_rtx_makestrvalwithbchars(rtx, b, (hawk_oow_t)len);
	free(b);
	if (!v) return -1;
	hawk_rtx_setretval(rtx, v);
	return 0;
}

/* ---------------------------------------------------------------- program construction */
static char prog[1 << 16]; static size_t plen; static int nstmt; static int tolerant;
static void padd (const char* fmt, ...)
{
	va_list ap; va_start(ap, fmt);
	plen += vsnprintf(prog + plen, sizeof(prog) - plen, fmt, ap);
	va_end(ap);
	if (plen > sizeof(prog) - 1024) plen = sizeof(prog) - 1024;
}
static void padd_str (const char* s, int bytes)
{
	padd(bytes ? "@b\"" : "\"");
	if (strcmp(s, "-") != 0) for (; *s; s++) { if (*s == '$') padd("\\n"); else padd("%c", *s); }
	padd("\"");
}
static void padd_item (const char* it, int bytes)
{
	if (it[0] == '@') { long l = atol(it + 1); const char* d = strchr(it, '.'); padd("%s(%ld, %ld)", bytes ? "GB" : "G", l, d ? atol(d + 1) : 0L); }
	else padd_str(strcmp(it, "_") ? it : "-", bytes);
}
static const char* redir (const char* kind)
{
	if (!strcmp(kind, "file")) return ">"; if (!strcmp(kind, "apfile")) return ">>";
	if (!strcmp(kind, "pipe")) return "|"; if (!strcmp(kind, "rwpipe")) return "||";
	return NULL;
}
/* the stream name the hawk program uses for (kind, name) */
static void padd_target (const char* kind, const char* name)
{
	if (!strcmp(kind, "file") || !strcmp(kind, "apfile")) padd("\"%s/f.%s\"", dir, name);
	else if (!strcmp(kind, "pipe")) padd("\"cat >> %s/p.%s\"", dir, name);
	else padd("\"cat #%s\"", name);
}

static void add_print (int isprintf, char* kind, char* name, char* mode, char* items)
{
	int bytes = (mode[0] == 'b');
	const char* rd = redir(kind);
	padd("M(%d); ", nstmt++);
	if (tolerant) padd("R((");
	padd(isprintf ? "printf " : "print ");
	if (isprintf) padd_item(items, bytes);
	else if (strcmp(items, "-") == 0) { if (tolerant && !rd) padd("$0"); }
	else
	{
		char* save; char* it; int first = 1; static char tmp[8192];
		snprintf(tmp, sizeof(tmp), "%s", items);
		for (it = strtok_r(tmp, ",", &save); it; it = strtok_r(NULL, ",", &save))
		{
			if (!first) padd(", ");
			padd_item(it, bytes);
			first = 0;
		}
	}
	if (rd) { padd(" %s ", rd); padd_target(kind, name); }
	if (tolerant) padd("))");
	padd("; ");
}

static void clean_dir (void)
{
	DIR* d = opendir(dir); struct dirent* e; char p[768];
	if (!d) return;
	while ((e = readdir(d))) { if (e->d_name[0] == '.' && (!e->d_name[1] || e->d_name[1] == '.')) continue; snprintf(p, sizeof(p), "%s/%s", dir, e->d_name); unlink(p); }
	closedir(d);
}

static void report_files (void)
{
	int i;
	for (i = 0; i < nsink; i++)
	{
		char p[768]; FILE* f; static char fb[1 << 20]; size_t n = 0;
		if (!strncmp(sink[i].name, "rw.", 3) || !strncmp(sink[i].name, "pipe.", 5)) continue; /* nothing stores these */
		snprintf(p, sizeof(p), "%s/%s", dir, sink[i].name);
		f = fopen(p, "rb");
		if (f) { n = fread(fb, 1, sizeof(fb), f); fclose(f); }
		/* a `> file` reopened after close() truncates: the file then holds a suffix of what the descriptor(s) accepted */
		if (n <= sink[i].len && (n == 0 || !memcmp(fb, sink[i].buf + sink[i].len - n, n)) && (n == sink[i].len || !strncmp(sink[i].name, "f.", 2)))
			printf("F %s ok %lu %lu\n", sink[i].name, (unsigned long)n, (unsigned long)sink[i].len);
		else
		{
			printf("F %s MISMATCH file=%lu:", sink[i].name, (unsigned long)n); put_bytes(fb, n > 200 ? 200 : n);
			printf(" accepted=%lu:", (unsigned long)sink[i].len); put_bytes(sink[i].buf ? sink[i].buf : "", sink[i].len > 200 ? 200 : sink[i].len);
			printf("\n");
		}
	}
}

static int run_case (void)
{
	hawk_t* hawk; hawk_rtx_t* rtx; hawk_val_t* rv; hawk_errnum_t en; int trait, i;
	hawk_parsestd_t in[2]; hawk_fnc_mspec_t spec;
	static char c1[600], c2[600]; hawk_bch_t* ocf[3];

	printf("# %s\n", prog);
	clean_dir();
	for (i = 0; i < nsink; i++) free(sink[i].buf);
	nsink = 0;
	hawk = hawk_openstd(0, &en);
	if (!hawk) { printf("X openstd failed\n"); return -1; }
	hawk_getopt(hawk, HAWK_OPT_TRAIT, &trait);
	trait |= HAWK_RIO | HAWK_RWPIPE | HAWK_NEXTOFILE;
	if (tolerant) trait |= HAWK_TOLERANT; else trait &= ~HAWK_TOLERANT;
	hawk_setopt(hawk, HAWK_OPT_TRAIT, &trait);

	memset(&spec, 0, sizeof(spec));
	spec.arg.min = 1; spec.arg.max = 1; spec.impl = fnc_M;
	if (!hawk_addfncwithbcstr(hawk, "M", &spec)) { printf("X addfnc failed\n"); hawk_close(hawk); return -1; }
	spec.impl = fnc_R;
	if (!hawk_addfncwithbcstr(hawk, "R", &spec)) { printf("X addfnc failed\n"); hawk_close(hawk); return -1; }
	spec.impl = fnc_V;
	if (!hawk_addfncwithbcstr(hawk, "V", &spec)) { printf("X addfnc failed\n"); hawk_close(hawk); return -1; }
	spec.arg.min = 2; spec.arg.max = 2; spec.impl = fnc_G;
	if (!hawk_addfncwithbcstr(hawk, "G", &spec)) { printf("X addfnc failed\n"); hawk_close(hawk); return -1; }
	if (!hawk_addfncwithbcstr(hawk, "GB", &spec)) { printf("X addfnc failed\n"); hawk_close(hawk); return -1; }

	memset(in, 0, sizeof(in));
	in[0].type = HAWK_PARSESTD_BCS; in[0].u.bcs.ptr = prog; in[0].u.bcs.len = strlen(prog);
	in[1].type = HAWK_PARSESTD_NULL;
	if (hawk_parsestd(hawk, in, HAWK_NULL) <= -1)
	{
		printf("X parse failed: %d\n", (int)hawk_geterrnum(hawk));
		hawk_close(hawk); return -1;
	}
	snprintf(c1, sizeof(c1), "%s/con.1", dir); snprintf(c2, sizeof(c2), "%s/con.2", dir);
	ocf[0] = c1; ocf[1] = c2; ocf[2] = NULL;
	rtx = hawk_rtx_openstdwithbcstr(hawk, 0, "rio_real_h", HAWK_NULL, ocf, HAWK_NULL);
	if (!rtx) { printf("X rtx open failed\n"); hawk_close(hawk); return -1; }
	cur_rtx = rtx;

	tracking = 1;
	rv = hawk_rtx_loop(rtx);
	if (rv) { printf("L ok\n"); hawk_rtx_refdownval(rtx, rv); }
	else printf("L err %d\n", (int)hawk_rtx_geterrnum(rtx));
	printf("E\n");
	hawk_rtx_close(rtx);
	tracking = 0; cur_rtx = NULL;
	printf("Z done\n");
	hawk_close(hawk);
	report_files();
	return 0;
}

int main (int argc, char** argv)
{
	static char line[1 << 16];
	int wd = (argc > 1) ? atoi(argv[1]) : 20;
	if (argc < 3) { fprintf(stderr, "usage: rio_real_h <watchdog-seconds> <scratch-dir>\n"); return 2; }
	dir = argv[2]; dirlen = strlen(dir);
	mkdir(dir, 0700);
	signal(SIGALRM, on_alarm);
	signal(SIGPIPE, SIG_IGN);
	setvbuf(stdout, NULL, _IOFBF, 1 << 16);
	while (fgets(line, sizeof(line), stdin))
	{
		char* w[8]; int nw = 0; char* save; char* t;
		for (t = strtok_r(line, " \t\r\n", &save); t && nw < 8; t = strtok_r(NULL, " \t\r\n", &save)) w[nw++] = t;
		if (nw == 0 || w[0][0] == '#') continue;
		if (!strcmp(w[0], "case") && nw >= 4)
		{
			char* s2; char* tk;
			tolerant = atoi(w[1]); nscript = 0; wcallno = 0; plen = 0; nstmt = 0; prog[0] = 0;
			if (strcmp(w[3], "-") != 0)
				for (tk = strtok_r(w[3], ",", &s2); tk && nscript < MAXTOK; tk = strtok_r(NULL, ",", &s2)) snprintf(script[nscript++], 16, "%s", tk);
			padd("BEGIN { ORS = "); padd_str(w[2], 0); padd("; ");
			printf("C %d\n", tolerant);
		}
		else if (!strcmp(w[0], "p") && nw >= 5) add_print(0, w[1], w[2], w[3], w[4]);
		else if (!strcmp(w[0], "pf") && nw >= 5) add_print(1, w[1], w[2], w[3], w[4]);
		else if (!strcmp(w[0], "c") && nw >= 3)
		{
			padd("M(%d); R(close(", nstmt++); padd_target(w[1], w[2]);
			if (nw >= 4) { padd(", "); padd_str(w[3], 0); }
			padd(")); ");
		}
		else if (!strcmp(w[0], "e") && nw >= 3)
		{
			/* round trip through a real two-way pipe: send one line to `cat`, flush, read the echo back.
			 * (only generated for schedules without failures: a line that
			 * never reaches cat would leave getline waiting) */
			padd("M(%d); ORS_ = ORS; ORS = \"\\n\"; ", nstmt++);
			padd("print "); padd_item(w[2], 0); padd(" || "); padd_target("rwpipe", w[1]); padd("; ORS = ORS_; fflush("); padd_target("rwpipe", w[1]);
			padd("); v_ = \"\"; g_ = ("); padd_target("rwpipe", w[1]); padd(" || getline v_); V(v_); R(g_); ");
		}
		else if (!strcmp(w[0], "ff")) padd("M(%d); R(fflush()); ", nstmt++);
		else if (!strcmp(w[0], "ffn") && nw >= 3) { padd("M(%d); R(fflush(", nstmt++); padd_target(w[1], w[2]); padd(")); "); }
		else if (!strcmp(w[0], "ffn") && nw >= 2) { padd("M(%d); R(fflush(\"\")); ", nstmt++); }
		else if (!strcmp(w[0], "no")) padd("M(%d); nextofile; ", nstmt++);
		else if (!strcmp(w[0], "end"))
		{
			padd("M(%d); }", nstmt);
			alarm(wd);
			run_case();
			alarm(0);
			fflush(stdout);
		}
		else printf("X bad line %s\n", w[0]);
	}
	return 0;
}
