/* C15 correspondence harness: drives the real hawk_uc_to_utf8 / hawk_utf8_to_uc, the utl.c
 * conversion loops and the tio.c staging buffers (from the /repo working tree) with the line
 * protocol of lean/HawkModel/Drv/Utf8.lean.
 *
 * tio.c is #included so that the private STATUS_* bits are the real ones; everything else comes from
 * the freshly built sanitized libhawk.a.  Every buffer handed to the code under test is a heap block
 * of exactly the advertised size, so ASan reports any access past it.  After every tio call the
 * internal cursor/length/status and the unread bytes of the staging buffer are dumped, not only the
 * returned characters.  A watchdog turns a call that never returns into a "HANG" line. */
#define _GNU_SOURCE
#include "tio.c"
#include <hawk-utl.h>
#include <hawk-std.h>
#include <errno.h>
#include <sys/syscall.h>
#include <stdio.h>
#include <stdlib.h>
#include <string.h>
#include <signal.h>
#include <unistd.h>

static void* m_alloc (hawk_mmgr_t* m, hawk_oow_t n) { return malloc(n); }
static void* m_realloc (hawk_mmgr_t* m, void* p, hawk_oow_t n) { return realloc(p, n); }
static void m_free (hawk_mmgr_t* m, void* p) { free(p); }
static hawk_mmgr_t mmgr = { m_alloc, m_realloc, m_free, NULL };
static hawk_gem_t gem;

static void on_alarm (int sig) { printf("HANG\n"); fflush(stdout); _exit(3); }

/* ---- parsing ---------------------------------------------------------- */
static int hexv (int c) { if (c >= '0' && c <= '9') return c - '0'; if (c >= 'a' && c <= 'f') return c - 'a' + 10; if (c >= 'A' && c <= 'F') return c - 'A' + 10; return -1; }

/* bytes: contiguous hex pairs, "-" = none; returns exact-size heap block */
static unsigned char* parse_bytes (const char* s, size_t n, size_t* len)
{
	unsigned char* b; size_t i;
	if (n == 1 && s[0] == '-') { *len = 0; return malloc(0); }
	if (n % 2) return NULL;
	b = malloc(n / 2);
	for (i = 0; i < n / 2; i++) { int x = hexv(s[2 * i]), y = hexv(s[2 * i + 1]); if (x < 0 || y < 0) { free(b); return NULL; } b[i] = (unsigned char)(x * 16 + y); }
	*len = n / 2; return b;
}

/* chars: comma separated hex, "-" = none */
static hawk_uch_t* parse_chars (const char* s, size_t n, size_t* len)
{
	hawk_uch_t* c; size_t cnt = 0, i, k = 0; unsigned long v = 0; int have = 0;
	if (n == 1 && s[0] == '-') { *len = 0; return malloc(0); }
	for (i = 0; i < n; i++) if (s[i] == ',') cnt++;
	c = malloc((cnt + 1) * sizeof(hawk_uch_t));
	for (i = 0; i <= n; i++)
	{
		if (i == n || s[i] == ',') { if (!have) { free(c); return NULL; } c[k++] = (hawk_uch_t)v; v = 0; have = 0; }
		else { int x = hexv(s[i]); if (x < 0) { free(c); return NULL; } v = v * 16 + x; have = 1; }
	}
	*len = k; return c;
}

static void put_bytes (const unsigned char* b, size_t n) { size_t i; if (!n) { putchar('-'); return; } for (i = 0; i < n; i++) printf("%02x", b[i]); }
static void put_chars (const hawk_uch_t* c, size_t n) { size_t i; if (!n) { putchar('-'); return; } for (i = 0; i < n; i++) printf("%s%lx", i ? "," : "", (unsigned long)c[i]); }

/* ---- scripted input / recording output -------------------------------- */
#define MAXCH 8192
static struct { unsigned char* ptr[MAXCH]; size_t len[MAXCH]; size_t n, ci, off; } src;
static struct { unsigned char* ptr[MAXCH]; size_t len[MAXCH]; size_t n; } sink;

static hawk_ooi_t in_handler (hawk_tio_t* tio, hawk_tio_cmd_t cmd, void* buf, hawk_oow_t size)
{
	size_t avail, n;
	if (cmd != HAWK_TIO_DATA) return 0;
	if (src.ci >= src.n) return 0;
	avail = src.len[src.ci] - src.off;
	if (avail <= size) { n = avail; memcpy(buf, src.ptr[src.ci] + src.off, n); src.ci++; src.off = 0; }
	else { n = size; memcpy(buf, src.ptr[src.ci] + src.off, n); src.off += n; }
	return (hawk_ooi_t)n;
}

/* the adversarial writer: reply per call = accept min(k, offered) bytes (k > 0), accept nothing (0), fail (f);
 * an exhausted script accepts everything.  what it ACCEPTED is recorded in `sink`, call by call. */
#define MAXSCR 4096
static struct { long k[MAXSCR]; size_t n, i; long calls; } wscr; /* k: >0 accept, 0 zero, -1 fail */
static int parse_script (const char* s)
{
	wscr.n = wscr.i = 0; wscr.calls = 0;
	if (!strcmp(s, "-")) return 0;
	for (;;)
	{
		const char* q = strchr(s, ','); size_t n = q ? (size_t)(q - s) : strlen(s);
		if (wscr.n >= MAXSCR || n == 0) return -1;
		if (n == 1 && s[0] == 'f') wscr.k[wscr.n++] = -1;
		else { char* e; long v = strtol(s, &e, 10); if (e != s + n || v < 0) return -1; wscr.k[wscr.n++] = v; }
		if (!q) break; s = q + 1;
	}
	return 0;
}
static void record_slice (const void* buf, size_t n)
{
	if (sink.n < MAXCH) { sink.ptr[sink.n] = malloc(n); memcpy(sink.ptr[sink.n], buf, n); sink.len[sink.n] = n; sink.n++; }
}
/* one reply of the script for `size` offered bytes at buf: returns the count accepted, 0, or -1 */
static long scripted_reply (const void* buf, size_t size)
{
	volatile unsigned char chk = 0; size_t i; long k;
	for (i = 0; i < size; i++) chk ^= ((const unsigned char*)buf)[i]; /* touch everything offered: ASan sees an over-long offer */
	wscr.calls++;
	if (wscr.i >= wscr.n) { record_slice(buf, size); return (long)size; }
	k = wscr.k[wscr.i++];
	if (k < 0) return -1;
	if (k == 0) return 0;
	if ((size_t)k > size) k = (long)size;
	record_slice(buf, (size_t)k);
	return k;
}
static hawk_ooi_t scripted_out_handler (hawk_tio_t* tio, hawk_tio_cmd_t cmd, void* buf, hawk_oow_t size)
{
	long r;
	if (cmd != HAWK_TIO_DATA) return 0;
	r = scripted_reply(buf, size);
	if (r < 0) hawk_gem_seterrnum(tio->gem, HAWK_NULL, HAWK_EIOERR);
	return (hawk_ooi_t)r;
}

/* write(2) interposed for descriptor 1 while a hawk program runs in this process (`prt`): the std console handler of the
 * runtime ends up here through sio -> tio -> fio.  nothing is really written; what was accepted is recorded. */
static int w_armed = 0;
ssize_t write (int fd, const void* buf, size_t len)
{
	if (w_armed && fd == 1)
	{
		long r = scripted_reply(buf, len);
		if (r < 0) { errno = EIO; return -1; }
		return (ssize_t)r;
	}
	return syscall(SYS_write, fd, buf, len);
}

static hawk_ooi_t out_handler (hawk_tio_t* tio, hawk_tio_cmd_t cmd, void* buf, hawk_oow_t size)
{
	if (cmd != HAWK_TIO_DATA) return 0;
	if (sink.n < MAXCH) { sink.ptr[sink.n] = malloc(size); memcpy(sink.ptr[sink.n], buf, size); sink.len[sink.n] = size; sink.n++; }
	return (hawk_ooi_t)size;
}

static int parse_chunks (char* s)
{
	char* p = s; src.n = src.ci = src.off = 0;
	if (!strcmp(s, ".")) return 0;
	for (;;)
	{
		char* q = strchr(p, '/'); size_t n = q ? (size_t)(q - p) : strlen(p);
		if (src.n >= MAXCH) return -1;
		src.ptr[src.n] = parse_bytes(p, n, &src.len[src.n]); if (!src.ptr[src.n]) return -1; src.n++;
		if (!q) break; p = q + 1;
	}
	return 0;
}
static void free_chunks (void) { size_t i; for (i = 0; i < src.n; i++) free(src.ptr[i]); src.n = 0; }
static void free_sink (void) { size_t i; for (i = 0; i < sink.n; i++) free(sink.ptr[i]); sink.n = 0; }

static const char* errname (void)
{
	switch (gem.errnum) { case HAWK_EECERR: return "EECERR"; case HAWK_EBUFFULL: return "EBUFFULL"; case HAWK_EINVAL: return "EINVAL"; case HAWK_EIOERR: return "EIOERR"; default: return "E?"; }
}

static void dump_in (hawk_tio_t* tio)
{
	printf("|%lu,%lu,%s%s:", (unsigned long)tio->inbuf_cur, (unsigned long)tio->inbuf_len,
		(tio->status & STATUS_INPUT_ILLSEQ) ? "I" : "", (tio->status & STATUS_INPUT_EOF) ? "E" : "");
	if (tio->inbuf_cur <= tio->inbuf_len) put_bytes((unsigned char*)tio->in.buf.ptr + tio->inbuf_cur, tio->inbuf_len - tio->inbuf_cur);
	else printf("CUR>LEN");
}

static int tio_flags (const char* f) { int x = 0; if (strchr(f, 'i')) x |= HAWK_TIO_IGNOREECERR; if (strchr(f, 'n')) x |= HAWK_TIO_NOAUTOFLUSH; return x; }

/* 'U' / 'M' in the flags select the utf16 / mb8 character manager for the tio (hawk_tio_setcmgr) */
static void tio_pick_cmgr (hawk_tio_t* tio, const char* f)
{
	hawk_cmgr_t* cm = HAWK_NULL;
	if (strchr(f, 'U')) cm = hawk_get_cmgr_by_id(HAWK_CMGR_UTF16);
	else if (strchr(f, 'M')) cm = hawk_get_cmgr_by_id(HAWK_CMGR_MB8);
	if (cm) { hawk_tio_setcmgr(tio, cm); if (hawk_tio_getcmgr(tio) != cm) printf("SETCMGR-LOST "); }
}
static int cm_id (const char* name)
{
	if (!strcmp(name, "utf8")) return HAWK_CMGR_UTF8;
	if (!strcmp(name, "utf16") || !strcmp(name, "utf16L")) return HAWK_CMGR_UTF16;
	if (!strcmp(name, "mb8")) return HAWK_CMGR_MB8;
	return -1;
}
/* defined in utl-cmgr.c; hawk-utl.h declares them under other names */
int hawk_conv_utf8_to_ucstr (const hawk_bch_t*, hawk_oow_t*, hawk_uch_t*, hawk_oow_t*);
int hawk_conv_utf16_to_ucstr (const hawk_bch_t*, hawk_oow_t*, hawk_uch_t*, hawk_oow_t*);
int hawk_conv_mb8_to_ucstr (const hawk_bch_t*, hawk_oow_t*, hawk_uch_t*, hawk_oow_t*);
typedef int (*btou_t) (const hawk_bch_t*, hawk_oow_t*, hawk_uch_t*, hawk_oow_t*);
typedef int (*utob_t) (const hawk_uch_t*, hawk_oow_t*, hawk_bch_t*, hawk_oow_t*);
static btou_t w_btou[3] = { hawk_conv_utf8_to_uchars, hawk_conv_utf16_to_uchars, hawk_conv_mb8_to_uchars };
static utob_t w_utob[3] = { hawk_conv_uchars_to_utf8, hawk_conv_uchars_to_utf16, hawk_conv_uchars_to_mb8 };
static btou_t w_btous[3] = { hawk_conv_utf8_to_ucstr, hawk_conv_utf16_to_ucstr, hawk_conv_mb8_to_ucstr };
static utob_t w_utobs[3] = { hawk_conv_ucstr_to_utf8, hawk_conv_ucstr_to_utf16, hawk_conv_ucstr_to_mb8 };

/* a runtime for the value-level operations (vstr / vmbs / v2u / v2b), made on first use */
static hawk_t* v_hawk = HAWK_NULL; static hawk_rtx_t* v_rtx = HAWK_NULL;
static hawk_rtx_t* the_rtx (void)
{
	if (!v_rtx)
	{
		hawk_parsestd_t psin[2]; static hawk_bch_t src[] = "BEGIN { }";
		v_hawk = hawk_openstd(0, HAWK_NULL);
		memset(&psin, 0, sizeof(psin));
		psin[0].type = HAWK_PARSESTD_BCS; psin[0].u.bcs.ptr = src; psin[0].u.bcs.len = sizeof(src) - 1; psin[1].type = HAWK_PARSESTD_NULL;
		if (!v_hawk || hawk_parsestd(v_hawk, psin, HAWK_NULL) <= -1) return HAWK_NULL;
		v_rtx = hawk_rtx_openstd(v_hawk, 0, HAWK_T("v"), HAWK_NULL, HAWK_NULL, HAWK_NULL);
	}
	return v_rtx;
}
static const char* gem_errname (hawk_gem_t* g) { return g->errnum == HAWK_EECERR ? "EECERR" : g->errnum == HAWK_EBUFFULL ? "EBUFFULL" : g->errnum == HAWK_ENOMEM ? "ENOMEM" : "E?"; }

#define CALLCAP 100000

int main (int argc, char** argv)
{
	char* line = NULL; size_t lcap = 0; ssize_t ll;
	int wd = argc > 1 ? atoi(argv[1]) : 20;
	hawk_cmgr_t* cmgr = hawk_get_cmgr_by_id(HAWK_CMGR_UTF8);
	memset(&gem, 0, sizeof(gem)); gem.mmgr = &mmgr; gem.cmgr = cmgr;
	signal(SIGALRM, on_alarm);
	setvbuf(stdout, NULL, _IOFBF, 1 << 16);

	while ((ll = getline(&line, &lcap, stdin)) > 0)
	{
		char* w[8]; int nw = 0; char* p;
		while (ll > 0 && (line[ll - 1] == '\n' || line[ll - 1] == '\r' || line[ll - 1] == ' ')) line[--ll] = 0;
		for (p = strtok(line, " "); p && nw < 8; p = strtok(NULL, " ")) w[nw++] = p;
		alarm(wd);
		if (nw == 3 && !strcmp(w[0], "enc"))
		{
			unsigned long uc = strtoul(w[1], NULL, 16); size_t size = strtoul(w[2], NULL, 10), i; int touched = 0;
			unsigned char* b = malloc(size); hawk_oow_t r;
			memset(b, 0xAA, size);
			r = hawk_uc_to_utf8((hawk_uch_t)uc, (hawk_bch_t*)b, size);
			printf("ret=%lu bytes=", (unsigned long)r);
			if (r != 0 && r <= size) put_bytes(b, r);
			else { for (i = 0; i < size; i++) if (b[i] != 0xAA) touched = 1; printf(touched ? "TOUCHED" : "-"); }
			printf("\n"); free(b);
		}
		else if (nw == 2 && !strcmp(w[0], "dec"))
		{
			size_t n; unsigned char* b = parse_bytes(w[1], strlen(w[1]), &n); hawk_uch_t uc = 0xFFFF, uc2 = 0x1234; hawk_oow_t r, r2;
			if (!b || n == 0) { printf("bad-op\n"); free(b); continue; }
			r = hawk_utf8_to_uc((const hawk_bch_t*)b, n, &uc);
			r2 = hawk_utf8_to_uc((const hawk_bch_t*)b, n, &uc2);
			printf("ret=%lu uc=", (unsigned long)r);
			if (r != 0 && r <= n) printf("%lx", (unsigned long)uc);
			else printf((uc == 0xFFFF && uc2 == 0x1234) ? "-" : "TOUCHED");
			if (r2 != r || hawk_utf8_to_uc((const hawk_bch_t*)b, n, HAWK_NULL) != r) printf(" NONDET");
			printf("\n"); free(b);
		}
		else if (nw == 3 && !strcmp(w[0], "upto"))
		{
			size_t n, wcap = strtoul(w[1], NULL, 10); unsigned char* b = parse_bytes(w[2], strlen(w[2]), &n);
			hawk_uch_t* u = malloc(wcap * sizeof(hawk_uch_t)); hawk_oow_t bl, ul; int x;
			if (!b) { printf("bad-op\n"); free(u); continue; }
			bl = n; ul = wcap;
			x = hawk_conv_bchars_to_uchars_upto_stopper_with_cmgr((const hawk_bch_t*)b, &bl, u, &ul, '\n', cmgr);
			printf("x=%d mlen=%lu out=", x, (unsigned long)bl); put_chars(u, ul <= wcap ? ul : wcap); printf("\n");
			free(b); free(u);
		}
		else if (nw == 4 && !strcmp(w[0], "btou"))
		{
			size_t n, wcap = strtoul(w[2], NULL, 10); unsigned char* b = parse_bytes(w[3], strlen(w[3]), &n);
			hawk_uch_t* u = malloc(wcap * sizeof(hawk_uch_t)); hawk_oow_t bl, ul; int x;
			if (!b) { printf("bad-op\n"); free(u); continue; }
			bl = n; ul = wcap;
			x = hawk_conv_bchars_to_uchars_with_cmgr((const hawk_bch_t*)b, &bl, u, &ul, cmgr, w[1][0] == '1');
			printf("x=%d mlen=%lu out=", x, (unsigned long)bl); put_chars(u, ul <= wcap ? ul : wcap); printf("\n");
			free(b); free(u);
		}
		else if (nw == 3 && !strcmp(w[0], "utob"))
		{
			size_t n, rem = strtoul(w[1], NULL, 10); hawk_uch_t* u = parse_chars(w[2], strlen(w[2]), &n);
			unsigned char* b = malloc(rem); hawk_oow_t bl, ul; int x;
			if (!u) { printf("bad-op\n"); free(b); continue; }
			bl = rem; ul = n;
			x = hawk_conv_uchars_to_bchars_with_cmgr(u, &ul, (hawk_bch_t*)b, &bl, cmgr);
			printf("x=%d ulen=%lu bytes=", x, (unsigned long)ul); put_bytes(b, bl <= rem ? bl : rem); printf("\n");
			free(b); free(u);
		}
		else if (nw == 5 && !strcmp(w[0], "tior"))
		{
			size_t capa = strtoul(w[1], NULL, 10), size = strtoul(w[3], NULL, 10); long calls = 0; const char* end = "cap";
			hawk_tio_t* tio; hawk_bch_t* ib;
			if (parse_chunks(w[4]) < 0 || capa < HAWK_TIO_MININBUFCAPA || size < 1) { printf("bad-op\n"); free_chunks(); continue; }
			tio = hawk_tio_open(&gem, 0, tio_flags(w[2])); tio_pick_cmgr(tio, w[2]); ib = malloc(capa);
			hawk_tio_attachin(tio, in_handler, ib, capa);
			while (calls++ < CALLCAP)
			{
				hawk_uch_t* u = malloc(size * sizeof(hawk_uch_t)); hawk_ooi_t n;
				n = hawk_tio_readuchars(tio, u, size);
				if (calls > 1) putchar(' ');
				if (n == 0) { printf("0"); dump_in(tio); free(u); end = "eof"; break; }
				if (n <= -1) { printf("%s", errname()); dump_in(tio); free(u); end = "err"; break; }
				printf("%ld:", (long)n); put_chars(u, n); dump_in(tio);
				free(u);
			}
			printf(" end=%s\n", end);
			hawk_tio_close(tio); free(ib); free_chunks();
		}
		else if (nw == 4 && !strcmp(w[0], "tiob"))
		{
			size_t capa = strtoul(w[1], NULL, 10), size = strtoul(w[2], NULL, 10); long calls = 0; const char* end = "cap";
			hawk_tio_t* tio; hawk_bch_t* ib;
			if (parse_chunks(w[3]) < 0 || capa < HAWK_TIO_MININBUFCAPA || size < 1) { printf("bad-op\n"); free_chunks(); continue; }
			tio = hawk_tio_open(&gem, 0, 0); ib = malloc(capa);
			hawk_tio_attachin(tio, in_handler, ib, capa);
			while (calls++ < CALLCAP)
			{
				unsigned char* u = malloc(size); hawk_ooi_t n;
				n = hawk_tio_readbchars(tio, (hawk_bch_t*)u, size);
				if (calls > 1) putchar(' ');
				if (n <= 0) { printf("0|%lu,%lu", (unsigned long)tio->inbuf_cur, (unsigned long)tio->inbuf_len); free(u); end = "eof"; break; }
				printf("%ld:", (long)n); put_bytes(u, n); printf("|%lu,%lu", (unsigned long)tio->inbuf_cur, (unsigned long)tio->inbuf_len);
				free(u);
			}
			printf(" end=%s\n", end);
			hawk_tio_close(tio); free(ib); free_chunks();
		}
		else if (nw == 4 && (!strcmp(w[0], "tiow") || !strcmp(w[0], "tiowb")))
		{
			size_t capa = strtoul(w[1], NULL, 10); int bytes = !strcmp(w[0], "tiowb"), first = 1; char* sp;
			hawk_tio_t* tio; hawk_bch_t* ob; size_t i;
			if (capa < HAWK_TIO_MINOUTBUFCAPA) { printf("bad-op\n"); continue; }
			tio = hawk_tio_open(&gem, 0, tio_flags(w[2])); tio_pick_cmgr(tio, w[2]); ob = malloc(capa);
			hawk_tio_attachout(tio, out_handler, ob, capa);
			sp = w[3];
			if (strcmp(sp, ".")) for (;;)
			{
				char* q = strchr(sp, '/'); size_t sl = q ? (size_t)(q - sp) : strlen(sp), n; hawk_ooi_t r;
				if (bytes) { unsigned char* b = parse_bytes(sp, sl, &n); if (!b) { printf("bad-op"); break; } r = hawk_tio_writebchars(tio, (hawk_bch_t*)b, n); free(b); }
				else { hawk_uch_t* u = parse_chars(sp, sl, &n); if (!u) { printf("bad-op"); break; } r = hawk_tio_writeuchars(tio, u, n); free(u); }
				if (!first) putchar(' '); first = 0;
				if (r <= -1) printf("%s", errname()); else if ((size_t)r == n) printf("ok"); else printf("short%ld", (long)r);
				printf("|%lu|%lu", (unsigned long)tio->outbuf_len, (unsigned long)sink.n);
				if (!q) break; sp = q + 1;
			}
			printf(" sink=");
			if (!sink.n) putchar('.');
			for (i = 0; i < sink.n; i++) { if (i) putchar('/'); put_bytes(sink.ptr[i], sink.len[i]); }
			printf(" rest="); put_bytes((unsigned char*)tio->out.buf.ptr, tio->outbuf_len); printf("\n");
			tio->outbuf_len = 0; /* nothing more to compare */
			hawk_tio_close(tio); free(ob); free_sink();
		}
		else if (nw == 5 && !strcmp(w[0], "tiox"))
		{
			/* write-side calls against the scripted writer: u:<chars> / b:<bytes> / F */
			size_t capa = strtoul(w[1], NULL, 10); int first = 1; char* sp; size_t i;
			hawk_tio_t* tio; hawk_bch_t* ob;
			if (capa < HAWK_TIO_MINOUTBUFCAPA || parse_script(w[3]) < 0) { printf("bad-op\n"); continue; }
			tio = hawk_tio_open(&gem, 0, tio_flags(w[2])); tio_pick_cmgr(tio, w[2]); ob = malloc(capa);
			hawk_tio_attachout(tio, scripted_out_handler, ob, capa);
			sp = w[4];
			if (strcmp(sp, ".")) for (;;)
			{
				char* q = strchr(sp, '/'); size_t sl = q ? (size_t)(q - sp) : strlen(sp), n = 0; hawk_ooi_t r; int isflush = 0;
				gem.errnum = HAWK_ENOERR;
				if (sl == 1 && sp[0] == 'F') { r = hawk_tio_flush(tio); isflush = 1; }
				else if (sl >= 2 && sp[0] == 'b' && sp[1] == ':') { unsigned char* b = parse_bytes(sp + 2, sl - 2, &n); if (!b) { printf("bad-op"); break; } r = hawk_tio_writebchars(tio, (hawk_bch_t*)b, n); free(b); }
				else if (sl >= 2 && sp[0] == 's' && sp[1] == ':')
				{	/* null-terminated source: hawk_tio_writebchars (tio, str, (hawk_oow_t)-1) */
					unsigned char* b = parse_bytes(sp + 2, sl - 2, &n), * z; if (!b) { printf("bad-op"); break; }
					z = malloc(n + 1); memcpy(z, b, n); z[n] = 0; n = strlen((char*)z);
					r = hawk_tio_writebchars(tio, (hawk_bch_t*)z, (hawk_oow_t)-1); free(b); free(z);
				}
				else if (sl >= 2 && sp[0] == 'u' && sp[1] == ':') { hawk_uch_t* u = parse_chars(sp + 2, sl - 2, &n); if (!u) { printf("bad-op"); break; } r = hawk_tio_writeuchars(tio, u, n); free(u); }
				else { printf("bad-op"); break; }
				if (!first) putchar(' '); first = 0;
				if (r <= -1) printf("%s", errname()); else if (isflush) printf("n%ld", (long)r); else if ((size_t)r == n) printf("ok"); else printf("short%ld", (long)r);
				printf("|%lu|", (unsigned long)tio->outbuf_len);
				put_bytes((unsigned char*)tio->out.buf.ptr, tio->outbuf_len <= capa ? tio->outbuf_len : capa);
				printf("|%ld", wscr.calls);
				if (!q) break; sp = q + 1;
			}
			printf(" sink=");
			if (!sink.n) putchar('.');
			for (i = 0; i < sink.n; i++) { if (i) putchar('/'); put_bytes(sink.ptr[i], sink.len[i]); }
			printf("\n");
			tio->outbuf_len = 0; /* nothing more to compare */
			hawk_tio_close(tio); free(ob); free_sink();
		}
		else if (nw == 4 && !strcmp(w[0], "cenc"))
		{
			int id = cm_id(w[1]); unsigned long uc = strtoul(w[2], NULL, 16); size_t size = strtoul(w[3], NULL, 10), i; int touched = 0;
			unsigned char* b; hawk_oow_t r;
			if (id < 0) { printf("bad-op\n"); continue; }
			b = malloc(size); memset(b, 0xAA, size);
			r = hawk_get_cmgr_by_id(id)->uctobc((hawk_uch_t)uc, (hawk_bch_t*)b, size);
			printf("ret=%lu bytes=", (unsigned long)r);
			if (r != 0 && r <= size) put_bytes(b, r);
			else { for (i = 0; i < size; i++) if (b[i] != 0xAA) touched = 1; printf(touched ? "TOUCHED" : "-"); }
			printf("\n"); free(b);
		}
		else if (nw == 3 && !strcmp(w[0], "cdec"))
		{
			int id = cm_id(w[1]); size_t n; unsigned char* b = parse_bytes(w[2], strlen(w[2]), &n); hawk_uch_t uc = 0xFFFF, uc2 = 0x1234; hawk_oow_t r, r2;
			if (id < 0 || !b || n == 0) { printf("bad-op\n"); free(b); continue; }
			r = hawk_get_cmgr_by_id(id)->bctouc((const hawk_bch_t*)b, n, &uc);
			r2 = hawk_get_cmgr_by_id(id)->bctouc((const hawk_bch_t*)b, n, &uc2);
			printf("ret=%lu uc=", (unsigned long)r);
			if (r != 0 && r <= n) printf("%lx", (unsigned long)uc);
			else printf((uc == 0xFFFF && uc2 == 0x1234) ? "-" : "TOUCHED");
			if (r2 != r || (r != 0 && r <= n && uc != uc2)) printf(" NONDET");
			printf("\n"); free(b);
		}
		else if (nw == 2 && !strcmp(w[0], "cname"))
		{
			/* hawk_get_cmgr_by_bcstr and hawk_get_cmgr_by_ucstr must agree and name one of the built-in managers */
			const char* nm = strcmp(w[1], "-") ? w[1] : ""; hawk_uch_t un[64]; size_t i, l = strlen(nm); hawk_cmgr_t* a, * b2; const char* id = "NULL";
			for (i = 0; i < l && i < 63; i++) un[i] = (unsigned char)nm[i]; un[i] = 0;
			a = hawk_get_cmgr_by_bcstr(nm); b2 = hawk_get_cmgr_by_ucstr(un);
			if (a == hawk_get_cmgr_by_id(HAWK_CMGR_UTF8)) id = "utf8"; else if (a == hawk_get_cmgr_by_id(HAWK_CMGR_UTF16)) id = "utf16";
			else if (a == hawk_get_cmgr_by_id(HAWK_CMGR_MB8)) id = "mb8"; else if (a) id = "OTHER";
			printf("id=%s%s\n", id, a == b2 ? "" : " BCSTR/UCSTR-DISAGREE");
		}
		else if (nw == 4 && (!strcmp(w[0], "cbtou") || !strcmp(w[0], "cbtous")))
		{
			int id = cm_id(w[1]), cstr = !strcmp(w[0], "cbtous"); size_t n, wcap = strtoul(w[2], NULL, 10); unsigned char* b = parse_bytes(w[3], strlen(w[3]), &n);
			hawk_uch_t* u; hawk_oow_t bl, ul; int x;
			if (id < 0 || !b) { printf("bad-op\n"); free(b); continue; }
			u = malloc(wcap * sizeof(hawk_uch_t)); memset(u, 0x55, wcap * sizeof(hawk_uch_t));
			if (cstr) { b = realloc(b, n + 1); b[n] = 0; }
			bl = n; ul = wcap;
			x = (cstr ? w_btous[id] : w_btou[id])((const hawk_bch_t*)b, &bl, u, &ul);
			printf("x=%d mlen=%lu out=", x, (unsigned long)bl); put_chars(u, ul <= wcap ? ul : wcap);
			if (cstr) printf(" nul=%d", (ul < wcap && u[ul] == 0) ? 1 : 0);
			printf("\n"); free(b); free(u);
		}
		else if (nw == 4 && (!strcmp(w[0], "cutob") || !strcmp(w[0], "cutobs")))
		{
			int id = cm_id(w[1]), cstr = !strcmp(w[0], "cutobs"); size_t n, rem = strtoul(w[2], NULL, 10); hawk_uch_t* u = parse_chars(w[3], strlen(w[3]), &n);
			unsigned char* b; hawk_oow_t bl, ul; int x;
			if (id < 0 || !u) { printf("bad-op\n"); free(u); continue; }
			b = malloc(rem); memset(b, 0x55, rem);
			if (cstr) { u = realloc(u, (n + 1) * sizeof(hawk_uch_t)); u[n] = 0; }
			bl = rem; ul = n;
			x = (cstr ? w_utobs[id] : w_utob[id])(u, &ul, (hawk_bch_t*)b, &bl);
			printf("x=%d ulen=%lu bytes=", x, (unsigned long)ul); put_bytes(b, bl <= rem ? bl : rem);
			if (cstr) printf(" nul=%d", (bl < rem && b[bl] == 0) ? 1 : 0);
			printf("\n"); free(b); free(u);
		}
		else if ((nw == 4 && !strcmp(w[0], "dupb")) || (nw == 3 && !strcmp(w[0], "v2u")) || (nw == 2 && !strcmp(w[0], "vstr")))
		{
			/* bytes -> text: gem level (dupb <cm> <all> <bytes>), value level (v2u <cm> <bytes>: byte-string value read as text with
			 * that manager; vstr <bytes>: hawk_rtx_makestrvalwithbchars) */
			int id = nw == 2 ? HAWK_CMGR_UTF8 : cm_id(w[1]); const char* hx = w[nw - 1]; size_t n; unsigned char* b = parse_bytes(hx, strlen(hx), &n);
			hawk_uch_t* u = HAWK_NULL; hawk_oow_t ul = 0; const char* err = "E?"; hawk_val_t* v = HAWK_NULL; hawk_rtx_t* rtx = HAWK_NULL;
			if (id < 0 || !b) { printf("bad-op\n"); free(b); continue; }
			if (nw == 4) { u = hawk_gem_dupbtoucharswithcmgr(&gem, (hawk_bch_t*)b, n, &ul, hawk_get_cmgr_by_id(id), w[2][0] == '1'); err = gem_errname(&gem); }
			else
			{
				rtx = the_rtx(); if (!rtx) { printf("setup-failed\n"); free(b); continue; }
				if (nw == 3) { v = hawk_rtx_makembsvalwithbchars(rtx, (hawk_bch_t*)b, n); hawk_rtx_refupval(rtx, v); u = hawk_rtx_valtoucstrdupwithcmgr(rtx, v, &ul, hawk_get_cmgr_by_id(id)); }
				else { v = hawk_rtx_makestrvalwithbchars(rtx, (hawk_bch_t*)b, n); if (v) { hawk_rtx_refupval(rtx, v); u = ((hawk_val_str_t*)v)->val.ptr; ul = ((hawk_val_str_t*)v)->val.len; } }
				err = gem_errname(hawk_rtx_getgem(rtx));
			}
			if (!u) printf("%s\n", err);
			else { printf("ok len=%lu out=", (unsigned long)ul); put_chars(u, ul); printf("%s\n", u[ul] == 0 ? "" : " NOT-TERMINATED"); }
			if (nw == 4) { if (u) hawk_gem_freemem(&gem, u); }
			else { if (nw == 3 && u) hawk_rtx_freemem(rtx, u); if (v) hawk_rtx_refdownval(rtx, v); }
			free(b);
		}
		else if ((nw == 3 && !strcmp(w[0], "dupu")) || (nw == 3 && !strcmp(w[0], "v2b")) || (nw == 2 && !strcmp(w[0], "vmbs")))
		{
			/* text -> bytes: gem level (dupu <cm> <chars>), value level (v2b <cm> <chars>, vmbs <chars>: hawk_rtx_makembsvalwithuchars) */
			int id = nw == 2 ? HAWK_CMGR_UTF8 : cm_id(w[1]); const char* hx = w[nw - 1]; size_t n; hawk_uch_t* u = parse_chars(hx, strlen(hx), &n);
			hawk_bch_t* b = HAWK_NULL; hawk_oow_t bl = 0; const char* err = "E?"; hawk_val_t* v = HAWK_NULL; hawk_rtx_t* rtx = HAWK_NULL; int gemlevel = !strcmp(w[0], "dupu");
			if (id < 0 || !u) { printf("bad-op\n"); free(u); continue; }
			if (gemlevel) { b = hawk_gem_duputobcharswithcmgr(&gem, u, n, &bl, hawk_get_cmgr_by_id(id)); err = gem_errname(&gem); }
			else
			{
				rtx = the_rtx(); if (!rtx) { printf("setup-failed\n"); free(u); continue; }
				if (nw == 3) { v = hawk_rtx_makestrvalwithuchars(rtx, u, n); hawk_rtx_refupval(rtx, v); b = hawk_rtx_valtobcstrdupwithcmgr(rtx, v, &bl, hawk_get_cmgr_by_id(id)); }
				else { v = hawk_rtx_makembsvalwithuchars(rtx, u, n); if (v) { hawk_rtx_refupval(rtx, v); b = ((hawk_val_mbs_t*)v)->val.ptr; bl = ((hawk_val_mbs_t*)v)->val.len; } }
				err = gem_errname(hawk_rtx_getgem(rtx));
			}
			if (!b) printf("%s\n", err);
			else { printf("ok len=%lu out=", (unsigned long)bl); put_bytes((unsigned char*)b, bl); printf("%s\n", b[bl] == 0 ? "" : " NOT-TERMINATED"); }
			if (gemlevel) { if (b) hawk_gem_freemem(&gem, b); }
			else { if (nw == 3 && b) hawk_rtx_freemem(rtx, b); if (v) hawk_rtx_refdownval(rtx, v); }
			free(u);
		}
		else if (nw == 3 && !strcmp(w[0], "prt"))
		{
			/* a hawk program `BEGIN { if ((print T1) <= -1) exit 101; if ((print T2) <= -1) exit 102; ... }` run on the standard
			 * runtime in this process with write(2) on descriptor 1 answered by the script.  texts are hex UTF-8 without quotes,
			 * backslashes or newlines.  prints: exit value (0 = all prints reported success, 100+i = print i reported failure,
			 * -1 = run error), number of write(2) calls, the slices accepted. */
			static char prog[1 << 20]; size_t pl = 0, i, k = 0; char* sp = w[2]; long ec = 0; int bad = 0;
			hawk_t* hawk; hawk_rtx_t* rtx = HAWK_NULL; hawk_val_t* retv; hawk_parsestd_t psin[2];
			if (parse_script(w[1]) < 0) { printf("bad-op\n"); continue; }
			pl += snprintf(prog + pl, sizeof(prog) - pl, "BEGIN { ");
			for (;;)
			{
				char* q = strchr(sp, '/'); size_t sl = q ? (size_t)(q - sp) : strlen(sp), n; unsigned char* b = parse_bytes(sp, sl, &n);
				if (!b || pl + n + 64 >= sizeof(prog)) { bad = 1; free(b); break; }
				pl += snprintf(prog + pl, sizeof(prog) - pl, "if ((print \"");
				memcpy(prog + pl, b, n); pl += n; free(b);
				pl += snprintf(prog + pl, sizeof(prog) - pl, "\") <= -1) exit %lu; ", (unsigned long)(101 + k)); k++;
				if (!q) break; sp = q + 1;
			}
			pl += snprintf(prog + pl, sizeof(prog) - pl, "}");
			if (bad) { printf("bad-op\n"); continue; }
			fflush(stdout);
			hawk = hawk_openstd(0, HAWK_NULL);
			memset(&psin, 0, sizeof(psin));
			psin[0].type = HAWK_PARSESTD_BCS; psin[0].u.bcs.ptr = prog; psin[0].u.bcs.len = pl; psin[1].type = HAWK_PARSESTD_NULL;
			if (!hawk || hawk_parsestd(hawk, psin, HAWK_NULL) <= -1 || !(rtx = hawk_rtx_openstd(hawk, 0, HAWK_T("prt"), HAWK_NULL, HAWK_NULL, HAWK_NULL)))
			{ printf("setup-failed\n"); if (hawk) hawk_close(hawk); continue; }
			w_armed = 1;
			retv = hawk_rtx_loop(rtx);
			if (retv) { hawk_int_t v = 0; if (hawk_rtx_valtoint(rtx, retv, &v) >= 0) ec = (long)v; hawk_rtx_refdownval(rtx, retv); }
			else ec = -1;
			hawk_rtx_close(rtx);
			hawk_close(hawk);
			w_armed = 0;
			printf("ec=%ld calls=%ld sink=", ec, wscr.calls);
			if (!sink.n) putchar('.');
			for (i = 0; i < sink.n; i++) { if (i) putchar('/'); put_bytes(sink.ptr[i], sink.len[i]); }
			printf("\n");
			free_sink();
		}
		else printf("bad-op\n");
		fflush(stdout); /* keep everything printed so far if a sanitizer aborts the next op */
		alarm(0);
	}
	fflush(stdout);
	return 0;
}
