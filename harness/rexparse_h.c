/* C06 parse-level harness: tre_parse() alone, on the REAL tre-parse.c, set up exactly as tre_compile() does
 * (tre-compile.c: stack 512/-1/128, tre_mem_new, parse_ctx zeroed, max_backref = -1), with the cflags
 * hawk_gem_buildrex() passes.  A separate program from rex_h.c because tre-prv.h redefines regex_t/regmatch_t,
 * which rex_h.c needs from glibc.
 *
 * argv: <watchdog seconds> [exact]   ("exact": the pattern is handed over in a heap block of exactly its length, not
 * NUL-terminated, as hawk_tre_compx(ptr, len) allows - reads behind the pattern become sanitizer reports)
 *   P <flags> <pattern>      flags: bit 0 = HAWK_TRE_IGNORECASE, bit 3 = HAWK_TRE_NOBOUND (other bits are for the model)
 *        -> the tre_ast_node_t tree as text (format below) or "ERR <reg_errcode name>" */
#include <hawk-std.h>
#include <hawk-tre.h>
#include "hawk-prv.h"
#include <stdio.h>
#include <stdlib.h>
#include <string.h>
#include <stdarg.h>
#include <signal.h>
#include <unistd.h>
#include "tre-prv.h"
#include "tre-ast.h"
#include "tre-stack.h"
#include "tre-parse.h"

static void on_alarm (int sig) { printf("HANG\n"); fflush(stdout); _exit(3); }
static hawk_t* hawk;
#define MAXS 4096

/* ---- P request: tre_parse() alone, exactly as tre_compile() sets it up, then the tre_ast_node_t tree as text:
 *   every node:  <body>:<submatch_id>:<num_submatches>
 *   body:  E | A<assertion bits> | B<backref>@<position> | L<code_min>-<code_max or M=TRE_CHAR_MAX>@<position>[c<class>][!<negclass>,..]
 *          C(<left>,<right>) | U(<left>,<right>) | I(<arg>,<min>,<max>,<minimal>)
 *   then " nsub=<ctx.submatch_id> npos=<ctx.position>";  a rejected pattern: "ERR <reg_errcode name>" */
static char pbuf[1 << 20]; static size_t plen_;
static void pp (const char* fmt, ...)
{
	va_list ap; size_t room = sizeof(pbuf) - plen_;
	if (room < 128) return;
	va_start(ap, fmt); plen_ += vsnprintf(pbuf + plen_, room, fmt, ap); va_end(ap);
}
static const char* class_name (tre_ctype_t c)
{
	switch ((int)c)
	{
		case HAWK_OOCH_PROP_UPPER: return "upper"; case HAWK_OOCH_PROP_LOWER: return "lower"; case HAWK_OOCH_PROP_ALPHA: return "alpha";
		case HAWK_OOCH_PROP_DIGIT: return "digit"; case HAWK_OOCH_PROP_XDIGIT: return "xdigit"; case HAWK_OOCH_PROP_ALNUM: return "alnum";
		case HAWK_OOCH_PROP_SPACE: return "space"; case HAWK_OOCH_PROP_PRINT: return "print"; case HAWK_OOCH_PROP_GRAPH: return "graph";
		case HAWK_OOCH_PROP_CNTRL: return "cntrl"; case HAWK_OOCH_PROP_PUNCT: return "punct"; case HAWK_OOCH_PROP_BLANK: return "blank";
	}
	return "?";
}
static void dump_ast (tre_ast_node_t* n, int depth)
{
	if (!n) { pp("NULL"); return; }
	if (depth > 3000) { pp("DEEP"); return; }
	switch (n->type)
	{
		case LITERAL:
		{
			tre_literal_t* l = (tre_literal_t*)n->obj;
			if (IS_EMPTY(l)) pp("E");
			else if (IS_ASSERTION(l)) pp("A%ld", (long)l->code_max);
			else if (IS_BACKREF(l)) pp("B%ld@%d", (long)l->code_max, l->position);
			else if (IS_SPECIAL(l)) pp("S%ld", (long)l->code_min);
			else
			{
				pp("L%ld-", (long)l->code_min);
				if (l->code_max == (long)TRE_CHAR_MAX) pp("M"); else pp("%ld", (long)l->code_max);
				pp("@%d", l->position);
				if (l->u.class) pp("c%s", class_name(l->u.class));
				if (l->neg_classes && l->neg_classes[0])
				{
					int k;
					for (k = 0; l->neg_classes[k]; k++) pp("%s%s", k ? "," : "!", class_name(l->neg_classes[k]));
				}
			}
			break;
		}
		case CATENATION:
			pp("C("); dump_ast(((tre_catenation_t*)n->obj)->left, depth + 1); pp(","); dump_ast(((tre_catenation_t*)n->obj)->right, depth + 1); pp(")");
			break;
		case UNION:
			pp("U("); dump_ast(((tre_union_t*)n->obj)->left, depth + 1); pp(","); dump_ast(((tre_union_t*)n->obj)->right, depth + 1); pp(")");
			break;
		case ITERATION:
		{
			tre_iteration_t* it = (tre_iteration_t*)n->obj;
			pp("I("); dump_ast(it->arg, depth + 1); pp(",%d,%d,%d", it->min, it->max, (int)it->minimal);
			if (it->params) pp(",params");
			pp(")");
			break;
		}
	}
	pp(":%d:%d", n->submatch_id, n->num_submatches);
}
static const char* rex_errname (int e)
{
	switch (e)
	{
		case HAWK_ENOMEM: return "ESPACE"; case HAWK_EREXBADPAT: return "BADPAT"; case HAWK_EREXCOLLATE: return "ECOLLATE";
		case HAWK_EREXCTYPE: return "ECTYPE"; case HAWK_EREXESCAPE: return "EESCAPE"; case HAWK_EREXSUBREG: return "ESUBREG";
		case HAWK_EREXBRACK: return "EBRACK"; case HAWK_EREXPAREN: return "EPAREN"; case HAWK_EREXBRACE: return "EBRACE";
		case HAWK_EREXBADBR: return "BADBR"; case HAWK_EREXRANGE: return "ERANGE"; case HAWK_EREXBADRPT: return "BADRPT";
	}
	return "OTHER";
}
static void run_parse (const hawk_ooch_t* upat, size_t plen, int flags)
{
	tre_parse_ctx_t parse_ctx; tre_stack_t* stack; tre_mem_t mem; reg_errcode_t errcode;
	int cflags = HAWK_TRE_EXTENDED | ((flags & 1) ? HAWK_TRE_IGNORECASE : 0) | ((flags & 8) ? HAWK_TRE_NOBOUND : 0);
	plen_ = 0; pbuf[0] = 0;
	stack = tre_stack_new(hawk_getgem(hawk), 512, -1, 128);
	mem = tre_mem_new(hawk_getgem(hawk));
	if (!stack || !mem) { printf("ERR ESPACE\n"); return; }
	memset(&parse_ctx, 0, sizeof(parse_ctx));
	parse_ctx.mem = mem; parse_ctx.stack = stack; parse_ctx.re = upat; parse_ctx.len = plen;
	parse_ctx.cflags = cflags; parse_ctx.max_backref = -1;
	errcode = tre_parse(&parse_ctx);
	if (errcode != REG_OK) printf("ERR %s\n", rex_errname((int)errcode));
	else
	{
		dump_ast(parse_ctx.result, 0);
		printf("%s nsub=%d npos=%d%s\n", pbuf, parse_ctx.submatch_id, parse_ctx.position, parse_ctx.have_approx ? " approx" : "");
	}
	tre_mem_destroy(mem);
	tre_stack_destroy(stack);
}


int main (int argc, char** argv)
{
	static char line[MAXS * 2 + 64];
	static hawk_ooch_t upat[MAXS + 1];
	int wd = argc > 1 ? atoi(argv[1]) : 20;
	int exact = argc > 2 && strcmp(argv[2], "exact") == 0;
	signal(SIGALRM, on_alarm);
	hawk = hawk_openstd(0, HAWK_NULL);
	if (!hawk) { printf("FATAL open\n"); return 2; }
	while (fgets(line, sizeof(line), stdin))
	{
		size_t L = strlen(line), plen, i; char* p; int flags;
		while (L > 0 && (line[L - 1] == '\n' || line[L - 1] == '\r')) line[--L] = 0;
		alarm(wd);
		if (line[0] != 'P' || line[1] != ' ') { printf("bad-op\n"); continue; }
		p = line + 2;
		flags = (int)strtol(p, &p, 10); if (*p != ' ') { printf("bad-op\n"); continue; } p++;
		plen = strlen(p);
		if (plen > MAXS) { printf("bad-op\n"); continue; }
		for (i = 0; i < plen; i++) upat[i] = (unsigned char)p[i];
		upat[plen] = 0;
		if (exact)
		{	/* the pattern in a heap block of exactly its size: a read behind the pattern is a sanitizer report */
			hawk_ooch_t* ex = (hawk_ooch_t*)malloc(plen ? plen * sizeof(hawk_ooch_t) : 1);
			if (!ex) { printf("FATAL malloc\n"); return 2; }
			memcpy(ex, upat, plen * sizeof(hawk_ooch_t));
			run_parse(ex, plen, flags);
			free(ex);
		}
		else run_parse(upat, plen, flags);
	}
	alarm(0);
	hawk_close(hawk);
	return 0;
}
