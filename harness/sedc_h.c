/* C18: dump of the command chain that hawk_sed_comp() (lib/sed.c, included below as source) makes of a script.
 *
 * stdin : one case per line:  <traits: letters a x y, or "-"> <script: code points in decimal joined by ".", "_" = empty>
 * stdout: "ok" (<cmd>)*  |  "err" <HAWK_SED_Exxx name or number>  |  "rexfail" (the regex compiler rejected a pattern)
 *   ("rexfail" is followed by the pattern as it was handed to the regex compiler)
 *   cmd  := type,negated,a1,a2[,arg]*
 *   addr := "-" | "$" | "L"<n> | "R"<icase>":"<string>           (R0:_ = EMPTY_REX)
 *   arg  := a i c: text | r R w W: file | b t (and the branch made of "{"): "T"<index of the target command; length = cmd.over>
 *           s: regex,replacement,g,p,i,k,occ,file|"-"  |  y: the transet
 * The script is handed to the compiler in chunks of `argv[1]` characters (default 7) so that the refill of
 * sed->src.buf happens inside tokens.  Regex sources are recorded by a wrapper around hawk_tre_compx() (the compiled
 * form keeps no source).  Branch targets that hawk_sed_comp leaves to init_command_block_for_exec (forward labels,
 * no label) are resolved here the way that function does it (tmp.labs lookup / cmd.over).
 */
#include <hawk-sed.h>
#include <hawk-tre.h>
#include "sed-prv.h"
#include "hawk-prv.h"
#include <stdio.h>
#include <stdlib.h>
#include <string.h>

#define MAXREX 8192
static struct { void* tre; hawk_ooch_t* src; hawk_oow_t len; int icase; } rexes[MAXREX];
static int nrex = 0, rexfail = 0;
static hawk_ooch_t failsrc[4096]; static hawk_oow_t faillen = 0;

static int verif_tre_compx (hawk_tre_t* tre, const hawk_ooch_t* regex, hawk_oow_t n, unsigned int* nsubmat, int cflags)
{
	int x = hawk_tre_compx(tre, regex, n, nsubmat, cflags);
	if (x <= -1) { rexfail = 1; faillen = n < 4096 ? n : 4096; memcpy (failsrc, regex, faillen * sizeof(hawk_ooch_t)); return x; }
	if (nrex < MAXREX)
	{
		rexes[nrex].tre = tre;
		rexes[nrex].src = malloc((n + 1) * sizeof(hawk_ooch_t));
		memcpy (rexes[nrex].src, regex, n * sizeof(hawk_ooch_t));
		rexes[nrex].len = n;
		rexes[nrex].icase = !!(cflags & HAWK_TRE_IGNORECASE);
		nrex++;
	}
	return x;
}
#define hawk_tre_compx verif_tre_compx
#include "sed.c"
#undef hawk_tre_compx

static hawk_ooch_t* script; static size_t slen, spos, chunk = 7;

static hawk_ooi_t script_in (hawk_sed_t* sed, hawk_sed_io_cmd_t cmd, hawk_sed_io_arg_t* arg, hawk_ooch_t* data, hawk_oow_t count)
{
	switch (cmd)
	{
		case HAWK_SED_IO_OPEN: spos = 0; return 1;
		case HAWK_SED_IO_CLOSE: return 0;
		case HAWK_SED_IO_READ:
		{
			size_t n = slen - spos;
			if (n > chunk) n = chunk;
			if (n > count) n = count;
			memcpy (data, script + spos, n * sizeof(hawk_ooch_t));
			spos += n;
			return (hawk_ooi_t)n;
		}
		default: return -1;
	}
}

static void put_str (const hawk_ooch_t* p, hawk_oow_t n)
{
	hawk_oow_t i;
	if (n == 0) { putchar('_'); return; }
	for (i = 0; i < n; i++) printf("%s%u", i ? "." : "", (unsigned)p[i]);
}

static void put_rex (void* rex)
{
	int i;
	if (rex == EMPTY_REX) { printf("R0:_"); return; }
	for (i = nrex - 1; i >= 0; i--) if (rexes[i].tre == rex) { printf("R%d:", rexes[i].icase); put_str(rexes[i].src, rexes[i].len); return; }
	printf("R?");
}

static void put_adr (hawk_sed_adr_t* a)
{
	switch (a->type)
	{
		case HAWK_SED_ADR_NONE: putchar('-'); break;
		case HAWK_SED_ADR_DOL: putchar('$'); break;
		case HAWK_SED_ADR_LINE: printf("L%llu", (unsigned long long)a->u.lno); break;
		case HAWK_SED_ADR_REX: put_rex(a->u.rex); break;
		default: printf("X%d:%llu", (int)a->type, (unsigned long long)a->u.lno); break;
	}
}

static long index_of (hawk_sed_t* sed, hawk_sed_cmd_t* t, size_t total)
{
	hawk_sed_cmd_blk_t* b; size_t base = 0;
	if (t == &sed->cmd.over) return (long)total;
	for (b = &sed->cmd.fb; b; b = b->next)
	{
		if (t >= &b->buf[0] && t < &b->buf[b->len]) return (long)(base + (t - &b->buf[0]));
		base += b->len;
	}
	return -1;
}

static const char* errname (int e)
{
	switch (e)
	{
#define E(x) case HAWK_SED_##x: return #x;
	E(ECMDNR) E(ECMDMS) E(ECMDIC) E(EREXIC) E(EREXBL) E(EA1PHB) E(EA1MOI) E(EA2PHB) E(EA2MOI) E(ENEWLN) E(EBSEXP) E(EBSDEL)
	E(EGBABS) E(ESCEXP) E(ELABEM) E(ELABDU) E(ELABNF) E(EFILEM) E(EFILIL) E(ETSNSL) E(EGRNBA) E(EGRNTD) E(EOCSDU) E(EOCSZE)
	E(EOCSTL) E(ENPREX) E(ECSLNV)
#undef E
	}
	return NULL;
}

static char line[1 << 20];

int main (int argc, char* argv[])
{
	if (argc > 1) chunk = (size_t)atoi(argv[1]);
	if (chunk < 1) chunk = 1;
	if (sizeof(hawk_ooch_t) != 2) { printf("unsupported-character-width %d\n", (int)sizeof(hawk_ooch_t)); return 3; }
	script = malloc(sizeof(line) * sizeof(hawk_ooch_t));
	while (fgets(line, sizeof(line), stdin))
	{
		char* tr = strtok(line, " \n"); char* sc = strtok(NULL, " \n"); char* p;
		hawk_sed_t* sed; hawk_errnum_t errnum; int trait = 0; size_t total = 0; hawk_sed_cmd_blk_t* b; hawk_oow_t i;
		if (!tr || !sc) { printf("bad-case\n"); continue; }
		if (strchr(tr, 'a')) trait |= HAWK_SED_STRICT;
		if (strchr(tr, 'x')) trait |= HAWK_SED_SAMELINE;
		if (strchr(tr, 'y')) trait |= HAWK_SED_ENSURENL;
		slen = 0;
		if (strcmp(sc, "_") != 0) for (p = sc; *p; ) { script[slen++] = (hawk_ooch_t)strtoul(p, &p, 10); if (*p == '.') p++; }
		for (i = 0; i < (hawk_oow_t)nrex; i++) free(rexes[i].src);
		nrex = 0; rexfail = 0;

		sed = hawk_sed_openstd(0, &errnum);
		if (!sed) { printf("open-failed\n"); continue; }
		hawk_sed_setopt (sed, HAWK_SED_TRAIT, &trait);
		if (hawk_sed_comp(sed, script_in) <= -1)
		{
			int e = (int)hawk_sed_geterrnum(sed);
			if (rexfail) { printf("rexfail "); put_str (failsrc, faillen); putchar('\n'); }
			else if (errname(e)) printf("err %s\n", errname(e));
			else printf("err %d\n", e);
			hawk_sed_close (sed);
			continue;
		}
		for (b = &sed->cmd.fb; b; b = b->next) total += b->len;
		{
			/* resolve what hawk_sed_comp leaves unresolved exactly as init_command_block_for_exec does; a missing label is the error of that function */
			int missing = 0;
			for (b = &sed->cmd.fb; b && !missing; b = b->next)
				for (i = 0; i < b->len; i++)
				{
					hawk_sed_cmd_t* c = &b->buf[i];
					if ((c->type == HAWK_SED_CMD_BRANCH || c->type == HAWK_SED_CMD_BRANCH_COND) && c->u.branch.target == HAWK_NULL && c->u.branch.label.ptr != HAWK_NULL &&
					    hawk_map_search(&sed->tmp.labs, c->u.branch.label.ptr, c->u.branch.label.len) == HAWK_NULL) { missing = 1; break; }
				}
			if (missing) { printf("err ELABNF\n"); hawk_sed_close (sed); continue; }
		}
		printf("ok");
		for (b = &sed->cmd.fb; b; b = b->next)
			for (i = 0; i < b->len; i++)
			{
				hawk_sed_cmd_t* c = &b->buf[i];
				printf(" %u,%d,", (unsigned)c->type, c->negated ? 1 : 0);
				put_adr (&c->a1); putchar(','); put_adr (&c->a2);
				switch (c->type)
				{
					case HAWK_SED_CMD_APPEND: case HAWK_SED_CMD_INSERT: case HAWK_SED_CMD_CHANGE:
						putchar(','); put_str (c->u.text.ptr, c->u.text.len); break;
					case HAWK_SED_CMD_READ_FILE: case HAWK_SED_CMD_READ_FILELN: case HAWK_SED_CMD_WRITE_FILE: case HAWK_SED_CMD_WRITE_FILELN:
						putchar(','); put_str (c->u.file.ptr, c->u.file.len); break;
					case HAWK_SED_CMD_BRANCH: case HAWK_SED_CMD_BRANCH_COND:
					{
						hawk_sed_cmd_t* t = c->u.branch.target;
						if (t == HAWK_NULL)
						{
							if (c->u.branch.label.ptr == HAWK_NULL) t = &sed->cmd.over;
							else t = HAWK_MAP_VPTR(hawk_map_search(&sed->tmp.labs, c->u.branch.label.ptr, c->u.branch.label.len));
						}
						printf(",T%ld", index_of(sed, t, total));
						break;
					}
					case HAWK_SED_CMD_SUBSTITUTE:
						putchar(',');
						if (c->u.subst.rex == EMPTY_REX) putchar('_');
						else { int j, f = 0; for (j = nrex - 1; j >= 0; j--) if (rexes[j].tre == c->u.subst.rex) { put_str(rexes[j].src, rexes[j].len); f = 1; break; } if (!f) putchar('?'); }
						putchar(','); put_str (c->u.subst.rpl.ptr, c->u.subst.rpl.len);
						printf(",%d,%d,%d,%d,%u,", (int)c->u.subst.g, (int)c->u.subst.p, (int)c->u.subst.i, (int)c->u.subst.k, (unsigned)c->u.subst.occ);
						if (c->u.subst.file.ptr) put_str (c->u.subst.file.ptr, c->u.subst.file.len); else putchar('-');
						break;
					case HAWK_SED_CMD_TRANSLATE:
						putchar(','); put_str (c->u.transet.ptr, c->u.transet.len); break;
					default: break;
				}
			}
		putchar('\n');
		hawk_sed_close (sed);
	}
	fflush (stdout);
	return 0;
}
