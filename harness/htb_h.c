/* C16 (hash-table half) correspondence harness: drives the real hawk_htb_* (from the /repo
 * working tree, linked from the freshly built libhawk.a) with the line protocol of
 * lean/HawkModel/Drv/Htb.lean.
 *
 *   new CAPA FACTOR STYLE HASHER SIZER MODE
 *       STYLE  0..3   predefined style kind (DEFAULT, INLINE_COPIERS, INLINE_KEY_COPIER, INLINE_VALUE_COPIER)
 *       HASHER id | const | mul | dfl        (dfl = the style's own hawk_htb_dflhash)
 *       SIZER  - | plus2 | fix4              (- = the style's own HAWK_NULL)
 *       MODE   log | raw    log: a copy of the predefined style with logging freeer/keeper installed
 *                           raw: the predefined style object itself (needs HASHER dfl, SIZER -)
 *   insert|upsert|update|ensert K V ORC      ORC: allocator script, 's' succeed 'f' refuse, '-' none
 *   cbsert K V MODE ORC                      hawk_htb_cbsert with a callback: MODE add  = create (K,V) / replace the stored w by (w+V)%64
 *                                            in a pair it allocates itself (old pair destroyed), keep = create / return the existing
 *                                            pair untouched, fail = return HAWK_NULL
 *   delete K | search K | clear | iter | walk N   (walker says STOP at the N-th pair; 0 = never)
 *
 * Keys are ints (4 bytes, kscale 1, klen 4).  Value v is an int array of v%3+1 copies of v
 * (vscale 1, vlen 4*(v%3+1)), so updates hit both the same-length and the different-length
 * branch of change_pair_val.  After every op the full bucket array is dumped in chain order
 * together with size/capa/threshold, read from the struct (hawk-htb.h exposes it). */
#include <hawk-htb.h>
#include <stdio.h>
#include <stdlib.h>
#include <string.h>
#include <signal.h>
#include <unistd.h>
#include <stdint.h>

#define NK 4096
#define NV 4096
static int keytab[NK];
static int valtab[NV][3];

static const char* orc = "";
static void* m_alloc (hawk_mmgr_t* m, hawk_oow_t n) { if (*orc) { char c = *orc++; if (c == 'f') return NULL; } return malloc(n); }
static void* m_realloc (hawk_mmgr_t* m, void* p, hawk_oow_t n) { if (*orc) { char c = *orc++; if (c == 'f') return NULL; } return realloc(p, n); }
static void m_free (hawk_mmgr_t* m, void* p) { free(p); }
static hawk_mmgr_t mmgr = { m_alloc, m_realloc, m_free, NULL };

static char evbuf[1 << 20]; static size_t evlen;
static void ev (const char* k, long v) { evlen += snprintf(evbuf + evlen, sizeof(evbuf) - evlen, "%s%s%ld", evlen ? "," : "", k, v); if (evlen > sizeof(evbuf) - 64) evlen = sizeof(evbuf) - 64; }

/* decode a value buffer: all ints equal and length consistent, else -1 */
static long decval (const void* p, hawk_oow_t len)
{
	const int* q = (const int*)p; hawk_oow_t i, n = len / sizeof(int);
	if (!p || len % sizeof(int) || n < 1 || n > 3) return -1;
	for (i = 1; i < n; i++) if (q[i] != q[0]) return -1;
	if ((hawk_oow_t)(q[0] % 3 + 1) != n) return -1;
	return q[0];
}
static long deckey (const void* p, hawk_oow_t len) { return (p && len == sizeof(int)) ? *(const int*)p : -1; }

static void kfreeer (hawk_htb_t* h, void* p, hawk_oow_t l) { ev("FK", deckey(p, l)); }
static void vfreeer (hawk_htb_t* h, void* p, hawk_oow_t l) { ev("FV", decval(p, l)); }
static void keeper (hawk_htb_t* h, void* p, hawk_oow_t l) { ev("K", decval(p, l)); }

static hawk_oow_t h_id (const hawk_htb_t* h, const void* k, hawk_oow_t l) { return (hawk_oow_t)*(const int*)k; }
static hawk_oow_t h_const (const hawk_htb_t* h, const void* k, hawk_oow_t l) { return 7; }
static hawk_oow_t h_mul (const hawk_htb_t* h, const void* k, hawk_oow_t l) { return (hawk_oow_t)*(const int*)k * 7 + 3; }
static hawk_oow_t s_plus2 (hawk_htb_t* h, hawk_oow_t hint) { return hint + 2; }
static hawk_oow_t s_fix4 (hawk_htb_t* h, hawk_oow_t hint) { return 4; }

static hawk_htb_style_t style;

static void on_alarm (int sig) { printf("HANG\n"); fflush(stdout); _exit(3); }

static void dump (hawk_htb_t* t)
{
	hawk_oow_t i; int first = 1; hawk_htb_pair_t* p;
	printf("s=%lu c=%lu t=%lu [", (unsigned long)t->size, (unsigned long)t->capa, (unsigned long)t->threshold);
	for (i = 0; i < t->capa; i++)
	{
		if (!t->bucket[i]) continue;
		printf("%s%lu:", first ? "" : "|", (unsigned long)i); first = 0;
		for (p = t->bucket[i]; p; p = HAWK_HTB_NEXT(p))
			printf("%ld=%ld%s", deckey(HAWK_HTB_KPTR(p), HAWK_HTB_KLEN(p)), decval(HAWK_HTB_VPTR(p), HAWK_HTB_VLEN(p)), HAWK_HTB_NEXT(p) ? "," : "");
	}
	printf("]\n");
}

static const char* errname (hawk_gem_t* g)
{
	switch (g->errnum) { case HAWK_ENOMEM: return "ENOMEM"; case HAWK_ENOENT: return "ENOENT"; case HAWK_EEXIST: return "EEXIST"; case HAWK_ENOERR: return "ENOERR"; default: return "E?"; }
}

static void showpair (hawk_gem_t* g, hawk_htb_pair_t* p)
{
	if (p) printf("r=ok(%ld,%ld)", deckey(HAWK_HTB_KPTR(p), HAWK_HTB_KLEN(p)), decval(HAWK_HTB_VPTR(p), HAWK_HTB_VLEN(p)));
	else printf("r=%s", errname(g));
}

/* the hawk_htb_cbserter_t callback of the `cbsert` op (see the header comment of hawk_htb_cbsert in hawk-htb.h) */
struct cbctx { int mode; unsigned long v; int refused; };
static hawk_htb_pair_t* cbserter (hawk_htb_t* h, hawk_htb_pair_t* pair, void* kptr, hawk_oow_t klen, void* ctx)
{
	struct cbctx* c = (struct cbctx*)ctx; hawk_htb_pair_t* n; unsigned long nv;
	if (c->mode == 2) return HAWK_NULL;
	if (!pair) nv = c->v;
	else
	{
		long w;
		if (c->mode == 1) return pair;
		w = decval(HAWK_HTB_VPTR(pair), HAWK_HTB_VLEN(pair));
		nv = ((unsigned long)(w < 0 ? 0 : w) + c->v) % 64;
	}
	n = hawk_htb_allocpair(h, kptr, klen, valtab[nv], (nv % 3 + 1) * sizeof(int));
	if (!n) { c->refused = 1; return HAWK_NULL; }
	if (pair) hawk_htb_freepair(h, pair);   /* "this callback requires the old pair to be destroyed" */
	return n;
}

struct wctx { long n, stop; int first; };
static hawk_htb_walk_t walker (hawk_htb_t* t, hawk_htb_pair_t* p, void* c)
{
	struct wctx* w = (struct wctx*)c;
	printf("%s%ld=%ld", w->first ? "" : ",", deckey(HAWK_HTB_KPTR(p), HAWK_HTB_KLEN(p)), decval(HAWK_HTB_VPTR(p), HAWK_HTB_VLEN(p))); w->first = 0;
	w->n++;
	return (w->stop && w->n >= w->stop) ? HAWK_HTB_WALK_STOP : HAWK_HTB_WALK_FORWARD;
}

int main (int argc, char** argv)
{
	static hawk_gem_t gem; hawk_htb_t* t = NULL;
	char line[512], op[32], o[256], hs[32], ss[32], ms[32]; unsigned long x, y, z; int i, j;
	int wd = argc > 1 ? atoi(argv[1]) : 10;
	memset(&gem, 0, sizeof(gem)); gem.mmgr = &mmgr;
	for (i = 0; i < NK; i++) keytab[i] = i;
	for (i = 0; i < NV; i++) for (j = 0; j < 3; j++) valtab[i][j] = i;
	signal(SIGALRM, on_alarm);
	while (fgets(line, sizeof(line), stdin))
	{
		evlen = 0; evbuf[0] = 0; orc = ""; o[0] = 0;
		alarm(wd);
		gem.errnum = HAWK_ENOERR;
		if (sscanf(line, "%31s", op) != 1) { printf("bad-op\n"); continue; }
		if (!strcmp(op, "new") && sscanf(line, "%*s %lu %lu %lu %31s %31s %31s", &x, &y, &z, hs, ss, ms) == 6 && x >= 1 && y <= 100 && z <= 3)
		{
			const hawk_htb_style_t* ps = hawk_get_htb_style((hawk_htb_style_kind_t)z);
			if (t) hawk_htb_close(t);
			t = hawk_htb_open(&gem, 0, x, (int)y, 1, 1);
			if (!t) { printf("open-failed\n"); continue; }
			if (!strcmp(ms, "raw")) hawk_htb_setstyle(t, ps);
			else
			{
				style = *ps;
				style.freeer[HAWK_HTB_KEY] = kfreeer; style.freeer[HAWK_HTB_VAL] = vfreeer; style.keeper = keeper;
				if (!strcmp(hs, "id")) style.hasher = h_id; else if (!strcmp(hs, "const")) style.hasher = h_const; else if (!strcmp(hs, "mul")) style.hasher = h_mul;
				if (!strcmp(ss, "plus2")) style.sizer = s_plus2; else if (!strcmp(ss, "fix4")) style.sizer = s_fix4;
				hawk_htb_setstyle(t, &style);
			}
			if (hawk_htb_getstyle(t) != (strcmp(ms, "raw") ? (const hawk_htb_style_t*)&style : ps)) printf("style-mismatch ");
			printf("r=ok e= "); dump(t);
		}
		else if (!t) printf("bad-op\n");
		else if ((!strcmp(op, "insert") || !strcmp(op, "upsert") || !strcmp(op, "update") || !strcmp(op, "ensert")) && sscanf(line, "%*s %lu %lu %255s", &x, &y, o) == 3 && x < NK && y < NV)
		{
			hawk_htb_pair_t* p; hawk_oow_t vl = (y % 3 + 1) * sizeof(int);
			orc = (o[0] == '-') ? "" : o;
			if (op[0] == 'i') p = hawk_htb_insert(t, &keytab[x], sizeof(int), valtab[y], vl);
			else if (op[0] == 'e') p = hawk_htb_ensert(t, &keytab[x], sizeof(int), valtab[y], vl);
			else if (op[2] == 's') p = hawk_htb_upsert(t, &keytab[x], sizeof(int), valtab[y], vl);
			else p = hawk_htb_update(t, &keytab[x], sizeof(int), valtab[y], vl);
			orc = "";
			showpair(&gem, p); printf(" e=%s ", evbuf); dump(t);
		}
		else if (!strcmp(op, "cbsert") && sscanf(line, "%*s %lu %lu %31s %255s", &x, &y, ms, o) == 4 && x < NK && y < NV)
		{
			hawk_htb_pair_t* p; struct cbctx c;
			c.mode = !strcmp(ms, "keep") ? 1 : !strcmp(ms, "fail") ? 2 : 0; c.v = y; c.refused = 0;
			orc = (o[0] == '-') ? "" : o;
			p = hawk_htb_cbsert(t, &keytab[x], sizeof(int), cbserter, &c);
			orc = "";
			if (p) showpair(&gem, p); else printf("r=%s", c.refused ? "ENOMEM" : "ECB");
			printf(" e=%s ", evbuf); dump(t);
		}
		else if (!strcmp(op, "delete") && sscanf(line, "%*s %lu", &x) == 1 && x < NK)
		{
			int r = hawk_htb_delete(t, &keytab[x], sizeof(int));
			printf("r=%s e=%s ", r == 0 ? "ok" : errname(&gem), evbuf); dump(t);
		}
		else if (!strcmp(op, "search") && sscanf(line, "%*s %lu", &x) == 1 && x < NK)
		{
			hawk_htb_pair_t* p = hawk_htb_search(t, &keytab[x], sizeof(int));
			showpair(&gem, p); printf(" e=%s n=%lu c=%lu\n", evbuf, (unsigned long)hawk_htb_getsize(t), (unsigned long)hawk_htb_getcapa(t));
		}
		else if (!strcmp(op, "clear")) { hawk_htb_clear(t); printf("r=ok e=%s ", evbuf); dump(t); }
		else if (!strcmp(op, "iter"))
		{
			hawk_htb_itr_t it; hawk_htb_pair_t* p; unsigned long n = 0;
			hawk_init_htb_itr(&it);
			printf("it=");
			for (p = hawk_htb_getfirstpair(t, &it); p; p = hawk_htb_getnextpair(t, &it))
			{
				printf("%s%ld=%ld", n ? "," : "", deckey(HAWK_HTB_KPTR(p), HAWK_HTB_KLEN(p)), decval(HAWK_HTB_VPTR(p), HAWK_HTB_VLEN(p)));
				if (++n > 100000) { printf(",RUNAWAY"); break; }
			}
			printf(" n=%lu\n", n);
		}
		else if (!strcmp(op, "walk") && sscanf(line, "%*s %lu", &x) == 1)
		{
			struct wctx w; w.n = 0; w.stop = (long)x; w.first = 1;
			printf("w=");
			hawk_htb_walk(t, walker, &w);
			printf(" n=%ld\n", w.n);
		}
		else printf("bad-op\n");
		fflush(stdout);
	}
	alarm(0);
	if (t) hawk_htb_close(t);
	return 0;
}
