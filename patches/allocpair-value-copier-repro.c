#include <hawk-htb.h>
#include <hawk-rbt.h>
#include <stdio.h>
#include <stdlib.h>
#include <string.h>
static void* m_alloc (hawk_mmgr_t* m, hawk_oow_t n) { return malloc(n); }
static void* m_realloc (hawk_mmgr_t* m, void* p, hawk_oow_t n) { return realloc(p, n); }
static void m_free (hawk_mmgr_t* m, void* p) { free(p); }
static hawk_mmgr_t mmgr = { m_alloc, m_realloc, m_free, NULL };
static int fail_copy = 0;
static void* vdup_h (hawk_htb_t* h, void* p, hawk_oow_t l) { void* q; if (fail_copy) return NULL; q = malloc(l); memcpy(q, p, l); return q; }
static void vfree_h (hawk_htb_t* h, void* p, hawk_oow_t l) { free(p); }
static void* vdup_r (hawk_rbt_t* h, void* p, hawk_oow_t l) { void* q; if (fail_copy) return NULL; q = malloc(l); memcpy(q, p, l); return q; }
static void vfree_r (hawk_rbt_t* h, void* p, hawk_oow_t l) { free(p); }
int main ()
{
	static hawk_gem_t gem; gem.mmgr = &mmgr;
	{
		hawk_htb_style_t st = *hawk_get_htb_style(HAWK_HTB_STYLE_INLINE_KEY_COPIER);
		hawk_htb_t* t = hawk_htb_open(&gem, 0, 4, 75, 1, 1); hawk_htb_pair_t* p;
		st.copier[HAWK_HTB_VAL] = vdup_h; st.freeer[HAWK_HTB_VAL] = vfree_h;
		hawk_htb_setstyle(t, &st);
		gem.errnum = HAWK_ENOERR;
		p = hawk_htb_insert(t, "k1", 2, "hello", 6);
		printf("htb insert with working value copier: %s errnum=%d size=%lu\n", p ? "pair" : "NULL", (int)gem.errnum, (unsigned long)hawk_htb_getsize(t));
		fail_copy = 1;
		p = hawk_htb_insert(t, "k2", 2, "hello", 6);
		printf("htb insert with failing value copier: %s size=%lu vptr=%p\n", p ? "pair" : "NULL", (unsigned long)hawk_htb_getsize(t), p ? HAWK_HTB_VPTR(p) : 0);
		fail_copy = 0;
		hawk_htb_close(t);
	}
	{
		hawk_rbt_style_t st = *hawk_get_rbt_style(HAWK_RBT_STYLE_INLINE_KEY_COPIER);
		hawk_rbt_t* t = hawk_rbt_open(&gem, 0, 1, 1); hawk_rbt_pair_t* p;
		st.copier[HAWK_RBT_VAL] = vdup_r; st.freeer[HAWK_RBT_VAL] = vfree_r;
		hawk_rbt_setstyle(t, &st);
		gem.errnum = HAWK_ENOERR;
		p = hawk_rbt_insert(t, "k1", 2, "hello", 6);
		printf("rbt insert with working value copier: %s errnum=%d size=%lu\n", p ? "pair" : "NULL", (int)gem.errnum, (unsigned long)hawk_rbt_getsize(t));
		fail_copy = 1;
		p = hawk_rbt_insert(t, "k2", 2, "hello", 6);
		printf("rbt insert with failing value copier: %s size=%lu vptr=%p\n", p ? "pair" : "NULL", (unsigned long)hawk_rbt_getsize(t), p ? HAWK_RBT_VPTR(p) : 0);
		fail_copy = 0;
		hawk_rbt_close(t);
	}
	return 0;
}
