#!/usr/bin/env python3
"""C17 translator: operator tables of the hawk parser and deparser -> lean/HawkModel/Gen/Precedence.lean

Extracted from the *current* sources (fail closed: any table that cannot be located or does not have
the expected shape raises ExtractError and the check reports a correspondence problem):

  lib/parse.c   enum tok_t (token kinds, in order: parse_concat compares `tok.type >= TOK_GETLINE`)
                get_symbols(): the ops[] table of the symbol lexer (spelling -> token, in table order)
                assign_to_opcode(): TOK_*_ASSN -> HAWK_ASSOP_* (positional table + token range)
                the precedence ladder: parse_expr -> parse_expr_basic -> parse_logical_or -> ... -> parse_primary,
                found by following the calls; for every level that is `return parse_binary (hawk, xloc, skipnl, map, next)`
                the binmap_t array (token -> binop) and `next`; the other levels are named "custom" levels
                parse_unary()/parse_unary_exp(): token -> HAWK_UNROP_*;  parse_increment(): token -> HAWK_INCOP_*
                parse_concat(): the tokens that start a concatenation-by-blanks operand
  lib/run-prv.h enums hawk_binop_type_t, hawk_unrop_type_t, hawk_incop_type_t, hawk_assop_type_t (opcode order)
  lib/tree.c    binop_str[][2], unrop_str[], incop_str[], assop_str[] (operator spellings of the deparser)

`extract(repo)` returns the tables as a dict (used by the program generator of vlib/props/c17.py);
`render(tables)` is the Lean text; `main()` writes the file only if it changed.
"""
import os, re, sys


class ExtractError(Exception):
    pass


def _read(repo, rel):
    p = os.path.join(repo, rel)
    try:
        return open(p, encoding="utf-8", errors="replace").read()
    except OSError as e:
        raise ExtractError("cannot read %s: %s" % (p, e))


def _strip_comments(src):
    # remove /* */ and // comments outside string literals
    out, i, n = [], 0, len(src)
    while i < n:
        c = src[i]
        if c == '"' or c == "'":
            j = i + 1
            while j < n and src[j] != c:
                if src[j] == "\\":
                    j += 1
                j += 1
            out.append(src[i:j + 1]); i = j + 1
        elif src.startswith("/*", i):
            j = src.find("*/", i + 2)
            if j < 0:
                raise ExtractError("unterminated comment")
            out.append(" " * 1 + "\n" * src.count("\n", i, j)); i = j + 2
        elif src.startswith("//", i):
            j = src.find("\n", i)
            i = n if j < 0 else j
        else:
            out.append(c); i += 1
    return "".join(out)


def _func_body(src, name, what="static"):
    """text between the braces of the definition of function `name`"""
    m = re.search(r"^static[^\n;(]*\b%s\s*\([^;{]*\)\s*\{" % re.escape(name), src, re.M)
    if not m:
        raise ExtractError("definition of %s() not found" % name)
    i = m.end() - 1
    depth, j, n = 0, i, len(src)
    while j < n:
        c = src[j]
        if c == '"' or c == "'":
            k = j + 1
            while k < n and src[k] != c:
                if src[k] == "\\":
                    k += 1
                k += 1
            j = k + 1
            continue
        if c == "{":
            depth += 1
        elif c == "}":
            depth -= 1
            if depth == 0:
                return src[i + 1:j]
        j += 1
    raise ExtractError("unbalanced braces in %s()" % name)


def _enum(src, first, prefix):
    """identifiers of the enum whose first enumerator is `first` (no explicit values allowed)"""
    m = re.search(r"\{\s*(%s\b[^}]*)\}" % re.escape(first), src)
    if not m:
        raise ExtractError("enum starting with %s not found" % first)
    items = [x.strip() for x in m.group(1).split(",") if x.strip()]
    for it in items:
        if not re.fullmatch(r"[A-Za-z_]\w*", it):
            raise ExtractError("enumerator with explicit value or unexpected text in enum %s: %r" % (first, it))
        if not it.startswith(prefix):
            raise ExtractError("enumerator %s without prefix %s" % (it, prefix))
    return items


def _cstr(lit):
    """value of a C string literal body (between the quotes)"""
    out, i = [], 0
    while i < len(lit):
        c = lit[i]
        if c == "\\":
            i += 1
            if i >= len(lit):
                raise ExtractError("bad escape in %r" % lit)
            e = lit[i]
            m = {"\\": "\\", '"': '"', "'": "'", "n": "\n", "t": "\t", "0": "\0"}
            if e not in m:
                raise ExtractError("unsupported escape \\%s in %r" % (e, lit))
            out.append(m[e])
        else:
            out.append(c)
        i += 1
    return "".join(out)


STR_RE = r'HAWK_T\("((?:[^"\\]|\\.)*)"\)'


def _str_table(src, name, cols):
    m = re.search(r"static\s+const\s+hawk_ooch_t\*\s+%s\s*\[\]\s*(\[\s*%d\s*\])?\s*=\s*\{(.*?)\};" % (re.escape(name), cols if cols > 1 else 0),
                  src, re.S) if cols > 1 else \
        re.search(r"static\s+const\s+hawk_ooch_t\*\s+%s\s*\[\]\s*=\s*\{(.*?)\};" % re.escape(name), src, re.S)
    if not m:
        raise ExtractError("string table %s not found in tree.c" % name)
    body = m.group(m.lastindex)
    strs = [_cstr(x) for x in re.findall(STR_RE, body)]
    if cols > 1:
        if len(strs) % cols:
            raise ExtractError("table %s: %d strings is not a multiple of %d" % (name, len(strs), cols))
        return [tuple(strs[i:i + cols]) for i in range(0, len(strs), cols)]
    return strs


def _binmap(body, fn):
    m = re.search(r"static\s+binmap_t\s+(\w+)\s*\[\]\s*=\s*\{(.*?)\};", body, re.S)
    if not m:
        raise ExtractError("%s(): binmap_t table not found" % fn)
    ents = re.findall(r"\{\s*(TOK_\w+)\s*,\s*(\w+)\s*\}", m.group(2))
    if not ents or ents[-1][0] != "TOK_EOF":
        raise ExtractError("%s(): binmap_t table does not end with TOK_EOF" % fn)
    return m.group(1), [(t, o) for t, o in ents[:-1]]


def _unary_map(body, fn):
    m = re.search(r"opcode\s*=\s*((?:\(MATCH\(hawk,\s*TOK_\w+\)\)\s*\?\s*HAWK_UNROP_\w+\s*:\s*)+)-1\s*;", body)
    if not m:
        raise ExtractError("%s(): unary operator selection not found" % fn)
    return re.findall(r"MATCH\(hawk,\s*(TOK_\w+)\)\)\s*\?\s*(HAWK_UNROP_\w+)", m.group(1))


def extract(repo):
    parse_c = _strip_comments(_read(repo, "lib/parse.c"))
    tree_c = _strip_comments(_read(repo, "lib/tree.c"))
    run_h = _strip_comments(_read(repo, "lib/run-prv.h"))
    T = {}
    # --- token kinds
    m = re.search(r"enum\s+tok_t\s*\{(.*?)\}\s*;", parse_c, re.S)
    if not m:
        raise ExtractError("enum tok_t not found")
    toks = [x.strip() for x in m.group(1).split(",") if x.strip()]
    if toks[-1] != "__TOKEN_COUNT__":
        raise ExtractError("enum tok_t does not end with __TOKEN_COUNT__")
    toks = toks[:-1]
    for t in toks:
        if not re.fullmatch(r"TOK_\w+", t):
            raise ExtractError("unexpected enumerator in tok_t: %r" % t)
    T["toks"] = toks
    # --- opcodes
    T["binops"] = _enum(run_h, "HAWK_BINOP_LOR", "HAWK_BINOP_")
    T["unrops"] = _enum(run_h, "HAWK_UNROP_PLUS", "HAWK_UNROP_")
    T["incops"] = _enum(run_h, "HAWK_INCOP_PLUS", "HAWK_INCOP_")
    T["assops"] = _enum(run_h, "HAWK_ASSOP_NONE", "HAWK_ASSOP_")
    # --- spellings
    bs = _str_table(tree_c, "binop_str", 2)
    if len(bs) != len(T["binops"]):
        raise ExtractError("binop_str has %d rows for %d binops" % (len(bs), len(T["binops"])))
    T["binop_str"] = bs
    T["unrop_str"] = _str_table(tree_c, "unrop_str", 1)
    T["incop_str"] = _str_table(tree_c, "incop_str", 1)
    T["assop_str"] = _str_table(tree_c, "assop_str", 1)
    if len(T["unrop_str"]) != len(T["unrops"]):
        raise ExtractError("unrop_str size mismatch")
    if len(T["incop_str"]) < len(T["incops"]):
        raise ExtractError("incop_str size mismatch")
    if len(T["assop_str"]) != len(T["assops"]):
        raise ExtractError("assop_str size mismatch")
    # how print_expr selects the binop_str column
    pe = _func_body(tree_c, "print_expr")
    if not re.search(r"binop_str\[px->opcode\]\[\(hawk->opt\.trait\s*&\s*HAWK_BLANKCONCAT\)\s*\?\s*0\s*:\s*1\]", pe):
        raise ExtractError("print_expr no longer selects binop_str[opcode][BLANKCONCAT? 0: 1]")
    # --- symbol lexer
    gs = _func_body(parse_c, "get_symbols")
    m = re.search(r"static\s+struct\s+ops_t\s+ops\s*\[\]\s*=\s*\{(.*?)\}\s*;", gs, re.S)
    if not m:
        raise ExtractError("get_symbols(): ops[] not found")
    ops = re.findall(r"\{\s*" + STR_RE + r"\s*,\s*(\d+)\s*,\s*(TOK_\w+)\s*,\s*(\w+)\s*\}", m.group(1))
    if len(ops) < 40 or "HAWK_NULL" not in m.group(1):
        raise ExtractError("get_symbols(): ops[] has unexpected shape")
    T["symbols"] = []
    for s, ln, tk, trait in ops:
        s = _cstr(s)
        if len(s) != int(ln):
            raise ExtractError("get_symbols(): length %s of %r is wrong" % (ln, s))
        if trait != "0":
            raise ExtractError("get_symbols(): trait-dependent symbol %r not supported by the model" % s)
        T["symbols"].append((s, tk))
    # --- assignment tokens
    ao = _func_body(parse_c, "assign_to_opcode")
    m = re.search(r"static\s+int\s+assop\s*\[\]\s*=\s*\{(.*?)\}\s*;", ao, re.S)
    if not m:
        raise ExtractError("assign_to_opcode(): assop[] not found")
    aops = [x.strip() for x in m.group(1).split(",") if x.strip()]
    m = re.search(r"tok\.type\s*>=\s*(TOK_\w+)\s*&&\s*hawk->tok\.type\s*<=\s*(TOK_\w+)", ao)
    if not m or "assop[hawk->tok.type - %s]" % m.group(1) not in ao:
        raise ExtractError("assign_to_opcode(): token range not found")
    lo, hi = toks.index(m.group(1)), toks.index(m.group(2))
    if hi - lo + 1 != len(aops):
        raise ExtractError("assign_to_opcode(): %d tokens for %d opcodes" % (hi - lo + 1, len(aops)))
    T["assign"] = list(zip(toks[lo:hi + 1], aops))
    # --- the ladder
    ladder = []
    seen = set()
    fn = "parse_expr"
    CUSTOM_NEXT = {
        # custom level -> regex that must match in its body and yields the next level
        "parse_expr": r"x\s*=\s*(parse_\w+)\s*\(hawk,\s*xloc\)",
        "parse_expr_basic": r"nde\s*=\s*(parse_\w+)\s*\(hawk,\s*xloc\)",
        "parse_in": r"left\s*=\s*(parse_\w+)\s*\(hawk,\s*xloc\)",
        "parse_concat": r"left\s*=\s*(parse_\w+)\s*\(hawk,\s*xloc\)",
        "parse_unary": r"if\s*\(opcode\s*<=\s*-1\)\s*return\s+(parse_\w+)\s*\(hawk,\s*xloc\)",
        "parse_unary_exp": r"if\s*\(opcode\s*<=\s*-1\)\s*return\s+(parse_\w+)\s*\(hawk,\s*xloc\)",
        "parse_increment": r"left\s*=\s*(parse_\w+)\s*\(hawk,\s*&ploc\)",
    }
    while True:
        if fn in seen:
            raise ExtractError("ladder loops at %s" % fn)
        seen.add(fn)
        body = _func_body(parse_c, fn)
        m = re.search(r"return\s+parse_binary\s*\(\s*hawk\s*,\s*xloc\s*,\s*(\d)\s*,\s*(\w+)\s*,\s*(parse_\w+)\s*\)\s*;", body)
        if m:
            mapname, ents = _binmap(body, fn)
            if mapname != m.group(2):
                raise ExtractError("%s(): parse_binary is not given its own table" % fn)
            ladder.append(dict(fn=fn, kind="binary", skipnl=m.group(1) != "0", map=ents, next=m.group(3)))
            fn = m.group(3)
            continue
        if fn == "parse_primary":
            ladder.append(dict(fn=fn, kind="custom", next=None))
            break
        if fn not in CUSTOM_NEXT:
            raise ExtractError("unknown ladder level %s() (neither parse_binary nor a known custom level)" % fn)
        m = re.search(CUSTOM_NEXT[fn], body)
        if not m:
            raise ExtractError("%s(): call of the next level not found" % fn)
        ladder.append(dict(fn=fn, kind="custom", next=m.group(1)))
        fn = m.group(1)
    T["ladder"] = ladder
    # parse_binary itself: `left = next(); loop { op; right = <operand level>(); left = fold or node }`.
    # The right operand is the next level (left-associative loop) unless the opcode is one of those for which
    # parse_binary recurses into the operator's own level through a *_withdc wrapper (right-associative):
    #   right = (opcode == HAWK_BINOP_X)? parse_Y_withdc(hawk, &rloc): next_level_func(hawk, &rloc);
    pb = _func_body(parse_c, "parse_binary")
    if not re.search(r"left\s*=\s*next_level_func\s*\(hawk,\s*xloc\)", pb) or \
       not re.search(r"do\s*\{.*while\s*\(1\)\s*;", pb, re.S):
        raise ExtractError("parse_binary() is no longer `left = next(); loop { op; right = ...; left = node }`")
    rights = re.findall(r"\bright\s*=(?!=)\s*([^;]*);", pb)
    rights = [r.strip() for r in rights if r.strip() != "HAWK_NULL"]
    if len(rights) != 1:
        raise ExtractError("parse_binary(): expected exactly one assignment of the right operand, found %r" % rights)
    rexpr = re.sub(r"\s+", " ", rights[0])
    recurse = {}   # opcode -> level function the right operand is parsed with
    if re.fullmatch(r"next_level_func ?\(hawk, ?&rloc\)", rexpr):
        pass
    else:
        m = re.fullmatch(r"((?:\(opcode == HAWK_BINOP_\w+\) ?\? ?parse_\w+_withdc ?\(hawk, ?&rloc\) ?: ?)+)next_level_func ?\(hawk, ?&rloc\)", rexpr)
        if not m:
            raise ExtractError("parse_binary(): right operand `%s` is neither next_level_func() nor a per-opcode selection of *_withdc()" % rexpr)
        for opc, wfn in re.findall(r"\(opcode == (HAWK_BINOP_\w+)\) ?\? ?(parse_\w+_withdc)", m.group(1)):
            wb = _func_body(parse_c, wfn)
            mm = re.search(r"hawk->parse\.depth\.expr\+\+;\s*nde\s*=\s*(parse_\w+)\s*\(hawk,\s*xloc\);\s*hawk->parse\.depth\.expr--;\s*return\s+nde;", wb)
            if not mm or "HAWK_EEXPRNST" not in wb or mm.group(1) + "_withdc" != wfn:
                raise ExtractError("%s(): not `depth check; depth.expr++; nde = %s(hawk, xloc); depth.expr--; return nde`" % (wfn, wfn[:-7]))
            if opc in recurse:
                raise ExtractError("parse_binary(): opcode %s selected twice" % opc)
            recurse[opc] = mm.group(1)
    # a per-level flag is exact only if the recursing opcode belongs to exactly the level it recurses into
    # and that level has no other opcode
    for lv in ladder:
        lv["rassoc"] = False
    for opc, fnm in recurse.items():
        owners = [lv for lv in ladder if lv["kind"] == "binary" and any(o == opc for t, o in lv["map"])]
        if len(owners) != 1 or owners[0]["fn"] != fnm:
            raise ExtractError("parse_binary(): %s recurses into %s() but is mapped by %s" % (opc, fnm, [l["fn"] for l in owners]))
        if any(o != opc for t, o in owners[0]["map"]):
            raise ExtractError("%s(): level mixes the right-associative %s with other operators (not supported by the model)" % (fnm, opc))
        owners[0]["rassoc"] = True
    T["assoc"] = {lv["fn"]: ("right" if lv["rassoc"] else "left") for lv in ladder if lv["kind"] == "binary"}
    # custom levels: the tokens they react to
    body = _func_body(parse_c, "parse_in")
    if not re.search(r"if\s*\(!MATCH\(hawk,\s*TOK_IN\)\)\s*break;", body) or "HAWK_BINOP_IN" not in body or \
       not re.search(r"right\s*=\s*parse_regex_match\s*\(hawk,\s*&rloc\)", body):
        raise ExtractError("parse_in(): unexpected shape")
    body = _func_body(parse_c, "parse_concat")
    m = re.search(r"if\s*\(MATCH\(hawk,\s*(TOK_\w+)\)\)\s*\{\s*if\s*\(get_token\(hawk\)", body)
    if not m:
        raise ExtractError("parse_concat(): explicit operator token not found")
    T["concat_tok"] = m.group(1)
    m = re.search(r"else\s+if\s*\(hawk->opt\.trait\s*&\s*HAWK_BLANKCONCAT\)\s*\{\s*if\s*\((.*?)\)\s*\{\s*\}\s*else\s+break;", body, re.S)
    if not m:
        raise ExtractError("parse_concat(): concatenation-by-blanks condition not found")
    cond = m.group(1)
    mm = re.search(r"hawk->tok\.type\s*>=\s*(TOK_\w+)\s*$", cond.strip())
    if not mm:
        raise ExtractError("parse_concat(): `tok.type >= TOK_x` clause not found")
    T["concat_min"] = mm.group(1)
    tol = re.search(r"\(\(hawk->opt\.trait\s*&\s*HAWK_TOLERANT\)\s*&&\s*\((.*?)\)\)", cond, re.S)
    T["concat_tolerant"] = re.findall(r"tok\.type\s*==\s*(TOK_\w+)", tol.group(1)) if tol else []
    rest = cond if not tol else cond.replace(tol.group(0), "")
    T["concat_starters"] = re.findall(r"MATCH\(hawk,\s*(TOK_\w+)\)", rest)
    if not T["concat_starters"]:
        raise ExtractError("parse_concat(): no starter tokens found")
    if "right = parse_additive" not in re.sub(r"\s+", " ", body):
        raise ExtractError("parse_concat(): right operand is not parse_additive")
    T["unary"] = _unary_map(_func_body(parse_c, "parse_unary"), "parse_unary")
    T["unary_exp"] = _unary_map(_func_body(parse_c, "parse_unary_exp"), "parse_unary_exp")
    ub = _func_body(parse_c, "parse_unary")
    if not re.search(r"left\s*=\s*parse_unary\s*\(hawk,\s*&uloc\)", ub):
        raise ExtractError("parse_unary(): operand is not parse_unary")
    ub = _func_body(parse_c, "parse_unary_exp")
    m = re.search(r"left\s*=\s*(parse_\w+)\s*\(hawk,\s*&uloc\)", ub)
    if not m:
        raise ExtractError("parse_unary_exp(): operand call not found")
    T["unary_exp_operand"] = m.group(1)
    ib = _func_body(parse_c, "parse_increment")
    m1 = re.search(r"opcode1\s*=\s*MATCH\(hawk,\s*(TOK_\w+)\)\s*\?\s*(HAWK_INCOP_\w+)\s*:\s*MATCH\(hawk,\s*(TOK_\w+)\)\s*\?\s*(HAWK_INCOP_\w+)\s*:\s*-1;", ib)
    m2 = re.search(r"opcode2\s*=\s*MATCH\(hawk,\s*(TOK_\w+)\)\s*\?\s*(HAWK_INCOP_\w+)\s*:\s*MATCH\(hawk,\s*(TOK_\w+)\)\s*\?\s*(HAWK_INCOP_\w+)\s*:\s*-1;", ib)
    if not m1 or not m2 or m1.groups() != m2.groups():
        raise ExtractError("parse_increment(): prefix/postfix operator selection not found")
    T["inc"] = [(m1.group(1), m1.group(2)), (m1.group(3), m1.group(4))]
    # sanity: every referenced name exists
    for lv in ladder:
        for t, o in lv.get("map", []):
            if t not in toks or o not in T["binops"]:
                raise ExtractError("%s(): unknown token/opcode %s/%s" % (lv["fn"], t, o))
    for t, o in T["unary"] + T["unary_exp"]:
        if t not in toks or o not in T["unrops"]:
            raise ExtractError("unknown unary token/opcode %s/%s" % (t, o))
    for t in T["concat_starters"] + T["concat_tolerant"] + [T["concat_min"], T["concat_tok"]]:
        if t not in toks:
            raise ExtractError("unknown token %s in parse_concat()" % t)
    for s, t in T["symbols"]:
        if t not in toks:
            raise ExtractError("unknown token %s in get_symbols()" % t)
    return T


# ----------------------------------------------------------------------------
KNOWN_CUSTOM = {"parse_expr": "assLv", "parse_expr_basic": "cndLv", "parse_in": "inLv", "parse_concat": "concatLv",
                "parse_unary": "unaryLv", "parse_unary_exp": "unaryExpLv", "parse_increment": "incLv",
                "parse_primary": "primLv"}


def _lstr(s):
    out = []
    for c in s:
        if c == "\\":
            out.append("\\\\")
        elif c == '"':
            out.append('\\"')
        elif c == "\n":
            out.append("\\n")
        elif c == "\t":
            out.append("\\t")
        elif ord(c) < 32:
            raise ExtractError("control character in table string")
        else:
            out.append(c)
    return '"' + "".join(out) + '"'


def _id(name, prefix):
    """Lean constructor name of a C enumerator (upper-case names do not clash with Lean keywords)"""
    if not name.startswith(prefix) or not re.fullmatch(r"[A-Z][A-Z0-9_]*", name[len(prefix):]):
        raise ExtractError("enumerator %s cannot be turned into a constructor name" % name)
    return name[len(prefix):]


def render(T):
    L = []
    A = L.append
    A("/-! GENERATED by extract/precedence.py from lib/parse.c, lib/run-prv.h and lib/tree.c — do not edit.")
    A("Operator tables of the hawk parser (token kinds, symbol lexer, precedence ladder) and of the deparser")
    A("(operator spellings).  Regenerated on every `./check C17`; written only when the content changes. -/")
    A("namespace Hawk.Gen.Precedence")
    A("")
    A("/-- `enum tok_t` of parse.c, in order -/")
    A("inductive TK where")
    for t in T["toks"]:
        A("  | %s" % _id(t, "TOK_"))
    A("  deriving DecidableEq, Repr, Inhabited")
    A("")
    A("/-- position in `enum tok_t` (parse_concat compares token kinds with `>=`) -/")
    A("def TK.ord : TK → Nat")
    for i, t in enumerate(T["toks"]):
        A("  | .%s => %d" % (_id(t, "TOK_"), i))
    A("")
    for nm, key, pre, doc in (("BinOp", "binops", "HAWK_BINOP_", "hawk_binop_type_t"), ("UnrOp", "unrops", "HAWK_UNROP_", "hawk_unrop_type_t"),
                              ("IncOp", "incops", "HAWK_INCOP_", "hawk_incop_type_t"), ("AssOp", "assops", "HAWK_ASSOP_", "hawk_assop_type_t")):
        A("/-- `enum %s` of run-prv.h, in order -/" % doc)
        A("inductive %s where" % nm)
        for o in T[key]:
            A("  | %s" % _id(o, pre))
        A("  deriving DecidableEq, Repr, Inhabited")
        A("")
    A("/-- tree.c `binop_str[op][0]` (used when HAWK_BLANKCONCAT is on) -/")
    A("def binopStrBlank : BinOp → String")
    for o, (s0, s1) in zip(T["binops"], T["binop_str"]):
        A("  | .%s => %s" % (_id(o, "HAWK_BINOP_"), _lstr(s0)))
    A("")
    A("/-- tree.c `binop_str[op][1]` (used when HAWK_BLANKCONCAT is off) -/")
    A("def binopStrNoBlank : BinOp → String")
    for o, (s0, s1) in zip(T["binops"], T["binop_str"]):
        A("  | .%s => %s" % (_id(o, "HAWK_BINOP_"), _lstr(s1)))
    A("")
    A("def unropStr : UnrOp → String")
    for o, s in zip(T["unrops"], T["unrop_str"]):
        A("  | .%s => %s" % (_id(o, "HAWK_UNROP_"), _lstr(s)))
    A("")
    A("def incopStr : IncOp → String")
    for o, s in zip(T["incops"], T["incop_str"]):
        A("  | .%s => %s" % (_id(o, "HAWK_INCOP_"), _lstr(s)))
    A("")
    A("def assopStr : AssOp → String")
    for o, s in zip(T["assops"], T["assop_str"]):
        A("  | .%s => %s" % (_id(o, "HAWK_ASSOP_"), _lstr(s)))
    A("")
    A("/-- parse.c get_symbols(): `ops[]` in table order (the lexer walks it front to back) -/")
    A("def symTable : List (String × TK) := [")
    A(",\n".join("  (%s, .%s)" % (_lstr(s), _id(t, "TOK_")) for s, t in T["symbols"]))
    A("]")
    A("")
    A("/-- parse.c assign_to_opcode() -/")
    A("def assignToks : List (TK × AssOp) := [" + ", ".join("(.%s, .%s)" % (_id(t, "TOK_"), _id(o, "HAWK_ASSOP_")) for t, o in T["assign"]) + "]")
    A("")
    A("/-- parse_unary(): prefix operators that fold constants -/")
    A("def unaryToks : List (TK × UnrOp) := [" + ", ".join("(.%s, .%s)" % (_id(t, "TOK_"), _id(o, "HAWK_UNROP_")) for t, o in T["unary"]) + "]")
    A("/-- parse_unary_exp(): prefix operators right of the exponent operator (no folding) -/")
    A("def unaryExpToks : List (TK × UnrOp) := [" + ", ".join("(.%s, .%s)" % (_id(t, "TOK_"), _id(o, "HAWK_UNROP_")) for t, o in T["unary_exp"]) + "]")
    A("/-- parse_increment(): prefix and postfix operators -/")
    A("def incToks : List (TK × IncOp) := [" + ", ".join("(.%s, .%s)" % (_id(t, "TOK_"), _id(o, "HAWK_INCOP_")) for t, o in T["inc"]) + "]")
    A("")
    A("/-- parse_concat(): the explicit operator, the tokens that start an operand of a concatenation by blanks,")
    A("    the extra ones under HAWK_TOLERANT, and the threshold of `tok.type >= TOK_x` -/")
    A("def concatTok : TK := .%s" % _id(T["concat_tok"], "TOK_"))
    A("def concatStarters : List TK := [" + ", ".join(".%s" % _id(t, "TOK_") for t in T["concat_starters"]) + "]")
    A("def concatTolerantStarters : List TK := [" + ", ".join(".%s" % _id(t, "TOK_") for t in T["concat_tolerant"]) + "]")
    A("def concatMin : TK := .%s" % _id(T["concat_min"], "TOK_"))
    A("")
    A("/-- one level of the precedence ladder: either `parse_binary` with its `binmap_t` table (a loop whose right operand is")
    A("    parsed by the next level: left-associative, or - `rassoc` - by the level itself through its *_withdc wrapper:")
    A("    right-associative) or one of the hand-written levels -/")
    A("inductive Level where")
    A("  | binary (fn : String) (skipnl : Bool) (rassoc : Bool) (map : List (TK × BinOp))")
    for c in KNOWN_CUSTOM.values():
        A("  | %s" % c)
    A("  deriving DecidableEq, Repr")
    A("")
    A("/-- the ladder in call order: parse_expr first (loosest), parse_primary last -/")
    A("def ladder : List Level := [")
    rows = []
    for lv in T["ladder"]:
        if lv["kind"] == "binary":
            rows.append("  .binary %s %s %s [%s]" % (_lstr(lv["fn"]), "true" if lv["skipnl"] else "false", "true" if lv["rassoc"] else "false",
                                                 ", ".join("(.%s, .%s)" % (_id(t, "TOK_"), _id(o, "HAWK_BINOP_")) for t, o in lv["map"])))
        else:
            if lv["fn"] not in KNOWN_CUSTOM:
                raise ExtractError("custom ladder level %s() is not known to the model" % lv["fn"])
            rows.append("  .%s" % KNOWN_CUSTOM[lv["fn"]])
    A(",\n".join(rows))
    A("]")
    A("")
    A("/-- the level parse_unary_exp() parses its operand with -/")
    if T["unary_exp_operand"] not in KNOWN_CUSTOM:
        raise ExtractError("parse_unary_exp(): operand level %s unknown" % T["unary_exp_operand"])
    A("def unaryExpOperand : Level := .%s" % KNOWN_CUSTOM[T["unary_exp_operand"]])
    A("")
    A("end Hawk.Gen.Precedence")
    return "\n".join(L) + "\n"


def main(repo=None, out=None):
    here = os.path.dirname(os.path.dirname(os.path.abspath(__file__)))
    repo = repo or os.environ.get("HAWK_REPO", "/repo")
    out = out or os.path.join(here, "lean", "HawkModel", "Gen", "Precedence.lean")
    txt = render(extract(repo))
    old = open(out).read() if os.path.exists(out) else None
    if old != txt:
        os.makedirs(os.path.dirname(out), exist_ok=True)
        with open(out, "w") as f:
            f.write(txt)
        return True
    return False


if __name__ == "__main__":
    try:
        ch = main(*sys.argv[1:3])
        print("Precedence.lean %s" % ("written" if ch else "unchanged"))
    except ExtractError as e:
        print("EXTRACT ERROR: %s" % e, file=sys.stderr)
        sys.exit(1)
