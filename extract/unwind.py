#!/usr/bin/env python3
"""extract/unwind.py — translate hawk's constructor functions into unwind tables (C10).

For every function listed in TARGETS the body is taken from the *working tree* (after
`gcc -E -fdirectives-only`, i.e. conditionals resolved, macros NOT expanded, comments stripped),
parsed into a statement tree and translated into

    ops    : acq r (onFail L | deferred) / check [r..] L / guard L / soft
    labels : per failure target the complete ordered release list (fall-through expanded;
             an inline cleanup block `{ free(x); return NULL; }` becomes an anonymous label)

and written to lean/HawkModel/Gen/Unwind.lean (only if changed).  The translator FAILS CLOSED:
any statement, call or condition it cannot classify raises ExtractError naming file:function and
the offending text.  What it trusts (printed into the generated file and the evidence):
  * ALLOC   — functions that are one allocator request and return NULL on refusal
  * RELEASE — functions that release the object passed to them
  * INERT   — functions that neither allocate-and-keep nor release a tracked resource
  * LEAF    — non-extracted constructors with a known request count, OPAQUE — unknown count
usage: unwind.py [--repo DIR] [--out FILE] [--dump]
"""
import os, re, subprocess, sys, json

CDEFS = ["-DHAVE_CONFIG_H", "-DHAWK_HAVE_CFG_H", "-DHAWK_ENABLE_STATIC_MODULE", "-DHAWK_BUILD_DEBUG", "-DHAWK_VERIF", "-fshort-wchar"]


class ExtractError(Exception):
    pass


# (table name, source file, regex matching the function name in its definition)
TARGETS = [
    ("ecs_init", "ecs.c", r"FN\s*\(\s*init\s*\)"),
    ("ecs_open", "ecs.c", r"FN\s*\(\s*open\s*\)"),
    ("hawk_htb_init", "htb.c", r"hawk_htb_init"),
    ("hawk_htb_open", "htb.c", r"hawk_htb_open"),
    ("hawk_arr_open", "arr.c", r"hawk_arr_open"),
    ("hawk_rbt_open", "rbt.c", r"hawk_rbt_open"),
    ("init_token", "hawk.c", r"init_token"),
    ("hawk_init", "hawk.c", r"hawk_init"),
    ("hawk_open", "hawk.c", r"hawk_open"),
    ("init_rtx", "run.c", r"init_rtx"),
    ("hawk_rtx_open", "run.c", r"hawk_rtx_open"),
    ("hawk_openstdwithmmgr", "std.c", r"hawk_openstdwithmmgr"),
    # object = block + initialiser (the initialiser itself is not extracted: OPAQUE_ACQ)
    ("hawk_xma_open", "xma.c", r"hawk_xma_open"),
    ("hawk_tio_open", "tio.c", r"hawk_tio_open"),
    ("hawk_fio_open", "fio.c", r"hawk_fio_open"),
    ("hawk_sio_open", "sio.c", r"hawk_sio_open"),
    ("hawk_pio_open", "pio.c", r"hawk_pio_open"),
    ("hawk_dir_init", "dir.c", r"hawk_dir_init"),
    ("hawk_dir_open", "dir.c", r"hawk_dir_open"),
    ("hawk_mtx_open", "mtx.c", r"hawk_mtx_open"),
    # open_rtx_std (std.c) is deliberately not a table: it hands resources over to the rtx through an
    # ecb (fini_rxtn), an ownership transfer this table language cannot express.  The fault-injection
    # harness covers it (it is where the double free of the console file arrays was found).
]

# call name -> table name (template instances and aliases)
def canon_callee(fn):
    fn = re.sub(r"\s+", "", fn)
    m = re.match(r"hawk_(?:oo|b|u)ecs_(init|open|fini|close)$", fn)
    if m:
        return "ecs_" + m.group(1)
    m = re.match(r"FN\((\w+)\)$", fn)
    if m:
        return "ecs_" + m.group(1)
    return fn


ALLOC = {"hawk_allocmem", "hawk_callocmem", "hawk_rtx_allocmem", "hawk_rtx_callocmem", "hawk_gem_allocmem",
         "hawk_gem_callocmem", "HAWK_MMGR_ALLOC"}
RELEASE = {"hawk_freemem", "hawk_rtx_freemem", "hawk_gem_freemem", "HAWK_MMGR_FREE",
           "hawk_htb_close", "hawk_arr_close", "hawk_rbt_close", "hawk_htb_fini", "hawk_arr_fini", "hawk_rbt_fini",
           "ecs_fini", "ecs_close", "hawk_close", "hawk_rtx_close", "fini_rtx", "fini_token", "close_dir_safely"}
# not extracted, known request count when called as the constructors here call them (checked by the ctor probe)
LEAF = {"hawk_arr_init": 1, "hawk_rbt_init": 0}
# not extracted, unknown request count; `acquires` False: everything they allocate is owned by an already held object
OPAQUE = {"read_ahead_and_sort", "hawk_initgbls", "add_globals", "add_functions", "init_globals", "make_additional_globals",
          "hawk_rtx_setofilenamewithoochars", "hawk_rtx_setofilenamewithuchars", "hawk_rtx_setofilenamewithbchars"}
# not extracted, unknown request count, and they DO acquire: the object they initialise is a resource of the caller
OPAQUE_ACQ = {"hawk_xma_init", "hawk_tio_init", "hawk_fio_init", "hawk_sio_init", "hawk_sio_initstd", "hawk_pio_init",
              "hawk_mtx_init", "reset_to_path"}
# destructor -> constructor where the names do not follow init/fini, open/close
PAIRS = {"close_dir_safely": "reset_to_path"}
SOFT = {"hawk_stdmodstartup"}
INERT = {"HAWK_MEMSET", "HAWK_MEMCPY", "HAWK_ASSERT", "HAWK_SIZEOF", "HAWK_COUNTOF", "HAWK_ALIGN_POW2", "HAWK_T", "CLRERR",
         "hawk_seterrnum", "hawk_rtx_seterrnum", "hawk_geterrnum", "hawk_rtx_errortohawk", "hawk_getgem", "hawk_rtx_getgem",
         "hawk_htb_setstyle", "hawk_arr_setstyle", "hawk_rbt_setstyle", "hawk_arr_setscale", "hawk_get_htb_style",
         "hawk_get_arr_style", "hawk_get_rbt_style", "hawk_htb_getxtn", "hawk_htb_getsize", "HAWK_RBT_SIZE", "hawk_rbt_walk",
         "hawk_pushecb", "hawk_rtx_pushecb", "reset_log_to_default", "GET_XTN", "GET_RXTN", "hawk_get_cmgr_by_id",
         "hawk_count_oocstr", "HAWK_TYPE_MAX", "HAWK_LIKELY", "HAWK_UNLIKELY"}


# ---------------------------------------------------------------------------- source access
def preprocess(repo, fname):
    path = os.path.join(repo, "lib", fname)
    cmd = ["gcc", "-E", "-fdirectives-only"] + CDEFS + ["-I" + os.path.join(repo, "lib"), "-I" + os.path.join(repo, "mod"), path]
    p = subprocess.run(cmd, stdout=subprocess.PIPE, stderr=subprocess.PIPE)
    if p.returncode != 0:
        raise ExtractError("gcc -E failed on %s: %s" % (fname, p.stderr.decode(errors="replace")[-400:]))
    return p.stdout.decode(errors="replace")


def strip_comments(src):
    out = []
    i, n = 0, len(src)
    while i < n:
        if src.startswith("/*", i):
            j = src.find("*/", i + 2)
            j = n if j < 0 else j + 2
            out.append(" " + "\n" * src.count("\n", i, j))
            i = j
        elif src.startswith("//", i):
            j = src.find("\n", i)
            i = n if j < 0 else j
        elif src[i] in "\"'":
            q = src[i]; j = i + 1
            while j < n and src[j] != q:
                if src[j] == "\\":
                    j += 1
                j += 1
            out.append(src[i:j + 1]); i = j + 1
        else:
            out.append(src[i]); i += 1
    return "".join(out)


def function_body(src, name_re, fname):
    """text between the braces of the definition whose declarator matches name_re"""
    pat = re.compile(r"^[A-Za-z_][\w\s\*]*?\b(?:%s)\s*\(" % name_re, re.M)
    for m in pat.finditer(src):
        # find the end of the parameter list
        i = src.index("(", m.end() - 1)
        depth = 0
        while True:
            if src[i] == "(":
                depth += 1
            elif src[i] == ")":
                depth -= 1
                if depth == 0:
                    break
            i += 1
        j = i + 1
        while j < len(src) and src[j] in " \t\r\n":
            j += 1
        if j < len(src) and src[j] == "{":
            depth = 0
            k = j
            while True:
                c = src[k]
                if c == "{":
                    depth += 1
                elif c == "}":
                    depth -= 1
                    if depth == 0:
                        return src[j + 1:k]
                elif c in "\"'":
                    q = c; k += 1
                    while src[k] != q:
                        if src[k] == "\\":
                            k += 1
                        k += 1
                k += 1
    raise ExtractError("%s: definition matching /%s/ not found" % (fname, name_re))


TOK = re.compile(r"\s*(?:(#[^\n]*)|([A-Za-z_]\w*)|(\d[\w\.]*)|(\"(?:\\.|[^\"\\])*\")|('(?:\\.|[^'\\])*')|(->|<=|>=|==|!=|&&|\|\||\+\+|--|<<|>>|[-+*/%&|^~!<>=?:;,.(){}\[\]]))")


def tokenize(text, where):
    toks = []
    i = 0
    while i < len(text):
        m = TOK.match(text, i)
        if not m:
            if text[i:].strip() == "":
                break
            raise ExtractError("%s: cannot tokenize near %r" % (where, text[i:i + 40]))
        i = m.end()
        if m.group(1):
            continue  # line markers / leftover directives
        toks.append(m.group(m.lastindex))
    return toks


# ---------------------------------------------------------------------------- statement tree
class P:
    def __init__(self, toks, where):
        self.t = toks; self.i = 0; self.where = where

    def peek(self, k=0):
        return self.t[self.i + k] if self.i + k < len(self.t) else None

    def take(self):
        x = self.t[self.i]; self.i += 1
        return x

    def paren(self):
        assert self.take() == "("
        depth = 1; out = []
        while depth:
            x = self.take()
            if x == "(":
                depth += 1
            elif x == ")":
                depth -= 1
                if depth == 0:
                    break
            out.append(x)
        return out

    def stmt(self):
        x = self.peek()
        if x == "{":
            self.take()
            body = []
            while self.peek() != "}":
                body.append(self.stmt())
            self.take()
            return ("block", body)
        if x == "if":
            self.take()
            cond = self.paren()
            th = self.stmt()
            el = None
            if self.peek() == "else":
                self.take(); el = self.stmt()
            return ("if", cond, th, el)
        if x in ("for", "while"):
            self.take()
            hdr = self.paren()
            body = self.stmt()
            return ("loop", x, hdr, body)
        if x == "do":
            self.take()
            body = self.stmt()
            assert self.take() == "while"
            hdr = self.paren()
            assert self.take() == ";"
            return ("loop", "do", hdr, body)
        if x == "switch":
            raise ExtractError("%s: switch statement not supported" % self.where)
        if re.match(r"[A-Za-z_]\w*$", x or "") and self.peek(1) == ":" and x not in ("default", "case"):
            self.take(); self.take()
            return ("label", x)
        # simple statement up to ';' at depth 0 (initializer braces allowed)
        out = []; d = 0
        while True:
            y = self.take()
            if y in "({[":
                d += 1
            elif y in ")}]":
                d -= 1
            elif y == ";" and d == 0:
                break
            out.append(y)
        return ("simple", out)


def parse_body(text, where):
    p = P(tokenize(text, where), where)
    out = []
    while p.peek() is not None:
        out.append(p.stmt())
    return out


def join(toks):
    s = ""
    for t in toks:
        if s and re.match(r"\w", s[-1]) and re.match(r"\w", t[0]):
            s += " "
        s += t
    return s


# ---------------------------------------------------------------------------- expression helpers
def strip_wrappers(toks):
    """remove HAWK_LIKELY/HAWK_UNLIKELY( ... ) and redundant outer parentheses"""
    t = list(toks)
    changed = True
    while changed:
        changed = False
        if len(t) >= 3 and t[0] in ("HAWK_LIKELY", "HAWK_UNLIKELY") and t[1] == "(" and matching(t, 1) == len(t) - 1:
            t = t[2:-1]; changed = True
        elif len(t) >= 2 and t[0] == "(" and matching(t, 0) == len(t) - 1:
            t = t[1:-1]; changed = True
    return t


def matching(t, i):
    d = 0
    for j in range(i, len(t)):
        if t[j] == "(":
            d += 1
        elif t[j] == ")":
            d -= 1
            if d == 0:
                return j
    return -1


def split_top(t, sep):
    parts = []; cur = []; d = 0
    for x in t:
        if x in "([":
            d += 1
        elif x in ")]":
            d -= 1
        if x == sep and d == 0:
            parts.append(cur); cur = []
        else:
            cur.append(x)
    parts.append(cur)
    return parts


def strip_casts(t):
    """drop leading casts like (hawk_rtx_t*) and (void*)"""
    t = strip_wrappers(t)
    while len(t) >= 3 and t[0] == "(":
        j = matching(t, 0)
        inner = t[1:j]
        if j < len(t) - 1 and inner and all(re.match(r"[A-Za-z_]\w*$|\*$", x) for x in inner) and inner[-1] == "*":
            t = strip_wrappers(t[j + 1:])
        else:
            break
    return t


def as_call(t):
    """(function text, [arg token lists]) if the expression is exactly one call, else None"""
    t = strip_casts(t)
    if not t:
        return None
    # function designator: identifier or FN ( name )
    if len(t) >= 5 and t[0] == "FN" and t[1] == "(" and t[3] == ")" and t[4] == "(" and matching(t, 4) == len(t) - 1:
        return ("FN(%s)" % t[2], split_top(t[5:-1], ",") if len(t) > 6 else [])
    if re.match(r"[A-Za-z_]\w*$", t[0]) and len(t) >= 3 and t[1] == "(" and matching(t, 1) == len(t) - 1:
        return (t[0], split_top(t[2:-1], ",") if len(t) > 3 else [])
    return None


def calls_in(t):
    """names of everything that looks like a call in a token list"""
    out = []
    for i, x in enumerate(t):
        if re.match(r"[A-Za-z_]\w*$", x) and i + 1 < len(t) and t[i + 1] == "(" and x not in ("if", "while", "for", "sizeof", "return"):
            if x == "FN" and i + 3 < len(t) and t[i + 3] == ")":
                out.append("FN(%s)" % t[i + 2])
            else:
                out.append(x)
    return out


def lvalue(t):
    t = strip_casts(t)
    if t and t[0] == "&":
        t = t[1:]
    return join(t)


def is_lvalue_text(s):
    return re.match(r"[A-Za-z_]\w*((->|\.)[A-Za-z_]\w*|\[[^\]]*\])*$", s) is not None


# ---------------------------------------------------------------------------- translation
class Tr:
    def __init__(self, name, fname, known_tables):
        self.name = name; self.fname = fname
        self.where = "%s:%s" % (fname, name)
        self.known = known_tables
        self.res = []          # resource names
        self.ops = []          # ("acq", r, lbl|None) ("check", [r], lbl) ("guard", lbl) ("soft",)
        self.callees = []      # parallel to ops
        self.labels = []       # list of (key, [("always"|"ifset", resname)])  -- resolved later
        self.named_labels = {} # C label -> index into self.labels
        self.pending_named = {}  # C label name -> label index (filled lazily)
        self.anon = []
        self.trusted = set()
        self.helpers = {}      # filled by caller: local helper release kinds
        self.zeroed = False    # HAWK_MEMSET(obj, 0, ...) seen before the first step
        self.take_cond = True  # which side of `if (C) { acquire } else inert` this table describes
        self.nconds = 0

    def err(self, msg, toks=None):
        raise ExtractError("%s: %s%s" % (self.where, msg, (" — `%s`" % join(toks)[:160]) if toks is not None else ""))

    def rid(self, name, create=False):
        if name in self.res:
            return self.res.index(name)
        if not create:
            return None
        self.res.append(name)
        return len(self.res) - 1

    # -- labels
    def label_ref(self, cname):
        if cname not in self.named_labels:
            self.named_labels[cname] = len(self.labels)
            self.labels.append(("named", cname, None))
        return self.named_labels[cname]

    def anon_label(self, rels, then_goto=None):
        self.labels.append(("anon", rels, then_goto))
        return len(self.labels) - 1

    # -- classification of calls
    def callee_kind(self, fn):
        c = canon_callee(fn)
        if c in ALLOC:
            self.trusted.add("ALLOC:" + c); return ("prim", c)
        if c in self.known:
            return ("call", c)
        if c in LEAF:
            self.trusted.add("LEAF:%s=%d" % (c, LEAF[c])); return ("leaf", c)
        if c in OPAQUE:
            self.trusted.add("OPAQUE:" + c); return ("opaque", c)
        if c in OPAQUE_ACQ:
            self.trusted.add("OPAQUE_ACQ:" + c); return ("opaqueacq", c)
        if c in SOFT:
            self.trusted.add("SOFT:" + c); return ("soft", c)
        return None

    def inert_tokens(self, t):
        """a token list is inert if every call in it is in INERT"""
        for c in calls_in(t):
            if canon_callee(c) not in INERT:
                return False
            self.trusted.add("INERT:" + canon_callee(c))
        return True

    def inert_stmt(self, s):
        k = s[0]
        if k == "simple":
            t = s[1]
            if t and t[0] in ("goto", "return"):
                return False
            return self.inert_tokens(t)
        if k == "block":
            return all(self.inert_stmt(x) for x in s[1])
        if k == "if":
            return self.inert_tokens(s[1]) and self.inert_stmt(s[2]) and (s[3] is None or self.inert_stmt(s[3]))
        if k == "loop":
            return self.inert_tokens(s[2]) and self.inert_stmt(s[3])
        return False

    # -- releases
    def release_of(self, s):
        """[(kind, resname)] for a release statement, [] for an inert one, None if neither"""
        if s[0] == "simple":
            c = as_call(s[1])
            if c:
                fn = canon_callee(c[0])
                if fn in RELEASE or fn in self.helpers:
                    self.trusted.add("RELEASE:" + fn)
                    objs = [lvalue(a) for a in c[1]]
                    objs = [o for o in objs if is_lvalue_text(o)]
                    # the released object is the last lvalue argument that names a resource (or could)
                    target = None
                    pair = PAIRS.get(fn) or re.sub(r"fini", "init", re.sub(r"close", "open", fn))
                    for o in reversed(objs):
                        for cand in (o + "." + pair, o):
                            if cand in self.res:
                                target = cand; break
                        if target:
                            break
                    if target is None:
                        # a release of something this function never acquired: keep it, the check will reject it
                        cands = [o for o in objs if "->" in o or "." in o] or objs
                        if not cands:
                            self.err("release call without an object argument", s[1])
                        target = cands[-1]
                        self.rid(target, create=True)
                    kind = self.helpers.get(fn, "always")
                    return [(kind, target)]
            if self.inert_stmt(s):
                return []
            return None
        if s[0] == "if" and s[3] is None:
            cond = strip_wrappers(s[1])
            obj = lvalue(cond)
            if is_lvalue_text(obj):
                body = s[2][1] if s[2][0] == "block" else [s[2]]
                rels = []
                for b in body:
                    r = self.release_of(b)
                    if r is None:
                        return None
                    rels += r
                if rels and all(rn == obj or rn.startswith(obj + ".") for _, rn in rels):
                    return [("ifset", rn) for _, rn in rels]
                if not rels and self.inert_stmt(s):
                    return []
                return None
            if self.inert_stmt(s):
                return []
            return None
        if s[0] == "block":
            out = []
            for b in s[1]:
                r = self.release_of(b)
                if r is None:
                    return None
                out += r
            return out
        if self.inert_stmt(s):
            return []
        return None

    # -- failure branch -> label index
    def failure_target(self, s, nullable=None):
        """s: the statement executed on failure.  Returns a label index."""
        body = s[1] if s[0] == "block" else [s]
        if not body:
            self.err("empty failure branch")
        last = body[-1]
        rels = []
        for b in body[:-1]:
            r = self.release_of(b)
            if r is None:
                self.err("statement in a failure branch is neither a release nor inert", b[1] if b[0] == "simple" else None)
            rels += r
        if last[0] == "simple" and last[1] and last[1][0] == "goto":
            tgt = self.label_ref(last[1][1])
            if not rels:
                return tgt
            return self.anon_label(rels, tgt)
        if last[0] == "simple" and last[1] and last[1][0] == "return":
            if not self.inert_tokens(last[1]):
                self.err("return expression in a failure branch calls something", last[1])
            return self.anon_label(rels)
        if nullable is not None and last[0] == "simple" and join(last[1]) in (nullable + "=HAWK_NULL", nullable + "=NULL"):
            return self.anon_label(rels)
        self.err("failure branch does not end in goto/return", last[1] if last[0] == "simple" else None)

    # -- acquisitions
    def add_acq(self, resname, lbl, callee):
        if resname in self.res and any(o[0] == "acq" and o[1] == self.res.index(resname) for o in self.ops):
            self.err("resource %s acquired twice" % resname)
        r = self.rid(resname, create=True)
        self.ops.append(("acq", r, lbl)); self.callees.append(callee)
        return r

    def call_resource(self, fn, args):
        """resource name for an acquisition made by calling fn(args) with no assignment"""
        objs = [lvalue(a) for a in args]
        fields = [o for o in objs if is_lvalue_text(o) and ("->" in o or "." in o) and any(a and a[0] == "&" for a in args if lvalue(a) == o)]
        if fields:
            return fields[0]
        bare = [o for o in objs if re.match(r"[A-Za-z_]\w*$", o)]
        if bare:
            return bare[0] + "." + canon_callee(fn)
        self.err("cannot name the object of %s" % fn)

    def cond_terms(self, cond):
        return [strip_wrappers(x) for x in split_top(strip_wrappers(cond), "||")]

    def translate(self, stmts):
        i = 0
        pending = None   # (lhs text, callee) of an assignment-acquisition waiting for its test
        deferred = []    # resource ids stored without test
        n = len(stmts)
        main_done = False
        label_sections = []
        while i < n:
            s = stmts[i]; i += 1
            if main_done:
                label_sections.append(s)
                continue
            k = s[0]
            if k == "label":
                self.err("label %s before the end of the main path" % s[1])
            if k == "simple":
                t = s[1]
                if not t:
                    continue
                if t[0] == "return":
                    if pending:
                        pass
                    if not self.inert_tokens(t[1:]):
                        # `return (f(x) == NULL)? -1: 0;` style tail calls are not supported
                        self.err("return expression calls something", t)
                    main_done = True
                    continue
                if t[0] == "goto":
                    self.err("unconditional goto on the main path", t)
                # declaration with or without initializer / plain assignment / call
                if "=" in t and t.index("=") > 0 and t[t.index("=") - 1] not in ("=", "!", "<", ">"):
                    eq = t.index("=")
                    lhs, rhs = t[:eq], t[eq + 1:]
                    c = as_call(rhs)
                    ck = self.callee_kind(c[0]) if c else None
                    if ck and ck[0] in ("prim", "call", "leaf", "opaque", "opaqueacq"):
                        if pending:
                            # the previous acquisition was never tested: it is a deferred one
                            r = self.add_acq(pending[0], None, pending[1]); deferred.append(r)
                        # drop the declared type of `T* x = f()` forms
                        lhs_txt = lvalue(lhs[-1:] if len(lhs) > 1 and re.match(r"[A-Za-z_]\w*$", lhs[-1]) and "->" not in lhs and "." not in lhs else lhs)
                        pending = (lhs_txt, ck, c)
                        continue
                    if not self.inert_tokens(rhs):
                        self.err("assignment from a call that is neither an allocator, a known constructor nor inert", t)
                    continue
                c = as_call(t)
                if c:
                    ck = self.callee_kind(c[0])
                    if ck and ck[0] == "soft":
                        self.ops.append(("soft",)); self.callees.append(ck); continue
                    if ck:
                        self.err("result of %s is ignored" % c[0], t)
                    if canon_callee(c[0]) in RELEASE:
                        self.err("release on the main path", t)
                if self.inert_tokens(t):
                    if c and c[0] == "HAWK_MEMSET" and len(c[1]) == 3 and join(c[1][1]) == "0" and not self.ops and not pending:
                        self.zeroed = True
                    continue
                self.err("unclassified statement", t)
            if k == "loop":
                if self.inert_stmt(s):
                    continue
                self.err("loop with allocation/release inside", s[2])
            if k == "block":
                # flatten
                stmts = stmts[:i] + s[1] + stmts[i:]
                n = len(stmts)
                continue
            if k == "if":
                cond, th, el = s[1], s[2], s[3]
                terms = self.cond_terms(cond)
                # (1) test of the pending acquisition
                if pending:
                    lhs = pending[0]
                    ctext = join(strip_wrappers(cond))
                    neg = ctext in ("!" + lhs, lhs + "==HAWK_NULL", lhs + "==NULL")
                    negint = ctext == lhs + "<=-1"
                    pos = ctext == lhs
                    if neg or negint:
                        if el is not None and not self.inert_stmt(el):
                            self.err("else branch after a failure test is not inert", cond)
                        lbl = self.failure_target(th, getattr(self, "nullable", None))
                        # an int status names no object: the resource is the object the callee initialises
                        rname = self.call_resource(pending[2][0], pending[2][1]) if negint else lhs
                        self.add_acq(rname, lbl, pending[1]); pending = None
                        continue
                    if pos:
                        # if (x) { continuation } [else inert]  ... return x;
                        if el is not None and not self.inert_stmt(el):
                            self.err("else branch of a positive test is not inert", cond)
                        lbl = self.anon_label([])
                        self.add_acq(lhs, lbl, pending[1]); pending = None
                        self.nullable = lhs
                        body = th[1] if th[0] == "block" else [th]
                        stmts = stmts[:i] + body + stmts[i:]
                        n = len(stmts)
                        continue
                    # `xret = f(); if (xret <= -1) {...} else inert`
                    if ctext == lhs + "<=-1":
                        pass
                    # not a test of the pending one: it becomes deferred
                    r = self.add_acq(lhs, None, pending[1]); deferred.append(r); pending = None
                # (2) deferred null tests
                if deferred and all(re.match(r".+==(HAWK_NULL|NULL)$|^!.+", join(x)) for x in terms):
                    names = []
                    for x in terms:
                        tx = join(x)
                        nm = tx[1:] if tx.startswith("!") else re.sub(r"==(HAWK_NULL|NULL)$", "", tx)
                        names.append(nm)
                    rs = []
                    for nm in names:
                        r = self.rid(nm)
                        if r is None or r not in deferred:
                            self.err("null test of %s which is not a deferred acquisition" % nm, cond)
                        rs.append(r)
                    lbl = self.failure_target(th)
                    self.ops.append(("check", rs, lbl)); self.callees.append(("none", ""))
                    deferred = [d for d in deferred if d not in rs]
                    continue
                # (3) f(..) <= -1 [|| g(..) <= -1 ...]
                calls = []
                ok = True
                for x in terms:
                    if len(x) >= 3 and x[-2:] == ["<=", "-1"] or (len(x) >= 4 and x[-3:] == ["<=", "-", "1"]):
                        body_t = x[:-2] if x[-2:] == ["<=", "-1"] else x[:-3]
                        c = as_call(body_t)
                        if c and self.callee_kind(c[0]):
                            calls.append((c, self.callee_kind(c[0]))); continue
                    elif len(x) >= 3 and x[-2] == "==" and x[-1] in ("HAWK_NULL", "NULL"):
                        c = as_call(x[:-2])
                        if c and self.callee_kind(c[0]):
                            calls.append((c, self.callee_kind(c[0]))); continue
                    ok = False; break
                if ok and calls and not any(ck[0] == "soft" for _, ck in calls):
                    if el is not None and not self.inert_stmt(el):
                        self.err("else branch after a failure test is not inert", cond)
                    nullable = getattr(self, "nullable", None)
                    lbl = self.failure_target(th, nullable)
                    for (c, ck) in calls:
                        if ck[0] == "soft":
                            self.err("tolerated function used in a failure test", cond)
                        if ck[0] == "opaque":
                            self.ops.append(("guard", lbl)); self.callees.append(ck)
                        else:
                            self.add_acq(self.call_resource(c[0], c[1]), lbl, ck)
                    continue
                # (3b) soft: if (f() <= -1) { inert } else { inert }
                if len(terms) == 1:
                    x = terms[0]
                    if len(x) >= 4 and x[-3:] == ["<=", "-", "1"]:
                        c = as_call(x[:-3])
                        if c and canon_callee(c[0]) in SOFT and self.inert_stmt(th) and (el is None or self.inert_stmt(el)):
                            self.trusted.add("SOFT:" + canon_callee(c[0]))
                            self.ops.append(("soft",)); self.callees.append(("soft", canon_callee(c[0]))); continue
                # (4) conditional acquisition: if (C) { acquire... } else inert   |   if (C) inert else { acquire ... }
                if self.inert_tokens(cond):
                    th_in = self.inert_stmt(th); el_in = el is None or self.inert_stmt(el)
                    if th_in and el_in:
                        continue
                    # non-allocation failure exit: if (C) { inert...; goto L / return }
                    thb = th[1] if th[0] == "block" else [th]
                    if el is None and thb and thb[-1][0] == "simple" and thb[-1][1] and thb[-1][1][0] in ("goto", "return") \
                       and not any(self.callee_kind(c) for c in calls_in([y for b in thb if b[0] == "simple" for y in b[1]])):
                        lbl = self.failure_target(th)
                        self.ops.append(("guard", lbl)); self.callees.append(("none", "")); continue
                    taken = None
                    if not th_in and el_in:
                        taken = th
                    elif th_in and not el_in:
                        taken = el
                    if taken is not None:
                        # a table describes one run: with the acquiring branch taken, or (variant `__skip`) not taken
                        self.nconds += 1
                        side = " (else branch)" if taken is el else ""
                        if self.take_cond:
                            self.assumed = getattr(self, "assumed", []) + ["taken: " + join(cond)[:80] + side]
                            body = taken[1] if taken[0] == "block" else [taken]
                            stmts = stmts[:i] + body + stmts[i:]
                            n = len(stmts)
                        else:
                            self.assumed = getattr(self, "assumed", []) + ["not taken: " + join(cond)[:80] + side]
                        continue
                self.err("unclassified if statement", cond)
            self.err("unclassified statement kind %s" % k)
        if pending:
            self.err("acquisition of %s is never tested" % pending[0])
        if deferred:
            self.err("deferred acquisitions never tested: %s" % [self.res[d] for d in deferred])
        # label sections: label, releases..., label, ..., return
        cur = None
        sect = {}
        order = []
        for s in label_sections:
            if s[0] == "label":
                cur = s[1]; sect[cur] = []; order.append(cur); continue
            if cur is None:
                # statements after the main return but before any label: unreachable
                self.err("statement after the final return outside any label", s[1] if s[0] == "simple" else None)
            if s[0] == "simple" and s[1] and s[1][0] == "return":
                sect[cur].append(("return",)); continue
            r = self.release_of(s)
            if r is None:
                self.err("statement under label %s is neither a release nor inert" % cur, s[1] if s[0] == "simple" else None)
            sect[cur] += r
        def expand(cname):
            if cname not in sect:
                self.err("goto to unknown label %s" % cname)
            out = []
            idx = order.index(cname)
            for c in order[idx:]:
                for x in sect[c]:
                    if x == ("return",):
                        return out
                    out.append(x)
            self.err("label %s falls off the end of the function" % cname)
        final = []
        for lab in self.labels:
            if lab[0] == "named":
                final.append(expand(lab[1]))
            else:
                rels = list(lab[1])
                if lab[2] is not None:
                    rels += expand(self.labels[lab[2]][1])
                final.append(rels)
        for c in sect:
            if c not in self.named_labels and self.take_cond:
                self.err("label %s is never the target of a goto" % c)
        self.final_labels = []
        for rels in final:
            out = []
            for kind, rn in rels:
                out.append((kind, self.rid(rn, create=True)))
            self.final_labels.append(out)
        # `if (x) release(x)` reached before x was ever assigned is only meaningful on zeroed memory
        acq_at = {o[1]: j for j, o in enumerate(self.ops) if o[0] == "acq"}
        for j, o in enumerate(self.ops):
            lbl = o[2] if o[0] in ("acq", "check") else o[1] if o[0] == "guard" else None
            if lbl is None:
                continue
            for kind, r in self.final_labels[lbl]:
                if kind == "ifset" and acq_at.get(r, -1) > j and not self.zeroed:
                    self.err("label tests %s before it is assigned and the object is not zero-filled first" % self.res[r])


def helper_kinds(src, fname):
    """local helper destructors: 'ifset' if the whole body is `if (x) { release(x); x = NULL; }`"""
    out = {}
    for name in ("fini_token",):
        try:
            body = function_body(src, name, fname)
        except ExtractError:
            continue
        st = parse_body(body, "%s:%s" % (fname, name))
        if len(st) == 1 and st[0][0] == "if" and st[0][3] is None:
            tr = Tr(name, fname, {})
            obj = lvalue(strip_wrappers(st[0][1]))
            tr.rid(obj, create=True)
            r = tr.release_of(st[0])
            if r and all(k == "ifset" for k, _ in r):
                out[name] = "ifset"; continue
        raise ExtractError("%s:%s: helper destructor has an unexpected shape" % (fname, name))
    return out


def extract(repo):
    srcs = {}
    tables = []
    known = {}
    for name, fname, rx in TARGETS:
        if fname not in srcs:
            srcs[fname] = strip_comments(preprocess(repo, fname))
        body = function_body(srcs[fname], rx, fname)
        tr = Tr(name, fname, known)
        tr.helpers = helper_kinds(srcs[fname], fname) if fname == "hawk.c" else {}
        tr.translate(parse_body(body, tr.where))
        tables.append(tr)
        known[name] = tr
        if tr.nconds:
            tr2 = Tr(name + "__skip", fname, known)
            tr2.helpers = tr.helpers
            tr2.take_cond = False
            tr2.translate(parse_body(body, tr2.where))
            tables.append(tr2)
    return tables


# ---------------------------------------------------------------------------- Lean output
def lean_str(s):
    return '"' + s.replace("\\", "\\\\").replace('"', '\\"') + '"'


def lean_ident(s):
    return re.sub(r"\W", "_", s)


def emit(tables):
    L = []
    L.append("/- GENERATED by extract/unwind.py from the constructor functions of the working tree — do not edit. -/")
    L.append("import HawkModel.Oom")
    L.append("namespace Hawk.Oom.Gen")
    L.append("open Hawk.Oom")
    L.append("")
    trusted = sorted({t for tr in tables for t in tr.trusted})
    L.append("/-- what the translator trusts about functions it does not look into -/")
    L.append("def trusted : List String := [" + ", ".join(lean_str(t) for t in trusted) + "]")
    L.append("")
    for tr in tables:
        idn = lean_ident(tr.name)
        L.append("/-- %s (%s)%s" % (tr.name, tr.fname, ("; branch assumptions: " + "; ".join(getattr(tr, "assumed", []))) if getattr(tr, "assumed", None) else ""))
        for i, r in enumerate(tr.res):
            L.append("    r%d = %s" % (i, r))
        L.append("-/")
        L.append("def %s : Ctor where" % idn)
        L.append("  name := %s" % lean_str(tr.name))
        L.append("  file := %s" % lean_str(tr.fname))
        ops = []
        for o in tr.ops:
            if o[0] == "acq":
                ops.append(".acq %d %s" % (o[1], "none" if o[2] is None else "(some %d)" % o[2]))
            elif o[0] == "check":
                ops.append(".check [%s] %d" % (", ".join(str(x) for x in o[1]), o[2]))
            elif o[0] == "guard":
                ops.append(".guard %d" % o[1])
            else:
                ops.append(".soft")
        labs = []
        for rels in tr.final_labels:
            labs.append("[" + ", ".join(".%s %d" % ("always" if k == "always" else "ifSet", r) for k, r in rels) + "]")
        L.append("  table := { ops := [%s],\n             labels := [%s] }" % (", ".join(ops), ", ".join(labs)))
        cs = []
        for c in tr.callees:
            if c[0] == "prim":
                cs.append(".prim")
            elif c[0] == "call":
                cs.append(".call %s" % lean_str(c[1]))
            elif c[0] == "leaf":
                cs.append(".leaf %s %d" % (lean_str(c[1]), LEAF[c[1]]))
            elif c[0] in ("opaque", "soft", "opaqueacq"):
                cs.append(".opaque %s" % lean_str(c[1]))
            else:
                cs.append(".none")
        L.append("  callees := [%s]" % ", ".join(cs))
        L.append("  resNames := [%s]" % ", ".join(lean_str(r) for r in tr.res))
        L.append("")
    L.append("/-- every generated constructor, callees before callers -/")
    L.append("def all : List Ctor := [%s]" % ", ".join(lean_ident(tr.name) for tr in tables))
    L.append("")
    L.append("end Hawk.Oom.Gen")
    return "\n".join(L) + "\n"


def summary(tables):
    out = []
    for tr in tables:
        out.append(dict(name=tr.name, file=tr.fname, steps=len(tr.ops), resources=len(tr.res), labels=len(tr.final_labels),
                        ops=[list(o) for o in tr.ops], res=tr.res, assumed=getattr(tr, "assumed", []),
                        labels_rel=[[list(x) for x in r] for r in tr.final_labels]))
    return out


def main():
    repo = os.environ.get("HAWK_REPO", "/repo")
    here = os.path.dirname(os.path.dirname(os.path.abspath(__file__)))
    out = os.path.join(here, "lean", "HawkModel", "Gen", "Unwind.lean")
    dump = False
    a = sys.argv[1:]
    while a:
        if a[0] == "--repo":
            repo = a[1]; a = a[2:]
        elif a[0] == "--out":
            out = a[1]; a = a[2:]
        elif a[0] == "--dump":
            dump = True; a = a[1:]
        else:
            a = a[1:]
    try:
        tables = extract(repo)
    except ExtractError as e:
        print("EXTRACT-ERROR: %s" % e)
        return 1
    text = emit(tables)
    old = open(out).read() if os.path.exists(out) else None
    if old != text:
        os.makedirs(os.path.dirname(out), exist_ok=True)
        with open(out, "w") as f:
            f.write(text)
    if dump:
        print(json.dumps(summary(tables), indent=1))
    else:
        for tr in tables:
            print("%-24s %-8s steps=%d resources=%d labels=%d" % (tr.name, tr.fname, len(tr.ops), len(tr.res), len(tr.final_labels)))
    return 0


if __name__ == "__main__":
    sys.exit(main())
