#!/usr/bin/env python3
"""C01 translator: every `switch` whose case labels are enumerators (value types, node types, opcodes, ...).

A switch over an enum that neither has a `default:` nor names every enumerator silently does nothing for the value it
forgot; the code after it then uses whatever the missing arm was meant to set up (an unset result pointer, an
uninitialised length).  One row per switch statement in the anchored files whose labels are enumerators:
  file, fn, line, subject (canonical text of the controlling expression; VT(x) = HAWK_RTX_GETVALTYPE), enum,
  nEnum    number of distinct VALUES of the enum (aliases count once),
  nCovered number of distinct enum values among the case labels,
  missing  number of distinct enum values without a label (= nEnum - nCovered),
  plain    number of labels that are plain integers (the subject is then an int that also carries other codes),
  hasDefault,
  dflt     class of the default arm: error  (sets an error number / returns a failure / jumps to an error label),
                                     assert (only an assertion),
                                     value  (computes something and goes on),
                                     empty  (`default: break;` or nothing),
                                     none.
  after    for a switch without default: the class (as above) of the statements that follow it in its block
           (`switch (t) { ...all arms return... }  seterrnum(EINVAL); return -1;` is a default in disguise).
Switches with integer / character labels are counted but not listed.  A switch mixing enumerators of different enums
(or enumerators and plain integers) raises (fail closed).
Output: lean/HawkModel/Gen/SwitchSites.lean; `switch_total` (Props/C01.lean) demands nCovered = nEnum or hasDefault.
"""
import os, re, sys
from concurrent.futures import ProcessPoolExecutor
HERE = os.path.dirname(os.path.abspath(__file__))
sys.path.insert(0, HERE)
import c01_clang as A  # noqa: E402
from c01_clang import kids, strip, unparse, Unknown, C  # noqa: E402
import c01_paths as P  # noqa: E402

FILES = ["run.c", "val.c", "fnc.c", "tree.c", "parse.c", "misc.c", "mod-str.c", "mod-hawk.c", "rec.c", "rio.c"]
ERRCALL = re.compile(r"(seterr|SETERR|seterrnum|seterrfmt|seterrbfmt|ADJERR)")


def enums_of(ast):
    """EnumConstantDecl id -> (enum key, value); enum key -> set of values"""
    cid, vals, names = {}, {}, {}

    def w(n):
        if n.get("kind") == "EnumDecl":
            key = n.get("name") or ("anon@%s" % n.get("id"))
            cur = -1
            for c in kids(n):
                if c.get("kind") != "EnumConstantDecl":
                    continue
                v = None
                exprs = [e for e in kids(c) if not e.get("kind", "").endswith("Comment")]
                for e in exprs:
                    def fv(x):
                        nonlocal v
                        if v is None and x.get("kind") == "ConstantExpr" and "value" in x:
                            v = int(x["value"])
                        for y in kids(x):
                            if v is None:
                                fv(y)
                    fv(e)
                    if v is None:
                        raise Unknown("enumerator %s: value expression not folded by clang" % c.get("name"))
                cur = v if v is not None else cur + 1
                cid[c["id"]] = (key, cur)
                vals.setdefault(key, set()).add(cur)
                names.setdefault(key, []).append(c.get("name"))
            return
        for c in kids(n):
            if c.get("kind") in ("EnumDecl", "TypedefDecl", "RecordDecl", "FunctionDecl") or "Stmt" in c.get("kind", ""):
                w(c)
    for n in ast.get("inner", []):
        w(n)
    return cid, vals, names


def typedef_names(ast):
    """anonymous enum id -> typedef name (typedef enum {...} hawk_x_t)"""
    out = {}
    prev = None
    for n in ast.get("inner", []):
        if n.get("kind") == "TypedefDecl" and prev is not None and prev.get("kind") == "EnumDecl":
            t = n.get("type", {}).get("qualType", "")
            if "enum" in t:
                out["anon@%s" % prev.get("id")] = n.get("name")
                if prev.get("name"):
                    out[prev["name"]] = n.get("name")
        prev = n
    return out


def labels(body):
    """case label constant nodes and default arms of THIS switch; returns (labels, default_following_stmts or None)"""
    labs, dfl = [], [None]

    def arm_tail(parent_list, idx, first):
        out = [first] if first else []
        for s in parent_list[idx + 1:]:
            if s.get("kind") in ("CaseStmt", "DefaultStmt"):
                break
            out.append(s)
        return out

    def w(n, sibs, i):
        k = n.get("kind")
        if k == "SwitchStmt":
            return
        if k == "CaseStmt":
            c = kids(n)
            labs.append(c[0])
            if len(c) > 2 and c[1].get("kind") == "ConstantExpr":
                raise Unknown("case range at line %d" % A.line_of(n))
            w(c[-1], sibs, i)
            return
        if k == "DefaultStmt":
            c = kids(n)
            sub = c[0] if c else None
            # the labelled statement may itself be further labels: `default: case X: ...`
            while sub is not None and sub.get("kind") == "CaseStmt":
                labs.append(kids(sub)[0])
                sub = kids(sub)[-1]
            dfl[0] = arm_tail(sibs, i, sub)
            return
        ch = kids(n)
        for j, c in enumerate(ch):
            w(c, ch, j)
    ch = kids(body)
    for j, c in enumerate(ch):
        w(c, ch, j)
    return labs, dfl[0]


def classify_default(stmts):
    if stmts is None:
        return "none"
    seen = dict(err=False, asrt=False, other=False)

    def w(n):
        k = n.get("kind")
        if k in ("BreakStmt", "NullStmt", "CompoundStmt"):
            pass
        elif k == "GotoStmt":
            seen["err"] = True
        elif k == "ReturnStmt":
            c = kids(n)
            t = unparse(c[0]) if c else ""
            if t.startswith("-") or t in ("HAWK_NULL", "(void*)0", "0") and False:
                seen["err"] = True
            elif re.fullmatch(r"\(?\(void\*\)0\)?|-\d+", t) or "(void*)0" in t:
                seen["err"] = True
            else:
                seen["other"] = True
        elif k == "CallExpr":
            cn = P.callee(n) or ""
            if ERRCALL.search(cn):
                seen["err"] = True
            elif "assert" in cn.lower():
                seen["asrt"] = True
            else:
                seen["other"] = True
        elif k in ("BinaryOperator", "CompoundAssignOperator", "UnaryOperator", "DeclStmt", "IfStmt", "ForStmt", "WhileStmt", "DoStmt", "SwitchStmt"):
            if k in ("BinaryOperator", "CompoundAssignOperator", "DeclStmt"):
                seen["other"] = True
        for c in kids(n):
            w(c)
    for s in stmts:
        w(s)
    if seen["err"]:
        return "error"
    if seen["other"]:
        return "value"
    if seen["asrt"]:
        return "assert"
    return "empty"


def scan(f):
    path = os.path.join(C.REPO, "lib", f)
    ast, src = A.load_ast(path)
    cid, vals, names = enums_of(ast)
    tdn = typedef_names(ast)
    rows, skipped = [], 0
    for name, decl, body in A.functions(ast, path):
        def w(n, sibs, si):
            nonlocal skipped
            ch = kids(n)
            for j, c in enumerate(ch):
                w(c, ch, j)
            if n.get("kind") != "SwitchStmt":
                return
            raw = [x for x in (n.get("inner") or []) if x]
            cond, sbody = raw[-2], raw[-1]
            labs, dfl = labels(sbody)
            keys, lv, plain = set(), set(), 0
            for l in labs:
                x = P.uncast(l)
                if x.get("kind") == "DeclRefExpr" and x["referencedDecl"].get("kind") == "EnumConstantDecl":
                    rid = x["referencedDecl"]["id"]
                    if rid not in cid:
                        raise Unknown("%s:%d: enumerator %s not found in any enum declaration" % (f, A.line_of(n), x["referencedDecl"].get("name")))
                    keys.add(cid[rid][0])
                    lv.add(cid[rid][1])
                else:
                    plain += 1
            if not keys:
                skipped += 1
                return
            if len(keys) > 1:
                raise Unknown("%s:%d: switch in %s mixes labels of %s" % (f, A.line_of(n), name, sorted(keys)))
            key = keys.pop()
            try:
                subj = unparse(cond)
            except Unknown:
                subj = "?"
            rows.append(dict(file=f, fn=name, line=A.line_of(n), subject=subj[:80], enum=tdn.get(key, key), nEnum=len(vals[key]), nCovered=len(lv), missing=len(vals[key] - lv), plain=plain,
                             hasDefault=dfl is not None, dflt=classify_default(dfl),
                             after="none" if dfl is not None else classify_default([x for x in sibs[si + 1:]])))
        w(body, [body], 0)
    return rows, skipped


def generate():
    files = [f for f in FILES if os.path.exists(os.path.join(C.REPO, "lib", f))]
    if len(files) < 8:
        raise Unknown("anchored sources missing: %r" % files)
    with ProcessPoolExecutor(3) as ex:
        res = list(ex.map(scan, files))
    rows = [r for rs, _ in res for r in rs]
    skipped = sum(s for _, s in res)
    if len(rows) < 40:
        raise Unknown("only %d enum switches found" % len(rows))
    if not any(r["enum"] == "hawk_val_type_t" for r in rows) or not any(r["enum"] == "hawk_nde_type_t" for r in rows):
        raise Unknown("no switch over hawk_val_type_t / hawk_nde_type_t recognised: enums found %r" % sorted({r["enum"] for r in rows}))
    L = ["/-! GENERATED by extract/switch_sites.py — do not edit.  switch statements over enumerators. -/",
         "namespace Hawk.Gen.SwitchSites", "",
         "inductive Dflt where", "  | none | empty | value | assert | error", "  deriving DecidableEq, Repr", "",
         "structure Row where", "  file : String", "  fn : String", "  line : Nat", "  subject : String", "  enum : String", "  nEnum : Nat",
         "  nCovered : Nat", "  missing : Nat", "  plain : Nat", "  hasDefault : Bool", "  dflt : Dflt", "  after : Dflt", "",
         "def rows : List Row := [",
         ",\n".join("  ⟨%s, %s, %d, %s, %s, %d, %d, %d, %d, %s, .%s, .%s⟩" % (A.lean_str(r["file"]), A.lean_str(r["fn"]), r["line"], A.lean_str(r["subject"]), A.lean_str(r["enum"]),
                                                               r["nEnum"], r["nCovered"], r["missing"], r["plain"], "true" if r["hasDefault"] else "false", r["dflt"], r["after"]) for r in rows), "]", "",
         "end Hawk.Gen.SwitchSites", ""]
    return "\n".join(L), rows, skipped


def main():
    txt, rows, skipped = generate()
    out = os.path.join(C.LEAN, "HawkModel", "Gen", "SwitchSites.lean")
    ch = C.write_if_changed(out, txt)
    bad = [r for r in rows if not (r["hasDefault"] or (r["nCovered"] == r["nEnum"] and r["plain"] == 0) or r["after"] == "error")]
    dist = {}
    for r in rows:
        k = "full" if r["nCovered"] == r["nEnum"] and not r["hasDefault"] else r["dflt"]
        dist[k] = dist.get(k, 0) + 1
    print("switch_sites: %d enum switches %s (%d integer/char switches not listed), %d neither total nor with default -> %s%s" % (
        len(rows), sorted(dist.items()), skipped, len(bad), out, " (changed)" if ch else ""))
    return rows, bad


if __name__ == "__main__":
    rows, bad = main()
    if "-v" in sys.argv:
        for r in rows:
            print("switch", r)
    for r in bad:
        print("PARTIAL-NO-DEFAULT", r)
