"""Translator-style tie for C06: the table-shaped parts of lib/tre-parse.c that lean/HawkModel/RexParse.lean hard-codes
are re-read from the C sources of the tree under test on every run and compared with what the Lean source says:

  * `tre_macros[]` (tre-parse.c): the backslash macros \\t \\n \\r \\f \\a \\e (a character) and \\w \\W \\s \\S \\d \\D
    (a bracket expression)            <->  `macroChar`, `macroBracket`
  * `ASSERT_AT_*` (tre-prv.h)          <->  the codes `parseAtom`/`escapeAtom` put into assertion leaves and `asrtRe` reads
  * the special literal codes EMPTY/ASSERTION/BACKREF (tre-ast.h) that the harness dump relies on
  * `MAX_NEG_CLASSES` (tre-parse.c)     <->  the bound in `bracketItems`

Fails closed: `TranslateError` when a source no longer has the expected shape.  `check()` returns the list of
differences (empty = the model's tables are the tables of this source tree)."""
import os, re, sys

HERE = os.path.dirname(os.path.abspath(__file__))
sys.path.insert(0, os.path.dirname(HERE))
from vlib import common as C


class TranslateError(Exception):
    pass


C_ESC = {'t': 9, 'n': 10, 'r': 13, 'f': 12, 'a': 7, 'v': 11, 'b': 8, '\\': 92, '"': 34}


def _c_string(s):
    """value of a C string literal body (the escapes tre_macros uses: \\t \\n \\r \\f \\a and octal \\033)"""
    out, i = [], 0
    while i < len(s):
        if s[i] != '\\':
            out.append(ord(s[i])); i += 1; continue
        i += 1
        if i >= len(s): raise TranslateError("dangling backslash in C string %r" % s)
        m = re.match(r'[0-7]{1,3}', s[i:])
        if m:
            out.append(int(m.group(0), 8)); i += len(m.group(0))
        elif s[i] in C_ESC:
            out.append(C_ESC[s[i]]); i += 1
        else:
            raise TranslateError("unknown escape \\%s in C string %r" % (s[i], s))
    return out


def c_side():
    src = open(os.path.join(C.REPO, "lib", "tre-parse.c"), errors="replace").read()
    m = re.search(r'tre_macros\[\]\s*=\s*\{(.*?)\{\s*0\s*,\s*NULL\s*\}\s*\}\s*;', src, re.S)
    if not m: raise TranslateError("tre_macros[] initializer not found in tre-parse.c")
    body = m.group(1)
    entries = re.findall(r"\{\s*'(.)'\s*,\s*\"((?:[^\"\\]|\\.)*)\"\s*\}", body)
    rest = re.sub(r"\{\s*'(.)'\s*,\s*\"((?:[^\"\\]|\\.)*)\"\s*\}", "", body)
    if rest.replace(",", "").strip(): raise TranslateError("tre_macros[]: unparsed text %r" % rest.strip()[:80])
    if not entries: raise TranslateError("tre_macros[] is empty")
    macros = {}
    for c, exp in entries:
        if c in macros: raise TranslateError("tre_macros[]: duplicate %r" % c)
        macros[c] = _c_string(exp)
    m = re.search(r'#define\s+MAX_NEG_CLASSES\s+(\d+)', src)
    if not m: raise TranslateError("MAX_NEG_CLASSES not found")
    maxneg = int(m.group(1))
    prv = open(os.path.join(C.REPO, "lib", "tre-prv.h"), errors="replace").read()
    asserts = {k: int(v) for k, v in re.findall(r'#define\s+ASSERT_AT_(\w+)\s+(\d+)', prv)}
    for k in ("BOL", "EOL", "BOW", "EOW", "WB", "WB_NEG"):
        if k not in asserts: raise TranslateError("ASSERT_AT_%s not found in tre-prv.h" % k)
    ast = open(os.path.join(C.REPO, "lib", "tre-ast.h"), errors="replace").read()
    special = {k: int(v) for k, v in re.findall(r'#define\s+(EMPTY|ASSERTION|TAG|BACKREF|PARAMETER)\s+(-\d+)', ast)}
    if len(special) != 5: raise TranslateError("special literal codes not found in tre-ast.h: %r" % special)
    # which character of the pattern selects which assertion (tre-parse.c, PARSE_ATOM)
    sel = {}
    for ch, name in re.findall(r"case HAWK_T\('(.)'\):\s*result = tre_ast_new_literal\(ctx->mem, ASSERTION, ASSERT_AT_(\w+), -1\);", src):
        sel[ch] = name
    for pat, name, ch in ((r"ASSERT_AT_BOL, -1\)", "BOL", '^'), (r"ASSERT_AT_EOL, -1\)", "EOL", '$')):
        if len(re.findall(pat, src)) != 1: raise TranslateError("expected exactly one ASSERT_AT_%s literal in tre-parse.c" % name)
        sel[ch] = name
    if sorted(sel) != sorted(['b', 'B', '<', '>', '^', '$']): raise TranslateError("assertion atoms of tre-parse.c changed: %r" % sel)
    return dict(macros=macros, maxneg=maxneg, asserts=asserts, special=special, sel=sel)


def lean_side():
    src = open(os.path.join(C.LEAN, "HawkModel", "RexParse.lean"), errors="replace").read()

    def block(name):
        m = re.search(r'^def %s\b.*?(?=^\S|\Z)' % name, src, re.S | re.M)
        if not m: raise TranslateError("def %s not found in RexParse.lean" % name)
        return m.group(0)
    mc = {c: int(v) for c, v in re.findall(r"\|\s*'(.)'\s*=>\s*some\s+(\d+)", block("macroChar"))}
    mb = {c: t for c, t in re.findall(r"\|\s*'(.)'\s*=>\s*some\s+\"([^\"]*)\"\.toList", block("macroBracket"))}
    if not mc or not mb: raise TranslateError("macroChar/macroBracket: no entries recognised")
    esc = {c: int(v) for c, v in re.findall(r"e == '(.)' then \.ok \(mkAsrt (\d+)", block("escapeAtom"))}
    atom = {c: int(v) for c, v in re.findall(r"c == '(.)' then \.ok \(mkAsrt (\d+)", src)}
    rd = re.findall(r"code = (\d+) then some \(?\.(?:wordb \.)?(\w+)\)?", block("asrtRe"))
    if len(esc) != 4 or len(atom) != 2 or len(rd) != 6: raise TranslateError("assertion codes in RexParse.lean: unexpected shape %r %r %r" % (esc, atom, rd))
    m = re.search(r'negs\.length ≥ (\d+) then \.error \.espace', src)
    if not m: raise TranslateError("bound on negated classes not found in bracketItems")
    return dict(macroChar=mc, macroBracket=mb, sel=dict(esc, **atom), read={n: int(c) for c, n in rd}, maxneg=int(m.group(1)))


def check():
    c, l = c_side(), lean_side()
    diffs = []
    for ch, exp in sorted(c['macros'].items()):
        if len(exp) == 1:
            if l['macroChar'].get(ch) != exp[0]: diffs.append("macro \\%s: C expands to character %d, model has %r" % (ch, exp[0], l['macroChar'].get(ch)))
        else:
            text = ''.join(map(chr, exp))
            if not text.startswith('['): diffs.append("macro \\%s: expansion %r is not a bracket expression (model handles characters and brackets only)" % (ch, text)); continue
            if l['macroBracket'].get(ch) != text[1:]: diffs.append("macro \\%s: C expands to %r, model has %r" % (ch, text, l['macroBracket'].get(ch)))
    for ch in sorted(set(l['macroChar']) | set(l['macroBracket'])):
        if ch not in c['macros']: diffs.append("macro \\%s exists in the model only" % ch)
    for ch, name in sorted(c['sel'].items()):
        if l['sel'].get(ch) != c['asserts'][name]: diffs.append("assertion atom %r: C makes ASSERT_AT_%s=%d, model makes %r" % (ch, name, c['asserts'][name], l['sel'].get(ch)))
    want = dict(bol="BOL", eol="EOL", bow="BOW", eow="EOW", wb="WB", nwb="WB_NEG")
    for n, cname in want.items():
        if l['read'].get(n) != c['asserts'][cname]: diffs.append("asrtRe reads %s as %r, ASSERT_AT_%s is %d" % (n, l['read'].get(n), cname, c['asserts'][cname]))
    if c['maxneg'] != l['maxneg']: diffs.append("MAX_NEG_CLASSES: C %d, model %d" % (c['maxneg'], l['maxneg']))
    if (c['special']['EMPTY'], c['special']['ASSERTION'], c['special']['BACKREF']) != (-1, -2, -4):
        diffs.append("special literal codes changed: %r" % c['special'])
    return diffs, dict(macros=len(c['macros']), assertions=len(c['sel']))


if __name__ == "__main__":
    d, n = check()
    print("tre tables: %r, differences: %d" % (n, len(d)))
    for x in d: print("  " + x)
    sys.exit(1 if d else 0)
