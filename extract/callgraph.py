#!/usr/bin/env python3
"""C14 translator: call graph of the recursive routines of libhawk, extracted from the current sources.

  python3 extract/callgraph.py [--repo DIR] [--out FILE.lean] [--cache DIR] [--dump] [--why FUNC]

Pipeline
  1. every lib/*.c (minus the stand-alone sed/cut tools) + bin/hawk.c is dumped with
     `clang-14 -Xclang -ast-dump=json -fsyntax-only` (flags = vlib.common.CDEFS + -I$REPO/lib) and reduced to a
     per-file summary (functions, call sites, address-taken functions, function tables, guard idioms);
     summaries are cached by content hash (file + all headers + flags + this script).
  2. whole-library call graph, built from main() of bin/hawk.c:
       direct calls;
       calls through a function-pointer PARAMETER: the callee is specialised per function actually passed
         (`parse_binary<parse_unary>`), so the precedence ladder of the parser is not folded into one cycle;
       calls through a TABLE (binop_func[], __evaluator[] ...) -> every function in its initializer;
       any other indirect call (struct member, local pointer) -> every address-taken function whose prototype has
         the same canonical signature (typedefs expanded).  Indirect calls without any candidate are listed
         (`unresolved`): they are callbacks supplied by the embedding application.
  3. restricted to functions lying on a recursion cycle (non-trivial SCC or self loop), edges inside SCCs only.
  4. every edge gets a CLASS:
       guard  - all call sites u->v are preceded, among the statements of u's top-level block, by
                    if (<limit> > 0 && <counter> >= <limit>) { ...HAWK_E*NST...; return }  followed by  <counter>++
                or  if (HAWK_RTX_STACK_AVAIL(rtx) < n) { ...HAWK_ESTACK...; return }     followed by  a stack push
                (class = the limit that is read: incl, block_parse, ..., stack);
       assumed- listed in ASSUMED below with the reason why the cycle through it is infeasible / bounded otherwise
                (trusted; printed in the evidence);
       plain  - anything else.
     Plain edges lying on a cycle of plain edges are RESIDUAL: an unguarded recursion cycle.  Residual edges are
     grouped per strongly connected component of the plain subgraph, each group named after its hub (the member called by most members).
  5. nodes are emitted in a topological order of the plain non-residual edges, so that the acyclicity certificate
     checked in Lean is simply `src < dst` for every such edge.
  6. CLI defaults from bin/hawk.c (hawk_setopt(HAWK_OPT_DEPTH_*)), library defaults from hawk-prv.h / hawk.c.

Fails closed: any clang failure, unparsable default, guard idiom of unknown shape raises ExtractError.
"""
import collections, concurrent.futures, glob, hashlib, heapq, json, os, re, subprocess, sys, time, zlib

VERSION = "cg-19"
HERE = os.path.dirname(os.path.abspath(__file__))
sys.path.insert(0, os.path.dirname(HERE))

CDEFS = ["-DHAVE_CONFIG_H", "-DHAWK_HAVE_CFG_H", "-DHAWK_ENABLE_STATIC_MODULE",
         "-DHAWK_BUILD_DEBUG", "-DHAWK_VERIF", "-fshort-wchar", "-w"]
try:
    from vlib import common as _C
    CDEFS = list(_C.CDEFS)
except Exception:
    pass

LIMIT_FIELDS = ["incl", "block_parse", "block_run", "expr_parse", "expr_run", "rex_build", "rex_match"]
NEST_ERRS = {"HAWK_EEXPRNST", "HAWK_EBLKNST", "HAWK_EINCLTD", "HAWK_ESTACK"}
# files that are separate tools living in lib/ (stream editor, cut) - not part of the awk interpreter
EXCLUDE = {"sed.c", "std-sed.c", "cut.c", "std-cut.c"}

# Edges assumed not to carry unbounded recursion, with the reason (read from the code by hand; TRUSTED).
# key: (caller, callee) -> class name ; reasons per class below.
ASSUMED = {
    ("val_flt_to_str", "hawk_rtx_format"): "value-mode-format",
    ("val_ref_to_str", "hawk_rtx_valtostr"): "reference-chain",
    ("val_ref_to_bool", "hawk_rtx_valtobool"): "reference-chain",
    ("val_ref_to_num", "hawk_rtx_valtonum"): "reference-chain",
    ("hawk_rtx_clrrec", "hawk_rtx_setgbl"): "nf-writeback",
    ("split_record", "hawk_rtx_setgbl"): "nf-writeback",
    ("recomp_record_fields", "hawk_rtx_setgbl"): "nf-writeback",
    ("hawk_rtx_setrec", "hawk_rtx_setgbl"): "nf-writeback",
    ("hawk_rtx_truncrec", "hawk_rtx_setgbl"): "nf-writeback",
    ("refdown_elem", "hawk_rtx_refdownval"): "container-defer",
    ("free_deferred_vals", "hawk_rtx_refdownval"): "container-defer",
    ("hawk_tre_parse", "hawk_tre_parse"): "regex-macro",
    ("tre_stack_push", "tre_stack_push"): "retry-once",
    ("hawk_qsort", "hawk_qsort"): "not-nesting",
    ("hawk_qsortx", "hawk_qsortx"): "not-nesting",
    ("hawk_fnmat_bchars_i", "hawk_fnmat_bchars_i"): "not-nesting",
    ("hawk_fnmat_uchars_i", "hawk_fnmat_uchars_i"): "not-nesting",
}
# Functions that walk a parse tree by structural recursion (destructor, deparser).  They cannot fail with a nesting
# error; their recursion depth is the depth of the tree, which the parser bounds when the parse-time limits are set:
# every nesting construct is counted (parse_expr_withdc, parse_unary, parse_primary_withdc, parse_block_dc,
# parse_statement_withdc), and the shapes the parser builds in loops without counting - left-leaning binary chains,
# else-if ladders, sibling lists - are walked in loops by these functions.  Edges among them get the class
# `tree-depth`; every call site is pinned (knownResidualSiteIds) so that a recursion added on a new field shows up.
TREE_WALKERS = {"hawk_clrpt", "print_expr", "print_operand", "print_exp_bin_chain", "print_expr_list",
                "print_expr_list_for_idx", "print_printx", "print_stmt", "print_stmts", "hawk_prnpt"}
ASSUMED_REASONS = {
    "tree-depth": "structural recursion over a parse tree whose depth the parser bounds (expr_parse, block_parse); chains, else-if ladders and lists, which the parser builds in loops, are walked in loops",
    "value-mode-format": "val_flt_to_str calls hawk_rtx_format with nargs_on_stack=(hawk_oow_t)-1: the argument is a value, the branch of hawk_rtx_format that evaluates argument nodes is not taken",
    "reference-chain": "a HAWK_VAL_REF is dereferenced once per by-reference parameter level; a chain of references is at most as long as the (guarded) call depth",
    "nf-writeback": "rec.c writes NF back with the current field count and assign=0: set_global's NF case re-enters rec.c only when the value differs from inrec.nflds",
    "container-defer": "a map/array found dead while another one is being destroyed is put on rtx->vdefer and destroyed by the loop of the outermost hawk_rtx_freeval() (vdefer.draining stops re-entry: at most two levels); refdown_elem() releases directly only what is not a dying container, or when the list cannot grow (out of memory)",
    "regex-macro": "tre_parse re-enters itself only to parse the fixed expansion of a \\w-style macro, which contains no macro",
    "retry-once": "tre_stack_push calls itself once after growing its buffer",
    "not-nesting": "sorting / glob matching: recursion depth depends on the number of array elements / pattern length, not on program nesting (outside C14)",
}


class ExtractError(Exception):
    pass


# ----------------------------------------------------------------------------------------------
# per-file summary
# ----------------------------------------------------------------------------------------------
def _strip(n):
    """skip implicit casts / parens / C casts"""
    while isinstance(n, dict) and n.get("kind") in ("ImplicitCastExpr", "ParenExpr", "CStyleCastExpr") and n.get("inner"):
        n = n["inner"][0]
    return n


def _walk(n):
    """pre-order generator over dict nodes"""
    stack = [n]
    while stack:
        x = stack.pop()
        if isinstance(x, dict):
            yield x
            inner = x.get("inner")
            if inner:
                stack.extend(reversed(inner))


def _member_chain(n):
    """a.b->c.d  ->  ['a','b','c','d'] (base DeclRef name first)"""
    names = []
    n = _strip(n)
    while isinstance(n, dict):
        k = n.get("kind")
        if k == "MemberExpr":
            names.append(n.get("name", "?"))
            n = _strip(n["inner"][0]) if n.get("inner") else None
        elif k == "DeclRefExpr":
            names.append(n["referencedDecl"].get("name", "?"))
            break
        else:
            names.append("<expr>")
            break
    return list(reversed(names))


def _fn_ref(n):
    """name if n (after casts) is a reference to a function (optionally &f)"""
    n = _strip(n)
    if isinstance(n, dict) and n.get("kind") == "UnaryOperator" and n.get("opcode") == "&" and n.get("inner"):
        n = _strip(n["inner"][0])
    if isinstance(n, dict) and n.get("kind") == "DeclRefExpr" and n["referencedDecl"].get("kind") == "FunctionDecl":
        return n["referencedDecl"]["name"]
    return None


def _parm_ref(n):
    n = _strip(n)
    if isinstance(n, dict) and n.get("kind") == "DeclRefExpr" and n["referencedDecl"].get("kind") == "ParmVarDecl":
        return n["referencedDecl"].get("name")
    return None


def _limits_in(n):
    """names of opt.depth.s.<field> read inside n; 'stack' when both stack_limit and stack_top are read"""
    out = set()
    seen_sl = seen_st = False
    for x in _walk(n):
        if x.get("kind") == "MemberExpr":
            nm = x.get("name")
            if nm in LIMIT_FIELDS:
                ch = _member_chain(x)
                if "depth" in ch and "opt" in ch:
                    out.add(nm)
            elif nm == "stack_limit":
                seen_sl = True
            elif nm == "stack_top":
                seen_st = True
    if seen_sl and seen_st:
        out.add("stack")
    return out


def _counters_in(n):
    """member chains '<..>.depth.<x>' (not under opt) in n -> {'parse.depth.expr', 'depth.block'}; 'stack_top' too"""
    out = set()
    for x in _walk(n):
        if x.get("kind") == "MemberExpr":
            ch = _member_chain(x)
            if len(ch) >= 2 and ch[-2] == "depth" and "opt" not in ch:
                out.add(".".join(ch[1:]))
            elif x.get("name") == "stack_top":
                out.add("stack_top")
    return out


def _errs_in(n):
    out = set()
    for x in _walk(n):
        if x.get("kind") == "DeclRefExpr" and x["referencedDecl"].get("kind") == "EnumConstantDecl":
            if x["referencedDecl"]["name"] in NEST_ERRS:
                out.add(x["referencedDecl"]["name"])
    return out


def _has_exit(n):
    return any(x.get("kind") in ("ReturnStmt", "GotoStmt") for x in _walk(n))


def _cond_shape_ok(cond, lim):
    """counter guard:  ... && <counter-expr> >= <limit>   ;  stack guard:  (stack_limit - stack_top) < n"""
    for x in _walk(cond):
        if x.get("kind") != "BinaryOperator" or len(x.get("inner", [])) != 2:
            continue
        a, b = x["inner"]
        if lim == "stack":
            if x.get("opcode") == "<" and "stack" in _limits_in(a):
                return True
            if x.get("opcode") == ">" and "stack" in _limits_in(b):
                return True
        else:
            if x.get("opcode") == ">=" and lim in _limits_in(b) and not _limits_in(a) and _counters_in(a):
                return True
            if x.get("opcode") == "<=" and lim in _limits_in(a) and not _limits_in(b) and _counters_in(b):
                return True        # the same comparison written the other way round
    return False


def _guard_of_if(st):
    """IfStmt -> (limit, counter, err) when it has the guard idiom"""
    if st.get("kind") != "IfStmt" or len(st.get("inner", [])) < 2:
        return None
    cond, then = st["inner"][0], st["inner"][1]
    lims = _limits_in(cond)
    if not lims:
        return None
    errs = _errs_in(then)
    if not errs or not _has_exit(then):
        return None
    if len(lims) != 1 or len(errs) != 1:
        raise ExtractError("ambiguous guard idiom: limits %s errors %s" % (sorted(lims), sorted(errs)))
    lim = next(iter(lims))
    if not _cond_shape_ok(cond, lim):
        raise ExtractError("guard on %s has an unrecognised comparison shape (expected `counter >= limit` / `avail < n`)" % lim)
    if lim == "stack":
        ctr = "stack_top"
    else:
        ctrs = sorted(c for c in _counters_in(cond) if c != "stack_top")
        if len(ctrs) != 1:
            raise ExtractError("guard on %s compares %d counters" % (lim, len(ctrs)))
        ctr = ctrs[0]
    return (lim, ctr, next(iter(errs)))


def _increments(st, incr_funcs=None):
    """counters incremented somewhere in statement st (x.depth.y++ / ++x / x += n / stack[stack_top++] = v),
    directly or by calling a tiny inline helper that does (HAWK_RTX_STACK_PUSH)"""
    out = set()
    for x in _walk(st):
        if x.get("kind") == "UnaryOperator" and x.get("opcode") == "++":
            out |= _counters_in(x)
        elif x.get("kind") == "CompoundAssignOperator" and x.get("opcode") == "+=":
            out |= _counters_in(x["inner"][0])
        elif incr_funcs and x.get("kind") == "CallExpr" and x.get("inner"):
            fr = _fn_ref(x["inner"][0])
            if fr in incr_funcs:
                out |= incr_funcs[fr]
    return out


def _incdec_pairs(body):
    """the `counter++ ... counter--` idiom: for every depth counter a function both increments and decrements,
    1 if no return/goto lies between an increment and the next decrement (source order), 0 if one does;
    2 for a counter the function only increments or only decrements (include depth: begin_include/end_include)"""
    pos = 0
    incs, decs, exits = {}, {}, []
    for x in _walk(body):
        pos += 1
        k = x.get("kind")
        if k == "UnaryOperator" and x.get("opcode") in ("++", "--"):
            for c in _counters_in(x):
                if c != "stack_top":
                    (incs if x["opcode"] == "++" else decs).setdefault(c, []).append(pos)
        elif k in ("ReturnStmt", "GotoStmt"):
            exits.append(pos)
    out = []
    for c in sorted(set(incs) | set(decs)):
        if c in incs and c in decs:
            ok = True
            for i in incs[c]:
                later = [j for j in decs[c] if j > i]
                if not later or any(i < e < min(later) for e in exits):
                    ok = False
            out.append([c, 1 if ok else 0])
        else:
            out.append([c, 2])
    return out


def _top_statements(body):
    """statements of the function's top-level block, flattening directly nested plain blocks"""
    out = []
    for st in body.get("inner", []):
        if st.get("kind") == "CompoundStmt":
            out.extend(_top_statements(st))
        else:
            out.append(st)
    return out


def _render(n, depth=0):
    """compact source-like text of an expression (casts and parentheses dropped) - used to tell call sites apart"""
    n = _strip(n)
    if not isinstance(n, dict) or depth > 8:
        return "?"
    k = n.get("kind")
    inner = n.get("inner") or []
    if k == "DeclRefExpr":
        return n["referencedDecl"].get("name", "?")
    if k == "MemberExpr":
        return (_render(inner[0], depth + 1) if inner else "?") + ("->" if n.get("isArrow") else ".") + n.get("name", "?")
    if k == "ArraySubscriptExpr" and len(inner) == 2:
        return "%s[%s]" % (_render(inner[0], depth + 1), _render(inner[1], depth + 1))
    if k == "UnaryOperator" and inner:
        return (_render(inner[0], depth + 1) + n.get("opcode", "")) if n.get("isPostfix") else (n.get("opcode", "") + _render(inner[0], depth + 1))
    if k in ("BinaryOperator", "CompoundAssignOperator") and len(inner) == 2:
        return "(%s%s%s)" % (_render(inner[0], depth + 1), n.get("opcode", "?"), _render(inner[1], depth + 1))
    if k in ("IntegerLiteral", "CharacterLiteral"):
        return str(n.get("value", "?"))
    if k == "ConstantExpr" and inner:
        return _render(inner[0], depth + 1)
    if k == "CallExpr" and inner:
        return "%s(%s)" % (_render(inner[0], depth + 1), ",".join(_render(a, depth + 1) for a in inner[1:]))
    if k == "ConditionalOperator" and len(inner) == 3:
        return "(%s?%s:%s)" % tuple(_render(a, depth + 1) for a in inner)
    return "<%s>" % k


def _case_label(cs):
    """label text of a CaseStmt/DefaultStmt, following `case A: case B:` nesting"""
    labs = []
    while isinstance(cs, dict) and cs.get("kind") in ("CaseStmt", "DefaultStmt"):
        inner = cs.get("inner") or []
        if cs["kind"] == "DefaultStmt":
            labs.append("default")
            cs = inner[0] if inner else None
        else:
            labs.append(_render(inner[0]) if inner else "?")
            cs = inner[-1] if len(inner) > 1 else None
    return "|".join(labs)


def _scan_calls(st, fsum, guard):
    """record call sites / address-taken functions in statement st; guard = active guard or None"""
    stack = [(st, 0, "")]
    while stack:
        x, ld, lab = stack.pop()
        if not isinstance(x, dict):
            continue
        k = x.get("kind")
        if k in ("WhileStmt", "DoStmt", "ForStmt"):
            for c in x.get("inner", []):
                stack.append((c, ld + 1, lab))
            continue
        if k == "CompoundStmt":
            cur = lab                      # statements after `case X:` belong to X until the next label
            for c in x.get("inner", []):
                if isinstance(c, dict) and c.get("kind") in ("CaseStmt", "DefaultStmt"):
                    cur = _case_label(c)
                stack.append((c, ld, cur))
            continue
        if k == "CallExpr" and x.get("inner"):
            callee = _strip(x["inner"][0])
            args = x["inner"][1:]
            site = dict(g=guard, loop=ld > 0, lab=lab, args=",".join(_render(a) for a in args)[:160])
            ck = callee.get("kind") if isinstance(callee, dict) else None
            if ck == "DeclRefExpr" and callee["referencedDecl"].get("kind") == "FunctionDecl":
                site.update(t="d", n=callee["referencedDecl"]["name"])
                fa, pa = {}, {}
                for i, a in enumerate(args):
                    fr = _fn_ref(a)
                    if fr:
                        fa[i] = fr
                        fsum["addr"].add(fr)
                        continue
                    pr = _parm_ref(a)
                    if pr:
                        pa[i] = pr
                    stack.append((a, ld, lab))
                if fa:
                    site["fargs"] = fa
                if pa:
                    site["pargs"] = pa
                fsum["sites"].append(site)
                continue
            elif ck == "DeclRefExpr" and callee["referencedDecl"].get("kind") == "ParmVarDecl":
                site.update(t="p", n=callee["referencedDecl"]["name"], sig=x["inner"][0].get("type", {}))
            else:
                base = None
                for y in _walk(callee):
                    if y.get("kind") == "DeclRefExpr" and y["referencedDecl"].get("kind") == "VarDecl":
                        base = y["referencedDecl"]["name"]
                        break
                mem = callee.get("name") if ck == "MemberExpr" else None
                site.update(t="i", base=base, mem=mem, sig=x["inner"][0].get("type", {}))
                for c in (callee.get("inner", []) if isinstance(callee, dict) else []):
                    stack.append((c, ld, lab))
            fsum["sites"].append(site)
            for a in args:
                fr = _fn_ref(a)
                if fr:
                    fsum["addr"].add(fr)
                else:
                    stack.append((a, ld, lab))
            continue
        if k == "DeclRefExpr":
            rd = x["referencedDecl"]
            if rd.get("kind") == "FunctionDecl":
                fsum["addr"].add(rd["name"])          # address taken (not in callee position)
            continue
        for c in x.get("inner", []) or []:
            stack.append((c, ld, lab))


def summarize_tu(ast, path):
    """reduce one translation unit"""
    base = os.path.basename(path)
    funcs = {}
    tables = {}
    typedefs = {}
    addr_global = set()
    # tiny helpers (at most 3 statements, no calls) that increment a counter: HAWK_RTX_STACK_PUSH
    incr_funcs = {}
    for d in ast.get("inner", []):
        if d.get("kind") == "FunctionDecl":
            body = [c for c in d.get("inner", []) if c.get("kind") == "CompoundStmt"]
            if body and len(body[0].get("inner", [])) <= 3 and not any(x.get("kind") == "CallExpr" for x in _walk(body[0])):
                inc = _increments(body[0])
                if inc:
                    incr_funcs[d["name"]] = inc
    for d in ast.get("inner", []):
        k = d.get("kind")
        if k == "TypedefDecl":
            t = d.get("type", {})
            typedefs[d.get("name")] = t.get("desugaredQualType") or t.get("qualType")
        elif k == "VarDecl":
            refs = [x["referencedDecl"]["name"] for x in _walk(d)
                    if x.get("kind") == "DeclRefExpr" and x["referencedDecl"].get("kind") == "FunctionDecl"]
            if refs:
                tables[d["name"]] = sorted(set(refs))
                addr_global |= set(refs)
        elif k == "FunctionDecl":
            body = [c for c in d.get("inner", []) if c.get("kind") == "CompoundStmt"]
            if not body:
                continue
            body = body[0]
            params = [c.get("name", "") for c in d.get("inner", []) if c.get("kind") == "ParmVarDecl"]
            fsum = dict(name=d["name"], file=base, static=(d.get("storageClass") == "static"),
                        type=d.get("type", {}).get("qualType", ""), params=params,
                        sites=[], addr=set(), guards=[], tables={})
            for x in _walk(body):
                if x.get("kind") == "VarDecl" and x.get("storageClass") == "static":
                    refs = [y["referencedDecl"]["name"] for y in _walk(x)
                            if y.get("kind") == "DeclRefExpr" and y["referencedDecl"].get("kind") == "FunctionDecl"]
                    if refs:
                        fsum["tables"][x["name"]] = sorted(set(refs))
            active = None        # guard in force: check AND increment have been seen
            pending = None       # check seen, increment not yet
            for st in _top_statements(body):
                g = _guard_of_if(st)
                if g is not None:
                    fsum["guards"].append(list(g))
                    pending = g
                    _scan_calls(st, fsum, list(active) if active else None)
                    continue
                if pending is not None and pending[1] in _increments(st, incr_funcs):
                    # calls inside the incrementing statement itself are not counted as guarded
                    _scan_calls(st, fsum, list(active) if active else None)
                    active = pending
                    pending = None
                    continue
                _scan_calls(st, fsum, list(active) if active else None)
            top_guards = [tuple(g) for g in fsum["guards"]]
            for x in _walk(body):
                if x.get("kind") == "IfStmt":
                    g = _guard_of_if(x)
                    if g is not None and tuple(g) not in top_guards:
                        fsum["guards"].append(list(g) + ["nested"])
            fsum["addr"] = sorted(fsum["addr"])
            fsum["incdec"] = _incdec_pairs(body)
            funcs[d["name"]] = fsum
    return dict(file=base, funcs=funcs, tables=tables, typedefs=typedefs, addr_global=sorted(addr_global))


_HDR_HASH = {}


def _headers_hash(repo):
    if repo not in _HDR_HASH:
        h = hashlib.sha1()
        for hd in sorted(glob.glob(repo + "/lib/*.h") + glob.glob(repo + "/mod/*.h")):
            h.update(hd[len(repo):].encode())
            h.update(open(hd, "rb").read())
        _HDR_HASH[repo] = h.hexdigest()
    return _HDR_HASH[repo]


def _hash_inputs(repo, path, flags):
    h = hashlib.sha1()
    h.update(VERSION.encode())
    h.update(open(__file__, "rb").read())
    h.update(" ".join(f.replace(repo, "$REPO") for f in flags).encode())
    h.update(open(path, "rb").read())
    h.update(_headers_hash(repo).encode())
    return h.hexdigest()[:20]


_GCC_INC = []


def _gcc_inc():
    """quadmath.h lives in gcc's private include dir; search it last so that clang's own builtins win"""
    if not _GCC_INC:
        try:
            d = subprocess.run(["gcc", "-print-file-name=include"], stdout=subprocess.PIPE).stdout.decode().strip()
            _GCC_INC.extend(["-idirafter", d] if d and os.path.isdir(d) else [""])
        except OSError:
            _GCC_INC.append("")
    return [x for x in _GCC_INC if x]


def summarize_file(args):
    repo, path, cache = args
    flags = CDEFS + ["-I" + repo + "/lib", "-I" + repo + "/mod"] + _gcc_inc()
    key = _hash_inputs(repo, path, flags)
    cpath = os.path.join(cache, "%s.%s.json" % (os.path.basename(path), key)) if cache else None
    if cpath and os.path.exists(cpath):
        try:
            return json.load(open(cpath))
        except Exception:
            pass
    p = subprocess.run(["clang-14", "-Xclang", "-ast-dump=json", "-fsyntax-only"] + flags + [path],
                       stdout=subprocess.PIPE, stderr=subprocess.PIPE)
    if p.returncode != 0:
        raise ExtractError("clang failed on %s: %s" % (path, p.stderr.decode(errors="replace")[-800:]))
    ast = json.loads(p.stdout)
    del p
    s = summarize_tu(ast, path)
    del ast
    if cpath:
        os.makedirs(cache, exist_ok=True)
        tmp = cpath + ".%d.tmp" % os.getpid()
        with open(tmp, "w") as f:
            json.dump(s, f)
        os.replace(tmp, cpath)
        for old in glob.glob(os.path.join(cache, os.path.basename(path) + ".*.json")):
            if old != cpath and time.time() - os.path.getmtime(old) > 6 * 3600:
                try:
                    os.unlink(old)
                except OSError:
                    pass
    return s


# ----------------------------------------------------------------------------------------------
# whole-program graph
# ----------------------------------------------------------------------------------------------
_TOK = re.compile(r"[A-Za-z_]\w*|\S")


def canon_type(t, typedefs, depth=0):
    """expand typedef names textually (canonical string, not valid C)"""
    if depth > 12:
        return t
    out = []
    changed = False
    for tok in _TOK.findall(t):
        if tok in typedefs and typedefs[tok] and typedefs[tok] != tok:
            out.append("(" + typedefs[tok] + ")")
            changed = True
        elif tok in ("const", "volatile", "restrict", "struct", "union", "enum"):
            continue
        else:
            out.append(tok)
    s = " ".join(out)
    return canon_type(s, typedefs, depth + 1) if changed else s


def _split_fn_type(t):
    """'ret (params)' or 'ret (*)(params)' -> (ret, params-string) using the LAST top-level parenthesis group"""
    t = t.strip()
    if not t.endswith(")"):
        return None
    d = 0
    for i in range(len(t) - 1, -1, -1):
        if t[i] == ")":
            d += 1
        elif t[i] == "(":
            d -= 1
            if d == 0:
                ret = t[:i].strip()
                ret = re.sub(r"\(\s*\*\s*(const)?\s*\)\s*$", "", ret).strip()
                return ret, t[i + 1:-1].strip()
    return None


def sig_key(tobj_or_str, typedefs):
    if isinstance(tobj_or_str, dict):
        t = tobj_or_str.get("desugaredQualType") or tobj_or_str.get("qualType") or ""
    else:
        t = tobj_or_str
    sp = _split_fn_type(t)
    if sp is None:
        t2 = typedefs.get(t.strip())
        if t2:
            sp = _split_fn_type(t2)
    if sp is None:
        return None
    ret, params = sp
    c = canon_type(ret, typedefs) + " <- " + canon_type(params, typedefs)
    return re.sub(r"\s+", "", c)


def tarjan(nodes, succ):
    """iterative Tarjan; returns list of SCCs (lists)"""
    index, low, onst, st, out = {}, {}, set(), [], []
    cnt = 0
    for root in nodes:
        if root in index:
            continue
        work = [(root, iter(succ.get(root, ())))]
        index[root] = low[root] = cnt; cnt += 1
        st.append(root); onst.add(root)
        while work:
            v, it = work[-1]
            adv = False
            for w in it:
                if w not in index:
                    index[w] = low[w] = cnt; cnt += 1
                    st.append(w); onst.add(w)
                    work.append((w, iter(succ.get(w, ()))))
                    adv = True
                    break
                elif w in onst:
                    low[v] = min(low[v], index[w])
            if adv:
                continue
            work.pop()
            if work:
                u = work[-1][0]
                low[u] = min(low[u], low[v])
            if low[v] == index[v]:
                comp = []
                while True:
                    w = st.pop(); onst.discard(w)
                    comp.append(w)
                    if w == v:
                        break
                out.append(comp)
    return out


def _get(d, i):
    """JSON round trip turns int keys into strings"""
    if not d:
        return None
    return d.get(i, d.get(str(i)))


def build_graph(repo, cache=None, jobs=None, log=lambda *a: None):
    t0 = time.time()
    files = sorted(f for f in glob.glob(repo + "/lib/*.c") if os.path.basename(f) not in EXCLUDE) + [repo + "/bin/hawk.c"]
    jobs = jobs or min(12, os.cpu_count() or 4)
    with concurrent.futures.ProcessPoolExecutor(max_workers=jobs) as ex:
        sums = list(ex.map(summarize_file, [(repo, f, cache) for f in files]))
    log("summaries of %d files in %.1fs" % (len(files), time.time() - t0))

    typedefs = {}
    for s in sums:
        typedefs.update(s["typedefs"])
    defs = {}
    for s in sums:
        for fn, f in s["funcs"].items():
            defs.setdefault(fn, []).append(f)

    def base_of(name, from_file):
        """function name as seen from from_file -> unique base id (name or name@file) or None if external"""
        ds = defs.get(name)
        if not ds:
            return None
        if len(ds) == 1:
            return name
        for f in ds:
            if f["file"] == from_file:
                return "%s@%s" % (name, f["file"])
        for f in ds:
            if not f["static"]:
                return "%s@%s" % (name, f["file"])
        return None
    allf = {}
    for name, ds in defs.items():
        for f in ds:
            allf[name if len(ds) == 1 else "%s@%s" % (name, f["file"])] = f

    # address-taken functions by signature
    addr = set()
    for s in sums:
        for fn in s["addr_global"]:
            n = base_of(fn, s["file"])
            if n:
                addr.add(n)
        for f in s["funcs"].values():
            for fn in list(f["addr"]) + [x for tb in f["tables"].values() for x in tb]:
                n = base_of(fn, f["file"])
                if n:
                    addr.add(n)
    by_sig = {}
    for n in addr:
        by_sig.setdefault(sig_key(allf[n]["type"], typedefs), set()).add(n)
    # function-valued arguments per (callee, param index), for the generic (unspecialised) version of a callee
    fargs_all = {}
    for nid, f in allf.items():
        for site in f["sites"]:
            if site["t"] == "d" and site.get("fargs"):
                cal = base_of(site["n"], f["file"])
                if cal:
                    for i, fn in site["fargs"].items():
                        n = base_of(fn, f["file"])
                        if n:
                            fargs_all.setdefault((cal, int(i)), set()).add(n)
    gtables = {}
    for s in sums:
        for tn, fns in s["tables"].items():
            gtables.setdefault(tn, set()).update(x for x in (base_of(fn, s["file"]) for fn in fns) if x)
    # parameter indices through which a function calls
    pidx = {}
    for nid, f in allf.items():
        ix = set()
        for site in f["sites"]:
            if site["t"] == "p" and site["n"] in f["params"]:
                ix.add(f["params"].index(site["n"]))
        if ix:
            pidx[nid] = sorted(ix)

    def node_name(b, binding):
        if not binding:
            return b
        return "%s<%s>" % (b, ",".join(v for _, v in binding))

    roots = [n for n, f in allf.items() if f["name"] == "main" and f["file"] == "hawk.c"]
    if len(roots) != 1:
        raise ExtractError("expected exactly one main() in bin/hawk.c, found %d" % len(roots))
    edges = {}      # (u,v) -> list of guard tuples or None, one per call site
    esites = {}     # (u,v) -> list of (case label, rendered arguments), one per call site
    ekind = {}
    unresolved = set()
    kinds = collections.Counter()
    seen = {}
    work = [(roots[0], ())]
    while work:
        b, binding = work.pop()
        u = node_name(b, binding)
        if u in seen:
            continue
        seen[u] = b
        f = allf[b]
        bind = dict(binding)
        for site in f["sites"]:
            targets = []     # list of (base, binding)
            kind = site["t"]
            if site["t"] == "d":
                g = base_of(site["n"], f["file"])
                if g:
                    gb = ()
                    if g in pidx:
                        bb = []
                        for i in pidx[g]:
                            fn = _get(site.get("fargs"), i)
                            pn = _get(site.get("pargs"), i)
                            if fn is not None:
                                x = base_of(fn, f["file"])
                                if x:
                                    bb.append((i, x))
                            elif pn is not None and pn in f["params"] and f["params"].index(pn) in bind:
                                bb.append((i, bind[f["params"].index(pn)]))
                        if len(bb) == len(pidx[g]):
                            gb = tuple(bb)
                    targets = [(g, gb)]
                kinds["direct"] += 1
            elif site["t"] == "p":
                pi = f["params"].index(site["n"]) if site["n"] in f["params"] else -1
                if pi in bind:
                    targets = [(bind[pi], ())]
                else:
                    tg = sorted(fargs_all.get((b, pi), ()))
                    if not tg:
                        tg = sorted(by_sig.get(sig_key(site["sig"], typedefs), ()))
                        kind = "s"
                    targets = [(x, ()) for x in tg]
                kinds["param"] += 1
            else:
                tb = None
                if site.get("base"):
                    tb = f["tables"].get(site["base"])
                    if tb is not None:
                        tb = [x for x in (base_of(fn, f["file"]) for fn in tb) if x]
                    elif site["base"] in gtables:
                        tb = sorted(gtables[site["base"]])
                if tb:
                    targets = [(x, ()) for x in tb]
                    kind = "t"
                    kinds["table"] += 1
                else:
                    targets = [(x, ()) for x in sorted(by_sig.get(sig_key(site["sig"], typedefs), ()))]
                    kind = "s"
                    kinds["signature"] += 1
            if not targets and site["t"] != "d":
                kinds["unresolved"] += 1
                unresolved.add("%s: indirect call via %s" % (b, site.get("mem") or site.get("base") or site.get("n") or "?"))
            for (g, gb) in targets:
                v = node_name(g, gb)
                edges.setdefault((u, v), []).append(tuple(site["g"]) if site["g"] else None)
                esites.setdefault((u, v), []).append((site.get("lab", ""), site.get("args", "")))
                ekind.setdefault((u, v), set()).add(kind)
                if v not in seen:
                    work.append((g, gb))
    reach = set(seen)
    succ = {}
    for (u, v) in edges:
        succ.setdefault(u, set()).add(v)
    succ = {u: sorted(vs) for u, vs in succ.items()}
    sccs = tarjan(sorted(reach), succ)
    comp_of = {}
    cyc_nodes = set()
    for i, c in enumerate(sccs):
        for x in c:
            comp_of[x] = i
        if len(c) > 1 or c[0] in succ.get(c[0], ()):
            cyc_nodes |= set(c)
    # classes
    classes = LIMIT_FIELDS + ["stack"] + sorted(set(ASSUMED.values()) | {"tree-depth"})
    assumed_used = set()
    E = []       # (u, v, cls) cls: None plain, else class name
    for (u, v), gs in sorted(edges.items()):
        if not (u in cyc_nodes and v in cyc_nodes and comp_of[u] == comp_of[v]):
            continue
        cls = None
        if all(g is not None for g in gs):
            cls = sorted({g[0] for g in gs})[0]
        else:
            key = (seen[u], seen[v])
            if key in ASSUMED:
                cls = ASSUMED[key]
                assumed_used.add(key)
            elif key[0] in TREE_WALKERS and key[1] in TREE_WALKERS:
                cls = "tree-depth"
        E.append((u, v, cls))
    nodes = sorted(cyc_nodes)
    succ_p = {}
    for u, v, cls in E:
        if cls is None:
            succ_p.setdefault(u, []).append(v)
    comp_u = {}
    residual_groups = {}
    for c in tarjan(nodes, succ_p):
        if len(c) > 1 or c[0] in succ_p.get(c[0], ()):
            # name the group after its hub: the member called from most members (ties: alphabetical)
            cs = set(c)
            indeg_c = {x: 0 for x in c}
            for x in c:
                for y in set(succ_p.get(x, ())):
                    if y in cs:
                        indeg_c[y] += 1
            name = sorted(c, key=lambda x: (-indeg_c[x], x))[0]
            for x in c:
                comp_u[x] = name
            residual_groups[name] = sorted(c)
    residual = set((u, v) for u, v, cls in E if cls is None and u in comp_u and comp_u.get(v) == comp_u[u])
    # topological order of plain non-residual edges (Kahn, deterministic)
    indeg = {n: 0 for n in nodes}
    out = {n: [] for n in nodes}
    for u, v, cls in E:
        if cls is None and (u, v) not in residual:
            out[u].append(v)
            indeg[v] += 1
    ready = [n for n in nodes if indeg[n] == 0]
    heapq.heapify(ready)
    order = []
    while ready:
        x = heapq.heappop(ready)
        order.append(x)
        for y in out[x]:
            indeg[y] -= 1
            if indeg[y] == 0:
                heapq.heappush(ready, y)
    if len(order) != len(nodes):
        raise ExtractError("internal: residual removal did not leave an acyclic graph")
    # one witness cycle per residual group (shortest cycle through the group's name node)
    witnesses = {}
    for name, members in residual_groups.items():
        ms = set(members)
        prev = {}
        dq = collections.deque([name])
        found = None
        while dq and found is None:
            x = dq.popleft()
            for y in succ_p.get(x, ()):
                if (x, y) not in residual or y not in ms:
                    continue
                if y == name:
                    found = x
                    break
                if y not in prev:
                    prev[y] = x
                    dq.append(y)
        path = [found]
        while path[-1] != name:
            path.append(prev[path[-1]])
        path.reverse()
        witnesses[name] = path           # name -> ... -> found (-> name)
    # call sites of the residual edges, each with a stable id: a recursive call added inside an already known
    # unguarded cycle changes this table although the set of residual groups stays the same
    rsites = []
    watched = set(residual) | set((u, v) for u, v, cls in E if cls == "tree-depth")
    for (u, v) in sorted(watched):
        cnt = collections.Counter(esites.get((u, v), []))
        for (lab, args), c in sorted(cnt.items()):
            for i in range(1, c + 1):
                txt = "%s -> %s [%s] (%s) #%d" % (u, v, lab, args, i)
                rsites.append((txt, zlib.crc32(txt.encode())))
    incdec = sorted((n, c, f) for n, fs in allf.items() for c, f in fs.get("incdec", []) if n in set(seen.values()))
    reach_bases = set(seen.values())
    all_guards = {n: f["guards"] for n, f in allf.items() if f["guards"] and n in reach_bases}
    limits_read = sorted({g[0] for gs in all_guards.values() for g in gs})
    real = LIMIT_FIELDS + ["stack"]
    log("graph: %d functions defined, %d nodes reachable from main, %d on cycles, %d intra-SCC edges (%d guarded, %d assumed, %d residual), residual groups %s (%.1fs)" % (
        len(allf), len(reach), len(nodes), len(E), sum(1 for e in E if e[2] in real),
        sum(1 for e in E if e[2] and e[2] not in real), len(residual), sorted(residual_groups), time.time() - t0))
    return dict(nodes=order, edges=E, residual=residual, residual_groups=residual_groups, witnesses=witnesses, residual_sites=rsites, incdec=incdec,
                classes=classes, all_guards=all_guards, limits_read=limits_read, kinds=dict(kinds),
                unresolved=sorted(unresolved), nfuncs=len(allf), nreach=len(reach),
                assumed_used=sorted(assumed_used), assumed_stale=sorted(set(ASSUMED) - assumed_used),
                ekind={k: "".join(sorted(v)) for k, v in ekind.items()}, succ_all=succ)


# ----------------------------------------------------------------------------------------------
# defaults
# ----------------------------------------------------------------------------------------------
OPT2FIELD = {"HAWK_OPT_DEPTH_INCLUDE": "incl", "HAWK_OPT_DEPTH_BLOCK_PARSE": "block_parse", "HAWK_OPT_DEPTH_BLOCK_RUN": "block_run",
             "HAWK_OPT_DEPTH_EXPR_PARSE": "expr_parse", "HAWK_OPT_DEPTH_EXPR_RUN": "expr_run",
             "HAWK_OPT_DEPTH_REX_BUILD": "rex_build", "HAWK_OPT_DEPTH_REX_MATCH": "rex_match"}


def parse_defaults(repo):
    """CLI defaults: the `tmp = N; hawk_setopt(hawk, HAWK_OPT_DEPTH_X, &tmp);` block of bin/hawk.c.
    library defaults: opt.depth is zero after hawk_init's memset unless hawk.c assigns it; stack limit macros."""
    src = open(repo + "/bin/hawk.c").read()
    src_nc = re.sub(r"/\*.*?\*/", "", src, flags=re.S)
    cli = {f: 0 for f in LIMIT_FIELDS}
    cur = None
    found = 0
    for m in re.finditer(r"\btmp\s*=\s*(\d+)\s*;|hawk_setopt\s*\(\s*hawk\s*,\s*(HAWK_OPT_DEPTH_\w+)\s*,\s*&\s*(\w+)\s*\)", src_nc):
        if m.group(1) is not None:
            cur = int(m.group(1))
        else:
            if m.group(3) != "tmp" or cur is None or m.group(2) not in OPT2FIELD:
                raise ExtractError("bin/hawk.c: cannot interpret %r" % m.group(0))
            cli[OPT2FIELD[m.group(2)]] = cur
            found += 1
    if found == 0:
        raise ExtractError("bin/hawk.c: no hawk_setopt(HAWK_OPT_DEPTH_*) found")
    prv = re.sub(r"/\*.*?\*/", "", open(repo + "/lib/hawk-prv.h").read(), flags=re.S)

    def macro(name):
        m = re.search(r"#\s*define\s+%s\s+\(\s*(\d+)\s*\)" % name, prv)
        if not m:
            raise ExtractError("hawk-prv.h: %s is not a plain number" % name)
        return int(m.group(1))
    lib = {f: 0 for f in LIMIT_FIELDS}
    hc = re.sub(r"/\*.*?\*/", "", open(repo + "/lib/hawk.c").read(), flags=re.S)
    for m in re.finditer(r"opt\.depth\.s\.(\w+)\s*=\s*(\d+)", hc):
        if m.group(1) not in lib:
            raise ExtractError("hawk.c: unknown depth field %s" % m.group(1))
        lib[m.group(1)] = int(m.group(2))
    if not re.search(r"opt\.rtx_stack_limit\s*=\s*HAWK_DFL_RTX_STACK_LIMIT", hc):
        raise ExtractError("hawk.c: default of opt.rtx_stack_limit not found")
    return dict(cli=cli, lib=lib, stack_dfl=macro("HAWK_DFL_RTX_STACK_LIMIT"), stack_min=macro("HAWK_MIN_RTX_STACK_LIMIT"))


# ----------------------------------------------------------------------------------------------
# Lean emission
# ----------------------------------------------------------------------------------------------
def lean_str(s):
    return '"' + s.replace("\\", "\\\\").replace('"', '\\"') + '"'


def emit_lean(g, d):
    nodes = g["nodes"]
    idx = {n: i for i, n in enumerate(nodes)}
    classes = g["classes"]

    def code(u, v, cls):
        if cls is None:
            return 1 if (u, v) in g["residual"] else 0
        return 2 + classes.index(cls)
    L = []
    L.append("/-! GENERATED by extract/callgraph.py from the current sources - do not edit.")
    L.append("Call graph of libhawk restricted to the functions on recursion cycles reachable from the CLI's main().")
    L.append("Nodes are numbered by position in `names`, which is a topological order of the plain edges.")
    L.append("`edges` = (caller, callee, class): class 0 = plain (unguarded, caller < callee), 1 = RESIDUAL (unguarded and on a")
    L.append("cycle of unguarded edges), k+2 = cut by `classNames[k]` (a depth/stack limit check, or an assumption). -/")
    L.append("namespace Hawk.Gen.CallGraph")
    L.append("")
    L.append("def classNames : List String := [" + ", ".join(lean_str(x) for x in classes) + "]")
    L.append("")
    L.append("/-- the first `nLimitClasses` of classNames are real checks in the code; the rest are assumptions -/")
    L.append("def nLimitClasses : Nat := %d" % (len(LIMIT_FIELDS) + 1))
    L.append("")
    L.append("def names : List String := [")
    L.append(",\n".join("  " + lean_str(n) for n in nodes))
    L.append("]")
    L.append("")
    L.append("def nNodes : Nat := %d" % len(nodes))
    L.append("")
    L.append("def edges : List (Nat × Nat × Nat) := [")
    L.append(",\n".join("  (%d, %d, %d)" % (idx[u], idx[v], code(u, v, cls))
                        for u, v, cls in sorted(g["edges"], key=lambda e: (idx[e[0]], idx[e[1]]))))
    L.append("]")
    L.append("")
    L.append("/-- names of the unguarded recursion cycles (smallest member of each strongly connected group of residual edges) -/")
    L.append("def residualGroups : List String := [" + ", ".join(lean_str(x) for x in sorted(g["residual_groups"])) + "]")
    L.append("")
    L.append("/-- one closed walk of residual edges per group (node numbers; the walk returns to its first node) -/")
    L.append("def residualWitness : List (List Nat) := [")
    L.append(",\n".join("  [" + ", ".join(str(idx[x]) for x in g["witnesses"][k]) + "]" for k in sorted(g["witnesses"])))
    L.append("]")
    L.append("")
    L.append("/-- every call site of a residual edge: `caller -> callee [enclosing case label] (arguments) #occurrence`, with its")
    L.append("    id = crc32 of that text.  A recursive call added inside a known unguarded cycle shows up here. -/")
    L.append("def residualSites : List (String × Nat) := [")
    L.append(",\n".join("  (%s, %d)" % (lean_str(t), i) for t, i in g["residual_sites"]))
    L.append("]")
    L.append("")
    L.append("def residualSiteIds : List Nat := [" + ", ".join(str(i) for _, i in g["residual_sites"]) + "]")
    L.append("")
    L.append("/-- the `counter++ ... counter--` idiom, per function and depth counter: 1 = no return/goto between an increment and")
    L.append("    the next decrement, 0 = an early exit lies in between (the counter leaks), 2 = only one side in this function -/")
    L.append("def incDecPairs : List (String × String × Nat) := [")
    L.append(",\n".join("  (%s, %s, %d)" % (lean_str(n), lean_str(c), f) for n, c, f in g["incdec"]))
    L.append("]")
    L.append("")
    L.append("/-- limits that some guard idiom of the reachable code actually reads -/")
    L.append("def limitsRead : List String := [" + ", ".join(lean_str(x) for x in g["limits_read"]) + "]")
    L.append("")
    L.append("/-- defaults in the order incl, block_parse, block_run, expr_parse, expr_run, rex_build, rex_match (0 = unlimited) -/")
    L.append("def cliDefaults : List Nat := [" + ", ".join(str(d["cli"][f]) for f in LIMIT_FIELDS) + "]")
    L.append("def libDefaults : List Nat := [" + ", ".join(str(d["lib"][f]) for f in LIMIT_FIELDS) + "]")
    L.append("def stackLimitDefault : Nat := %d" % d["stack_dfl"])
    L.append("def stackLimitMin : Nat := %d" % d["stack_min"])
    L.append("")
    L.append("end Hawk.Gen.CallGraph")
    return "\n".join(L) + "\n"


def generate(repo, out_path, cache=None, log=lambda *a: None):
    g = build_graph(repo, cache=cache, log=log)
    d = parse_defaults(repo)
    txt = emit_lean(g, d)
    changed = False
    old = open(out_path).read() if os.path.exists(out_path) else None
    if old != txt:
        os.makedirs(os.path.dirname(out_path), exist_ok=True)
        with open(out_path, "w") as f:
            f.write(txt)
        changed = True
    return g, d, changed


if __name__ == "__main__":
    import argparse
    ap = argparse.ArgumentParser()
    ap.add_argument("--repo", default=os.environ.get("HAWK_REPO", "/repo"))
    ap.add_argument("--out", default=os.path.join(os.path.dirname(HERE), "lean", "HawkModel", "Gen", "CallGraph.lean"))
    ap.add_argument("--cache", default="/var/tmp/hawkverif-cgcache")
    ap.add_argument("--dump", action="store_true")
    ap.add_argument("--sites", action="store_true", help="print the residual call sites and the id list to pin in Props/C14.lean")
    ap.add_argument("--why", default=None, help="print a shortest call cycle through this function")
    a = ap.parse_args()
    g, d, ch = generate(a.repo, a.out, cache=a.cache, log=lambda *x: print(*x, file=sys.stderr))
    print("written" if ch else "unchanged", a.out)
    if a.why:
        src = a.why
        prev = {}
        dq = collections.deque([src])
        found = None
        while dq and found is None:
            x = dq.popleft()
            for y in g["succ_all"].get(x, ()):
                if y == src:
                    found = x
                    break
                if y not in prev:
                    prev[y] = x
                    dq.append(y)
        if found is None:
            print("no cycle through", src)
        else:
            path = [found]
            while path[-1] != src:
                path.append(prev[path[-1]])
            path.reverse()
            path.append(src)
            for i in range(len(path) - 1):
                print("  %s -[%s]-> %s" % (path[i], g["ekind"].get((path[i], path[i + 1]), "?"), path[i + 1]))
    if a.sites:
        for t, i in g["residual_sites"]:
            print("%10d  %s" % (i, t))
        ids = sorted(i for _, i in g["residual_sites"])
        print("def knownResidualSiteIds : List Nat := [")
        for j in range(0, len(ids), 8):
            print("  " + ", ".join(str(x) for x in ids[j:j + 8]) + ("," if j + 8 < len(ids) else ""))
        print("]")
    if a.dump:
        print("defaults", d)
        print("kinds", g["kinds"])
        print("unresolved indirect calls:", len(g["unresolved"]))
        for u in g["unresolved"]:
            print("   ", u)
        print("guards:")
        for n, gs in sorted(g["all_guards"].items()):
            print("   ", n, gs)
        print("assumed stale:", g["assumed_stale"])
        print("residual groups:")
        for k, v in sorted(g["residual_groups"].items()):
            print("   ", k, len(v), v, "witness", g["witnesses"][k])
        print("cut edges:")
        for u, v, cls in g["edges"]:
            if cls:
                print("   ", u, "->", v, cls)
