#!/usr/bin/env python3
"""C09 translator: which parser state does hawk_clear() forget?

"An interpreter that is reset and given a new program behaves like a freshly created one" needs every field of
hawk_t that the parser (lib/parse.c) writes to be put back by hawk_clear() (lib/hawk.c), which hawk_parse() calls
on entry and parse() calls on failure.  This script re-derives both sets from the working tree on every run:

  tokens  : every member of `struct hawk_t` of type hawk_tok_t (lib/hawk-prv.h) must be the argument of a
            clear_token(&hawk->X) call in hawk_clear(), and of fini_token() in hawk_fini() and init_token() in hawk_init()
  parse.* : every first-level field of hawk->parse that lib/parse.c mentions must be mentioned in hawk_clear()
  tree.*  : every first-level field of hawk->tree that lib/parse.c ASSIGNS must be mentioned in hawk_clear()

unless it is in KEPT below with the reason why surviving a reset is harmless.  Fails closed (exit 2) when the
sources do not have the expected shape; exit 1 with the offending fields when the rule is broken; prints JSON.
"""
import json, os, re, sys

REPO = os.environ.get("HAWK_REPO", "/repo")

KEPT = {
    "parse.id": "id.block is assigned at the start of every program unit before it is read; id.stmt is saved and restored around every statement, also when the statement fails",
    "parse.lparen_seq": "monotonic sequence number; only equality between numbers drawn during one parse is ever tested",
    "parse.lparen_last_closed": "compared only with a sequence number drawn later in the same parse",
    "tree.ngbls_base": "the number of built-in plus hawk_addgbl() globals: deliberately survives (hawk_clear keeps those globals)",
}


def strip_comments(src):
    src = re.sub(r"/\*.*?\*/", lambda m: " " * 0 + "\n" * m.group(0).count("\n"), src, flags=re.S)
    return re.sub(r"//[^\n]*", "", src)


def func_body(src, name):
    m = re.search(r"^(?:static\s+)?(?:void|int)\s+%s\s*\([^)]*\)\s*\{" % re.escape(name), src, re.M)
    if not m:
        return None
    i = m.end(); depth = 1
    while i < len(src) and depth:
        if src[i] == "{": depth += 1
        elif src[i] == "}": depth -= 1
        i += 1
    return src[m.end():i - 1] if depth == 0 else None


def main():
    try:
        prv = strip_comments(open(os.path.join(REPO, "lib", "hawk-prv.h")).read())
        hawkc = strip_comments(open(os.path.join(REPO, "lib", "hawk.c")).read())
        parsec = strip_comments(open(os.path.join(REPO, "lib", "parse.c")).read())
    except OSError as e:
        print(json.dumps(dict(ok=False, shape="cannot read sources: %s" % e))); return 2
    m = re.search(r"^struct hawk_t\s*\{", prv, re.M)
    if not m:
        print(json.dumps(dict(ok=False, shape="struct hawk_t not found in hawk-prv.h"))); return 2
    i = m.end(); depth = 1
    while i < len(prv) and depth:
        if prv[i] == "{": depth += 1
        elif prv[i] == "}": depth -= 1
        i += 1
    st = prv[m.end():i - 1]
    tokens = re.findall(r"^\s*hawk_tok_t\s+(\w+)\s*;", st, re.M)
    if len(tokens) < 2:
        print(json.dumps(dict(ok=False, shape="fewer than two hawk_tok_t members in struct hawk_t: %s" % tokens))); return 2
    bodies = {}
    for fn in ("hawk_clear", "hawk_fini", "hawk_init"):
        bodies[fn] = func_body(hawkc, fn)
        if bodies[fn] is None:
            print(json.dumps(dict(ok=False, shape="%s() not found in hawk.c" % fn))); return 2
    problems = []
    for fn, call in (("hawk_clear", "clear_token"), ("hawk_fini", "fini_token"), ("hawk_init", "init_token")):
        got = re.findall(r"\b%s\s*\((?:\s*hawk\s*,)?\s*&\s*hawk->(\w+)\s*\)" % call, bodies[fn])
        if not got:
            print(json.dumps(dict(ok=False, shape="no %s(&hawk->X) call in %s()" % (call, fn)))); return 2
        for t in tokens:
            if got.count(t) != 1:
                problems.append("%s() calls %s() %d times for the token buffer hawk->%s (every token buffer of hawk_t exactly once: %s)" % (fn, call, got.count(t), t, ", ".join(tokens)))
        for t in set(got) - set(tokens):
            problems.append("%s() calls %s() for hawk->%s which is not a hawk_tok_t member of hawk_t" % (fn, call, t))
    # the parser must not reach token buffers other than the known ones
    used_tok = set(re.findall(r"hawk->(\w*tok)\b", parsec))
    for t in used_tok - set(tokens):
        print(json.dumps(dict(ok=False, shape="parse.c uses hawk->%s which is not a hawk_tok_t member" % t))); return 2
    clear = bodies["hawk_clear"]
    cleared_parse = set(re.findall(r"hawk->parse\.(\w+)", clear))
    cleared_tree = set(re.findall(r"hawk->tree\.(\w+)", clear))
    used_parse = set(re.findall(r"hawk->parse\.(\w+)", parsec))
    assigned_tree = set(re.findall(r"hawk->tree\.(\w+)(?:\.\w+)*\s*(?:=[^=]|\+\+|--|\+=|-=)", parsec))
    if len(used_parse) < 5 or len(cleared_parse) < 5:
        print(json.dumps(dict(ok=False, shape="unexpectedly few hawk->parse fields: parser %s, hawk_clear %s" % (sorted(used_parse), sorted(cleared_parse))))); return 2
    for f in sorted(used_parse - cleared_parse):
        if "parse." + f not in KEPT:
            problems.append("lib/parse.c uses hawk->parse.%s but hawk_clear() never touches it: it survives a reset" % f)
    for f in sorted(assigned_tree - cleared_tree):
        if "tree." + f not in KEPT:
            problems.append("lib/parse.c assigns hawk->tree.%s but hawk_clear() never touches it: it survives a reset" % f)
    stale_kept = [k for k in KEPT if k.split(".")[1] not in (used_parse if k.startswith("parse.") else assigned_tree | set(re.findall(r"hawk->tree\.(\w+)", parsec)))]
    out = dict(ok=not problems, tokens=tokens, parser_parse_fields=sorted(used_parse), cleared_parse_fields=sorted(cleared_parse),
               parser_tree_fields=sorted(assigned_tree), cleared_tree_fields=sorted(cleared_tree), kept=KEPT, problems=problems,
               kept_but_unused=stale_kept)
    print(json.dumps(out, indent=1, sort_keys=True))
    return 1 if problems else 0


if __name__ == "__main__":
    sys.exit(main())
