"""Translator for C12: the conversion-character dispatch of lib/run.c hawk_rtx_format / hawk_rtx_formatmbs and the float case
labels + flag re-composition order of lib/fmt.c fmt_outv  ->  lean/HawkModel/Gen/FmtDispatch.lean

What is regenerated from the source on every run:
  * `dispatchWide` / `dispatchByte`: the rows (conversion character, handler) of the `if (fmt[i] == 'd' || ...) {..} else if (...) {..}
    ... else {..}` chain that follows the flags/width/precision scanner, in source order.  The handler of a branch is recognised
    by what the branch calls: int = hawk_fmt_(u)intmax_to_*, flt = hawk_rtx_valtoflt + *ecs_fcat, chr = the `ch_len` branch,
    str = the `str_len` branch.  The final `else` must be the copy-through (`OUT_CHAR (fmt[i])` resp. `OUT_MCHAR`).
  * `intSwitchWide` / `intSwitchByte`: the rows of `switch (fmt[i])` inside the integer branch (fall-through resolved):
    (character or none for `default`, base, fmt_uint, UPPERCASE, ZEROLEAD under FLAG_HASH, prefix under FLAG_HASH and l != 0,
    PLUSSIGN/EMPTYSIGN taken from the flags).
  * `fmtcFloatCases`: the case labels of the branch of fmt_outv that calls snprintf; `recomposeFlags`: the order in which that branch
    writes the flag characters back ("compose back the format specifier").
Fails closed (TranslateError): function not found, a condition that is not a disjunction of `fmt[i] == '<char>'`, a branch whose
handler is not recognised or ambiguous, a `case` body that assigns anything but fmt_flags / fmt_uint / fmt_prefix, an unknown flag macro.
The generated file is written only if its content changed.
"""
import os, re, sys

HERE = os.path.dirname(os.path.abspath(__file__))
sys.path.insert(0, os.path.dirname(HERE))
from vlib import common as C

OUT = os.path.join(C.LEAN, "HawkModel", "Gen", "FmtDispatch.lean")


class TranslateError(Exception):
    pass


def strip_comments(src):
    out, i, n = [], 0, len(src)
    while i < n:
        c = src[i]
        if src.startswith("/*", i):
            j = src.find("*/", i + 2)
            if j < 0: raise TranslateError("unterminated comment")
            out.append(" " * 1); i = j + 2
        elif src.startswith("//", i):
            j = src.find("\n", i)
            i = n if j < 0 else j
        elif c == '"' or c == "'":
            j = i + 1
            while j < n and src[j] != c:
                j += 2 if src[j] == "\\" else 1
            out.append(src[i:j + 1]); i = j + 1
        else:
            out.append(c); i += 1
    return "".join(out)


def skip_lit(s, i):
    q = s[i]; j = i + 1
    while s[j] != q:
        j += 2 if s[j] == "\\" else 1
    return j + 1


def match_close(s, i, op, cl):
    """s[i] == op; index just behind the matching closer (string/char literals skipped)"""
    assert s[i] == op
    d, j = 0, i
    while j < len(s):
        ch = s[j]
        if ch in "\"'":
            j = skip_lit(s, j); continue
        if ch == op: d += 1
        elif ch == cl:
            d -= 1
            if d == 0: return j + 1
        j += 1
    raise TranslateError("unbalanced %s%s" % (op, cl))


def function_body(src, header_re):
    m = re.search(header_re, src, re.M)
    if not m: raise TranslateError("function %s not found" % header_re)
    i = src.index("{", src.index(")", m.end()))
    # the parameter list may contain parentheses: take the first '{' at column 0 after the header
    m2 = re.compile(r"^\{", re.M).search(src, m.end())
    if not m2: raise TranslateError("body of %s not found" % header_re)
    j = match_close(src, m2.start(), "{", "}")
    return src[m2.start():j]


COND_ATOM = re.compile(r"^fmt\[i\]\s*==\s*(?:HAWK_T\(|HAWK_BT\()?'(\\?.)'\)?$")


def parse_cond(cond):
    chars = []
    for atom in cond.split("||"):
        a = atom.strip()
        m = COND_ATOM.match(a)
        if not m: raise TranslateError("dispatch condition is not a disjunction of fmt[i] == '<char>': %r" % a)
        chars.append(m.group(1))
    return chars


def parse_chain(body):
    """the if / else-if chain of the conversion dispatch: list of (chars | None for the final else, branch text)"""
    m = re.search(r"if\s*\(\s*fmt\[i\]\s*==\s*(?:HAWK_B?T\()?'d'", body)
    if not m: raise TranslateError("start of the conversion dispatch (if (fmt[i] == 'd' ...) not found")
    i = m.start()
    rows = []
    while True:
        if not body.startswith("if", i): raise TranslateError("expected `if` in the dispatch chain at %r" % body[i:i + 40])
        p = body.index("(", i)
        pe = match_close(body, p, "(", ")")
        cond = re.sub(r"\s+", " ", body[p + 1:pe - 1])
        b = pe
        while body[b].isspace(): b += 1
        if body[b] != "{": raise TranslateError("dispatch branch is not a block")
        be = match_close(body, b, "{", "}")
        rows.append((parse_cond(cond), body[b:be]))
        k = be
        while body[k].isspace(): k += 1
        if not body.startswith("else", k): raise TranslateError("the dispatch chain does not end in an else branch")
        k += 4
        while body[k].isspace(): k += 1
        if body.startswith("if", k) and not body[k + 2].isalnum():
            i = k; continue
        if body[k] != "{": raise TranslateError("final else of the dispatch chain is not a block")
        ke = match_close(body, k, "{", "}")
        rows.append((None, body[k:ke]))
        return rows


def classify(text):
    marks = [k for k, rx in (("int", r"\bfmt_uint\b"), ("chr", r"\bch_len\b"), ("str", r"\bstr_len\b")) if re.search(rx, text)]
    if len(marks) > 1: raise TranslateError("handler of a dispatch branch ambiguous (%r)" % marks)
    if marks == ["int"]:
        if not re.search(r"hawk_fmt_u?intmax_to_(oo|b)cstr", text): raise TranslateError("integer branch does not call hawk_fmt_(u)intmax_to_*cstr")
        return "int"
    if marks: return marks[0]
    if "hawk_rtx_valtoflt" in text and re.search(r"hawk_(oo|b)ecs_fcat", text): return "flt"
    raise TranslateError("handler of a dispatch branch not recognised")


def parse_int_switch(text):
    m = re.search(r"switch\s*\(\s*fmt\[i\]\s*\)", text)
    if not m: raise TranslateError("switch (fmt[i]) not found in the integer branch")
    b = text.index("{", m.end())
    be = match_close(text, b, "{", "}")
    sw = text[b + 1:be - 1]
    # split into labels and statement text
    toks = re.split(r"(case\s+(?:HAWK_B?T\()?'\\?.'\)?\s*:|default\s*:)", sw)
    if toks[0].strip(): raise TranslateError("text before the first case label: %r" % toks[0].strip()[:40])
    labels = []
    for k in range(1, len(toks), 2):
        lab = toks[k]
        mm = re.search(r"'(\\?.)'", lab)
        labels.append((mm.group(1) if mm else None, toks[k + 1]))
    rows = []
    for k, (ch, _) in enumerate(labels):
        acc = ""
        for (_, t) in labels[k:]:
            depth0 = re.sub(r"\{[^{}]*\}", "", t)            # a break inside a nested block does not end the case
            if re.search(r"\bbreak\s*;", depth0):
                acc += t; break
            acc += t
        else:
            if ch is not None: raise TranslateError("case '%s' runs off the end of the switch" % ch)
        assigned = set(re.findall(r"\b([A-Za-z_]\w*)\s*(?:\|=|=)(?!=)", acc))
        if not assigned <= {"fmt_flags", "fmt_uint", "fmt_prefix"}:
            raise TranslateError("case %r assigns %r" % (ch, sorted(assigned)))
        bases = re.findall(r"fmt_flags\s*\|=\s*(\d+)\s*;", acc)
        if len(bases) != 1: raise TranslateError("case %r: base not unique (%r)" % (ch, bases))
        macros = set(re.findall(r"HAWK_FMT_INTMAX_([A-Z]+)", acc))
        if not macros <= {"UPPERCASE", "ZEROLEAD", "PLUSSIGN", "EMPTYSIGN"}:
            raise TranslateError("case %r uses unknown flag macros %r" % (ch, sorted(macros)))
        uint = bool(re.search(r"fmt_uint\s*=\s*1\s*;", acc))
        pfx = None
        if "fmt_prefix" in assigned:
            if not re.search(r"if\s*\(\s*l\s*&&\s*\(\s*flags\s*&\s*FLAG_HASH\s*\)\s*\)", acc):
                raise TranslateError("case %r: prefix not guarded by l && (flags & FLAG_HASH)" % ch)
            lits = re.findall(r"HAWK_B?T\(\"([^\"]*)\"\)", acc)
            tern = re.search(r"\(\s*fmt\[i\]\s*==\s*(?:HAWK_B?T\()?'(.)'\)?\s*\)\s*\?\s*HAWK_B?T\(\"([^\"]*)\"\)\s*:\s*HAWK_B?T\(\"([^\"]*)\"\)", acc)
            if tern: pfx = tern.group(2) if ch == tern.group(1) else tern.group(3)
            elif len(lits) == 1: pfx = lits[0]
            else: raise TranslateError("case %r: prefix literal not understood" % ch)
        zl = "ZEROLEAD" in macros
        if zl and not re.search(r"if\s*\(\s*flags\s*&\s*FLAG_HASH\s*\)", acc): raise TranslateError("case %r: ZEROLEAD not guarded by FLAG_HASH" % ch)
        signs = "PLUSSIGN" in macros and "EMPTYSIGN" in macros
        if ("PLUSSIGN" in macros) != ("EMPTYSIGN" in macros): raise TranslateError("case %r: only one of PLUSSIGN/EMPTYSIGN" % ch)
        rows.append((ch, int(bases[0]), uint, "UPPERCASE" in macros, zl, pfx, signs))
    if [r for r in rows if r[0] is None] == []: raise TranslateError("no default in switch (fmt[i])")
    return rows


def parse_fmtc(src):
    k = src.find("snprintf(")
    m = None
    for mm in re.finditer(r"((?:case\s+'.'\s*:\s*)+)\{\s*int q;", src):
        m = mm
    if m is None: raise TranslateError("float case of fmt_outv not found")
    cases = re.findall(r"case\s+'(.)'", m.group(1))
    blk_end = match_close(src, src.index("{", m.end(1)), "{", "}")
    blk = src[m.end(1):blk_end]
    if "snprintf" not in blk: raise TranslateError("the float case of fmt_outv does not call snprintf")
    order = re.findall(r"if\s*\(\s*flagc\s*&\s*FLAGC_([A-Z0-9]+)\s*\)\s*fb\.fmt\.ptr\[fmtlen\+\+\]\s*=\s*'(.)'\s*;", blk)
    flags = [(n, c) for n, c in order if n in ("SPACE", "SHARP", "SIGN", "LEFTADJ", "ZEROPAD")]
    if len(flags) != 5 or len({n for n, _ in flags}) != 5: raise TranslateError("re-composition of the five flags not understood: %r" % order)
    rest = [n for n, _ in order if n not in ("SPACE", "SHARP", "SIGN", "LEFTADJ", "ZEROPAD")]
    if rest != ["STAR1", "DOT", "STAR2"]: raise TranslateError("re-composition of width/precision not understood: %r" % rest)
    return cases, flags


def lean_char(c):
    return "'\\\\'" if c == "\\" else "'%s'" % c


def generate():
    run_c = strip_comments(open(os.path.join(C.REPO, "lib", "run.c"), errors="replace").read())
    fmt_c = strip_comments(open(os.path.join(C.REPO, "lib", "fmt.c"), errors="replace").read())
    res = {}
    for name, hdr in (("Wide", r"^hawk_ooch_t\*\s+hawk_rtx_format\s*\("), ("Byte", r"^hawk_bch_t\*\s+hawk_rtx_formatmbs\s*\(")):
        body = function_body(run_c, hdr)
        chain = parse_chain(body)
        rows, isw = [], None
        for chars, text in chain:
            if chars is None:
                if not re.search(r"OUT_M?CHAR\s*\(\s*fmt\[i\]\s*\)", text): raise TranslateError("the final else of the dispatch does not copy the character through")
                continue
            kind = classify(text)
            for ch in chars: rows.append((ch, kind))
            if kind == "int":
                if isw is not None: raise TranslateError("two integer branches")
                isw = parse_int_switch(text)
        if isw is None: raise TranslateError("no integer branch")
        if len({c for c, _ in rows}) != len(rows): raise TranslateError("a conversion character appears twice in the dispatch")
        res[name] = (rows, isw)
    cases, flags = parse_fmtc(fmt_c)
    L = ["/-! GENERATED by extract/fmt_dispatch.py from lib/run.c and lib/fmt.c — do not edit -/", "namespace Hawk.Fmt.Gen", ""]
    for name in ("Wide", "Byte"):
        rows, isw = res[name]
        L.append("/-- rows of the conversion dispatch chain of %s, in source order -/" % ("hawk_rtx_format" if name == "Wide" else "hawk_rtx_formatmbs"))
        L.append("def dispatch%s : List (Char × String) := [%s]" % (name, ", ".join("(%s, \"%s\")" % (lean_char(c), k) for c, k in rows)))
        L.append("/-- rows of `switch (fmt[i])` in its integer branch: (char | default, base, fmt_uint, UPPERCASE, ZEROLEAD under #, prefix under # and l != 0, +/space signs) -/")
        L.append("def intSwitch%s : List (Option Char × Nat × Bool × Bool × Bool × Option String × Bool) := [%s]" % (name, ", ".join(
            "(%s, %d, %s, %s, %s, %s, %s)" % ("none" if c is None else "some " + lean_char(c), b, str(u).lower(), str(up).lower(), str(zl).lower(),
                                             "none" if px is None else 'some "%s"' % px, str(sg).lower()) for c, b, u, up, zl, px, sg in isw)))
        L.append("")
    L.append("/-- case labels of the branch of fmt_outv (fmt.c) that hands the conversion to snprintf -/")
    L.append("def fmtcFloatCases : List Char := [%s]" % ", ".join(lean_char(c) for c in cases))
    L.append("/-- order in which that branch writes the flag characters back (FLAGC_ name, character) -/")
    L.append("def recomposeFlags : List (String × Char) := [%s]" % ", ".join("(\"%s\", %s)" % (n, lean_char(c)) for n, c in flags))
    L += ["", "end Hawk.Fmt.Gen", ""]
    text = "\n".join(L)
    os.makedirs(os.path.dirname(OUT), exist_ok=True)
    old = open(OUT).read() if os.path.exists(OUT) else None
    if old != text:
        with open(OUT, "w") as f: f.write(text)
    return dict(wide_rows=len(res["Wide"][0]), byte_rows=len(res["Byte"][0]), int_cases=len(res["Wide"][1]), float_cases=len(cases), changed=(old != text))


if __name__ == "__main__":
    print(generate())
    print(open(OUT).read())
