#!/usr/bin/env python3
"""C01 translator: every push onto the run-time value stack (HAWK_RTX_STACK_PUSH, an unchecked store) in lib/run.c
with the availability test that reserves the room for it.

One row per reservation `if (HAWK_RTX_STACK_AVAIL(rtx) < R) { ... return ...; }` (AVAIL = stack_limit - stack_top):
  fn, line, reserve   canonical text of R (lit = its value if R is an integer literal, else 0)
  base                if R is a local: the expression it is initialised/assigned with before the test ("" otherwise)
  incs                conditional additions `if (c1 && c2 ..) R += t` made before the test: (sorted conjunct texts, t)
  straight            number of pushes after the test that are in no loop
  loops               the loops containing pushes after the test (up to the next reservation or the end of the function):
                      (shape, bound, guards)   shape = countdown  `while (X > 0) { --X; push }` / do-while      bound = X
                                                       countup    `for (i = 0; i < B; i++) push`                 bound = B
                                                       padto      `while (n < B) { push; n++ }`                  bound = B
                                                       listwalk   `for (p = L; p; p = p->next) .. push ..`       bound = L
                                                       other      anything else (the theorem rejects it)
                      guards = sorted conjunct texts of the enclosing `if`s between the function body and the loop
A push that is preceded by no reservation in its function yields a row with reserve = "" (rejected by the theorem).
Output: lean/HawkModel/Gen/StackSites.lean; `stack_reserved` (Props/C01.lean) demands that every row has one of the
accepted shapes, in particular for hawk_rtx_evalcall that the padding for omitted arguments is reserved under exactly the
condition under which it is pushed.
"""
import os, sys
HERE = os.path.dirname(os.path.abspath(__file__))
sys.path.insert(0, HERE)
import c01_clang as A  # noqa: E402
from c01_clang import kids, strip, unparse, Unknown, C  # noqa: E402

AVAIL = "(rtx->stack_limit-rtx->stack_top)"


def callee(n):
    n = strip(n)
    if n.get("kind") == "CallExpr":
        f = strip(kids(n)[0])
        if f.get("kind") == "DeclRefExpr":
            return f["referencedDecl"]["name"]
    return None


def uncast(n):
    n = strip(n)
    while n.get("kind") == "CStyleCastExpr":
        n = strip(kids(n)[0])
    return n


def cond_core(n):
    n = strip(n)
    if n.get("kind") == "CallExpr" and callee(n) == "__builtin_expect":
        a = strip(kids(n)[1])
        # !!(x)
        while a.get("kind") == "UnaryOperator" and a.get("opcode") == "!" and strip(kids(a)[0]).get("kind") == "UnaryOperator" and strip(kids(a)[0]).get("opcode") == "!":
            a = strip(kids(strip(kids(a)[0]))[0])
        return cond_core(a)
    return n


def conjuncts(n):
    n = cond_core(n)
    if n.get("kind") == "BinaryOperator" and n.get("opcode") == "&&":
        return conjuncts(kids(n)[0]) + conjuncts(kids(n)[1])
    return [unparse(n)]


def is_push(n):
    """HAWK_RTX_STACK_PUSH: the inline function, or its macro form rtx->stack[rtx->stack_top++] = v"""
    if n.get("kind") == "CallExpr" and callee(n) == "HAWK_RTX_STACK_PUSH":
        return True
    if n.get("kind") == "BinaryOperator" and n.get("opcode") == "=":
        l = strip(kids(n)[0])
        if l.get("kind") == "ArraySubscriptExpr" and unparse(l).replace(" ", "") == "rtx->stack[rtx->stack_top++]":
            return True
    return False


def reservation(n):
    """IfStmt that is an availability test -> canonical text of R, else None"""
    if n.get("kind") != "IfStmt":
        return None
    c = cond_core(kids(n)[0])
    if c.get("kind") == "BinaryOperator" and c.get("opcode") == "<" and unparse(kids(c)[0]) == AVAIL:
        return unparse(uncast(kids(c)[1]))
    return None


def loop_shape(loop):
    k = loop["kind"]
    raw = loop.get("inner")
    if k == "WhileStmt":
        cnd, body, init, inc = raw[0], raw[1], None, None
    elif k == "DoStmt":
        body, cnd, init, inc = raw[0], raw[1], None, None
    else:
        if len(raw) != 5:
            raise Unknown("for statement with %d parts" % len(raw))
        init, cnd, inc, body = raw[0], raw[2], raw[3], raw[4]
    if not cnd:
        return "other", ""
    c = cond_core(cnd)
    txt = unparse(c)
    if c.get("kind") == "BinaryOperator" and c.get("opcode") == ">" and unparse(kids(c)[1]) == "0":
        x = unparse(kids(c)[0])
        dec = [False]

        def f(n, d):
            if n.get("kind") == "UnaryOperator" and n.get("opcode") == "--" and unparse(kids(n)[0]) == x:
                dec[0] = True
        A.walk(body, f)
        return ("countdown", x) if dec[0] else ("other", txt)
    if c.get("kind") == "BinaryOperator" and c.get("opcode") == "<":
        i, b = unparse(kids(c)[0]), unparse(uncast(kids(c)[1]))
        incd = [False]

        def f2(n, d):
            if n.get("kind") == "UnaryOperator" and n.get("opcode") == "++" and unparse(kids(n)[0]) == i:
                incd[0] = True
        if inc:
            A.walk(inc, f2)
            if incd[0]:
                return "countup", b
        A.walk(body, f2)
        return ("padto", b) if incd[0] else ("other", txt)
    if c.get("kind") == "DeclRefExpr" and inc and init:
        p = c["referencedDecl"]["name"]
        itxt, inctxt = unparse(init) if init.get("kind", "").endswith("Operator") else "", unparse(inc)
        if ("%s=%s->next" % (p, p)) in inctxt.replace("(", "").replace(")", ""):
            # first assignment of the init part: p = L
            first = init
            while first.get("kind") == "BinaryOperator" and first.get("opcode") == ",":
                first = kids(first)[0]
            first = strip(first)
            if first.get("kind") == "BinaryOperator" and first.get("opcode") == "=" and unparse(kids(first)[0]) == p:
                return "listwalk", unparse(kids(first)[1])
    return "other", txt


def analyse_function(name, body):
    """linear walk in source order: reservations and pushes with their enclosing loops / if-guards"""
    events = []     # (line, 'res', R, node) | (line, 'push', loopnode|None, guards)
    assigns = {}    # var -> list of (line, kind, text, conds)

    def walk(n, loops, guards):
        k = n.get("kind")
        c = kids(n)
        r = reservation(n)
        if r is not None:
            events.append((A.line_of(n), "res", r, None))
            return
        if is_push(n):
            events.append((A.line_of(n), "push", loops[-1] if loops else None, tuple(sorted(guards))))
        if k in ("BinaryOperator", "CompoundAssignOperator") and n.get("opcode") in ("=", "+="):
            l = strip(c[0])
            if l.get("kind") == "DeclRefExpr":
                assigns.setdefault(l["referencedDecl"]["name"], []).append((A.line_of(n), n["opcode"], unparse(uncast(c[1])), tuple(sorted(guards))))
        if k == "VarDecl":
            init = [x for x in c if not x.get("kind", "").endswith("Comment") and not x.get("kind", "").endswith("Attr")]
            if init:
                assigns.setdefault(n["name"], []).append((A.line_of(n), "=", unparse(uncast(init[0])), tuple(sorted(guards))))
        if k == "IfStmt":
            walk(c[0], loops, guards)
            walk(c[1], loops, guards + conjuncts(c[0]))
            if len(c) > 2:
                walk(c[2], loops, guards + ["!" + unparse(cond_core(c[0]))])
            return
        if k in ("WhileStmt", "DoStmt", "ForStmt"):
            for x in c:
                walk(x, loops + [n], guards)
            return
        for x in c:
            walk(x, loops, guards)
    walk(body, [], [])
    events.sort(key=lambda e: e[0])
    rows, cur = [], None
    for ev in events:
        if ev[1] == "res":
            R = ev[2]
            base, incs = "", []
            for (ln, op, txt, conds) in assigns.get(R, []):
                if ln < ev[0]:
                    if op == "=":
                        base, incs = txt, []
                    else:
                        incs.append((list(conds), txt))
            cur = dict(fn=name, line=ev[0], reserve=R, base=base, incs=incs, straight=0, loops=[], seen=set())
            rows.append(cur)
        else:
            if cur is None:
                cur = dict(fn=name, line=ev[0], reserve="", base="", incs=[], straight=0, loops=[], seen=set())
                rows.append(cur)
            loop = ev[2]
            if loop is None:
                cur["straight"] += 1
            elif id(loop) not in cur["seen"]:
                cur["seen"].add(id(loop))
                shape, bound = loop_shape(loop)
                cur["loops"].append((shape, bound, list(ev[3])))
    return rows


def generate():
    path = os.path.join(C.REPO, "lib", "run.c")
    ast, src = A.load_ast(path)
    rows = []
    for name, decl, body in A.functions(ast, path):
        found = [False]

        def f(n, d):
            if is_push(n):
                found[0] = True
        A.walk(body, f)
        if found[0]:
            rows += analyse_function(name, body)
    names = {r["fn"] for r in rows}
    if len(rows) < 5 or "hawk_rtx_evalcall" not in names:
        raise Unknown("found %d stack reservations (%s): the translator no longer understands run.c" % (len(rows), sorted(names)))

    def sl(l):
        return "[" + ", ".join(A.lean_str(x) for x in l) + "]"
    L = ["/-! GENERATED by extract/stack_sites.py from lib/run.c — do not edit.  Pushes onto the run-time stack and the reservation before them. -/",
         "namespace Hawk.Gen.StackSites", "",
         "structure Inc where", "  conds : List String", "  term : String", "  deriving DecidableEq, Repr", "",
         "structure Loop where", "  shape : String", "  bound : String", "  guards : List String", "  deriving DecidableEq, Repr", "",
         "structure Row where", "  fn : String", "  line : Nat", "  reserve : String", "  lit : Nat", "  base : String", "  incs : List Inc",
         "  straight : Nat", "  loops : List Loop", "  deriving DecidableEq, Repr", "", "def rows : List Row := ["]
    L.append(",\n".join("  ⟨%s, %d, %s, %d, %s, [%s], %d, [%s]⟩" % (
        A.lean_str(r["fn"]), r["line"], A.lean_str(r["reserve"]), int(r["reserve"]) if r["reserve"].isdigit() else 0, A.lean_str(r["base"]),
        ", ".join("⟨%s, %s⟩" % (sl(c), A.lean_str(t)) for c, t in r["incs"]), r["straight"],
        ", ".join("⟨%s, %s, %s⟩" % (A.lean_str(s), A.lean_str(b), sl(g)) for s, b, g in r["loops"])) for r in rows))
    L += ["]", "", "end Hawk.Gen.StackSites", ""]
    return "\n".join(L), rows


def main():
    txt, rows = generate()
    out = os.path.join(C.LEAN, "HawkModel", "Gen", "StackSites.lean")
    ch = C.write_if_changed(out, txt)
    print("stack_sites: %d reservations, %d straight pushes, %d push loops -> %s%s" % (
        len(rows), sum(r["straight"] for r in rows), sum(len(r["loops"]) for r in rows), out, " (changed)" if ch else ""))
    return rows


if __name__ == "__main__":
    rows = main()
    if "-v" in sys.argv:
        for r in rows:
            print(r["fn"], r["line"], "R=", r["reserve"], "base=", r["base"], "incs=", r["incs"], "straight=", r["straight"], "loops=", r["loops"])
