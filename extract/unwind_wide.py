#!/usr/bin/env python3
"""extract/unwind_wide.py — the unwind-table translator of extract/unwind.py applied to EVERY function of lib/*.c (C10).

unwind.py translates a hand-picked list of constructors with closed name lists.  This pass
  1. finds every function definition in every lib/*.c of the working tree (conditionals resolved, macros not expanded),
  2. counts its acquisition sites (catalogue below: allocator calls, dup/make/open/init/parse/eval constructors, inserts) and
     failure exits; a function with >= 2 acquisition sites and >= 1 failure exit is a *multi-acquisition function* (M),
  3. tries to translate each of them into the same table language (ops + labels), with these widenings:
       * a callee that is not in a catalogue is assumed inert when its result is ignored, a *fallible step that acquires
         nothing at this level* (`guard`) when its result is tested for failure, and an *acquisition* when its result is a
         pointer stored in a local and tested for null, unless its name says it only looks something up (BORROW);
       * releasing a parameter means the caller handed the object over: step 0 becomes `acq p` ("received");
       * `if (C) { ...; return <not -1/NULL>; }` with nothing allocated inside is an early successful exit and is skipped;
       * releases of temporaries on the main path are accepted only after the last fallible step;
       * `switch`, loops and two-sided branches are accepted only when nothing in them acquires or releases.
     Everything else FAILS CLOSED for that function: it is listed by name with the reason (never silently skipped),
  4. evaluates the decidable law `Table.wf` (python port, the Lean side re-decides it): tables that pass go to
     Gen/UnwindWide.lean (`Gen.wide`); tables that do not pass are listed as `notEstablished` with the failing step -
     each is either a translator misreading or a leak/double release on an error path and must be looked at by hand
     (the ones looked at are in TRIAGED below).
The check compares the set of established functions with extract/unwind_wide.expected: a function that was established and
no longer is (the source changed) is reported.
usage: unwind_wide.py [--repo DIR] [--out FILE] [--list] [--write-expected]
"""
import os, re, sys, json, importlib.util

HERE = os.path.dirname(os.path.abspath(__file__))
_spec = importlib.util.spec_from_file_location("c10_unwind_base", os.path.join(HERE, "unwind.py"))
U = importlib.util.module_from_spec(_spec)
_spec.loader.exec_module(U)
ExtractError = U.ExtractError

SKIP_FILES = {"ecs.c"}           # template instantiations: handled by unwind.py (init/open) and the hand model of ecs-imp.h
NARROW = {t[0] for t in U.TARGETS}

# ---- catalogues (regexes over canonical callee names) -------------------------------------------------------
RX_ALLOC = re.compile(r"^(hawk_(rtx_|gem_|sed_)?c?allocmem|HAWK_MMGR_ALLOC|hawk_xma_c?alloc|xma_alloc|xmalloc|xcalloc)$")
RX_ACQ = re.compile(r"^(hawk_(rtx_|gem_|sed_)?dup\w+|hawk_rtx_make\w+|hawk_\w+_open\w*|hawk_rtx_open\w*|hawk_open\w*|"
                    r"hawk_rtx_(get)?val\w*to\w+dup\w*|hawk_rtx_valto\w+dup\w*|hawk_rtx_getvaloocstr\w*|hawk_rtx_getval[bu]cstr\w*|"
                    r"hawk_rtx_eval\w*|eval_\w+|hawk_rtx_call\w*|parse_\w+|hawk_allocnde\w*|make_\w+|new_\w+|alloc_\w+|"
                    r"hawk_rtx_buildrex|hawk_gem_buildrex|hawk_tre_\w*open|tre_stack_new|tre_mem_new\w*|hawk_rtx_makemapvalwithdata)$")
RX_INIT = re.compile(r"^(\w+_init\w*|init_\w+)$")
RX_RELEASE = re.compile(r"^(hawk_(rtx_|gem_|sed_)?freemem|HAWK_MMGR_FREE|hawk_xma_free|hawk_rtx_refdownval|hawk_rtx_freeval\w*|"
                        r"hawk_\w+_close|hawk_close|hawk_rtx_close|\w+_fini|fini_\w+|hawk_clrpt|hawk_rtx_freerex|hawk_gem_freerex|"
                        r"free_\w+|hawk_freefun|tre_ast_free|tre_stack_destroy|tre_mem_destroy|tre_free|close_dir_safely|xfree|"
                        r"hawk_rtx_freevaloocstr|hawk_rtx_freeval[bu]cstr|hawk_rtx_clrrec|purge_\w+)$")
RX_BORROW = re.compile(r"(search|find|lookup|_get\w*|get_\w+|getxtn|getgem|getfirst|getnext|peek|_gettop|cmgr|hawk_rtx_getarg|"
                       r"hawk_rtx_getgbl|hawk_rtx_getnrflt|strchr|strstr|token|GET_|getmmgr|_geterr\w*|hawk_map_getfirstpair|hawk_map_getnextpair|backuperrmsg|hawk_rtx_format(mbs)?$|tre_mem_c?alloc|tre_ast_new_)", re.I)
# callees that take over the object passed to them whether they succeed or fail (they hold a reference across the operation
# and drop it): for the caller the object is released at the call
RX_CONSUME = re.compile(r"^(set_ref_to_new_val)$")
RX_REALLOC = re.compile(r"^hawk_(rtx_|gem_)?reallocmem$|^HAWK_MMGR_REALLOC$|^hawk_xma_realloc$")
FAIL_RET = re.compile(r"^(\(\w+(\s*\*)?\))?(-1|HAWK_NULL|NULL|\(-1\)|HAWK_MAP_NIL|HAWK_ARR_NIL|REG_ESPACE|-\s*1)$")

# looked at by hand: functions whose table does not pass the law although the code is right (why), or is wrong (defect)
TRIAGED = {
    "gem-glob.c:hawk_gem_uglob": "DEFECT: when g.mbuf cannot be initialised g.path is finalised twice (double free) and g.tbuf never; and the final `if (sizeof(uch) != sizeof(uch)) fini(mbuf)` never runs, so mbuf leaks on every call (patches/glob-unwind.diff)",
    "gem-glob.c:hawk_gem_bglob": "same text as hawk_gem_uglob; the branch is dead in the byte variant (sizeof(bch) != sizeof(bch)), repaired alongside",
    "run.c:eval_incpst": "DEFECT (minor): when do_assignment fails neither the old value `res` nor `res2` is released (eval_incpre takes and drops a reference); the blocks belong to the value chunks, so nothing is left after hawk_rtx_close",
    "std.c:open_rtx_std": "not a defect: rxtn->cmgrtab and the console name arrays are released by the ecb fini_rxtn that hawk_rtx_close runs (ownership hand-over the table language cannot express)",
}


def is_acq_name(c):
    return bool(RX_ALLOC.match(c) or RX_ACQ.match(c) or RX_INIT.match(c)) and not RX_RELEASE.match(c)


# ---- source access -----------------------------------------------------------------------------------------------
def own_text(pre, path):
    """only the lines that come from `path` itself (headers dropped), line markers removed"""
    out = []
    keep = True
    base = os.path.basename(path)
    for l in pre.split("\n"):
        m = re.match(r'#\s*(?:line\s+)?\d+\s+"([^"]*)"', l)
        if m:
            keep = os.path.basename(m.group(1)) == base
            out.append("")
            continue
        if l.startswith("#"):
            out.append("")
            continue
        out.append(l if keep else "")
    return "\n".join(out)


def functions(text):
    """[(name, params text, body text)] for every definition at brace depth 0"""
    out = []
    depth = 0
    i = 0
    n = len(text)
    last = 0
    start = None
    hdr = None
    while i < n:
        c = text[i]
        if c in "\"'":
            q = c; i += 1
            while i < n and text[i] != q:
                if text[i] == "\\":
                    i += 1
                i += 1
        elif c == "{":
            if depth == 0:
                hdr = text[last:i]
                start = i
            depth += 1
        elif c == "}":
            depth -= 1
            if depth == 0:
                m = re.search(r"([A-Za-z_]\w*)\s*\(((?:[^()]|\([^()]*\))*)\)\s*$", hdr or "", re.S)
                h = (hdr or "").strip()
                if m and "=" not in h and not re.match(r"(typedef|struct|union|enum)\b[^()]*$", h) and m.group(1) not in ("if", "while", "for", "switch"):
                    out.append((m.group(1), m.group(2), text[start + 1:i]))
                last = i + 1
        elif c == ";" and depth == 0:
            last = i + 1
        i += 1
    return out


def param_names(params):
    out = []
    for p in U.split_top(U.tokenize(params, "params"), ","):
        ids = [x for x in p if re.match(r"[A-Za-z_]\w*$", x)]
        if ids:
            out.append(ids[-1])
    return out


# ---- parser with switch / case / break / continue --------------------------------------------------------------------------
class PW(U.P):
    def stmt(self):
        x = self.peek()
        if x == "switch":
            self.take()
            cond = self.paren()
            body = self.stmt()
            return ("switch", cond, body)
        if x == "case":
            self.take()
            while self.take() != ":":
                pass
            return ("caselabel",)
        if x == "default" and self.peek(1) == ":":
            self.take(); self.take()
            return ("caselabel", "default")
        return U.P.stmt(self)


def parse_body(text, where):
    p = PW(U.tokenize(text, where), where)
    out = []
    while p.peek() is not None:
        out.append(p.stmt())
    return out


def walk(st):
    for s in st:
        yield s
        k = s[0]
        if k == "block":
            yield from walk(s[1])
        elif k == "if":
            yield from walk([s[2]])
            if s[3] is not None:
                yield from walk([s[3]])
        elif k == "loop":
            yield from walk([s[3]])
        elif k == "switch":
            yield from walk([s[2]])


def all_tokens(st):
    for s in walk(st):
        if s[0] == "simple":
            yield s[1]
        elif s[0] == "if":
            yield s[1]
        elif s[0] == "loop":
            yield s[2]
        elif s[0] == "switch":
            yield s[1]


def inventory(st):
    """(number of acquisition call sites, number of failure exits)"""
    nacq = 0
    nfail = 0
    for t in all_tokens(st):
        for c in U.calls_in(t):
            if is_acq_name(U.canon_callee(c)):
                nacq += 1
        if t and t[0] == "return" and FAIL_RET.match(U.join(t[1:])):
            nfail += 1
        if t and t[0] == "goto":
            nfail += 1
    return nacq, nfail


# ---- the widened translator ------------------------------------------------------------------------------------------------
class TrW(U.Tr):
    def __init__(self, name, fname, params):
        U.Tr.__init__(self, name, fname, {})
        self.params = params
        self.assumed_inert = set()
        self.temps = []       # resources released on the main path after the last fallible step
        self.received = []
        self.plan = []        # decisions to take at the branching points of this path
        self.taken = []
        self.arity = []

    def choose(self, n):
        idx = len(self.taken)
        c = self.plan[idx] if idx < len(self.plan) else 0
        self.taken.append(c); self.arity.append(n)
        return c

    def switch_alternatives(self, s):
        """statement lists, one per case label (running to the end of the switch: `break` jumps to the sentinel), + none taken"""
        body = s[2][1] if s[2][0] == "block" else [s[2]]
        alts = []
        has_default = False
        for j, b in enumerate(body):
            if b[0] == "caselabel":
                if j > 0 and body[j - 1][0] == "caselabel":
                    continue
                alts.append([x for x in body[j:] if x[0] != "caselabel"] + [("endswitch",)])
        if any(b == ("caselabel", "default") for b in body):
            return alts
        return alts + [[]]

    def callee_kind(self, fn):
        c = U.canon_callee(fn)
        if RX_RELEASE.match(c):
            return None
        if RX_ALLOC.match(c):
            self.trusted.add("ALLOC:" + c); return ("prim", c)
        if RX_ACQ.match(c) or RX_INIT.match(c):
            self.trusted.add("ACQ:" + c); return ("opaqueacq", c)
        return None

    def any_kind(self, fn):
        """classification of a callee whose result is tested for failure"""
        ck = self.callee_kind(fn)
        if ck:
            return ck
        c = U.canon_callee(fn)
        if RX_RELEASE.match(c):
            return None
        return ("opaque", c)

    def inert_tokens(self, t):
        c0 = U.as_call(t)
        if c0 and c0[0] == "hawk_rtx_setretval" and len(c0[1]) == 2:
            inner = U.as_call(c0[1][1])
            if inner and RX_ACQ.match(U.canon_callee(inner[0])) and all(self.inert_tokens(a) for a in inner[1]):
                # the value goes straight into the return slot; when it cannot be created the function carries on and
                # hawk_rtx_evalcall reports the failed call (patches/setretval-null.diff; without it: finding oom:fnc-setretval-null-value)
                self.trusted.add("RETVAL:" + U.canon_callee(inner[0]))
                self.retval_sites = getattr(self, "retval_sites", 0) + 1
                return True
        for c in U.calls_in(t):
            cc = U.canon_callee(c)
            if is_acq_name(cc) or RX_RELEASE.match(cc) or RX_REALLOC.match(cc):
                return False
            if cc not in U.INERT:
                self.assumed_inert.add(cc)
        return True

    def inert_stmt(self, s):
        k = s[0]
        if k == "caselabel":
            return True
        if k == "label":
            # a label inside a branch: an entry point for gotos from elsewhere (a goto to it is refused: unknown label)
            return True
        if k == "switch":
            return self.inert_tokens(s[1]) and self.inert_stmt(s[2])
        if k == "simple" and s[1] and s[1][0] in ("break", "continue"):
            return True
        return U.Tr.inert_stmt(self, s)

    def is_release_call(self, t):
        c = U.as_call(t)
        return c is not None and RX_RELEASE.match(U.canon_callee(c[0])) is not None

    def release_loop(self, s):
        """`while (i > 0) release(x[--i]);` / `for (...) release(x[i]);` -> "x[*]" (the elements of x acquired so far)"""
        if s[0] != "loop":
            return None
        body = s[3][1] if s[3][0] == "block" else [s[3]]
        body = [b for b in body if not (b[0] == "simple" and not b[1])]
        if len(body) != 1 or body[0][0] != "simple":
            return None
        c = U.as_call(body[0][1])
        if not c or not RX_RELEASE.match(U.canon_callee(c[0])):
            return None
        for a in reversed(c[1]):
            m = re.match(r"^(?:\(\w+\*?\))?([A-Za-z_][\w\.\->]*)\[[^\]]*\]$", U.join(a))
            if m and not any(is_acq_name(U.canon_callee(x)) or RX_RELEASE.match(U.canon_callee(x)) for x in U.calls_in(s[2])):
                self.trusted.add("RELEASE-LOOP:" + U.canon_callee(c[0]))
                return m.group(1) + "[*]"
        return None

    def release_of(self, s):
        rl = self.release_loop(s)
        if rl is not None:
            self.rid(rl, create=True)
            return [("always", rl)]
        if s[0] == "simple":
            c = U.as_call(s[1])
            if c and RX_RELEASE.match(U.canon_callee(c[0])):
                fn = U.canon_callee(c[0])
                self.trusted.add("RELEASE:" + fn)
                objs = [U.lvalue(a) for a in c[1]]
                objs = [o for o in objs if U.is_lvalue_text(o)]
                target = None
                pair = re.sub(r"fini", "init", re.sub(r"close", "open", fn))
                for o in reversed(objs):
                    for cand in (o + "." + pair, o):
                        if cand in self.res:
                            target = cand; break
                    if target:
                        break
                if target is None:
                    # the object: last argument that is not the context handle
                    cands = [o for o in objs if o not in ("rtx", "hawk", "gem", "mmgr", "sed", "run", "xma", "mem")] or objs
                    if not cands:
                        self.err("release call without an object argument", s[1])
                    target = cands[-1]
                    root = re.split(r"->|\.|\[", target)[0]
                    if target in self.params or (root in self.params and target != root):
                        if target in self.params:
                            self.received.append(target)
                    self.rid(target, create=True)
                return [("always", target)]
            if self.inert_stmt(s):
                return []
            return None
        return U.Tr.release_of(self, s)

    def cleanup_at(self, stmts, j):
        """only releases / inert statements from position j up to the next return"""
        while j < len(stmts):
            sj = stmts[j]
            if sj[0] == "simple" and sj[1] and sj[1][0] == "return":
                return True
            if sj[0] in ("label", "endloop", "endswitch") or self.looks_like_cleanup(sj):
                j += 1
                continue
            return False
        return True

    def looks_like_cleanup(self, s):
        if s[0] == "simple":
            c = U.as_call(s[1])
            if c and RX_RELEASE.match(U.canon_callee(c[0])):
                return True
            return bool(s[1]) and s[1][0] not in ("goto", "return") and self.inert_tokens(s[1])
        if s[0] == "block":
            return all(self.looks_like_cleanup(x) for x in s[1])
        if s[0] == "if":
            return self.inert_tokens(s[1]) and self.looks_like_cleanup(s[2]) and (s[3] is None or self.looks_like_cleanup(s[3]))
        if s[0] == "loop" and self.release_loop(s) is not None:
            return True
        return self.inert_stmt(s)

    def is_early_success(self, th):
        body = th[1] if th[0] == "block" else [th]
        if not body:
            return False
        last = body[-1]
        if not (last[0] == "simple" and last[1] and last[1][0] == "return"):
            return False
        if FAIL_RET.match(U.join(last[1][1:])) or len(last[1]) == 1 and False:
            return False
        return all(self.inert_stmt(b) for b in body[:-1]) and self.inert_tokens(last[1][1:])

    def translate(self, stmts):
        i = 0
        pending = None
        deferred = []
        n = len(stmts)
        main_done = False
        label_sections = []
        main_rel_at = None
        while i < n:
            s = stmts[i]; i += 1
            if main_done:
                if s[0] in ("endloop", "endswitch"):
                    continue
                if not label_sections and s[0] != "label":
                    continue      # rest of the function body that this path does not execute
                label_sections.append(s)
                continue
            k = s[0]
            if k in ("endloop", "endswitch"):
                continue
            if k == "label":
                # a shared exit (only releases / inert statements up to the return): the main path falls into it and ends.
                # any other label is a join point in the middle of the body: the main path just goes on
                if self.cleanup_at(stmts, i):
                    if pending and not pending[3]:
                        self.ops.append(("guard", self.label_ref(s[1]))); self.callees.append(("opaque", pending[1][1]))
                        pending = None
                    self.fallthrough = s[1]
                    main_done = True
                    label_sections.append(s)
                continue
            if k == "caselabel":
                self.err("case label on the main path")
            if k == "switch":
                if self.inert_stmt(s):
                    continue
                if not self.inert_tokens(s[1]):
                    self.err("switch expression acquires or releases", s[1])
                alts = self.switch_alternatives(s)
                c = self.choose(len(alts))
                self.assumed = getattr(self, "assumed", []) + ["switch(%s): alternative %d of %d" % (U.join(s[1])[:30], c, len(alts))]
                stmts = stmts[:i] + alts[c] + stmts[i:]
                n = len(stmts)
                continue
            if k == "simple":
                t = s[1]
                if not t:
                    continue
                for mm in re.finditer(r"([A-Za-z_][\w\.\->]*)=(?:HAWK_NULL|NULL)\b", U.join(t)):
                    self.nulled = getattr(self, "nulled", set()) | {mm.group(1)}
                if t[0] == "return":
                    if pending:
                        if U.join(t[1:]) in (pending[0], "(" + pending[0] + ")") or re.match(r"^\(\w+\*?\)%s$" % re.escape(pending[0]), U.join(t[1:])):
                            # `x = f(..); return x;` - the result goes to the caller untested: a failure of f is the failure of this
                            # function, and nothing is released after it
                            if not pending[3] or not RX_BORROW.search(pending[1][1]):
                                self.ops.append(("guard", self.anon_label([]))); self.callees.append(("opaque", pending[1][1]))
                            pending = None
                            main_done = True
                            continue
                        if pending[3]:
                            pending = None
                        else:
                            self.err("acquisition of %s is never tested" % pending[0])
                    rcalls = [U.canon_callee(c) for c in U.calls_in(t[1:])]
                    if any(is_acq_name(c) for c in rcalls) and not any(RX_RELEASE.match(c) or RX_REALLOC.match(c) for c in rcalls):
                        # `return make(...)` / `return c? make1(..): make2(..)`: the acquisition is the last step, its failure is the
                        # failure of this function and nothing is released after it
                        self.ops.append(("guard", self.anon_label([]))); self.callees.append(("opaque", [c for c in rcalls if is_acq_name(c)][0]))
                        main_done = True
                        continue
                    if not self.inert_tokens(t[1:]):
                        self.err("return expression acquires or releases", t)
                    tail = [c for c in U.calls_in(t[1:]) if U.canon_callee(c) not in U.INERT]
                    if tail:
                        # a tail call may fail: nothing may be held by this function at that point unless handed over
                        self.ops.append(("guard", self.anon_label([]))); self.callees.append(("opaque", U.canon_callee(tail[0])))
                    main_done = True
                    continue
                if t[0] == "goto":
                    j = i
                    while j < n and not (stmts[j][0] == "label" and stmts[j][1] == t[1]):
                        j += 1
                    if j >= n:
                        self.err("unconditional backward (or computed) goto on the main path", t)
                    i = j      # forward jump: the statements in between are not executed on this path
                    continue
                if t[0] in ("break", "continue"):
                    want = ("endloop", "endswitch") if t[0] == "break" else ("endloop",)
                    j = i
                    while j < n and stmts[j][0] not in want:
                        j += 1
                    if j >= n:
                        self.err("break/continue outside an unrolled loop or switch")
                    i = j + 1
                    continue
                if "=" in t and t.index("=") > 0 and t[t.index("=") - 1] not in ("=", "!", "<", ">", "+", "-", "|", "&", "*", "/", "^", "%"):
                    eq = t.index("=")
                    lhs, rhs = t[:eq], t[eq + 1:]
                    c = U.as_call(rhs)
                    if c is None and "?" in rhs:
                        rc = [U.canon_callee(x) for x in U.calls_in(rhs)]
                        acqs = [x for x in rc if is_acq_name(x)]
                        if acqs and not any(RX_RELEASE.match(x) or RX_REALLOC.match(x) for x in rc):
                            c = (acqs[0], [])    # one of several constructors, chosen by a condition: one acquisition
                    if c and RX_REALLOC.match(U.canon_callee(c[0])):
                        self.err("realloc on the main path", t)
                    ck = self.callee_kind(c[0]) if c else None
                    borrowed = False
                    if c and ck is None and not RX_RELEASE.match(U.canon_callee(c[0])):
                        # unknown callee whose result is stored: decided when (if) the result is tested
                        ck = ("opaque", U.canon_callee(c[0])); borrowed = True
                    if ck:
                        if pending:
                            if pending[3]:
                                pass   # an untested result of an unknown function: not an acquisition
                            else:
                                r = self.add_acq(pending[0], None, pending[1]); deferred.append(r)
                        lhs_txt = U.lvalue(lhs[-1:] if len(lhs) > 1 and re.match(r"[A-Za-z_]\w*$", lhs[-1]) and "->" not in lhs and "." not in lhs else lhs)
                        pending = (lhs_txt, ck, c, borrowed)
                        continue
                    if not self.inert_tokens(rhs):
                        self.err("assignment from an expression that acquires or releases", t)
                    continue
                c = U.as_call(t)
                if c:
                    cc = U.canon_callee(c[0])
                    if RX_RELEASE.match(cc):
                        r = self.release_of(s)
                        for x in r:
                            r0 = self.rid(x[1], create=True)
                            if not any(o[0] == "acq" and o[1] == r0 for o in self.ops) and x[1] not in self.received:
                                # an object acquired elsewhere (out-parameter of a callee, previous occupant of a slot, ...)
                                self.assumed = getattr(self, "assumed", []) + ["main-path release of %s, which this path did not acquire: not tracked" % x[1]]
                                self.untracked = getattr(self, "untracked", []) + [x[1]]
                                continue
                            self.ops.append(("rel", r0)); self.callees.append(("none", ""))
                            self.temps.append(x[1])
                        continue
                    if self.callee_kind(c[0]):
                        self.err("result of %s is ignored" % c[0], t)
                if self.inert_tokens(t):
                    cc = U.as_call(t)
                    if cc and cc[0] == "HAWK_MEMSET" and len(cc[1]) == 3 and U.join(cc[1][1]) == "0" and not self.ops and not pending:
                        self.zeroed = True
                    continue
                self.err("unclassified statement", t)
            if k == "loop":
                rl = self.release_loop(s)
                if rl is not None:
                    r0 = self.rid(rl, create=True)
                    if any(o[0] in ("acq", "acqp") and o[1] == r0 for o in self.ops):
                        self.ops.append(("rel", r0)); self.callees.append(("none", "")); self.temps.append(rl)
                    else:
                        self.assumed = getattr(self, "assumed", []) + ["main-path release loop over %s, which this path did not fill: not tracked" % rl]
                    continue
                if self.inert_stmt(s):
                    continue
                if not self.inert_tokens(s[2]):
                    self.err("loop header acquires or releases", s[2])
                c = self.choose(2)
                self.assumed = getattr(self, "assumed", []) + ["loop(%s): %s" % (U.join(s[2])[:30], "one iteration" if c == 0 else "no iteration")]
                if c == 0:
                    body = s[3][1] if s[3][0] == "block" else [s[3]]
                    stmts = stmts[:i] + body + [("endloop",)] + stmts[i:]
                    n = len(stmts)
                continue
            if k == "block":
                stmts = stmts[:i] + s[1] + stmts[i:]
                n = len(stmts)
                continue
            if k == "if":
                cond, th, el = s[1], s[2], s[3]
                terms = self.cond_terms(cond)
                # `if (x) release(x);` on the main path: x is held (non-null) exactly when it was acquired here
                if el is None and U.is_lvalue_text(U.lvalue(U.strip_wrappers(cond))):
                    rr = U.Tr.release_of(self, s)
                    if rr and all(kk == "ifset" for kk, _ in rr):
                        for _, rn in rr:
                            r0 = self.rid(rn)
                            if r0 is not None and any(o[0] == "acq" and o[1] == r0 for o in self.ops):
                                self.ops.append(("rel", r0)); self.callees.append(("none", "")); self.temps.append(rn)
                            else:
                                self.assumed = getattr(self, "assumed", []) + ["`if (%s) release` of something this path never acquired: skipped" % rn]
                        continue
                if pending:
                    lhs = pending[0]
                    ctext = U.join(U.strip_wrappers(cond))
                    neg = ctext in ("!" + lhs, lhs + "==HAWK_NULL", lhs + "==NULL")
                    negint = ctext in (lhs + "<=-1", lhs + "==-1", lhs + "<0")
                    pos = ctext == lhs
                    if (neg or negint) and pending[3] and self.inert_stmt(th) and (el is None or self.inert_stmt(el)):
                        self.assumed = getattr(self, "assumed", []) + ["failure of %s is recorded, not an exit" % pending[1][1]]
                        pending = None
                        continue
                    if (neg or negint) and pending[3] and self.is_early_success(th):
                        self.assumed = getattr(self, "assumed", []) + ["early successful exit not taken: " + ctext[:60]]
                        pending = None
                        continue
                    if neg or negint:
                        if el is not None and not self.inert_stmt(el):
                            # `if (failed) { exit } else { B }` is `if (failed) { exit }  B`
                            stmts = stmts[:i] + (el[1] if el[0] == "block" else [el]) + stmts[i:]
                            n = len(stmts)
                        lbl = self.failure_target(th, getattr(self, "nullable", None))
                        fnname = pending[1][1]
                        if pending[3] and (negint or RX_BORROW.search(fnname)):
                            # unknown callee returning a status, or a lookup: fallible step, nothing new held
                            self.ops.append(("guard", lbl)); self.callees.append(("opaque", fnname))
                            self.trusted.add(("GUARD:" if negint else "BORROW:") + fnname)
                        else:
                            if pending[3]:
                                self.trusted.add("ACQ?:" + fnname)
                            rname = self.call_resource(pending[2][0], pending[2][1]) if negint else lhs
                            mi = re.match(r"^([A-Za-z_][\w\.\->]*)\[[^\]]*\]$", rname)
                            if mi and any(x[0] == "endloop" for x in stmts[i:]):
                                # x[i] = acquire(..) in a loop body: the elements filled so far are one resource, partially
                                # held when this step fails
                                r0 = self.rid(mi.group(1) + "[*]", create=True)
                                if any(o[0] in ("acq", "acqp") and o[1] == r0 for o in self.ops):
                                    self.err("resource %s acquired twice" % self.res[r0])
                                self.ops.append(("acqp", r0, lbl)); self.callees.append(pending[1])
                            else:
                                self.add_acq(rname, lbl, pending[1])
                        pending = None
                        continue
                    if pos and not pending[3]:
                        if el is not None and not self.inert_stmt(el):
                            # `if (x) { A } else { exit }` is `if (!x) { exit }  A`
                            lbl = self.failure_target(el, getattr(self, "nullable", None))
                        else:
                            lbl = self.anon_label([])
                        self.add_acq(lhs, lbl, pending[1]); pending = None
                        self.nullable = lhs
                        body = th[1] if th[0] == "block" else [th]
                        stmts = stmts[:i] + body + stmts[i:]
                        n = len(stmts)
                        continue
                    if pending[3]:
                        pending = None
                    else:
                        r = self.add_acq(lhs, None, pending[1]); deferred.append(r); pending = None
                if deferred and all(re.match(r".+==(HAWK_NULL|NULL)$|^!.+", U.join(x)) for x in terms):
                    names = []
                    for x in terms:
                        tx = U.join(x)
                        names.append(tx[1:] if tx.startswith("!") else re.sub(r"==(HAWK_NULL|NULL)$", "", tx))
                    rs = []
                    for nm in names:
                        r = self.rid(nm)
                        if r is None or r not in deferred:
                            self.err("null test of %s which is not a deferred acquisition" % nm, cond)
                        rs.append(r)
                    lbl = self.failure_target(th)
                    self.ops.append(("check", rs, lbl)); self.callees.append(("none", ""))
                    deferred = [d for d in deferred if d not in rs]
                    continue
                # f(..) <= -1 [|| ...]   /   f(..) == NULL   /   !f(..)
                calls = []
                ok = True
                for x in terms:
                    body_t = None
                    if len(x) >= 3 and x[-2:] in (["<=", "-1"], ["==", "-1"]):
                        body_t = x[:-2]
                    elif len(x) >= 4 and x[-3:] in (["<=", "-", "1"], ["==", "-", "1"]):
                        body_t = x[:-3]
                    elif len(x) >= 3 and x[-2:] == ["<", "0"]:
                        body_t = x[:-2]
                    elif len(x) >= 3 and x[-2] == "==" and x[-1] in ("HAWK_NULL", "NULL"):
                        body_t = x[:-2]
                    elif len(x) >= 2 and x[0] == "!":
                        body_t = x[1:]
                    if body_t is not None:
                        c = U.as_call(body_t)
                        if c and self.any_kind(c[0]) and not RX_REALLOC.match(U.canon_callee(c[0])):
                            # the arguments must not acquire
                            if all(self.inert_tokens(a) for a in c[1]):
                                calls.append((c, self.any_kind(c[0]), x)); continue
                    ok = False; break
                thb = th[1] if th[0] == "block" else [th]
                exits = bool(thb) and thb[-1][0] == "simple" and bool(thb[-1][1]) and thb[-1][1][0] in ("goto", "return")
                if ok and calls and exits:
                    if el is not None and not self.inert_stmt(el):
                        stmts = stmts[:i] + (el[1] if el[0] == "block" else [el]) + stmts[i:]
                        n = len(stmts)
                    lbl = self.failure_target(th, getattr(self, "nullable", None))
                    for (c, ck, x) in calls:
                        if ck[0] == "opaque" and RX_CONSUME.match(ck[1]):
                            self.trusted.add("CONSUME:" + ck[1])
                            for a_ in c[1]:
                                r0 = self.rid(U.lvalue(a_))
                                if r0 is not None and any(o[0] == "acq" and o[1] == r0 for o in self.ops) and not any(o[0] == "rel" and o[1] == r0 for o in self.ops):
                                    self.ops.append(("rel", r0)); self.callees.append(("none", "")); self.temps.append(self.res[r0])
                        if ck[0] == "opaque":
                            self.ops.append(("guard", lbl)); self.callees.append(ck); self.trusted.add("GUARD:" + ck[1])
                        elif x[0] == "!" or x[-1] in ("HAWK_NULL", "NULL"):
                            self.err("a freshly acquired object is tested but not stored", cond)
                        else:
                            self.add_acq(self.call_resource(c[0], c[1]), lbl, ck)
                    continue
                if self.inert_tokens(cond):
                    th_in = self.inert_stmt(th); el_in = el is None or self.inert_stmt(el)
                    if th_in and el_in:
                        continue
                    if el is None and self.is_early_success(th):
                        self.assumed = getattr(self, "assumed", []) + ["early successful exit not taken: " + U.join(cond)[:60]]
                        continue
                    if el is None and exits and thb[-1][1][0] == "goto" and all(self.inert_stmt(b) for b in thb[:-1]):
                        # `if (C) goto L;` where L is a join point further down (not a clean-up exit): two paths
                        L_ = thb[-1][1][1]
                        pos_ = next((jj for jj in range(i, n) if stmts[jj][0] == "label" and stmts[jj][1] == L_), None)
                        if pos_ is not None and not self.cleanup_at(stmts, pos_ + 1):
                            c = self.choose(2)
                            self.assumed = getattr(self, "assumed", []) + ["%s: goto %s" % ("not taken" if c == 0 else "taken", L_)]
                            if c == 1:
                                i = pos_
                            continue
                    if el is None and exits and not any(self.callee_kind(c) for c in U.calls_in([y for b in thb if b[0] == "simple" for y in b[1]])):
                        lbl = self.failure_target(th)
                        self.ops.append(("guard", lbl)); self.callees.append(("none", "")); continue
                    alts = [th[1] if th[0] == "block" else [th], [] if el is None else (el[1] if el[0] == "block" else [el])]
                    ctext0 = U.join(U.strip_wrappers(cond))
                    forced = None
                    if re.match(r"^HAWK_SIZEOF\(\w+\)(!=|==)HAWK_SIZEOF\(\w+\)$", ctext0):
                        # a compile-time constant: every test of the same text goes the same way on one path
                        self.consts = getattr(self, "consts", {})
                        if ctext0 in self.consts:
                            forced = self.consts[ctext0]
                    elif U.is_lvalue_text(ctext0) or (ctext0.startswith("!") and U.is_lvalue_text(ctext0[1:])):
                        # `if (x)` where x is an object this path acquired (non-null) or only ever set to null
                        nm = ctext0.lstrip("!")
                        r0 = self.rid(nm)
                        got = r0 is not None and any(o[0] == "acq" and o[1] == r0 and o[2] is not None for o in self.ops) and not any(o[0] == "rel" and o[1] == r0 for o in self.ops)
                        isnull = (r0 is None or not any(o[0] == "acq" and o[1] == r0 for o in self.ops)) and nm in getattr(self, "nulled", set())
                        if got:
                            forced = 1 if ctext0.startswith("!") else 0
                        elif isnull:
                            forced = 0 if ctext0.startswith("!") else 1
                    if forced is not None:
                        self.assumed = getattr(self, "assumed", []) + ["%s (determined): %s" % ("then" if forced == 0 else "else", ctext0[:60])]
                        stmts = stmts[:i] + alts[forced] + stmts[i:]
                        n = len(stmts)
                        continue
                    c = self.choose(2)
                    if re.match(r"^HAWK_SIZEOF\(\w+\)(!=|==)HAWK_SIZEOF\(\w+\)$", ctext0):
                        self.consts[ctext0] = c
                    self.nconds += 1
                    self.assumed = getattr(self, "assumed", []) + ["%s: %s" % ("then" if c == 0 else "else", U.join(cond)[:60])]
                    stmts = stmts[:i] + alts[c] + stmts[i:]
                    n = len(stmts)
                    continue
                self.err("unclassified if statement", cond)
            self.err("unclassified statement kind %s" % k)
        if pending and not pending[3]:
            self.err("acquisition of %s is never tested" % pending[0])
        if deferred:
            self.err("deferred acquisitions never tested: %s" % [self.res[d] for d in deferred])
        if not main_done and self.ops and False:
            pass
        self.finish_labels(label_sections)
        has_rel = any(o[0] == "rel" for o in self.ops)
        lang1_only = any(o[0] in ("check", "soft") or (o[0] == "acq" and o[2] is None) for o in self.ops) or any(k_ == "ifset" for rels in self.final_labels for k_, _ in rels)
        if any(o[0] == "acqp" for o in self.ops) and lang1_only:
            self.err("element-wise filled object together with deferred or conditional cleanup: neither table language expresses both")
        if has_rel and lang1_only:
            self.err("main-path release together with deferred or conditional (`if (x) free(x)`) cleanup: neither table language expresses both")
        self.lang = 1 if lang1_only else 2
        # objects received from the caller: step 0
        for p in reversed(self.received):
            r = self.rid(p)
            if not any(o[0] == "acq" and o[1] == r for o in self.ops):
                self.final_labels.append([])
                self.ops.insert(0, ("acq", r, len(self.final_labels) - 1)); self.callees.insert(0, ("none", ""))

    def finish_labels(self, label_sections):
        cur = None
        sect = {}
        order = []
        for s in label_sections:
            if s[0] == "label":
                cur = s[1]; sect[cur] = []; order.append(cur); continue
            if cur is None:
                if self.inert_stmt(s):
                    continue
                self.err("statement after the final return outside any label", s[1] if s[0] == "simple" else None)
            if s[0] == "simple" and s[1] and s[1][0] == "return":
                if not self.inert_tokens(s[1][1:]):
                    self.err("return under a label calls an acquisition/release", s[1])
                sect[cur].append(("return",)); continue
            r = self.release_of(s)
            if r is None:
                self.err("statement under label %s is neither a release nor inert" % cur, s[1] if s[0] == "simple" else None)
            sect[cur] += r

        def expand(cname):
            if cname not in sect:
                self.err("goto to unknown label %s" % cname)
            out = []
            idx = order.index(cname)
            for c in order[idx:]:
                for x in sect[c]:
                    if x == ("return",):
                        return out
                    out.append(x)
            self.err("label %s falls off the end of the function" % cname)
        final = []
        for lab in self.labels:
            if lab[0] == "named":
                final.append(expand(lab[1]))
            else:
                rels = list(lab[1])
                if lab[2] is not None:
                    rels += expand(self.labels[lab[2]][1])
                final.append(rels)
        self.final_labels = []
        for rels in final:
            self.final_labels.append([(kind, self.rid(rn, create=True)) for kind, rn in rels])
        # a local that this path sets to null and never assigns again: releasing it is a no-op
        held_names = {o[1] for o in self.ops if o[0] in ("acq", "acqp")}
        nulled = getattr(self, "nulled", set())
        for li, rels in enumerate(self.final_labels):
            # (likewise a release loop over the elements of an object that this path never filled runs zero times)
            keep = [(k_, r) for (k_, r) in rels if r in held_names or not (self.res[r] in nulled or self.res[r].endswith("[*]")) or self.res[r] in self.received]
            if len(keep) != len(rels):
                self.assumed = getattr(self, "assumed", []) + ["release of a local that is null on this path: no-op"]
                self.final_labels[li] = keep
        acq_at = {o[1]: j for j, o in enumerate(self.ops) if o[0] == "acq"}
        for j, o in enumerate(self.ops):
            lbl = o[2] if o[0] in ("acq", "check") else o[1] if o[0] == "guard" else None
            if lbl is None:
                continue
            for kind, r in self.final_labels[lbl]:
                if kind == "ifset" and acq_at.get(r, -1) > j and not self.zeroed and self.res[r] not in getattr(self, "nulled", set()):
                    self.err("label tests %s before it is assigned and the object is not zero-filled first" % self.res[r])


# ---- python port of Table.wf (HawkModel/Oom.lean) -----------------------------------------------------------------------------
def wf_table(ops, labels, res):
    """None if the table passes `Table.wf`, else a text naming the first step whose failure target is not exact"""
    sure, maybe, freed = [], [], []

    def label_bad(l, what):
        if l is None or l >= len(labels):
            return "%s: no label" % what
        rels = labels[l]
        rr = [r for _, r in rels]
        if len(set(rr)) != len(rr):
            return "%s: a resource is released twice (%s)" % (what, ", ".join(res[r] for r in rr if rr.count(r) > 1))
        for kind, r in rels:
            if kind == "always" and r not in sure:
                return "%s: releases %s, which is not held there" % (what, res[r])
        for r in sure:
            if r not in rr:
                return "%s: does not release %s (held)" % (what, res[r])
        for r in maybe:
            if ("ifset", r) not in rels:
                return "%s: does not conditionally release %s" % (what, res[r])
        return None
    for j, o in enumerate(ops):
        if o[0] == "acq":
            if o[1] in sure or o[1] in maybe or o[1] in freed:
                return "step %d: %s acquired twice" % (j, res[o[1]])
            if o[2] is not None:
                b = label_bad(o[2], "failure of step %d (acquire %s)" % (j, res[o[1]]))
                if b:
                    return b
                sure.append(o[1])
            else:
                maybe.append(o[1])
        elif o[0] == "check":
            b = label_bad(o[2], "failure of step %d (null test)" % j)
            if b:
                return b
            sure += [r for r in maybe if r in o[1]]
            maybe = [r for r in maybe if r not in o[1]]
        elif o[0] == "guard":
            b = label_bad(o[1], "failure of step %d (fallible step)" % j)
            if b:
                return b
        elif o[0] == "acqp":
            if o[1] in sure or o[1] in maybe or o[1] in freed:
                return "step %d: %s acquired twice" % (j, res[o[1]])
            sure.append(o[1])
            b = label_bad(o[2], "failure of step %d (filling %s: the elements filled so far are held)" % (j, res[o[1]]))
            if b:
                return b
        elif o[0] == "rel":
            if o[1] not in sure:
                return "step %d: releases %s on the main path, which is not held there" % (j, res[o[1]])
            sure.remove(o[1]); freed.append(o[1])
    if maybe:
        return "untested acquisitions at the end"
    return None


# ---- driver ------------------------------------------------------------------------------------------------------------------
MAXPATHS = 64


def all_paths(name, fname, params, st):
    """one table per acyclic path (loop bodies: one or no iteration); fails closed if any path is not expressible"""
    plans = [[]]
    out = []
    while plans:
        plan = plans.pop()
        tr = TrW(name, fname, params)
        tr.plan = plan
        tr.translate(list(st))
        out.append(tr)
        for pos in range(len(plan), len(tr.taken)):
            for alt in range(1, tr.arity[pos]):
                plans.append(tr.taken[:pos] + [alt])
        if len(out) + len(plans) > MAXPATHS:
            raise ExtractError("%s:%s: more than %d paths" % (fname, name, MAXPATHS))
    return out


def scan(repo):
    """-> (established [TrW], not_established [(name, file, why, TrW)], unhandled [(name, file, reason)], M, stats)"""
    libdir = os.path.join(repo, "lib")
    est, notest, unh = [], [], []
    nfun = 0
    for fname in sorted(f for f in os.listdir(libdir) if f.endswith(".c") and f not in SKIP_FILES):
        try:
            pre = U.strip_comments(U.preprocess(repo, fname))
        except ExtractError as e:
            unh.append(("*", fname, "preprocessing failed: %s" % str(e)[:80]))
            continue
        text = own_text(pre, fname)
        for (name, params, body) in functions(text):
            nfun += 1
            where = "%s:%s" % (fname, name)
            try:
                st = parse_body(body, where)
            except (ExtractError, AssertionError, IndexError, TypeError) as e:
                if len(re.findall(r"allocmem|_open|dup\w+\(|make\w+val", body)) >= 2:
                    unh.append((name, fname, "body not parsed: %s" % str(e)[:80]))
                continue
            nacq, nfail = inventory(st)
            if nacq < 2 or nfail < 1:
                continue
            if name in NARROW and fname in {t[1] for t in U.TARGETS if t[0] == name}:
                est.append(("narrow", name, fname))
                continue
            try:
                variants = all_paths(name, fname, param_names(params), st)
                tr = variants[0]
            except ExtractError as e:
                unh.append((name, fname, re.sub(r"^[^ ]+: ", "", str(e))[:150]))
                continue
            except (AssertionError, IndexError, TypeError, ValueError) as e:
                unh.append((name, fname, "translator exception %s" % type(e).__name__))
                continue
            good = [v for v in variants if len([o for o in v.ops if o[0] in ("acq", "acqp", "guard", "check")]) >= 1]
            if not good:
                unh.append((name, fname, "no table: no fallible step recognised on any path"))
                continue
            why = None
            for v in variants:
                w = wf_table(v.ops, v.final_labels, v.res)
                if w is not None:
                    why = "path %s: %s" % ("/".join(getattr(v, "assumed", [])[:4]) or "-", w); tr = v
                    if "%s:%s" % (fname, name) in TRIAGED:
                        why += " [looked at: %s]" % TRIAGED["%s:%s" % (fname, name)]
                    break
            if why is None:
                # identical tables of different paths are kept once
                seen = []
                for v in variants:
                    key = (tuple(map(tuple, [tuple(o) if o[0] != "check" else (o[0], tuple(o[1]), o[2]) for o in v.ops])), tuple(tuple(r) for r in v.final_labels))
                    if key not in [k for k, _ in seen] and len([o for o in v.ops if o[0] in ("acq", "acqp", "guard", "check")]) >= 1:
                        seen.append((key, v))
                est.append(("wide", name, fname, [v for _, v in seen], len(variants)))
            else:
                notest.append((name, fname, why, tr))
    return est, notest, unh, nfun


def lean_table2(tr, idn):
    L = []
    L.append("/-- %s (%s)%s" % (tr.name, tr.fname, ("; " + "; ".join(getattr(tr, "assumed", []))) if getattr(tr, "assumed", None) else ""))
    for i, r in enumerate(tr.res):
        L.append("    r%d = %s%s" % (i, r, " (received from the caller)" if r in tr.received else ""))
    L.append("-/")
    L.append("def %s : Ft.Fn where" % idn)
    L.append("  name := %s" % U.lean_str(tr.name))
    L.append("  file := %s" % U.lean_str(tr.fname))
    ops = []
    for o in tr.ops:
        ops.append(".acq %d %d" % (o[1], o[2]) if o[0] == "acq" else ".acqp %d %d" % (o[1], o[2]) if o[0] == "acqp" else ".guard %d" % o[1] if o[0] == "guard" else ".rel %d" % o[1])
    labs = ["[" + ", ".join("%d" % r for _, r in rels) + "]" for rels in tr.final_labels]
    L.append("  table := { ops := [%s],\n             labels := [%s] }" % (", ".join(ops), ", ".join(labs)))
    L.append("  callees := [%s]" % ", ".join(U.lean_str("prim" if c[0] == "prim" else "" if c[0] == "none" else c[1]) for c in tr.callees))
    L.append("  resNames := [%s]" % ", ".join(U.lean_str(r) for r in tr.res))
    L.append("")
    return L


def lean_table(tr, idn):
    L = []
    L.append("/-- %s (%s)%s" % (tr.name, tr.fname, ("; " + "; ".join(getattr(tr, "assumed", []))) if getattr(tr, "assumed", None) else ""))
    for i, r in enumerate(tr.res):
        L.append("    r%d = %s%s" % (i, r, " (received from the caller)" if r in tr.received else " (temporary, released before the successful return)" if r in tr.temps else ""))
    L.append("-/")
    L.append("def %s : Ctor where" % idn)
    L.append("  name := %s" % U.lean_str(tr.name))
    L.append("  file := %s" % U.lean_str(tr.fname))
    ops = []
    for o in tr.ops:
        if o[0] == "acq":
            ops.append(".acq %d %s" % (o[1], "none" if o[2] is None else "(some %d)" % o[2]))
        elif o[0] == "check":
            ops.append(".check [%s] %d" % (", ".join(str(x) for x in o[1]), o[2]))
        elif o[0] == "guard":
            ops.append(".guard %d" % o[1])
        else:
            ops.append(".soft")
    labs = ["[" + ", ".join(".%s %d" % ("always" if k == "always" else "ifSet", r) for k, r in rels) + "]" for rels in tr.final_labels]
    L.append("  table := { ops := [%s],\n             labels := [%s] }" % (", ".join(ops), ", ".join(labs)))
    cs = []
    for c in tr.callees:
        cs.append(".prim" if c[0] == "prim" else ".none" if c[0] == "none" else ".opaque %s" % U.lean_str(c[1]))
    L.append("  callees := [%s]" % ", ".join(cs))
    L.append("  resNames := [%s]" % ", ".join(U.lean_str(r) for r in tr.res))
    L.append("")
    return L


CHUNK = 12


def emit(est, notest, unh):
    wide = [e for e in est if e[0] == "wide"]
    L = ["/- GENERATED by extract/unwind_wide.py from every function of lib/*.c of the working tree — do not edit. -/",
         "import HawkModel.Oom", "import HawkModel.OomRel", "namespace Hawk.Oom.Gen.Wide", "open Hawk.Oom", ""]
    names = []
    names2 = []
    used = {}
    for (_, name, fname, trs, npaths) in wide:
        idn = U.lean_ident(name)
        if idn in used:
            idn = "%s_%s" % (idn, U.lean_ident(fname))
        used[idn] = 1
        for vi, tr in enumerate(trs):
            vid = idn if vi == 0 else "%s__p%d" % (idn, vi)
            if tr.lang == 2:
                names2.append(vid)
                L += lean_table2(tr, "t_" + vid)
            else:
                names.append(vid)
                L += lean_table(tr, "t_" + vid)
    chunks = [names[i:i + CHUNK] for i in range(0, len(names), CHUNK)]
    for ci, ch in enumerate(chunks):
        L.append("def chunk%d : List Ctor := [%s]" % (ci, ", ".join("t_" + x for x in ch)))
        L.append("theorem chunk%d_wf : chunk%d.all (fun c => c.table.wf) = true := by decide" % (ci, ci))
    L.append("")
    L.append("/-- every function whose table was extracted and passes the law -/")
    L.append("def all : List Ctor := %s" % (" ++ ".join("chunk%d" % ci for ci in range(len(chunks))) or "[]"))
    L.append("theorem all_wf : all.all (fun c => c.table.wf) = true := by")
    L.append("  simp [all, List.all_append%s]" % "".join(", chunk%d_wf" % ci for ci in range(len(chunks))))
    L.append("")
    chunks2 = [names2[i:i + CHUNK] for i in range(0, len(names2), CHUNK)]
    for ci, ch in enumerate(chunks2):
        L.append("def fchunk%d : List Ft.Fn := [%s]" % (ci, ", ".join("t_" + x for x in ch)))
        L.append("theorem fchunk%d_wf : fchunk%d.all (fun c => c.table.wf) = true := by decide" % (ci, ci))
    L.append("")
    L.append("/-- every function (one table per path) in the language with main-path releases that passes the law -/")
    L.append("def allFt : List Ft.Fn := %s" % (" ++ ".join("fchunk%d" % ci for ci in range(len(chunks2))) or "[]"))
    L.append("theorem allFt_wf : allFt.all (fun c => c.table.wf) = true := by")
    L.append("  simp [allFt, List.all_append%s]" % "".join(", fchunk%d_wf" % ci for ci in range(len(chunks2))))
    L.append("")
    L.append("/-- multi-acquisition functions the translator cannot express (name, file, reason) -/")
    L.append("def unhandled : List (String × String × String) := [")
    L.append(",\n".join("  (%s, %s, %s)" % (U.lean_str(a), U.lean_str(b), U.lean_str(c)) for a, b, c in unh))
    L.append("]")
    L.append("/-- functions whose extracted table does not pass the law (translator misreading or defect; name, file, first violation) -/")
    L.append("def notEstablished : List (String × String × String) := [")
    L.append(",\n".join("  (%s, %s, %s)" % (U.lean_str(a), U.lean_str(b), U.lean_str(c)) for a, b, c, _ in notest))
    L.append("]")
    L.append("")
    L.append("end Hawk.Oom.Gen.Wide")
    return "\n".join(L) + "\n"


def _conj(xs):
    if not xs:
        return "trivial"
    if len(xs) == 1:
        return xs[0]
    return "⟨" + ", ".join(xs[:-1]) + ", " + xs[-1] + "⟩" if len(xs) == 2 else "⟨%s, %s⟩" % (xs[0], _conj(xs[1:]))


def summary(est, notest, unh, nfun):
    wide = [e for e in est if e[0] == "wide"]
    narrow = [e for e in est if e[0] == "narrow"]
    M = len(est) + len(notest) + len(unh)
    reasons = {}
    for _, _, r in unh:
        key = re.sub(r" — `.*", "", r)
        key = re.sub(r"label \w+", "label L", key)
        key = re.sub(r"(of|to) [\w\.\->\[\]]+ ", r"\1 X ", key)[:70]
        reasons[key] = reasons.get(key, 0) + 1
    return dict(functions_scanned=nfun, multi_acquisition_functions=M, established=len(wide) + len(narrow),
                established_wide=sorted("%s:%s" % (e[2], e[1]) for e in wide), established_narrow=sorted("%s:%s" % (e[2], e[1]) for e in narrow),
                not_established=[dict(fn="%s:%s" % (b, a), why=c) for a, b, c, _ in notest],
                unhandled=[dict(fn="%s:%s" % (b, a), reason=c) for a, b, c in unh],
                unhandled_reasons=dict(sorted(reasons.items(), key=lambda x: -x[1])),
                steps_by_function={"%s:%s" % (e[2], e[1]): sorted({("prim" if c[0] == "prim" else c[1]) for v in e[3] for c in v.callees if c[0] != "none"}) for e in wide},
                tables=sum(len(e[3]) for e in wide), paths=sum(e[4] for e in wide),
                steps=sum(len(v.ops) for e in wide for v in e[3]),
                assumed_inert=sorted({x for e in wide for v in e[3] for x in v.assumed_inert}),
                trusted=sorted({x for e in wide for v in e[3] for x in v.trusted}))


def main():
    repo = os.environ.get("HAWK_REPO", "/repo")
    out = os.path.join(os.path.dirname(HERE), "lean", "HawkModel", "Gen", "UnwindWide.lean")
    a = sys.argv[1:]
    lst = False
    wexp = False
    while a:
        if a[0] == "--repo":
            repo = a[1]; a = a[2:]
        elif a[0] == "--out":
            out = a[1]; a = a[2:]
        elif a[0] == "--list":
            lst = True; a = a[1:]
        elif a[0] == "--write-expected":
            wexp = True; a = a[1:]
        else:
            a = a[1:]
    est, notest, unh, nfun = scan(repo)
    text = emit(est, notest, unh)
    old = open(out).read() if os.path.exists(out) else None
    if old != text:
        with open(out, "w") as f:
            f.write(text)
    s = summary(est, notest, unh, nfun)
    if wexp:
        with open(os.path.join(HERE, "unwind_wide.expected"), "w") as f:
            f.write("\n".join(s["established_wide"]) + "\n")
    if lst:
        print(json.dumps(s, indent=1))
    else:
        print("functions=%d multi-acquisition=%d established=%d (wide %d in %d tables for %d paths, narrow %d) not-established=%d unhandled=%d" % (
            nfun, s["multi_acquisition_functions"], s["established"], len(s["established_wide"]), s["tables"], s["paths"], len(s["established_narrow"]), len(notest), len(unh)))
        for k, v in s["unhandled_reasons"].items():
            print("  %3d  %s" % (v, k))
        for d in s["not_established"]:
            print("  NOT-ESTABLISHED %s: %s" % (d["fn"], d["why"]))
    return 0


if __name__ == "__main__":
    sys.exit(main())
