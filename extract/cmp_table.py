#!/usr/bin/env python3
"""C11 translator: lib/run.c + lib/hawk.h  ->  lean/HawkModel/Gen/CmpTable.lean

Extracted (all by text patterns; anything that does not match exactly raises TranslateError = fail closed):
  * enum hawk_val_type_t: the enumerators whose values index the table (0..stride-1), in value order
  * the index expression `func[lvtype * <stride> + rvtype]` of __cmp_val
  * the `func[]` initializer of __cmp_val: the __cmp_<l>_<r> names in source order
  * the body shape of every __cmp_<l>_<r>:
       mirror(l', r')  n = __cmp_<l'>_<r'>(rtx, right, left, inverse_cmp_op(op_hint)); if (n == CMP_ERROR) return CMP_ERROR; return -n;
       alias(l', r')   return __cmp_<l'>_<r'>(rtx, left, right, op_hint);
       notEqual        return __cmp_ensure_not_equal(rtx, op_hint);
       reject          hawk_rtx_seterrnum (rtx, HAWK_NULL, HAWK_EOPERAND); return CMP_ERROR;
       base            anything else that calls no other __cmp_<x>_<y> routine and does not touch inverse_cmp_op
  * inverse_cmp_op_tab, the cmp_op_t enumerators, the return value of each case of __cmp_ensure_not_equal
  * for each eval_binop_{eq,ne,gt,ge,lt,le}: the hint passed to __cmp_val and the test applied to n;
    eval_binop_{teq,tne}: which of ONE/ZERO is returned when teq_val() is true
The Lean side (HawkModel/Cmp.lean) interprets the generated table; Props/C11.lean `dispatch_correct`
compares every generated item with what the hand-written model uses.
"""
import hashlib, os, re, sys

HERE = os.path.dirname(os.path.abspath(__file__))
VERIF = os.path.dirname(HERE)
OUT = os.path.join(VERIF, "lean", "HawkModel", "Gen", "CmpTable.lean")


class TranslateError(Exception):
    pass


def strip_c_comments(s):
    s = re.sub(r"/\*.*?\*/", " ", s, flags=re.S)
    s = re.sub(r"//[^\n]*", " ", s)
    return s


def norm(s):
    return re.sub(r"\s+", "", s)


def func_body(src, name):
    """body text (between the outermost braces) of the definition of C function `name`"""
    m = re.search(r"\b(?:static\s+)?(?:HAWK_INLINE\s+)?[\w\*\s]+?\b%s\s*\([^;{]*?\)\s*\{" % re.escape(name), src)
    if not m:
        raise TranslateError("definition of %s not found" % name)
    i = m.end()
    depth = 1
    j = i
    while j < len(src) and depth:
        if src[j] == "{":
            depth += 1
        elif src[j] == "}":
            depth -= 1
        j += 1
    if depth:
        raise TranslateError("unbalanced braces in %s" % name)
    return src[i:j - 1]


def parse_enum(src, enum_name):
    m = re.search(r"enum\s+%s\s*\{(.*?)\}\s*;" % re.escape(enum_name), src, re.S)
    if not m:
        raise TranslateError("enum %s not found" % enum_name)
    out = []
    nxt = 0
    for item in m.group(1).split(","):
        item = item.strip()
        if not item:
            continue
        mm = re.fullmatch(r"(\w+)(?:\s*=\s*(\d+))?", item)
        if not mm:
            raise TranslateError("enum %s: cannot read enumerator %r" % (enum_name, item))
        v = int(mm.group(2)) if mm.group(2) is not None else nxt
        out.append((mm.group(1), v))
        nxt = v + 1
    return out


TESTS = {"n==0": 0, "n!=0": 1, "n>0": 2, "n>=0": 3, "n<0": 4, "n<=0": 5}


def translate(repo):
    run_c = strip_c_comments(open(os.path.join(repo, "lib", "run.c"), errors="replace").read())
    hawk_h = strip_c_comments(open(os.path.join(repo, "lib", "hawk.h"), errors="replace").read())

    # ---- __cmp_val: index expression and table
    body = func_body(run_c, "__cmp_val")
    m = re.search(r"\bfunc\s*\[\s*lvtype\s*\*\s*(\d+)\s*\+\s*rvtype\s*\]\s*\(\s*rtx\s*,\s*left\s*,\s*right\s*,\s*op_hint\s*\)", body)
    if not m:
        raise TranslateError("__cmp_val: index expression func[lvtype * N + rvtype](rtx, left, right, op_hint) not found")
    stride = int(m.group(1))
    m = re.search(r"static\s+cmp_val_t\s+func\s*\[\s*\]\s*=\s*\{(.*?)\}\s*;", body, re.S)
    if not m:
        raise TranslateError("__cmp_val: func[] initializer not found")
    names = [x.strip() for x in m.group(1).split(",") if x.strip()]

    # ---- value types that index the table
    vt = parse_enum(hawk_h, "hawk_val_type_t")
    types = sorted([(v, n) for n, v in vt if v < stride])
    if [v for v, _ in types] != list(range(stride)):
        raise TranslateError("hawk_val_type_t: values 0..%d are not each taken exactly once: %r" % (stride - 1, types))
    tname = {}
    for v, n in types:
        if not n.startswith("HAWK_VAL_"):
            raise TranslateError("unexpected enumerator " + n)
        tname[n[len("HAWK_VAL_"):].lower()] = v
    if len(names) != stride * stride:
        raise TranslateError("func[] has %d entries, expected %d" % (len(names), stride * stride))

    def code_of(fn):
        mm = re.fullmatch(r"__cmp_([a-z]+)_([a-z]+)", fn)
        if not mm or mm.group(1) not in tname or mm.group(2) not in tname:
            raise TranslateError("func[] entry %r is not __cmp_<type>_<type> over %r" % (fn, sorted(tname)))
        return tname[mm.group(1)], tname[mm.group(2)]
    table = [code_of(n) for n in names]

    # ---- shapes of all routines named over the type set (whether or not they are in the table)
    shapes = {}
    digests = {}
    for ln, lc in sorted(tname.items(), key=lambda x: x[1]):
        for rn, rc in sorted(tname.items(), key=lambda x: x[1]):
            fn = "__cmp_%s_%s" % (ln, rn)
            b = norm(func_body(run_c, fn))
            mm = re.fullmatch(r"intn;n=(__cmp_[a-z]+_[a-z]+)\(rtx,right,left,inverse_cmp_op\(op_hint\)\);if\(n==CMP_ERROR\)returnCMP_ERROR;return-n;", b)
            if mm:
                shapes[(lc, rc)] = ("mirror",) + code_of(mm.group(1))
                continue
            mm = re.fullmatch(r"return(__cmp_[a-z]+_[a-z]+)\(rtx,left,right,op_hint\);", b)
            if mm:
                shapes[(lc, rc)] = ("alias",) + code_of(mm.group(1))
                continue
            if b == "return__cmp_ensure_not_equal(rtx,op_hint);":
                shapes[(lc, rc)] = ("notEqual",)
                continue
            if b == "hawk_rtx_seterrnum(rtx,HAWK_NULL,HAWK_EOPERAND);returnCMP_ERROR;":
                shapes[(lc, rc)] = ("reject",)
                continue
            if re.search(r"__cmp_[a-z]+_[a-z]+\(", b) or "inverse_cmp_op" in b or "func[" in b:
                raise TranslateError("%s: body delegates to another routine in a shape the translator does not know: %s" % (fn, b[:200]))
            shapes[(lc, rc)] = ("base",)
            digests[(lc, rc)] = hashlib.sha1(b.encode()).hexdigest()[:12]

    # ---- cmp_op_t, inverse table, ensure_not_equal
    ops = parse_enum(run_c, "cmp_op_t")
    opcode = dict(ops)
    want_ops = ["CMP_OP_NONE", "CMP_OP_EQ", "CMP_OP_NE", "CMP_OP_GT", "CMP_OP_GE", "CMP_OP_LT", "CMP_OP_LE"]
    if [n for n, _ in ops] != want_ops or [v for _, v in ops] != list(range(7)):
        raise TranslateError("cmp_op_t is not the expected 7 enumerators 0..6: %r" % ops)
    b = func_body(run_c, "inverse_cmp_op")
    m = re.search(r"inverse_cmp_op_tab\s*\[\s*\]\s*=\s*\{(.*?)\}\s*;", b, re.S)
    if not m or not re.search(r"return\s+inverse_cmp_op_tab\s*\[\s*op\s*\]\s*;", b):
        raise TranslateError("inverse_cmp_op: table or indexing not recognised")
    inv = [x.strip() for x in m.group(1).split(",") if x.strip()]
    if len(inv) != 7 or any(x not in opcode for x in inv):
        raise TranslateError("inverse_cmp_op_tab: unexpected entries %r" % inv)
    inverse = [opcode[x] for x in inv]

    b = norm(func_body(run_c, "__cmp_ensure_not_equal"))
    m = re.fullmatch(r"switch\(op_hint\)\{(.*)\}", b)
    if not m:
        raise TranslateError("__cmp_ensure_not_equal: not a single switch(op_hint)")
    ene = {}
    pos = 0
    sw = m.group(1)
    arm = re.compile(r"((?:caseCMP_OP_[A-Z]+:)+)return(-?\d+);|default:hawk_rtx_seterrnum\(rtx,HAWK_NULL,HAWK_EOPERAND\);return(-?\d+);")
    while pos < len(sw):
        mm = arm.match(sw, pos)
        if not mm:
            raise TranslateError("__cmp_ensure_not_equal: unrecognised switch arm at %r" % sw[pos:pos + 80])
        if mm.group(1):
            for lab in re.findall(r"case(CMP_OP_[A-Z]+):", mm.group(1)):
                ene[opcode[lab]] = int(mm.group(2))
        else:
            ene["default"] = int(mm.group(3))
        pos = mm.end()
    if "default" not in ene:
        raise TranslateError("__cmp_ensure_not_equal: no default arm")
    ene_tab = [ene.get(i, ene["default"]) for i in range(7)]

    # ---- operators
    binops = []
    for op in ["eq", "ne", "gt", "ge", "lt", "le"]:
        b = norm(func_body(run_c, "eval_binop_" + op))
        mm = re.fullmatch(r"intn;if\(__cmp_val\(rtx,left,right,(CMP_OP_[A-Z]+),&n\)<=-1\)returnHAWK_NULL;return\((n[=!<>]+0)\)\?HAWK_VAL_ONE:HAWK_VAL_ZERO;", b)
        if not mm or mm.group(2) not in TESTS:
            raise TranslateError("eval_binop_%s: body not recognised: %s" % (op, b[:200]))
        binops.append((op, opcode[mm.group(1)], TESTS[mm.group(2)]))
    teq = []
    for op in ["teq", "tne"]:
        b = norm(func_body(run_c, "eval_binop_" + op))
        mm = re.fullmatch(r"returnteq_val\(rtx,left,right\)\?HAWK_VAL_(ONE|ZERO):HAWK_VAL_(ONE|ZERO);", b)
        if not mm or mm.group(1) == mm.group(2):
            raise TranslateError("eval_binop_%s: body not recognised: %s" % (op, b[:200]))
        teq.append((op, mm.group(1) == "ONE"))
    b = norm(func_body(run_c, "hawk_rtx_cmpval"))
    if b != "return__cmp_val(rtx,left,right,CMP_OP_NONE,ret);":
        raise TranslateError("hawk_rtx_cmpval: body not recognised: " + b[:200])

    return dict(stride=stride, types=[(n, v) for n, v in sorted(tname.items(), key=lambda x: x[1])], table=table,
                shapes=shapes, digests=digests, inverse=inverse, ene=ene_tab, binops=binops, teq=teq)


def render(t):
    L = []
    L.append("/-! GENERATED by extract/cmp_table.py from lib/run.c and lib/hawk.h of the hawk working tree.")
    L.append("    Do not edit: regenerated on every `./check C11` (written only when the content changes). -/")
    L.append("namespace Hawk.Cmp.Gen")
    L.append("")
    L.append("/-- the `HAWK_VAL_*` enumerators (lower-cased suffix) whose values index `func[]`, with their values -/")
    L.append("def valTypes : List (String × Nat) := [%s]" % ", ".join('("%s", %d)' % (n, v) for n, v in t["types"]))
    L.append("")
    L.append("/-- `N` of the index expression `func[lvtype * N + rvtype]` -/")
    L.append("def stride : Nat := %d" % t["stride"])
    L.append("")
    L.append("/-- the `func[]` initializer of `__cmp_val` in source order: `__cmp_<l>_<r>` as (value of HAWK_VAL_<L>, value of HAWK_VAL_<R>) -/")
    L.append("def table : List (Nat × Nat) := [")
    s = t["stride"]
    for i in range(0, len(t["table"]), s):
        L.append("  " + ", ".join("(%d, %d)" % p for p in t["table"][i:i + s]) + ("," if i + s < len(t["table"]) else ""))
    L.append("]")
    L.append("")
    L.append("/-- shape of a routine body; `mirror l r` = `-(__cmp_<l>_<r>(rtx, right, left, inverse_cmp_op(op_hint)))`,")
    L.append("    `alias l r` = `__cmp_<l>_<r>(rtx, left, right, op_hint)`, `notEqual` = `__cmp_ensure_not_equal(rtx, op_hint)`,")
    L.append("    `reject` = set EOPERAND and return CMP_ERROR, `base` = a routine with its own comparison code -/")
    L.append("inductive Shape where")
    L.append("  | base | mirror (l r : Nat) | alias (l r : Nat) | notEqual | reject")
    L.append("  deriving DecidableEq, Repr")
    L.append("")
    L.append("def shapes : List ((Nat × Nat) × Shape) := [")
    items = sorted(t["shapes"].items())
    for k, (key, sh) in enumerate(items):
        txt = "." + sh[0] + ("" if len(sh) == 1 else " %d %d" % (sh[1], sh[2]))
        L.append("  ((%d, %d), %s)%s" % (key[0], key[1], txt, "," if k + 1 < len(items) else ""))
    L.append("]")
    L.append("")
    L.append("/-- shape of `__cmp_<l>_<r>`; a pair that has no routine reads as `reject` -/")
    L.append("def shape (l r : Nat) : Shape :=")
    L.append("  match shapes.find? (fun e => e.1.1 == l && e.1.2 == r) with")
    L.append("  | some e => e.2")
    L.append("  | none => .reject")
    L.append("")
    L.append("/-- `inverse_cmp_op_tab` as cmp_op_t values (NONE=0 EQ=1 NE=2 GT=3 GE=4 LT=5 LE=6) -/")
    L.append("def inverseTab : List Nat := [%s]" % ", ".join(str(x) for x in t["inverse"]))
    L.append("")
    L.append("/-- value returned by `__cmp_ensure_not_equal` for each cmp_op_t value (the `default` arm, which also sets EOPERAND, for NONE) -/")
    L.append("def ensureNotEqualTab : List Int := [%s]" % ", ".join(str(x) for x in t["ene"]))
    L.append("")
    L.append("/-- `eval_binop_<op>`: (op, hint passed to `__cmp_val`, test on n: 0 `n==0` 1 `n!=0` 2 `n>0` 3 `n>=0` 4 `n<0` 5 `n<=0`) -/")
    L.append("def binops : List (String × Nat × Nat) := [%s]" % ", ".join('("%s", %d, %d)' % b for b in t["binops"]))
    L.append("")
    L.append("/-- `eval_binop_teq` / `eval_binop_tne`: result when `teq_val` says true -/")
    L.append("def teqOps : List (String × Bool) := [%s]" % ", ".join('("%s", %s)' % (n, "true" if v else "false") for n, v in t["teq"]))
    L.append("")
    # the text digests of the base routines are NOT written into the Lean file (a textual change of a routine body would
    # force a rebuild of every proof); they go to the evidence and are compared with extract/cmp_base_digests.json
    L.append("end Hawk.Cmp.Gen")
    return "\n".join(L) + "\n"


def generate(repo, out=OUT):
    """returns (changed, info dict)"""
    t = translate(repo)
    txt = render(t)
    old = open(out).read() if os.path.exists(out) else None
    if old != txt:
        os.makedirs(os.path.dirname(out), exist_ok=True)
        with open(out, "w") as f:
            f.write(txt)
    return old != txt, t


if __name__ == "__main__":
    args = [a for a in sys.argv[1:] if not a.startswith("--")]
    repo = args[0] if args else os.environ.get("HAWK_REPO", "/repo")
    try:
        ch, t = generate(repo)
        if "--record" in sys.argv:
            # remember the text digests of the routines that HawkModel/Cmp.lean transcribes by hand
            import json
            with open(os.path.join(HERE, "cmp_base_digests.json"), "w") as f:
                json.dump({"%d,%d" % k: v for k, v in sorted(t["digests"].items())}, f, indent=1, sort_keys=True)
                f.write("\n")
    except TranslateError as e:
        print("TRANSLATE-ERROR: %s" % e)
        sys.exit(1)
    print("%s %s: %d table entries, shapes: %s" % ("wrote" if ch else "unchanged", OUT, len(t["table"]),
          ", ".join("%s=%d" % (k, sum(1 for s in t["shapes"].values() if s[0] == k)) for k in ["base", "mirror", "alias", "notEqual", "reject"])))
