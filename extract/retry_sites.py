#!/usr/bin/env python3
"""C01 translator: retry-after-failure loops — `do { if (attempt succeeded) break; if (give-up test) return/fail; step; } while (1)`.

Such a loop runs inside one statement of the script and looks at no halt request; it ends only because its step makes
the give-up test true after finitely many failing attempts.  Scope: every loop with a constant-true (or absent)
condition in lib/arr.c, lib/ecs.c (+ ecs-imp.h), lib/val.c, lib/rec.c, lib/misc.c, lib/htb.c, lib/rbt.c whose FIRST
statement is `if (<call>(...) <cmp> <failure value>) break;` (the attempt).  One row per loop:
  file, fn, line, attempt (callee), var X, floor M, giveup (canonical text of the give-up condition), step (canonical
  text of the right-hand side of the last assignment / in- or decrement of X in the body), shape:
     halveAbove   give-up `X <= M`, step `X = M + (X - M) / 2`
     decrement    give-up `X <= M`, step `X--` / `--X` / `X -= 1` / `X = X - 1`
     other        anything else (rejected by the theorem: the measure X - M must be known to go down)
Loops with a constant-true condition that do not start with an attempt (input readers, scanners) are counted, not listed:
they consume input, their bound is the input length (the loops table of halt_polled / C12 own those).
Output: lean/HawkModel/Gen/RetrySites.lean; `retry_measure_decreases` (Props/C01.lean).
"""
import os, re, sys
HERE = os.path.dirname(os.path.abspath(__file__))
sys.path.insert(0, HERE)
import c01_clang as A  # noqa: E402
from c01_clang import kids, strip, unparse, Unknown, C  # noqa: E402
import c01_paths as P  # noqa: E402

FILES = ["arr.c", "ecs.c", "val.c", "rec.c", "misc.c", "htb.c", "rbt.c"]
ALSO = {"ecs.c": ["ecs-imp.h"]}


def const_true(n):
    if not n:
        return True
    n = strip(n)
    return n.get("kind") == "IntegerLiteral" and n.get("value") != "0"


def is_break_if(s):
    """`if (cond) break;` -> cond node"""
    if s.get("kind") != "IfStmt":
        return None
    raw = s.get("inner") or []
    if len(raw) != 2:
        return None
    b = raw[1]
    if b.get("kind") == "CompoundStmt" and len(kids(b)) == 1:
        b = kids(b)[0]
    return raw[0] if b.get("kind") == "BreakStmt" else None


def find_call(n):
    out = []

    def w(x, d):
        if x.get("kind") == "CallExpr":
            try:
                out.append(P.callee(x) or unparse(kids(x)[0]))
            except Unknown:
                out.append("?")
    A.walk(n, w)
    return out


def scan(f):
    path = os.path.join(C.REPO, "lib", f)
    if not os.path.exists(path):
        return [], 0
    ast, src = A.load_ast(path)
    okfiles = {path} | {os.path.join(C.REPO, "lib", x) for x in ALSO.get(f, [])}
    rows, others = [], 0
    for n in ast.get("inner", []):
        if n.get("kind") != "FunctionDecl":
            continue
        body = [c for c in n.get("inner", []) if c.get("kind") == "CompoundStmt"]
        b = n.get("range", {}).get("begin")
        if not body or not b or A.eloc(b).get("_file") not in okfiles:
            continue
        fname, ffile = n["name"], os.path.basename(A.eloc(b).get("_file"))

        def w(x, d):
            nonlocal others
            k = x.get("kind")
            raw = x.get("inner") or []
            if k == "WhileStmt":
                cnd, lb = raw[0], raw[1]
            elif k == "DoStmt":
                lb, cnd = raw[0], raw[1]
            elif k == "ForStmt" and len(raw) == 5:
                cnd, lb = raw[2], raw[4]
                if raw[3]:
                    return      # a for statement with an increment is a counted loop
            else:
                return
            if not const_true(cnd):
                return
            st = kids(lb) if lb.get("kind") == "CompoundStmt" else [lb]
            att = is_break_if(st[0]) if st else None
            if att is None or not find_call(att):
                others += 1
                return
            row = dict(file=ffile, fn=fname, line=A.line_of(x), attempt=find_call(att)[0], var="", floor="", giveup="", step="", shape="other")
            # give-up: a later `if (c) { ... return/goto }`
            for s in st[1:]:
                if s.get("kind") == "IfStmt":
                    r = s.get("inner") or []
                    if len(r) == 2 and P.always_exits(r[1]):
                        c = P.cond_core(r[0])
                        row["giveup"] = P.ctext(c)
                        if c.get("kind") == "BinaryOperator" and c.get("opcode") == "<=":
                            row["var"], row["floor"] = unparse(P.uncast(kids(c)[0])), unparse(P.uncast(kids(c)[1]))
                        break
            X, M = row["var"], row["floor"]
            if X:
                for s in st[1:]:
                    s2 = strip(s)
                    c = kids(s2)
                    if s2.get("kind") == "BinaryOperator" and s2.get("opcode") == "=" and unparse(c[0]) == X:
                        row["step"] = unparse(c[1])
                    elif s2.get("kind") == "UnaryOperator" and s2.get("opcode") in ("--", "++") and unparse(c[0]) == X:
                        row["step"] = "%s%s1" % (X, s2["opcode"][0])
                    elif s2.get("kind") == "CompoundAssignOperator" and unparse(c[0]) == X:
                        row["step"] = "(%s%s%s)" % (X, s2.get("opcode")[:-1], unparse(c[1]))
                if row["step"] == "(%s+((%s-%s)/2))" % (M, X, M):
                    row["shape"] = "halveAbove"
                elif row["step"] in ("%s-1" % X, "(%s-1)" % X):
                    row["shape"] = "decrement"
            rows.append(row)
        A.walk(body[0], w)
    return rows, others


def generate():
    rows, others = [], 0
    for f in FILES:
        r, o = scan(f)
        rows += r
        others += o
    if not any(r["file"] == "arr.c" and r["fn"] == "hawk_arr_insert" for r in rows):
        raise Unknown("the capacity back-off loop of hawk_arr_insert (arr.c) is not recognised any more")
    L = ["/-! GENERATED by extract/retry_sites.py — do not edit.  Retry-after-failure loops and their steps. -/",
         "namespace Hawk.Gen.RetrySites", "",
         "inductive Shape where", "  | halveAbove | decrement | other", "  deriving DecidableEq, Repr", "",
         "structure Row where", "  file : String", "  fn : String", "  line : Nat", "  attempt : String", "  var : String", "  floor : String", "  giveup : String",
         "  step : String", "  shape : Shape", "",
         "def rows : List Row := [",
         ",\n".join("  ⟨%s, %s, %d, %s, %s, %s, %s, %s, .%s⟩" % (A.lean_str(r["file"]), A.lean_str(r["fn"]), r["line"], A.lean_str(r["attempt"]), A.lean_str(r["var"]), A.lean_str(r["floor"]),
                                                               A.lean_str(r["giveup"]), A.lean_str(r["step"]), r["shape"]) for r in rows), "]", "",
         "end Hawk.Gen.RetrySites", ""]
    return "\n".join(L), rows, others


def main():
    txt, rows, others = generate()
    out = os.path.join(C.LEAN, "HawkModel", "Gen", "RetrySites.lean")
    ch = C.write_if_changed(out, txt)
    print("retry_sites: %d retry-after-failure loops %s (%d other constant-true loops not listed), %d without a decreasing step -> %s%s" % (
        len(rows), [(r["fn"], r["shape"]) for r in rows], others, len([r for r in rows if r["shape"] == "other"]), out, " (changed)" if ch else ""))
    return rows


if __name__ == "__main__":
    rows = main()
    if "-v" in sys.argv:
        for r in rows:
            print("retry", r)
