"""Shared helper for the C01 translators: clang-14 JSON AST of one hawk source file.

The translators use the AST only for *structure* (which statement encloses which, case labels,
operand trees).  Everything they do not recognise raises Unknown -> the check fails closed.
"""
import json, os, subprocess, hashlib, sys

HERE = os.path.dirname(os.path.abspath(__file__))
sys.path.insert(0, os.path.dirname(HERE))
from vlib import common as C  # noqa: E402


class Unknown(Exception):
    pass


def _annotate(x, cur):
    """clang prints 'file' and 'line' only when they change (document order); make them explicit."""
    if isinstance(x, dict):
        if "offset" in x and ("tokLen" in x or "col" in x):
            if "file" in x:
                cur[0] = x["file"]
            if "line" in x:
                cur[1] = x["line"]
            x["_file"] = cur[0]
            x["_line"] = cur[1]
            # includedFrom etc. are not locations
            return
        for k, v in x.items():
            if k in ("includedFrom",):
                continue
            _annotate(v, cur)
    elif isinstance(x, list):
        for v in x:
            _annotate(v, cur)


def load_ast(src):
    """returns (ast, source_text).  src = absolute path of a .c file under REPO/lib or REPO/bin."""
    import glob
    gccinc = []
    for d in sorted(glob.glob("/usr/lib/gcc/x86_64-linux-gnu/*/include")):
        gccinc += ["-idirafter", d]     # quadmath.h lives with gcc
    cmd = ["clang-14", "-fsyntax-only", "-Xclang", "-ast-dump=json"] + C.CDEFS + \
          ["-I" + C.REPO + "/lib", "-I" + C.REPO + "/mod"] + gccinc + [src]
    p = subprocess.run(cmd, stdout=subprocess.PIPE, stderr=subprocess.PIPE)
    if p.returncode != 0 or not p.stdout:
        raise Unknown("clang-14 could not parse %s: %s" % (src, p.stderr.decode(errors="replace")[-800:]))
    ast = json.loads(p.stdout)
    _annotate(ast, [None, None])
    return ast, open(src, encoding="utf-8", errors="replace").read()


def eloc(loc):
    """expansion-side location of a range endpoint"""
    return loc.get("expansionLoc", loc)


def sloc(loc):
    return loc.get("spellingLoc", loc)


def line_of(node):
    b = node.get("range", {}).get("begin")
    if not b:
        return 0
    return eloc(b).get("_line") or 0


def in_file(node, path):
    b = node.get("range", {}).get("begin")
    if not b:
        return False
    return eloc(b).get("_file") == path


def functions(ast, path):
    """FunctionDecls with a body whose body sits in `path`"""
    out = []
    for n in ast.get("inner", []):
        if n.get("kind") == "FunctionDecl" and in_file(n, path):
            body = [c for c in n.get("inner", []) if c.get("kind") == "CompoundStmt"]
            if body:
                out.append((n["name"], n, body[0]))
    return out


def kids(n):
    return [c for c in (n.get("inner") or []) if isinstance(c, dict) and c]


TRANSPARENT = ("ImplicitCastExpr", "ParenExpr", "ConstantExpr")


def strip(n):
    """drop parens / implicit casts"""
    while n.get("kind") in TRANSPARENT and kids(n):
        n = kids(n)[0]
    return n


def is_valtype_macro(n):
    """HAWK_RTX_GETVALTYPE(rtx,S) expands to  IS_INT(S)? INT : IS_CHAR(S)? CHAR : IS_BCHR(S)? BCHR : (S)->v_type.
    Recognised structurally: a ConditionalOperator whose else-chain ends in a MemberExpr .v_type, and whose
    three constant arms are HAWK_VAL_INT/CHAR/BCHR in that order.  Returns the subject node S or None."""
    n = strip(n)
    if n.get("kind") != "ConditionalOperator":
        return None
    arms = []
    cur = n
    while cur.get("kind") == "ConditionalOperator":
        k = kids(cur)
        if len(k) != 3:
            return None
        a = strip(k[1])
        arms.append(a.get("referencedDecl", {}).get("name") if a.get("kind") == "DeclRefExpr" else None)
        cur = strip(k[2])
    if cur.get("kind") == "MemberExpr" and cur.get("name") == "v_type":
        full = ["HAWK_VAL_INT", "HAWK_VAL_CHAR", "HAWK_VAL_BCHR"]
        if arms != full and arms in (full[1:], full[2:]):
            return None     # an inner part of the expansion
        if arms != full:
            raise Unknown("value-type macro has unexpected shape: arms %r" % (arms,))
        return strip(kids(cur)[0])
    return None


COUNTOF_AS_NUMBER = False     # subscript_sites.py: render sizeof(arr)/sizeof(arr[0]) as the declared length of arr


def countof(n):
    """HAWK_COUNTOF(arr) = sizeof(arr)/sizeof(arr[0]) with arr of a constant array type -> its length, else None"""
    import re as _re
    if n.get("kind") != "BinaryOperator" or n.get("opcode") != "/":
        return None
    a, b = [strip(x) for x in kids(n)]
    if a.get("kind") != "UnaryExprOrTypeTraitExpr" or b.get("kind") != "UnaryExprOrTypeTraitExpr" or a.get("name") != "sizeof" or b.get("name") != "sizeof":
        return None
    ka, kb = kids(a), kids(b)
    if not ka or not kb:
        return None
    ta = strip(ka[0]).get("type", {}).get("qualType", "")
    m = _re.fullmatch(r"(.*\S)\s*\[(\d+)\]", ta)
    eb = strip(kb[0])
    if not m or eb.get("kind") != "ArraySubscriptExpr":
        return None
    try:
        if unparse(kids(eb)[0]) != unparse(ka[0]) or unparse(kids(eb)[1]) != "0":
            return None
    except Unknown:
        return None
    return int(m.group(2))


def unparse(n):
    """canonical text of an expression tree (no whitespace; implicit casts and parentheses dropped)"""
    n = strip(n)
    k = n.get("kind")
    if COUNTOF_AS_NUMBER and k == "BinaryOperator":
        v = countof(n)
        if v is not None:
            return str(v)
    s = is_valtype_macro(n) if k == "ConditionalOperator" else None
    if s is not None:
        return "VT(%s)" % unparse(s)
    c = kids(n)
    if k == "DeclRefExpr":
        return n["referencedDecl"]["name"]
    if k == "IntegerLiteral":
        return str(n.get("value"))
    if k == "FloatingLiteral":
        return str(n.get("value"))
    if k == "CharacterLiteral":
        return "'%s'" % n.get("value")
    if k == "StringLiteral":
        return n.get("value", '""')
    if k == "MemberExpr":
        return "%s%s%s" % (unparse(c[0]), "->" if n.get("isArrow") else ".", n.get("name"))
    if k == "CStyleCastExpr":
        return "(%s)%s" % (n["type"]["qualType"].replace(" ", ""), unparse(c[0]))
    if k == "UnaryOperator":
        op = n.get("opcode")
        return ("%s%s" % (unparse(c[0]), op)) if n.get("isPostfix") else ("%s%s" % (op, unparse(c[0])))
    if k in ("BinaryOperator", "CompoundAssignOperator"):
        return "(%s%s%s)" % (unparse(c[0]), n.get("opcode"), unparse(c[1]))
    if k == "ConditionalOperator":
        return "(%s?%s:%s)" % (unparse(c[0]), unparse(c[1]), unparse(c[2]))
    if k == "CallExpr":
        return "%s(%s)" % (unparse(c[0]), ",".join(unparse(a) for a in c[1:]))
    if k == "ArraySubscriptExpr":
        return "%s[%s]" % (unparse(c[0]), unparse(c[1]))
    if k == "UnaryExprOrTypeTraitExpr":
        return "sizeof(..)"
    if k == "StmtExpr":
        return "({..})"
    if k in ("InitListExpr", "CompoundLiteralExpr", "ImplicitValueInitExpr", "OffsetOfExpr", "PredefinedExpr", "VAArgExpr"):
        return "<%s>" % k
    raise Unknown("cannot unparse %s at line %s" % (k, line_of(n)))


def walk(n, fn, depth=0):
    fn(n, depth)
    for c in kids(n):
        walk(c, fn, depth + 1)


def lean_str(s):
    return '"' + s.replace("\\", "\\\\").replace('"', '\\"') + '"'
