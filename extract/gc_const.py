#!/usr/bin/env python3
"""T (translator) for C07: the constants and the phase skeleton of the cycle collector, read from the REAL sources.

From $HAWK_REPO/lib:
  * hawk-prv.h  `#define HAWK_GC_NUM_GENS (N)` and the sizes of rtx->gc.g / pressure / threshold,
  * val.c       the two sentinels `GCH_MOVED` (= HAWK_TYPE_MAX(hawk_uintptr_t), all bits set = -1) and
                `GCH_UNREACHABLE` (= GCH_MOVED - k), the promotion rule `newgen = (gen < COUNTOF(g) - 1)? (gen + 1): gen`,
                the order of the phases of gc_collect_garbage_in_generation (merge younger lists, gc_trace_refs,
                gc_move_reachables, gc_free_unreachables, move survivors to newgen) and the three counter updates
                `pressure[gen + 1]++; pressure[gen] = 0; pressure[0] = 0;`, the comparison of gc_collect_garbage_auto
                (`pressure[i] >= threshold[i]`, oldest generation first) and of gc_calloc_val (`pressure[0] >= threshold[0]`),
  * run.c       the initial thresholds `(COUNTOF(g) - i) * M`, generation 0 at least F.
Everything is matched textually and FAILS CLOSED: a source shape the patterns do not know raises (the check then
reports VIOLATION ... no-failing-input-found); nothing is guessed.  The numbers go to
lean/HawkModel/Gen/GcConst.lean; `Hawk.Gc.C07.consts_match_source` (Props/C07.lean) proves that the hand-written
model uses exactly these values, so a changed constant breaks the proof instead of going unnoticed.

usage: gc_const.py [--check]   (prints the generated text; --check exits 1 if the file on disk differs)
"""
import os, re, sys

HERE = os.path.dirname(os.path.abspath(__file__))
VERIF = os.path.dirname(HERE)
REPO = os.environ.get("HAWK_REPO", "/repo")
OUT = os.path.join(VERIF, "lean", "HawkModel", "Gen", "GcConst.lean")


class Unknown(Exception):
    pass


def need(pat, text, what, flags=0):
    m = re.search(pat, text, flags)
    if not m:
        raise Unknown("extract/gc_const.py: source shape not recognised: " + what)
    return m


def strip_comments(t):
    t = re.sub(r"/\*.*?\*/", " ", t, flags=re.S)
    return re.sub(r"//[^\n]*", " ", t)


def body_of(text, header_pat, what):
    m = need(header_pat, text, what)
    i = text.index("{", m.end() - 1)
    depth, j = 0, i
    while True:
        if text[j] == "{":
            depth += 1
        elif text[j] == "}":
            depth -= 1
            if depth == 0:
                return text[i:j + 1]
        j += 1
        if j >= len(text):
            raise Unknown("extract/gc_const.py: unbalanced braces in " + what)


def extract(repo=REPO):
    lib = os.path.join(repo, "lib")
    prv = strip_comments(open(os.path.join(lib, "hawk-prv.h"), encoding="utf-8", errors="replace").read())
    val = strip_comments(open(os.path.join(lib, "val.c"), encoding="utf-8", errors="replace").read())
    run = strip_comments(open(os.path.join(lib, "run.c"), encoding="utf-8", errors="replace").read())
    v = {}
    v["NUMGENS"] = int(need(r"#\s*define\s+HAWK_GC_NUM_GENS\s+\(?\s*(\d+)\s*\)?", prv, "HAWK_GC_NUM_GENS").group(1))
    need(r"hawk_gch_t\s+g\s*\[\s*HAWK_GC_NUM_GENS\s*\]", prv, "rtx->gc.g[HAWK_GC_NUM_GENS]")
    need(r"hawk_oow_t\s+pressure\s*\[\s*HAWK_GC_NUM_GENS\s*\+\s*1\s*\]", prv, "rtx->gc.pressure[HAWK_GC_NUM_GENS + 1]")
    need(r"hawk_oow_t\s+threshold\s*\[\s*HAWK_GC_NUM_GENS\s*\]", prv, "rtx->gc.threshold[HAWK_GC_NUM_GENS]")
    # sentinels
    need(r"#\s*define\s+GCH_MOVED\s+HAWK_TYPE_MAX\s*\(\s*hawk_uintptr_t\s*\)", val, "GCH_MOVED = HAWK_TYPE_MAX(hawk_uintptr_t)")
    v["MOVED"] = -1
    m = need(r"#\s*define\s+GCH_UNREACHABLE\s+\(\s*GCH_MOVED\s*-\s*(\d+)\s*\)", val, "GCH_UNREACHABLE = (GCH_MOVED - k)")
    v["UNREACHABLE"] = -1 - int(m.group(1))
    # the collection of one generation: order of the phases, promotion rule, counter updates
    b = body_of(val, r"gc_collect_garbage_in_generation\s*\(\s*hawk_rtx_t\s*\*\s*rtx\s*,\s*int\s+gen\s*\)\s*\{", "gc_collect_garbage_in_generation")
    need(r"newgen\s*=\s*\(\s*gen\s*<\s*HAWK_COUNTOF\s*\(\s*rtx->gc\.g\s*\)\s*-\s*1\s*\)\s*\?\s*\(\s*gen\s*\+\s*1\s*\)\s*:\s*gen\s*;", b, "newgen = (gen < COUNTOF(g) - 1)? (gen + 1): gen")
    order = [r"for\s*\(\s*i\s*=\s*0\s*;\s*i\s*<\s*gen\s*;\s*i\+\+\s*\)\s*\{\s*gc_move_all_gchs\s*\(\s*&rtx->gc\.g\[i\]\s*,\s*&rtx->gc\.g\[gen\]\s*\)\s*;\s*\}",
             r"gc_trace_refs\s*\(\s*&rtx->gc\.g\[gen\]\s*\)\s*;",
             r"gc_move_reachables\s*\(\s*&rtx->gc\.g\[gen\]\s*,\s*&reachable\s*\)\s*;",
             r"gc_free_unreachables\s*\(\s*rtx\s*,\s*&rtx->gc\.g\[gen\]\s*\)\s*;",
             r"gc_move_all_gchs\s*\(\s*&reachable\s*,\s*&rtx->gc\.g\[newgen\]\s*\)\s*;",
             r"rtx->gc\.pressure\[gen\s*\+\s*1\]\+\+\s*;",
             r"rtx->gc\.pressure\[gen\]\s*=\s*0\s*;",
             r"rtx->gc\.pressure\[0\]\s*=\s*0\s*;"]
    pos = 0
    for k, pat in enumerate(order):
        m = re.compile(pat).search(b, pos)
        if not m:
            raise Unknown("extract/gc_const.py: phase %d of gc_collect_garbage_in_generation not found in order (%s)" % (k, pat[:50]))
        pos = m.end()
    calls = re.findall(r"\b(gc_\w+)\s*\(", b)
    if calls != ["gc_move_all_gchs", "gc_trace_refs", "gc_move_reachables", "gc_free_unreachables", "gc_move_all_gchs"]:
        raise Unknown("extract/gc_const.py: gc_collect_garbage_in_generation calls %r" % (calls,))
    # the choice of the generation by pressure
    a = body_of(val, r"gc_collect_garbage_auto\s*\(\s*hawk_rtx_t\s*\*\s*rtx\s*\)\s*\{", "gc_collect_garbage_auto")
    need(r"i\s*=\s*HAWK_COUNTOF\s*\(\s*rtx->gc\.g\s*\)\s*;\s*while\s*\(\s*i\s*>\s*1\s*\)\s*\{\s*--i\s*;\s*if\s*\(\s*rtx->gc\.pressure\[i\]\s*>=\s*rtx->gc\.threshold\[i\]\s*\)\s*\{\s*"
         r"gc_collect_garbage_in_generation\s*\(\s*rtx\s*,\s*i\s*\)\s*;\s*return\s+i\s*;\s*\}\s*\}\s*gc_collect_garbage_in_generation\s*\(\s*rtx\s*,\s*0\s*\)\s*;\s*return\s+0\s*;",
         a, "gc_collect_garbage_auto: oldest generation with pressure >= threshold first, else 0")
    c = body_of(val, r"gc_calloc_val\s*\([^)]*\)\s*\{", "gc_calloc_val")
    need(r"rtx->gc\.pressure\[0\]\s*>=\s*rtx->gc\.threshold\[0\]", c, "gc_calloc_val: pressure[0] >= threshold[0]")
    need(r"rtx->gc\.pressure\[0\]\+\+", c, "gc_calloc_val: pressure[0]++")
    # initial thresholds
    m = need(r"rtx->gc\.threshold\[i\]\s*=\s*\(\s*HAWK_COUNTOF\s*\(\s*rtx->gc\.g\s*\)\s*-\s*i\s*\)\s*\*\s*(\d+)\s*;\s*"
             r"if\s*\(\s*i\s*==\s*0\s*&&\s*rtx->gc\.threshold\[i\]\s*<\s*(\d+)\s*\)\s*rtx->gc\.threshold\[i\]\s*=\s*(\d+)\s*;", run,
             "init_rtx: threshold[i] = (COUNTOF(g) - i) * M; generation 0 at least F")
    mul, lo, floor = int(m.group(1)), int(m.group(2)), int(m.group(3))
    thr = [(v["NUMGENS"] - i) * mul for i in range(v["NUMGENS"])]
    if thr[0] < lo:
        thr[0] = floor
    if v["NUMGENS"] != 3:
        raise Unknown("extract/gc_const.py: %d generations; the model (St.p0..p3, t0..t2) is written for 3" % v["NUMGENS"])
    v["T0"], v["T1"], v["T2"] = thr
    return v


def render(v):
    return """/-! GENERATED by extract/gc_const.py from lib/hawk-prv.h, lib/val.c, lib/run.c of the checked tree. DO NOT EDIT.
    numGens = HAWK_GC_NUM_GENS; gchMoved / gchUnreachable = the two sentinels of hawk_gch_t.gc_refs read as
    two's-complement numbers; thr0..2 = rtx->gc.threshold[] as set by init_rtx.  The extractor has also checked the
    order of the phases of gc_collect_garbage_in_generation, the promotion rule, the three counter updates and the
    `>=` comparisons of gc_collect_garbage_auto / gc_calloc_val (it fails closed on any other shape). -/
namespace Hawk.Gc.Gen
def numGens : Nat := %(NUMGENS)d
def gchMoved : Int := %(MOVED)d
def gchUnreachable : Int := %(UNREACHABLE)d
def thr0 : Nat := %(T0)d
def thr1 : Nat := %(T1)d
def thr2 : Nat := %(T2)d
end Hawk.Gc.Gen
""" % v


def main():
    text = render(extract())
    if "--check" in sys.argv:
        cur = open(OUT).read() if os.path.exists(OUT) else ""
        sys.exit(0 if cur == text else 1)
    sys.stdout.write(text)


if __name__ == "__main__":
    main()
